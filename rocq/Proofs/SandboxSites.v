(* C12: table theorems over Gen/IoSites.v (regenerated from the repository on every
   check by translator/gen_c12.go).  The committed classification is in this file; the
   facts come from the generated file.  A new way to reach the file system or to start a
   process in package interp changes the generated tables and breaks an obligation here. *)
From Coq Require Import String List Bool.
From Verif Require Import Gen.IoSites.
Import ListNotations.
Open Scope string_scope.

Definition mem (x : string) (l : list string) : bool := existsb (String.eqb x) l.

(* ---- 1. the committed set of references to os, os/exec, syscall, ... ------------- *)

Definition committed_refs : list pkgref := [
  mkRef "interp.setExecuteConfig" "os" "Environ" true;
  mkRef "(package level)" "os" "File" false;
  mkRef "(package level)" "os" "FileMode" false;
  mkRef "interp.getOutputStream" "os" "O_APPEND" false;
  mkRef "interp.getOutputStream" "os" "O_CREATE" false;
  mkRef "interp.getInputScannerFile" "os" "O_RDONLY" false;
  mkRef "interp.nextLine" "os" "O_RDONLY" false;
  mkRef "interp.getOutputStream" "os" "O_TRUNC" false;
  mkRef "interp.getOutputStream" "os" "O_WRONLY" false;
  mkRef "interp.setExecuteConfig" "os" "OpenFile" false;
  mkRef "interp.setExecuteConfig" "os" "Stderr" false;
  mkRef "interp.setExecuteConfig" "os" "Stdin" false;
  mkRef "interp.setExecuteConfig" "os" "Stdout" false;
  mkRef "(package level)" "os/exec" "Cmd" false;
  mkRef "interp.execShell" "os/exec" "Cmd" false;
  mkRef "newInCmdStream" "os/exec" "Cmd" false;
  mkRef "newOutCmdStream" "os/exec" "Cmd" false;
  mkRef "waitExitCode" "os/exec" "Cmd" false;
  mkRef "interp.execShell" "os/exec" "Command" true;
  mkRef "interp.execShell" "os/exec" "CommandContext" true;
  mkRef "waitExitCode" "os/exec" "ExitError" false;
  mkRef "waitExitCode" "syscall" "WaitStatus" false
].

Theorem sensitive_refs_exact : sensitive_refs = committed_refs.
Proof. reflexivity. Qed.

(* the classes a reference may belong to *)
Inductive refclass := TypeName | OpenFlagConst | StdStream | EnvironCall | HookDefault | ShellStart.

Definition classify (r : pkgref) : option refclass :=
  let p := r_pkg r in let s := r_sel r in
  if r_call r then
    if (p =? "os") && (s =? "Environ") then Some EnvironCall
    else if (p =? "os/exec") && mem s ["Command"; "CommandContext"] && (r_func r =? "interp.execShell") then Some ShellStart
    else None
  else
    if (p =? "os") && mem s ["File"; "FileMode"] then Some TypeName
    else if (p =? "os/exec") && mem s ["Cmd"; "ExitError"] then Some TypeName
    else if (p =? "syscall") && (s =? "WaitStatus") then Some TypeName
    else if (p =? "os") && mem s ["O_RDONLY"; "O_WRONLY"; "O_CREATE"; "O_TRUNC"; "O_APPEND"] then Some OpenFlagConst
    else if (p =? "os") && mem s ["Stdin"; "Stdout"; "Stderr"] then Some StdStream
    else if (p =? "os") && (s =? "OpenFile") && (r_func r =? "interp.setExecuteConfig") then Some HookDefault
    else None.

Definition classified (r : pkgref) : bool := match classify r with Some _ => true | None => false end.

(* every reference is of a known kind: package interp calls no function of os, syscall,
   io/ioutil ... except os.Environ; exec.Command / CommandContext are called only inside
   execShell; os.OpenFile is mentioned once, uncalled, as the default of the openFile field *)
Theorem every_reference_classified : forall r, In r sensitive_refs -> classify r <> None.
Proof.
  assert (H : forallb classified sensitive_refs = true) by (vm_compute; reflexivity).
  rewrite forallb_forall in H. intros r Hin. specialize (H r Hin). unfold classified in H.
  destruct (classify r); [discriminate | discriminate H].
Qed.

Theorem process_creation_only_in_execShell : forall r, In r sensitive_refs ->
  r_pkg r = "os/exec" -> r_call r = true -> r_func r = "interp.execShell".
Proof.
  assert (H : forallb (fun r => negb ((r_pkg r =? "os/exec") && r_call r) || (r_func r =? "interp.execShell")) sensitive_refs = true)
    by (vm_compute; reflexivity).
  rewrite forallb_forall in H. intros r Hin Hp Hc. specialize (H r Hin). rewrite Hp, Hc in H. cbn in H.
  apply String.eqb_eq. exact H.
Qed.

Theorem no_file_opening_call : forall r, In r sensitive_refs ->
  r_call r = true -> (r_pkg r = "os" /\ r_sel r = "Environ") \/ r_pkg r = "os/exec".
Proof.
  assert (H : forallb (fun r => negb (r_call r) || ((r_pkg r =? "os") && (r_sel r =? "Environ")) || (r_pkg r =? "os/exec")) sensitive_refs = true)
    by (vm_compute; reflexivity).
  rewrite forallb_forall in H. intros r Hin Hc. specialize (H r Hin). rewrite Hc in H. cbn in H.
  apply orb_true_iff in H. destruct H as [H | H].
  - apply andb_true_iff in H. destruct H as [H1 H2]. left. split; apply String.eqb_eq; assumption.
  - right. apply String.eqb_eq. exact H.
Qed.

(* ---- 2. every call of the open function is preceded by the matching flag test ------ *)

Definition write_flags : string := "flags{:= os.O_CREATE | os.O_WRONLY; |= os.O_TRUNC; |= os.O_APPEND}".

Definition openfile_ok (s : site) : bool :=
  (s_callee s =? "p.openFile") &&
  (((s_arg s =? "os.O_RDONLY") && mem "p.noFileReads" (s_guards s)) ||
   ((s_arg s =? write_flags) && mem "p.noFileWrites" (s_guards s))).

Theorem openfile_sites_exact :
  map s_func openfile_sites = ["interp.getInputScannerFile"; "interp.getOutputStream"; "interp.nextLine"].
Proof. reflexivity. Qed.

Theorem every_open_is_guarded : forall s, In s openfile_sites ->
  (s_arg s = "os.O_RDONLY" /\ In "p.noFileReads" (s_guards s)) \/
  (s_arg s = write_flags /\ In "p.noFileWrites" (s_guards s)).
Proof.
  assert (H : forallb openfile_ok openfile_sites = true) by (vm_compute; reflexivity).
  rewrite forallb_forall in H. intros s Hin. specialize (H s Hin). unfold openfile_ok in H.
  apply andb_true_iff in H. destruct H as [_ H]. apply orb_true_iff in H.
  destruct H as [H | H]; apply andb_true_iff in H; destruct H as [Ha Hg]; [left | right];
    (split; [apply String.eqb_eq; exact Ha|]);
    unfold mem in Hg; apply existsb_exists in Hg; destruct Hg as [x [Hx He]]; apply String.eqb_eq in He; subst x; exact Hx.
Qed.

(* ---- 3. every process start goes through execShell, whose callers test noExec first -- *)

Definition noexec_guarded (s : site) : bool := mem "p.noExec" (s_guards s).

Theorem execshell_sites_exact :
  map s_func execshell_sites = ["interp.callBuiltin"; "interp.getInputScannerPipe"; "interp.getOutputStream"].
Proof. reflexivity. Qed.

Theorem every_execShell_call_guarded : forall s, In s execshell_sites -> In "p.noExec" (s_guards s).
Proof.
  assert (H : forallb noexec_guarded execshell_sites = true) by (vm_compute; reflexivity).
  rewrite forallb_forall in H. intros s Hin. specialize (H s Hin).
  unfold noexec_guarded, mem in H. apply existsb_exists in H. destruct H as [x [Hx He]].
  apply String.eqb_eq in He. subst x. exact Hx.
Qed.

(* cmd.Start(): directly under the noExec test (system) or inside the two stream constructors,
   which are only called, under the noExec test, with the command execShell returned *)
Definition start_ok (s : site) : bool :=
  (s_callee s =? "cmd.Start") && (noexec_guarded s || mem (s_func s) ["newInCmdStream"; "newOutCmdStream"]).
Definition cmdstream_ok (s : site) : bool :=
  noexec_guarded s && (s_arg s =? "cmd{:= p.execShell(name)}").

Theorem every_start_is_guarded :
  forallb start_ok start_sites = true /\ forallb cmdstream_ok cmdstream_sites = true /\
  map s_func start_sites = ["interp.callBuiltin"; "newInCmdStream"; "newOutCmdStream"] /\
  map s_func cmdstream_sites = ["interp.getInputScannerPipe"; "interp.getOutputStream"].
Proof. repeat split; vm_compute; reflexivity. Qed.

(* ---- 4. the flags and the open function are set in one place, from Config ---------- *)

Theorem field_assigns_exact : field_assigns = [
  ("interp.setExecuteConfig", "noExec", "= config.NoExec");
  ("interp.setExecuteConfig", "noFileReads", "= config.NoFileReads");
  ("interp.setExecuteConfig", "noFileWrites", "= config.NoFileWrites");
  ("interp.setExecuteConfig", "openFile", "= config.OpenFile");
  ("interp.setExecuteConfig", "openFile", "= os.OpenFile");
  ("interp.setExecuteConfig", "shellCommand", "= config.ShellCommand");
  ("interp.setExecuteConfig", "shellCommand", "= defaultShellCommand")
].
Proof. reflexivity. Qed.

Theorem flags_set_only_at_configuration : forall f fld rhs,
  In (f, fld, rhs) field_assigns -> f = "interp.setExecuteConfig".
Proof.
  assert (H : forallb (fun x => fst (fst x) =? "interp.setExecuteConfig") field_assigns = true) by (vm_compute; reflexivity).
  rewrite forallb_forall in H. intros f fld rhs Hin. specialize (H _ Hin). cbn in H. apply String.eqb_eq. exact H.
Qed.

(* ---- 5. no other package the interpreter depends on can do I/O ----------------------- *)

Definition sensitive_path (p : string) : bool :=
  mem p ["os"; "os/exec"; "syscall"; "io/ioutil"; "plugin"; "unsafe"; "os/signal"; "net"; "os/user"; "runtime/debug"; "embed"]
  || String.prefix "net/" p || String.prefix "golang.org/x/sys" p.

Definition import_ok (x : string * string) : bool :=
  negb (sensitive_path (snd x)) || ((fst x =? "interp") && mem (snd x) ["os"; "os/exec"; "syscall"]).

Theorem only_interp_imports_os : forall pkg path,
  In (pkg, path) repo_imports -> sensitive_path path = true ->
  pkg = "interp" /\ In path ["os"; "os/exec"; "syscall"].
Proof.
  assert (H : forallb import_ok repo_imports = true) by (vm_compute; reflexivity).
  rewrite forallb_forall in H. intros pkg path Hin Hs. specialize (H _ Hin). unfold import_ok in H. cbn [fst snd] in H.
  rewrite Hs in H. cbn [negb orb] in H. apply andb_true_iff in H. destruct H as [H1 H2]. split.
  - apply String.eqb_eq. exact H1.
  - unfold mem in H2. apply existsb_exists in H2. destruct H2 as [x [Hx He]]. apply String.eqb_eq in He. subst x. exact Hx.
Qed.

Theorem interp_imports_exact :
  map snd (filter (fun x => fst x =? "interp") repo_imports) =
  ["bufio"; "bytes"; "context"; "encoding/csv"; "errors"; "fmt";
   "github.com/benhoyt/goawk/internal/ast"; "github.com/benhoyt/goawk/internal/compiler";
   "github.com/benhoyt/goawk/internal/resolver"; "github.com/benhoyt/goawk/lexer"; "github.com/benhoyt/goawk/parser";
   "io"; "io/fs"; "math"; "math/big"; "math/rand"; "os"; "os/exec"; "reflect"; "regexp"; "runtime"; "sort"; "strconv"; "strings";
   "syscall"; "time"; "unicode/utf8"].
Proof. reflexivity. Qed.

(* ---- 6. "guard precedes call" is read off statement order: the functions concerned
           contain no label and no goto ------------------------------------------------ *)

Theorem io_functions_have_no_labels : forall s,
  In s (openfile_sites ++ execshell_sites ++ start_sites ++ cmdstream_sites) -> ~ In (s_func s) labelled_funcs.
Proof.
  assert (H : forallb (fun s => negb (mem (s_func s) labelled_funcs))
                (openfile_sites ++ execshell_sites ++ start_sites ++ cmdstream_sites) = true) by (vm_compute; reflexivity).
  rewrite forallb_forall in H. intros s Hin Hl. specialize (H s Hin).
  apply negb_true_iff in H. unfold mem in H.
  assert (existsb (String.eqb (s_func s)) labelled_funcs = true).
  { apply existsb_exists. exists (s_func s). split; [exact Hl | apply String.eqb_refl]. }
  congruence.
Qed.
