(* C02: the committed classification of every panic-raising / panic-handling site that the
   translator finds in the repository (Gen/Panics.v, regenerated on every check from packages
   lexer, internal/ast, parser, internal/resolver, internal/compiler, interp and the command).

   Sites with a syntactic justification are classified by RULE from the generated facts:
     - panic(p.errorf / ast.PosErrorf / &ast.PositionError / &compileError): control-flow panic,
       recovered by parser.ParseProgram resp. compiler.Compile (both recover() sites are in the table);
     - MustCompile of a string literal: a constant pattern, compiled at package initialisation
       (exercised by every run of the harness);
     - an explicit index x[k] / x[len(x)-k] with len(x) consulted earlier in the same function.
   Every other site needs an ENTRY below, keyed by package + function + kind and valid only for
   the exact number of such sites in that function: a new panic, MustCompile, unchecked type
   assertion, recover or explicit index anywhere in those packages changes the table and breaks
   [all_sites_classified] until it is classified here. *)
From Coq Require Import List String ZArith Bool.
From Verif Require Import Gen.Panics.
Import ListNotations.
Open Scope string_scope.

Inductive pclass : Type :=
| CControl                      (* (i) control-flow panic carrying *ast.PositionError / *compileError, recovered at the API boundary *)
| CBoundary                     (* the recover() of an API boundary *)
| CConstant                     (* constant pattern *)
| CLenChecked                   (* length consulted earlier in the function (syntactic fact of the table) *)
| CInvariant (thm : string)     (* (ii) reachable only if the named, separately established invariant fails *)
| CGuarded (why : string)       (* guarded by a check / contract of the callee, by reading *)
| CReachable (finding : string).  (* (iii) reachable: a finding *)

Definition kind_eqb (a b : site_kind) : bool :=
  match a, b with
  | SKPanic, SKPanic | SKMustCompile, SKMustCompile | SKAssert, SKAssert | SKRecover, SKRecover | SKIndex, SKIndex => true
  | _, _ => false
  end.

Definition rule_class (s : site) : option pclass :=
  match s_kind s, s_arg s with
  | SKPanic, AKPosError =>
      if String.eqb (s_pkg s) "parser" || String.eqb (s_pkg s) "internal/resolver" then Some CControl else None
  | SKPanic, AKCompileError => if String.eqb (s_pkg s) "internal/compiler" then Some CControl else None
  | SKMustCompile, AKLiteral => Some CConstant
  | SKIndex, AKLenChecked => Some CLenChecked
  | _, _ => None
  end.

(* package, function, kind, number of sites of that kind in the function that are NOT classified
   by rule, class per site in source order *)
Record entry : Type := { e_pkg : string; e_func : string; e_kind : site_kind; e_classes : list pclass }.

Definition resolver_typing := "C16_sound / C16_exact (Properties/C16.v): the type the resolver records for a name is the type of every use".
Definition parser_shape := "parser builds this node with exactly these children (parser.go primary/stmt: by reading; every node kind is compiled word-for-word in C01's correspondence)".
Definition closed_nodes := "exhaustive switch over the closed set of node types of internal/ast (by reading; C01 compile correspondence exercises every kind)".
Definition verifier := "C02_checked_code_never_stuck + C02_limits_sound (Properties/C02.v): the static pass run on the compiled code of every explored program".
Definition native_checked := "C17_valid_sig_no_panic_partial (Properties/C17.v): checkNativeFunc accepted the signature".
Definition regexp_contract := "regexp.FindIndex / FindStringIndex / FindAllStringIndex return nil or pairs (stdlib contract); nil is tested first".

Definition entries : list entry :=
  [ {| e_pkg := "lexer"; e_func := "*Lexer.scanRegex"; e_kind := SKPanic;
       e_classes := [CInvariant "API misuse guard: the parser calls ScanRegex only from the DIV / DIV_ASSIGN case of primary (by reading)"] |};
    {| e_pkg := "internal/ast"; e_func := "Walk"; e_kind := SKPanic; e_classes := [CInvariant closed_nodes] |};
    {| e_pkg := "parser"; e_func := "ParseProgram"; e_kind := SKRecover; e_classes := [CBoundary] |};
    {| e_pkg := "parser"; e_func := "ParseProgram"; e_kind := SKAssert;
       e_classes := [CInvariant "only *ast.PositionError and class-(ii) panics are raised below ParseProgram: the resolver no longer reflects on non-function or nil Funcs values (C17_never_panics, C16_no_panic); a class-(ii) panic needs a failed invariant and is re-raised here"] |};
    {| e_pkg := "internal/resolver"; e_func := "*mainVisitor.Visit"; e_kind := SKIndex;
       e_classes := [CInvariant parser_shape; CInvariant parser_shape] |};
    {| e_pkg := "internal/resolver"; e_func := "*mainVisitor.Visit"; e_kind := SKAssert; e_classes := [CInvariant parser_shape] |};
    {| e_pkg := "internal/compiler"; e_func := "Compile"; e_kind := SKRecover; e_classes := [CBoundary] |};
    {| e_pkg := "internal/compiler"; e_func := "Compile"; e_kind := SKAssert;
       e_classes := [CInvariant "only *compileError and class-(ii) panics are raised below Compile; the latter need a failed invariant"] |};
    {| e_pkg := "internal/compiler"; e_func := "*compiler.scalarInfo"; e_kind := SKPanic; e_classes := [CInvariant resolver_typing] |};
    {| e_pkg := "internal/compiler"; e_func := "*compiler.arrayInfo"; e_kind := SKPanic; e_classes := [CInvariant resolver_typing] |};
    {| e_pkg := "internal/compiler"; e_func := "*compiler.stmt"; e_kind := SKPanic; e_classes := [CInvariant closed_nodes] |};
    {| e_pkg := "internal/compiler"; e_func := "*compiler.patchBreaks"; e_kind := SKIndex;
       e_classes := [CInvariant "every patchBreaks follows the append to c.breaks of the same loop statement (compiler.stmt: by reading; C01 compiler model)"] |};
    {| e_pkg := "internal/compiler"; e_func := "*compiler.patchContinues"; e_kind := SKIndex;
       e_classes := [CInvariant "every patchContinues follows the append to c.continues of the same loop statement (by reading; C01 compiler model)"] |};
    {| e_pkg := "internal/compiler"; e_func := "*compiler.expr"; e_kind := SKIndex;
       e_classes := [CInvariant parser_shape; CInvariant parser_shape] |};
    {| e_pkg := "internal/compiler"; e_func := "*compiler.expr"; e_kind := SKAssert;
       e_classes := [CInvariant parser_shape; CInvariant resolver_typing] |};
    {| e_pkg := "internal/compiler"; e_func := "*compiler.expr"; e_kind := SKPanic;
       e_classes := [CInvariant closed_nodes; CInvariant closed_nodes] |};
    {| e_pkg := "internal/compiler"; e_func := "*compiler.regexIndex"; e_kind := SKMustCompile;
       e_classes := [CGuarded "parser.regexStr compiled the same AddRegexFlags(regex) with regexp.Compile and reported a parse error otherwise"] |};
    {| e_pkg := "internal/compiler"; e_func := "*compiler.binaryOp"; e_kind := SKPanic; e_classes := [CInvariant closed_nodes] |};
    {| e_pkg := "internal/compiler"; e_func := "*disassembler.localName"; e_kind := SKPanic; e_classes := [CInvariant verifier] |};
    {| e_pkg := "internal/compiler"; e_func := "*disassembler.localArrayName"; e_kind := SKPanic; e_classes := [CInvariant verifier] |};
    {| e_pkg := "interp"; e_func := "*interp.callNative"; e_kind := SKAssert; e_classes := [CInvariant native_checked] |};
    {| e_pkg := "interp"; e_func := "*interp.callNative"; e_kind := SKPanic; e_classes := [CInvariant native_checked] |};
    {| e_pkg := "interp"; e_func := "*interp.toNative"; e_kind := SKPanic;
       e_classes := [CInvariant native_checked; CInvariant native_checked] |};
    {| e_pkg := "interp"; e_func := "fromNative"; e_kind := SKPanic;
       e_classes := [CInvariant native_checked; CInvariant native_checked] |};
    {| e_pkg := "interp"; e_func := "*interp.sprintf"; e_kind := SKIndex;
       e_classes := [CInvariant "C09_sprintf_no_panic (Properties/C09.v): parseFmtTypes records one offset in stars for every 'p' it puts in types, sprintf takes stars[0] once per 'p'"] |};
    {| e_pkg := "interp"; e_func := "*interp.getSpecial"; e_kind := SKPanic; e_classes := [CInvariant verifier] |};
    {| e_pkg := "interp"; e_func := "*interp.setSpecial"; e_kind := SKMustCompile;
       e_classes := [CGuarded "utf8.ValidString(RS) is tested first (C02_rs_one_byte_never_panics): a valid empty or one-byte string quoted by QuoteMeta is a valid pattern";
                     CGuarded "len > 1 and exactly one rune: a valid multi-byte rune, which QuoteMeta leaves a valid pattern"] |};
    {| e_pkg := "interp"; e_func := "*interp.setSpecial"; e_kind := SKPanic; e_classes := [CInvariant verifier] |};
    {| e_pkg := "interp"; e_func := "*interp.arrayIndex"; e_kind := SKIndex; e_classes := [CInvariant verifier] |};
    {| e_pkg := "interp"; e_func := "*interp.localArray"; e_kind := SKIndex; e_classes := [CInvariant verifier] |};
    {| e_pkg := "interp"; e_func := "*interp.getOutputStream"; e_kind := SKPanic;
       e_classes := [CInvariant "the redirect operand of Print/Printf is one of GREATER, APPEND, PIPE (Decode.dec_redir accepts nothing else; run on every explored program)"] |};
    {| e_pkg := "interp"; e_func := "*interp.execShell"; e_kind := SKIndex;
       e_classes := [CGuarded "setExecuteConfig installs config.ShellCommand only when it is non-empty, else the non-empty default"] |};
    {| e_pkg := "interp"; e_func := "regexSplitter.scan"; e_kind := SKIndex;
       e_classes := [CGuarded regexp_contract; CGuarded regexp_contract; CGuarded regexp_contract;
                     CGuarded regexp_contract; CGuarded regexp_contract; CGuarded regexp_contract] |};
    {| e_pkg := "interp"; e_func := "*interp.splitOnFieldSepRegex"; e_kind := SKIndex;
       e_classes := [CGuarded regexp_contract; CGuarded regexp_contract] |};
    {| e_pkg := "interp"; e_func := "hasHexPrefix"; e_kind := SKIndex;
       e_classes := [CGuarded "callers test len(s) first (parseFloat, parseFloatPrefix; C05_prefix_scan_no_panic)"; CGuarded "same"; CGuarded "same"] |};
    {| e_pkg := "interp"; e_func := "hasNaNPrefix"; e_kind := SKIndex;
       e_classes := [CGuarded "callers test len(s) first (parseFloat, parseFloatPrefix; C05_prefix_scan_no_panic)"; CGuarded "same"; CGuarded "same";
                     CGuarded "same"; CGuarded "same"; CGuarded "same"] |};
    {| e_pkg := "interp"; e_func := "hasInfPrefix"; e_kind := SKIndex;
       e_classes := [CGuarded "caller tests i+3 <= len(s) first (parseFloatPrefix; C05_prefix_scan_no_panic)"; CGuarded "same"; CGuarded "same";
                     CGuarded "same"; CGuarded "same"; CGuarded "same"] |};
    {| e_pkg := "interp"; e_func := "*interp.execute"; e_kind := SKIndex;
       e_classes := [CInvariant verifier; CInvariant verifier; CInvariant verifier; CInvariant verifier;
                     CInvariant verifier; CInvariant verifier; CInvariant verifier; CInvariant verifier] |};
    {| e_pkg := "interp"; e_func := "*interp.callBuiltin"; e_kind := SKIndex;
       e_classes := [CGuarded regexp_contract; CGuarded regexp_contract; CGuarded regexp_contract;
                     CGuarded regexp_contract; CGuarded regexp_contract; CGuarded regexp_contract] |} ].

(* ---- the check ---------------------------------------------------------------- *)

Definition same_group (p f : string) (k : site_kind) (s : site) : bool :=
  String.eqb (s_pkg s) p && String.eqb (s_func s) f && kind_eqb (s_kind s) k.

(* the sites of a function and kind that no rule classifies, in source order *)
Definition unruled (p f : string) (k : site_kind) : list site :=
  filter (fun s => same_group p f k s && match rule_class s with None => true | Some _ => false end) sites.

Fixpoint find_entry (p f : string) (k : site_kind) (es : list entry) : option entry :=
  match es with
  | [] => None
  | e :: t => if String.eqb (e_pkg e) p && String.eqb (e_func e) f && kind_eqb (e_kind e) k then Some e else find_entry p f k t
  end.

Fixpoint index_of (s : site) (l : list site) : option nat :=
  match l with
  | [] => None
  | x :: t => if Nat.eqb (s_ord x) (s_ord s) then Some O else option_map S (index_of s t)
  end.

Definition classify (s : site) : option pclass :=
  match rule_class s with
  | Some c => Some c
  | None =>
      match find_entry (s_pkg s) (s_func s) (s_kind s) entries with
      | None => None
      | Some e =>
          let group := unruled (s_pkg s) (s_func s) (s_kind s) in
          if Nat.eqb (List.length group) (List.length (e_classes e)) then
            match index_of s group with Some n => nth_error (e_classes e) n | None => None end
          else None
      end
  end.

Definition is_some {A} (o : option A) : bool := match o with Some _ => true | None => false end.

Definition all_classified : bool := forallb (fun s => is_some (classify s)) sites.

(* no stale entry: every entry speaks about existing sites, exactly as many as it classifies *)
Definition entries_live : bool :=
  forallb (fun e => Nat.eqb (List.length (unruled (e_pkg e) (e_func e) (e_kind e))) (List.length (e_classes e)) &&
                    negb (Nat.eqb (List.length (e_classes e)) 0)) entries.

Definition reachable_sites : list (string * string) :=
  flat_map (fun s => match classify s with
                     | Some (CReachable f) => [(s_func s, f)]
                     | _ => []
                     end) sites.

Lemma all_sites_classified_b : all_classified = true.
Proof. vm_compute. reflexivity. Qed.

Theorem all_sites_classified : forall s, In s sites -> classify s <> None.
Proof.
  intros s Hin. pose proof all_sites_classified_b as H. unfold all_classified in H.
  rewrite forallb_forall in H. specialize (H s Hin). destruct (classify s); [discriminate|discriminate H].
Qed.

Lemma entries_are_live : entries_live = true.
Proof. vm_compute. reflexivity. Qed.

(* no site is reachable *)
Lemma reachable_sites_are : reachable_sites = [].
Proof. vm_compute. reflexivity. Qed.

(* every recover() is an API boundary and every control-flow panic lives in a package below one *)
Lemma control_panics_below_boundary :
  forallb (fun s => match classify s with
                    | Some CControl => String.eqb (s_pkg s) "parser" || String.eqb (s_pkg s) "internal/resolver" ||
                                       String.eqb (s_pkg s) "internal/compiler"
                    | _ => true
                    end) sites = true /\
  map s_func (filter (fun s => kind_eqb (s_kind s) SKRecover) sites) = ["ParseProgram"; "Compile"].
Proof. split; vm_compute; reflexivity. Qed.
