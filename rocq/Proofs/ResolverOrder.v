(* C16: proofs about the resolver model, part 4: the result does not depend on
   the order of the top-level items (nor on the map iteration order): the
   accepted types are the least solution of the constraint system. *)
From Verif Require Import Lib.Base Model.Resolver Proofs.Resolver Proofs.ResolverSound Proofs.ResolverExact.
From Coq Require Import Permutation.
Open Scope Z_scope.

(* ---------- the accepted types are forced ------------------------------------------- *)

Lemma accepted_rho P s F k :
  accepted_by P s F -> rho_of (fin_types F) k = isarr (kty (st_vars s) k).
Proof. intros [-> [[Hi _] _]]. rewrite fin_types_finalize. apply (rho_defaulted P). exact Hi. Qed.

(* an array in the result is an array in every solution *)
Lemma accepted_array_forced P s F k :
  accepted_by P s F -> rho_of (fin_types F) k = true ->
  forall rho, solution P rho -> rho k = true.
Proof.
  intros Hacc Hk rho Hs. rewrite (accepted_rho P s F k Hacc) in Hk.
  destruct Hacc as [_ [[Hi Hf] _]].
  assert (Hkt : kty (st_vars s) k = TArray) by (destruct (kty (st_vars s) k); cbn in Hk; congruence).
  rewrite (forced_kty P _ rho k Hi Hf Hs); rewrite Hkt; [reflexivity | discriminate].
Qed.

Lemma holds_ext rho rho' c : (forall k, rho k = rho' k) -> holds rho c -> holds rho' c.
Proof.
  intros He. destruct c as [k [| |]|k1 k2|k]; cbn [holds]; rewrite <- ?He; auto.
Qed.

Lemma solution_ext P rho rho' : (forall k, rho k = rho' k) -> solution P rho -> solution P rho'.
Proof. intros He Hs c Hc. eapply holds_ext; [exact He | apply Hs; exact Hc]. Qed.

(* Two accepted runs on programs whose constraint systems correspond under a
   bijection of the type variables (identity for a reordering, the renaming
   for a consistent renaming) give corresponding types. *)
Section Unique.
Variables P P' : program.
Variables phi psi : key -> key.
Hypothesis phi_psi : forall k', phi (psi k') = k'.
Hypothesis psi_phi : forall k, psi (phi k) = k.
Hypothesis Hequiv : forall rho, solution P rho <-> solution P' (fun k' => rho (psi k')).

Lemma equiv_back rho' : solution P' rho' <-> solution P (fun k => rho' (phi k)).
Proof.
  rewrite (Hequiv (fun k => rho' (phi k))). split; apply solution_ext; intros k; rewrite phi_psi; reflexivity.
Qed.

Lemma types_correspond cut cut' order order' F F' :
  names_ok P -> names_ok P' -> covers P order -> covers P' order' ->
  resolve_order cut order P = ROk F -> resolve_order cut' order' P' = ROk F' ->
  forall k, rho_of (fin_types F') (phi k) = rho_of (fin_types F) k.
Proof.
  intros Hne Hne' Hcov Hcov' H H'.
  assert (Hnd : NoDup (fnames P)) by (eapply resolve_order_nodup; [exact H | intros f; discriminate]).
  assert (Hnd' : NoDup (fnames P')) by (eapply resolve_order_nodup; [exact H' | intros f; discriminate]).
  destruct (resolve_order_ok P Hnd Hne cut order F H) as [s [Hacc Hpq]].
  destruct (resolve_order_ok P' Hnd' Hne' cut' order' F' H') as [s' [Hacc' Hpq']].
  pose proof (sound_state P s F Hacc (pass_quiet_all P Hnd s order Hcov Hpq)) as Hsol.
  pose proof (sound_state P' s' F' Hacc' (pass_quiet_all P' Hnd' s' order' Hcov' Hpq')) as Hsol'.
  intros k.
  destruct (rho_of (fin_types F) k) eqn:E.
  - (* array for P: forced in P; F' induces a solution of P *)
    apply equiv_back in Hsol'.
    apply (accepted_array_forced P s F k Hacc E _ Hsol').
  - destruct (rho_of (fin_types F') (phi k)) eqn:E'; [|reflexivity].
    (* array for P': forced in P'; F induces a solution of P' *)
    apply Hequiv in Hsol.
    pose proof (accepted_array_forced P' s' F' (phi k) Hacc' E' _ Hsol) as Hk. cbv beta in Hk.
    rewrite psi_phi in Hk. congruence.
Qed.

Lemma sat_correspond : sat P <-> sat P'.
Proof.
  split.
  - intros [rho Hs]. exists (fun k' => rho (psi k')). apply Hequiv. exact Hs.
  - intros [rho' Hs']. exists (fun k => rho' (phi k)). apply equiv_back. exact Hs'.
Qed.

Lemma verdict_correspond cut cut' order order' :
  wf P = true -> wf P' = true -> covers P order -> covers P' order' ->
  resolve_order cut order P <> RErr ETooManyIter -> resolve_order cut' order' P' <> RErr ETooManyIter ->
  ((exists F, resolve_order cut order P = ROk F) <-> (exists F', resolve_order cut' order' P' = ROk F')).
Proof.
  intros Hwf Hwf' Hcov Hcov' Hc Hc'.
  rewrite (resolve_order_exact cut order P Hwf Hcov Hc).
  rewrite (resolve_order_exact cut' order' P' Hwf' Hcov' Hc').
  apply sat_correspond.
Qed.

End Unique.

(* ---------- reordering the top-level items ------------------------------------------- *)

(* P' has the same functions in another order, and its BEGIN/action/END events
   in another order (reordering BEGIN blocks permutes blocks of events; the
   statement allows any permutation of the events) *)
Definition reordered (P P' : program) : Prop :=
  p_natives P = p_natives P' /\ Permutation (p_funcs P) (p_funcs P') /\ Permutation (p_main P) (p_main P').

Section Reorder.
Variables P P' : program.
Hypothesis Hre : reordered P P'.
Hypothesis Hnd : NoDup (fnames P).

Lemma reorder_fnames : Permutation (fnames P) (fnames P').
Proof. destruct Hre as [_ [H _]]. unfold fnames. apply Permutation_map. exact H. Qed.

Lemma reorder_nodup : NoDup (fnames P').
Proof. eapply Permutation_NoDup; [apply reorder_fnames | exact Hnd]. Qed.

Lemma reorder_find_func f i fd :
  find_func P f = Some (i, fd) -> exists i', find_func P' f = Some (i', fd).
Proof.
  intros H. destruct (find_func_In P f i fd H) as [Hin <-].
  apply find_func_of_In; [apply reorder_nodup|].
  destruct Hre as [_ [Hp _]]. eapply Permutation_in; eassumption.
Qed.

Lemma reorder_find_func_none f : find_func P f = None -> find_func P' f = None.
Proof.
  unfold find_func. intros H. apply find_func_from_none in H. apply find_func_from_none.
  intros Hin. apply H. eapply Permutation_in; [apply Permutation_sym; apply reorder_fnames | exact Hin].
Qed.

Lemma reorder_params_of f : params_of P' f = params_of P f.
Proof.
  unfold params_of. destruct (find_func P f) as [[i fd]|] eqn:E.
  - destruct (reorder_find_func f i fd E) as [i' E']. rewrite E'. reflexivity.
  - rewrite (reorder_find_func_none f E). reflexivity.
Qed.

Lemma reorder_is_func f : is_func P' f = is_func P f.
Proof.
  destruct (is_func P f) eqn:E.
  - apply is_func_In. apply is_func_In in E. eapply Permutation_in; [apply reorder_fnames | exact E].
  - destruct (is_func P' f) eqn:E'; [|reflexivity]. apply is_func_In in E'.
    assert (In f (fnames P)) by (eapply Permutation_in; [apply Permutation_sym; apply reorder_fnames | exact E']).
    apply is_func_In in H. congruence.
Qed.

(* the same function information, up to the index *)
Lemma reorder_func_info f :
  match func_info P f, func_info P' f with
  | Some fi, Some fi' => fi_native fi = fi_native fi' /\ fi_params fi = fi_params fi'
  | None, None => True
  | _, _ => False
  end.
Proof.
  unfold func_info. destruct Hre as [Hn _]. rewrite <- Hn.
  destruct (find_func P f) as [[i fd]|] eqn:E.
  - destruct (reorder_find_func f i fd E) as [i' E']. rewrite E'. cbn. auto.
  - rewrite (reorder_find_func_none f E).
    destruct (index_of f (sort_names (map n_name (p_natives P))) 0); cbn; auto.
Qed.

Lemma reorder_scope_key cur v : scope_key P' cur v = scope_key P cur v.
Proof. unfold scope_key. rewrite reorder_params_of. reflexivity. Qed.

Lemma reorder_constr_of_step cur st : constr_of_step P' cur st = constr_of_step P cur st.
Proof.
  destruct st as [v t|f nargs|f i|f i v]; cbn [constr_of_step]; rewrite ?reorder_scope_key; try reflexivity.
  - pose proof (reorder_func_info f) as H.
    destruct (func_info P f) as [fi|], (func_info P' f) as [fi'|]; try contradiction; [|reflexivity].
    destruct H as [-> ->]. reflexivity.
  - pose proof (reorder_func_info f) as H.
    destruct (func_info P f) as [fi|], (func_info P' f) as [fi'|]; try contradiction; [|reflexivity].
    destruct H as [-> ->]. reflexivity.
Qed.

Lemma reorder_constraints c : In c (constraints P) <-> In c (constraints P').
Proof.
  destruct Hre as [_ [Hpf Hpm]]. unfold constraints. rewrite !in_app_iff.
  assert (H1 : In c (flat_map (fun fd => flat_map (constr_of_step P (f_name fd)) (flat_events (f_body fd))) (p_funcs P)) <->
               In c (flat_map (fun fd => flat_map (constr_of_step P' (f_name fd)) (flat_events (f_body fd))) (p_funcs P'))).
  { rewrite !in_flat_map. split; intros [fd [Hfd Hc]]; exists fd.
    - split; [eapply Permutation_in; eassumption|].
      rewrite in_flat_map in *. destruct Hc as [st [Hst Hc]]. exists st. rewrite reorder_constr_of_step. auto.
    - split; [eapply Permutation_in; [apply Permutation_sym|]; eassumption|].
      rewrite in_flat_map in *. destruct Hc as [st [Hst Hc]]. exists st. rewrite reorder_constr_of_step in Hc. auto. }
  assert (H2 : In c (flat_map (constr_of_step P []) (flat_events (p_main P))) <->
               In c (flat_map (constr_of_step P' []) (flat_events (p_main P')))).
  { unfold flat_events. rewrite !in_flat_map. split; intros [st [Hst Hc]]; exists st.
    - rewrite reorder_constr_of_step. split; [|exact Hc].
      rewrite in_flat_map in *. destruct Hst as [e [He Hst]]. exists e. split; [eapply Permutation_in; eassumption | exact Hst].
    - rewrite reorder_constr_of_step in Hc. split; [|exact Hc].
      rewrite in_flat_map in *. destruct Hst as [e [He Hst]]. exists e.
      split; [eapply Permutation_in; [apply Permutation_sym|]; eassumption | exact Hst]. }
  rewrite H1, H2. reflexivity.
Qed.

Lemma reorder_solution rho : solution P rho <-> solution P' rho.
Proof.
  unfold solution. split; intros H c Hc; apply H; apply reorder_constraints; exact Hc.
Qed.

Lemma reorder_wf_step cur st : wf_step P' cur st = wf_step P cur st.
Proof.
  assert (Hg : forall v, global_ok P' cur v = global_ok P cur v).
  { intros v. unfold global_ok. rewrite reorder_params_of, reorder_is_func. reflexivity. }
  assert (Ha : forall f i, arg_ok P' f i = arg_ok P f i).
  { intros f i. unfold arg_ok. pose proof (reorder_func_info f) as H.
    destruct (func_info P f) as [fi|], (func_info P' f) as [fi'|]; try contradiction; [|reflexivity].
    destruct H as [-> ->]. reflexivity. }
  destruct st as [v t|f nargs|f i|f i v]; cbn [wf_step]; rewrite ?Hg, ?Ha; try reflexivity.
  rewrite reorder_params_of. pose proof (reorder_func_info f) as H. destruct Hre as [Hn _]. rewrite <- Hn.
  destruct (func_info P f) as [fi|], (func_info P' f) as [fi'|]; try contradiction; [|reflexivity].
  destruct H as [-> ->]. reflexivity.
Qed.

Lemma forallb_perm {A} (f g : A -> bool) l l' :
  (forall x, f x = g x) -> Permutation l l' -> forallb f l = true -> forallb g l' = true.
Proof.
  intros Hfg Hp H. apply forallb_forall. intros x Hx. rewrite <- Hfg.
  rewrite forallb_forall in H. apply H. eapply Permutation_in; [apply Permutation_sym; exact Hp | exact Hx].
Qed.

Lemma reorder_wf : wf P = true -> wf P' = true.
Proof.
  intros H. destruct (wf_parts P H) as [Hd [_ [Hne [[B1 [B2 B3]] [Hwf Hwm]]]]].
  destruct Hre as [_ [Hpf Hpm]].
  unfold wf.
  assert (Hd' : first_dup [] (fnames P') = None).
  { destruct (first_dup [] (fnames P')) as [x|] eqn:E; [|reflexivity]. exfalso.
    pose proof reorder_nodup as Hnd'. clear - E Hnd'.
    assert (G : forall seen l, first_dup seen l = Some x -> NoDup l -> In x seen /\ In x l).
    { intros seen l. revert seen. induction l as [|y l IH]; intros seen H1 H2; cbn [first_dup] in H1; [discriminate|].
      inversion H2; subst. destruct (mem y seen) eqn:Em.
      - injection H1 as ->. apply mem_In in Em. split; [exact Em | left; reflexivity].
      - destruct (IH _ H1 H4) as [[<-|Hs] Hl]; [contradiction | split; [exact Hs | right; exact Hl]]. }
    destruct (G _ _ E Hnd') as [[] _]. }
  assert (HB : forallb (fun fd => negb (is_empty (f_name fd))) (p_funcs P') = true).
  { apply forallb_forall. intros fd Hfd. apply negb_true_iff. apply is_empty_false. apply Hne.
    eapply Permutation_in; [apply Permutation_sym; exact Hpf | exact Hfd]. }
  assert (HD : forallb (fun fd => forallb (wf_step P' (f_name fd)) (flat_events (f_body fd))) (p_funcs P') = true).
  { apply forallb_forall. intros fd Hfd.
    assert (Hfd0 : In fd (p_funcs P)) by (eapply Permutation_in; [apply Permutation_sym; exact Hpf | exact Hfd]).
    specialize (Hwf fd Hfd0). apply forallb_forall. intros st Hst. rewrite reorder_wf_step.
    rewrite forallb_forall in Hwf. apply Hwf. exact Hst. }
  assert (HE : forallb (wf_step P' []) (flat_events (p_main P')) = true).
  { apply forallb_forall. intros st Hst. rewrite reorder_wf_step. rewrite forallb_forall in Hwm. apply Hwm.
    unfold flat_events in *. rewrite in_flat_map in *. destruct Hst as [e [He Hst]]. exists e.
    split; [eapply Permutation_in; [apply Permutation_sym; exact Hpm | exact He] | exact Hst]. }
  rewrite Hd', HB, HD, HE. rewrite !reorder_is_func, B1, B2, B3. reflexivity.
Qed.

End Reorder.

(* ORDER INDEPENDENCE: reordering the top-level items (and any change of the map
   iteration order) changes neither the verdict nor the type of any variable *)
Theorem reorder_independent cut pi pi' P P' :
  perm_oracle pi -> perm_oracle pi' -> wf P = true -> reordered P P' ->
  resolve_cut cut pi P <> RErr ETooManyIter -> resolve_cut cut pi P <> RFuel ->
  resolve_cut cut pi' P' <> RErr ETooManyIter -> resolve_cut cut pi' P' <> RFuel ->
  ((exists F, resolve_cut cut pi P = ROk F) <-> (exists F', resolve_cut cut pi' P' = ROk F')) /\
  (forall F F', resolve_cut cut pi P = ROk F -> resolve_cut cut pi' P' = ROk F' ->
                forall k, rho_of (fin_types F') k = rho_of (fin_types F) k).
Proof.
  intros Hpi Hpi' Hwf Hre Hc Hf Hc' Hf'.
  destruct (wf_parts P Hwf) as [Hd [Hnd [Hne _]]].
  pose proof (reorder_wf P P' Hre Hnd Hwf) as Hwf'.
  destruct (wf_parts P' Hwf') as [Hd' [Hnd' [Hne' _]]].
  assert (Heq : forall rho, solution P rho <-> solution P' (fun k' => rho (id k'))).
  { intros rho. apply (reorder_solution P P' Hre Hnd). }
  split.
  - rewrite (resolve_exact cut pi P Hpi Hwf Hc Hf). rewrite (resolve_exact cut pi' P' Hpi' Hwf' Hc' Hf').
    apply (sat_correspond P P' id id); [reflexivity | exact Heq].
  - intros F F' H H'. unfold resolve_cut in H, H'. rewrite Hd in H. rewrite Hd' in H'.
    destruct (ordered_funcs pi P) as [order|] eqn:Eo; [|discriminate].
    destruct (ordered_funcs pi' P') as [order'|] eqn:Eo'; [|discriminate].
    apply (types_correspond P P' id id (fun k => eq_refl) (fun k => eq_refl) Heq cut cut order order' F F' Hne Hne'
             (ordered_funcs_covers pi P order Hpi Eo) (ordered_funcs_covers pi' P' order' Hpi' Eo') H H').
Qed.

(* the same with a different constant for each program *)
Theorem reorder_independent2 cut cut' pi pi' P P' :
  perm_oracle pi -> perm_oracle pi' -> wf P = true -> reordered P P' ->
  resolve_cut cut pi P <> RErr ETooManyIter -> resolve_cut cut pi P <> RFuel ->
  resolve_cut cut' pi' P' <> RErr ETooManyIter -> resolve_cut cut' pi' P' <> RFuel ->
  ((exists F, resolve_cut cut pi P = ROk F) <-> (exists F', resolve_cut cut' pi' P' = ROk F')) /\
  (forall F F', resolve_cut cut pi P = ROk F -> resolve_cut cut' pi' P' = ROk F' ->
                forall k, rho_of (fin_types F') k = rho_of (fin_types F) k).
Proof.
  intros Hpi Hpi' Hwf Hre Hc Hf Hc' Hf'.
  destruct (wf_parts P Hwf) as [Hd [Hnd [Hne _]]].
  pose proof (reorder_wf P P' Hre Hnd Hwf) as Hwf'.
  destruct (wf_parts P' Hwf') as [Hd' [Hnd' [Hne' _]]].
  assert (Heq : forall rho, solution P rho <-> solution P' (fun k' => rho (id k'))).
  { intros rho. apply (reorder_solution P P' Hre Hnd). }
  split.
  - rewrite (resolve_exact cut pi P Hpi Hwf Hc Hf). rewrite (resolve_exact cut' pi' P' Hpi' Hwf' Hc' Hf').
    apply (sat_correspond P P' id id); [reflexivity | exact Heq].
  - intros F F' H H'. unfold resolve_cut in H, H'. rewrite Hd in H. rewrite Hd' in H'.
    destruct (ordered_funcs pi P) as [order|] eqn:Eo; [|discriminate].
    destruct (ordered_funcs pi' P') as [order'|] eqn:Eo'; [|discriminate].
    apply (types_correspond P P' id id (fun k => eq_refl) (fun k => eq_refl) Heq cut cut' order order' F F' Hne Hne'
             (ordered_funcs_covers pi P order Hpi Eo) (ordered_funcs_covers pi' P' order' Hpi' Eo') H H').
Qed.
