(* C09: print joins its arguments with OFS, integral numbers are written as
   integers whatever OFMT says, other numbers go through OFMT. *)
From Verif Require Import Lib.Base Lib.Dyadic Lib.Utf8 Model.Printf
  Proofs.PrintfSpec Proofs.PrintfBase.

Theorem print_is_join ffmt ofs ors args strs :
  Forall2 (fun a s => v_str ffmt a = Ok s) args strs ->
  print_args ffmt ofs ors args = Ok (join ofs strs ++ ors).
Proof.
  intros H. unfold print_args.
  assert (G : print_fields ffmt ofs true args = Ok (join ofs strs) /\
              (forall x sx, v_str ffmt x = Ok sx -> print_fields ffmt ofs false args = Ok (match strs with [] => [] | _ => ofs ++ join ofs strs end))).
  { induction H as [|a s args' strs' Ha Hr IH].
    - split; [reflexivity|]. intros; reflexivity.
    - destruct IH as [IH1 IH2]. split.
      + cbn [print_fields]. rewrite Ha. cbn [rbind]. rewrite (IH2 a s Ha). cbn [rbind app].
        destruct strs' as [|s2 r2]; cbn [join]; [rewrite app_nil_r; reflexivity | reflexivity].
      + intros x sx Hx. cbn [print_fields]. rewrite Ha. cbn [rbind]. rewrite (IH2 a s Ha). cbn [rbind].
        destruct strs' as [|s2 r2]; cbn [join]; [rewrite app_nil_r; reflexivity | reflexivity]. }
  destruct G as [-> _]. reflexivity.
Qed.

(* strings are written as they are *)
Lemma v_str_string ffmt s n : v_str ffmt (VStr s n) = Ok s.
Proof. reflexivity. Qed.

(* a finite number that is an integer z within the int64 range: its decimal text *)
Definition integral_value (x : fnum) (z : Z) : Prop :=
  match x with
  | FFin m e => is_integral m e = true /\ z = ftrunc m e
  | _ => False
  end.

Lemma feq_integral m e : is_integral m e = true -> feq (FFin m e) (fnum_of_Z (ftrunc m e)) = true.
Proof.
  intros H. unfold feq, fnum_of_Z, fin_cmp, is_integral, ftrunc in *.
  destruct (0 <=? e) eqn:E.
  - apply Z.leb_le in E. rewrite Z.min_r by lia. rewrite !Z.sub_0_r, Z.pow_0_r, Z.mul_1_r.
    rewrite Z.compare_refl. reflexivity.
  - apply Z.leb_gt in E. rewrite Z.min_l by lia. rewrite Z.sub_diag, Z.pow_0_r, Z.mul_1_r.
    apply Z.eqb_eq in H. replace (0 - e) with (- e) by lia.
    pose proof (Z.quot_rem' m (2 ^ (- e))) as Q. rewrite H in Q.
    replace (Z.quot m (2 ^ (- e)) * 2 ^ (- e)) with m by lia. rewrite Z.compare_refl. reflexivity.
Qed.

Theorem num_str_integral ffmt x z : integral_value x z -> - two63 <= z < two63 ->
  num_str ffmt x = Ok (dec z).
Proof.
  destruct x as [| |m e]; cbn [integral_value]; try contradiction. intros [Hi ->] Hz.
  unfold num_str. assert (f2i64 (FFin m e) = ftrunc m e) as ->.
  { unfold f2i64, in_i64. replace (- two63 <=? ftrunc m e) with true by (symmetry; apply Z.leb_le; lia).
    replace (ftrunc m e <? two63) with true by (symmetry; apply Z.ltb_lt; lia). reflexivity. }
  rewrite (feq_integral m e Hi). reflexivity.
Qed.

(* the decimal text denotes z *)
Theorem dec_value z :
  dec z = (if z <? 0 then [45] else []) ++ to_digits 10 (Z.abs z) false /\
  digits_value 10 (to_digits 10 (Z.abs z) false) = Z.abs z.
Proof.
  split; [|apply to_digits_value; lia]. unfold dec. destruct (z <? 0) eqn:E.
  - apply Z.ltb_lt in E. rewrite digits_of_to_digits by lia. rewrite Z.abs_neq by lia. reflexivity.
  - apply Z.ltb_ge in E. rewrite digits_of_to_digits by lia. rewrite Z.abs_eq by lia. reflexivity.
Qed.

(* a finite number that is not an integer goes through OFMT (ffmt) *)
Theorem num_str_fraction ffmt m e : is_integral m e = false -> num_str ffmt (FFin m e) = ffmt (FFin m e).
Proof.
  intros H. unfold num_str. assert (feq (FFin m e) (fnum_of_Z (f2i64 (FFin m e))) = false) as ->; [|reflexivity].
  generalize (f2i64 (FFin m e)). intros t. unfold feq, fnum_of_Z, fin_cmp, is_integral in *.
  destruct (0 <=? e) eqn:E; [discriminate|]. apply Z.leb_gt in E. apply Z.eqb_neq in H.
  rewrite Z.min_l by lia. rewrite Z.sub_diag, Z.pow_0_r, Z.mul_1_r. replace (0 - e) with (- e) by lia.
  destruct (m ?= t * 2 ^ (- e)) eqn:C; try reflexivity. apply Z.compare_eq in C. exfalso. apply H.
  rewrite C. apply Z.rem_mul. pose proof (Z.pow_pos_nonneg 2 (- e) ltac:(lia) ltac:(lia)). lia.
Qed.

(* non-finite numbers have fixed spellings *)
Lemma num_str_nonfinite ffmt :
  num_str ffmt FNaN = Ok s_nan /\ num_str ffmt (FInf false) = Ok s_inf /\ num_str ffmt (FInf true) = Ok s_minf.
Proof. repeat split; reflexivity. Qed.
