(* C04 — print context: after the arguments of print, an unparenthesised > is the redirection. *)
From Verif Require Import Lib.Base Model.ExprAst Model.ExprParser Proofs.ExprParserMono Proofs.ExprParserRel
  Proofs.PrecSpec Proofs.ExprParserPrinted Proofs.ExprParserMin.
Local Open Scope nat_scope.

Lemma exprlist_tail_pc pc c rest : exprlist_stop (c :: rest) = true -> tok_cont pc c = 0 ->
  forall es, Forall M es -> all_fit (fits pc 0) es ->
  (match es with [] => True | _ => ok pc (last es (ENum [])) c = true end) ->
  ExprList pc false (tailc es ++ c :: rest) (es, c :: rest).
Proof.
  intros Hstop Hc. induction es as [|x es IH]; intros HM Hf Hlast.
  - apply exprlist_nil. exact Hstop.
  - inversion HM as [|? ? Hx HMs]; subst. destruct Hf as [Hfx Hfs].
    cbn [tailc flat_map app]. rewrite <- app_assoc.
    pose proof (flat_start _ _ _ Hfx) as Hst.
    eapply exprlist_next; [|apply IH; try assumption].
    + rewrite start_skip_nl by exact Hst.
      apply (M_closed _ Hx LExpr pc); try assumption; try congruence.
      * destruct es as [|y es']; [exact Hlast | apply ok_zero; reflexivity].
      * destruct es as [|y es']; cbn [tailc flat_map app hd_tok rk]; [rewrite Hc; lia | destruct pc; cbn; lia].
    + destruct es as [|y es']; [exact I|]. exact Hlast.
Qed.

Lemma exprlist_all_pc pc c rest : exprlist_stop (c :: rest) = true -> tok_cont pc c = 0 ->
  forall x es, Forall M (x :: es) -> all_fit (fits pc 0) (x :: es) ->
  ok pc (last (x :: es) (ENum [])) c = true ->
  ExprList pc true (commas flat (x :: es) ++ c :: rest) (x :: es, c :: rest).
Proof.
  intros Hstop Hc x es HM Hf Hlast.
  inversion HM as [|? ? Hx HMs]; subst. destruct Hf as [Hfx Hfs].
  rewrite commas_cons, <- app_assoc.
  pose proof (flat_start _ _ _ Hfx) as Hst.
  eapply exprlist_first; [apply start_no_stop; exact Hst | | apply exprlist_tail_pc; try assumption].
  - apply (M_closed _ Hx LExpr pc); try assumption; try congruence.
    + destruct es as [|y es']; [exact Hlast | apply ok_zero; reflexivity].
    + destruct es as [|y es']; cbn [tailc flat_map app hd_tok rk]; [rewrite Hc; lia | destruct pc; cbn; lia].
  - destruct es as [|y es']; [exact I | exact Hlast].
Qed.

Lemma par_not_multi fl pe req e : wf e -> match par fl pe req e with EMulti _ => False | _ => True end.
Proof.
  intros Hwf. unfold par. destruct (fl || _ || _); [exact I|].
  destruct e; try exact I; try contradiction.
  - destruct idx as [|x [|y r]]; exact I.
Qed.

Lemma all_M es : Forall M es.
Proof. apply Forall_forall. intros x _. apply parse_printed_all. Qed.

Lemma all_fit_args fl es : all_wf wf es -> all_fit (fits true 0) (map (par fl true 0) es).
Proof.
  induction es as [|x es IH]; intros Hw; [exact I|]. destruct Hw as [Hx Hs]. cbn [map all_fit]. split; [|auto].
  apply (fits_par x (fits_pnode x) Hx fl true true 0). auto.
Qed.

(* the three redirection tokens of print / printf *)
Definition redir_of (t : tok) : option redir :=
  match t with TGreater => Some RGreater | TAppend => Some RAppend | TPipe => Some RPipe | _ => None end.

Lemma last_wf_map (g : expr -> expr) : forall (l : list expr) d, l <> [] -> all_wf wf l ->
  exists x, wf x /\ last (map g l) d = g x.
Proof.
  induction l as [|x l IH]; intros d Hne Hw; [congruence|].
  destruct Hw as [Hx Hl]. destruct l as [|y l'].
  - exists x. split; [exact Hx | reflexivity].
  - destruct (IH d ltac:(discriminate) Hl) as (z & Hz & E). exists z. split; [exact Hz|].
    cbn [map] in *. exact E.
Qed.

(* inside print, > >> and | may follow any argument as written by either printer: every level
   function that is still open when the token arrives belongs to the print tower (which leaves
   them to the statement) or reads operands at the ^ level or above *)
Lemma ok_redirect fl e rt rd : wf e -> redir_of rt = Some rd -> ok true (par fl true 0 e) rt = true.
Proof.
  intros Hwf Hr. apply ok_par_pc; [exact Hwf | |]; destruct rt; try discriminate; cbn; lia.
Qed.

(* print a1, ..., an > dest (also >> and |): the arguments are the n trees, the token is the
   redirection, the destination is dest — for all well-formed arguments, in both writings.
   (Before the repair of F-C04-1/2 this needed the guard "the last argument does not end in an
   unparenthesised ?:".) *)
Theorem print_redirects : forall rt rd fl a args dest rest,
  redir_of rt = Some rd ->
  all_wf wf (a :: args) -> wf dest ->
  let args' := map (par fl true 0) (a :: args) in
  let dest' := par fl false 0 dest in
  tok_cont false (hd_tok rest) = 0 ->
  exists n0, forall n, n0 <= n ->
    p_simple_stmt n (TPrint :: commas flat args' ++ rt :: flat dest' ++ rest)
    = POk (TopPrint false rd (Some dest') args', rest).
Proof.
  intros rt rd fl a args dest rest Hrt Hw Hwd args' dest' Hz.
  assert (Hok : ok true (last args' (ENum [])) rt = true).
  { subst args'. destruct (last_wf_map (par fl true 0) (a :: args) (ENum []) ltac:(discriminate) Hw) as (x & Hx & ->).
    eapply ok_redirect; eassumption. }
  assert (HL : ExprList true true (commas flat args' ++ rt :: flat dest' ++ rest)
                 (args', rt :: flat dest' ++ rest)).
  { subst args'. cbn [map]. apply exprlist_all_pc.
    - destruct rt; try discriminate; reflexivity.
    - destruct rt; try discriminate; reflexivity.
    - apply all_M.
    - apply (all_fit_args fl (a :: args)). exact Hw.
    - exact Hok. }
  destruct HL as [n1 HL].
  destruct (parse_par dest fl false 0 LExpr rest Hwd eq_refl ltac:(congruence) ltac:(cbn; lia) ltac:(cbn; lia))
    as [n2 HD].
  exists (Nat.max n1 n2). intros n Hn.
  cbn [p_simple_stmt]. eapply exprlist_mono with (m := n) in HL; [|lia].
  rewrite HL. cbn [pbind]. unfold dest'.
  assert (Hnm : match args' with [EMulti es] => es | _ => args' end = args').
  { subst args'. cbn [map]. destruct args as [|b args]; [|cbn [map]; destruct (par fl true 0 a); reflexivity]. cbn [map].
    destruct Hw as [Ha _]. pose proof (par_not_multi fl true 0 a Ha) as Hn'.
    destruct (par fl true 0 a); try reflexivity. contradiction. }
  destruct rt; try discriminate; injection Hrt as <-;
    rewrite (HD n) by lia; cbn [pbind]; rewrite Hnm; subst args'; cbn [map]; reflexivity.
Qed.

(* fuel monotonicity of the statement-level wrapper *)
Lemma p_simple_stmt_le n m ts : n <= m -> le_res (p_simple_stmt n ts) (p_simple_stmt m ts).
Proof.
  intros Hnm. destruct (mono n m Hnm) as (I1 & _ & _ & _ & _ & I6 & _).
  unfold p_simple_stmt.
  destruct ts as [|t r]; [apply pbind_mono; [apply I1 | intros; apply le_res_refl]|].
  destruct t; try (apply pbind_mono; [apply I1 | intros; apply le_res_refl]).
  all: apply pbind_mono; [apply I6 | intros [args0 r1]];
    apply pbind_mono; [|intros; apply le_res_refl];
    destruct r1 as [|t1 r1']; try apply le_res_refl;
    destruct t1; try apply le_res_refl; (apply pbind_mono; [apply I1 | intros; apply le_res_refl]).
Qed.

Lemma p_simple_stmt_stable n m ts r : n <= m -> p_simple_stmt n ts = r -> r <> PFuel -> p_simple_stmt m ts = r.
Proof. intros Hnm H Hr. destruct (p_simple_stmt_le n m ts Hnm) as [E | E]; congruence. Qed.

(* ---- the statement of the property for print: formerly refuted (F-C04-1, F-C04-2), now theorems ---- *)

Definition print_gt_full_statement : Prop :=
  forall fl a args dest rest,
  all_wf wf (a :: args) -> wf dest ->
  let args' := map (par fl true 0) (a :: args) in
  let dest' := par fl false 0 dest in
  tok_cont false (hd_tok rest) = 0 ->
  exists n0, forall n, n0 <= n ->
    p_simple_stmt n (TPrint :: commas flat args' ++ TGreater :: flat dest' ++ rest)
    = POk (TopPrint false RGreater (Some dest') args', rest).

Theorem print_gt_is_redirect : print_gt_full_statement.
Proof. intros fl a args dest rest. apply (print_redirects TGreater RGreater). reflexivity. Qed.

Definition print_pipe_full_statement : Prop :=
  forall fl a args dest rest,
  all_wf wf (a :: args) -> wf dest ->
  let args' := map (par fl true 0) (a :: args) in
  let dest' := par fl false 0 dest in
  tok_cont false (hd_tok rest) = 0 ->
  exists n0, forall n, n0 <= n ->
    p_simple_stmt n (TPrint :: commas flat args' ++ TPipe :: flat dest' ++ rest)
    = POk (TopPrint false RPipe (Some dest') args', rest).

Theorem print_pipe_is_redirect : print_pipe_full_statement.
Proof. intros fl a args dest rest. apply (print_redirects TPipe RPipe). reflexivity. Qed.

(* the former witnesses: print 1 ? 2 : 3 > "f" }   and   print 1 ? 2 : 3 | "f" } *)
Definition w_cond : expr := ECond (ENum [49%Z]) (ENum [50%Z]) (ENum [51%Z]).
Definition w_dest : expr := EStr [102%Z].

Lemma w_print_gt_computed :
  p_simple_stmt 60 (TPrint :: pp_min true w_cond ++ TGreater :: pp_min false w_dest ++ [TRBrace])
  = POk (TopPrint false RGreater (Some w_dest) [w_cond], [TRBrace]).
Proof. vm_compute. reflexivity. Qed.

Lemma w_print_pipe_computed :
  p_simple_stmt 60 (TPrint :: pp_min true w_cond ++ TPipe :: pp_min false w_dest ++ [TRBrace])
  = POk (TopPrint false RPipe (Some w_dest) [w_cond], [TRBrace]).
Proof. vm_compute. reflexivity. Qed.

(* ---- the table order "++ -- below $" without the guard of wf: $$x++ ---- *)

Definition wf_posix (e : expr) : Prop :=
  wf e \/ exists op i, e = EIncr op false (EField (EField i)) /\ wf i.

Definition table_full_statement : Prop :=
  forall e rest, wf_posix e -> tok_cont false (hd_tok rest) = 0 ->
  exists n0, forall n, n0 <= n ->
    exists e1, p_lv n LExpr false None (pp_min false e ++ rest) = POk (e1, rest) /\ strip e1 = e.

Definition w_ddincr : expr := EIncr IIncr false (EField (EField (EVar [120%Z]))).

Lemma w_ddincr_computed :
  p_lv 60 LExpr false None (pp_min false w_ddincr ++ []) =
  POk (EField (EIncr IIncr false (EField (EVar [120%Z]))), []).
Proof. vm_compute. reflexivity. Qed.

Theorem table_full_refuted : ~ table_full_statement.
Proof.
  intros H.
  destruct (H w_ddincr []) as [n0 Hn]; [right; exists IIncr, (EVar [120%Z]); split; [reflexivity | exact I] | reflexivity |].
  destruct (Hn (Nat.max n0 60) ltac:(lia)) as (e1 & Hp & Hs).
  pose proof (p_lv_mono 60 (Nat.max n0 60) ltac:(lia) _ _ _ _ _ w_ddincr_computed) as Hc.
  rewrite Hc in Hp. injection Hp as <-. discriminate.
Qed.
