(* C02: every straight-line instruction whose static stack effect is (pops, pushes) leaves the
   stack exactly pops-pushes deeper, keeps the frame length and the call depth, and is never
   stuck when at least [pops] values are available. *)
From Coq Require Import ZifyBool.
From Verif Require Import Lib.Base Model.Ast Model.Instr Model.Compiler Model.Prims Model.VM
  Model.Verifier Proofs.CodeAt Proofs.VerifierBase Gen.Consts.

Section Simple.
  Variables value St err : Type.
  Variable P : prims value St err.
  Hypothesis Hshape : prims_shape P.

  Notation mstate := (mstate value St).

  Ltac fnext_inv H :=
    match type of H with
    | fnext_if ?b _ _ = FNext _ _ =>
        unfold fnext_if in H; destruct b eqn:?; [|discriminate H]
    | (if ?b then _ else _) = FNext _ _ => destruct b; discriminate H
    | _ => idtac
    end; injection H as <- <-.

  (* destructs the innermost scrutinee of the match at the head of [e] *)
  Ltac inner e :=
    lazymatch e with
    | match ?x with _ => _ end => inner x
    | _ => destruct e eqn:?
    end.

  Ltac fin :=
    cbn [sres_ok with_ms frame depth ms]; rewrite ?zlen_cons, ?zlen_app, ?zlen_nil;
    split; [lia|split; [assumption || lia|reflexivity || lia]].

  Ltac wr c := eapply lift_w_ok; [rewrite ?zlen_cons; lia|
    eapply var_write_ok with (cx := c); [cbn [var_ok]; try reflexivity; assumption|cbn [with_ms frame]; assumption|reflexivity]].

  Ltac go cx :=
    cbv beta iota;
    lazymatch goal with
    | |- sres_ok _ _ _ (SOk _ _) => fin
    | |- sres_ok _ _ _ (SErr _ _) => exact I
    | |- sres_ok _ _ _ (lift_w _ _) => wr cx
    | |- sres_ok _ _ _ (lift_unit _ _ _) =>
        apply lift_unit_ok; cbn [with_ms frame depth]; rewrite ?zlen_cons; first [lia|assumption|reflexivity]
    | |- sres_ok _ _ _ (lift_val _ _ _) =>
        apply lift_val_ok; cbn [with_ms frame depth]; rewrite ?zlen_cons; first [lia|assumption|reflexivity]
    | |- sres_ok _ _ _ (match ?x with [] => _ | _ :: _ => _ end) =>
        is_var x; destruct x as [|? x]; [exfalso; rewrite ?zlen_cons, ?zlen_nil in *; lia|rewrite ?zlen_cons in *]; go cx
    | |- sres_ok _ _ _ (match ?e with _ => _ end) => destruct e eqn:?; go cx
    end.

  Lemma exec_simple_ok cx i po pu stk (m : mstate) :
    flow_of cx i = FNext po pu ->
    po <= zlen stk -> zlen (frame m) = cx_nlocals cx ->
    sres_ok (zlen stk - po + pu) (cx_nlocals cx) (depth m) (exec_simple P i stk m).
  Proof.
    intros Hf Hd Hm.
    destruct i; cbn [flow_of] in Hf; try discriminate Hf; fnext_inv Hf; cbn [exec_simple].
    all: try match goal with H : local_ok_idx _ ?i = true |- _ =>
           let v := fresh "fv" in let Ev := fresh "Ev" in
           assert (Hr : 0 <= i < zlen (frame m)) by (unfold local_ok_idx in H; lia);
           destruct (frame_get_ok _ _ m i Hr) as [v Ev]; try rewrite Ev end.
    all: try solve [go cx].
    all: try match goal with |- context [pop_n (Z.to_nat ?n) ?stk []] =>
           let vs := fresh "vs" in let t := fresh "t" in let Ep := fresh "Ep" in
           let Lt := fresh "Lt" in let Lv := fresh "Lv" in
           destruct (pop_n_z _ n stk ltac:(lia) ltac:(pose proof (zlen_nonneg stk); try match goal with r : redir |- _ => destruct r end; cbn [redir_pops] in *; lia))
             as (vs & t & Ep & Lt & Lv); rewrite Ep end.
    all: try solve [go cx].
    - (* CallBuiltin *)
      destruct Hshape as [Har Hres]. rewrite Har.
      destruct (pop_n_ok _ (builtin_arity b) stk [] Hd) as (vs & t & Ep & Lt & Lv). rewrite Ep.
      destruct (p_builtin P b (ms m) vs) as [s [rs|e]] eqn:Eb; cbv beta iota; [|exact I].
      apply Hres in Eb.
      cbn [sres_ok with_ms frame depth]. rewrite zlen_app. unfold zlen at 1. rewrite rev_length, Eb.
      split; [lia|split; [assumption|reflexivity]].
    - (* Nulls *)
      cbn [sres_ok]. rewrite zlen_app. unfold zlen at 1. rewrite repeat_length.
      split; [lia|split; [assumption|reflexivity]].
    - (* Print *)
      destruct r; cbn [redir_pops] in *; try solve [go cx].
    - (* Printf *)
      destruct r; cbn [redir_pops] in *; try solve [go cx].
    - (* Getline *)
      destruct (do_getline_ok _ _ _ P m r stk Hd) as (t & res & Eg & Lt). rewrite Eg.
      destruct res as [s [[ret [line|]]|e]]; go cx.
    - (* GetlineField *)
      destruct (do_getline_ok _ _ _ P m r stk ltac:(lia)) as (t & res & Eg & Lt). rewrite Eg.
      destruct t as [|idx t]; [exfalso; rewrite zlen_nil in Lt; lia|rewrite zlen_cons in Lt].
      destruct res as [s [[ret [line|]]|e]]; go cx.
    - (* GetlineGlobal/Local/Special *)
      destruct (do_getline_ok _ _ _ P m r stk Hd) as (t & res & Eg & Lt). rewrite Eg.
      destruct res as [s [[ret [line|]]|e]]; go cx.
    - (* GetlineArray *)
      destruct (do_getline_ok _ _ _ P m r stk ltac:(lia)) as (t & res & Eg & Lt). rewrite Eg.
      destruct t as [|idx t]; [exfalso; rewrite zlen_nil in Lt; lia|rewrite zlen_cons in Lt].
      destruct res as [s [[ret [line|]]|e]]; go cx.
  Qed.
End Simple.
