(* C19: the former witnesses, evaluated on the faithful model, and the non-vacuity examples. *)
From Verif Require Import Lib.Base Model.Resolver Model.Determinism Proofs.Resolver Proofs.ResolverExact
  Proofs.Determinism Proofs.DeterminismSorted.
Open Scope Z_scope.

Lemma names_ok_forallb P :
  forallb (fun fd => negb (is_empty (f_name fd))) (p_funcs P) = true -> names_ok P.
Proof.
  intros H fd Hfd. rewrite forallb_forall in H. specialize (H fd Hfd).
  apply negb_true_iff in H. apply is_empty_false. exact H.
Qed.

(* ---------- two independent type errors ------------------------------------------------- *)

Lemma two_bad_names : names_ok two_bad.
Proof. apply names_ok_forallb. reflexivity. Qed.

Lemma two_bad_f_first : resolve (front_oracle [102]) two_bad = RErr (EUse TArray n_a TScalar).
Proof. vm_compute. reflexivity. Qed.

Lemma two_bad_g_first : resolve (front_oracle [103]) two_bad = RErr (EUse TArray n_b TScalar).
Proof. vm_compute. reflexivity. Qed.

Lemma two_bad_guard : one_error (pass_fuel two_bad) two_bad = false.
Proof. vm_compute. reflexivity. Qed.

Lemma one_bad_guard : names_ok one_bad /\ one_error (pass_fuel one_bad) one_bad = true /\
  resolve (front_oracle [103]) one_bad = RErr (EUse TArray n_a TScalar).
Proof. split; [apply names_ok_forallb; reflexivity|]. split; vm_compute; reflexivity. Qed.

Lemma good_prog_accepted : names_ok good_prog /\ one_error (pass_fuel good_prog) good_prog = true /\
  is_ok (resolve (front_oracle [102]) good_prog) = true /\ is_ok (resolve (front_oracle [103]) good_prog) = true.
Proof. split; [apply names_ok_forallb; reflexivity|]. repeat split; vm_compute; reflexivity. Qed.

(* ---------- the name the disassembler shows for a native call ------------------------------ *)

(* function f(a) { natv(a) } with the Go function natv: both have index 0, only natv is entered *)
Lemma native_clash_shown :
  func_keys native_clash = [n_natv; [102]] /\
  name_shown native_clash [n_natv; [102]] 0 = Some n_natv /\
  name_shown native_clash [[102]; n_natv] 0 = Some n_natv.
Proof. repeat split; vm_compute; reflexivity. Qed.

(* ---------- the repaired resolver on the former witnesses ------------------------------------ *)

(* sorted order: f before g, so f's error *)
Lemma two_bad_sorted : resolve name_order_oracle two_bad = RErr (EUse TArray n_a TScalar).
Proof. vm_compute. reflexivity. Qed.
