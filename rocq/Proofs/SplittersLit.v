(* A literal RS of two or more bytes - in particular one multi-byte character, which
   setSpecial compiles as QuoteMeta(RS) - searched as a byte string: the first occurrence is
   never revised by later input, so regexSplitter is stable for it. *)
From Verif Require Import Lib.Base Model.Scanner Model.Splitters Proofs.Scanner Proofs.Splitters.

Fixpoint prefixb (p d : bytes) : bool :=
  match p, d with
  | [], _ => true
  | x :: p', y :: d' => (x =? y) && prefixb p' d'
  | _ :: _, [] => false
  end.

(* first occurrence of p in d, offsets counted from i *)
Fixpoint find_lit_from (p d : bytes) (i : Z) : option (Z * Z) :=
  if prefixb p d then Some (i, i + zlen p)
  else match d with
       | [] => None
       | _ :: d' => find_lit_from p d' (i + 1)
       end.

Definition find_lit (p d : bytes) : option (Z * Z) := find_lit_from p d 0.

Lemma prefixb_len p : forall d, prefixb p d = true -> zlen p <= zlen d.
Proof.
  induction p as [|x p IH]; intros d H; [rewrite zlen_nil; apply zlen_nonneg|].
  destruct d as [|y d]; [discriminate|]. cbn [prefixb] in H. apply andb_true_iff in H as [_ H].
  rewrite !zlen_cons. apply IH in H. lia.
Qed.

Lemma prefixb_app p : forall d d', zlen p <= zlen d -> prefixb p (d ++ d') = prefixb p d.
Proof.
  induction p as [|x p IH]; intros d d' H; [reflexivity|].
  destruct d as [|y d]; [rewrite zlen_cons, zlen_nil in H; pose proof (zlen_nonneg p); lia|].
  cbn [app prefixb]. rewrite !zlen_cons in H. rewrite IH by lia. reflexivity.
Qed.

Lemma find_lit_from_bounds p : forall d i s e, find_lit_from p d i = Some (s, e) ->
  i <= s /\ e = s + zlen p /\ e <= i + zlen d.
Proof.
  induction d as [|y d IH]; intros i s e H; cbn [find_lit_from] in H.
  - destruct (prefixb p []) eqn:E; [|discriminate]. injection H as <- <-.
    apply prefixb_len in E. lia.
  - destruct (prefixb p (y :: d)) eqn:E.
    + injection H as <- <-. apply prefixb_len in E. lia.
    + apply IH in H. rewrite zlen_cons. lia.
Qed.

Lemma find_lit_bounds p d s e : find_lit p d = Some (s, e) -> 0 <= s /\ s <= e /\ e <= zlen d.
Proof.
  intros H. apply find_lit_from_bounds in H. pose proof (zlen_nonneg p). lia.
Qed.

Lemma find_lit_from_app p : forall d d' i s e, find_lit_from p d i = Some (s, e) ->
  find_lit_from p (d ++ d') i = Some (s, e).
Proof.
  induction d as [|y d IH]; intros d' i s e H; cbn [find_lit_from] in H.
  - destruct (prefixb p []) eqn:E; [|discriminate].
    assert (p = []) by (destruct p; [reflexivity|discriminate]). subst p.
    cbn [app]. destruct d'; cbn [find_lit_from prefixb]; exact H.
  - cbn [app find_lit_from]. destruct (prefixb p (y :: d)) eqn:E.
    + change (y :: d ++ d') with ((y :: d) ++ d').
      rewrite prefixb_app by (apply prefixb_len; exact E). rewrite E. exact H.
    + pose proof (find_lit_from_bounds _ _ _ _ _ H) as Hb.
      change (y :: d ++ d') with ((y :: d) ++ d').
      rewrite prefixb_app by (rewrite zlen_cons; lia). rewrite E.
      apply IH. exact H.
Qed.

Theorem lit_match_final p : match_final (find_lit p).
Proof. intros d d' s e H _. apply find_lit_from_app. exact H. Qed.

Theorem lit_stable p rs : stable unit record (to_split rs (regex_scan (find_lit p))).
Proof. apply regex_stable; [exact (find_lit_bounds p)|exact (lit_match_final p)]. Qed.

(* ---------- RS assigned while a regexSplitter is active ---------- *)

Section Sched.
  Variable rs_at : nat -> bytes.
  Variable find_at : nat -> bytes -> option (Z * Z).
  Hypothesis find_bounds : forall n d s e, find_at n d = Some (s, e) -> 0 <= s /\ s <= e /\ e <= zlen d.

  Let sp := regex_split_sched rs_at find_at.

  Lemma sched_unit n d e :
    sp n d e = match to_split (rs_at n) (regex_scan (find_at n)) tt d e with
               | SOk adv tok _ => SOk adv tok (match tok with Some _ => S n | None => n end)
               | SPanic => SPanic
               end.
  Proof.
    unfold sp, regex_split_sched, to_split.
    destruct (regex_scan (find_at n) d e) as [[[adv tok] rtw]| | |]; try reflexivity.
    destruct tok; reflexivity.
  Qed.

  Lemma sched_wb : wb nat record sp.
  Proof.
    split.
    - intros n d e. rewrite sched_unit.
      destruct (wb_ok _ _ _ (regex_wb (find_at n) (rs_at n) (find_bounds n)) tt d e)
        as (adv & tok & st' & Hs & Hb & Hp).
      rewrite Hs. eexists _, _, _. split; [reflexivity|]. split; [exact Hb|exact Hp].
    - intros n. rewrite sched_unit.
      rewrite (wb_empty _ _ _ (regex_wb (find_at n) (rs_at n) (find_bounds n)) tt). reflexivity.
  Qed.

  Lemma sched_stable : (forall n, match_final (find_at n)) -> stable nat record sp.
  Proof.
    intros MF. apply stable_simple; [exact sched_wb| |].
    - intros n d adv t st' Hs d'. rewrite sched_unit in Hs. rewrite sched_unit.
      destruct (find_cases (find_at n) d) as [(s & en & Hf & Hne)|Hf].
      + rewrite (regex_found (find_at n) (rs_at n) (find_bounds n) tt d false s en Hf Hne) in Hs.
        injection Hs as <- <- <-.
        destruct (find_bounds _ _ _ _ Hf) as (H1 & H2 & H3).
        rewrite (regex_found (find_at n) (rs_at n) (find_bounds n) tt (d ++ d') true s en
                   (MF n _ _ _ _ Hf Hne) Hne).
        rewrite ztake_app_le by lia. rewrite zdrop_app_le by lia.
        rewrite ztake_app_le; [reflexivity|]. rewrite zlen_zdrop by lia. lia.
      + rewrite (regex_nomatch (find_at n) (rs_at n) tt d false Hf) in Hs. cbn [andb] in Hs. discriminate.
    - intros n d adv st' Hs. rewrite sched_unit in Hs.
      destruct (find_cases (find_at n) d) as [(s & en & Hf & Hne)|Hf].
      + rewrite (regex_found (find_at n) (rs_at n) (find_bounds n) tt d false s en Hf Hne) in Hs. discriminate.
      + rewrite (regex_nomatch (find_at n) (rs_at n) tt d false Hf) in Hs. cbn [andb] in Hs.
        injection Hs as <- <-. split; reflexivity.
  Qed.
End Sched.
