(* C01: simulation, expression lists / arguments / subscripts / targets / conditions /
   concatenation chains. *)
From Verif Require Import Lib.Base Lib.Dyadic Model.Ast Model.Instr Model.Compiler Model.Prims Model.VM Model.AstSem
  Proofs.CodeAt Proofs.VMLemmas Proofs.Reach Proofs.PrimsOk Proofs.CompLemmas Proofs.SimDefs Proofs.SimExpr.

Section SimAux.
  Variables value St err : Type.
  Variable P : prims value St err.
  Variable FN : list func.
  Hypothesis OK : prims_ok P.
  Hypothesis CI : concat_indep P.

  Notation F := (F FN).
  Notation reaches := (reaches P F).
  Notation stops := (stops P F).
  Notation Sim := (Sim P FN).

  Lemma rev_cons_app (v : value) vs stk : rev (v :: vs) ++ stk = rev vs ++ v :: stk.
  Proof. cbn [rev]. rewrite <- app_assoc. reflexivity. Qed.

  Lemma sim_exprs_S n : Sim n -> SimExprs P FN (S n).
  Proof.
    intros (SE & SEs & _).
    intros es m C p stk Hc. destruct es as [|e es']; cbn [eval_exprs].
    - split; [|reflexivity]. cbn [comp_exprs csize rev app]. eapply reaches_cast; [apply reaches_refl|lia].
    - cbn [comp_exprs] in Hc |- *. apply code_at_app in Hc as [Ha Hb].
      pose proof (SE e m C p stk Ha) as H1.
      destruct (eval P FN n e m) as [v m1|x m1| |]; cbn [ebind]; try exact I; [|exact H1].
      pose proof (SEs es' m1 C _ (v :: stk) Hb) as H2.
      destruct (eval_exprs P FN n es' m1) as [vs m2|x m2| |]; cbn [ebind]; try exact I.
      + destruct H2 as [H2 Hl]. split.
        * rewrite rev_cons_app. eapply reaches_cast; [eapply reaches_trans; [exact H1|exact H2]|].
          rewrite csize_app. lia.
        * rewrite zlen_cons. cbn [exprs_len]. lia.
      + eapply reaches_stops; [exact H1|exact H2|discriminate].
  Qed.

  Lemma sim_args_S n : Sim n -> SimArgs P FN (S n).
  Proof.
    intros (SE & _ & SA & _).
    intros a m C p stk Hc. destruct a as [|e a'|sc i a']; cbn [eval_args].
    - split; [|reflexivity]. cbn [comp_args csize rev app]. eapply reaches_cast; [apply reaches_refl|lia].
    - cbn [comp_args] in Hc |- *. apply code_at_app in Hc as [Ha Hb].
      pose proof (SE e m C p stk Ha) as H1.
      destruct (eval P FN n e m) as [v m1|x m1| |]; cbn [ebind]; try exact I; [|exact H1].
      pose proof (SA a' m1 C _ (v :: stk) Hb) as H2.
      destruct (eval_args P FN n a' m1) as [vs m2|x m2| |]; cbn [ebind]; try exact I.
      + destruct H2 as [H2 Hl]. split.
        * rewrite rev_cons_app. eapply reaches_cast; [eapply reaches_trans; [exact H1|exact H2]|].
          rewrite csize_app. lia.
        * rewrite zlen_cons. cbn [args_scalars]. lia.
      + eapply reaches_stops; [exact H1|exact H2|discriminate].
    - cbn [comp_args args_scalars] in Hc |- *. exact (SA a' m C p stk Hc).
  Qed.

  Lemma sim_items_S n : Sim n -> SimItems P FN (S n).
  Proof.
    intros (SE & _ & _ & _ & _ & _ & _ & _ & _ & _ & _ & SIt).
    intros es m C p stk Hc. destruct es as [|e es']; cbn [eval_exprs].
    - exists []. split; [constructor|]. split; [reflexivity|].
      cbn [comp_index_items csize rev app]. eapply reaches_cast; [apply reaches_refl|lia].
    - cbn [comp_index_items] in Hc |- *. apply code_at_app in Hc as [Ha Hb].
      (* the item itself: value v, VM value v' with keq v v' *)
      assert (H1 : match eval P FN n e m with
                   | ENormal v m1 => exists v', keq P v v' /\
                        reaches C p stk m (p + csize (match e with
                                                      | ENum b => match int_index_str b with Some s => [IStr s] | None => comp_expr e end
                                                      | _ => comp_expr e end)) (v' :: stk) m1
                   | EAbort x m1 => stops C p stk m (VAbort x m1)
                   | _ => True end).
      { assert (Hgen : code_at C p (comp_expr e) ->
                  match eval P FN n e m with
                  | ENormal v m1 => exists v', keq P v v' /\ reaches C p stk m (p + csize (comp_expr e)) (v' :: stk) m1
                  | EAbort x m1 => stops C p stk m (VAbort x m1)
                  | _ => True end).
        { intros Hce. pose proof (SE e m C p stk Hce) as H.
          destruct (eval P FN n e m) as [v m1|x m1| |]; try exact I; [|exact H].
          exists v. split; [apply keq_refl|exact H]. }
        destruct e; try (apply Hgen; exact Ha).
        destruct (int_index_str bits) as [t|] eqn:Ei; [|apply Hgen; exact Ha].
        destruct n as [|n']; [exact I|]. cbn [eval].
        exists (p_str P t). split; [apply (ok_key OK); exact Ei|].
        eapply reaches_simple; [exact Ha|reflexivity|reflexivity]. }
      destruct (eval P FN n e m) as [v m1|x m1| |]; cbn [ebind]; try exact I; [|exact H1].
      destruct H1 as (v' & Hk & H1).
      pose proof (SIt es' m1 C _ (v' :: stk) Hb) as H2.
      destruct (eval_exprs P FN n es' m1) as [vs m2|x m2| |]; cbn [ebind]; try exact I.
      + destruct H2 as (vs' & Hf & Hl & H2). exists (v' :: vs'). split; [constructor; assumption|]. split.
        * rewrite zlen_cons. cbn [exprs_len]. lia.
        * rewrite rev_cons_app. eapply reaches_cast; [eapply reaches_trans; [exact H1|exact H2]|].
          rewrite csize_app. lia.
      + eapply reaches_stops; [exact H1|exact H2|discriminate].
  Qed.

  Lemma index_multi_congr s : forall vs ws, Forall2 (keq P) vs ws ->
    forall pre, p_index_multi P s (pre ++ vs) = p_index_multi P s (pre ++ ws).
  Proof.
    induction 1 as [|v w vs ws Hk Hf IH]; intros pre; [reflexivity|].
    destruct Hk as (_ & _ & _ & _ & Him).
    rewrite (Him s pre vs).
    replace (pre ++ w :: vs) with ((pre ++ [w]) ++ vs) by (rewrite <- app_assoc; reflexivity).
    rewrite IH. rewrite <- app_assoc. reflexivity.
  Qed.

  Lemma sim_index_S n : Sim n -> SimIndex P FN (S n).
  Proof.
    intros (_ & _ & _ & _ & _ & _ & _ & _ & _ & _ & _ & SIt).
    intros es m C p stk Hc. cbn [eval_index]. rewrite comp_index_eq in Hc |- *.
    apply code_at_app in Hc as [Ha Hb].
    pose proof (SIt es m C p stk Ha) as H1.
    destruct (eval_exprs P FN n es m) as [vs m1|x m1| |]; cbn [ebind]; try exact I; [|exact H1].
    destruct H1 as (vs' & Hf & Hl & H1).
    destruct vs as [|v [|v2 vs2]]; [exact I| |].
    - inversion Hf as [|? v' ? ? Hk Hf' E1 E2]; subst. inversion Hf'; subst.
      exists v'. split; [exact Hk|].
      unfold index_multi_tail. rewrite <- Hl. cbn [zlen length Z.of_nat]. change (1 <? 1) with false.
      cbn [rev app] in H1. eapply reaches_cast; [exact H1|]. rewrite csize_app. cbn [csize]. lia.
    - exists (p_index_multi P (ms m1) (v :: v2 :: vs2)). split; [apply keq_refl|].
      unfold index_multi_tail in *. rewrite <- Hl in *.
      assert (Hgt : (1 <? zlen (v :: v2 :: vs2)) = true).
      { apply Z.ltb_lt. rewrite !zlen_cons. pose proof (zlen_nonneg vs2). lia. }
      rewrite Hgt in *.
      eapply reaches_cast.
      + eapply reaches_trans; [exact H1|].
        eapply reaches_simple; [exact Hb|reflexivity|].
        cbn [exec_simple].
        assert (Hlen : zlen vs' = zlen (v :: v2 :: vs2)).
        { unfold zlen. f_equal. symmetry. eapply Forall2_length. exact Hf. }
        rewrite (pop_n_rev_z vs' _ stk Hlen).
        rewrite <- (index_multi_congr (ms m1) _ _ Hf []). reflexivity.
      + rewrite csize_app. cbn [csize isize]. lia.
  Qed.

  Lemma sim_lref_S n : Sim n -> SimLref P FN (S n).
  Proof.
    intros (SE & _ & _ & SI & _).
    intros lv m C p stk Hc. destruct lv as [sc i|e|sc i idx]; cbn [eval_lref lv_code] in *.
    - exists (RVar sc i). split; [split; reflexivity|]. split; [split; reflexivity|].
      cbn [ref_stack csize]. eapply reaches_cast; [apply reaches_refl|lia].
    - pose proof (SE e m C p stk Hc) as H.
      destruct (eval P FN n e m) as [v m1|x m1| |]; cbn [ebind]; try exact I; [|exact H].
      exists (RField v). split; [exact I|]. split; [reflexivity|exact H].
    - pose proof (SI idx m C p stk Hc) as H.
      destruct (eval_index P FN n idx m) as [key m1|x m1| |]; cbn [ebind]; try exact I; [|exact H].
      destruct H as (key' & Hk & H).
      exists (RIndex sc i key'). split; [split; reflexivity|]. split; [repeat split; assumption|exact H].
  Qed.

End SimAux.
