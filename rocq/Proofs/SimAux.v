(* C01: simulation, expression lists / arguments / subscripts / targets / conditions /
   concatenation chains. *)
From Verif Require Import Lib.Base Lib.Dyadic Model.Ast Model.Instr Model.Compiler Model.Prims Model.VM Model.AstSem
  Proofs.CodeAt Proofs.VMLemmas Proofs.Reach Proofs.PrimsOk Proofs.CompLemmas Proofs.SimDefs Proofs.SimExpr Proofs.AstSemEq.

Section SimAux.
  Variables value St err : Type.
  Variable P : prims value St err.
  Variable FN : list func.
  Hypothesis OK : prims_ok P.
  Hypothesis CI : concat_indep P.

  Notation F := (F FN).
  Notation reaches := (reaches P F).
  Notation stops := (stops P F).
  Notation Sim := (Sim P FN).

  Lemma rev_cons_app (v : value) vs stk : rev (v :: vs) ++ stk = rev vs ++ v :: stk.
  Proof. cbn [rev]. rewrite <- app_assoc. reflexivity. Qed.

  Lemma sim_exprs_S n : Sim n -> SimExprs P FN (S n).
  Proof.
    intros (SE & SEs & _).
    intros es m C p stk Hc. destruct es as [|e es']; [rewrite eval_exprs_nil|rewrite eval_exprs_cons].
    - split; [|reflexivity]. cbn [comp_exprs csize rev app]. eapply reaches_cast; [apply reaches_refl|lia].
    - cbn [comp_exprs] in Hc |- *. apply code_at_app in Hc as [Ha Hb].
      pose proof (SE e m C p stk Ha) as H1.
      destruct (eval P FN n e m) as [v m1|x m1| |]; cbn [ebind]; try exact I; [|exact H1].
      pose proof (SEs es' m1 C _ (v :: stk) Hb) as H2.
      destruct (eval_exprs P FN n es' m1) as [vs m2|x m2| |]; cbn [ebind]; try exact I.
      + destruct H2 as [H2 Hl]. split.
        * rewrite rev_cons_app. eapply reaches_cast; [eapply reaches_trans; [exact H1|exact H2]|].
          rewrite csize_app. lia.
        * rewrite zlen_cons. cbn [exprs_len]. lia.
      + eapply reaches_stops; [exact H1|exact H2|discriminate].
  Qed.

  Lemma sim_args_S n : Sim n -> SimArgs P FN (S n).
  Proof.
    intros (SE & _ & SA & _).
    intros a m C p stk Hc. destruct a as [|e a'|sc i a']; [rewrite eval_args_nil|rewrite eval_args_s|rewrite eval_args_a].
    - split; [|reflexivity]. cbn [comp_args csize rev app]. eapply reaches_cast; [apply reaches_refl|lia].
    - cbn [comp_args] in Hc |- *. apply code_at_app in Hc as [Ha Hb].
      pose proof (SE e m C p stk Ha) as H1.
      destruct (eval P FN n e m) as [v m1|x m1| |]; cbn [ebind]; try exact I; [|exact H1].
      pose proof (SA a' m1 C _ (v :: stk) Hb) as H2.
      destruct (eval_args P FN n a' m1) as [vs m2|x m2| |]; cbn [ebind]; try exact I.
      + destruct H2 as [H2 Hl]. split.
        * rewrite rev_cons_app. eapply reaches_cast; [eapply reaches_trans; [exact H1|exact H2]|].
          rewrite csize_app. lia.
        * rewrite zlen_cons. cbn [args_scalars]. lia.
      + eapply reaches_stops; [exact H1|exact H2|discriminate].
    - cbn [comp_args args_scalars] in Hc |- *. exact (SA a' m C p stk Hc).
  Qed.

  Lemma sim_items_S n : Sim n -> SimItems P FN (S n).
  Proof.
    intros (SE & _ & _ & _ & _ & _ & _ & _ & _ & _ & _ & SIt).
    intros es m C p stk Hc. destruct es as [|e es']; [rewrite eval_exprs_nil|rewrite eval_exprs_cons].
    - exists []. split; [constructor|]. split; [reflexivity|].
      cbn [comp_index_items csize rev app]. eapply reaches_cast; [apply reaches_refl|lia].
    - cbn [comp_index_items] in Hc |- *. apply code_at_app in Hc as [Ha Hb].
      (* the item itself: value v, VM value v' with keq v v' *)
      assert (H1 : match eval P FN n e m with
                   | ENormal v m1 => exists v', keq P v v' /\
                        reaches C p stk m (p + csize (match e with
                                                      | ENum b => match int_index_str b with Some s => [IStr s] | None => comp_expr e end
                                                      | _ => comp_expr e end)) (v' :: stk) m1
                   | EAbort x m1 => stops C p stk m (VAbort x m1)
                   | _ => True end).
      { assert (Hgen : code_at C p (comp_expr e) ->
                  match eval P FN n e m with
                  | ENormal v m1 => exists v', keq P v v' /\ reaches C p stk m (p + csize (comp_expr e)) (v' :: stk) m1
                  | EAbort x m1 => stops C p stk m (VAbort x m1)
                  | _ => True end).
        { intros Hce. pose proof (SE e m C p stk Hce) as H.
          destruct (eval P FN n e m) as [v m1|x m1| |]; try exact I; [|exact H].
          exists v. split; [apply keq_refl|exact H]. }
        destruct e; try (apply Hgen; exact Ha).
        destruct (int_index_str bits) as [t|] eqn:Ei; [|apply Hgen; exact Ha].
        destruct n as [|n']; [exact I|]. cbn [eval eval_exprs eval_index eval_lref eval_args exec exec_stmts exec_loop].
        exists (p_str P t). split; [apply (ok_key OK); exact Ei|].
        eapply reaches_simple; [exact Ha|reflexivity|reflexivity]. }
      destruct (eval P FN n e m) as [v m1|x m1| |]; cbn [ebind]; try exact I; [|exact H1].
      destruct H1 as (v' & Hk & H1).
      pose proof (SIt es' m1 C _ (v' :: stk) Hb) as H2.
      destruct (eval_exprs P FN n es' m1) as [vs m2|x m2| |]; cbn [ebind]; try exact I.
      + destruct H2 as (vs' & Hf & Hl & H2). exists (v' :: vs'). split; [constructor; assumption|]. split.
        * rewrite zlen_cons. cbn [exprs_len]. lia.
        * rewrite rev_cons_app. eapply reaches_cast; [eapply reaches_trans; [exact H1|exact H2]|].
          rewrite csize_app. lia.
      + eapply reaches_stops; [exact H1|exact H2|discriminate].
  Qed.

  Lemma index_multi_congr s : forall vs ws, Forall2 (keq P) vs ws ->
    forall pre, p_index_multi P s (pre ++ vs) = p_index_multi P s (pre ++ ws).
  Proof.
    induction 1 as [|v w vs ws Hk Hf IH]; intros pre; [reflexivity|].
    destruct Hk as (_ & _ & _ & _ & Him).
    rewrite (Him s pre vs).
    replace (pre ++ w :: vs) with ((pre ++ [w]) ++ vs) by (rewrite <- app_assoc; reflexivity).
    rewrite IH. rewrite <- app_assoc. reflexivity.
  Qed.

  Lemma sim_index_S n : Sim n -> SimIndex P FN (S n).
  Proof.
    intros (_ & _ & _ & _ & _ & _ & _ & _ & _ & _ & _ & SIt).
    intros es m C p stk Hc. rewrite eval_index_S. rewrite comp_index_eq in Hc |- *.
    apply code_at_app in Hc as [Ha Hb].
    pose proof (SIt es m C p stk Ha) as H1.
    destruct (eval_exprs P FN n es m) as [vs m1|x m1| |]; cbn [ebind]; try exact I; [|exact H1].
    destruct H1 as (vs' & Hf & Hl & H1).
    destruct vs as [|v [|v2 vs2]]; [exact I| |].
    - inversion Hf as [|? v' ? ? Hk Hf' E1 E2]; subst. inversion Hf'; subst.
      exists v'. split; [exact Hk|].
      unfold index_multi_tail. rewrite <- Hl. change (zlen [v]) with 1. change (1 <? 1) with false.
      cbn [rev app] in H1. eapply reaches_cast; [exact H1|]. rewrite csize_app. cbn [csize]. lia.
    - exists (p_index_multi P (ms m1) (v :: v2 :: vs2)). split; [apply keq_refl|].
      unfold index_multi_tail in *. rewrite <- Hl in *.
      assert (Hgt : (1 <? zlen (v :: v2 :: vs2)) = true).
      { apply Z.ltb_lt. rewrite !zlen_cons. pose proof (zlen_nonneg vs2). lia. }
      rewrite Hgt in *.
      eapply reaches_cast.
      + eapply reaches_trans; [exact H1|].
        eapply reaches_simple; [exact Hb|reflexivity|].
        cbn [exec_simple].
        assert (Hlen : zlen vs' = zlen (v :: v2 :: vs2)).
        { unfold zlen. f_equal. symmetry. clear -Hf. induction Hf; cbn [length]; congruence. }
        rewrite (@pop_n_rev_z _ vs' _ stk Hlen).
        pose proof (index_multi_congr (ms m1) _ _ Hf []) as Hc2. cbn [app] in Hc2. rewrite <- Hc2. reflexivity.
      + rewrite csize_app. cbn [csize isize]. lia.
  Qed.

  Lemma sim_lref_S n : Sim n -> SimLref P FN (S n).
  Proof.
    intros (SE & _ & _ & SI & _).
    intros lv m C p stk Hc. destruct lv as [sc i|e|sc i idx]; [rewrite eval_lref_var|rewrite eval_lref_field|rewrite eval_lref_index]; cbn [lv_code] in *.
    - exists (RVar sc i). split; [split; reflexivity|]. split; [split; reflexivity|].
      cbn [ref_stack csize]. eapply reaches_cast; [apply reaches_refl|lia].
    - pose proof (SE e m C p stk Hc) as H.
      destruct (eval P FN n e m) as [v m1|x m1| |]; cbn [ebind]; try exact I; [|exact H].
      exists (RField v). split; [exact I|]. split; [reflexivity|exact H].
    - pose proof (SI idx m C p stk Hc) as H.
      destruct (eval_index P FN n idx m) as [key m1|x m1| |]; cbn [ebind]; try exact I; [|exact H].
      destruct H as (key' & Hk & H).
      exists (RIndex sc i key'). split; [split; reflexivity|]. split; [split; [reflexivity|split; [reflexivity|exact Hk]]|exact H].
  Qed.

  (* one conditional jump after the condition value *)
  Lemma jump_bool C p c v (inv : bool) off stk m :
    code_at C p ((if inv then IJumpFalse off else IJumpTrue off) :: c) ->
    reaches C p (v :: stk) m (if xorb (p_to_bool P v) inv then p + 2 + off else p + 2) stk m.
  Proof.
    intros H. apply reaches_step. erewrite step_at by exact H.
    destruct inv; cbn [isize xorb]; destruct (p_to_bool P v); reflexivity.
  Qed.

  Lemma sim_cond_S n : Sim n -> SimCond P FN (S n).
  Proof.
    intros HS. pose proof (@sim_expr_S _ _ _ P FN OK CI n HS) as SE1. destruct HS as (SE & _).
    intros e inv off m C p stk Hc.
    (* the unfused form: value, then JumpTrue / JumpFalse *)
    assert (Hgen : code_at C p (comp_expr e ++ [if inv then IJumpFalse off else IJumpTrue off]) ->
              match eval P FN (S n) e m with
              | ENormal v m' =>
                  let e_ := p + csize (comp_expr e ++ [if inv then IJumpFalse off else IJumpTrue off]) in
                  reaches C p stk m (if xorb (p_to_bool P v) inv then e_ + off else e_) stk m'
              | EAbort x m' => stops C p stk m (VAbort x m')
              | _ => True
              end).
    { intros Hc'. apply code_at_app in Hc' as [Ha Hb].
      pose proof (SE1 e m C p stk Ha) as H.
      destruct (eval P FN (S n) e m) as [v m1|x m1| |]; try exact I; [|exact H].
      cbv zeta. eapply reaches_cast; [eapply reaches_trans; [exact H|eapply jump_bool; exact Hb]|].
      rewrite csize_app. destruct inv; cbn [csize isize]; destruct (xorb _ _); lia. }
    unfold comp_cond, cond_code in Hc |- *.
    destruct e; try (apply Hgen; exact Hc).
    destruct op; try (apply Hgen; exact Hc).
    destruct (inv && is_ordering c) eqn:Eord; [destruct inv; [|discriminate]; apply Hgen; exact Hc|].
    (* fused compare-and-branch *)
    cbn [eval eval_exprs eval_index eval_lref eval_args exec exec_stmts exec_loop].
    apply code_at_app in Hc as [Hl Hc]. apply code_at_app in Hc as [Hr Hj].
    pose proof (SE e1 m C p stk Hl) as H1.
    destruct (eval P FN n e1 m) as [vl m1|x m1| |]; cbn [ebind]; try exact I; [|exact H1].
    pose proof (SE e2 m1 C _ (vl :: stk) Hr) as H2.
    destruct (eval P FN n e2 m1) as [vr m2|x m2| |]; cbn [ebind]; try exact I;
      [|eapply reaches_stops; [exact H1|exact H2|discriminate]].
    cbv zeta. rewrite (ok_bool OK).
    eapply reaches_cast.
    - eapply reaches_trans; [exact H1|]. eapply reaches_trans; [exact H2|].
      apply reaches_step. erewrite step_at by exact Hj. cbn [isize]. reflexivity.
    - rewrite (ok_cmpj OK). rewrite !csize_app. cbn [csize isize].
      assert (Hneg : p_cmp P (if inv then cmp_neg c else c) (ms m2) vl vr = xorb (p_cmp P c (ms m2) vl vr) inv).
      { destruct inv; [|rewrite xorb_false_r; reflexivity].
        destruct c; cbn [is_ordering andb] in Eord; try discriminate; cbn [cmp_neg]; rewrite xorb_true_r.
        - apply (ok_ne OK).
        - rewrite (ok_ne OK), negb_involutive. reflexivity. }
      rewrite Hneg. destruct (xorb _ inv); lia.
  Qed.

  Lemma sim_cat_S n : Sim n -> SimCat P FN (S n).
  Proof.
    intros HS. pose proof (@sim_expr_S _ _ _ P FN OK CI n HS) as SE1. destruct HS as (SE & _ & _ & _ & _ & _ & SCat & _).
    intros e m C p stk Hc.
    assert (Hgen : (forall l r, e <> EConcat l r) ->
              match eval P FN (S n) e m with
              | ENormal v m' =>
                  exists v0 vs, zlen (v0 :: vs) = cat_count e /\
                    v = fold_left (p_concat P (ms m')) vs v0 /\
                    reaches C p stk m (p + csize (comp_cat e)) (rev (v0 :: vs) ++ stk) m'
              | EAbort x m' => stops C p stk m (VAbort x m')
              | _ => True
              end).
    { intros Hne. rewrite (cc_other e Hne) in Hc |- *.
      pose proof (SE1 e m C p stk Hc) as H.
      destruct (eval P FN (S n) e m) as [v m1|x m1| |]; try exact I; [|exact H].
      exists v, []. split; [destruct e; try reflexivity; exfalso; eapply Hne; reflexivity|].
      split; [reflexivity|exact H]. }
    destruct e; try (apply Hgen; intros; discriminate).
    rewrite cc_concat in Hc |- *. cbn [eval eval_exprs eval_index eval_lref eval_args exec exec_stmts exec_loop cat_count].
    apply code_at_app in Hc as [Hl Hr].
    pose proof (SCat e1 m C p stk Hl) as H1.
    destruct (eval P FN n e1 m) as [vl m1|x m1| |]; cbn [ebind]; try exact I; [|exact H1].
    destruct H1 as (v0 & vs & Hlen & -> & H1).
    pose proof (SE e2 m1 C _ (rev (v0 :: vs) ++ stk) Hr) as H2.
    destruct (eval P FN n e2 m1) as [vr m2|x m2| |]; cbn [ebind]; try exact I;
      [|eapply reaches_stops; [exact H1|exact H2|discriminate]].
    exists v0, (vs ++ [vr]). split; [|split].
    - rewrite zlen_cons in Hlen. rewrite zlen_cons, zlen_app. change (zlen [vr]) with 1. lia.
    - rewrite fold_left_app. cbn [fold_left]. f_equal.
      assert (Hf : forall l a, fold_left (p_concat P (ms m1)) l a = fold_left (p_concat P (ms m2)) l a).
      { induction l as [|x l IHl]; intros a; cbn [fold_left]; [reflexivity|].
        rewrite (CI (ms m1) (ms m2)). apply IHl. }
      apply Hf.
    - replace (rev (v0 :: vs ++ [vr]) ++ stk) with (vr :: rev (v0 :: vs) ++ stk)
        by (change (v0 :: vs ++ [vr]) with ((v0 :: vs) ++ [vr]); rewrite rev_app_distr; reflexivity).
      eapply reaches_cast; [eapply reaches_trans; [exact H1|exact H2]|]. rewrite csize_app. lia.
  Qed.

End SimAux.
