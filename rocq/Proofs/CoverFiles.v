(* C18 proofs, part 7: FileReader.  AddFile keeps the concatenated source newline-terminated
   and its line table exact, so FileLine maps the global line of every byte of every program
   file to that file and to the byte's line inside it. *)
From Verif Require Import Lib.Base Model.Cover.

Definition total_lines (fs : ftable) : Z := fold_right (fun f a => snd f + a) 0 fs.

Lemma total_lines_app a b : total_lines (a ++ b) = total_lines a + total_lines b.
Proof. unfold total_lines. induction a as [|x a IH]; cbn [app fold_right]; lia. Qed.

Lemma count_nl_app a b : count_nl (a ++ b) = count_nl a + count_nl b.
Proof. induction a as [|c a IH]; cbn [app count_nl]; lia. Qed.

Lemma count_nl_nonneg s : 0 <= count_nl s.
Proof. induction s as [|c s IH]; cbn [count_nl]; [lia|]. destruct (c =? 10); lia. Qed.

Lemma ends_nl_snoc s : ends_nl (s ++ [10]) = true.
Proof. unfold ends_nl. rewrite rev_app_distr. reflexivity. Qed.

Lemma ends_nl_app a b : b <> [] -> ends_nl (a ++ b) = ends_nl b.
Proof.
  intros Hb. unfold ends_nl. rewrite rev_app_distr.
  destruct (rev b) as [|c r] eqn:Hr; [|reflexivity].
  exfalso. apply Hb. rewrite <- (rev_involutive b), Hr. reflexivity.
Qed.

(* a non-empty suffix of a newline-terminated string contains a newline *)
Lemma suffix_has_nl pre post : ends_nl (pre ++ post) = true -> post <> [] -> 1 <= count_nl post.
Proof.
  intros He Hp. rewrite ends_nl_app in He by exact Hp. unfold ends_nl in He.
  destruct (rev post) as [|c r] eqn:Hr; [discriminate He|].
  assert (Hpost : post = rev r ++ [c]) by (rewrite <- (rev_involutive post), Hr; reflexivity).
  rewrite Hpost, count_nl_app. cbn [count_nl]. rewrite He. pose proof (count_nl_nonneg (rev r)). lia.
Qed.

(* the reader state is well formed: table total = newlines of the source, source newline-terminated *)
Definition reader_ok (st : ftable * bytes) : Prop :=
  count_nl (snd st) = total_lines (fst st)
  /\ (snd st = [] \/ ends_nl (snd st) = true)
  /\ Forall (fun f => 0 <= snd f) (fst st).

Lemma reader_ok_init : reader_ok ([], []).
Proof. split; [reflexivity|]. split; [left; reflexivity|constructor]. Qed.

(* what AddFile appends *)
Lemma add_file_eq files src path content :
  exists added, add_file (files, src) path content = (files ++ [(path, count_nl added)], src ++ added)
    /\ (added = content \/ added = content ++ [10]) /\ ends_nl (src ++ added) = true.
Proof.
  unfold add_file. destruct (ends_nl (src ++ content)) eqn:He.
  - exists content. rewrite skipn_app, skipn_all, Nat.sub_diag. cbn [skipn app].
    split; [reflexivity|]. split; [left; reflexivity|exact He].
  - exists (content ++ [10]). rewrite <- app_assoc, skipn_app, skipn_all, Nat.sub_diag. cbn [skipn app].
    split; [reflexivity|]. split; [right; reflexivity|]. rewrite app_assoc. apply ends_nl_snoc.
Qed.

Theorem add_file_ok st path content : reader_ok st -> reader_ok (add_file st path content).
Proof.
  destruct st as [files src]. intros (H1 & H2 & H3). cbn [fst snd] in *.
  destruct (add_file_eq files src path content) as (added & -> & _ & He). unfold reader_ok. cbn [fst snd].
  split; [|split].
  - rewrite count_nl_app, total_lines_app, H1. unfold total_lines. cbn [fold_right snd]. lia.
  - right. exact He.
  - apply Forall_app. split; [exact H3|]. constructor; [apply count_nl_nonneg|constructor].
Qed.

(* FileLine on a table extended at the end *)
Lemma file_line_from_skip fs : forall start line p n,
  Forall (fun f => 0 <= snd f) fs -> start + total_lines fs <= line < start + total_lines fs + n ->
  file_line_from (fs ++ [(p, n)]) start line = (p, line - (start + total_lines fs) + 1).
Proof.
  induction fs as [|[q m] fs IH]; intros start line p n HF Hl; cbn [app file_line_from].
  - unfold total_lines in *. cbn [fold_right] in *.
    replace ((start <=? line) && (line <? start + n)) with true by (symmetry; apply andb_true_iff; split; [apply Z.leb_le|apply Z.ltb_lt]; lia).
    f_equal. lia.
  - inversion HF as [|? ? Hm HF']; subst. cbn [snd] in Hm.
    assert (Ht : total_lines ((q, m) :: fs) = m + total_lines fs) by reflexivity. rewrite Ht in Hl.
    pose proof (count_nl_nonneg []) as _.
    assert (Hnn : 0 <= total_lines fs).
    { clear -HF'. induction HF' as [|x l Hx _ IH]; unfold total_lines in *; cbn [fold_right]; lia. }
    replace ((start <=? line) && (line <? start + m)) with false
      by (symmetry; apply andb_false_iff; right; apply Z.ltb_ge; lia).
    rewrite (IH (start + m) line p n HF') by lia. rewrite Ht. f_equal. lia.
Qed.

Lemma file_line_from_keep fs : forall start line x,
  start <= line < start + total_lines fs -> Forall (fun f => 0 <= snd f) fs ->
  file_line_from (fs ++ [x]) start line = file_line_from fs start line.
Proof.
  induction fs as [|[q m] fs IH]; intros start line x Hl HF; cbn [app file_line_from].
  - unfold total_lines in Hl. cbn in Hl. lia.
  - inversion HF as [|? ? Hm HF']; subst. cbn [snd] in Hm.
    assert (Ht : total_lines ((q, m) :: fs) = m + total_lines fs) by reflexivity. rewrite Ht in Hl.
    destruct ((start <=? line) && (line <? start + m)) eqn:Hin; [reflexivity|].
    apply IH; [|exact HF']. apply andb_false_iff in Hin as [Hin|Hin]; [apply Z.leb_gt in Hin|apply Z.ltb_ge in Hin]; lia.
Qed.

(* FileLine is exact: the byte at offset |pre| of the text this AddFile appended lies on global
   line (newlines before it in the whole source) + 1; FileLine maps that line to this file and
   to (newlines before the byte inside the file) + 1; and lines of earlier files keep their image. *)
Theorem file_line_exact files src path content :
  reader_ok (files, src) ->
  exists added, add_file (files, src) path content = (files ++ [(path, count_nl added)], src ++ added)
  /\ (added = content \/ added = content ++ [10])
  /\ (forall pre post, added = pre ++ post -> post <> [] ->
        file_line (files ++ [(path, count_nl added)]) (count_nl (src ++ pre) + 1) = (path, count_nl pre + 1))
  /\ (forall line, 1 <= line <= count_nl src ->
        file_line (files ++ [(path, count_nl added)]) line = file_line files line).
Proof.
  intros (H1 & H2 & H3). cbn [fst snd] in *.
  destruct (add_file_eq files src path content) as (added & Heq & Hadd & He).
  exists added. split; [exact Heq|]. split; [exact Hadd|]. split.
  - intros pre post Hsplit Hpost. unfold file_line.
    assert (Hnl : 1 <= count_nl post).
    { apply (suffix_has_nl (src ++ pre) post); [|exact Hpost]. rewrite <- app_assoc, <- Hsplit. exact He. }
    rewrite file_line_from_skip; [|exact H3|].
    + f_equal. rewrite count_nl_app, H1. lia.
    + rewrite Hsplit, !count_nl_app, H1. pose proof (count_nl_nonneg pre). lia.
  - intros line Hl. unfold file_line. apply file_line_from_keep; [rewrite <- H1; lia|exact H3].
Qed.

(* ---- WriteProfile and the previous content of the profile file ---- *)
(* Without -coverappend (or when the file did not exist) the previous content plays no role:
   the file is created or truncated, so the result is the profile a fresh path would get. *)
Theorem write_profile_overwrites m app existed old abs bl data :
  app && existed = false ->
  write_profile m app existed old abs bl data = write_profile m false false [] abs bl data.
Proof.
  unfold write_profile. intros H. rewrite (andb_comm existed app), H. reflexivity.
Qed.

(* With -coverappend on an existing file the old content is kept and only block lines follow *)
Theorem write_profile_appends m old abs bl data :
  write_profile m true true old abs bl data = old ++ profile_lines abs bl data 0.
Proof. reflexivity. Qed.

(* a fresh profile is the mode line followed by exactly one line per block of the program run *)
Lemma dec_digits_no_nl fuel : forall n acc, 0 <= n -> Forall (fun c => c <> 10) acc ->
  Forall (fun c => c <> 10) (dec_digits fuel n acc).
Proof.
  induction fuel as [|f IH]; intros n acc Hn Hacc; cbn [dec_digits]; [exact Hacc|].
  assert (Hd : Forall (fun c => c <> 10) ((48 + n mod 10) :: acc)).
  { constructor; [|exact Hacc]. pose proof (Z.mod_pos_bound n 10 ltac:(lia)). lia. }
  destruct (n <? 10); [exact Hd|]. apply IH; [|exact Hd]. apply Z.div_pos; lia.
Qed.

Lemma dec_of_Z_no_nl n : Forall (fun c => c <> 10) (dec_of_Z n).
Proof.
  unfold dec_of_Z. destruct (n <? 0) eqn:Hn.
  - apply Z.ltb_lt in Hn. constructor; [lia|]. apply dec_digits_no_nl; [lia|constructor].
  - apply Z.ltb_ge in Hn. apply dec_digits_no_nl; [lia|constructor].
Qed.

Lemma count_nl_no_nl s : Forall (fun c => c <> 10) s -> count_nl s = 0.
Proof.
  induction 1 as [|c s Hc _ IH]; [reflexivity|]. cbn [count_nl]. rewrite IH.
  destruct (c =? 10) eqn:E; [apply Z.eqb_eq in E; contradiction|reflexivity].
Qed.

Lemma profile_line_one abs b cnt : Forall (fun c => c <> 10) (abs (b_path b)) ->
  count_nl (profile_line abs b cnt) = 1.
Proof.
  intros Hp. unfold profile_line. rewrite !count_nl_app.
  rewrite (count_nl_no_nl _ Hp), !(count_nl_no_nl _ (dec_of_Z_no_nl _)). reflexivity.
Qed.

Lemma profile_lines_count abs bl data : forall i,
  Forall (fun b => Forall (fun c => c <> 10) (abs (b_path b))) bl ->
  count_nl (profile_lines abs bl data i) = zlen bl.
Proof.
  induction bl as [|b t IH]; intros i HF; [reflexivity|].
  inversion HF as [|? ? Hb Ht]; subst. cbn [profile_lines].
  rewrite count_nl_app, (profile_line_one _ _ _ Hb), (IH _ Ht), zlen_cons. reflexivity.
Qed.

Theorem write_profile_line_count m app existed old abs bl data :
  app && existed = false ->
  Forall (fun b => Forall (fun c => c <> 10) (abs (b_path b))) bl ->
  count_nl (write_profile m app existed old abs bl data) = 1 + zlen bl.
Proof.
  intros H HF. rewrite (write_profile_overwrites _ _ _ _ _ _ _ H). unfold write_profile. cbn [andb negb].
  rewrite !count_nl_app, (profile_lines_count _ _ _ _ HF).
  destruct m; reflexivity.
Qed.
