(* C01: addressing lemmas for instruction lists (word offsets). *)
From Verif Require Import Lib.Base Model.Ast Model.Instr.

Lemma isize_pos i : 0 < isize i.
Proof. destruct i; cbn [isize]; try lia. pose proof (zlen_nonneg arrs). lia. Qed.

Lemma csize_nonneg c : 0 <= csize c.
Proof. induction c as [|i c IH]; cbn [csize]; [lia|]. pose proof (isize_pos i). lia. Qed.

Lemma csize_app a b : csize (a ++ b) = csize a + csize b.
Proof. induction a as [|i a IH]; cbn [csize app]; [lia|]. rewrite IH. lia. Qed.

Lemma csize_cons i c : csize (i :: c) = isize i + csize c.
Proof. reflexivity. Qed.

Lemma csize_one i : csize [i] = isize i.
Proof. cbn [csize]. lia. Qed.

(* [code_at C p c]: the fragment c sits in C at word offset p *)
Definition code_at (C : code) (p : Z) (c : code) : Prop :=
  exists pre post, C = pre ++ c ++ post /\ csize pre = p.

Lemma code_at_whole C : code_at C 0 C.
Proof. exists [], []. rewrite app_nil_r. split; reflexivity. Qed.

Lemma code_at_app_l C p a b : code_at C p (a ++ b) -> code_at C p a.
Proof. intros (pre & post & -> & Hp). exists pre, (b ++ post). rewrite <- app_assoc. split; [reflexivity|exact Hp]. Qed.

Lemma code_at_app_r C p a b : code_at C p (a ++ b) -> code_at C (p + csize a) b.
Proof.
  intros (pre & post & -> & Hp). exists (pre ++ a), post. split.
  - rewrite <- !app_assoc. reflexivity.
  - rewrite csize_app. lia.
Qed.

Lemma code_at_app C p a b : code_at C p (a ++ b) -> code_at C p a /\ code_at C (p + csize a) b.
Proof. intros H. split; [eapply code_at_app_l|eapply code_at_app_r]; exact H. Qed.

Lemma code_at_tail C p i c : code_at C p (i :: c) -> code_at C (p + isize i) c.
Proof. intros H. change (i :: c) with ([i] ++ c) in H. apply code_at_app_r in H. rewrite csize_one in H. exact H. Qed.

Lemma code_at_nonneg C p c : code_at C p c -> 0 <= p.
Proof. intros (pre & post & _ & Hp). pose proof (csize_nonneg pre). lia. Qed.

Lemma code_at_bound C p c : code_at C p c -> p + csize c <= csize C.
Proof.
  intros (pre & post & -> & Hp). rewrite !csize_app. pose proof (csize_nonneg post). lia.
Qed.

Lemma fetch_app_pre pre rest : fetch (pre ++ rest) (csize pre) = fetch rest 0.
Proof.
  induction pre as [|i pre IH]; cbn [app csize fetch]; [reflexivity|].
  pose proof (isize_pos i). pose proof (csize_nonneg pre).
  destruct (isize i + csize pre =? 0) eqn:E; [apply Z.eqb_eq in E; lia|].
  destruct (isize i + csize pre <? isize i) eqn:E2; [apply Z.ltb_lt in E2; lia|].
  replace (isize i + csize pre - isize i) with (csize pre) by lia. exact IH.
Qed.

Lemma code_at_fetch C p i c : code_at C p (i :: c) -> fetch C p = Some i.
Proof.
  intros (pre & post & -> & Hp). subst p. rewrite fetch_app_pre. reflexivity.
Qed.

Lemma code_at_lt C p i c : code_at C p (i :: c) -> p < csize C.
Proof.
  intros H. apply code_at_bound in H. rewrite csize_cons in H.
  pose proof (isize_pos i). pose proof (csize_nonneg c). lia.
Qed.

(* code[a : a+n] *)
Lemma drop_words_app pre rest : drop_words (pre ++ rest) (csize pre) = Some rest.
Proof.
  induction pre as [|i pre IH]; cbn [app csize].
  - destruct rest; reflexivity.
  - cbn [drop_words]. pose proof (isize_pos i). pose proof (csize_nonneg pre).
    destruct (isize i + csize pre =? 0) eqn:E; [apply Z.eqb_eq in E; lia|].
    destruct (isize i + csize pre <? isize i) eqn:E2; [apply Z.ltb_lt in E2; lia|].
    replace (isize i + csize pre - isize i) with (csize pre) by lia. exact IH.
Qed.

Lemma take_words_app body post : take_words (body ++ post) (csize body) = Some body.
Proof.
  induction body as [|i body IH]; cbn [app csize].
  - destruct post; reflexivity.
  - cbn [take_words]. pose proof (isize_pos i). pose proof (csize_nonneg body).
    destruct (isize i + csize body =? 0) eqn:E; [apply Z.eqb_eq in E; lia|].
    destruct (isize i + csize body <? isize i) eqn:E2; [apply Z.ltb_lt in E2; lia|].
    replace (isize i + csize body - isize i) with (csize body) by lia. rewrite IH. reflexivity.
Qed.

Lemma sub_code_at C p body : code_at C p body -> sub_code C p (csize body) = Some body.
Proof.
  intros (pre & post & -> & Hp). subst p. unfold sub_code.
  rewrite drop_words_app. apply take_words_app.
Qed.
