(* C18 proofs, part 2: structure of the annotated tree and of the block table.
   - the annotation only inserts counter statements (erasing them gives the tree back);
   - every counter statement is immediately followed by a statement of the program;
   - counter indices are exactly 1..n, each used once, and block i starts where the statement
     guarded by counter i starts;
   - sum of numStmts = number of statements. *)
From Coq Require Import Permutation.
From Verif Require Import Lib.Base Model.Cover Proofs.CoverBase.

Section Struct.
Context {E : Type}.
Variable files : ftable.
Variable mode : cmode.

Notation annf := (@annf E).
Notation ann_loop := (@ann_loop E files mode).
Notation ann_stmt := (@ann_stmt E files mode).
Notation ann_stmts := (@ann_stmts E files mode).

(* what trackStatement records for the slice first..last of length num *)
Definition blk_of (first last : cstmt E) (num : Z) (b : block) : Prop :=
  b_num b = num
  /\ b_path b = fst (file_line files (pline (start_of first)))
  /\ b_start b = mkpos (snd (file_line files (pline (start_of first)))) (pcol (start_of first))
  /\ b_end b = mkpos (snd (file_line files (pline (end_pos last)))) (pcol (end_pos last)).

Definition first_of (pend : list (cstmt E)) (s' : cstmt E) : cstmt E :=
  match pend with [] => s' | p :: _ => p end.

(* the loop of annotateStmts as a relation (res = []) *)
Inductive AL (f : annf) : list (cstmt E) -> list block -> list (cstmt E) -> list (cstmt E) -> list block -> Prop :=
| AL_nil bl : AL f [] bl [] [] bl
| AL_flush bl p ps b :
    blk_of p (last_ne p ps) (zlen (p :: ps)) b ->
    AL f [] bl (p :: ps) (SCover mode (zlen bl + 1) :: p :: ps) (bl ++ [b])
| AL_go s t bl pend s' bl1 out bl' :
    f s bl = (s', bl1, false) -> AL f t bl1 (pend ++ [s']) out bl' -> AL f (s :: t) bl pend out bl'
| AL_end s t bl pend s' bl1 b out bl' :
    f s bl = (s', bl1, true) ->
    blk_of (first_of pend s') s' (zlen (pend ++ [s'])) b ->
    AL f t (bl1 ++ [b]) [] out bl' ->
    AL f (s :: t) bl pend (SCover mode (zlen bl1 + 1) :: (pend ++ [s']) ++ out) bl'.

Lemma ann_loop_AL (f : annf) ss : forall bl pend,
  AL f ss bl pend (fst (ann_loop f ss bl pend [])) (snd (ann_loop f ss bl pend [])).
Proof.
  induction ss as [|s t IH]; intros bl pend.
  - destruct pend as [|p ps]; [apply AL_nil|].
    rewrite ann_loop_flush. cbn [fst snd].
    destruct (track_eq files mode bl p (last_ne p ps) (zlen (p :: ps))) as (b & Hb & H1 & H2 & H3 & H4).
    rewrite Hb. cbn [fst snd]. apply AL_flush. exact (conj H1 (conj H2 (conj H3 H4))).
  - rewrite ann_loop_cons. destruct (f s bl) as [[s' bl1] ends] eqn:Hf. destruct ends.
    + destruct (track_eq files mode bl1 (first_of pend s') s' (zlen (pend ++ [s']))) as (b & Hb & H1 & H2 & H3 & H4).
      unfold first_of in Hb. rewrite Hb. cbn [fst snd].
      replace (SCover mode (zlen bl1 + 1) :: pend ++ [s'] ++ fst (ann_loop f t (bl1 ++ [b]) [] []))
        with (SCover mode (zlen bl1 + 1) :: (pend ++ [s']) ++ fst (ann_loop f t (bl1 ++ [b]) [] []))
        by (rewrite <- app_assoc; reflexivity).
      eapply AL_end; [exact Hf | exact (conj H1 (conj H2 (conj H3 H4))) | apply IH].
    + eapply AL_go; [exact Hf | apply IH].
Qed.

(* ---- tagged lists ---- *)
Definition plain (s : cstmt E) : Prop := is_cover s = false.

Lemma tagged_list_plain g prev (s : cstmt E) t : plain s ->
  tagged_list g prev (s :: t) = (prev, start_of s) :: g s ++ tagged_list g None t.
Proof. destruct s; cbn; intros H; try reflexivity; discriminate H. Qed.

Lemma tagged_list_app_plain g (l1 l2 : list (cstmt E)) : forall prev,
  Forall plain l1 -> l1 <> [] ->
  tagged_list g prev (l1 ++ l2) = tagged_list g prev l1 ++ tagged_list g None l2.
Proof.
  induction l1 as [|s t IH]; intros prev HF Hne; [congruence|].
  inversion HF as [|? ? Hs Ht]; subst.
  cbn [app]. rewrite !tagged_list_plain by assumption.
  destruct t as [|s2 t2].
  - cbn [app tagged_list]. rewrite app_nil_r. reflexivity.
  - rewrite (IH None Ht) by congruence. cbn [app]. rewrite <- app_assoc. reflexivity.
Qed.

Lemma marks_of_app a b : marks_of (a ++ b) = marks_of a ++ marks_of b.
Proof.
  induction a as [|[[i|] p] a IH]; cbn [app marks_of]; rewrite ?IH; reflexivity.
Qed.

(* marks of the nested bodies of a list without top-level counters *)
Definition nested_marks (l : list (cstmt E)) : list (Z * pos) :=
  marks_of (concat (map tagged_in l)).

Lemma nested_marks_app a b : nested_marks (a ++ b) = nested_marks a ++ nested_marks b.
Proof. unfold nested_marks. rewrite map_app, concat_app, marks_of_app. reflexivity. Qed.

Lemma marks_plain_none (l : list (cstmt E)) : Forall plain l ->
  marks_of (tagged_list tagged_in None l) = nested_marks l.
Proof.
  induction 1 as [|s t Hs _ IH]; [reflexivity|].
  rewrite tagged_list_plain by assumption. cbn [marks_of].
  rewrite marks_of_app, IH. unfold nested_marks. cbn [map concat]. rewrite marks_of_app. reflexivity.
Qed.

Lemma marks_plain_some i (s : cstmt E) t : Forall plain (s :: t) ->
  marks_of (tagged_list tagged_in (Some i) (s :: t)) = (i, start_of s) :: nested_marks (s :: t).
Proof.
  intros HF. inversion HF as [|? ? Hs Ht]; subst.
  rewrite tagged_list_plain by assumption. cbn [marks_of].
  rewrite marks_of_app, (marks_plain_none t Ht). unfold nested_marks. cbn [map concat].
  rewrite marks_of_app. reflexivity.
Qed.

(* ---- the segment of the block table created by a piece of the annotation ---- *)
Definition link (b : block) (p : pos) : Prop :=
  b_path b = fst (file_line files (pline p))
  /\ b_start b = mkpos (snd (file_line files (pline p))) (pcol p).

Definition linked (bl : list block) (M : list (Z * pos)) : Prop :=
  forall i p, In (i, p) M -> 1 <= i /\ exists b, nth_error bl (Z.to_nat (i - 1)) = Some b /\ link b p.

Record Seg (bl bl' : list block) (M : list (Z * pos)) : Prop := mkSeg {
  seg_ext : exists new, bl' = bl ++ new;
  seg_range : forall i p, In (i, p) M -> zlen bl < i <= zlen bl';
  seg_nodup : NoDup (map fst M);
  seg_all : forall i, zlen bl < i <= zlen bl' -> In i (map fst M);
  seg_link : linked bl' M }.

Lemma NoDup_app_disj {A} (a b : list A) :
  NoDup a -> NoDup b -> (forall x, In x a -> In x b -> False) -> NoDup (a ++ b).
Proof.
  induction 1 as [|x a Hx Ha IH]; intros Hb Hd; [exact Hb|].
  cbn [app]. constructor.
  - intros Hin. apply in_app_or in Hin as [Hin|Hin]; [exact (Hx Hin)|].
    apply (Hd x); [left; reflexivity|exact Hin].
  - apply IH; [exact Hb|]. intros y Hy1 Hy2. apply (Hd y); [right; exact Hy1|exact Hy2].
Qed.

Lemma linked_ext bl new M : linked bl M -> linked (bl ++ new) M.
Proof.
  intros H i p Hin. destruct (H i p Hin) as (H1 & b & Hb & Hl). split; [exact H1|].
  exists b. split; [|exact Hl]. rewrite nth_error_app1; [exact Hb|].
  apply nth_error_Some. congruence.
Qed.

Lemma Seg_nil bl : Seg bl bl [].
Proof.
  constructor.
  - exists []. rewrite app_nil_r. reflexivity.
  - intros i p [].
  - constructor.
  - intros i Hi. lia.
  - intros i p [].
Qed.

Lemma Seg_one bl b p : link b p -> Seg bl (bl ++ [b]) [(zlen bl + 1, p)].
Proof.
  intros Hl. constructor.
  - exists [b]. reflexivity.
  - intros i q [Hq|[]]. inversion Hq; subst. rewrite zlen_app, zlen_cons, zlen_nil. lia.
  - cbn. constructor; [intros []|constructor].
  - intros i Hi. rewrite zlen_app, zlen_cons, zlen_nil in Hi. left. cbn. lia.
  - intros i q [Hq|[]]. inversion Hq; subst. pose proof (zlen_nonneg bl). split; [lia|].
    exists b. split; [|exact Hl].
    replace (zlen bl + 1 - 1) with (zlen bl) by lia. unfold zlen. rewrite Nat2Z.id.
    rewrite nth_error_app2 by lia. rewrite Nat.sub_diag. reflexivity.
Qed.

Lemma Seg_app bl bl1 bl2 M1 M2 : Seg bl bl1 M1 -> Seg bl1 bl2 M2 -> Seg bl bl2 (M1 ++ M2).
Proof.
  intros [[n1 E1] R1 N1 A1 L1] [[n2 E2] R2 N2 A2 L2].
  assert (Hz1 : zlen bl <= zlen bl1) by (subst bl1; rewrite zlen_app; pose proof (zlen_nonneg n1); lia).
  assert (Hz2 : zlen bl1 <= zlen bl2) by (subst bl2; rewrite zlen_app; pose proof (zlen_nonneg n2); lia).
  constructor.
  - exists (n1 ++ n2). subst. rewrite app_assoc. reflexivity.
  - intros i p Hin. apply in_app_or in Hin as [Hin|Hin]; [apply R1 in Hin|apply R2 in Hin]; lia.
  - rewrite map_app. apply NoDup_app_disj; [assumption|assumption|].
    intros i H1 H2. apply in_map_iff in H1 as ([i1 p1] & He1 & Hi1). apply in_map_iff in H2 as ([i2 p2] & He2 & Hi2).
    cbn in He1, He2. subst. apply R1 in Hi1. apply R2 in Hi2. lia.
  - intros i Hi. rewrite map_app. apply in_or_app.
    destruct (Z_le_gt_dec i (zlen bl1)); [left; apply A1|right; apply A2]; lia.
  - intros i p Hin. apply in_app_or in Hin as [Hin|Hin]; [|apply L2; exact Hin].
    rewrite E2. exact (linked_ext bl1 n2 M1 L1 i p Hin).
Qed.

Lemma Seg_perm bl bl' M M' : Permutation M M' -> Seg bl bl' M -> Seg bl bl' M'.
Proof.
  intros HP [X R N A L]. constructor.
  - exact X.
  - intros i p Hin. apply (R i p). eapply Permutation_in; [apply Permutation_sym; exact HP|exact Hin].
  - eapply Permutation_NoDup; [apply Permutation_map; exact HP|exact N].
  - intros i Hi. eapply Permutation_in; [apply Permutation_map; exact HP|apply A; exact Hi].
  - intros i p Hin. apply (L i p). eapply Permutation_in; [apply Permutation_sym; exact HP|exact Hin].
Qed.

(* ---- structure: every counter statement is immediately followed by a program statement ---- *)
Section Sok.
Variable g : cstmt E -> Prop.
Fixpoint sok_list (prev : option Z) (l : list (cstmt E)) : Prop :=
  match l with
  | [] => prev = None
  | SCover m i :: t => prev = None /\ m = mode /\ sok_list (Some i) t
  | s :: t => g s /\ sok_list None t
  end.
End Sok.
Fixpoint sok (s : cstmt E) : Prop :=
  match s with
  | SIf _ _ _ _ body els => sok_list sok None body /\ sok_list sok None els
  | SFor _ _ _ _ _ _ body | SForIn _ _ _ _ body | SWhile _ _ _ _ body
  | SDoWhile _ _ _ body | SBlock _ _ body => sok_list sok None body
  | _ => True
  end.

Lemma sok_list_plain g prev (s : cstmt E) t : plain s ->
  sok_list g prev (s :: t) <-> g s /\ sok_list g None t.
Proof. destruct s; cbn; intros H; try tauto; discriminate H. Qed.

Lemma sok_list_plain_app g (l1 l2 : list (cstmt E)) : forall prev,
  Forall plain l1 -> l1 <> [] -> Forall g l1 -> sok_list g None l2 -> sok_list g prev (l1 ++ l2).
Proof.
  induction l1 as [|s t IH]; intros prev HP Hne HG H2; [congruence|].
  inversion HP as [|? ? Hs Ht]; subst. inversion HG as [|? ? Gs Gt]; subst.
  cbn [app]. apply sok_list_plain; [exact Hs|]. split; [exact Gs|].
  destruct t as [|s2 t2]; [exact H2|]. apply IH; [exact Ht|congruence|exact Gt|exact H2].
Qed.

Lemma erase_stmts_plain_app (l1 l2 : list (cstmt E)) :
  erase_stmts (l1 ++ l2) = erase_stmts l1 ++ erase_stmts l2.
Proof. apply erase_list_app. Qed.

Lemma erase_stmts_one (s : cstmt E) : plain s -> erase_stmts [s] = [erase s].
Proof. destruct s; cbn; intros H; try reflexivity; discriminate H. Qed.

Lemma nested_marks_one (s : cstmt E) : nested_marks [s] = marks_of (tagged_in s).
Proof. unfold nested_marks. cbn [map concat]. rewrite app_nil_r. reflexivity. Qed.

(* what annotating one statement does *)
Definition stmt_ok (s : cstmt E) : Prop := forall bl,
  let '(s', bl', ends) := ann_stmt s bl in
  ends = nesting s /\ start_of s' = start_of s /\ end_pos s' = end_pos s /\ plain s'
  /\ erase s' = s /\ sok s' /\ Seg bl bl' (marks_of (tagged_in s'))
  /\ exists new, bl' = bl ++ new /\ sum_num new = nstmts s - 1.

Lemma blk_link first last num b : blk_of first last num b -> link b (start_of first).
Proof. intros (_ & H2 & H3 & _). split; assumption. Qed.

Lemma AL_facts ss bl pend out bl' : AL ann_stmt ss bl pend out bl' ->
  Forall stmt_ok ss ->
  forall bl0, Forall plain pend -> Forall sok pend -> Seg bl0 bl (nested_marks pend) ->
  erase_stmts out = erase_stmts pend ++ ss
  /\ sok_list sok None out
  /\ Seg bl0 bl' (marks_of (tagged_list tagged_in None out))
  /\ (exists new, bl' = bl ++ new /\ sum_num new = zlen pend + nstmts_list ss)
  /\ (out = [] -> pend = [] /\ ss = []).
Proof.
  induction 1 as [bl | bl p ps b Hb | s t bl pend s' bl1 out bl' Hf HAL IH
                 | s t bl pend s' bl1 b out bl' Hf Hb HAL IH]; intros HF bl0 HP HS HSeg.
  - split; [reflexivity|]. split; [reflexivity|]. split; [exact HSeg|]. split; [|intros _; split; reflexivity].
    exists []. rewrite app_nil_r. split; reflexivity.
  - inversion HP as [|? ? Pp Pps]; subst. inversion HS as [|? ? Sp Sps]; subst.
    split; [rewrite app_nil_r; reflexivity|]. split.
    + cbn [sok_list]. split; [reflexivity|]. split; [reflexivity|].
      apply sok_list_plain; [exact Pp|]. split; [exact Sp|].
      destruct ps as [|p2 ps2]; [reflexivity|].
      rewrite <- (app_nil_r (p2 :: ps2)). apply sok_list_plain_app; [exact Pps|congruence|exact Sps|reflexivity].
    + split; [|split].
      * change (tagged_list tagged_in None (SCover mode (zlen bl + 1) :: p :: ps))
          with (tagged_list tagged_in (Some (zlen bl + 1)) (p :: ps)).
        rewrite marks_plain_some by exact HP.
        eapply Seg_perm; [apply Permutation_sym, Permutation_cons_append|].
        eapply Seg_app; [exact HSeg|]. apply Seg_one. eapply blk_link; exact Hb.
      * exists [b]. split; [reflexivity|]. destruct Hb as (Hn & _). unfold sum_num, nstmts_list. cbn [fold_right]. lia.
      * discriminate.
  - inversion HF as [|? ? Hs Ht]; subst.
    specialize (Hs bl). rewrite Hf in Hs.
    destruct Hs as (_ & Hst & Hen & Hpl & Her & Hsok & Hseg & new1 & Hn1 & Hsum1).
    destruct (IH Ht bl0) as (He & Hk & Hg & (new2 & Hn2 & Hsum2) & Hemp).
    + apply Forall_app; split; [exact HP|constructor; [exact Hpl|constructor]].
    + apply Forall_app; split; [exact HS|constructor; [exact Hsok|constructor]].
    + rewrite nested_marks_app, nested_marks_one. eapply Seg_app; [exact HSeg|exact Hseg].
    + split; [|split; [exact Hk|split; [exact Hg|split]]].
      * rewrite He, erase_stmts_plain_app, (erase_stmts_one s' Hpl), Her, <- app_assoc. reflexivity.
      * exists (new1 ++ new2). subst bl1. rewrite app_assoc. split; [exact Hn2|].
        rewrite sum_num_app, Hsum1, Hsum2, zlen_app, zlen_cons, zlen_nil.
        unfold nstmts_list. cbn [fold_right]. lia.
      * intros Ho. destruct (Hemp Ho) as [Hp _]. destruct pend; discriminate Hp.
  - inversion HF as [|? ? Hs Ht]; subst.
    specialize (Hs bl). rewrite Hf in Hs.
    destruct Hs as (_ & Hst & Hen & Hpl & Her & Hsok & Hseg & new1 & Hn1 & Hsum1).
    assert (HP' : Forall plain (pend ++ [s'])) by (apply Forall_app; split; [exact HP|constructor; [exact Hpl|constructor]]).
    assert (HS' : Forall sok (pend ++ [s'])) by (apply Forall_app; split; [exact HS|constructor; [exact Hsok|constructor]]).
    assert (Hne : pend ++ [s'] <> []) by (destruct pend; discriminate).
    destruct (IH Ht (bl1 ++ [b])) as (He & Hk & Hg & (new2 & Hn2 & Hsum2) & Hemp).
    + constructor.
    + constructor.
    + apply Seg_nil.
    + split; [|split; [|split; [|split]]].
      * change (erase_stmts (SCover mode (zlen bl1 + 1) :: (pend ++ [s']) ++ out)) with (erase_stmts ((pend ++ [s']) ++ out)).
        rewrite !erase_stmts_plain_app, (erase_stmts_one s' Hpl), Her, He. cbn [erase_stmts erase_list app].
        rewrite <- app_assoc. reflexivity.
      * cbn [sok_list]. split; [reflexivity|]. split; [reflexivity|].
        apply sok_list_plain_app; assumption.
      * change (tagged_list tagged_in None (SCover mode (zlen bl1 + 1) :: (pend ++ [s']) ++ out))
          with (tagged_list tagged_in (Some (zlen bl1 + 1)) ((pend ++ [s']) ++ out)).
        rewrite tagged_list_app_plain by assumption. rewrite marks_of_app.
        eapply Seg_app; [|exact Hg].
        assert (Hfirst : exists q qs, pend ++ [s'] = q :: qs /\ start_of q = start_of (first_of pend s')).
        { destruct pend as [|q qs]; [exists s', []|exists q, (qs ++ [s'])]; split; reflexivity. }
        destruct Hfirst as (q & qs & Hq & Hqs). rewrite Hq in *.
        rewrite marks_plain_some by exact HP'. rewrite Hqs.
        eapply Seg_perm; [apply Permutation_sym, Permutation_cons_append|].
        eapply Seg_app; [|apply Seg_one; eapply blk_link; exact Hb].
        rewrite <- Hq, nested_marks_app, nested_marks_one. eapply Seg_app; [exact HSeg|exact Hseg].
      * exists (new1 ++ [b] ++ new2). subst bl1. split; [rewrite Hn2, <- !app_assoc; reflexivity|].
        rewrite !sum_num_app, Hsum1, Hsum2. destruct Hb as (Hn & _).
        unfold sum_num at 1. cbn [fold_right]. rewrite Hn, zlen_app, zlen_cons, !zlen_nil.
        unfold nstmts_list. cbn [fold_right]. lia.
      * discriminate.
Qed.

Lemma body_facts body bl : Forall stmt_ok body ->
  erase_stmts (fst (ann_stmts body bl)) = body
  /\ sok_list sok None (fst (ann_stmts body bl))
  /\ Seg bl (snd (ann_stmts body bl)) (marks_of (tagged (fst (ann_stmts body bl))))
  /\ (exists new, snd (ann_stmts body bl) = bl ++ new /\ sum_num new = nstmts_list body)
  /\ (fst (ann_stmts body bl) = [] -> body = []).
Proof.
  intros HF. unfold Cover.ann_stmts.
  pose proof (ann_loop_AL ann_stmt body bl []) as HAL.
  destruct (AL_facts _ _ _ _ _ HAL HF bl (Forall_nil _) (Forall_nil _) (Seg_nil bl)) as (H1 & H2 & H3 & H4 & H5).
  split; [exact H1|]. split; [exact H2|]. split; [exact H3|]. split.
  - destruct H4 as (new & Hn & Hs). exists new. split; [exact Hn|]. rewrite Hs, zlen_nil. lia.
  - intros Ho. apply H5 in Ho. tauto.
Qed.

Lemma forallb_stmt_ok (l : list (cstmt E)) :
  Forall (fun s => nocov s = true -> stmt_ok s) l -> forallb nocov l = true -> Forall stmt_ok l.
Proof.
  induction 1 as [|x l Hx _ IH]; intros H; [constructor|].
  cbn [forallb] in H. apply andb_prop in H as [H1 H2]. constructor; auto.
Qed.

Lemma ann_stmt_if c st bs en body els bl :
  ann_stmt (SIf c st bs en body els) bl =
  (SIf c st bs en (fst (ann_stmts body bl)) (fst (ann_stmts els (snd (ann_stmts body bl)))),
   snd (ann_stmts els (snd (ann_stmts body bl))), true).
Proof.
  unfold Cover.ann_stmts. cbn [Cover.ann_stmt].
  destruct (Cover.ann_loop files mode ann_stmt body bl [] []) as [b' bl1]. cbn [fst snd].
  destruct (Cover.ann_loop files mode ann_stmt els bl1 [] []) as [e' bl2]. reflexivity.
Qed.

Ltac one_body_eq := unfold Cover.ann_stmts; cbn [Cover.ann_stmt];
  match goal with |- context [Cover.ann_loop ?f ?m ?g ?b ?bl [] []] =>
    destruct (Cover.ann_loop f m g b bl [] []) as [b' bl1] end; reflexivity.

Lemma ann_stmt_for pre c post st bs en body bl :
  ann_stmt (SFor pre c post st bs en body) bl =
  (SFor pre c post st bs en (fst (ann_stmts body bl)), snd (ann_stmts body bl), true).
Proof. one_body_eq. Qed.
Lemma ann_stmt_forin h st bs en body bl :
  ann_stmt (SForIn h st bs en body) bl = (SForIn h st bs en (fst (ann_stmts body bl)), snd (ann_stmts body bl), true).
Proof. one_body_eq. Qed.
Lemma ann_stmt_while c st bs en body bl :
  ann_stmt (SWhile c st bs en body) bl = (SWhile c st bs en (fst (ann_stmts body bl)), snd (ann_stmts body bl), true).
Proof. one_body_eq. Qed.
Lemma ann_stmt_do c st en body bl :
  ann_stmt (SDoWhile c st en body) bl = (SDoWhile c st en (fst (ann_stmts body bl)), snd (ann_stmts body bl), true).
Proof. one_body_eq. Qed.
Lemma ann_stmt_block st en body bl :
  ann_stmt (SBlock st en body) bl = (SBlock st en (fst (ann_stmts body bl)), snd (ann_stmts body bl), true).
Proof. one_body_eq. Qed.

Ltac one_body_ok H Hn :=
  let F := fresh "F" in
  pose proof (forallb_stmt_ok _ H Hn) as F;
  match goal with |- context [ann_stmts ?body ?bl] =>
    destruct (body_facts body bl F) as (B1 & B2 & B3 & (new & B4 & B5) & _);
    split; [reflexivity|]; split; [reflexivity|]; split; [reflexivity|]; split; [reflexivity|];
    split; [cbn [erase]; fold (erase_stmts (fst (ann_stmts body bl))); rewrite B1; reflexivity|];
    split; [exact B2|]; split; [exact B3|];
    exists new; split; [exact B4|]; rewrite B5; cbn [nstmts]; unfold nstmts_list; lia
  end.

Lemma stmt_ok_all (s : cstmt E) : nocov s = true -> stmt_ok s.
Proof.
  induction s using cstmt_ind'; intros Hn bl; cbn [nocov] in Hn.
  - cbn. do 5 (split; [reflexivity|]). split; [exact I|]. split; [apply Seg_nil|].
    exists []. rewrite app_nil_r. split; reflexivity.
  - apply andb_prop in Hn as [Hn1 Hn2]. rewrite ann_stmt_if.
    pose proof (forallb_stmt_ok _ H Hn1) as F1. pose proof (forallb_stmt_ok _ H0 Hn2) as F2.
    destruct (body_facts body bl F1) as (B1 & B2 & B3 & (new1 & B4 & B5) & _).
    destruct (body_facts els (snd (ann_stmts body bl)) F2) as (C1 & C2 & C3 & (new2 & C4 & C5) & _).
    split; [reflexivity|]. split; [reflexivity|]. split; [reflexivity|]. split; [reflexivity|].
    split; [cbn [erase]; fold (erase_stmts (fst (ann_stmts body bl)));
            fold (erase_stmts (fst (ann_stmts els (snd (ann_stmts body bl))))); rewrite B1, C1; reflexivity|].
    split; [split; assumption|].
    split; [cbn [tagged_in]; rewrite marks_of_app; eapply Seg_app; [exact B3|exact C3]|].
    exists (new1 ++ new2). split; [rewrite C4, B4, app_assoc; reflexivity|].
    rewrite sum_num_app, B5, C5. cbn [nstmts]. unfold nstmts_list. lia.
  - rewrite ann_stmt_for. one_body_ok H Hn.
  - rewrite ann_stmt_forin. one_body_ok H Hn.
  - rewrite ann_stmt_while. one_body_ok H Hn.
  - rewrite ann_stmt_do. one_body_ok H Hn.
  - rewrite ann_stmt_block. one_body_ok H Hn.
  - discriminate Hn.
Qed.

(* ---- positions are untouched: the tagged list of the annotated tree has the starts of the original ---- *)
Lemma erase_plain (s : cstmt E) : plain s -> plain (erase s) /\ start_of (erase s) = start_of s.
Proof. destruct s; cbn; intros H; split; try reflexivity; discriminate H. Qed.

Lemma erase_list_plain_cons (s : cstmt E) t : plain s -> erase_list erase (s :: t) = erase s :: erase_list erase t.
Proof. destruct s; cbn; intros H; try reflexivity; discriminate H. Qed.

Lemma tagged_erase_list (l : list (cstmt E)) :
  Forall (fun s => map snd (tagged_in s) = map snd (tagged_in (erase s))) l ->
  forall prev, map snd (tagged_list tagged_in prev l) = map snd (tagged_list tagged_in None (erase_list erase l)).
Proof.
  induction 1 as [|s t Hs _ IH]; intros prev; [reflexivity|].
  destruct (is_cover s) eqn:Hc.
  - destruct s; try discriminate Hc. cbn [tagged_list erase_list]. apply IH.
  - destruct (erase_plain s Hc) as [Hp He].
    rewrite (erase_list_plain_cons s t Hc), !tagged_list_plain by assumption.
    cbn [map snd]. rewrite !map_app, Hs, (IH None), He. reflexivity.
Qed.

Lemma tagged_erase (s : cstmt E) : map snd (tagged_in s) = map snd (tagged_in (erase s)).
Proof.
  induction s using cstmt_ind'; cbn [erase tagged_in]; try reflexivity.
  - rewrite !map_app, (tagged_erase_list body H None), (tagged_erase_list els H0 None). reflexivity.
  - apply (tagged_erase_list body H None).
  - apply (tagged_erase_list body H None).
  - apply (tagged_erase_list body H None).
  - apply (tagged_erase_list body H None).
  - apply (tagged_erase_list body H None).
Qed.

Lemma tagged_erase_stmts (l : list (cstmt E)) : map snd (tagged l) = map snd (tagged (erase_stmts l)).
Proof.
  apply tagged_erase_list. apply Forall_forall. intros s _. apply tagged_erase.
Qed.

(* ---- lists of statement lists (BEGIN blocks, END blocks, function bodies) ---- *)
Definition list_rel (l' l : list (cstmt E)) : Prop :=
  erase_stmts l' = l /\ sok_list sok None l' /\ (l' = [] -> l = []) /\ (l = [] -> l' = []).

Definition nstmts_lists (ls : list (list (cstmt E))) : Z := fold_right (fun l a => nstmts_list l + a) 0 ls.

Notation ann_lists := (@ann_lists E files mode).
Notation ann_actions := (@ann_actions E files mode).
Notation ann_body := (@ann_body E files mode).

Lemma ann_lists_cons l t bl :
  ann_lists (l :: t) bl =
  (fst (ann_stmts l bl) :: fst (ann_lists t (snd (ann_stmts l bl))), snd (ann_lists t (snd (ann_stmts l bl)))).
Proof.
  cbn [Cover.ann_lists]. destruct (ann_stmts l bl) as [l' bl1]. cbn [fst snd].
  destruct (ann_lists t bl1) as [t' bl2]. reflexivity.
Qed.

Lemma nocov_all_ok (l : list (cstmt E)) : forallb nocov l = true -> Forall stmt_ok l.
Proof.
  intros H. apply forallb_stmt_ok; [|exact H]. apply Forall_forall. intros s _. apply stmt_ok_all.
Qed.

Lemma ann_stmts_nil bl : ann_stmts [] bl = ([], bl).
Proof. reflexivity. Qed.

Lemma ann_stmts_rel l bl : forallb nocov l = true ->
  list_rel (fst (ann_stmts l bl)) l
  /\ Seg bl (snd (ann_stmts l bl)) (marks_of (tagged (fst (ann_stmts l bl))))
  /\ exists new, snd (ann_stmts l bl) = bl ++ new /\ sum_num new = nstmts_list l.
Proof.
  intros Hn. destruct (body_facts l bl (nocov_all_ok l Hn)) as (B1 & B2 & B3 & B4 & B5).
  split; [|split; assumption].
  split; [exact B1|]. split; [exact B2|]. split; [exact B5|].
  intros ->. reflexivity.
Qed.

Lemma ann_lists_facts ls : forallb (forallb nocov) ls = true -> forall bl,
  Forall2 list_rel (fst (ann_lists ls bl)) ls
  /\ Seg bl (snd (ann_lists ls bl)) (marks_of (concat (map tagged (fst (ann_lists ls bl)))))
  /\ exists new, snd (ann_lists ls bl) = bl ++ new /\ sum_num new = nstmts_lists ls.
Proof.
  induction ls as [|l t IH]; intros Hn bl.
  - cbn. split; [constructor|]. split; [apply Seg_nil|]. exists []. rewrite app_nil_r. split; reflexivity.
  - cbn [forallb] in Hn. apply andb_prop in Hn as [H1 H2].
    rewrite ann_lists_cons. cbn [fst snd map concat].
    destruct (ann_stmts_rel l bl H1) as (R1 & S1 & new1 & N1 & M1).
    destruct (IH H2 (snd (ann_stmts l bl))) as (R2 & S2 & new2 & N2 & M2).
    split; [constructor; assumption|]. split.
    + rewrite marks_of_app. eapply Seg_app; [exact S1|exact S2].
    + exists (new1 ++ new2). split; [rewrite N2, N1, app_assoc; reflexivity|].
      rewrite sum_num_app, M1, M2. unfold nstmts_lists. cbn [fold_right]. lia.
Qed.

(* ---- actions ---- *)
(* how the annotated body relates to the original one: absent stays absent, present stays
   present, and empty exactly when the original is empty *)
Definition body_rel (b' b : option (list (cstmt E))) : Prop :=
  match b, b' with
  | None, None => True
  | Some l, Some l' => (l = [] <-> l' = []) /\ erase_stmts l' = l /\ sok_list sok None l'
  | _, _ => False
  end.
Definition action_rel (a' a : action E) : Prop := a_pat a' = a_pat a /\ body_rel (a_body a') (a_body a).

Definition nocov_body (b : option (list (cstmt E))) : bool :=
  match b with None => true | Some l => forallb nocov l end.
Definition nstmts_body (b : option (list (cstmt E))) : Z :=
  match b with None => 0 | Some l => nstmts_list l end.
Definition nstmts_actions (acts : list (action E)) : Z :=
  fold_right (fun a x => nstmts_body (a_body a) + x) 0 acts.

Lemma ann_body_facts b bl : nocov_body b = true ->
  body_rel (fst (ann_body b bl)) b
  /\ Seg bl (snd (ann_body b bl)) (marks_of (tagged_body (fst (ann_body b bl))))
  /\ (exists new, snd (ann_body b bl) = bl ++ new /\ sum_num new = nstmts_body b)
  /\ map snd (tagged_body (fst (ann_body b bl))) = map snd (tagged_body b).
Proof.
  destruct b as [l|]; cbn [nocov_body Cover.ann_body]; intros Hn.
  - destruct (ann_stmts_rel l bl Hn) as ((R1 & R2 & R3 & R4) & S1 & N1).
    destruct (ann_stmts l bl) as [r bl1] eqn:Hr. cbn [fst snd tagged_body body_rel] in *.
    split; [split; [split; assumption|split; assumption]|].
    split; [exact S1|]. split; [exact N1|]. rewrite tagged_erase_stmts, R1. reflexivity.
  - cbn. split; [exact I|]. split; [apply Seg_nil|]. split; [|reflexivity].
    exists []. rewrite app_nil_r. split; reflexivity.
Qed.

Lemma ann_actions_cons a t bl :
  ann_actions (a :: t) bl =
  (mkaction (a_pat a) (fst (ann_body (a_body a) bl)) :: fst (ann_actions t (snd (ann_body (a_body a) bl))),
   snd (ann_actions t (snd (ann_body (a_body a) bl)))).
Proof.
  cbn [Cover.ann_actions]. destruct (ann_body (a_body a) bl) as [b' bl1]. cbn [fst snd].
  destruct (ann_actions t bl1) as [t' bl2]. reflexivity.
Qed.

Lemma ann_actions_facts acts : forallb (fun a => nocov_body (a_body a)) acts = true -> forall bl,
  Forall2 action_rel (fst (ann_actions acts bl)) acts
  /\ Seg bl (snd (ann_actions acts bl))
        (marks_of (concat (map (fun a => tagged_body (a_body a)) (fst (ann_actions acts bl)))))
  /\ (exists new, snd (ann_actions acts bl) = bl ++ new /\ sum_num new = nstmts_actions acts)
  /\ map snd (concat (map (fun a => tagged_body (a_body a)) (fst (ann_actions acts bl))))
     = map snd (concat (map (fun a => tagged_body (a_body a)) acts)).
Proof.
  induction acts as [|a t IH]; intros Hn bl.
  - cbn. split; [constructor|]. split; [apply Seg_nil|]. split; [|reflexivity].
    exists []. rewrite app_nil_r. split; reflexivity.
  - cbn [forallb] in Hn. apply andb_prop in Hn as [H1 H2].
    rewrite ann_actions_cons. cbn [fst snd map concat a_body].
    destruct (ann_body_facts (a_body a) bl H1) as (R1 & S1 & (new1 & N1 & M1) & T1).
    destruct (IH H2 (snd (ann_body (a_body a) bl))) as (R2 & S2 & (new2 & N2 & M2) & T2).
    split; [constructor; [split; [reflexivity|exact R1]|exact R2]|]. split; [|split].
    + rewrite marks_of_app. eapply Seg_app; [exact S1|exact S2].
    + exists (new1 ++ new2). split; [rewrite N2, N1, app_assoc; reflexivity|].
      rewrite sum_num_app, M1, M2. unfold nstmts_actions. cbn [fold_right]. lia.
    + rewrite !map_app, T1, T2. reflexivity.
Qed.

(* ---- the whole program ---- *)
Definition nocov_prog (P : program E) : bool :=
  forallb (forallb nocov) (p_begin P) && forallb (fun a => nocov_body (a_body a)) (p_actions P)
  && forallb (forallb nocov) (p_end P) && forallb (forallb nocov) (p_funcs P).
Definition nstmts_prog (P : program E) : Z :=
  nstmts_lists (p_begin P) + nstmts_actions (p_actions P) + nstmts_lists (p_end P) + nstmts_lists (p_funcs P).

Record ann_ok (P A : program E) (B : list block) : Prop := mk_ann_ok {
  ao_begin : Forall2 list_rel (p_begin A) (p_begin P);
  ao_actions : Forall2 action_rel (p_actions A) (p_actions P);
  ao_end : Forall2 list_rel (p_end A) (p_end P);
  ao_funcs : Forall2 list_rel (p_funcs A) (p_funcs P);
  ao_seg : Seg [] B (marks_of (tagged_prog A));
  ao_sum : sum_num B = nstmts_prog P;
  ao_tags : map snd (tagged_prog A) = map snd (tagged_prog P) }.

Lemma lists_rel_tags ls' ls : Forall2 list_rel ls' ls ->
  map snd (concat (map tagged ls')) = map snd (concat (map tagged ls)).
Proof.
  induction 1 as [|l' l t' t (R1 & _) _ IH]; [reflexivity|].
  cbn [map concat]. rewrite !map_app, IH, tagged_erase_stmts, R1. reflexivity.
Qed.

Notation annotate := (@annotate E files mode).

Lemma annotate_eq P :
  let r1 := ann_lists (p_begin P) [] in
  let r2 := ann_actions (p_actions P) (snd r1) in
  let r3 := ann_lists (p_end P) (snd r2) in
  let r4 := ann_lists (p_funcs P) (snd r3) in
  annotate P = (mkprogram (fst r1) (fst r2) (fst r3) (fst r4), snd r4).
Proof.
  unfold Cover.annotate.
  destruct (ann_lists (p_begin P) []) as [bg bl1]. cbn [fst snd].
  destruct (ann_actions (p_actions P) bl1) as [acts bl2]. cbn [fst snd].
  destruct (ann_lists (p_end P) bl2) as [en bl3]. cbn [fst snd].
  destruct (ann_lists (p_funcs P) bl3) as [fns bl4]. reflexivity.
Qed.

Theorem annotate_ok P : nocov_prog P = true -> ann_ok P (fst (annotate P)) (snd (annotate P)).
Proof.
  unfold nocov_prog. intros Hn.
  apply andb_prop in Hn as [Hn H4]. apply andb_prop in Hn as [Hn H3]. apply andb_prop in Hn as [H1 H2].
  rewrite annotate_eq. cbn zeta. cbn [fst snd].
  destruct (ann_lists_facts (p_begin P) H1 []) as (R1 & S1 & new1 & N1 & M1).
  set (b1 := snd (ann_lists (p_begin P) [])) in *.
  destruct (ann_actions_facts (p_actions P) H2 b1) as (R2 & S2 & (new2 & N2 & M2) & T2).
  set (b2 := snd (ann_actions (p_actions P) b1)) in *.
  destruct (ann_lists_facts (p_end P) H3 b2) as (R3 & S3 & new3 & N3 & M3).
  set (b3 := snd (ann_lists (p_end P) b2)) in *.
  destruct (ann_lists_facts (p_funcs P) H4 b3) as (R4 & S4 & new4 & N4 & M4).
  set (b4 := snd (ann_lists (p_funcs P) b3)) in *.
  constructor; cbn [p_begin p_actions p_end p_funcs]; try assumption.
  - unfold tagged_prog. cbn [p_begin p_actions p_end p_funcs]. rewrite !marks_of_app.
    eapply Seg_app; [exact S1|]. eapply Seg_app; [exact S2|]. eapply Seg_app; [exact S3|exact S4].
  - rewrite N4, N3, N2, N1. cbn [app]. rewrite !sum_num_app, M1, M2, M3, M4. unfold nstmts_prog. lia.
  - unfold tagged_prog. cbn [p_begin p_actions p_end p_funcs]. rewrite !map_app.
    rewrite (lists_rel_tags _ _ R1), T2, (lists_rel_tags _ _ R3), (lists_rel_tags _ _ R4). reflexivity.
Qed.

End Struct.
