(* C11: range patterns, the write sets of the getline forms, next / nextfile / exit routing,
   END sees the last record, parsing of assignment operands. *)
From Verif Require Import Lib.Base Model.Input Proofs.Input Proofs.InputLift Proofs.InputHist.

(* ---------- range patterns ---------- *)

Lemma range_select_length p1 p2 : forall recs f, length (range_select p1 p2 f recs) = length recs.
Proof.
  induction recs as [|r recs IH]; intros f; cbn [range_select]; [reflexivity|].
  destruct (range_step (p1 r) (p2 r) f) as [m f']. cbn [length]. rewrite IH. reflexivity.
Qed.

(* record i is selected iff the flag was on at the start and no earlier record stopped it, or some
   record j <= i matches the start pattern and no record in [j, i) matches the stop pattern *)
Lemma range_select_spec p1 p2 : forall recs f i,
  nth i (range_select p1 p2 f recs) false = true <->
  (i < length recs)%nat /\
  ((f = true /\ forall k, (k < i)%nat -> p2 (nth k recs []) = false) \/
   exists j, (j <= i)%nat /\ p1 (nth j recs []) = true /\
             forall k, (j <= k < i)%nat -> p2 (nth k recs []) = false).
Proof.
  induction recs as [|r recs IH]; intros f i.
  - cbn [range_select length]. split.
    + destruct i; cbn; discriminate.
    + intros [H _]. lia.
  - cbn [range_select]. unfold range_step.
    destruct i as [|i].
    + cbn [nth length]. split.
      * intros H. split; [lia|]. destruct f.
        -- left. split; [reflexivity|]. intros k Hk; lia.
        -- right. exists 0%nat. split; [lia|]. split; [exact H|]. intros k Hk; lia.
      * intros [_ [[-> _]|(j & Hj & Hp & _)]]; [reflexivity|].
        assert (j = 0)%nat by lia. subst j. cbn [nth] in Hp. rewrite Hp. destruct f; reflexivity.
    + cbn [nth length]. rewrite IH. split.
      * intros [Hlen [[Hf' Hno]|(j & Hj & Hp & Hno)]].
        -- split; [lia|].
           destruct f.
           ++ left. split; [reflexivity|]. intros [|k] Hk; cbn [nth].
              ** destruct (p2 r); [discriminate|reflexivity].
              ** apply Hno. lia.
           ++ destruct (p1 r) eqn:Hp1; [|discriminate].
              right. exists 0%nat. split; [lia|]. split; [exact Hp1|]. intros [|k] Hk; cbn [nth].
              ** destruct (p2 r); [discriminate|reflexivity].
              ** apply Hno. lia.
        -- split; [lia|]. right. exists (S j). split; [lia|]. split; [exact Hp|].
           intros [|k] Hk; [lia|]. cbn [nth]. apply Hno. lia.
      * intros [Hlen [[-> Hno]|(j & Hj & Hp & Hno)]].
        -- split; [lia|]. left. split.
           ++ pose proof (Hno 0%nat ltac:(lia)) as H0. cbn [nth] in H0. rewrite H0. reflexivity.
           ++ intros k Hk. apply (Hno (S k)). lia.
        -- split; [lia|]. destruct j as [|j].
           ++ cbn [nth] in Hp. left. split.
              ** pose proof (Hno 0%nat ltac:(lia)) as H0. cbn [nth] in H0. rewrite Hp, H0. destruct f; reflexivity.
              ** intros k Hk. apply (Hno (S k)). lia.
           ++ right. exists j. split; [lia|]. split; [exact Hp|]. intros k Hk. apply (Hno (S k)). lia.
Qed.

(* ---------- the range case of execActions computes range_step when the patterns have no side effects ---------- *)

Section RangeRule.
  Variable U : Type.
  Variable step : U -> st -> req * U.
  Variable enter : blk -> U -> U.
  Variable e : env.

  (* block [b] evaluates the condition [p] of the current record and changes nothing *)
  Definition pure_pat (fuel : nat) (b : blk) (p : record -> bool) : Prop :=
    forall u s, exists u', run U step e fuel (enter b u) s = ROk (OVal (p (line s))) u' s.

  Lemma eval_pat_range fuel r i f u s p1 p2 :
    rk r = PRange -> pure_pat fuel (BPat i false) p1 -> pure_pat fuel (BPat i true) p2 ->
    exists u', eval_pat U step enter e fuel r i f u s =
               PVal (fst (range_step (p1 (line s)) (p2 (line s)) f)) (snd (range_step (p1 (line s)) (p2 (line s)) f)) u' s.
  Proof.
    intros Hk H1 H2. unfold eval_pat, run_pat, range_step. rewrite Hk. destruct f.
    - destruct (H2 u s) as [u' ->]. exists u'. reflexivity.
    - destruct (H1 u s) as [u1 ->]. destruct (p1 (line s)).
      + destruct (H2 u1 s) as [u2 ->]. exists u2. reflexivity.
      + exists u1. reflexivity.
  Qed.
End RangeRule.

(* ---------- write sets of the getline forms ---------- *)

Lemma store_frame e tg r l s s' :
  store e tg r l s = Some s' ->
  NR s' = NR s /\ FNR s' = FNR s /\ FILENAME s' = FILENAME s /\ idx s' = idx s /\ cur s' = cur s /\
  argv s' = argv s /\ argc s' = argc s /\ had s' = had s /\ stdin s' = stdin s /\ status s' = status s /\ out s' = out s.
Proof.
  unfold store. destruct (r =? 1).
  - destruct tg as [|v|n]; intros H.
    + injection H as <-. sst. repeat split; reflexivity.
    + injection H as <-. sst. repeat split; reflexivity.
    + unfold set_field in H. destruct (n =? 0). { injection H as <-. sst. repeat split; reflexivity. }
      destruct (n <? 0); [discriminate|]. injection H as <-. sst. repeat split; reflexivity.
  - intros H; injection H as <-. repeat split; reflexivity.
Qed.

(* getline <file (any target): NR, FNR, FILENAME and the operand cursor are untouched *)
Lemma getline_file_frame e f tg s s' :
  do_getline e (SFile f) tg s = Some s' ->
  NR s' = NR s /\ FNR s' = FNR s /\ FILENAME s' = FILENAME s /\ idx s' = idx s /\ cur s' = cur s /\
  argv s' = argv s /\ argc s' = argc s /\ had s' = had s.
Proof.
  intros H. apply do_getline_split in H as (r & l & s1 & HR & HS).
  apply store_frame in HS as (K1 & K2 & K3 & K4 & K5 & K6 & K7 & K8 & _). sst.
  assert (NR s1 = NR s /\ FNR s1 = FNR s /\ FILENAME s1 = FILENAME s /\ idx s1 = idx s /\ cur s1 = cur s /\
          argv s1 = argv s /\ argc s1 = argc s /\ had s1 = had s) as (J1 & J2 & J3 & J4 & J5 & J6 & J7 & J8).
  { cbn [rd_read] in HR.
    destruct (blookup (rd s) f) as [recs|].
    { injection HR as HR. apply scan_rd_quiet in HR as (_ & H1 & H2 & H3 & H4 & H5 & _ & H7 & H8 & H9 & _). repeat split; assumption. }
    destruct (bytes_eqb f b_dash).
    - destruct (rdstdin s) as [[|r0 rest]|].
      + injection HR as _ _ <-. repeat split; reflexivity.
      + injection HR as _ _ <-. sst. repeat split; reflexivity.
      + destruct (stdin s); injection HR as _ _ <-; sst; repeat split; reflexivity.
    - destruct (blookup (fs e) f) as [recs|].
      + injection HR as HR. apply scan_rd_quiet in HR as (_ & H1 & H2 & H3 & H4 & H5 & _ & H7 & H8 & H9 & _). repeat split; assumption.
      + injection HR as _ _ <-. repeat split; reflexivity. }
  repeat split; congruence.
Qed.

(* cmd | getline (any target): the same, and stdin is untouched *)
Lemma getline_cmd_frame e c tg s s' :
  do_getline e (SCmd c) tg s = Some s' ->
  NR s' = NR s /\ FNR s' = FNR s /\ FILENAME s' = FILENAME s /\ idx s' = idx s /\ cur s' = cur s /\
  argv s' = argv s /\ argc s' = argc s /\ had s' = had s /\ stdin s' = stdin s.
Proof.
  intros H. apply do_getline_split in H as (r & l & s1 & HR & HS).
  apply store_frame in HS as (K1 & K2 & K3 & K4 & K5 & K6 & K7 & K8 & K9 & _). sst.
  assert (NR s1 = NR s /\ FNR s1 = FNR s /\ FILENAME s1 = FILENAME s /\ idx s1 = idx s /\ cur s1 = cur s /\
          argv s1 = argv s /\ argc s1 = argc s /\ had s1 = had s /\ stdin s1 = stdin s) as (J1 & J2 & J3 & J4 & J5 & J6 & J7 & J8 & J9).
  { cbn [rd_read] in HR.
    destruct (blookup (rd s) c) as [recs|].
    { injection HR as HR. apply scan_rd_quiet in HR as (_ & H1 & H2 & H3 & H4 & H5 & H6 & H7 & H8 & H9 & _). repeat split; assumption. }
    destruct (blookup (cmds e) c) as [recs|]; [|discriminate].
    injection HR as HR. apply scan_rd_quiet in HR as (_ & H1 & H2 & H3 & H4 & H5 & H6 & H7 & H8 & H9 & _). repeat split; assumption. }
  repeat split; congruence.
Qed.

Lemma rd_read_record e sr s r l s1 :
  rd_read e sr s = Some (r, l, s1) -> line s1 = line s /\ fields s1 = fields s.
Proof.
  intros H. destruct sr as [|f|c]; cbn [rd_read] in H.
  - destruct (next_line e s) as [res s'] eqn:HN. apply next_line_frame in HN as (H1 & H2 & _).
    destruct res; try discriminate; injection H as _ _ <-; split; assumption.
  - destruct (blookup (rd s) f) as [recs|].
    { injection H as H. apply scan_rd_quiet in H. tauto. }
    destruct (bytes_eqb f b_dash).
    + destruct (rdstdin s) as [[|r0 rest]|].
      * injection H as _ _ <-. split; reflexivity.
      * injection H as _ _ <-. split; reflexivity.
      * destruct (stdin s); injection H as _ _ <-; split; reflexivity.
    + destruct (blookup (fs e) f) as [recs|].
      * injection H as H. apply scan_rd_quiet in H. tauto.
      * injection H as _ _ <-. split; reflexivity.
  - destruct (blookup (rd s) c) as [recs|].
    { injection H as H. apply scan_rd_quiet in H. tauto. }
    destruct (blookup (cmds e) c) as [recs|]; [|discriminate].
    injection H as H. apply scan_rd_quiet in H. tauto.
Qed.

(* getline var (any source) fills only var: $0 and the fields (hence NF) are untouched *)
Lemma getline_var_frame e sr v s s' :
  do_getline e sr (TVar v) s = Some s' -> line s' = line s /\ fields s' = fields s.
Proof.
  intros H. apply do_getline_split in H as (r & l & s1 & HR & HS).
  apply rd_read_record in HR as (H1 & H2).
  unfold store in HS. destruct (r =? 1); injection HS as <-; sst; split; assumption.
Qed.

Lemma getline_var_frame_mode (m : option Z) fs cmds globals nav sr v s s' :
  do_getline (mkEnv fs cmds globals nav m) sr (TVar v) s = Some s' -> line s' = line s /\ fields s' = fields s.
Proof. apply getline_var_frame. Qed.

(* what a successful getline var stores *)
Lemma getline_var_value e sr v s s' :
  do_getline e sr (TVar v) s = Some s' -> ret s' = 1 ->
  exists l s1, rd_read e sr s = Some (1, l, s1) /\ blookup (vars s') v = Some l.
Proof.
  intros H Hret. apply do_getline_split in H as (r & l & s1 & HR & HS).
  unfold store in HS. destruct (r =? 1) eqn:Hr1.
  - apply Z.eqb_eq in Hr1. subst r. injection HS as <-. exists l, s1. split; [exact HR|].
    sst. unfold bupdate. cbn [blookup]. replace (bytes_eqb v v) with true; [reflexivity|].
    symmetry. apply bytes_eqb_eq. reflexivity.
  - injection HS as <-. sst. apply Z.eqb_neq in Hr1. contradiction.
Qed.

(* plain getline / getline var when the current file still has a record: exactly what is set *)
Lemma getline_main_line e s name r rest :
  cur s = Some (name, r :: rest) ->
  exists s', do_getline e SMain TLine s = Some s' /\ ret s' = 1 /\
    NR s' = NR s + 1 /\ FNR s' = FNR s + 1 /\ FILENAME s' = FILENAME s /\
    line s' = r /\ fields s' = split_mode e r /\ vars s' = vars s /\ cur s' = Some (name, rest).
Proof.
  intros Hc. unfold do_getline. cbn [rd_read]. unfold next_line. rewrite Hc. unfold deliver.
  eexists. split; [reflexivity|]. sst. repeat split; reflexivity.
Qed.

Lemma getline_main_var e s name r rest v :
  cur s = Some (name, r :: rest) ->
  exists s', do_getline e SMain (TVar v) s = Some s' /\ ret s' = 1 /\
    NR s' = NR s + 1 /\ FNR s' = FNR s + 1 /\ FILENAME s' = FILENAME s /\
    line s' = line s /\ fields s' = fields s /\ vars s' = bupdate (vars s) v r /\ cur s' = Some (name, rest).
Proof.
  intros Hc. unfold do_getline. cbn [rd_read]. unfold next_line. rewrite Hc. unfold deliver.
  eexists. split; [reflexivity|]. sst. repeat split; reflexivity.
Qed.

(* ---------- counters in the property's words ---------- *)

Definition is_rec (v : ev) : bool := match v with EvRec _ _ => true | _ => false end.
Definition writes_nr (v : ev) : bool :=
  match v with EvSetNR _ => true | EvAssign n _ => bytes_eqb n b_NR | _ => false end.
Definition count_recs (l : list ev) : Z := zlen (filter is_rec l).

Lemma fold_obs_nr e : forall l o,
  let '(nr, _, _, _, _) := fold_left (obs_ev e) l o in
  nr = fold_left nr_ev l (let '(nr0, _, _, _, _) := o in nr0).
Proof.
  induction l as [|v l IH]; intros [[[[nr fnr] fn] stt] vs]; cbn [fold_left]; [reflexivity|].
  specialize (IH (obs_ev e (nr, fnr, fn, stt, vs) v)).
  destruct (fold_left (obs_ev e) l (obs_ev e (nr, fnr, fn, stt, vs) v)) as [[[[nr' fnr'] fn'] stt'] vs'].
  rewrite IH. reflexivity.
Qed.

Lemma fold_obs_status e : forall l o,
  let '(_, _, _, stt, _) := fold_left (obs_ev e) l o in
  stt = fold_left status_ev l (let '(_, _, _, stt0, _) := o in stt0).
Proof.
  induction l as [|v l IH]; intros [[[[nr fnr] fn] stt] vs]; cbn [fold_left]; [reflexivity|].
  specialize (IH (obs_ev e (nr, fnr, fn, stt, vs) v)).
  destruct (fold_left (obs_ev e) l (obs_ev e (nr, fnr, fn, stt, vs) v)) as [[[[nr' fnr'] fn'] stt'] vs'].
  rewrite IH. reflexivity.
Qed.

Lemma nr_fold_count : forall l x,
  forallb (fun v => negb (writes_nr v)) l = true -> fold_left nr_ev l x = x + count_recs l.
Proof.
  unfold count_recs. induction l as [|v l IH]; intros x H; cbn [fold_left filter].
  - rewrite zlen_nil. lia.
  - cbn [forallb] in H. apply andb_true_iff in H as [Hv Hl]. rewrite IH by exact Hl.
    destruct v; cbn [nr_ev is_rec writes_nr] in *; rewrite ?zlen_cons; try lia.
    destruct (bytes_eqb name b_NR); [discriminate|lia].
Qed.

(* NR = NR0 + the number of main-input records taken, as long as nothing assigns NR *)
Lemma tracks_nr_count e s s' :
  tracks e s s' -> exists new, log s' = new ++ log s /\
    (forallb (fun v => negb (writes_nr v)) new = true -> NR s' = NR s + count_recs new).
Proof.
  intros (new & HL & HO). exists new. split; [exact HL|]. intros Hno.
  pose proof (fold_obs_nr e (rev new) (obs_of s)) as HF. rewrite <- HO in HF. unfold obs_of in HF.
  rewrite HF, nr_fold_count.
  - unfold count_recs. f_equal. unfold zlen. f_equal.
    rewrite <- (rev_length (filter is_rec new)). f_equal.
    clear. induction new as [|v l IH]; [reflexivity|]. cbn [rev filter]. rewrite filter_app, IH. cbn [filter].
    destruct (is_rec v); cbn [rev]; [reflexivity|rewrite app_nil_r; reflexivity].
  - rewrite forallb_forall in *. intros v Hv. apply Hno. apply in_rev. exact Hv.
Qed.

(* the exit status is the value of the last exit expression evaluated *)
Lemma status_fold_last : forall l x n l',
  forallb (fun v => match v with EvExit _ => false | _ => true end) l' = true ->
  fold_left status_ev (l ++ EvExit n :: l') x = n.
Proof.
  intros l x n l' H. rewrite fold_left_app. cbn [fold_left status_ev].
  generalize n. induction l' as [|v l' IH]; intros m; cbn [fold_left]; [reflexivity|].
  cbn [forallb] in H. apply andb_true_iff in H as [Hv Hl].
  destruct v; try discriminate; cbn [status_ev]; apply IH; exact Hl.
Qed.

Lemma status_fold_none : forall l x,
  forallb (fun v => match v with EvExit _ => false | _ => true end) l = true -> fold_left status_ev l x = x.
Proof.
  induction l as [|v l IH]; intros x H; cbn [fold_left]; [reflexivity|].
  cbn [forallb] in H. apply andb_true_iff in H as [Hv Hl].
  destruct v; try discriminate; cbn [status_ev]; apply IH; exact Hl.
Qed.

(* ---------- next, nextfile, exit ---------- *)

Section Control.
  Variable U : Type.
  Variable step : U -> st -> req * U.
  Variable enter : blk -> U -> U.
  Variable e : env.

  (* next in the body of a rule (at whatever depth inside U): the remaining rules are skipped, the
     state is the one the body left, and the loop goes on with the next record *)
  Lemma exec_rules_next fuel r rules i done f fl u s f' u1 s1 u2 s2 :
    eval_pat U step enter e fuel r i f u s = PVal true f' u1 s1 -> has_body r = true ->
    run U step e fuel (enter (BBody i) u1) s1 = ROk ONext u2 s2 ->
    exec_rules U step enter e fuel (r :: rules) i done (f :: fl) u s = LCont u2 s2 (rev (f' :: done) ++ fl).
  Proof. intros HP HB HR. cbn [exec_rules]. rewrite HP, HB, HR. reflexivity. Qed.

  Lemma exec_rules_nextfile fuel r rules i done f fl u s f' u1 s1 u2 s2 :
    eval_pat U step enter e fuel r i f u s = PVal true f' u1 s1 -> has_body r = true ->
    run U step e fuel (enter (BBody i) u1) s1 = ROk ONextfile u2 s2 ->
    exec_rules U step enter e fuel (r :: rules) i done (f :: fl) u s = LCont u2 (drop_file s2) (rev (f' :: done) ++ fl).
  Proof. intros HP HB HR. cbn [exec_rules]. rewrite HP, HB, HR. reflexivity. Qed.

  (* exit in the body of a rule or in a pattern: execActions returns at once *)
  Lemma exec_rules_exit fuel r rules i done f fl u s f' u1 s1 u2 s2 n :
    eval_pat U step enter e fuel r i f u s = PVal true f' u1 s1 -> has_body r = true ->
    run U step e fuel (enter (BBody i) u1) s1 = ROk (OExit n) u2 s2 ->
    exec_rules U step enter e fuel (r :: rules) i done (f :: fl) u s = LStop (OExit n) u2 s2.
  Proof. intros HP HB HR. cbn [exec_rules]. rewrite HP, HB, HR. reflexivity. Qed.

  (* next / nextfile reached from a pattern expression (through a function it calls): the record is
     abandoned exactly as from a rule body; the rule's range flag keeps the value it had *)
  Lemma exec_rules_skip fuel r rules i done f fl u s f' u1 s1 :
    eval_pat U step enter e fuel r i f u s = PSkip f' u1 s1 ->
    exec_rules U step enter e fuel (r :: rules) i done (f :: fl) u s = LCont u1 s1 (rev (f' :: done) ++ fl).
  Proof. intros HP. cbn [exec_rules]. rewrite HP. reflexivity. Qed.

  Lemma exec_rules_pat_next fuel r rules i done f fl u s u1 s1 :
    rk r = PExpr ->
    run U step e fuel (enter (BPat i false) u) s = ROk ONext u1 s1 ->
    exec_rules U step enter e fuel (r :: rules) i done (f :: fl) u s = LCont u1 s1 (rev (f :: done) ++ fl).
  Proof. intros Hk HR. apply exec_rules_skip. unfold eval_pat, run_pat. rewrite Hk, HR. reflexivity. Qed.

  Lemma exec_rules_pat_nextfile fuel r rules i done f fl u s u1 s1 :
    rk r = PExpr ->
    run U step e fuel (enter (BPat i false) u) s = ROk ONextfile u1 s1 ->
    exec_rules U step enter e fuel (r :: rules) i done (f :: fl) u s = LCont u1 (drop_file s1) (rev (f :: done) ++ fl).
  Proof. intros Hk HR. apply exec_rules_skip. unfold eval_pat, run_pat. rewrite Hk, HR. reflexivity. Qed.

  (* the same from the start pattern of a closed range (flag stays off) and from the stop pattern of an
     open range (flag stays on) *)
  Lemma exec_rules_range_start_next fuel r rules i done fl u s u1 s1 :
    rk r = PRange ->
    run U step e fuel (enter (BPat i false) u) s = ROk ONext u1 s1 ->
    exec_rules U step enter e fuel (r :: rules) i done (false :: fl) u s = LCont u1 s1 (rev (false :: done) ++ fl).
  Proof. intros Hk HR. apply exec_rules_skip. unfold eval_pat, run_pat. rewrite Hk, HR. reflexivity. Qed.

  Lemma exec_rules_range_stop_next fuel r rules i done fl u s u1 s1 :
    rk r = PRange ->
    run U step e fuel (enter (BPat i true) u) s = ROk ONext u1 s1 ->
    exec_rules U step enter e fuel (r :: rules) i done (true :: fl) u s = LCont u1 s1 (rev (true :: done) ++ fl).
  Proof. intros Hk HR. apply exec_rules_skip. unfold eval_pat, run_pat. rewrite Hk, HR. reflexivity. Qed.

  (* nextfile at the two range sites: as next, and the rest of the current file is dropped *)
  Lemma exec_rules_range_start_nextfile fuel r rules i done fl u s u1 s1 :
    rk r = PRange ->
    run U step e fuel (enter (BPat i false) u) s = ROk ONextfile u1 s1 ->
    exec_rules U step enter e fuel (r :: rules) i done (false :: fl) u s = LCont u1 (drop_file s1) (rev (false :: done) ++ fl).
  Proof. intros Hk HR. apply exec_rules_skip. unfold eval_pat, run_pat. rewrite Hk, HR. reflexivity. Qed.

  Lemma exec_rules_range_stop_nextfile fuel r rules i done fl u s u1 s1 :
    rk r = PRange ->
    run U step e fuel (enter (BPat i true) u) s = ROk ONextfile u1 s1 ->
    exec_rules U step enter e fuel (r :: rules) i done (true :: fl) u s = LCont u1 (drop_file s1) (rev (true :: done) ++ fl).
  Proof. intros Hk HR. apply exec_rules_skip. unfold eval_pat, run_pat. rewrite Hk, HR. reflexivity. Qed.

  (* the opening record: the start pattern of a closed range matches and the stop pattern is left through
     next / nextfile on that very record: the flag is SET (inRange[i] is assigned before the second
     pattern is evaluated), the range is open for the following records *)
  Lemma exec_rules_opening_record_next fuel r rules i done fl u s u1 s1 u2 s2 :
    rk r = PRange ->
    run U step e fuel (enter (BPat i false) u) s = ROk (OVal true) u1 s1 ->
    run U step e fuel (enter (BPat i true) u1) s1 = ROk ONext u2 s2 ->
    exec_rules U step enter e fuel (r :: rules) i done (false :: fl) u s = LCont u2 s2 (rev (true :: done) ++ fl).
  Proof. intros Hk H1 H2. apply exec_rules_skip. unfold eval_pat, run_pat. rewrite Hk, H1, H2. reflexivity. Qed.

  Lemma exec_rules_opening_record_nextfile fuel r rules i done fl u s u1 s1 u2 s2 :
    rk r = PRange ->
    run U step e fuel (enter (BPat i false) u) s = ROk (OVal true) u1 s1 ->
    run U step e fuel (enter (BPat i true) u1) s1 = ROk ONextfile u2 s2 ->
    exec_rules U step enter e fuel (r :: rules) i done (false :: fl) u s = LCont u2 (drop_file s2) (rev (true :: done) ++ fl).
  Proof. intros Hk H1 H2. apply exec_rules_skip. unfold eval_pat, run_pat. rewrite Hk, H1, H2. reflexivity. Qed.

  (* after nextfile the rest of the current file is out of the plan: the next record comes from the next operand *)
  Lemma drop_file_plan s : plan e (drop_file s) = planF e (argv s) (argc s) (idx s) (had s) (stdin s).
  Proof.
    unfold drop_file. destruct (cur s) as [[name rest]|] eqn:Hc; unfold plan, cur_part; sst; [|rewrite Hc]; reflexivity.
  Qed.

  Lemma main_loop_unfold fuel n rules flags u s :
    main_loop U step enter e fuel (S n) rules flags u s =
    match next_line e s with
    | (NLEof, s1) => LCont u s1 flags
    | (NLErr, s1) => LStop OErr u s1
    | (NLRec r, s1) =>
        match exec_rules U step enter e fuel rules 0 [] flags u (set_line e r s1) with
        | LCont u' s' flags' => main_loop U step enter e fuel n rules flags' u' s'
        | x => x
        end
    | (NLUnmod, _) => LUnmod
    | (NLFuel, _) => LFuel
    end.
  Proof. reflexivity. Qed.

  (* the iterations of the main loop *)
  Inductive loop_reaches (fuel : nat) (rules : list rule) : U * st * list bool -> U * st * list bool -> Prop :=
  | lr_refl x : loop_reaches fuel rules x x
  | lr_step u s fl r s1 u' s' fl' x :
      next_line e s = (NLRec r, s1) ->
      exec_rules U step enter e fuel rules 0 [] fl u (set_line e r s1) = LCont u' s' fl' ->
      loop_reaches fuel rules (u', s', fl') x -> loop_reaches fuel rules (u, s, fl) x.

  (* when the input is exhausted, $0 and the fields are those left by the processing of the last
     record (or those before the loop if there was no record): END sees the last record *)
  Lemma main_loop_end_record fuel rules : forall n flags u s u' s' fl',
    main_loop U step enter e fuel n rules flags u s = LCont u' s' fl' ->
    exists s0, loop_reaches fuel rules (u, s, flags) (u', s0, fl') /\
               next_line e s0 = (NLEof, s') /\ line s' = line s0 /\ fields s' = fields s0.
  Proof.
    induction n as [|n IH]; intros flags u s u' s' fl' H; [discriminate|].
    rewrite main_loop_unfold in H.
    destruct (next_line e s) as [res s1] eqn:HN.
    destruct res as [r| | | |]; try discriminate.
    - destruct (exec_rules U step enter e fuel rules 0 [] flags u (set_line e r s1)) as [| |u2 s2 fl2|o u2 s2] eqn:HE; try discriminate.
      apply IH in H as (s0 & HL & HN0 & H1 & H2). exists s0. split; [|tauto].
      eapply lr_step; eassumption.
    - injection H as <- <- <-. exists s. split; [apply lr_refl|].
      split; [exact HN|]. apply next_line_frame in HN. tauto.
  Qed.

  (* exit in BEGIN: the main loop is not entered; END (if any) runs once, from the state BEGIN left *)
  Lemma exec_all_begin_exit fuel rules has_end u s n u1 s1 :
    run U step e fuel (enter BBegin u) s = ROk (OExit n) u1 s1 ->
    exec_all U step enter e fuel rules has_end u s =
    if negb has_end then FOk u1 s1
    else match run U step e fuel (enter BEnd u1) s1 with
         | RFuel => FFuel | RUnmod => FUnmod
         | ROk o3 u3 s3 => if is_exit o3 || is_val o3 then FOk u3 s3 else FErr u3 s3
         end.
  Proof.
    intros H. unfold exec_all. rewrite H. cbn [is_exit is_val orb negb].
    destruct rules; destruct has_end; reflexivity.
  Qed.

  (* exit in a main rule: the remaining input is skipped; END runs once, from the state of the exit *)
  Lemma exec_all_main_exit fuel rules has_end u s b u1 s1 n u2 s2 :
    run U step e fuel (enter BBegin u) s = ROk (OVal b) u1 s1 ->
    main_loop U step enter e fuel fuel rules (map (fun _ => false) rules) u1 s1 = LStop (OExit n) u2 s2 ->
    rules <> [] ->
    exec_all U step enter e fuel rules has_end u s =
    if negb has_end then FOk u2 s2
    else match run U step e fuel (enter BEnd u2) s2 with
         | RFuel => FFuel | RUnmod => FUnmod
         | ROk o3 u3 s3 => if is_exit o3 || is_val o3 then FOk u3 s3 else FErr u3 s3
         end.
  Proof.
    intros HB HM Hr. unfold exec_all. rewrite HB. cbn [is_exit is_val orb negb].
    destruct rules as [|r0 rules']; [contradiction|]. cbn [andb]. rewrite HM. reflexivity.
  Qed.

  (* the input is exhausted: END runs once from the state in which nextLine reported the end *)
  Lemma exec_all_main_eof fuel rules has_end u s b u1 s1 u2 s2 fl :
    run U step e fuel (enter BBegin u) s = ROk (OVal b) u1 s1 ->
    main_loop U step enter e fuel fuel rules (map (fun _ => false) rules) u1 s1 = LCont u2 s2 fl ->
    (rules <> [] \/ has_end = true) ->
    exec_all U step enter e fuel rules has_end u s =
    if negb has_end then FOk u2 s2
    else match run U step e fuel (enter BEnd u2) s2 with
         | RFuel => FFuel | RUnmod => FUnmod
         | ROk o3 u3 s3 => if is_exit o3 || is_val o3 then FOk u3 s3 else FErr u3 s3
         end.
  Proof.
    intros HB HM Hr. unfold exec_all. rewrite HB. cbn [is_exit is_val orb negb].
    assert (Hc : (match rules with [] => true | _ :: _ => false end) && negb has_end = false).
    { destruct rules; [|reflexivity]. destruct Hr as [Hr| ->]; [contradiction|reflexivity]. }
    rewrite Hc, HM. reflexivity.
  Qed.

  (* exit inside END stops END; whatever END's outcome, nothing runs after it *)
  Lemma run_exit_status fuel u s n u' s' :
    run U step e fuel u s = ROk (OExit (Some n)) u' s' -> status s' = n.
  Proof.
    revert u s. induction fuel as [|fuel IH]; intros u s H; cbn [run] in H; [discriminate|].
    destruct (step u s) as [r u1].
    destruct r as [o1| | | | | | | | | | |];
      try (destruct (prim e _ s) as [s1|]; [|discriminate]; eapply IH; exact H).
    destruct o1 as [b| | |[m|]|]; try discriminate; injection H as <- _ <-. reflexivity.
  Qed.
End Control.

(* ---------- assignment operands: name=value ---------- *)

Definition name_char (c : Z) : bool := is_alpha_ c || is_digit c.

Lemma split_name_spec : forall rest acc v,
  forallb name_char rest = true -> split_name (rest ++ 61 :: v) acc = Some (rev acc ++ rest, v).
Proof.
  induction rest as [|c rest IH]; intros acc v H; cbn [app split_name].
  - rewrite Z.eqb_refl, app_nil_r. reflexivity.
  - cbn [forallb] in H. apply andb_true_iff in H as [Hc Hr].
    assert (c =? 61 = false) as ->.
    { unfold name_char, is_alpha_, is_digit in Hc. apply Z.eqb_neq. intros ->. cbn in Hc. discriminate. }
    unfold name_char in Hc. rewrite Hc. rewrite IH by exact Hr. cbn [rev]. rewrite <- app_assoc. reflexivity.
Qed.

(* an operand name=value with a well-formed name is an assignment of exactly that value, whatever
   bytes the value contains (line feeds included) *)
Lemma parse_assign_spec c rest v :
  is_alpha_ c = true -> forallb name_char rest = true ->
  parse_assign (c :: rest ++ 61 :: v) = Some (c :: rest, v).
Proof.
  intros Hc Hr. cbn [parse_assign]. rewrite Hc, split_name_spec by exact Hr. reflexivity.
Qed.
