(* C13 proofs, part 8: program order.  The EvWrite events of the log, oldest
   first, are a subsequence of the program's print statements, each with that
   statement's bytes: the log order the other theorems speak of is the order
   of the program.  (Same traversal as StreamsOrder.v, for another predicate.) *)
From Verif Require Import Lib.Base Model.Streams Proofs.StreamsBase Proofs.StreamsSpec.

Definition quiet_ev (e : event) : Prop := match e with EvWrite _ _ => False | _ => True end.

(* the log of s' extends the log of s by events that are not bad starts *)
Definition qext (s s' : state) : Prop := exists l, st_log s' = l ++ st_log s /\ Forall quiet_ev l.

Lemma qext_refl s : qext s s.
Proof. exists []. auto. Qed.
Lemma qext_same s s' : st_log s' = st_log s -> qext s s'.
Proof. intros H. exists []. auto. Qed.
Lemma qext_trans s1 s2 s3 : qext s1 s2 -> qext s2 s3 -> qext s1 s3.
Proof.
  intros (l1 & H1 & F1) (l2 & H2 & F2). exists (l2 ++ l1). rewrite H2, H1, app_assoc. split; auto.
  apply Forall_app; auto.
Qed.
Lemma qext_add_log s e : quiet_ev e -> qext s (add_log s e).
Proof. intros H. exists [e]. cbn. auto. Qed.
Lemma qext_ok s s' : qext s s' -> Forall quiet_ev (st_log s) -> Forall quiet_ev (st_log s').
Proof. intros (l & -> & F) H. apply Forall_app; auto. Qed.

(* the writes the program issued, newest first *)
Definition writes (log : list event) : list (wdest * bytes) :=
  flat_map (fun e => match e with EvWrite w b => [(w, b)] | _ => [] end) log.

Lemma writes_quiet l : Forall quiet_ev l -> writes l = [].
Proof.
  induction 1 as [|e l He _ IH]; auto. unfold writes in *. cbn [flat_map]. rewrite IH.
  destruct e; try contradiction; auto.
Qed.
Lemma writes_app a b : writes (a ++ b) = writes a ++ writes b.
Proof. unfold writes. apply flat_map_app. Qed.
Lemma qext_writes s s' : qext s s' -> writes (st_log s') = writes (st_log s).
Proof. intros (l & -> & F). rewrite writes_app, writes_quiet; auto. Qed.

(* goawk's stdout buffer holds nothing that could still be delivered *)
Definition flushed (E : env) (s : state) : Prop :=
  match e_mode E with Buf _ => bw_buf (st_out s) = [] \/ bw_err (st_out s) = true | _ => True end.

Lemma touch_log E s : st_log (touch E s) = st_log s /\ st_out (touch E s) = st_out s /\ st_sink (touch E s) = st_sink s.
Proof.
  unfold touch. destruct (negb (is_osfile (e_mode E)) && any_active (st_outs s)); cbn [st_outs set_overlap];
  match goal with |- context [if ?c then set_unmod _ else _] => destruct c end; cbn; auto.
Qed.

Lemma bw_flush_flushed w k w' k' ok : bw_flush w k = (w', k', ok) -> bw_buf w' = [] \/ bw_err w' = true.
Proof.
  unfold bw_flush. destruct (bw_err w) eqn:Ee; [intros H; injection H as <- <- <-; auto|].
  destruct (bw_buf w) eqn:Eb; [intros H; injection H as <- <- <-; auto|].
  destruct (sink_write k _) as [[k1 n] [|]]; intros H; injection H as <- <- <-; cbn; auto.
Qed.

Lemma flush_stdout_log E s : st_log (fst (flush_stdout E s)) = st_log s /\ flushed E (fst (flush_stdout E s)).
Proof.
  unfold flush_stdout, flushed. destruct (e_mode E); cbn [fst]; auto.
  destruct (touch_log E s) as (Hl & _). destruct (bw_flush _ _) as [[w k] ok] eqn:Ef. cbn [fst st_log set_out st_out].
  split; auto. eapply bw_flush_flushed; eauto.
Qed.

Lemma flushed_flush_again E s : flushed E s -> flushed E (fst (flush_stdout E s)).
Proof. intros _. apply flush_stdout_log. Qed.

Lemma write_stdout_writes E s ps :
  writes (st_log (fst (write_stdout E s ps))) = (WStdout, concat ps) :: writes (st_log s).
Proof.
  unfold write_stdout. destruct (touch_log E s) as (Hl & _).
  assert (H : forall s2, st_log s2 = st_log (add_log (touch E s) (EvWrite WStdout (concat ps))) ->
             writes (st_log s2) = (WStdout, concat ps) :: writes (st_log s)).
  { intros s2 ->. cbn [st_log add_log]. rewrite Hl. reflexivity. }
  apply H. destruct (e_mode E); cbv beta iota.
  - destruct (write_pieces_direct _ _). reflexivity.
  - destruct (write_pieces_direct _ _). reflexivity.
  - destruct (write_pieces_buf _ _ _ _) as [[? ?] ?]. reflexivity.
Qed.

Lemma write_stdout_rec_writes E s rec :
  writes (st_log (fst (write_stdout_rec E s rec))) = (WStdout, rec) :: writes (st_log s).
Proof.
  assert (Hc : concat [rec] = rec) by (cbn; apply app_nil_r).
  unfold write_stdout_rec. destruct (e_mode E) eqn:Em; try (rewrite write_stdout_writes, Hc; reflexivity).
  destruct (cap <? scratch_size)%nat; [|rewrite write_stdout_writes, Hc; reflexivity].
  destruct (touch_log E s) as (Hl & _).
  destruct (write_chunks_buf _ _ _ _) as [[? ?] ?]. cbn [fst st_log set_out add_log]. rewrite Hl. reflexivity.
Qed.

Lemma child_out_qext E s cg data : qext s (fst (child_out E s cg data)).
Proof.
  unfold child_out. destruct data as [|b d]; [apply qext_refl|].
  eapply qext_trans; [apply (qext_add_log _ (EvChildOut (b :: d))); exact I|].
  apply qext_same. destruct (e_mode E); cbv beta iota.
  - destruct (sink_write _ _) as [[? ?] ?]. cbn. auto.
  - destruct cg; cbn [fst]; auto. destruct (sink_write _ _) as [[? ?] ?]. cbn [fst set_out st_log]. auto.
  - destruct cg; cbn [fst set_unmod st_log]; auto. match goal with |- context [if ?c then set_unmod ?x else ?x] => destruct c end; destruct (bw_write _ _ _ _) as [[? ?] ?]; cbn [fst set_out st_log set_unmod]; auto.
Qed.

Lemma child_eof_qext E s cg : qext s (fst (child_eof E s cg)).
Proof. apply qext_refl. Qed.

Lemma start_proc_qext E s c : flushed E s -> qext s (fst (start_proc E s c)).
Proof.
  intros Hf. unfold start_proc. cbn [fst].
  assert (Hs : quiet_ev (EvStart c (stdout_pending E s) (bw_err (st_out s)))).
  { exact I. }
  eapply qext_trans; [apply (qext_add_log _ _ Hs)|].
  destruct (c_sink (e_spec E c)); [|apply qext_refl].
  eapply qext_trans; [|apply qext_add_log; exact I]. apply qext_same. auto.
Qed.

Lemma set_unmod_if'_qext (b : bool) s : qext s (if b then s else set_unmod s).
Proof. destruct b; [apply qext_refl|apply qext_same; auto]. Qed.

Lemma deliver_qext E s n o data : qext s (fst (deliver E s n o data)).
Proof.
  unfold deliver. destruct data as [|b d]; [apply qext_refl|].
  destruct (os_kind o).
  - destruct (os_off o); apply qext_same; auto.
  - destruct (c_drain (e_spec E n)); [|cbn [fst]; apply set_unmod_if'_qext].
    set (s1 := match c_sink (e_spec E n) with Some t => _ | None => s end).
    assert (H1 : qext s s1) by (subst s1; destruct (c_sink (e_spec E n)); [apply qext_same; auto|apply qext_refl]).
    destruct (c_echo (e_spec E n)); auto.
    pose proof (child_out_qext E s1 (os_cgfail o) (b :: d)) as H2.
    destruct (child_out E s1 _ _) as [s2 ok]. cbn [fst] in *. eapply qext_trans; eauto.
Qed.

Lemma flush_ostream_qext E s n o : qext s (fst (flush_ostream E s n o)).
Proof.
  unfold flush_ostream. pose proof (deliver_qext E s n o (os_buf o)) as H.
  destruct (deliver _ _ _ _ _). auto.
Qed.

Lemma write_ostream_qext E s n o p : qext s (fst (write_ostream E s n o p)).
Proof.
  unfold write_ostream. destruct (buf_bytes _ _ _) as [f r].
  pose proof (deliver_qext E s n o f) as H. destruct (deliver _ _ _ _ _). auto.
Qed.

Lemma flush_named_qext E s n o : qext s (flush_named E s n o).
Proof.
  unfold flush_named. pose proof (flush_ostream_qext E s n o) as H.
  destruct (flush_ostream _ _ _ _) as [s1 o1]. cbn [fst] in H. cbv zeta.
  apply (qext_trans _ s1); auto. apply (qext_trans _ (set_outs s1 (aset n o1 (st_outs s1)))); [apply qext_same; auto|].
  destruct (os_err o1); [apply qext_same; apply flush_stdout_log|apply qext_refl].
Qed.

Lemma flush_streams_qext E ns : forall s, qext s (flush_streams E s ns).
Proof.
  induction ns as [|n ns IH]; intros s; cbn [flush_streams]; [apply qext_refl|].
  destruct (alookup n (st_outs s)); auto. eapply qext_trans; [apply flush_named_qext|apply IH].
Qed.

Lemma flush_all_qext E s : qext s (fst (flush_all E s)) /\ flushed E (fst (flush_all E s)).
Proof.
  unfold flush_all. set (s1 := flush_streams E s _).
  assert (H1 : qext s s1) by apply flush_streams_qext.
  destruct (flush_stdout_log E s1) as (Hl & Hf). destruct (flush_stdout E s1) as [s2 [|]]; cbn [fst] in *.
  - split; auto. eapply qext_trans; eauto. apply qext_same; auto.
  - unfold print_errorf. destruct (flush_stdout_log E s2) as (Hl2 & Hf2). split; auto.
    eapply qext_trans; eauto. apply qext_same. congruence.
Qed.

Lemma close_ostream_qext E s n o : qext s (fst (fst (close_ostream E s n o))).
Proof.
  unfold close_ostream. pose proof (flush_ostream_qext E s n o) as H.
  destruct (flush_ostream _ _ _ _) as [s1 o1]. cbn [fst] in H. destruct (os_kind o1); auto.
  pose proof (child_eof_qext E s1 (os_cgfail o1)) as H2. destruct (child_eof _ _ _) as [s2 ok].
  destruct (wait_result _ _). cbn [fst] in *. eapply qext_trans; eauto.
Qed.

Lemma close_streams_qext E ns : forall s, qext s (close_streams E s ns).
Proof.
  induction ns as [|n ns IH]; intros s; cbn [close_streams]; [apply qext_refl|].
  destruct (alookup n (st_outs s)) as [o|]; auto.
  pose proof (close_ostream_qext E (set_outs s (aremove n (st_outs s))) n o) as H.
  destruct (close_ostream _ _ _ _) as [[s1 code] err]. cbn [fst] in H.
  eapply qext_trans; [|apply IH]. eapply qext_trans; [|apply qext_add_log; exact I].
  eapply qext_trans; eauto. apply qext_same; auto.
Qed.

Lemma close_all_qext E s : qext s (close_all E s).
Proof.
  unfold close_all, flush_out_err.
  eapply qext_trans; [|apply qext_same; apply flush_stdout_log].
  eapply qext_trans; [|apply close_streams_qext]. apply qext_same; auto.
Qed.

Lemma set_unmod_if_qext (b : bool) s : qext s (if b then set_unmod s else s).
Proof. destruct b; [apply qext_same; auto|apply qext_refl]. Qed.

Lemma get_output_stream_qext E s d : qext s (fst (get_output_stream E s d)).
Proof.
  unfold get_output_stream. destruct d as [| | |r n]; try apply qext_refl.
  - apply qext_same. apply flush_stdout_log.
  - destruct (amem n (st_ins s)); [apply qext_refl|]. destruct (amem n (st_outs s)); [apply qext_refl|].
    destruct (flush_stdout_log E s) as (Hl & Hf). fold (flush_out_err E s) in Hl, Hf. set (s1 := flush_out_err E s) in *.
    assert (H1 : qext s s1) by (apply qext_same; auto).
    destruct r.
    + destruct (e_bad E n); cbn [fst]; auto. eapply qext_trans; eauto.
      eapply qext_trans; [|apply qext_same; reflexivity]. eapply qext_trans; [|apply qext_add_log; exact I]. apply qext_same; auto.
    + destruct (e_bad E n); cbn [fst]; auto. eapply qext_trans; eauto.
      eapply qext_trans; [|apply qext_same; reflexivity]. eapply qext_trans; [|apply qext_add_log; exact I]. apply qext_same; auto.
    + match goal with |- context [if ?c then set_unmod s1 else s1] => set (s2 := if c then set_unmod s1 else s1) end.
      assert (H2 : qext s1 s2) by apply set_unmod_if_qext.
      assert (Hf2 : flushed E (add_log s2 (EvOpen n KCmd false))).
      { unfold flushed in *. subst s2. match goal with |- context [if ?c then set_unmod s1 else s1] => destruct c end; cbn; auto. }
      pose proof (start_proc_qext E _ n Hf2) as H3. destruct (start_proc E _ n) as [s4 cg]. cbn [fst] in H3.
      pose proof (child_out_qext E s4 cg (c_stdout (e_spec E n))) as H4. destruct (child_out E s4 cg _) as [s5 ok]. cbn [fst] in *.
      apply (qext_trans _ s1); auto. apply (qext_trans _ s2); auto.
      apply (qext_trans _ (add_log s2 (EvOpen n KCmd false))); [apply qext_add_log; exact I|].
      apply (qext_trans _ s4); auto. apply (qext_trans _ s5); auto.
      eapply qext_trans; [apply set_unmod_if_qext|]. apply qext_same. reflexivity.
Qed.

Lemma scan_stream_qext s n i : qext s (scan_stream s n i).
Proof. unfold scan_stream. destruct (is_rest i); [apply qext_same; auto|]. destruct (scan_line _ _). apply qext_same; auto. Qed.

Lemma if_print_errorf_qext E (b : bool) s : qext s (if b then print_errorf E s else s).
Proof. destruct b; [apply qext_same; apply flush_stdout_log|apply qext_refl]. Qed.

(* which program statement a write event belongs to *)
Definition dest_matches (d : dest) (w : wdest) : Prop :=
  match d, w with
  | DRedir _ n, WFile m => n = m
  | DRedir _ n, WCmd m => n = m
  | DRedir _ _, WStdout => False
  | _, WStdout => True
  | _, _ => False
  end.

Lemma get_output_stream_target E s d s' r : get_output_stream E s d = (s', Some r) ->
  match r with TStdout => dest_matches d WStdout | TStream n => dest_matches d (WFile n) /\ dest_matches d (WCmd n) end.
Proof.
  unfold get_output_stream. destruct d as [| | |rd n]; try (intros H; injection H as <- <-; exact I).
  destruct (amem n (st_ins s)); [discriminate|]. destruct (amem n (st_outs s)); [intros H; injection H as <- <-; cbn; auto|].
  destruct rd.
  - destruct (e_bad E n); [discriminate|]. intros H; injection H as <- <-; cbn; auto.
  - destruct (e_bad E n); [discriminate|]. intros H; injection H as <- <-; cbn; auto.
  - destruct (start_proc E _ n) as [s4 cg]. destruct (child_out E s4 cg _) as [s5 ok]. intros H; injection H as <- <-; cbn; auto.
Qed.

Lemma getline_file_qext E s n : qext s (fst (getline_file E s n)).
Proof.
  unfold getline_file. set (s0 := if sink_busy E s n then set_unmod s else s).
  assert (H0 : qext s s0) by (subst s0; apply set_unmod_if_qext). clearbody s0.
  apply (qext_trans _ s0); auto.
  destruct (amem n (st_outs s0)); [apply qext_refl|].
  destruct (alookup n (st_ins s0)) as [i|]; cbn [fst]; [apply scan_stream_qext|].
  destruct (alookup n (st_fs s0)); cbn [fst]; [|apply qext_same; auto].
  eapply qext_trans; [|apply scan_stream_qext]. apply qext_same; auto.
Qed.

(* a statement other than print/printf issues no write; print/printf issues at most one, its own *)
(* the print statements: their destination and the bytes they hand over *)
Definition op_print (o : op) : option (dest * bytes) :=
  match o with
  | Print d ps => Some (d, concat ps)
  | PrintRec d rec => Some (d, rec)
  | _ => None
  end.

Lemma step_print_writes E s d ps wr :
  (forall s1, writes (st_log (fst (wr s1))) = (WStdout, concat ps) :: writes (st_log s1)) ->
  writes (st_log (fst (step_print E s d ps wr))) = writes (st_log s) \/
  exists w, dest_matches d w /\ writes (st_log (fst (step_print E s d ps wr))) = (w, concat ps) :: writes (st_log s).
Proof.
  intros Hwr. unfold step_print.
  pose proof (get_output_stream_qext E s d) as H1. destruct (get_output_stream E s d) as [s1 [[|n]|]] eqn:Eg; cbn [fst] in *.
    + right. exists WStdout. split; [apply (get_output_stream_target _ _ _ _ _ Eg)|].
      pose proof (Hwr s1) as H2. destruct (wr s1) as [s2 [|]]; cbn [fst] in *; rewrite H2, (qext_writes _ _ H1); auto.
    + destruct (alookup n (st_outs s1)) as [os|]; cbn [fst]; [|left; apply qext_writes; auto].
      right. set (w := match os_kind os with KFile => WFile n | KCmd => WCmd n end).
      exists w. split.
      { destruct (get_output_stream_target _ _ _ _ _ Eg) as (A & B). subst w. destruct (os_kind os); auto. }
      set (s1' := add_log s1 (EvWrite w (concat ps))). pose proof (write_ostream_qext E s1' n os (concat ps)) as H2.
      destruct (write_ostream _ _ _ _ _) as [s2 os']. cbn [fst st_log set_outs] in *.
      rewrite (qext_writes _ _ H2). subst s1'. cbn [st_log add_log]. change (writes (EvWrite w (concat ps) :: st_log s1)) with ((w, concat ps) :: writes (st_log s1)).
      rewrite (qext_writes _ _ H1). auto.
    + left. apply qext_writes; auto.
Qed.

Lemma step_writes E s o :
  writes (st_log (fst (step E s o))) = writes (st_log s) \/
  exists d data w, op_print o = Some (d, data) /\ dest_matches d w /\ writes (st_log (fst (step E s o))) = (w, data) :: writes (st_log s).
Proof.
  destruct o as [d ps|n|[n|]|c|n|c| |code| |n|d rec]; cbn [step].
  - destruct (step_print_writes E s d ps (fun s1 => write_stdout E s1 ps)) as [H|(w & Hm & H)]; [intros; apply write_stdout_writes|left; auto|].
    right. exists d, (concat ps), w. auto.
  - left. apply qext_writes. destruct (alookup n (st_ins s)) as [i|].
    + destruct (if is_cmd i then _ else _) as [code err]. cbn [fst].
      eapply qext_trans; [|apply qext_same; reflexivity]. eapply qext_trans; [|apply if_print_errorf_qext].
      eapply qext_trans; [|apply qext_add_log; exact I]. apply qext_same; auto.
    + destruct (alookup n (st_outs s)) as [os|]; [|apply qext_same; auto].
      pose proof (close_ostream_qext E (set_outs s (aremove n (st_outs s))) n os) as H.
      destruct (close_ostream _ _ _ _) as [[s1 code] err]. cbn [fst] in *.
      eapply qext_trans; [|apply qext_same; reflexivity]. eapply qext_trans; [|apply if_print_errorf_qext].
      eapply qext_trans; [|apply qext_add_log; exact I]. eapply qext_trans; eauto. apply qext_same; auto.
  - left. apply qext_writes. destruct (alookup n (st_outs s)) as [os|]; cbn [fst].
    + apply (qext_trans _ (flush_named E s n os)); [apply flush_named_qext|apply qext_same; auto].
    + apply (qext_trans _ (print_errorf E s)); [apply (if_print_errorf_qext E true)|apply qext_same; auto].
  - left. apply qext_writes. destruct (flush_all_qext E s) as (H & _). destruct (flush_all E s) as [s1 ok]. cbn [fst] in *.
    eapply qext_trans; eauto. apply qext_same; auto.
  - left. apply qext_writes. destruct (flush_all_qext E s) as (H & Hf). destruct (flush_all E s) as [s1 ok]. cbn [fst] in *.
    pose proof (start_proc_qext E s1 c Hf) as H2. destruct (start_proc E s1 c) as [s2 cg]. cbn [fst] in *.
    pose proof (child_out_qext E s2 cg (c_stdout (e_spec E c))) as H3. destruct (child_out E s2 cg _) as [s3 ok3]. cbn [fst] in *.
    pose proof (child_eof_qext E s3 (negb ok3)) as H4. destruct (child_eof E s3 _) as [s4 ok4]. cbn [fst] in *.
    destruct (wait_result _ _) as [code err]. cbn [fst].
    apply (qext_trans _ s1); auto. apply (qext_trans _ s2); auto. apply (qext_trans _ s3); auto. apply (qext_trans _ s4); auto.
    apply (qext_trans _ (if err then print_errorf E s4 else s4)); [apply if_print_errorf_qext|apply qext_same; auto].
  - left. apply qext_writes. apply getline_file_qext.
  - left. apply qext_writes. destruct (amem c (st_outs s)); [apply qext_refl|].
    destruct (alookup c (st_ins s)) as [i|]; cbn [fst]; [apply scan_stream_qext|].
    destruct (flush_stdout_log E s) as (Hl & Hf). fold (flush_out_err E s) in Hl, Hf.
    pose proof (start_proc_qext E _ c Hf) as H2. destruct (start_proc E _ c) as [s2 cg]. cbn [fst] in *.
    eapply qext_trans; [apply qext_same; exact Hl|]. eapply qext_trans; eauto.
    eapply qext_trans; [|apply scan_stream_qext]. apply qext_same; auto.
  - left. apply qext_writes. cbn [fst]. apply qext_same. cbn. apply flush_stdout_log.
  - left. reflexivity.
  - left. reflexivity.
  - left. apply qext_writes. destruct (amem n (st_outs s)); [apply qext_refl|].
    destruct (negb (amem n (st_ins s)) && negb (amem n (st_fs s))); [apply qext_same; auto|].
    apply (qext_trans _ (add_synced s n)); [apply qext_same; auto|apply getline_file_qext].
  - assert (Hc : concat [rec] = rec) by (cbn; apply app_nil_r).
    destruct (step_print_writes E s d [rec] (fun s1 => write_stdout_rec E s1 rec)) as [H|(w & Hm & H)];
      [intros; rewrite Hc; apply write_stdout_rec_writes|left; auto|].
    right. exists d, rec, w. rewrite Hc in H. auto.
Qed.

(* evs (oldest first) is a subsequence of the print statements of ops, in order, each with its bytes *)
Inductive sub_trace : list op -> list (wdest * bytes) -> Prop :=
| st_done ops : sub_trace ops []
| st_skip o ops evs : sub_trace ops evs -> sub_trace (o :: ops) evs
| st_emit o d data w ops evs : op_print o = Some (d, data) -> dest_matches d w -> sub_trace ops evs ->
    sub_trace (o :: ops) ((w, data) :: evs).

Lemma exec_writes E ops : forall s, exists evs,
  rev (writes (st_log (fst (exec E s ops)))) = rev (writes (st_log s)) ++ evs /\ sub_trace ops evs.
Proof.
  induction ops as [|o ops IH]; intros s; cbn [exec].
  - exists []. rewrite app_nil_r. split; [auto|constructor].
  - pose proof (step_writes E s o) as Hs. destruct (step E s o) as [s1 oc]. cbn [fst] in Hs.
    assert (Hrest : exists evs, rev (writes (st_log (fst (match oc with Running => exec E s1 ops | Halt c => (s1, RStatus c) | Fail => (s1, RError) end)))) =
                      rev (writes (st_log s1)) ++ evs /\ sub_trace ops evs).
    { destruct oc; [apply IH| |]; exists []; rewrite app_nil_r; split; auto; constructor. }
    destruct Hrest as (evs & He & Ht).
    destruct Hs as [Hs|(d & data & w & Hop & Hm & Hs)].
    + exists evs. rewrite He, Hs. split; auto. apply st_skip; auto.
    + exists ((w, data) :: evs). rewrite He, Hs. cbn [rev]. rewrite <- app_assoc. split; auto. eapply st_emit; eauto.
Qed.

(* program order: the writes of a run, oldest first, are print statements of
   the program in program order, each with exactly that statement's bytes *)
Theorem program_order E s0 ops s r : writes (st_log s0) = [] -> run E s0 ops = (s, r) ->
  sub_trace ops (rev (writes (st_log s))).
Proof.
  intros H0. unfold run. destruct (exec_writes E ops s0) as (evs & He & Ht). destruct (exec E s0 ops) as [s1 r1]. cbn [fst] in He.
  intros H; injection H as <- <-. rewrite (qext_writes _ _ (close_all_qext E s1)), He, H0. auto.
Qed.
