(* C13 proofs, part 3: every process starts with goawk's stdout buffer empty
   (flush before start), for every history and every sink failure. *)
From Verif Require Import Lib.Base Model.Streams Proofs.StreamsBase Proofs.StreamsSpec.

(* the log of s' extends the log of s by events that are not bad starts *)
Definition ext (s s' : state) : Prop := exists l, st_log s' = l ++ st_log s /\ Forall start_ok l.

Lemma ext_refl s : ext s s.
Proof. exists []. auto. Qed.
Lemma ext_same s s' : st_log s' = st_log s -> ext s s'.
Proof. intros H. exists []. auto. Qed.
Lemma ext_trans s1 s2 s3 : ext s1 s2 -> ext s2 s3 -> ext s1 s3.
Proof.
  intros (l1 & H1 & F1) (l2 & H2 & F2). exists (l2 ++ l1). rewrite H2, H1, app_assoc. split; auto.
  apply Forall_app; auto.
Qed.
Lemma ext_add_log s e : start_ok e -> ext s (add_log s e).
Proof. intros H. exists [e]. cbn. auto. Qed.
Lemma ext_ok s s' : ext s s' -> Forall start_ok (st_log s) -> Forall start_ok (st_log s').
Proof. intros (l & -> & F) H. apply Forall_app; auto. Qed.

(* goawk's stdout buffer holds nothing that could still be delivered *)
Definition flushed (E : env) (s : state) : Prop :=
  match e_mode E with Buf _ => bw_buf (st_out s) = [] \/ bw_err (st_out s) = true | _ => True end.

Lemma touch_log E s : st_log (touch E s) = st_log s /\ st_out (touch E s) = st_out s /\ st_sink (touch E s) = st_sink s.
Proof.
  unfold touch. destruct (negb (is_osfile (e_mode E)) && any_active (st_outs s)); cbn [st_outs set_overlap];
  match goal with |- context [if ?c then set_unmod _ else _] => destruct c end; cbn; auto.
Qed.

Lemma bw_flush_flushed w k w' k' ok : bw_flush w k = (w', k', ok) -> bw_buf w' = [] \/ bw_err w' = true.
Proof.
  unfold bw_flush. destruct (bw_err w) eqn:Ee; [intros H; injection H as <- <- <-; auto|].
  destruct (bw_buf w) eqn:Eb; [intros H; injection H as <- <- <-; auto|].
  destruct (sink_write k _) as [[k1 n] [|]]; intros H; injection H as <- <- <-; cbn; auto.
Qed.

Lemma flush_stdout_log E s : st_log (fst (flush_stdout E s)) = st_log s /\ flushed E (fst (flush_stdout E s)).
Proof.
  unfold flush_stdout, flushed. destruct (e_mode E); cbn [fst]; auto.
  destruct (touch_log E s) as (Hl & _). destruct (bw_flush _ _) as [[w k] ok] eqn:Ef. cbn [fst st_log set_out st_out].
  split; auto. eapply bw_flush_flushed; eauto.
Qed.

Lemma flushed_flush_again E s : flushed E s -> flushed E (fst (flush_stdout E s)).
Proof. intros _. apply flush_stdout_log. Qed.

Lemma write_stdout_ext E s ps : ext s (fst (write_stdout E s ps)).
Proof.
  unfold write_stdout. destruct (touch_log E s) as (Hl & _).
  eapply ext_trans; [apply (ext_same s (touch E s)); auto|].
  eapply ext_trans; [apply (ext_add_log _ (EvWrite WStdout (concat ps))); exact I|].
  apply ext_same. destruct (e_mode E); cbv beta iota.
  - destruct (write_pieces_direct _ _). cbn. auto.
  - destruct (write_pieces_direct _ _). cbn. auto.
  - destruct (write_pieces_buf _ _ _ _) as [[? ?] ?]. cbn. auto.
Qed.

Lemma write_stdout_rec_ext E s rec : ext s (fst (write_stdout_rec E s rec)).
Proof.
  unfold write_stdout_rec. destruct (e_mode E) eqn:Em; try apply write_stdout_ext.
  destruct (cap <? scratch_size)%nat; [|apply write_stdout_ext].
  destruct (touch_log E s) as (Hl & _).
  eapply ext_trans; [apply (ext_same s (touch E s)); auto|].
  eapply ext_trans; [apply (ext_add_log _ (EvWrite WStdout rec)); exact I|].
  apply ext_same. destruct (write_chunks_buf _ _ _ _) as [[? ?] ?]. cbn. auto.
Qed.

Lemma child_out_ext E s cg data : ext s (fst (child_out E s cg data)).
Proof.
  unfold child_out. destruct data as [|b d]; [apply ext_refl|].
  eapply ext_trans; [apply (ext_add_log _ (EvChildOut (b :: d))); exact I|].
  apply ext_same. destruct (e_mode E); cbv beta iota.
  - destruct (sink_write _ _) as [[? ?] ?]. cbn. auto.
  - destruct cg; cbn [fst]; auto. destruct (sink_write _ _) as [[? ?] ?]. cbn [fst set_out st_log]. auto.
  - destruct cg; cbn [fst set_unmod st_log]; auto. match goal with |- context [if ?c then set_unmod ?x else ?x] => destruct c end; destruct (bw_write _ _ _ _) as [[? ?] ?]; cbn [fst set_out st_log set_unmod]; auto.
Qed.

Lemma child_eof_ext E s cg : ext s (fst (child_eof E s cg)).
Proof. apply ext_refl. Qed.

Lemma start_proc_ext E s c : flushed E s -> ext s (fst (start_proc E s c)).
Proof.
  intros Hf. unfold start_proc. cbn [fst].
  assert (Hs : start_ok (EvStart c (stdout_pending E s) (bw_err (st_out s)))).
  { unfold start_ok, stdout_pending, flushed in *. destruct (e_mode E); auto. destruct Hf as [-> | ->]; auto. }
  eapply ext_trans; [apply (ext_add_log _ _ Hs)|].
  destruct (c_sink (e_spec E c)); [|apply ext_refl].
  eapply ext_trans; [|apply ext_add_log; exact I]. apply ext_same. auto.
Qed.

Lemma set_unmod_if'_ext (b : bool) s : ext s (if b then s else set_unmod s).
Proof. destruct b; [apply ext_refl|apply ext_same; auto]. Qed.

Lemma deliver_ext E s n o data : ext s (fst (deliver E s n o data)).
Proof.
  unfold deliver. destruct data as [|b d]; [apply ext_refl|].
  destruct (os_kind o).
  - destruct (os_off o); apply ext_same; auto.
  - destruct (c_drain (e_spec E n)); [|cbn [fst]; apply set_unmod_if'_ext].
    set (s1 := match c_sink (e_spec E n) with Some t => _ | None => s end).
    assert (H1 : ext s s1) by (subst s1; destruct (c_sink (e_spec E n)); [apply ext_same; auto|apply ext_refl]).
    destruct (c_echo (e_spec E n)); auto.
    pose proof (child_out_ext E s1 (os_cgfail o) (b :: d)) as H2.
    destruct (child_out E s1 _ _) as [s2 ok]. cbn [fst] in *. eapply ext_trans; eauto.
Qed.

Lemma flush_ostream_ext E s n o : ext s (fst (flush_ostream E s n o)).
Proof.
  unfold flush_ostream. pose proof (deliver_ext E s n o (os_buf o)) as H.
  destruct (deliver _ _ _ _ _). auto.
Qed.

Lemma write_ostream_ext E s n o p : ext s (fst (write_ostream E s n o p)).
Proof.
  unfold write_ostream. destruct (buf_bytes _ _ _) as [f r].
  pose proof (deliver_ext E s n o f) as H. destruct (deliver _ _ _ _ _). auto.
Qed.

Lemma flush_named_ext E s n o : ext s (flush_named E s n o).
Proof.
  unfold flush_named. pose proof (flush_ostream_ext E s n o) as H.
  destruct (flush_ostream _ _ _ _) as [s1 o1]. cbn [fst] in H. cbv zeta.
  apply (ext_trans _ s1); auto. apply (ext_trans _ (set_outs s1 (aset n o1 (st_outs s1)))); [apply ext_same; auto|].
  destruct (os_err o1); [apply ext_same; apply flush_stdout_log|apply ext_refl].
Qed.

Lemma flush_streams_ext E ns : forall s, ext s (flush_streams E s ns).
Proof.
  induction ns as [|n ns IH]; intros s; cbn [flush_streams]; [apply ext_refl|].
  destruct (alookup n (st_outs s)); auto. eapply ext_trans; [apply flush_named_ext|apply IH].
Qed.

Lemma flush_all_ext E s : ext s (fst (flush_all E s)) /\ flushed E (fst (flush_all E s)).
Proof.
  unfold flush_all. set (s1 := flush_streams E s _).
  assert (H1 : ext s s1) by apply flush_streams_ext.
  destruct (flush_stdout_log E s1) as (Hl & Hf). destruct (flush_stdout E s1) as [s2 [|]]; cbn [fst] in *.
  - split; auto. eapply ext_trans; eauto. apply ext_same; auto.
  - unfold print_errorf. destruct (flush_stdout_log E s2) as (Hl2 & Hf2). split; auto.
    eapply ext_trans; eauto. apply ext_same. congruence.
Qed.

Lemma close_ostream_ext E s n o : ext s (fst (fst (close_ostream E s n o))).
Proof.
  unfold close_ostream. pose proof (flush_ostream_ext E s n o) as H.
  destruct (flush_ostream _ _ _ _) as [s1 o1]. cbn [fst] in H. destruct (os_kind o1); auto.
  pose proof (child_eof_ext E s1 (os_cgfail o1)) as H2. destruct (child_eof _ _ _) as [s2 ok].
  destruct (wait_result _ _). cbn [fst] in *. eapply ext_trans; eauto.
Qed.

Lemma close_streams_ext E ns : forall s, ext s (close_streams E s ns).
Proof.
  induction ns as [|n ns IH]; intros s; cbn [close_streams]; [apply ext_refl|].
  destruct (alookup n (st_outs s)) as [o|]; auto.
  pose proof (close_ostream_ext E (set_outs s (aremove n (st_outs s))) n o) as H.
  destruct (close_ostream _ _ _ _) as [[s1 code] err]. cbn [fst] in H.
  eapply ext_trans; [|apply IH]. eapply ext_trans; [|apply ext_add_log; exact I].
  eapply ext_trans; eauto. apply ext_same; auto.
Qed.

Lemma close_all_ext E s : ext s (close_all E s).
Proof.
  unfold close_all, flush_out_err.
  eapply ext_trans; [|apply ext_same; apply flush_stdout_log].
  eapply ext_trans; [|apply close_streams_ext]. apply ext_same; auto.
Qed.

Lemma set_unmod_if_ext (b : bool) s : ext s (if b then set_unmod s else s).
Proof. destruct b; [apply ext_same; auto|apply ext_refl]. Qed.

Lemma get_output_stream_ext E s d : ext s (fst (get_output_stream E s d)).
Proof.
  unfold get_output_stream. destruct d as [| | |r n]; try apply ext_refl.
  - apply ext_same. apply flush_stdout_log.
  - destruct (amem n (st_ins s)); [apply ext_refl|]. destruct (amem n (st_outs s)); [apply ext_refl|].
    destruct (flush_stdout_log E s) as (Hl & Hf). fold (flush_out_err E s) in Hl, Hf. set (s1 := flush_out_err E s) in *.
    assert (H1 : ext s s1) by (apply ext_same; auto).
    destruct r.
    + destruct (e_bad E n); cbn [fst]; auto. eapply ext_trans; eauto.
      eapply ext_trans; [|apply ext_same; reflexivity]. eapply ext_trans; [|apply ext_add_log; exact I]. apply ext_same; auto.
    + destruct (e_bad E n); cbn [fst]; auto. eapply ext_trans; eauto.
      eapply ext_trans; [|apply ext_same; reflexivity]. eapply ext_trans; [|apply ext_add_log; exact I]. apply ext_same; auto.
    + match goal with |- context [if ?c then set_unmod s1 else s1] => set (s2 := if c then set_unmod s1 else s1) end.
      assert (H2 : ext s1 s2) by apply set_unmod_if_ext.
      assert (Hf2 : flushed E (add_log s2 (EvOpen n KCmd false))).
      { unfold flushed in *. subst s2. match goal with |- context [if ?c then set_unmod s1 else s1] => destruct c end; cbn; auto. }
      pose proof (start_proc_ext E _ n Hf2) as H3. destruct (start_proc E _ n) as [s4 cg]. cbn [fst] in H3.
      pose proof (child_out_ext E s4 cg (c_stdout (e_spec E n))) as H4. destruct (child_out E s4 cg _) as [s5 ok]. cbn [fst] in *.
      apply (ext_trans _ s1); auto. apply (ext_trans _ s2); auto.
      apply (ext_trans _ (add_log s2 (EvOpen n KCmd false))); [apply ext_add_log; exact I|].
      apply (ext_trans _ s4); auto. apply (ext_trans _ s5); auto.
      eapply ext_trans; [apply set_unmod_if_ext|]. apply ext_same. reflexivity.
Qed.

Lemma scan_stream_ext s n i : ext s (scan_stream s n i).
Proof. unfold scan_stream. destruct (is_rest i); [apply ext_same; auto|]. destruct (scan_line _ _). apply ext_same; auto. Qed.

Lemma if_print_errorf_ext E (b : bool) s : ext s (if b then print_errorf E s else s).
Proof. destruct b; [apply ext_same; apply flush_stdout_log|apply ext_refl]. Qed.

Lemma getline_file_ext E s n : ext s (fst (getline_file E s n)).
Proof.
  unfold getline_file. set (s0 := if sink_busy E s n then set_unmod s else s).
  assert (H0 : ext s s0) by (subst s0; apply set_unmod_if_ext). clearbody s0.
  apply (ext_trans _ s0); auto.
  destruct (amem n (st_outs s0)); [apply ext_refl|].
  destruct (alookup n (st_ins s0)) as [i|]; cbn [fst]; [apply scan_stream_ext|].
  destruct (alookup n (st_fs s0)); cbn [fst]; [|apply ext_same; auto].
  eapply ext_trans; [|apply scan_stream_ext]. apply ext_same; auto.
Qed.

Lemma step_print_ext E s d ps wr : (forall s1, ext s1 (fst (wr s1))) -> ext s (fst (step_print E s d ps wr)).
Proof.
  intros Hwr. unfold step_print.
  pose proof (get_output_stream_ext E s d) as H1. destruct (get_output_stream E s d) as [s1 [[|n]|]]; cbn [fst] in *; auto.
    + pose proof (Hwr s1) as H2. destruct (wr s1) as [s2 [|]]; cbn [fst] in *; eapply ext_trans; eauto.
    + destruct (alookup n (st_outs s1)) as [os|]; cbn [fst]; auto.
      set (s1' := add_log s1 _). pose proof (write_ostream_ext E s1' n os (concat ps)) as H2.
      destruct (write_ostream _ _ _ _ _) as [s2 os']. cbn [fst] in *.
      apply (ext_trans _ s1); auto. apply (ext_trans _ s1'); [subst s1'; apply ext_add_log; destruct (os_kind os); exact I|].
      apply (ext_trans _ s2); auto. apply ext_same; auto.
Qed.

Lemma step_ext E s o : ext s (fst (step E s o)).
Proof.
  destruct o as [d ps|n|[n|]|c|n|c| |code| |n|d rec]; cbn [step].
  - apply step_print_ext. intros s1. apply write_stdout_ext.
  - destruct (alookup n (st_ins s)) as [i|].
    + destruct (if is_cmd i then _ else _) as [code err]. cbn [fst].
      eapply ext_trans; [|apply ext_same; reflexivity]. eapply ext_trans; [|apply if_print_errorf_ext].
      eapply ext_trans; [|apply ext_add_log; exact I]. apply ext_same; auto.
    + destruct (alookup n (st_outs s)) as [os|]; [|apply ext_same; auto].
      pose proof (close_ostream_ext E (set_outs s (aremove n (st_outs s))) n os) as H.
      destruct (close_ostream _ _ _ _) as [[s1 code] err]. cbn [fst] in *.
      eapply ext_trans; [|apply ext_same; reflexivity]. eapply ext_trans; [|apply if_print_errorf_ext].
      eapply ext_trans; [|apply ext_add_log; exact I]. eapply ext_trans; eauto. apply ext_same; auto.
  - destruct (alookup n (st_outs s)) as [os|]; cbn [fst].
    + apply (ext_trans _ (flush_named E s n os)); [apply flush_named_ext|apply ext_same; auto].
    + apply (ext_trans _ (print_errorf E s)); [apply (if_print_errorf_ext E true)|apply ext_same; auto].
  - destruct (flush_all_ext E s) as (H & _). destruct (flush_all E s) as [s1 ok]. cbn [fst] in *.
    eapply ext_trans; eauto. apply ext_same; auto.
  - destruct (flush_all_ext E s) as (H & Hf). destruct (flush_all E s) as [s1 ok]. cbn [fst] in *.
    pose proof (start_proc_ext E s1 c Hf) as H2. destruct (start_proc E s1 c) as [s2 cg]. cbn [fst] in *.
    pose proof (child_out_ext E s2 cg (c_stdout (e_spec E c))) as H3. destruct (child_out E s2 cg _) as [s3 ok3]. cbn [fst] in *.
    pose proof (child_eof_ext E s3 (negb ok3)) as H4. destruct (child_eof E s3 _) as [s4 ok4]. cbn [fst] in *.
    destruct (wait_result _ _) as [code err]. cbn [fst].
    apply (ext_trans _ s1); auto. apply (ext_trans _ s2); auto. apply (ext_trans _ s3); auto. apply (ext_trans _ s4); auto.
    apply (ext_trans _ (if err then print_errorf E s4 else s4)); [apply if_print_errorf_ext|apply ext_same; auto].
  - apply getline_file_ext.
  - destruct (amem c (st_outs s)); [apply ext_refl|].
    destruct (alookup c (st_ins s)) as [i|]; cbn [fst]; [apply scan_stream_ext|].
    destruct (flush_stdout_log E s) as (Hl & Hf). fold (flush_out_err E s) in Hl, Hf.
    pose proof (start_proc_ext E _ c Hf) as H2. destruct (start_proc E _ c) as [s2 cg]. cbn [fst] in *.
    eapply ext_trans; [apply ext_same; exact Hl|]. eapply ext_trans; eauto.
    eapply ext_trans; [|apply scan_stream_ext]. apply ext_same; auto.
  - cbn [fst]. apply ext_same. cbn. apply flush_stdout_log.
  - apply ext_refl.
  - apply ext_refl.
  - destruct (amem n (st_outs s)); [apply ext_refl|].
    destruct (negb (amem n (st_ins s)) && negb (amem n (st_fs s))); [apply ext_same; auto|].
    apply (ext_trans _ (add_synced s n)); [apply ext_same; auto|apply getline_file_ext].
  - apply step_print_ext. intros s1. apply write_stdout_rec_ext.
Qed.

Lemma exec_ext E ops : forall s, ext s (fst (exec E s ops)).
Proof.
  induction ops as [|o ops IH]; intros s; cbn [exec]; [apply ext_refl|].
  pose proof (step_ext E s o) as H. destruct (step E s o) as [s1 [| |]]; cbn [fst] in *; auto.
  eapply ext_trans; eauto.
Qed.

(* flush_before_child: in every history, with or without a failing writer,
   every process (system, print | cmd, cmd | getline) is started when goawk
   holds no byte of standard output that could still be delivered: either its
   buffer is empty or the writer has already failed for good.  So what a child
   writes can never overtake what the program printed before starting it. *)
Theorem flush_before_child E s0 ops s r :
  Forall start_ok (st_log s0) -> run E s0 ops = (s, r) -> Forall start_ok (st_log s).
Proof.
  intros H0. unfold run. pose proof (exec_ext E ops s0) as H. destruct (exec E s0 ops) as [s1 r1]. cbn [fst] in H.
  intros HH; injection HH as <- <-. eapply ext_ok; [|eauto]. eapply ext_trans; eauto. apply close_all_ext.
Qed.
