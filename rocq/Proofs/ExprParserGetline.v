(* C04 — `expr | getline`: the command is everything down to the ||-level to the left of the bar
   (in particular a whole concatenation), the result is an operand of the enclosing assignment. *)
From Verif Require Import Lib.Base Model.ExprAst Model.ExprParser Proofs.ExprParserMono Proofs.ExprParserRel
  Proofs.PrecSpec Proofs.ExprParserPrinted Proofs.ExprParserMin.
Local Open Scope nat_scope.

(* p_lv l = p_lv (higher l) ; after l, with a pending getline command handed down *)
Lemma parses_step_pend l pc pend ts e ts' R :
  l <> LPrimary -> l <> LGetline ->
  Parses (higher pc l) pc pend ts (e, ts') -> Afters l pc e ts' R -> Parses l pc pend ts R.
Proof.
  intros Hl Hg [n1 H1] [n2 H2]. exists (S (Nat.max n1 n2)).
  eapply p_lv_mono with (m := Nat.max n1 n2) in H1; [|lia].
  eapply after_mono with (m := Nat.max n1 n2) in H2; [|lia].
  destruct l; try congruence; cbn [p_lv higher] in *; rewrite H1; cbn [pbind]; exact H2.
Qed.

(* the second cond() call of getline(): primary() consumes "| getline", every level above stops *)
Lemma pend_tower cmd r :
  tok_cont false (hd_tok r) = 0 ->
  Parses LCond false (Some cmd) (TPipe :: TGetline :: r) (EGetline (Some cmd) None None, r).
Proof.
  intros Hz.
  assert (HP : Parses LPrimary false (Some cmd) (TPipe :: TGetline :: r) (EGetline (Some cmd) None None, r)).
  { exists 3. cbn [p_lv primary opt_lvalue].
    destruct r as [|t r']; [reflexivity|]. destruct t; cbn in Hz; try lia; reflexivity. }
  assert (St : forall l, 2 <= rk l -> Afters l false (EGetline (Some cmd) None None) r (EGetline (Some cmd) None None, r)).
  { intros l Hl. apply afters_stop; [rewrite Hz; lia | reflexivity]. }
  repeat (eapply parses_step_pend; [congruence | congruence | cbn [higher] | apply St; cbn; lia]).
  exact HP.
Qed.

Lemma aft_getline e ts R : Parses LCond false (Some e) (TPipe :: ts) R -> Afters LGetline false e (TPipe :: ts) R.
Proof. intros [n H]. exists (S n). exact H. Qed.

Lemma par_req_irrelevant fl pe req req' e : req <= tlevel e -> req' <= tlevel e -> par fl pe req e = par fl pe req' e.
Proof.
  intros H1 H2. unfold par.
  rewrite (proj2 (Nat.ltb_ge _ _) H1), (proj2 (Nat.ltb_ge _ _) H2). reflexivity.
Qed.

Theorem getline_binds_looser : forall e rest,
  wf e -> 3 <= tlevel e -> tok_cont false (hd_tok rest) = 0 ->
  exists n0, forall n, n0 <= n ->
    p_lv n LExpr false None (pp_min false e ++ TPipe :: TGetline :: rest)
    = POk (EGetline (Some (par false false 0 e)) None None, rest).
Proof.
  intros e rest Hwf Hlv Hz.
  assert (HP : Parses LExpr false None (pp_min false e ++ TPipe :: TGetline :: rest)
                 (EGetline (Some (par false false 0 e)) None None, rest)).
  { unfold pp_min. rewrite (par_req_irrelevant false false 0 3 e) by lia.
    eapply parses_step; [congruence | | apply afters_stop; [rewrite Hz; cbn; lia | congruence]].
    cbn [higher].
    eapply parses_step; [congruence | | apply aft_getline; apply pend_tower; exact Hz].
    cbn [higher].
    apply (M_closed _ (proj1 (parse_printed_all _)) LCond false); try discriminate.
    - eapply fits_mono; [apply (fits_par e (fits_pnode e) Hwf false false false 3); auto | cbn; lia].
    - apply ok_par; [exact Hwf | cbn; lia].
    - cbn. lia. }
  destruct HP as [n0 HP]. exists n0. intros n Hn. eapply p_lv_mono; eassumption.
Qed.
