(* C11: end-to-end range theorem: the one-rule program  "p1, p2"  (no action) with side-effect-free
   patterns prints exactly the segments selected by range_select over the records the loop reads. *)
From Verif Require Import Lib.Base Model.Input Proofs.Input Proofs.InputLift Proofs.InputHist Proofs.InputCtl Proofs.InputMain.

(* [s'] is reached from [s]; the records handed out in between are [rs] *)
Definition delivers (s s' : st) (rs : list record) : Prop :=
  exists new, log s' = new ++ log s /\ map snd (delivered (rev new)) = rs.

Lemma delivered_app a b : delivered (a ++ b) = delivered a ++ delivered b.
Proof. unfold delivered. apply flat_map_app. Qed.

Lemma delivers_refl s : delivers s s [].
Proof. exists []. split; reflexivity. Qed.

Lemma delivers_trans a b c r1 r2 : delivers a b r1 -> delivers b c r2 -> delivers a c (r1 ++ r2).
Proof.
  intros (n1 & L1 & D1) (n2 & L2 & D2). exists (n2 ++ n1). split.
  - rewrite L2, L1, app_assoc. reflexivity.
  - rewrite rev_app_distr, delivered_app, map_app, D1, D2. reflexivity.
Qed.

Lemma delivers_nil_l a b c r : delivers a b [] -> delivers b c r -> delivers a c r.
Proof. intros H1 H2. change r with ([] ++ r). eapply delivers_trans; eassumption. Qed.

Lemma delivers_same s s' : log s' = log s -> delivers s s' [].
Proof. intros H. exists []. split; [exact H|reflexivity]. Qed.

Lemma delivers_one s s' v : log s' = v :: log s -> delivers s s' (map snd (delivered [v])).
Proof. intros H. exists [v]. split; [exact H|reflexivity]. Qed.

Lemma deliver_delivers name r rest s res s' : deliver name r rest s = (res, s') -> res = NLRec r /\ delivers s s' [r].
Proof. unfold deliver. intros H. injection H as <- <-. split; [reflexivity|]. apply (delivers_one _ _ (EvRec name r)). reflexivity. Qed.

Definition recs_of_res (res : nlres) : list record := match res with NLRec r => [r] | _ => [] end.

Lemma walk_delivers e : forall n s res s', walk e n s = (res, s') -> delivers s s' (recs_of_res res).
Proof.
  assert (Hsf : forall name s, delivers s (set_file name s) []).
  { intros name s. apply (delivers_one _ _ (EvSetFile name)). reflexivity. }
  induction n as [|n IH]; intros s res s' Hw; cbn [walk] in Hw.
  - destruct ((argc s <=? idx s) && negb (had s)).
    + destruct (stdin (set_file b_dash s)).
      * injection Hw as <- <-. apply Hsf.
      * apply deliver_delivers in Hw as [-> Hd]. cbn [recs_of_res].
        eapply delivers_nil_l; [apply Hsf|].
        eapply delivers_nil_l; [|exact Hd]. apply delivers_same. reflexivity.
    + destruct (argc s <=? idx s); injection Hw as <- <-; apply delivers_refl.
  - destruct ((argc s <=? idx s) && negb (had s)).
    + destruct (stdin (set_file b_dash s)).
      * injection Hw as <- <-. apply Hsf.
      * apply deliver_delivers in Hw as [-> Hd]. cbn [recs_of_res].
        eapply delivers_nil_l; [apply Hsf|].
        eapply delivers_nil_l; [|exact Hd]. apply delivers_same. reflexivity.
    + destruct (argc s <=? idx s). { injection Hw as <- <-; apply delivers_refl. }
      cbn zeta in Hw.
      assert (H1 : delivers s (set_idx (idx s + 1) s) []) by (apply delivers_same; reflexivity).
      destruct (if noargvars e then None else parse_assign (argv_get s (idx s))) as [[v raw]|].
      { destruct (unescape raw) as [uv| |].
        - destruct (set_var_by_name e v uv (set_idx (idx s + 1) s)) as [s2|] eqn:Hsv.
          + apply IH in Hw. apply set_var_by_name_some in Hsv as (_ & _ & _ & _ & _ & _ & _ & HL & _).
            eapply delivers_nil_l; [exact H1|].
            eapply delivers_nil_l; [|exact Hw].
            apply (delivers_one _ _ (EvAssign v uv)). sst. rewrite HL. reflexivity.
          + injection Hw as <- <-. exact H1.
        - destruct (set_var_by_name e v raw (set_idx (idx s + 1) s)) as [s2|] eqn:Hsv.
          + apply IH in Hw. apply set_var_by_name_some in Hsv as (_ & _ & _ & _ & _ & _ & _ & HL & _).
            eapply delivers_nil_l; [exact H1|].
            eapply delivers_nil_l; [|exact Hw].
            apply (delivers_one _ _ (EvAssign v raw)). sst. rewrite HL. reflexivity.
          + injection Hw as <- <-. exact H1.
        - injection Hw as <- <-. exact H1. }
      destruct (argv_get s (idx s)) as [|c0 nm].
      { apply IH in Hw. eapply delivers_nil_l; eassumption. }
      destruct (bytes_eqb (c0 :: nm) b_dash).
      { destruct (stdin (set_file b_dash (set_idx (idx s + 1) s))).
        - apply IH in Hw. eapply delivers_nil_l; [exact H1|].
          eapply delivers_nil_l; [apply Hsf|exact Hw].
        - apply deliver_delivers in Hw as [-> Hd]. cbn [recs_of_res].
          eapply delivers_nil_l; [exact H1|].
          eapply delivers_nil_l; [apply Hsf|].
          eapply delivers_nil_l; [|exact Hd]. apply delivers_same. reflexivity. }
      destruct (blookup (fs e) (c0 :: nm)) as [[|r0 rest]|].
      * apply IH in Hw. eapply delivers_nil_l; [exact H1|].
        eapply delivers_nil_l; [apply Hsf|exact Hw].
      * apply deliver_delivers in Hw as [-> Hd]. cbn [recs_of_res].
        eapply delivers_nil_l; [exact H1|].
        eapply delivers_nil_l; [apply Hsf|exact Hd].
      * injection Hw as <- <-. cbn [recs_of_res]. eapply delivers_nil_l; [exact H1|]. apply (delivers_one _ _ (EvNoFile (c0 :: nm))). reflexivity.
Qed.

Lemma next_line_delivers e s res s' : next_line e s = (res, s') -> delivers s s' (recs_of_res res).
Proof.
  unfold next_line. intros H.
  destruct (cur s) as [[name [|r rest]]|].
  - apply walk_delivers in H. eapply delivers_nil_l; [|exact H]. apply delivers_same. reflexivity.
  - apply deliver_delivers in H as [-> Hd]. exact Hd.
  - apply walk_delivers in H. eapply delivers_nil_l; [|exact H]. apply delivers_same. reflexivity.
Qed.

(* the records whose flag is set *)
Fixpoint select (bs : list bool) (recs : list record) : list record :=
  match bs, recs with
  | b :: bs', r :: recs' => if b then r :: select bs' recs' else select bs' recs'
  | _, _ => []
  end.

Section RangeProgram.
  Variable U : Type.
  Variable step : U -> st -> req * U.
  Variable enter : blk -> U -> U.
  Variable e : env.
  Variable fuel : nat.
  Variables p1 p2 : record -> bool.
  Hypothesis Hp1 : pure_pat U step enter e fuel (BPat 0 false) p1.
  Hypothesis Hp2 : pure_pat U step enter e fuel (BPat 0 true) p2.

  (* the program  p1, p2  (no action): the main loop prints exactly the records selected by
     range_select among the records it reads, in order, and reads every record nextLine hands out *)
  Theorem range_program_prints : forall n f u s u' s' fl',
    main_loop U step enter e fuel n [mkRule PRange false] [f] u s = LCont u' s' fl' ->
    exists recs, delivers s s' recs /\
      out s' = rev (map OPrint (select (range_select p1 p2 f recs) recs)) ++ out s.
  Proof.
    induction n as [|n IH]; intros f u s u' s' fl' H; [discriminate|].
    rewrite main_loop_unfold in H.
    destruct (next_line e s) as [res s1] eqn:HN.
    pose proof (next_line_delivers _ _ _ _ HN) as HD.
    pose proof (next_line_frame _ _ _ _ HN) as (_ & _ & Hout & _).
    destruct res as [r| | | |]; try discriminate.
    - cbn [exec_rules] in H.
      destruct (eval_pat_range U step enter e fuel (mkRule PRange false) 0 f u (set_line e r s1) p1 p2 eq_refl Hp1 Hp2) as [u1 HE].
      rewrite HE in H. cbn [has_body negb] in H.
      assert (Hl : line (set_line e r s1) = r) by reflexivity. rewrite Hl in H.
      destruct (range_step (p1 r) (p2 r) f) as [m f'] eqn:HR. cbn [fst snd] in H.
      destruct m; cbn [negb rev app] in H.
      + apply IH in H as (recs & HD2 & HO). exists (r :: recs). split.
        * change (r :: recs) with ([r] ++ recs). eapply delivers_trans; [exact HD|].
          destruct HD2 as (new & HL & HDl). exists new. split; [exact HL|exact HDl].
        * rewrite HO. cbn [range_select]. rewrite HR. cbn [select map rev]. sst. rewrite Hout, <- app_assoc. reflexivity.
      + apply IH in H as (recs & HD2 & HO). exists (r :: recs). split.
        * change (r :: recs) with ([r] ++ recs). eapply delivers_trans; [exact HD|].
          destruct HD2 as (new & HL & HDl). exists new. split; [exact HL|exact HDl].
        * rewrite HO. cbn [range_select]. rewrite HR. cbn [select]. sst. rewrite Hout. reflexivity.
    - injection H as _ <- _. exists []. split; [exact HD|]. cbn [range_select select map rev app]. exact Hout.
  Qed.
End RangeProgram.
