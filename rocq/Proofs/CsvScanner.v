(* C08: the buffer-level model of bufio.Scanner ([read_csv]: what the harness runs against the
   implementation) delivers exactly the events of the splitter run over the whole input
   ([read_file]) - for every chunking - when the input is shorter than half the buffer (goawk: 64 KiB buffer, so inputs below 32 KiB; then the Scanner
   neither compacts nor grows its buffer; those paths are covered by correspondence only). *)
From Verif Require Import Lib.Base Lib.Utf8 Model.Csv Proofs.CsvBase Proofs.CsvFuel
  Proofs.CsvAccount Proofs.CsvRoundtrip Proofs.CsvChunks.
From Coq Require Import ZifyBool.

Ltac Zify.zify_post_hook ::= Z.div_mod_to_equations.

Lemma zdrop_zdrop {A} a b (l : list A) : 0 <= a -> 0 <= b -> zdrop b (zdrop a l) = zdrop (a + b) l.
Proof.
  intros Ha Hb. unfold zdrop. replace (Z.to_nat (a + b)) with (Z.to_nat a + Z.to_nat b)%nat by lia.
  generalize (Z.to_nat a) as n. generalize (Z.to_nat b) as m. clear. intros m n. revert l.
  induction n as [|n IH]; intros l; [reflexivity|]. destruct l as [|x l]; [destruct m; reflexivity|].
  cbn [skipn Nat.add]. apply IH.
Qed.

Section Sim.
Variable c : csv_cfg.
Hypothesis Hsep : valid_sep (c_sep c).
Variable maxtok : Z.

(* what lies behind the data does not matter to a call: "$0 is the record's own text" *)
Lemma scan_behind_irrelevant s data stale nz stale' nz' e : 0 <= nz -> 0 <= nz' ->
  scan c s data stale nz e = scan c s data stale' nz' e.
Proof.
  intros Hnz Hnz'. rewrite !scan_unfold. pose proof (bdy_len s data) as [HBA HA].
  set (B := bdy s data) in *. set (A := a0 s data) in *.
  destruct (e && (zlen B =? 0)); [reflexivity|].
  destruct (skip_lines c e (S (length B)) B A A) as [| |line d adv1 skip1] eqn:Sk; try reflexivity.
  pose proof (skip_acct c e _ _ _ _ _ _ _ _ Sk) as (_ & Sa & S1 & S2).
  destruct (parse_field c e (S (length B)) line d adv1 [] false) as [|adv' fields cr|] eqn:P; try reflexivity.
  destruct (proj1 (parse_acct c e Hsep _) _ _ _ _ _ _ _ _ P) as (dF & [pre Ps] & Pa).
  assert (Hle : zlen dF <= zlen d) by (rewrite Ps; zl; pose proof (zlen_nonneg pre); lia).
  pose proof (zlen_nonneg dF). pose proof (zlen_nonneg line).
  destruct ((st_row s =? 0) && c_header c); [reflexivity|].
  rewrite !slice_cap_inside by lia. reflexivity.
Qed.

(* ---- the whole-input reader, with its fuel out of the way -------------------- *)

Lemma read_all_fuel : forall f f' s data,
  (length data < f)%nat -> (length data < f')%nat -> read_all f c s data = read_all f' c s data.
Proof.
  induction f as [|f IH]; intros f' s data Hf Hf'; [lia|]. destruct f' as [|f']; [lia|].
  cbn [read_all]. destruct (scan c s data [] 0 true) as [s' o] eqn:Sc.
  destruct o as [|adv names|adv tok fields| |]; try reflexivity.
  - destruct (scan_decided_facts c s data [] 0 true s' _ Hsep Sc I) as (Ha & Hnb & _).
    cbn [out_adv] in Ha. f_equal. apply IH;
      rewrite length_zdrop by lia; unfold zlen in *; lia.
  - destruct (scan_decided_facts c s data [] 0 true s' _ Hsep Sc I) as (Ha & Hnb & _).
    cbn [out_adv] in Ha. f_equal. apply IH;
      rewrite length_zdrop by lia; unfold zlen in *; lia.
Qed.

Definition RA (s : csv_st) (data : bytes) : list event := read_all (S (length data)) c s data.

Lemma RA_unfold s data :
  RA s data = match scan c s data [] 0 true with
              | (s', ORecord adv tok fields) => ERecord tok fields :: RA s' (zdrop adv data)
              | (s', OHeader adv names) => EHeader names :: RA s' (zdrop adv data)
              | _ => []
              end.
Proof.
  unfold RA at 1. cbn [read_all]. destruct (scan c s data [] 0 true) as [s' o] eqn:Sc.
  destruct o as [|adv names|adv tok fields| |]; try reflexivity.
  - destruct (scan_decided_facts c s data [] 0 true s' _ Hsep Sc I) as (Ha & Hnb & _).
    cbn [out_adv] in Ha. f_equal. unfold RA. apply read_all_fuel;
      rewrite ?length_zdrop by lia; unfold zlen in *; lia.
  - destruct (scan_decided_facts c s data [] 0 true s' _ Hsep Sc I) as (Ha & Hnb & _).
    cbn [out_adv] in Ha. f_equal. unfold RA. apply read_all_fuel;
      rewrite ?length_zdrop by lia; unfold zlen in *; lia.
Qed.

Lemma RA_nil s : RA s [] = [].
Proof. unfold RA. apply read_all_nil. Qed.

Definition ev_of (o : scan_out) : list event :=
  match o with
  | ORecord _ tok fields => [ERecord tok fields]
  | OHeader _ names => [EHeader names]
  | _ => []
  end.

(* a row decided by any call (before or at EOF, any buffer behind the data) is the first event
   of the whole-input reader, which then continues behind it *)
Lemma RA_decided s pend rest stale nz e s' o : 0 <= nz ->
  (e = true -> rest = []) ->
  scan c s pend stale nz e = (s', o) -> decided o ->
  RA s (pend ++ rest) = ev_of o ++ RA s' (zdrop (out_adv o) pend ++ rest).
Proof.
  intros Hnz He Sc Hd.
  destruct (scan_decided_facts c s pend stale nz e s' o Hsep Sc Hd) as (Ha & _).
  rewrite RA_unfold.
  assert (E : scan c s (pend ++ rest) [] 0 true = (s', o)).
  { destruct e.
    - rewrite (He eq_refl), app_nil_r in *. rewrite <- Sc. apply scan_behind_irrelevant; auto; lia.
    - rewrite <- Sc. apply scan_stable; auto; try lia. rewrite Sc. exact Hd. }
  rewrite E. destruct o; try contradiction; cbn [ev_of out_adv app] in *;
    rewrite zdrop_app_le by lia; reflexivity.
Qed.

(* ---- the Scanner with room to spare ------------------------------------------- *)

Definition pend (s : scanner) : bytes := zdrop (sc_start s) (sc_hw s).
Definition whole (s : scanner) : bytes := pend s ++ concat (sc_chunks s).

Record sinv (s : scanner) : Prop := {
  i_start : 0 <= sc_start s <= sc_end s;
  i_end : sc_end s = zlen (sc_hw s);
  i_cap : 2 * (zlen (sc_hw s) + zlen (concat (sc_chunks s))) < sc_cap s;
}.

Lemma zlen_pend s : sinv s -> zlen (pend s) = sc_end s - sc_start s.
Proof. intros [H1 H2 _]. unfold pend. rewrite zlen_zdrop by lia. lia. Qed.

Lemma data_is_pend s : sinv s -> ztake (sc_end s - sc_start s) (zdrop (sc_start s) (sc_hw s)) = pend s.
Proof. intros H. apply ztake_all. fold (pend s). rewrite zlen_pend by exact H. lia. Qed.

Lemma stale_nil s : sinv s -> zdrop (sc_end s) (sc_hw s) = [].
Proof. intros [_ H2 _]. apply zdrop_all. lia. Qed.

Lemma write_at_end hw b : write_at hw (zlen hw) b = hw ++ b.
Proof.
  unfold write_at. replace (Z.to_nat (zlen hw - zlen hw)) with 0%nat by lia. cbn [repeat].
  rewrite app_nil_r. rewrite ztake_all by lia. rewrite zdrop_all by (pose proof (zlen_nonneg b); lia).
  rewrite app_nil_r. reflexivity.
Qed.

(* one more read: no compaction, no growth, the whole chunk fits *)
Lemma refill_simple s : sinv s -> sc_eof s = false ->
  refill maxtok s =
    Some match sc_chunks s with
         | [] => mkScanner (sc_hw s) (sc_cap s) (sc_start s) (sc_end s) true (sc_empties s) [] (sc_split s)
         | ch :: rest => mkScanner (sc_hw s ++ ch) (sc_cap s) (sc_start s) (sc_end s + zlen ch) false 0
                                   rest (sc_split s)
         end.
Proof.
  intros [H1 H2 H3] He. unfold refill.
  pose proof (zlen_nonneg (sc_hw s)). pose proof (zlen_nonneg (concat (sc_chunks s))).
  replace ((0 <? sc_start s) && ((sc_end s =? sc_cap s) || (sc_cap s / 2 <? sc_start s))) with false by lia.
  replace (sc_end s =? sc_cap s) with false by lia.
  destruct (sc_chunks s) as [|ch rest] eqn:Ec.
  - reflexivity.
  - cbn [concat] in H3. rewrite zlen_app in H3. pose proof (zlen_nonneg ch). pose proof (zlen_nonneg (concat rest)).
    replace (Z.min (sc_cap s - sc_end s) (zlen ch)) with (zlen ch) by lia.
    rewrite Z.ltb_irrefl. rewrite ztake_all by lia. rewrite H2, write_at_end. rewrite He. reflexivity.
Qed.

Definition no_token_body (f : nat) (s : scanner) (evs : list event) : scanner * list event * scan_ret :=
  if sc_eof s
  then (mkScanner (sc_hw s) (sc_cap s) 0 0 true (sc_empties s) (sc_chunks s) (sc_split s), evs, RStop FEOF)
  else match refill maxtok s with
       | None => (s, evs, RStop FTooLong)
       | Some s' => let '(s2, evs2, r) := scan_call c maxtok f s' in (s2, evs ++ evs2, r)
       end.

Definition with_split (s : scanner) (st : csv_st) : scanner :=
  mkScanner (sc_hw s) (sc_cap s) (sc_start s) (sc_end s) (sc_eof s) (sc_empties s) (sc_chunks s) st.

Definition advanced (s : scanner) (adv : Z) (emp : Z) : scanner :=
  mkScanner (sc_hw s) (sc_cap s) (sc_start s + adv) (sc_end s) (sc_eof s) emp (sc_chunks s) (sc_split s).

Lemma scan_call_S f s :
  scan_call c maxtok (S f) s =
    if (sc_start s <? sc_end s) || sc_eof s
    then
      let data := ztake (sc_end s - sc_start s) (zdrop (sc_start s) (sc_hw s)) in
      let stale := zdrop (sc_end s) (sc_hw s) in
      let nz := sc_cap s - zlen (sc_hw s) in
      let '(st, out) := scan c (sc_split s) data stale nz (sc_eof s) in
      let s1 := with_split s st in
      match out with
      | OPanic => (s1, [], RStop FPanic)
      | OFuel => (s1, [], RStop FFuel)
      | ONeed => no_token_body f s1 []
      | OHeader adv names =>
          if (adv <? 0) || (sc_end s1 - sc_start s1 <? adv) then (s1, [], RStop FBadAdvance)
          else no_token_body f (advanced s1 adv (sc_empties s1)) [EHeader names]
      | ORecord adv tok fields =>
          if (adv <? 0) || (sc_end s1 - sc_start s1 <? adv) then (s1, [], RStop FBadAdvance)
          else
            let emp := if negb (sc_eof s1) || (0 <? adv) then 0 else sc_empties s1 + 1 in
            if 100 <? emp then (advanced s1 adv emp, [], RStop FEmpties)
            else (advanced s1 adv emp, [], RToken tok fields)
      end
    else no_token_body f s [].
Proof. reflexivity. Qed.

(* the hypotheses under which a scanner state is simulated by the whole-input reader *)
Record ok (s : scanner) : Prop := {
  k_inv : sinv s;
  k_row : 0 <= st_row (sc_split s);
  k_eof : sc_eof s = true -> sc_chunks s = [];
  k_prev : sc_eof s = true -> st_row (sc_split s) = 0 -> pend s <> [] ->
           snd (scan c (sc_split s) (pend s) [] 0 false) = ONeed;
}.

Ltac scn := cbn [advanced with_split sc_hw sc_cap sc_start sc_end sc_eof sc_empties sc_chunks sc_split].

Definition smsr (s : scanner) : nat := msr (pend s) (sc_chunks s) (sc_eof s).

Lemma length_concat_zlen (l : list bytes) : zlen (concat l) = Z.of_nat (length (concat l)).
Proof. reflexivity. Qed.

(* after a read (or the discovery of EOF) the state is still simulated *)
Lemma ok_refill s st adv :
  sinv s -> sc_eof s = false -> 0 <= adv <= zlen (pend s) ->
  0 <= st_row st ->
  (sc_chunks s = [] -> st_row st = 0 -> zdrop adv (pend s) <> [] ->
   snd (scan c st (zdrop adv (pend s)) [] 0 false) = ONeed) ->
  forall s2, refill maxtok (advanced (with_split s st) adv (sc_empties s)) = Some s2 ->
  ok s2 /\ sc_split s2 = st /\ whole s2 = zdrop adv (pend s) ++ concat (sc_chunks s) /\
  (smsr s2 < smsr s)%nat.
Proof.
  intros Hi He Ha Hr Hp s2 R.
  pose proof (zlen_pend s Hi) as Hzp. destruct Hi as [H1 H2 H3].
  assert (Hi1 : sinv (advanced (with_split s st) adv (sc_empties s))).
  { constructor; scn; lia. }
  rewrite (refill_simple _ Hi1) in R by exact He. injection R as <-. cbn [advanced with_split sc_chunks sc_hw sc_cap sc_start sc_end sc_split sc_empties].
  assert (Hpend : zdrop (sc_start s + adv) (sc_hw s) = zdrop adv (pend s))
    by (unfold pend; rewrite zdrop_zdrop by lia; reflexivity).
  destruct (sc_chunks s) as [|ch rest] eqn:Ec.
  - split; [|split; [reflexivity|split]].
    + constructor; scn; try (constructor; scn; lia); unfold whole, pend; scn; rewrite ?Hpend; auto; try discriminate.
    + unfold whole, pend. scn. rewrite Hpend. reflexivity.
    + unfold smsr, msr. unfold pend at 1. scn. rewrite Hpend, He, Ec. cbn [concat length].
      rewrite length_zdrop by lia. unfold zlen in *. lia.
  - cbn [concat] in *. rewrite zlen_app in H3. pose proof (zlen_nonneg ch). pose proof (zlen_nonneg (concat rest)).
    assert (Hpend2 : zdrop (sc_start s + adv) (sc_hw s ++ ch) = zdrop adv (pend s) ++ ch).
    { rewrite zdrop_app_le by lia. rewrite Hpend. reflexivity. }
    split; [|split; [reflexivity|split]].
    + constructor; scn; try discriminate.
      * constructor; scn; rewrite ?zlen_app; lia.
      * exact Hr.
    + unfold whole, pend. scn. rewrite Hpend2, <- app_assoc. reflexivity.
    + unfold smsr, msr. unfold pend at 1. scn. rewrite Hpend2, He, Ec. cbn [concat length].
      rewrite !app_length. rewrite length_zdrop by lia. unfold zlen in *. lia.
Qed.

Lemma advanced_0 s : advanced (with_split s (sc_split s)) 0 (sc_empties s) = s.
Proof. destruct s. unfold advanced, with_split. scn. rewrite Z.add_0_r. reflexivity. Qed.

Lemma with_split_same s : with_split s (sc_split s) = s.
Proof. destruct s. reflexivity. Qed.

Lemma scan_call_sim : forall fuel s, ok s -> (smsr s < fuel)%nat ->
  match scan_call c maxtok fuel s with
  | (s', evs, RToken tok fields) =>
      ok s' /\ 1 <= st_row (sc_split s') /\ (smsr s' < smsr s)%nat /\
      RA (sc_split s) (whole s) = evs ++ ERecord tok fields :: RA (sc_split s') (whole s')
  | (s', evs, RStop FEOF) => RA (sc_split s) (whole s) = evs
  | (_, _, RStop _) => False
  end.
Proof.
  induction fuel as [|f IH]; intros s Hok Hm; [lia|].
  destruct Hok as [Hi Hr Heof Hprev]. pose proof Hi as [H1 H2 H3].
  pose proof (zlen_pend s Hi) as Hzp.
  rewrite scan_call_S.
  (* reading on from a state [s1] = [s] with [adv] more bytes consumed and split state [st] *)
  assert (Hcont : forall st adv evs, sc_eof s = false -> 0 <= adv <= zlen (pend s) ->
            0 <= st_row st ->
            (sc_chunks s = [] -> st_row st = 0 -> zdrop adv (pend s) <> [] ->
             snd (scan c st (zdrop adv (pend s)) [] 0 false) = ONeed) ->
            RA (sc_split s) (whole s) = evs ++ RA st (zdrop adv (pend s) ++ concat (sc_chunks s)) ->
            match no_token_body f (advanced (with_split s st) adv (sc_empties s)) evs with
            | (s', evs', RToken tok fields) =>
                ok s' /\ 1 <= st_row (sc_split s') /\ (smsr s' < smsr s)%nat /\
                RA (sc_split s) (whole s) = evs' ++ ERecord tok fields :: RA (sc_split s') (whole s')
            | (s', evs', RStop FEOF) => RA (sc_split s) (whole s) = evs'
            | (_, _, RStop _) => False
            end).
  { intros st adv evs He Ha Hr1 Hp1 HRA. unfold no_token_body.
    cbn [advanced with_split sc_eof]. rewrite He.
    destruct (refill maxtok (advanced (with_split s st) adv (sc_empties s))) as [s2|] eqn:R.
    2:{ assert (Hi1 : sinv (advanced (with_split s st) adv (sc_empties s))) by (constructor; scn; lia).
        rewrite (refill_simple _ Hi1) in R by exact He. discriminate. }
    destruct (ok_refill s st adv Hi He Ha Hr1 Hp1 s2 R) as (Hok2 & Hs2 & Hw2 & Hm2).
    specialize (IH s2 Hok2 ltac:(lia)).
    destruct (scan_call c maxtok f s2) as [[s3 evs3] r3].
    rewrite Hs2, Hw2 in IH. destruct r3 as [tok fields | fin].
    - destruct IH as (Hok3 & Hr3 & Hm3 & HRA3). split; [exact Hok3 | split; [exact Hr3 | split; [lia|]]].
      rewrite HRA, HRA3, <- app_assoc. reflexivity.
    - destruct fin; try contradiction. rewrite HRA, IH. reflexivity. }
  destruct ((sc_start s <? sc_end s) || sc_eof s) eqn:Cond.
  2:{ (* nothing buffered, not at EOF: read *)
      apply orb_false_iff in Cond as [C1 C2].
      assert (Hpe : pend s = []) by (apply zlen_0_nil; lia).
      specialize (Hcont (sc_split s) 0 [] C2 ltac:(lia)).
      rewrite advanced_0 in Hcont.
      rewrite zdrop_0 in Hcont. apply Hcont; auto; try lia; try (intros _ _ Hne; congruence). }
  cbv zeta. rewrite data_is_pend, stale_nil by exact Hi.
  assert (Hnz : 0 <= sc_cap s - zlen (sc_hw s)) by (pose proof (zlen_nonneg (concat (sc_chunks s))); lia).
  destruct (scan c (sc_split s) (pend s) [] (sc_cap s - zlen (sc_hw s)) (sc_eof s)) as [st out] eqn:Sc.
  pose proof (scan_accounting c (sc_split s) (pend s) [] _ (sc_eof s) Hsep Hnz) as Hacc. rewrite Sc in Hacc. cbn [snd] in Hacc.
  pose proof (scan_never_fuel c (sc_split s) (pend s) [] (sc_cap s - zlen (sc_hw s)) (sc_eof s)) as Hnf. rewrite Sc in Hnf. cbn [snd] in Hnf.
  assert (Hrest : sc_eof s = true -> concat (sc_chunks s) = []) by (intros E; rewrite (Heof E); reflexivity).
  destruct out as [|adv names|adv tok fields| |].
  - (* need more data *)
    pose proof (scan_need_state _ _ _ _ _ _ _ Sc) as ->.
    destruct (sc_eof s) eqn:He.
    + unfold no_token_body. cbn [with_split sc_eof]. rewrite He.
      unfold whole. rewrite (Hrest eq_refl), app_nil_r. rewrite RA_unfold.
      rewrite (scan_behind_irrelevant _ _ [] 0 [] (sc_cap s - zlen (sc_hw s)) true ltac:(lia) Hnz), Sc. reflexivity.
    + specialize (Hcont (sc_split s) 0 [] eq_refl ltac:(lia)).
      rewrite advanced_0 in Hcont. rewrite with_split_same.
      rewrite zdrop_0 in Hcont. apply Hcont; auto.
      intros _ _ _. rewrite (scan_behind_irrelevant _ _ [] 0 [] (sc_cap s - zlen (sc_hw s)) false ltac:(lia) Hnz), Sc.
      reflexivity.
  - (* header row *)
    destruct (scan_decided_facts c _ _ _ _ _ st _ Hsep Sc I) as (Ha & Hnb & Hrow & Hh & _).
    cbn [out_adv] in Ha. destruct (Hh I) as [Hr0 _].
    cbn [with_split sc_end sc_start sc_empties].
    replace ((adv <? 0) || (sc_end s - sc_start s <? adv)) with false by lia.
    pose proof (RA_decided (sc_split s) (pend s) (concat (sc_chunks s)) [] _ (sc_eof s) st _ Hnz Hrest Sc I) as HRA.
    cbn [ev_of out_adv] in HRA.
    destruct (sc_eof s) eqn:He.
    + (* decided only at EOF: it reaches the end of the input *)
      unfold no_token_body. cbn [advanced with_split sc_eof]. rewrite He.
      assert (Hne : pend s <> []) by (intros E; rewrite E in Ha; cbn in Ha; lia).
      pose proof (scan_eof_all c Hsep (sc_split s) (pend s) [] 0 [] _ st _ (Hprev eq_refl Hr0 Hne) Sc I) as Hall.
      cbn [out_adv] in Hall. fold (whole s) in HRA. rewrite HRA, (Hrest eq_refl), app_nil_r.
      rewrite Hall, zdrop_all by lia. rewrite RA_nil. reflexivity.
    + apply Hcont; auto; try lia; try (intros _ Hr1; lia).
  - (* record *)
    destruct (scan_decided_facts c _ _ _ _ _ st _ Hsep Sc I) as (Ha & Hnb & Hrow & _ & _).
    cbn [out_adv] in Ha. cbn [with_split sc_end sc_start sc_empties sc_eof].
    replace ((adv <? 0) || (sc_end s - sc_start s <? adv)) with false by lia.
    replace (negb (sc_eof s) || (0 <? adv)) with true by lia. cbn [Z.ltb Z.compare].
    pose proof (RA_decided (sc_split s) (pend s) (concat (sc_chunks s)) [] _ (sc_eof s) st _ Hnz Hrest Sc I) as HRA.
    cbn [ev_of out_adv] in HRA.
    assert (Hpend' : pend (advanced (with_split s st) adv 0) = zdrop adv (pend s))
      by (unfold pend; cbn; rewrite zdrop_zdrop by lia; reflexivity).
    split; [|split; [|split]].
    + constructor; cbn [advanced with_split sc_split sc_eof sc_chunks].
      * constructor; scn; lia.
      * lia.
      * exact Heof.
      * intros _ E. lia.
    + cbn. lia.
    + unfold smsr. rewrite Hpend'. cbn [advanced with_split sc_chunks sc_eof]. unfold msr.
      rewrite length_zdrop by lia. unfold zlen in *. lia.
    + cbn [app]. unfold whole at 2. rewrite Hpend'. exact HRA.
  - contradiction.
  - congruence.
Qed.

Lemma run_scanner_sim : forall fuel s, ok s -> (smsr s < fuel)%nat ->
  run_scanner c maxtok fuel s = (RA (sc_split s) (whole s), FEOF).
Proof.
  induction fuel as [|f IH]; intros s Hok Hm; [lia|].
  cbn [run_scanner]. pose proof (scan_call_sim (S f) s Hok Hm) as H.
  destruct (scan_call c maxtok (S f) s) as [[s' evs] r]. destruct r as [tok fields | fin].
  - destruct H as (Hok' & Hr' & Hm' & HRA). rewrite (IH s' Hok' ltac:(lia)). rewrite HRA. reflexivity.
  - destruct fin; try contradiction. rewrite H. reflexivity.
Qed.

End Sim.

Ltac scn := cbn [init_scanner sc_hw sc_cap sc_start sc_end sc_eof sc_empties sc_chunks sc_split].

(* The buffer-level Scanner model = the whole-input reader, for every chunking. *)
Theorem read_csv_is_read_file c cap maxtok chunks :
  valid_sep (c_sep c) -> 2 * zlen (concat chunks) < cap ->
  read_csv c cap maxtok chunks = (read_file c (concat chunks), FEOF).
Proof.
  intros Hv Hc. unfold read_csv.
  rewrite (run_scanner_sim c Hv maxtok).
  - reflexivity.
  - constructor; scn; try discriminate; try lia.
    constructor; unfold init_scanner; scn; try reflexivity; try lia. change (zlen (@nil Z)) with 0. lia.
  - unfold smsr, msr, run_fuel, total_len, pend, init_scanner. scn. change (length (zdrop 0 (@nil Z))) with 0%nat. lia.
Qed.

(* chunk independence of the buffer-level reader *)
Corollary read_csv_chunk_independent c cap maxtok chunks :
  valid_sep (c_sep c) -> 2 * zlen (concat chunks) < cap ->
  read_csv c cap maxtok chunks = read_csv c cap maxtok [concat chunks].
Proof.
  intros Hv Hc. rewrite (read_csv_is_read_file c cap maxtok chunks) by assumption.
  rewrite (read_csv_is_read_file c cap maxtok [concat chunks]); cbn [concat]; rewrite ?app_nil_r; auto.
Qed.

(* print in CSV/TSV output mode, read the bytes back - delivered in any pieces - in CSV/TSV
   input mode with the same separator, through the buffer-level reader *)
Corollary read_csv_roundtrip c cap maxtok rows chunks :
  valid_sep (c_sep c) -> c_comment c = 0 -> c_header c = false -> Forall row_ok rows ->
  concat chunks = write_csv (c_sep c) false rows ->
  prefix_of bom (concat chunks) = false -> 2 * zlen (concat chunks) < cap ->
  read_csv c cap maxtok chunks =
  (map (fun fs => ERecord (join_fields (c_sep c) false fs) fs) rows, FEOF).
Proof.
  intros Hv Hcom Hhdr Hok Hw Hb Hc. rewrite read_csv_is_read_file by assumption.
  rewrite Hw in *. rewrite roundtrip_file by assumption. reflexivity.
Qed.
