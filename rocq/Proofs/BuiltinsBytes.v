(* C10, byte mode: substr / int / index obey their defining equations. *)
From Verif Require Import Lib.Base Lib.Dyadic Lib.Utf8 Model.Builtins.

(* ---- specification vocabulary ---------------------------------------- *)

(* a truncated numeric argument: an integer or an infinity *)
Inductive ext : Type := NegInf | Fin (z : Z) | PosInf.

Definition etrunc (x : fnum) : option ext :=
  match x with
  | FNaN => None
  | FInf s => Some (if s then NegInf else PosInf)
  | FFin m e => Some (Fin (ftrunc m e))
  end.

(* "starts at position m, taken as 1 if smaller": drop max(1,m)-1 characters *)
Definition spec_drop {A} (s : list A) (t : ext) : list A :=
  match t with
  | NegInf => s
  | PosInf => []
  | Fin z => zdrop (Z.max 1 z - 1) s
  end.

(* "the next n characters, none if negative, all remaining if it exceeds" *)
Definition spec_take {A} (l : list A) (t : ext) : list A :=
  match t with
  | NegInf => []
  | PosInf => l
  | Fin z => ztake (Z.max 0 z) l
  end.

(* every Go string is shorter than 2^63-1 bytes *)
Definition go_len (s : bytes) : Prop := zlen s < maxint.

(* ---- float_to_int ----------------------------------------------------- *)

Lemma two63_pos : 0 < two63. Proof. reflexivity. Qed.

Lemma float_to_int_fin m e :
  let t := ftrunc m e in
  float_to_int (FFin m e) = Z.max minint (Z.min maxint t).
Proof.
  cbn [float_to_int]. unfold maxint, minint.
  destruct (two63 <=? ftrunc m e) eqn:H1; [apply Z.leb_le in H1|apply Z.leb_gt in H1].
  - pose proof two63_pos. lia.
  - destruct (ftrunc m e <=? - two63) eqn:H2; [apply Z.leb_le in H2|apply Z.leb_gt in H2]; lia.
Qed.

(* ---- slicing helpers --------------------------------------------------- *)

Lemma slice_ok {A} (s : list A) lo hi :
  0 <= lo -> lo <= hi -> hi <= zlen s -> slice s lo hi = Ok (ztake (hi - lo) (zdrop lo s)).
Proof.
  intros H1 H2 H3. unfold slice.
  destruct (0 <=? lo) eqn:E1; [|apply Z.leb_gt in E1; lia].
  destruct (lo <=? hi) eqn:E2; [|apply Z.leb_gt in E2; lia].
  destruct (hi <=? zlen s) eqn:E3; [|apply Z.leb_gt in E3; lia].
  reflexivity.
Qed.

Lemma slice_to_end {A} (s : list A) lo :
  0 <= lo <= zlen s -> slice s lo (zlen s) = Ok (zdrop lo s).
Proof.
  intros H. rewrite slice_ok by lia. f_equal. apply ztake_all.
  rewrite zlen_zdrop by lia. lia.
Qed.

Lemma ztake_min {A} n (l : list A) : ztake (Z.min n (zlen l)) l = ztake n l.
Proof.
  destruct (Z.le_gt_cases n (zlen l)).
  - rewrite Z.min_l by lia. reflexivity.
  - rewrite Z.min_r by lia. rewrite !ztake_all by lia. reflexivity.
Qed.

(* ---- substr, two-argument form ---------------------------------------- *)

Lemma substr_bytes_pos (s : bytes) (p : Z) :
  let pos := if p >? zlen s then zlen s + 1 else p in
  let pos := if pos <? 1 then 1 else pos in
  1 <= pos <= zlen s + 1 /\ zdrop (pos - 1) s = zdrop (Z.max 1 p - 1) s.
Proof.
  pose proof (zlen_nonneg s) as Hl.
  destruct (p >? zlen s) eqn:E1; [apply Z.gtb_lt in E1|rewrite Z.gtb_ltb in E1; apply Z.ltb_ge in E1]; cbn zeta.
  - destruct (zlen s + 1 <? 1) eqn:E2; [apply Z.ltb_lt in E2; lia|].
    split; [lia|]. rewrite !zdrop_all by lia. reflexivity.
  - destruct (p <? 1) eqn:E2; [apply Z.ltb_lt in E2|apply Z.ltb_ge in E2].
    + split; [lia|]. rewrite Z.max_l by lia. reflexivity.
    + split; [lia|]. rewrite Z.max_r by lia. reflexivity.
Qed.

Theorem substr_bytes_spec (s : bytes) (x : fnum) (t : ext) :
  go_len s -> etrunc x = Some t -> substr_bytes s x = Ok (spec_drop s t).
Proof.
  unfold go_len, maxint. intros Hlen Ht. pose proof (zlen_nonneg s) as Hl.
  unfold substr_bytes.
  pose proof (substr_bytes_pos s (float_to_int x)) as Hp. cbn zeta in Hp.
  set (pos := if (if float_to_int x >? zlen s then zlen s + 1 else float_to_int x) <? 1 then 1
              else (if float_to_int x >? zlen s then zlen s + 1 else float_to_int x)) in *.
  destruct Hp as [Hr Hd].
  replace (pos - 1 + (zlen s - pos + 1)) with (zlen s) by lia.
  rewrite slice_to_end by lia. f_equal. rewrite Hd. clear Hd Hr pos.
  destruct x as [|[|]|m e]; cbn [etrunc] in Ht; try discriminate; injection Ht as <-; cbn [spec_drop].
  - (* -inf *) cbn [float_to_int]. unfold minint. rewrite Z.max_l by (pose proof two63_pos; lia). reflexivity.
  - (* +inf *) cbn [float_to_int]. unfold maxint. apply zdrop_all. lia.
  - (* finite *)
    rewrite float_to_int_fin. unfold maxint, minint. cbn zeta.
    destruct (Z.le_gt_cases two63 (ftrunc m e)) as [Hb|Hb].
    + rewrite !zdrop_all by lia. reflexivity.
    + f_equal. pose proof two63_pos. lia.
Qed.

(* ---- substr, three-argument form -------------------------------------- *)

Theorem substr_len_bytes_spec (s : bytes) (x y : fnum) (tx ty : ext) :
  go_len s -> etrunc x = Some tx -> etrunc y = Some ty ->
  substr_len_bytes s x y = Ok (spec_take (spec_drop s tx) ty).
Proof.
  unfold go_len, maxint. intros Hlen Hx Hy. pose proof (zlen_nonneg s) as Hl.
  pose proof (substr_bytes_spec s x tx Hlen Hx) as Hsub.
  unfold substr_bytes in Hsub. unfold substr_len_bytes.
  pose proof (substr_bytes_pos s (float_to_int x)) as Hp. cbn zeta in Hp.
  set (pos := if (if float_to_int x >? zlen s then zlen s + 1 else float_to_int x) <? 1 then 1
              else (if float_to_int x >? zlen s then zlen s + 1 else float_to_int x)) in *.
  destruct Hp as [Hr _].
  replace (pos - 1 + (zlen s - pos + 1)) with (zlen s) in Hsub by lia.
  rewrite slice_to_end in Hsub by lia. injection Hsub as Hsub. rewrite <- Hsub. clear Hsub.
  set (ly := float_to_int y).
  set (l1 := if ly <? 0 then 0 else ly).
  set (l2 := if l1 >? zlen s - pos + 1 then zlen s - pos + 1 else l1).
  assert (Hl1 : l1 = Z.max 0 ly).
  { unfold l1. destruct (ly <? 0) eqn:E; [apply Z.ltb_lt in E|apply Z.ltb_ge in E]; lia. }
  assert (Hl2 : l2 = Z.min l1 (zlen s - pos + 1)).
  { unfold l2. destruct (l1 >? zlen s - pos + 1) eqn:E;
      [apply Z.gtb_lt in E|rewrite Z.gtb_ltb in E; apply Z.ltb_ge in E]; lia. }
  rewrite slice_ok by lia.
  replace (pos - 1 + l2 - (pos - 1)) with l2 by lia.
  f_equal.
  assert (Hzd : zlen (zdrop (pos - 1) s) = zlen s - pos + 1) by (rewrite zlen_zdrop by lia; lia).
  rewrite Hl2, <- Hzd, ztake_min, Hl1. clear Hl2 Hl1 l2 l1.
  set (r := zdrop (pos - 1) s) in *.
  assert (Hr' : zlen r <= zlen s) by lia.
  destruct y as [|[|]|m e]; cbn [etrunc] in Hy; try discriminate; injection Hy as <-; cbn [spec_take].
  - subst ly. cbn [float_to_int]. unfold minint. rewrite Z.max_l by (pose proof two63_pos; lia). apply ztake_neg; lia.
  - subst ly. cbn [float_to_int]. unfold maxint. apply ztake_all. lia.
  - subst ly. rewrite float_to_int_fin. unfold maxint, minint. cbn zeta. pose proof two63_pos.
    destruct (Z.le_gt_cases two63 (ftrunc m e)) as [Hb|Hb].
    + rewrite !ztake_all by lia. reflexivity.
    + f_equal. lia.
Qed.

(* ---- never a Go panic, for every argument including NaN ---------------- *)

Theorem substr_bytes_no_panic (s : bytes) (x : fnum) :
  go_len s -> exists r, substr_bytes s x = Ok r.
Proof.
  intros Hlen. destruct (etrunc x) as [t|] eqn:Ht.
  - eexists. apply (substr_bytes_spec s x t Hlen Ht).
  - destruct x; try discriminate. exists s.
    unfold substr_bytes. cbn [float_to_int]. pose proof (zlen_nonneg s).
    destruct (0 >? zlen s) eqn:E; [apply Z.gtb_lt in E; lia|].
    change (0 <? 1) with true. cbv iota.
    replace (1 - 1 + (zlen s - 1 + 1)) with (zlen s) by lia.
    change (1 - 1) with 0. rewrite slice_to_end by lia. reflexivity.
Qed.

Theorem substr_len_bytes_no_panic (s : bytes) (x y : fnum) :
  go_len s -> exists r, substr_len_bytes s x y = Ok r.
Proof.
  unfold go_len, maxint. intros Hlen. pose proof (zlen_nonneg s) as Hl.
  unfold substr_len_bytes.
  pose proof (substr_bytes_pos s (float_to_int x)) as Hp. cbn zeta in Hp.
  set (pos := if (if float_to_int x >? zlen s then zlen s + 1 else float_to_int x) <? 1 then 1
              else (if float_to_int x >? zlen s then zlen s + 1 else float_to_int x)) in *.
  destruct Hp as [Hr _].
  set (ly := float_to_int y).
  set (l1 := if ly <? 0 then 0 else ly).
  set (l2 := if l1 >? zlen s - pos + 1 then zlen s - pos + 1 else l1).
  assert (0 <= l1).
  { unfold l1. destruct (ly <? 0) eqn:E; [apply Z.ltb_lt in E|apply Z.ltb_ge in E]; lia. }
  assert (0 <= l2 <= zlen s - pos + 1).
  { unfold l2. destruct (l1 >? zlen s - pos + 1) eqn:E;
      [apply Z.gtb_lt in E|rewrite Z.gtb_ltb in E; apply Z.ltb_ge in E]; lia. }
  eexists. apply slice_ok; lia.
Qed.

(* ---- int() -------------------------------------------------------------- *)

Theorem int_spec (m e : Z) : builtin_int (FFin m e) = FFin (ftrunc m e) 0.
Proof. reflexivity. Qed.

(* ftrunc really is truncation toward zero of m * 2^e *)
Theorem ftrunc_spec_nonneg_exp m e : 0 <= e -> ftrunc m e = m * 2 ^ e.
Proof. intros H. unfold ftrunc. destruct (0 <=? e) eqn:E; [reflexivity|apply Z.leb_gt in E; lia]. Qed.

Theorem ftrunc_spec_neg_exp m e :
  e < 0 ->
  let t := ftrunc m e in let d := 2 ^ (- e) in
  (0 <= m -> t * d <= m < (t + 1) * d) /\ (m <= 0 -> (t - 1) * d < m <= t * d).
Proof.
  intros H t d. unfold t, ftrunc. destruct (0 <=? e) eqn:E; [apply Z.leb_le in E; lia|].
  assert (Hd : 0 < d) by (unfold d; apply Z.pow_pos_nonneg; lia).
  fold d. split; intros Hm.
  - rewrite Z.quot_div_nonneg by lia. pose proof (Z.div_mod m d ltac:(lia)). pose proof (Z.mod_pos_bound m d Hd). nia.
  - pose proof (Z.quot_opp_l m d ltac:(lia)) as Ho.
    assert (Hq : Z.quot m d = - Z.quot (- m) d) by lia.
    rewrite Hq. rewrite Z.quot_div_nonneg by lia.
    pose proof (Z.div_mod (- m) d ltac:(lia)). pose proof (Z.mod_pos_bound (- m) d Hd). nia.
Qed.

(* ---- index -------------------------------------------------------------- *)

Lemma is_prefix_app t s : is_prefix t s = true <-> exists r, s = t ++ r.
Proof.
  revert s; induction t as [|x t IH]; intros s; cbn [is_prefix].
  - split; [intros _; exists s; reflexivity|reflexivity].
  - destruct s as [|y s].
    + split; [discriminate|intros [r Hr]; discriminate].
    + rewrite andb_true_iff, Z.eqb_eq, IH. split.
      * intros [-> [r ->]]. exists r. reflexivity.
      * intros [r Hr]. injection Hr as -> ->. split; [reflexivity|exists r; reflexivity].
Qed.

(* strings.Index finds an occurrence, and it is the first one *)
Lemma strings_index_from_spec s t off :
  let i := strings_index_from s t off in
  (i = -1 /\ forall k, 0 <= k <= zlen s -> is_prefix t (zdrop k s) = false) \/
  (off <= i <= off + zlen s /\ is_prefix t (zdrop (i - off) s) = true /\
   forall k, 0 <= k < i - off -> is_prefix t (zdrop k s) = false).
Proof.
  revert off; induction s as [|c s IH]; intros off; cbn [strings_index_from].
  - destruct (is_prefix t []) eqn:E.
    + right. rewrite zlen_nil. replace (off - off) with 0 by lia. split; [lia|]. split; [exact E|]. intros; lia.
    + left. split; [reflexivity|]. intros k Hk. unfold zlen in Hk; cbn [length] in Hk. replace k with 0 by lia. exact E.
  - destruct (is_prefix t (c :: s)) eqn:E.
    + right. replace (off - off) with 0 by lia. pose proof (zlen_nonneg (c :: s)). split; [lia|]. split; [exact E|]. intros; lia.
    + specialize (IH (off + 1)). cbn zeta in IH. rewrite zlen_cons.
      destruct IH as [[Hi Hall]|[Hr [Hp Hmin]]].
      * left. split; [exact Hi|]. intros k Hk.
        destruct (Z.eq_dec k 0) as [->|Hk0]; [exact E|].
        replace (zdrop k (c :: s)) with (zdrop (k - 1) s).
        -- apply Hall. lia.
        -- unfold zdrop. replace (Z.to_nat k) with (S (Z.to_nat (k - 1))) by lia. reflexivity.
      * right. set (i := strings_index_from s t (off + 1)) in *.
        split; [lia|]. split.
        -- replace (zdrop (i - off) (c :: s)) with (zdrop (i - (off + 1)) s); [exact Hp|].
           unfold zdrop. replace (Z.to_nat (i - off)) with (S (Z.to_nat (i - (off + 1)))) by lia. reflexivity.
        -- intros k Hk. destruct (Z.eq_dec k 0) as [->|Hk0]; [exact E|].
           replace (zdrop k (c :: s)) with (zdrop (k - 1) s).
           ++ apply Hmin. lia.
           ++ unfold zdrop. replace (Z.to_nat k) with (S (Z.to_nat (k - 1))) by lia. reflexivity.
Qed.

(* index(s,t) = 0 iff t occurs nowhere; otherwise it is the first position
   at which substr(s, index, length(t)) = t *)
Theorem index_bytes_spec (s t : bytes) :
  exists i, builtin_index false s t = Ok i /\
  ((i = 0 /\ forall k, 0 <= k <= zlen s -> is_prefix t (zdrop k s) = false) \/
   (1 <= i <= zlen s + 1 /\ ztake (zlen t) (zdrop (i - 1) s) = t /\
    forall k, 1 <= k < i -> is_prefix t (zdrop (k - 1) s) = false)).
Proof.
  unfold builtin_index, strings_index.
  pose proof (strings_index_from_spec s t 0) as H. cbn zeta in H.
  set (i := strings_index_from s t 0) in *.
  destruct H as [[Hi Hall]|[Hr [Hp Hmin]]].
  - rewrite Hi. cbn. eexists; split; [reflexivity|]. left. split; [reflexivity|exact Hall].
  - destruct (i <? 0) eqn:E; [apply Z.ltb_lt in E; lia|].
    eexists; split; [reflexivity|]. right. split; [lia|].
    replace (i + 1 - 1) with (i - 0) by lia. split.
    + apply is_prefix_app in Hp as [r Hr']. rewrite Hr'.
      unfold ztake, zlen. rewrite Nat2Z.id. rewrite firstn_app, firstn_all, Nat.sub_diag. cbn. apply app_nil_r.
    + intros k Hk. apply Hmin. lia.
Qed.
