(* C06, part 2: invariants of the record state and the specification of every operation,
   for ALL operation sequences, texts, separators and index values.
   The regular-expression engine is a Section variable; the only thing assumed of it is
   that FindAllStringIndex returns its matches in order and inside the text. *)
From Verif Require Import Lib.Base Lib.Dyadic Lib.Utf8 Lib.Regex Gen.Consts Model.Fields Proofs.FieldsSplit.

Ltac proj := cbn [line line_true fields fields_true have nf fs fs_re saved_fs saved_re saved_rs saved_inmode ofs rs inmode outmode].

(* ---- small arithmetic / list facts ---------------------------------------- *)

Definition nf_trunc (v : value) : option Z :=
  match vnum v with FFin m e => Some (ftrunc m e) | _ => None end.

Lemma ftrunc_int n : ftrunc n 0 = n.
Proof. unfold ftrunc. cbn [Z.leb Z.compare]. rewrite Z.pow_0_r. lia. Qed.

Lemma nf_trunc_count n : nf_trunc (count_value n) = Some n.
Proof. unfold nf_trunc, count_value. cbn [vnum]. rewrite ftrunc_int. reflexivity. Qed.

Lemma f2i64_nonneg x : 0 <= f2i64 x -> exists m e, x = FFin m e /\ ftrunc m e = f2i64 x.
Proof.
  destruct x as [|s|m e]; cbn [f2i64]; unfold two63; try lia.
  intros H. exists m, e. split; [reflexivity|].
  destruct (in_i64 (ftrunc m e)); [reflexivity|lia].
Qed.

Lemma f2i64_int n : in_i64 n = true -> f2i64 (FFin n 0) = n.
Proof. intros H. cbn [f2i64]. rewrite ftrunc_int, H. reflexivity. Qed.

Lemma zlen_repeat {A} (x : A) k : zlen (repeat x k) = Z.of_nat k.
Proof. unfold zlen. rewrite repeat_length. reflexivity. Qed.

Lemma zlen_length {A B} (a : list A) (b : list B) : length a = length b <-> zlen a = zlen b.
Proof. unfold zlen. lia. Qed.

Lemma list_set_ok {A} (l : list A) i v :
  0 <= i < zlen l -> list_set l i v = Ok (ztake i l ++ v :: zdrop (i + 1) l).
Proof.
  intros H. unfold list_set.
  replace (0 <=? i) with true by (symmetry; apply Z.leb_le; lia).
  replace (i <? zlen l) with true by (symmetry; apply Z.ltb_lt; lia). reflexivity.
Qed.

Lemma zlen_list_set {A} (l : list A) i v : 0 <= i < zlen l -> zlen (ztake i l ++ v :: zdrop (i + 1) l) = zlen l.
Proof.
  intros H. rewrite zlen_app, zlen_cons, zlen_ztake, zlen_zdrop by lia. lia.
Qed.

Lemma index_ok {A} (l : list A) i : 0 <= i < zlen l -> exists a, index l i = Ok a /\ nth_error l (Z.to_nat i) = Some a.
Proof.
  intros H. unfold index.
  replace (0 <=? i) with true by (symmetry; apply Z.leb_le; lia).
  replace (i <? zlen l) with true by (symmetry; apply Z.ltb_lt; lia). cbn [andb].
  destruct (nth_error l (Z.to_nat i)) eqn:E.
  - eexists; split; reflexivity.
  - apply nth_error_None in E. unfold zlen in H. lia.
Qed.

Section Inv.
Variable rx : Type.
Variable all_matches : rx -> bytes -> list (Z * Z).
(* FindAllStringIndex: successive matches, in order, within the text *)
Hypothesis am_sorted : forall r s, matches_sorted 0 (zlen s) (all_matches r s).

Local Notation state := (state rx).
Local Notation op := (op rx).
Local Notation ensure := (ensure_fields rx all_matches).
Local Notation getf := (get_field rx all_matches).
Local Notation setf := (set_field rx all_matches).
Local Notation setnf := (set_nf rx all_matches).
Local Notation exec := (exec_op rx all_matches).
Local Notation runs := (run rx all_matches).
Local Notation viewof := (view rx all_matches).
Local Notation split_rec := (split_record rx all_matches).

(* ---- the invariant -------------------------------------------------------- *)

(* Once the record has been split: the two parallel slices have one length and
   int(NF) is the number of fields; a regex is there whenever FS is to be used as one. *)
Definition Inv (s : state) : Prop :=
  (have rx s = true ->
     zlen (fields_true rx s) = zlen (fields rx s) /\ nf_trunc (nf rx s) = Some (zlen (fields rx s)))
  /\ (rune_count (saved_fs rx s) > 1 -> saved_re rx s <> None)
  /\ (rune_count (fs rx s) > 1 -> fs_re rx s <> None).

Lemma Inv_init : Inv (init rx).
Proof.
  unfold Inv, init. proj. repeat split; try discriminate.
  all: vm_compute; intros H; discriminate H.
Qed.

(* everything but the split result *)
Definition same_env (s s1 : state) : Prop :=
  line rx s1 = line rx s /\ line_true rx s1 = line_true rx s /\ fs rx s1 = fs rx s /\ fs_re rx s1 = fs_re rx s
  /\ saved_fs rx s1 = saved_fs rx s /\ saved_re rx s1 = saved_re rx s /\ ofs rx s1 = ofs rx s
  /\ rs rx s1 = rs rx s /\ inmode rx s1 = inmode rx s /\ outmode rx s1 = outmode rx s.

Lemma same_env_refl s : same_env s s.
Proof. unfold same_env. repeat split. Qed.

Lemma split_record_ok sfs sre im rsep ln :
  (rune_count sfs > 1 -> sre <> None) ->
  split_rec sfs sre im rsep ln = Unmod \/ exists fl, split_rec sfs sre im rsep ln = Ok fl.
Proof.
  intros Hre. unfold split_record.
  destruct (is_default im) eqn:Ed; cbn [negb]; [|left; reflexivity].
  right.
  assert (exists f0, (if bytes_eqb sfs [32] then Ok (split_blanks ln)
                      else if is_nil ln then Ok []
                      else if rune_count sfs <=? 1 then Ok (strings_split ln sfs)
                      else match sre with
                           | None => Panic
                           | Some r => split_re_go ln (all_matches r ln) 0
                           end) = Ok f0) as [f0 Hf0].
  { destruct (bytes_eqb sfs [32]); [eexists; reflexivity|].
    destruct (is_nil ln); [eexists; reflexivity|].
    destruct (rune_count sfs <=? 1) eqn:E1; [eexists; reflexivity|].
    apply Z.leb_gt in E1. destruct sre as [r|]; [|exfalso; apply Hre; [lia|reflexivity]].
    destruct (split_re_rebuild ln (all_matches r ln) (am_sorted r ln)) as (fl & H1 & _).
    exists fl. exact H1. }
  rewrite Hf0. cbn [rbind andb].
  destruct (is_nil rsep && (rune_count sfs =? 1)); eexists; reflexivity.
Qed.

(* the lazy split: never panics; result is a split state with the same environment *)
Lemma ensure_ok s :
  Inv s ->
  ensure s = Unmod \/
  exists s1, ensure s = Ok s1 /\ Inv s1 /\ have rx s1 = true /\ same_env s s1 /\ (have rx s = true -> s1 = s).
Proof.
  intros HI. pose proof HI as (H1 & H2 & H3).
  destruct (have rx s) eqn:Eh.
  - right. exists s. split; [unfold ensure_fields; rewrite Eh; reflexivity|].
    split; [exact HI|]. split; [exact Eh|]. split; [apply same_env_refl|reflexivity].
  - unfold ensure_fields. rewrite Eh.
    destruct (split_record_ok (saved_fs rx s) (saved_re rx s) (saved_inmode rx s) (saved_rs rx s) (line rx s) H2) as [Hu|[fl Hfl]].
    + left. rewrite Hu. reflexivity.
    + right. rewrite Hfl. cbn [rbind]. eexists. split; [reflexivity|].
      split; [|split; [reflexivity|split; [unfold same_env; proj; repeat split|discriminate]]].
      unfold Inv. proj. split; [|split; assumption].
      intros _. split.
      * unfold zlen. rewrite map_length. reflexivity.
      * apply nf_trunc_count.
Qed.

Lemma ensure_have s s1 : ensure s = Ok s1 -> have rx s1 = true.
Proof.
  unfold ensure_fields. destruct (have rx s) eqn:E.
  - intros H; injection H as <-. exact E.
  - destruct (split_rec _ _ _ _ _); cbn [rbind]; try discriminate. intros H; injection H as <-. reflexivity.
Qed.

Lemma ensure_idem s s1 : ensure s = Ok s1 -> ensure s1 = Ok s1.
Proof. intros H. unfold ensure_fields. rewrite (ensure_have _ _ H). reflexivity. Qed.

Lemma ensure_of_have s : have rx s = true -> ensure s = Ok s.
Proof. intros H. unfold ensure_fields. rewrite H. reflexivity. Qed.

(* ---- getField ------------------------------------------------------------- *)

(* the field an index denotes in a list of fields: positive from the front, negative from
   the end, "" outside *)
Definition field_at (fl : list bytes) (i : Z) : bytes :=
  let j := if i <? 1 then zlen fl + 1 + i else i in
  if j <? 1 then [] else nth (Z.to_nat (j - 1)) fl [].

Lemma get_field_spec s s1 i :
  Inv s -> ensure s = Ok s1 -> i <> 0 ->
  exists t, getf s i = Ok (s1, field_at (fields rx s1) i, t).
Proof.
  intros HI He Hi. unfold get_field.
  replace (i =? 0) with false by (symmetry; apply Z.eqb_neq; exact Hi).
  rewrite He. cbn [rbind].
  destruct (ensure_ok s HI) as [Hu|(s1' & He' & HI1 & Hh & _ & _)]; [congruence|].
  assert (s1' = s1) by congruence. subst s1'.
  destruct HI1 as (Hlen & _ & _). specialize (Hlen Hh). destruct Hlen as [Hlen _].
  unfold field_at.
  set (j := if i <? 1 then zlen (fields rx s1) + 1 + i else i).
  destruct (j <? 1) eqn:E1; [eexists; reflexivity|].
  apply Z.ltb_ge in E1.
  destruct (j >? zlen (fields rx s1)) eqn:E2.
  - apply Z.gtb_lt in E2. rewrite nth_overflow by (unfold zlen in E2; lia). eexists; reflexivity.
  - assert (j <= zlen (fields rx s1)) as E2' by (destruct (Z.gtb_spec j (zlen (fields rx s1))); [discriminate|lia]).
    destruct (index_ok (fields_true rx s1) (j - 1) ltac:(lia)) as (t & Ht & _).
    destruct (index_ok (fields rx s1) (j - 1) ltac:(lia)) as (f & Hf & Hn).
    rewrite Ht, Hf. cbn [rbind]. exists t. f_equal. f_equal. f_equal.
    symmetry. apply nth_error_nth. exact Hn.
Qed.

Lemma get_field_zero s : getf s 0 = Ok (s, line rx s, line_true rx s).
Proof. reflexivity. Qed.

(* ---- setField ------------------------------------------------------------- *)

(* pad with empty fields up to position i, then replace position i *)
Definition put (fl : list bytes) (i : Z) (t : bytes) : list bytes :=
  let padded := fl ++ repeat [] (Z.to_nat (i - zlen fl)) in
  ztake (i - 1) padded ++ t :: zdrop i padded.

Lemma zlen_put fl i t : 1 <= i -> zlen (put fl i t) = Z.max (zlen fl) i.
Proof.
  intros Hi. unfold put.
  set (padded := fl ++ repeat [] (Z.to_nat (i - zlen fl))).
  assert (zlen padded = Z.max (zlen fl) i) as Hp.
  { unfold padded. rewrite zlen_app, zlen_repeat. pose proof (zlen_nonneg fl). lia. }
  replace i with ((i - 1) + 1) at 2 by lia.
  rewrite zlen_list_set by lia. exact Hp.
Qed.

Lemma set_field_zero s t : setf s 0 t = Ok (set_line rx s t true).
Proof. reflexivity. Qed.

Lemma set_field_too_large s i t :
  i > maxFieldIndex -> setf s i t = Err (msg_field_too_large ++ dec_of_Z i).
Proof.
  intros H. unfold set_field.
  replace (i =? 0) with false by (symmetry; apply Z.eqb_neq; unfold maxFieldIndex in H; lia).
  replace (i >? maxFieldIndex) with true by (symmetry; apply Z.gtb_lt; lia). reflexivity.
Qed.

Lemma set_field_pos s s1 i t :
  Inv s -> ensure s = Ok s1 -> 1 <= i <= maxFieldIndex ->
  exists s', setf s i t = Ok s' /\
    fields rx s' = put (fields rx s1) i t /\
    zlen (fields_true rx s') = zlen (fields rx s') /\
    line rx s' = join_fields rx s (fields rx s') /\ line_true rx s' = true /\
    nf rx s' = count_value (Z.max (zlen (fields rx s1)) i) /\
    have rx s' = true /\
    fs rx s' = fs rx s /\ fs_re rx s' = fs_re rx s /\ saved_fs rx s' = saved_fs rx s /\ saved_re rx s' = saved_re rx s /\
    ofs rx s' = ofs rx s /\ rs rx s' = rs rx s /\ inmode rx s' = inmode rx s /\ outmode rx s' = outmode rx s.
Proof.
  intros HI He Hi. unfold set_field.
  replace (i =? 0) with false by (symmetry; apply Z.eqb_neq; lia).
  replace (i >? maxFieldIndex) with false by (symmetry; destruct (Z.gtb_spec i maxFieldIndex); [lia|reflexivity]).
  rewrite He. cbn [rbind].
  destruct (ensure_ok s HI) as [Hu|(s1' & He' & HI1 & Hh & Henv & _)]; [congruence|].
  assert (s1' = s1) by congruence. subst s1'.
  destruct HI1 as (Hlen & _ & _). destruct (Hlen Hh) as [Hlen' _].
  cbv zeta. replace (i <? 1) with false by (symmetry; apply Z.ltb_ge; lia). cbv iota.
  replace (i <? 1) with false by (symmetry; apply Z.ltb_ge; lia).
  pose proof (zlen_nonneg (fields rx s1)) as Hn0.
  set (k := Z.to_nat (i - zlen (fields rx s1))).
  set (fl := fields rx s1 ++ repeat [] k).
  set (tl := fields_true rx s1 ++ repeat true k).
  assert (zlen fl = Z.max (zlen (fields rx s1)) i) as Hfl.
  { unfold fl, k. rewrite zlen_app, zlen_repeat. lia. }
  assert (zlen tl = zlen fl) as Htl.
  { unfold tl, fl. rewrite !zlen_app, !zlen_repeat. lia. }
  rewrite (list_set_ok fl (i - 1) t) by lia. cbn [rbind].
  rewrite (list_set_ok tl (i - 1) true) by lia. cbn [rbind].
  eexists. split; [reflexivity|].
  unfold with_fields. proj.
  replace (i - 1 + 1) with i by lia.
  destruct Henv as (E1 & E2 & E3 & E4 & E5 & E6 & E7 & E8 & E9 & E10).
  repeat split; auto.
  - rewrite !zlen_app, !zlen_cons, !zlen_ztake, !zlen_zdrop by lia. lia.
  - unfold join_fields. rewrite E7, E10. reflexivity.
  - f_equal. replace i with ((i - 1) + 1) at 2 by lia. rewrite zlen_list_set by lia. exact Hfl.
Qed.

(* negative index: counts from the last field; below the first field nothing happens *)
Lemma set_field_neg s s1 i t :
  Inv s -> ensure s = Ok s1 -> i < 0 ->
  let j := zlen (fields rx s1) + 1 + i in
  (j < 1 -> setf s i t = Ok s1) /\
  (1 <= j -> j <= maxFieldIndex -> setf s i t = setf s j t).
Proof.
  intros HI He Hi j. unfold set_field.
  replace (i =? 0) with false by (symmetry; apply Z.eqb_neq; lia).
  replace (i >? maxFieldIndex) with false by (symmetry; unfold maxFieldIndex; destruct (Z.gtb_spec i 1000000); [lia|reflexivity]).
  rewrite He. cbn [rbind]. cbv zeta.
  replace (i <? 1) with true by (symmetry; apply Z.ltb_lt; lia). cbv iota.
  fold j. split.
  - intros Hj. replace (j <? 1) with true by (symmetry; apply Z.ltb_lt; lia). reflexivity.
  - intros Hj1 Hj2.
    replace (j <? 1) with false by (symmetry; apply Z.ltb_ge; lia).
    replace (j =? 0) with false by (symmetry; apply Z.eqb_neq; lia).
    replace (j >? maxFieldIndex) with false by (symmetry; destruct (Z.gtb_spec j maxFieldIndex); [lia|reflexivity]).
    cbn [rbind]. replace (j <? 1) with false by (symmetry; apply Z.ltb_ge; lia). reflexivity.
Qed.

(* ---- NF assignment -------------------------------------------------------- *)

Definition resize (n : Z) (fl : list bytes) : list bytes :=
  ztake n fl ++ repeat [] (Z.to_nat (n - zlen fl)).

Lemma zlen_resize n fl : 0 <= n -> zlen (resize n fl) = n.
Proof.
  intros Hn. unfold resize. pose proof (zlen_nonneg fl) as H0. rewrite zlen_app, zlen_repeat.
  destruct (Z.le_gt_cases (zlen fl) n).
  - rewrite ztake_all by lia. lia.
  - rewrite zlen_ztake by lia. lia.
Qed.

Lemma set_nf_errors s v :
  let n := f2i64 (vnum v) in
  (n < 0 -> setnf s v = Err (msg_nf_negative ++ dec_of_Z n)) /\
  (n > maxFieldIndex -> setnf s v = Err (msg_nf_too_large ++ dec_of_Z n)).
Proof.
  intros n. unfold set_nf. fold n. split; intros H.
  - replace (n <? 0) with true by (symmetry; apply Z.ltb_lt; lia). reflexivity.
  - replace (n <? 0) with false by (symmetry; apply Z.ltb_ge; unfold maxFieldIndex in H; lia).
    replace (n >? maxFieldIndex) with true by (symmetry; apply Z.gtb_lt; lia). reflexivity.
Qed.

Lemma set_nf_spec s s1 v :
  Inv s -> ensure s = Ok s1 ->
  let n := f2i64 (vnum v) in
  0 <= n <= maxFieldIndex ->
  exists s', setnf s v = Ok s' /\
    fields rx s' = resize n (fields rx s1) /\
    zlen (fields_true rx s') = zlen (fields rx s') /\
    line rx s' = join_fields rx s (fields rx s') /\ line_true rx s' = true /\
    nf rx s' = v /\ have rx s' = true /\
    fs rx s' = fs rx s /\ fs_re rx s' = fs_re rx s /\ saved_fs rx s' = saved_fs rx s /\ saved_re rx s' = saved_re rx s /\
    ofs rx s' = ofs rx s /\ rs rx s' = rs rx s /\ inmode rx s' = inmode rx s /\ outmode rx s' = outmode rx s.
Proof.
  intros HI He n Hn. unfold set_nf. fold n.
  replace (n <? 0) with false by (symmetry; apply Z.ltb_ge; lia).
  replace (n >? maxFieldIndex) with false by (symmetry; destruct (Z.gtb_spec n maxFieldIndex); [lia|reflexivity]).
  rewrite He. cbn [rbind].
  destruct (ensure_ok s HI) as [Hu|(s1' & He' & HI1 & Hh & Henv & _)]; [congruence|].
  assert (s1' = s1) by congruence. subst s1'.
  destruct HI1 as (Hlen & _ & _). destruct (Hlen Hh) as [Hlen' _].
  pose proof (zlen_nonneg (fields rx s1)) as Hn0.
  destruct Henv as (E1 & E2 & E3 & E4 & E5 & E6 & E7 & E8 & E9 & E10).
  destruct (n <? zlen (fields rx s1)) eqn:Elt.
  - apply Z.ltb_lt in Elt.
    rewrite !slice_ok by lia. cbn [rbind]. rewrite Z.sub_0_r, !zdrop_0.
    eexists. split; [reflexivity|]. unfold with_fields. proj.
    rewrite zlen_ztake by lia. replace (Z.to_nat (n - n)) with 0%nat by lia. cbn [repeat]. rewrite !app_nil_r.
    repeat split; auto.
    + unfold resize. replace (Z.to_nat (n - zlen (fields rx s1))) with 0%nat by lia. cbn [repeat]. rewrite app_nil_r. reflexivity.
    + rewrite !zlen_ztake by lia. reflexivity.
    + unfold join_fields. rewrite E7, E10. reflexivity.
  - apply Z.ltb_ge in Elt. cbn [rbind].
    eexists. split; [reflexivity|]. unfold with_fields. proj.
    repeat split; auto.
    + unfold resize. rewrite ztake_all by lia. reflexivity.
    + rewrite !zlen_app, !zlen_repeat. lia.
    + unfold join_fields. rewrite E7, E10. reflexivity.
Qed.

(* ---- every operation preserves the invariant -------------------------------- *)

Lemma Inv_set_line s t b : Inv s -> Inv (set_line rx s t b).
Proof.
  intros (_ & _ & H3). unfold Inv, set_line. proj. split; [discriminate|]. split; exact H3.
Qed.

Lemma Inv_set_field s i t s' : Inv s -> setf s i t = Ok s' -> Inv s'.
Proof.
  intros HI H.
  destruct (Z.eq_dec i 0) as [->|Hi0].
  - rewrite set_field_zero in H. injection H as <-. apply Inv_set_line. exact HI.
  - destruct (Z_gt_dec i maxFieldIndex) as [Hbig|Hsmall].
    + rewrite set_field_too_large in H by exact Hbig. discriminate.
    + destruct (ensure_ok s HI) as [Hu|(s1 & He & HI1 & Hh & Henv & _)].
      * unfold set_field in H.
        replace (i =? 0) with false in H by (symmetry; apply Z.eqb_neq; exact Hi0).
        replace (i >? maxFieldIndex) with false in H by (symmetry; destruct (Z.gtb_spec i maxFieldIndex); [lia|reflexivity]).
        rewrite Hu in H. discriminate.
      * destruct (Z_lt_dec i 0) as [Hneg|Hpos].
        -- destruct (set_field_neg s s1 i t HI He Hneg) as [Hlow Hhigh].
           destruct (Z_lt_dec (zlen (fields rx s1) + 1 + i) 1) as [Hj|Hj].
           ++ rewrite Hlow in H by exact Hj. injection H as <-. exact HI1.
           ++ (* re-enter through the positive path, from the split state *)
              unfold set_field in H.
              replace (i =? 0) with false in H by (symmetry; apply Z.eqb_neq; exact Hi0).
              replace (i >? maxFieldIndex) with false in H by (symmetry; destruct (Z.gtb_spec i maxFieldIndex); [lia|reflexivity]).
              rewrite He in H. cbn [rbind] in H. cbv zeta in H.
              replace (i <? 1) with true in H by (symmetry; apply Z.ltb_lt; lia). cbv iota in H.
              set (j := zlen (fields rx s1) + 1 + i) in *.
              replace (j <? 1) with false in H by (symmetry; apply Z.ltb_ge; lia).
              destruct HI1 as (Hlen & Hs2 & Hs3). destruct (Hlen Hh) as [Hlen' _].
              replace (Z.to_nat (j - zlen (fields rx s1))) with 0%nat in H by lia.
              cbn [repeat] in H. rewrite !app_nil_r in H.
              pose proof (zlen_nonneg (fields rx s1)).
              rewrite (list_set_ok (fields rx s1) (j - 1) t) in H by lia. cbn [rbind] in H.
              rewrite (list_set_ok (fields_true rx s1) (j - 1) true) in H by lia. cbn [rbind] in H.
              injection H as <-. unfold Inv, with_fields. proj.
              split; [|split; assumption]. intros _. split.
              ** rewrite !zlen_list_set by lia. exact Hlen'.
              ** apply nf_trunc_count.
        -- destruct (set_field_pos s s1 i t HI He ltac:(lia)) as (s'' & Hs & Hf & Hl & _ & _ & Hnf & Hhv & F1 & F2 & F3 & F4 & _).
           assert (s'' = s') by congruence. subst s''.
           destruct HI as (_ & I2 & I3).
           unfold Inv. rewrite F1, F2, F3, F4. split; [|split; assumption].
           intros _. split; [exact Hl|]. rewrite Hnf, Hf, zlen_put by lia. apply nf_trunc_count.
Qed.

Lemma Inv_set_nf s v s' : Inv s -> setnf s v = Ok s' -> Inv s'.
Proof.
  intros HI H.
  destruct (set_nf_errors s v) as [Hneg Hbig]. set (n := f2i64 (vnum v)) in *.
  destruct (Z_lt_dec n 0) as [H1|H1]; [rewrite Hneg in H by exact H1; discriminate|].
  destruct (Z_gt_dec n maxFieldIndex) as [H2|H2]; [rewrite Hbig in H by exact H2; discriminate|].
  destruct (ensure_ok s HI) as [Hu|(s1 & He & HI1 & Hh & Henv & _)].
  - unfold set_nf in H. fold n in H.
    replace (n <? 0) with false in H by (symmetry; apply Z.ltb_ge; lia).
    replace (n >? maxFieldIndex) with false in H by (symmetry; destruct (Z.gtb_spec n maxFieldIndex); [lia|reflexivity]).
    rewrite Hu in H. discriminate.
  - destruct (set_nf_spec s s1 v HI He ltac:(fold n; lia)) as (s'' & Hs & Hf & Hl & _ & _ & Hnf & Hhv & F1 & F2 & F3 & F4 & _).
    assert (s'' = s') by congruence. subst s''.
    destruct HI as (_ & I2 & I3).
    unfold Inv. rewrite F1, F2, F3, F4. split; [|split; assumption].
    intros _. split; [exact Hl|]. rewrite Hnf, Hf. fold n. rewrite zlen_resize by lia.
    destruct (f2i64_nonneg (vnum v) ltac:(fold n; lia)) as (m & e & Hv & Ht).
    unfold nf_trunc. rewrite Hv. f_equal. exact Ht.
Qed.

Lemma Inv_ensure s s1 : Inv s -> ensure s = Ok s1 -> Inv s1.
Proof.
  intros HI He. destruct (ensure_ok s HI) as [Hu|(s1' & He' & HI1 & _)]; congruence.
Qed.

Lemma Inv_eval_idx s i s0 k : Inv s -> eval_idx rx all_matches s i = Ok (s0, k) -> Inv s0.
Proof.
  intros HI H. destruct i as [x|neg d]; cbn [eval_idx] in H.
  - injection H as <- _. exact HI.
  - destruct (ensure s) as [s1| | |] eqn:He; cbn [rbind] in H; try discriminate.
    destruct (vnum (nf rx s1)); try discriminate.
    destruct (representable _); [|discriminate]. injection H as <- _.
    exact (Inv_ensure _ _ HI He).
Qed.

Lemma Inv_get_field s k s1 f t : Inv s -> getf s k = Ok (s1, f, t) -> Inv s1.
Proof.
  intros HI H. unfold get_field in H. destruct (k =? 0).
  - injection H as <- _ _. exact HI.
  - destruct (ensure s) as [s2| | |] eqn:He; cbn [rbind] in H; try discriminate.
    pose proof (Inv_ensure _ _ HI He) as HI2.
    repeat match type of H with
           | (if ?c then _ else _) = _ => destruct c
           | rbind ?r _ = _ => destruct r; cbn [rbind] in H; try discriminate
           end; injection H as <- _ _; exact HI2.
Qed.

Lemma Inv_set_fs s f r s' : Inv s -> set_fs rx s f r = Ok s' -> Inv s'.
Proof.
  intros (H1 & H2 & H3) H. unfold set_fs in H.
  destruct (rune_count f >? 1) eqn:E.
  - destruct r as [re|]; [|discriminate]. injection H as <-. unfold Inv. proj.
    split; [exact H1|]. split; [exact H2|]. discriminate.
  - injection H as <-. unfold Inv. proj. split; [exact H1|]. split; [exact H2|].
    intros Hc. destruct (Z.gtb_spec (rune_count f) 1); [discriminate|lia].
Qed.

Theorem Inv_step s o s' w : Inv s -> exec s o = Ok (s', w) -> Inv s'.
Proof.
  intros HI H. destruct o as [t|i|i|i t|i t|t|i f| |v|f|s0 r|o|r|m|m| ]; cbn [exec_op] in H.
  - (* ReadRecord *) injection H as <- _. apply Inv_set_line. exact HI.
  - (* GetField *)
    destruct (eval_idx rx all_matches s i) as [[s0 k]| | |] eqn:E0; cbn [rbind] in H; try discriminate.
    destruct (getf s0 k) as [[[s1 f] t]| | |] eqn:E1; cbn [rbind] in H; try discriminate.
    injection H as <- _. exact (Inv_get_field _ _ _ _ _ (Inv_eval_idx _ _ _ _ HI E0) E1).
  - (* TypeOf *)
    destruct (eval_idx rx all_matches s i) as [[s0 k]| | |] eqn:E0; cbn [rbind] in H; try discriminate.
    destruct (getf s0 k) as [[[s1 f] t]| | |] eqn:E1; cbn [rbind] in H; try discriminate.
    injection H as <- _. exact (Inv_get_field _ _ _ _ _ (Inv_eval_idx _ _ _ _ HI E0) E1).
  - (* SetField *)
    destruct (eval_idx rx all_matches s i) as [[s0 k]| | |] eqn:E0; cbn [rbind] in H; try discriminate.
    destruct (setf s0 k t) as [s1| | |] eqn:E1; cbn [rbind] in H; try discriminate.
    injection H as <- _. exact (Inv_set_field _ _ _ _ (Inv_eval_idx _ _ _ _ HI E0) E1).
  - (* GetlineField *)
    destruct (eval_idx rx all_matches s i) as [[s0 k]| | |] eqn:E0; cbn [rbind] in H; try discriminate.
    destruct (setf s0 k t) as [s1| | |] eqn:E1; cbn [rbind] in H; try discriminate.
    injection H as <- _. exact (Inv_set_field _ _ _ _ (Inv_eval_idx _ _ _ _ HI E0) E1).
  - (* GetlineVar *) injection H as <- _. exact HI.
  - (* ModField *)
    destruct (eval_idx rx all_matches s i) as [[s0 k]| | |] eqn:E0; cbn [rbind] in H; try discriminate.
    destruct (getf s0 k) as [[[s1 old] tt]| | |] eqn:E1; cbn [rbind] in H; try discriminate.
    pose proof (Inv_get_field _ _ _ _ _ (Inv_eval_idx _ _ _ _ HI E0) E1) as HI1.
    destruct (f old) as [[t|]| | |]; cbn [rbind] in H; try discriminate.
    + destruct (setf s1 k t) as [s2| | |] eqn:E2; cbn [rbind] in H; try discriminate.
      injection H as <- _. exact (Inv_set_field _ _ _ _ HI1 E2).
    + injection H as <- _. exact HI1.
  - (* GetNF *)
    destruct (ensure s) as [s1| | |] eqn:E; cbn [rbind] in H; try discriminate.
    injection H as <- _. exact (Inv_ensure _ _ HI E).
  - (* SetNF *)
    destruct (setnf s v) as [s1| | |] eqn:E; cbn [rbind] in H; try discriminate.
    injection H as <- _. exact (Inv_set_nf _ _ _ HI E).
  - (* ModNF *)
    destruct (ensure s) as [s1| | |] eqn:E; cbn [rbind] in H; try discriminate.
    destruct (f (nf rx s1)) as [v| | |]; cbn [rbind] in H; try discriminate.
    destruct (setnf s1 v) as [s2| | |] eqn:E2; cbn [rbind] in H; try discriminate.
    injection H as <- _. exact (Inv_set_nf _ _ _ (Inv_ensure _ _ HI E) E2).
  - (* SetFS *)
    destruct (set_fs rx s s0 r) as [s1| | |] eqn:E; cbn [rbind] in H; try discriminate.
    injection H as <- _. exact (Inv_set_fs _ _ _ _ HI E).
  - injection H as <- _. exact HI.
  - injection H as <- _. exact HI.
  - injection H as <- _. exact HI.
  - injection H as <- _. exact HI.
  - (* ViewAll *)
    destruct (ensure s) as [s1| | |] eqn:E; cbn [rbind] in H; try discriminate.
    injection H as <- _. exact (Inv_ensure _ _ HI E).
Qed.

Lemma step_exec s o s' : step rx all_matches s o = Ok s' -> exists w, exec s o = Ok (s', w).
Proof.
  unfold step. destruct (exec s o) as [[s1 w]| | |]; cbn [rbind]; try discriminate.
  intros H; injection H as <-. exists w. reflexivity.
Qed.

Theorem Inv_run ops : forall s s', Inv s -> runs ops s = Ok s' -> Inv s'.
Proof.
  induction ops as [|o ops IH]; intros s s' HI H; cbn [run] in H.
  - injection H as <-. exact HI.
  - destruct (step rx all_matches s o) as [s1| | |] eqn:E; cbn [rbind] in H; try discriminate.
    destruct (step_exec _ _ _ E) as [w Hw]. exact (IH _ _ (Inv_step _ _ _ _ HI Hw) H).
Qed.

(* reachable states: after ANY script from the initial state *)
Theorem Inv_reachable ops s : runs ops (init rx) = Ok s -> Inv s.
Proof. apply Inv_run. apply Inv_init. Qed.

End Inv.
