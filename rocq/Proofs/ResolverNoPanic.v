(* C16: the resolver model never reaches a Go panic other than its own
   PositionErrors (no index out of range on funcInfo.Params, no nil reflect
   type), for any program whatsoever. *)
From Verif Require Import Lib.Base Model.Resolver Proofs.Resolver Proofs.ResolverFlat.
Open Scope Z_scope.

Definition safe {A} (r : rres A) : Prop := r <> RPanic /\ r <> RFuel.

Lemma safe_ok {A} (a : A) : safe (ROk a).
Proof. split; discriminate. Qed.
Lemma safe_err {A} e : safe (@RErr A e).
Proof. split; discriminate. Qed.

Lemma run_steps_app P cur a b s :
  run_steps P cur (a ++ b) s =
  match run_steps P cur a s with ROk s' => run_steps P cur b s' | RErr e => RErr e | RPanic => RPanic | RFuel => RFuel end.
Proof.
  revert s. induction a as [|st a IH]; intros s; cbn [app run_steps]; [reflexivity|].
  destruct (visit_step P cur s st); try reflexivity. apply IH.
Qed.

(* ---------- native functions are in the Funcs map -------------------------------- *)

Lemma In_insert_name x y l : In x (insert_name y l) <-> x = y \/ In x l.
Proof.
  induction l as [|z l IH]; cbn [insert_name].
  - cbn. intuition.
  - destruct (name_leb y z); cbn [In]; [intuition|]. rewrite IH. intuition.
Qed.

Lemma In_sort_names x l : In x (sort_names l) <-> In x l.
Proof.
  unfold sort_names. induction l as [|y l IH]; cbn [fold_right]; [reflexivity|].
  rewrite In_insert_name, IH. cbn [In]. intuition.
Qed.

Lemma index_of_In f l i j : index_of f l i = Some j -> In f l.
Proof.
  revert i. induction l as [|x l IH]; intros i H; cbn [index_of] in H; [discriminate|].
  destruct (neqb x f) eqn:E; [apply neqb_eq in E; left; exact E | right; eapply IH; eassumption].
Qed.

Lemma find_native_In ns f : In f (map n_name ns) -> find_native ns f <> None.
Proof.
  induction ns as [|n ns IH]; intros H; cbn [find_native map] in *; [destruct H|].
  destruct (neqb (n_name n) f) eqn:E; [discriminate|].
  destruct H as [H|H]; [apply neqb_neq in E; contradiction | apply IH; exact H].
Qed.

Lemma func_info_native P f fi :
  func_info P f = Some fi -> fi_native fi = true -> find_native (p_natives P) f <> None.
Proof.
  unfold func_info. intros H Hn. destruct (find_func P f) as [[i fd]|].
  - injection H as <-. cbn in Hn. discriminate.
  - destruct (index_of f (sort_names (map n_name (p_natives P))) 0) eqn:E; [|discriminate].
    apply find_native_In. apply In_sort_names. eapply index_of_In. exact E.
Qed.

Section NoPanic.
Variable P : program.
Variable cur : name.

Lemma record_var_safe s c v t : safe (record_var P s c v t).
Proof. apply record_var_no_panic. Qed.

Definition np_event (e : event) : Prop := forall s, safe (run_steps P cur (flat_event e) s).

Lemma np_events es : Forall np_event es -> forall s, safe (run_steps P cur (flat_events es) s).
Proof.
  unfold flat_events. induction es as [|e es IH]; intros Hall s; cbn [flat_map]; [apply safe_ok|].
  inversion Hall as [|x y H1 H2]; subst. rewrite run_steps_app.
  pose proof (H1 s) as Hs. destruct (run_steps P cur (flat_event e) s); try exact Hs.
  apply IH. exact H2.
Qed.

Lemma np_args f fi :
  func_info P f = Some fi ->
  forall l i, (fi_native fi = true \/ (i + length l <= length (fi_params fi))%nat) ->
  Forall (arg_all np_event) l ->
  forall s, safe (run_steps P cur (flat_args f i l) s).
Proof.
  intros Efi. induction l as [|a r IH]; intros i Hb Hall s; cbn [flat_args]; [apply safe_ok|].
  inversion Hall as [|x y H1 H2]; subst. cbn [length] in Hb.
  assert (Hb' : fi_native fi = true \/ (S i + length r <= length (fi_params fi))%nat) by (destruct Hb; [left; assumption | right; lia]).
  assert (Hnth : fi_native fi = false -> nth_error (fi_params fi) i <> None).
  { intros Hn. destruct Hb as [Hb|Hb]; [congruence|]. apply nth_error_Some. lia. }
  destruct a as [v|es]; cbn [flat_args run_steps visit_step]; rewrite Efi.
  - assert (Hv : safe (if fi_native fi then record_var P s cur v TScalar
                       else match nth_error (fi_params fi) i with
                            | None => RPanic
                            | Some p =>
                                let pty := get_or_unknown (st_vars s) (f, p) in
                                let vty := type_of_lookup (st_vars s) cur v in
                                if ty_eqb vty TUnknown && negb (ty_eqb pty TUnknown) then record_var P s cur v pty
                                else if negb (ty_eqb vty TUnknown) && ty_eqb pty TUnknown then record_var P s f p vty
                                else if negb (ty_eqb vty pty) && negb (ty_eqb vty TUnknown) && negb (ty_eqb pty TUnknown)
                                then RErr (EPassVar vty v pty) else record_var P s cur v TUnknown
                            end)).
    { destruct (fi_native fi) eqn:En; [apply record_var_safe|].
      destruct (nth_error (fi_params fi) i) as [p|]; [|exfalso; apply (Hnth eq_refl); reflexivity]. cbv zeta.
      destruct (_ && _); [apply record_var_safe|]. destruct (_ && _); [apply record_var_safe|].
      destruct (_ && _ && _); [apply safe_err | apply record_var_safe]. }
    match goal with |- safe (match ?r with _ => _ end) => destruct r; try exact Hv end.
    apply IH; assumption.
  - assert (Hv : safe (if fi_native fi then ROk s
                       else match nth_error (fi_params fi) i with
                            | None => RPanic
                            | Some p => match get_or_unknown (st_vars s) (f, p) with TArray => RErr EPassExpr | _ => ROk s end
                            end)).
    { destruct (fi_native fi) eqn:En; [apply safe_ok|].
      destruct (nth_error (fi_params fi) i) as [p|]; [|exfalso; apply (Hnth eq_refl); reflexivity].
      destruct (get_or_unknown (st_vars s) (f, p)); (apply safe_ok || apply safe_err). }
    match goal with |- safe (match ?r with _ => _ end) => destruct r as [s1| | |]; try exact Hv end.
    rewrite run_steps_app. pose proof (np_events es H1 s1) as Hes.
    destruct (run_steps P cur (flat_events es) s1); try exact Hes.
    apply IH; assumption.
Qed.

Lemma np_all e : np_event e.
Proof.
  induction e as [v t|f args IH] using event_ind'; intros s.
  - cbn [flat_event run_steps visit_step]. pose proof (record_var_safe s cur v t) as H.
    destruct (record_var P s cur v t); exact H.
  - rewrite flat_event_call. cbn [run_steps visit_step].
    destruct (match lookup_var (st_vars s) cur f with Some (_, _, vf) => negb (is_empty vf) | None => false end); [apply safe_err|].
    destruct (func_info P f) as [fi|] eqn:Efi; [|apply safe_err].
    destruct (fi_native fi) eqn:En.
    + destruct (find_native (p_natives P) f) as [nt|] eqn:Enat; [|apply safe_err].
      destruct (n_func nt); cbn [negb]; [|apply safe_err].
      destruct (_ <? zlen args); [apply safe_err|].
      apply (np_args f fi Efi); [left; exact En | exact IH].
    + destruct (zlen (fi_params fi) <? zlen args) eqn:El; [apply safe_err|].
      apply Z.ltb_ge in El. unfold zlen in El.
      apply (np_args f fi Efi); [right; lia | exact IH].
Qed.

Lemma run_body_safe es s : safe (run_steps P cur (flat_events es) s).
Proof. apply np_events. apply Forall_forall. intros e _. apply np_all. Qed.

End NoPanic.

Lemma walk_funcs_safe P order s : safe (walk_funcs P order s).
Proof.
  revert s. induction order as [|fn order IH]; intros s; cbn [walk_funcs]; [apply safe_ok|].
  destruct (is_empty fn); [apply IH|]. destruct (find_func P fn) as [[i fd]|]; [|apply IH].
  pose proof (run_body_safe P fn (f_body fd) s) as H.
  destruct (run_steps P fn (flat_events (f_body fd)) s); try exact H. apply IH.
Qed.

Lemma walk_ordered_safe P order s : safe (walk_ordered P order s).
Proof.
  unfold walk_ordered. pose proof (walk_funcs_safe P order s) as H.
  destruct (walk_funcs P order s); try exact H. apply run_body_safe.
Qed.

Lemma pass_loop_safe P order k s u : safe (pass_loop P order k s u).
Proof.
  revert s u. induction k as [|k IH]; intros s u; cbn [pass_loop].
  - destruct (st_updates s =? u); [apply safe_ok|].
    pose proof (walk_ordered_safe P order s) as H. destruct (walk_ordered P order s); try exact H. apply safe_err.
  - destruct (st_updates s =? u); [apply safe_ok|].
    pose proof (walk_ordered_safe P order s) as H. destruct (walk_ordered P order s); try exact H. apply IH.
Qed.

(* NO PANIC: for every program and every processing order *)
Ltac fin H := first [ exact H | apply safe_err | (exfalso; destruct H as [Ha Hb]; congruence) ].

Theorem resolve_order_safe cut order P : safe (resolve_order cut order P).
Proof.
  unfold resolve_order. destruct (first_dup [] (fnames P)); [apply safe_err|].
  set (s0 := {| st_vars := init_vars P; st_updates := 0 |}).
  pose proof (record_var_no_panic P s0 [] n_ARGV TArray) as H1.
  destruct (record_var P s0 [] n_ARGV TArray) as [s1| | |]; try (fin H1). cbn [rbind2].
  pose proof (record_var_no_panic P s1 [] n_ENVIRON TArray) as H2.
  destruct (record_var P s1 [] n_ENVIRON TArray) as [s2| | |]; try (fin H2). cbn [rbind2].
  pose proof (record_var_no_panic P s2 [] n_FIELDS TArray) as H3.
  destruct (record_var P s2 [] n_FIELDS TArray) as [s3| | |]; try (fin H3). cbn [rbind2].
  pose proof (walk_ordered_safe P order s3) as H4.
  destruct (walk_ordered P order s3) as [s4| | |]; try (fin H4). cbn [rbind2].
  pose proof (pass_loop_safe P order cut s4 (st_updates s3)) as H5.
  destruct (pass_loop P order cut s4 (st_updates s3)) as [s5| | |]; try (fin H5). apply safe_ok.
Qed.

Theorem resolve_cut_no_panic cut pi P : resolve_cut cut pi P <> RPanic.
Proof.
  unfold resolve_cut. destruct (first_dup [] (fnames P)); [discriminate|].
  destruct (ordered_funcs pi P); [apply resolve_order_safe | discriminate].
Qed.
