(* goawk level: interp.newScanner's dispatch on RS, and what holds for each kind of RS. *)
From Verif Require Import Lib.Base Model.Scanner Model.Splitters
  Proofs.Scanner Proofs.Splitters Proofs.SplittersBlank.

(* RS is handled by regexSplitter: not "\n", and two or more bytes *)
Definition rs_is_regex (rs : bytes) : bool :=
  negb (bytes_eqb rs [10]) && (2 <=? zlen rs).

Section Goawk.
  Variable find : bytes -> option (Z * Z).
  Hypothesis find_bounds : forall d s e, find d = Some (s, e) -> 0 <= s /\ s <= e /\ e <= zlen d.

  Lemma goawk_split_stable rs :
    (rs_is_regex rs = true -> match_final find) ->
    stable unit record (goawk_split rs find).
  Proof.
    intros Hre. unfold goawk_split, new_scanner_raw.
    destruct (bytes_eqb rs [10]) eqn:E.
    - apply bytes_eqb_eq in E. subst rs. exact lines_stable.
    - destruct rs as [|c [|c2 rs]].
      + exact blank_full_stable.
      + exact (byte_stable c).
      + apply regex_stable; [exact find_bounds|]. apply Hre.
        unfold rs_is_regex. rewrite E. cbn [negb andb]. rewrite !zlen_cons.
        pose proof (zlen_nonneg rs). apply Z.leb_le. lia.
  Qed.

  (* every RS: records AND RT are independent of the delivery (a regex RS needs match_final) *)
  Theorem goawk_chunk_independence rs :
    (rs_is_regex rs = true -> match_final find) ->
    forall last_eof chunks, reader_ok last_eof O chunks ->
    scan unit record (goawk_split rs find) last_eof tt chunks
    = scan unit record (goawk_split rs find) false tt [concat chunks].
  Proof.
    intros Hre last_eof chunks Hr.
    apply chunk_independence; [apply goawk_split_stable; assumption|exact Hr].
  Qed.

  (* RS = "": ($0, RT) and NR are independent of the delivery, unconditionally *)
  Theorem goawk_blank_chunk_independent :
    forall last_eof chunks, reader_ok last_eof O chunks ->
    scan unit record (goawk_split [] find) last_eof tt chunks
    = scan unit record (goawk_split [] find) false tt [concat chunks].
  Proof.
    intros last_eof chunks Hr. apply goawk_chunk_independence; [|exact Hr].
    unfold rs_is_regex. cbn. discriminate.
  Qed.

  (* every split function of goawk: never panics, advances within the data, never delivers a
     token without advancing (so bufio's "too many empty tokens" panic and the errors
     ErrNegativeAdvance / ErrAdvanceTooFar are unreachable) *)
  Lemma goawk_split_rec_wb rs : wb unit bytes (to_split_rec (new_scanner_raw rs find)).
  Proof.
    assert (G : forall f, wb unit record (to_split rs f) -> wb unit bytes (to_split_rec f)).
    { intros f W. split.
      - intros st d e. destruct (wb_ok _ _ _ W st d e) as (adv & tok & st' & Hs & Hb & Hp).
        rewrite (to_split_rec_map rs f), Hs. cbn [map_sres].
        eexists _, _, _. split; [reflexivity|]. split; [exact Hb|].
        intros Ht. apply Hp. destruct tok; [discriminate|]. exfalso; apply Ht; reflexivity.
      - intros st. rewrite (to_split_rec_map rs f), (wb_empty _ _ _ W). reflexivity. }
    unfold new_scanner_raw. destruct (bytes_eqb rs [10]) eqn:E.
    - apply bytes_eqb_eq in E. subst rs. apply G. exact (st_wb _ _ _ lines_stable).
    - destruct rs as [|c [|c2 rs]].
      + exact blank_rec_wb.
      + apply G. exact (st_wb _ _ _ (byte_stable c)).
      + apply G. apply regex_wb. exact find_bounds.
  Qed.

  Theorem goawk_scan_never_fails rs last_eof chunks :
    reader_ok last_eof O chunks ->
    snd (scan unit record (goawk_split rs find) last_eof tt chunks) = Done.
  Proof.
    intros Hr.
    assert (W : wb unit record (goawk_split rs find)).
    { pose proof (goawk_split_rec_wb rs) as W. split.
      - intros st d e. destruct (wb_ok _ _ _ W st d e) as (adv & tok & st' & Hs & Hb & Hp).
        rewrite (to_split_rec_map rs) in Hs. fold (goawk_split rs find) in Hs.
        destruct (goawk_split rs find st d e) as [a t s|]; [|discriminate].
        cbn [map_sres] in Hs. injection Hs as <- Ht <-.
        eexists _, _, _. split; [reflexivity|]. split; [exact Hb|].
        intros Hn. apply Hp. rewrite <- Ht. destruct t; [discriminate|congruence].
      - intros st. pose proof (wb_empty _ _ _ W st) as Hs.
        rewrite (to_split_rec_map rs) in Hs. fold (goawk_split rs find) in Hs.
        destruct (goawk_split rs find st [] false) as [a t s|]; [|discriminate].
        cbn [map_sres] in Hs. injection Hs as <- Ht <-. destruct t; [discriminate|reflexivity]. }
    exact (scan_from_done unit record _ W last_eof chunks tt [] O Hr).
  Qed.

  (* regex RS: record ++ RT, concatenated in order, is the input - for EVERY delivery, also
     the ones on which the records themselves depend on the delivery (F-C07-1) *)
  Theorem goawk_regex_lossless rs : rs_is_regex rs = true ->
    forall last_eof chunks, reader_ok last_eof O chunks ->
    let r := scan unit record (goawk_split rs find) last_eof tt chunks in
    snd r = Done /\ concat (map (fun t => fst t ++ snd t) (fst r)) = concat chunks.
  Proof.
    intros Hre last_eof chunks Hr.
    unfold rs_is_regex in Hre. apply andb_true_iff in Hre as [E1 E2].
    apply negb_true_iff in E1. apply Z.leb_le in E2.
    unfold goawk_split, new_scanner_raw. rewrite E1.
    destruct rs as [|c [|c2 rs]]; [rewrite zlen_nil in E2; lia|rewrite zlen_cons, zlen_nil in E2; lia|].
    exact (scan_lossless unit record _ _ (regex_consuming find (c :: c2 :: rs) find_bounds)
             last_eof chunks tt [] O Hr).
  Qed.
End Goawk.
