(* C16: proofs about the resolver model, part 1: table and scoping lemmas,
   the invariants of a pass, soundness and completeness of [resolve_order]. *)
From Verif Require Import Lib.Base Model.Resolver.
Open Scope Z_scope.

(* ---------- names, keys, tables -------------------------------------- *)

Lemma neqb_eq a b : neqb a b = true <-> a = b.
Proof. apply bytes_eqb_eq. Qed.

Lemma neqb_refl a : neqb a a = true.
Proof. apply neqb_eq. reflexivity. Qed.

Lemma neqb_neq a b : neqb a b = false <-> a <> b.
Proof.
  split.
  - intros H E. apply neqb_eq in E. congruence.
  - intros H. destruct (neqb a b) eqn:E; [apply neqb_eq in E; contradiction | reflexivity].
Qed.

Lemma neqb_sym a b : neqb a b = neqb b a.
Proof.
  destruct (neqb a b) eqn:E.
  - apply neqb_eq in E. subst. symmetry. apply neqb_refl.
  - symmetry. apply neqb_neq. apply neqb_neq in E. congruence.
Qed.

Lemma mem_In x l : mem x l = true <-> In x l.
Proof.
  unfold mem. rewrite existsb_exists. split.
  - intros [y [Hy E]]. apply neqb_eq in E. subst. exact Hy.
  - intros H. exists x. split; [exact H | apply neqb_refl].
Qed.

Lemma mem_not_In x l : mem x l = false <-> ~ In x l.
Proof.
  split.
  - intros H HI. apply mem_In in HI. congruence.
  - intros H. destruct (mem x l) eqn:E; [apply mem_In in E; contradiction | reflexivity].
Qed.

Lemma is_empty_nil n : is_empty n = true <-> n = [].
Proof. destruct n; cbn; split; intro H; congruence. Qed.

Lemma is_empty_false n : is_empty n = false <-> n <> [].
Proof. destruct n; cbn; split; intro H; congruence. Qed.

Lemma key_eqb_eq a b : key_eqb a b = true <-> a = b.
Proof.
  destruct a as [a1 a2], b as [b1 b2]. unfold key_eqb. cbn [fst snd].
  rewrite andb_true_iff, !neqb_eq. split.
  - intros [-> ->]. reflexivity.
  - intros H. injection H as -> ->. split; reflexivity.
Qed.

Lemma key_eqb_refl a : key_eqb a a = true.
Proof. apply key_eqb_eq. reflexivity. Qed.

Lemma key_eqb_neq a b : key_eqb a b = false <-> a <> b.
Proof.
  split.
  - intros H E. apply key_eqb_eq in E. congruence.
  - intros H. destruct (key_eqb a b) eqn:E; [apply key_eqb_eq in E; contradiction | reflexivity].
Qed.

Lemma get_put_same t k v : get (put t k v) k = Some v.
Proof.
  induction t as [|[k' v'] t IH]; cbn [put get].
  - rewrite key_eqb_refl. reflexivity.
  - destruct (key_eqb k k') eqn:E; cbn [get].
    + rewrite key_eqb_refl. reflexivity.
    + rewrite E. exact IH.
Qed.

Lemma get_put_other t k v k' : k' <> k -> get (put t k v) k' = get t k'.
Proof.
  intros Hne. induction t as [|[k0 v0] t IH]; cbn [put get].
  - apply key_eqb_neq in Hne. rewrite Hne. reflexivity.
  - destruct (key_eqb k k0) eqn:E; cbn [get].
    + apply key_eqb_eq in E. subst k0. apply key_eqb_neq in Hne. rewrite Hne. reflexivity.
    + destruct (key_eqb k' k0); [reflexivity | exact IH].
Qed.

Lemma get_put t k v k' : get (put t k v) k' = if key_eqb k' k then Some v else get t k'.
Proof.
  destruct (key_eqb k' k) eqn:E.
  - apply key_eqb_eq in E. subst. apply get_put_same.
  - apply key_eqb_neq in E. apply get_put_other. exact E.
Qed.

(* [(x, y)] with x : list Z and with x : name are the same term up to conversion only *)
Ltac norm := change (@pair (list Z) name) with (@pair name name) in *.
Notation gk v := (@pair name name (@nil Z) v).

Definition isarr (t : ty) : bool := match t with TArray => true | _ => false end.

Lemma ty_eqb_eq a b : ty_eqb a b = true <-> a = b.
Proof. destruct a, b; cbn; split; intro H; congruence. Qed.

Lemma ty_eqb_neq a b : ty_eqb a b = false <-> a <> b.
Proof. destruct a, b; cbn; split; intro H; congruence. Qed.

(* ---------- functions of a program ------------------------------------ *)

Lemma find_func_from_In fs f i j fd :
  find_func_from fs f i = Some (j, fd) -> In fd fs /\ f_name fd = f.
Proof.
  revert i. induction fs as [|fd0 fs IH]; intros i H; cbn [find_func_from] in H; [discriminate|].
  destruct (neqb (f_name fd0) f) eqn:E.
  - injection H as <- <-. apply neqb_eq in E. split; [left; reflexivity | exact E].
  - apply IH in H. destruct H as [H1 H2]. split; [right; exact H1 | exact H2].
Qed.

Lemma find_func_from_none fs f i :
  find_func_from fs f i = None <-> ~ In f (map f_name fs).
Proof.
  revert i. induction fs as [|fd0 fs IH]; intros i; cbn [find_func_from map].
  - split; [intros _ [] | reflexivity].
  - destruct (neqb (f_name fd0) f) eqn:E.
    + apply neqb_eq in E. split; [discriminate | intros H; exfalso; apply H; left; exact E].
    + apply neqb_neq in E. rewrite IH. split.
      * intros H [H1|H1]; [contradiction | contradiction].
      * intros H H1. apply H. right. exact H1.
Qed.

Lemma find_func_from_nodup fs fd i :
  NoDup (map f_name fs) -> In fd fs -> exists j, find_func_from fs (f_name fd) i = Some (j, fd).
Proof.
  revert i. induction fs as [|fd0 fs IH]; intros i Hnd Hin; [destruct Hin|].
  cbn [find_func_from]. cbn [map] in Hnd. inversion Hnd as [|x l Hnotin Hnd']; subst.
  destruct Hin as [->|Hin].
  - rewrite neqb_refl. eexists; reflexivity.
  - destruct (neqb (f_name fd0) (f_name fd)) eqn:E.
    + apply neqb_eq in E. exfalso. apply Hnotin. rewrite E. apply in_map. exact Hin.
    + apply IH; assumption.
Qed.

Lemma first_dup_none seen l :
  first_dup seen l = None -> NoDup l /\ forall x, In x l -> ~ In x seen.
Proof.
  revert seen. induction l as [|x l IH]; intros seen H; cbn [first_dup] in H.
  - split; [constructor | intros x []].
  - destruct (mem x seen) eqn:E; [discriminate|].
    apply IH in H. destruct H as [Hnd Hns]. apply mem_not_In in E. split.
    + constructor; [|exact Hnd]. intros Hx. apply (Hns x Hx). left; reflexivity.
    + intros y [<-|Hy]; [exact E|]. intros Hys. apply (Hns y Hy). right; exact Hys.
Qed.

Lemma is_func_In P f : is_func P f = true <-> In f (fnames P).
Proof. apply mem_In. Qed.

Lemma find_func_is_func P f : is_func P f = true <-> exists i fd, find_func P f = Some (i, fd).
Proof.
  unfold find_func. rewrite is_func_In. unfold fnames. split.
  - intros H. destruct (find_func_from (p_funcs P) f 0) as [[i fd]|] eqn:E.
    + eauto.
    + apply find_func_from_none in E. contradiction.
  - intros [i [fd H]]. destruct (in_dec (list_eq_dec Z.eq_dec) f (map f_name (p_funcs P))) as [Hi|Hn]; [exact Hi|].
    apply find_func_from_none with (i := 0) in Hn. congruence.
Qed.

(* ---------- the static environment ------------------------------------- *)

Section Env.
Variable P : program.
Hypothesis Hnodup : NoDup (fnames P).
Hypothesis Hnonempty : forall fd, In fd (p_funcs P) -> f_name fd <> [].

Lemma find_func_In f i fd : find_func P f = Some (i, fd) -> In fd (p_funcs P) /\ f_name fd = f.
Proof. apply find_func_from_In. Qed.

Lemma find_func_of_In fd : In fd (p_funcs P) -> exists i, find_func P (f_name fd) = Some (i, fd).
Proof. intros H. apply find_func_from_nodup; assumption. Qed.

Lemma find_func_nonempty f i fd : find_func P f = Some (i, fd) -> f <> [].
Proof. intros H. apply find_func_In in H. destruct H as [H1 <-]. apply Hnonempty. exact H1. Qed.

Lemma params_of_nil : params_of P [] = [].
Proof.
  unfold params_of. destruct (find_func P []) as [[i fd]|] eqn:E; [|reflexivity].
  apply find_func_nonempty in E. contradiction.
Qed.

(* awk (non-native) function information *)
Lemma func_info_awk f fi :
  func_info P f = Some fi -> fi_native fi = false ->
  f <> [] /\ fi_params fi = params_of P f /\ is_func P f = true.
Proof.
  unfold func_info, params_of. intros H Hn.
  destruct (find_func P f) as [[i fd]|] eqn:E.
  - injection H as <-. cbn. split; [eapply find_func_nonempty; eassumption|]. split; [reflexivity|].
    apply find_func_is_func. eauto.
  - destruct (index_of f _ 0); [injection H as <-; cbn in Hn; discriminate | discriminate].
Qed.

(* keys *)
Definition kspecial (k : key) : bool := is_empty (fst k) && special (snd k).
Definition kty (t : vtable) (k : key) : ty := if kspecial k then TScalar else get_or_unknown t k.
Definition present (t : vtable) (k : key) : Prop := kspecial k = true \/ get t k <> None.

Lemma scope_key_snd cur v : snd (scope_key P cur v) = v.
Proof. unfold scope_key. destruct (_ && _); reflexivity. Qed.

Lemma scope_key_cases cur v :
  (cur <> [] /\ In v (params_of P cur) /\ scope_key P cur v = (cur, v)) \/
  ((cur = [] \/ ~ In v (params_of P cur)) /\ scope_key P cur v = (gk v)).
Proof.
  unfold scope_key. destruct (is_empty cur) eqn:E1; cbn [negb andb].
  - right. split; [left; apply is_empty_nil; exact E1 | reflexivity].
  - destruct (mem v (params_of P cur)) eqn:E2.
    + left. apply is_empty_false in E1. apply mem_In in E2. auto.
    + right. apply mem_not_In in E2. auto.
Qed.

Lemma scope_key_param (f p : name) : f <> [] -> In p (params_of P f) -> scope_key P f p = (f, p).
Proof.
  intros Hf Hp. destruct (scope_key_cases f p) as [[_ [_ H]]|[[H|H] _]]; [exact H | contradiction | contradiction].
Qed.

(* table invariant: the local keys are exactly the parameters; no special global *)
Definition inv (t : vtable) : Prop :=
  (forall fn v : name, fn <> [] -> (get t (fn, v) <> None <-> In v (params_of P fn))) /\
  (forall v : name, special v = true -> get t (gk v) = None).

Lemma lookup_spec t cur v :
  inv t ->
  let k := scope_key P cur v in
  lookup_var t cur v =
    if kspecial k then Some (Special, TScalar, [])
    else match get t k with
         | Some ty0 => Some (if is_empty (fst k) then Global else Local, ty0, fst k)
         | None => None
         end.
Proof.
  intros [I1 I2] k. unfold lookup_var, k.
  destruct (scope_key_cases cur v) as [[Hc [Hp ->]]|[Hc ->]].
  - unfold kspecial. cbn [fst snd]. apply is_empty_false in Hc. rewrite Hc. cbn [andb].
    apply is_empty_false in Hc. norm.
    destruct (get t (cur, v)) eqn:G; [reflexivity|].
    exfalso. apply (I1 cur v Hc) in Hp. contradiction.
  - unfold kspecial. cbn [fst snd is_empty andb].
    assert (Hl : (if is_empty cur then None else get t (cur, v)) = None).
    { destruct (is_empty cur) eqn:E; [reflexivity|]. apply is_empty_false in E.
      destruct Hc as [Hc|Hc]; [contradiction|].
      destruct (get t (cur, v)) eqn:G; [|reflexivity].
      exfalso. apply Hc. apply (I1 cur v E). norm. congruence. }
    rewrite Hl. norm. destruct (special v); [reflexivity|]. destruct (get t (gk v)); reflexivity.
Qed.

Lemma type_of_lookup_kty t cur v : inv t -> type_of_lookup t cur v = kty t (scope_key P cur v).
Proof.
  intros Hi. unfold type_of_lookup, kty, get_or_unknown. rewrite (lookup_spec t cur v Hi). cbv zeta.
  destruct (kspecial (scope_key P cur v)); [reflexivity|].
  destruct (get t (scope_key P cur v)); reflexivity.
Qed.

Lemma local_present t (f p : name) : inv t -> f <> [] -> In p (params_of P f) -> get t (f, p) <> None.
Proof. intros [I1 _] Hf Hp. apply I1; assumption. Qed.

Lemma kty_local t (f p : name) : f <> [] -> kty t (f, p) = get_or_unknown t (f, p).
Proof.
  intros Hf. unfold kty, kspecial. cbn [fst]. apply is_empty_false in Hf. rewrite Hf. reflexivity.
Qed.

Lemma inv_put_existing t k v : inv t -> get t k <> None -> inv (put t k v).
Proof.
  intros [I1 I2] Hk. split.
  - intros fn x Hfn. rewrite get_put. destruct (key_eqb (fn, x) k) eqn:E.
    + apply key_eqb_eq in E. subst k. split; [intros _; apply (I1 fn x Hfn); exact Hk | intros _; discriminate].
    + apply I1. exact Hfn.
  - intros x Hx. rewrite get_put. destruct (key_eqb (gk x) k) eqn:E.
    + apply key_eqb_eq in E. subst k. exfalso. apply Hk. apply I2. exact Hx.
    + apply I2. exact Hx.
Qed.

Lemma inv_put_global t v ty0 : inv t -> special v = false -> inv (put t (gk v) ty0).
Proof.
  intros [I1 I2] Hv. split.
  - intros fn x Hfn. rewrite get_put_other; [apply I1; exact Hfn|]. intros E. injection E as E _. contradiction.
  - intros x Hx. rewrite get_put_other; [apply I2; exact Hx|]. intros E. injection E as ->. congruence.
Qed.

(* ---------- forcedness --------------------------------------------------- *)

Definition forced (t : vtable) : Prop :=
  forall rho, solution P rho -> forall k ty0, get t k = Some ty0 -> ty0 <> TUnknown -> rho k = isarr ty0.

Lemma sol_special rho (v : name) : solution P rho -> special v = true -> rho (gk v) = false.
Proof.
  intros Hs Hv. apply mem_In in Hv.
  specialize (Hs (CIs (gk v) TScalar)). cbn [holds] in Hs. apply Hs.
  unfold constraints, base_constraints. apply in_or_app. left. apply in_or_app. right.
  apply in_map_iff. exists v. split; [reflexivity | exact Hv].
Qed.

Lemma forced_kty t rho k : inv t -> forced t -> solution P rho -> kty t k <> TUnknown -> rho k = isarr (kty t k).
Proof.
  intros Hi Hf Hs Hk. unfold kty in *. destruct (kspecial k) eqn:E.
  - unfold kspecial in E. apply andb_true_iff in E. destruct E as [E1 E2].
    destruct k as [fn v]. cbn [fst snd] in *. apply is_empty_nil in E1. subst fn.
    cbn [isarr]. apply sol_special; assumption.
  - unfold get_or_unknown in *. destruct (get t k) eqn:G; [|congruence].
    apply (Hf rho Hs k t0 G Hk).
Qed.

Lemma forced_put t k ty0 :
  forced t -> (forall rho, solution P rho -> ty0 <> TUnknown -> rho k = isarr ty0) -> forced (put t k ty0).
Proof.
  intros Hf Hj rho Hs k' t' G Ht'. rewrite get_put in G. destruct (key_eqb k' k) eqn:E.
  - apply key_eqb_eq in E. subst k'. injection G as <-. apply Hj; assumption.
  - apply (Hf rho Hs k' t' G Ht').
Qed.

(* ---------- recordVar ----------------------------------------------------- *)

Definition state_ok (s : state) : Prop := inv (st_vars s) /\ forced (st_vars s).

(* what a call of recordVar that changed nothing tells about the table *)
Definition rec_holds (t : vtable) (k : key) (typ : ty) : Prop :=
  present t k /\ (typ = TUnknown \/ kty t k = typ).

Lemma record_var_ok s cur v typ s' :
  state_ok s ->
  (forall rho, solution P rho -> typ <> TUnknown -> rho (scope_key P cur v) = isarr typ) ->
  record_var P s cur v typ = ROk s' ->
  state_ok s' /\ st_updates s <= st_updates s' /\
  (st_updates s' = st_updates s -> s' = s /\ rec_holds (st_vars s) (scope_key P cur v) typ).
Proof.
  intros [Hi Hf] Hj H. unfold record_var in H. rewrite (lookup_spec _ cur v Hi) in H. cbv zeta in H.
  set (k := scope_key P cur v) in *.
  assert (Hsnd : snd k = v) by apply scope_key_snd.
  destruct (kspecial k) eqn:Ek.
  - (* special: scalar *)
    cbn [ty_eqb negb andb] in H.
    destruct typ; cbn [ty_eqb negb andb] in H; try discriminate; injection H as <-.
    + split; [split; assumption|]. split; [lia|]. intros _. split; [reflexivity|].
      split; [left; exact Ek | left; reflexivity].
    + split; [split; assumption|]. split; [lia|]. intros _. split; [reflexivity|].
      split; [left; exact Ek | right; unfold kty; rewrite Ek; reflexivity].
  - destruct (get (st_vars s) k) as [ity|] eqn:G.
    + assert (Hk : (fst k, v) = k) by (destruct k; cbn in *; congruence).
      rewrite Hk in H.
      destruct (negb (ty_eqb ity typ) && negb (ty_eqb ity TUnknown) && negb (ty_eqb typ TUnknown)) eqn:C1; [discriminate|].
      destruct (ty_eqb ity TUnknown && negb (ty_eqb typ TUnknown)) eqn:C2; injection H as <-; cbn [st_vars st_updates].
      * split.
        { split; [apply inv_put_existing; [exact Hi | congruence] | apply forced_put; [exact Hf | exact Hj]]. }
        split; [lia|]. intros Hu. lia.
      * split; [split; assumption|]. split; [lia|]. intros _. split; [reflexivity|].
        split; [right; congruence|].
        unfold kty. rewrite Ek. unfold get_or_unknown. rewrite G.
        destruct ity, typ; cbn in C1, C2; try discriminate; auto.
    + (* new global *)
      assert (Hkg : k = (gk v)).
      { unfold k. destruct (scope_key_cases cur v) as [[Hc [Hp E]]|[_ E]]; [|exact E].
        exfalso. fold k in E. rewrite E in G. apply (local_present _ cur v Hi Hc Hp). exact G. }
      destruct (is_func P v); [discriminate|]. injection H as <-. cbn [st_vars st_updates].
      assert (Hsp : special v = false).
      { rewrite Hkg in Ek. unfold kspecial in Ek. cbn [fst snd is_empty andb] in Ek. exact Ek. }
      split.
      { norm. split; [apply inv_put_global; assumption|]. apply forced_put; [exact Hf|]. rewrite <- Hkg. exact Hj. }
      split; [lia|]. intros Hu. lia.
Qed.

Lemma record_var_err s cur v typ e :
  state_ok s ->
  (forall rho, solution P rho -> typ <> TUnknown -> rho (scope_key P cur v) = isarr typ) ->
  record_var P s cur v typ = RErr e ->
  (is_type_error e = true -> ~ sat P) /\
  (is_type_error e = false -> e = EGlobalFunc v /\ is_func P v = true /\
                               kspecial (scope_key P cur v) = false /\ fst (scope_key P cur v) = []).
Proof.
  intros [Hi Hf] Hj H. unfold record_var in H. rewrite (lookup_spec _ cur v Hi) in H. cbv zeta in H.
  set (k := scope_key P cur v) in *.
  destruct (kspecial k) eqn:Ek.
  - destruct typ; cbn [ty_eqb negb andb] in H; try discriminate. injection H as <-. cbn [is_type_error].
    split; [|discriminate]. intros _ [rho Hs].
    assert (H1 : rho k = true) by (apply Hj; [exact Hs | discriminate]).
    unfold kspecial in Ek. apply andb_true_iff in Ek. destruct Ek as [E1 E2].
    destruct k as [fn x]. cbn [fst snd] in *. apply is_empty_nil in E1. subst fn.
    pose proof (sol_special rho x Hs E2) as H2. norm. congruence.
  - destruct (get (st_vars s) k) as [ity|] eqn:G.
    + destruct (negb (ty_eqb ity typ) && negb (ty_eqb ity TUnknown) && negb (ty_eqb typ TUnknown)) eqn:C1.
      * injection H as <-. cbn [is_type_error]. split; [|discriminate]. intros _ [rho Hs].
        apply andb_true_iff in C1. destruct C1 as [C1 C3]. apply andb_true_iff in C1. destruct C1 as [C1 C2].
        apply negb_true_iff in C1, C2, C3. apply ty_eqb_neq in C1, C2, C3.
        assert (H1 : rho k = isarr typ) by (apply Hj; assumption).
        assert (H2 : rho k = isarr ity) by (apply (Hf rho Hs k ity G C2)).
        destruct ity, typ; cbn in H1, H2; congruence.
      * destruct (ty_eqb ity TUnknown && negb (ty_eqb typ TUnknown)); discriminate.
    + destruct (is_func P v) eqn:Ef; [|discriminate]. injection H as <-. cbn [is_type_error].
      split; [discriminate|]. intros _. split; [reflexivity|]. split; [reflexivity|]. split; [reflexivity|].
      unfold k. destruct (scope_key_cases cur v) as [[Hc [Hp E]]|[_ E]]; [|rewrite E; reflexivity].
      exfalso. fold k in E. rewrite E in G. apply (local_present _ cur v Hi Hc Hp). exact G.
Qed.

(* a rejection by recordVar that is not a type error is the name clash *)
Lemma record_var_struct s cur v typ e :
  inv (st_vars s) ->
  record_var P s cur v typ = RErr e -> is_type_error e = false ->
  is_func P v = true /\ kspecial (scope_key P cur v) = false /\ fst (scope_key P cur v) = [].
Proof.
  intros Hi H. unfold record_var in H. rewrite (lookup_spec _ cur v Hi) in H. cbv zeta in H.
  set (k := scope_key P cur v) in *.
  destruct (kspecial k) eqn:Ek.
  - destruct typ; cbn [ty_eqb negb andb] in H; try discriminate. injection H as <-. cbn. discriminate.
  - destruct (get (st_vars s) k) as [ity|] eqn:G.
    + destruct (_ && _ && _); [injection H as <-; cbn; discriminate|].
      destruct (_ && _); discriminate.
    + destruct (is_func P v) eqn:Ef; [|discriminate]. intros _. split; [reflexivity|]. split; [reflexivity|].
      unfold k. destruct (scope_key_cases cur v) as [[Hc [Hp E]]|[_ E]]; [|rewrite E; reflexivity].
      exfalso. fold k in E. rewrite E in G. apply (local_present _ cur v Hi Hc Hp). exact G.
Qed.

Lemma record_var_no_panic s cur v typ : record_var P s cur v typ <> RPanic /\ record_var P s cur v typ <> RFuel.
Proof.
  unfold record_var. destruct (lookup_var (st_vars s) cur v) as [[[sc ity] vf]|].
  - destruct (_ && _ && _); [split; discriminate|]. destruct (_ && _); split; discriminate.
  - destruct (is_func P v); split; discriminate.
Qed.

(* ---------- one step -------------------------------------------------------- *)

(* the step belongs to the program: its constraints are constraints of P *)
Definition step_in (cur : name) (st : step) : Prop :=
  forall c, In c (constr_of_step P cur st) -> In c (constraints P).

Definition holds3 (t : vtable) (c : constr) : Prop :=
  match c with
  | CIs k ty0 => ty0 = TUnknown \/ kty t k = ty0
  | CEq k1 k2 => kty t k1 = kty t k2
  | CNotArr k => kty t k <> TArray
  end.

(* what a step that changed nothing tells about the table *)
Definition step_holds (t : vtable) (cur : name) (st : step) : Prop :=
  (forall c, In c (constr_of_step P cur st) -> holds3 t c) /\
  match st with
  | SUse v _ | SArgVar _ _ v => present t (scope_key P cur v)
  | _ => True
  end.

Lemma just_of_CIs cur st k typ :
  step_in cur st -> In (CIs k typ) (constr_of_step P cur st) ->
  forall rho, solution P rho -> typ <> TUnknown -> rho k = isarr typ.
Proof.
  intros Hin Hc rho Hs Ht. specialize (Hs _ (Hin _ Hc)). cbn [holds] in Hs.
  destruct typ; [congruence | exact Hs | exact Hs].
Qed.

Lemma visit_step_ok cur s st s' :
  state_ok s -> step_in cur st ->
  visit_step P cur s st = ROk s' ->
  state_ok s' /\ st_updates s <= st_updates s' /\
  (st_updates s' = st_updates s -> s' = s /\ step_holds (st_vars s) cur st).
Proof.
  intros Hok Hin H. destruct st as [v t|f nargs|f i|f i v]; cbn [visit_step] in H.
  - (* SUse *)
    apply record_var_ok in H; [|exact Hok|].
    + destruct H as [H1 [H2 H3]]. split; [exact H1|]. split; [exact H2|]. intros Hu.
      destruct (H3 Hu) as [-> [Hp Ht]]. split; [reflexivity|]. split; [|exact Hp].
      intros c [<-|[]]. cbn [holds3]. exact Ht.
    + eapply just_of_CIs; [exact Hin | left; reflexivity].
  - (* SCallHead: no effect *)
    assert (s' = s).
    { destruct (match lookup_var (st_vars s) cur f with Some (_, _, vf) => negb (is_empty vf) | None => false end); [discriminate|].
      destruct (func_info P f) as [fi|]; [|discriminate].
      destruct (fi_native fi).
      - destruct (find_native (p_natives P) f) as [nt|]; [|discriminate].
        destruct (n_func nt); cbn [negb] in H; [|discriminate].
        destruct (_ <? nargs); [discriminate | congruence].
      - destruct (_ <? nargs); [discriminate | congruence]. }
    subst s'. split; [exact Hok|]. split; [lia|]. intros _. split; [reflexivity|]. split; [|exact I].
    intros c [].
  - (* SArgExpr *)
    destruct (func_info P f) as [fi|] eqn:Efi; [|discriminate].
    destruct (fi_native fi) eqn:En.
    + injection H as <-. split; [exact Hok|]. split; [lia|]. intros _. split; [reflexivity|]. split; [|exact I].
      intros c Hc. cbn [constr_of_step] in Hc. rewrite Efi, En in Hc. destruct Hc.
    + destruct (nth_error (fi_params fi) i) as [p|] eqn:Ep; [|discriminate].
      destruct (func_info_awk f fi Efi En) as [Hf _].
      assert (Hs' : s' = s /\ get_or_unknown (st_vars s) (f, p) <> TArray).
      { destruct (get_or_unknown (st_vars s) (f, p)) eqn:Eg; try discriminate; injection H as <-;
          (split; [reflexivity | discriminate]). }
      destruct Hs' as [-> Hg]. split; [exact Hok|]. split; [lia|]. intros _. split; [reflexivity|]. split; [|exact I].
      intros c Hc. cbn [constr_of_step] in Hc. rewrite Efi, En, Ep in Hc. destruct Hc as [<-|[]].
      cbn [holds3]. rewrite (kty_local _ f p Hf). exact Hg.
  - (* SArgVar *)
    destruct (func_info P f) as [fi|] eqn:Efi; [|discriminate].
    destruct (fi_native fi) eqn:En.
    + apply record_var_ok in H; [|exact Hok|].
      * destruct H as [H1 [H2 H3]]. split; [exact H1|]. split; [exact H2|]. intros Hu.
        destruct (H3 Hu) as [-> [Hp Ht]]. split; [reflexivity|]. split; [|exact Hp].
        intros c Hc. cbn [constr_of_step] in Hc. rewrite Efi, En in Hc. destruct Hc as [<-|[]]. cbn [holds3]. exact Ht.
      * eapply just_of_CIs; [exact Hin|]. cbn [constr_of_step]. rewrite Efi, En. left; reflexivity.
    + destruct (nth_error (fi_params fi) i) as [p|] eqn:Ep; [|discriminate].
      destruct (func_info_awk f fi Efi En) as [Hf [Hpar _]].
      assert (Hpin : In p (params_of P f)) by (rewrite <- Hpar; eapply nth_error_In; eassumption).
      assert (Hceq : In (CEq (scope_key P cur v) (f, p)) (constraints P)).
      { apply Hin. cbn [constr_of_step]. rewrite Efi, En, Ep. left; reflexivity. }
      destruct Hok as [Hi Hfo].
      rewrite (type_of_lookup_kty _ cur v Hi) in H.
      set (k := scope_key P cur v) in *.
      set (pty := get_or_unknown (st_vars s) (f, p)) in *.
      assert (Hpty : kty (st_vars s) (f, p) = pty) by (apply kty_local; exact Hf).
      set (vty := kty (st_vars s) k) in *.
      destruct (ty_eqb vty TUnknown && negb (ty_eqb pty TUnknown)) eqn:C1.
      { (* the variable takes the parameter's type *)
        apply andb_true_iff in C1. destruct C1 as [C1 C2]. apply ty_eqb_eq in C1.
        apply negb_true_iff in C2. apply ty_eqb_neq in C2.
        apply record_var_ok in H; [|split; assumption|].
        - destruct H as [H1 [H2 H3]]. split; [exact H1|]. split; [exact H2|]. intros Hu.
          destruct (H3 Hu) as [_ [_ [Ht|Ht]]]; [contradiction|]. fold k in Ht. fold vty in Ht. congruence.
        - intros rho Hs _. fold k. specialize (Hs _ Hceq) as Hs'. cbn [holds] in Hs'. fold k in Hs'. rewrite Hs'.
          rewrite <- Hpty. apply forced_kty; try assumption. rewrite Hpty. exact C2. }
      destruct (negb (ty_eqb vty TUnknown) && ty_eqb pty TUnknown) eqn:C2.
      { (* the parameter takes the variable's type *)
        apply andb_true_iff in C2. destruct C2 as [C2 C3]. apply ty_eqb_eq in C3.
        apply negb_true_iff in C2. apply ty_eqb_neq in C2.
        apply record_var_ok in H; [|split; assumption|].
        - destruct H as [H1 [H2 H3]]. split; [exact H1|]. split; [exact H2|]. intros Hu.
          destruct (H3 Hu) as [_ [_ [Ht|Ht]]]; [contradiction|].
          rewrite (scope_key_param f p Hf Hpin) in Ht. norm. congruence.
        - intros rho Hs _. rewrite (scope_key_param f p Hf Hpin).
          specialize (Hs _ Hceq) as Hs'. cbn [holds] in Hs'. fold k in Hs'. norm. rewrite <- Hs'.
          apply forced_kty; assumption. }
      destruct (negb (ty_eqb vty pty) && negb (ty_eqb vty TUnknown) && negb (ty_eqb pty TUnknown)) eqn:C3; [discriminate|].
      apply record_var_ok in H; [|split; assumption|].
      * destruct H as [H1 [H2 H3]]. split; [exact H1|]. split; [exact H2|]. intros Hu.
        destruct (H3 Hu) as [-> [Hp _]]. split; [reflexivity|]. split; [|exact Hp].
        intros c Hc. cbn [constr_of_step] in Hc. rewrite Efi, En, Ep in Hc. destruct Hc as [<-|[]].
        cbn [holds3]. fold k. fold vty. rewrite Hpty.
        destruct vty, pty; cbn in C1, C2, C3; try discriminate; reflexivity.
      * intros rho Hs Hne. congruence.
Qed.

Lemma visit_step_err cur s st e :
  state_ok s -> step_in cur st ->
  visit_step P cur s st = RErr e -> is_type_error e = true -> ~ sat P.
Proof.
  intros Hok Hin H He. destruct st as [v t|f nargs|f i|f i v]; cbn [visit_step] in H.
  - apply record_var_err in H; [apply H; exact He | exact Hok|].
    eapply just_of_CIs; [exact Hin | left; reflexivity].
  - exfalso.
    destruct (match lookup_var (st_vars s) cur f with Some (_, _, vf) => negb (is_empty vf) | None => false end);
      [injection H as <-; discriminate|].
    destruct (func_info P f) as [fi|]; [|injection H as <-; discriminate].
    destruct (fi_native fi).
    + destruct (find_native (p_natives P) f) as [nt|]; [|injection H as <-; discriminate].
      destruct (n_func nt); cbn [negb] in H; [|injection H as <-; discriminate].
      destruct (_ <? nargs); [injection H as <-; discriminate | discriminate].
    + destruct (_ <? nargs); [injection H as <-; discriminate | discriminate].
  - destruct (func_info P f) as [fi|] eqn:Efi; [|discriminate].
    destruct (fi_native fi) eqn:En; [discriminate|].
    destruct (nth_error (fi_params fi) i) as [p|] eqn:Ep; [|discriminate].
    destruct (func_info_awk f fi Efi En) as [Hf _].
    destruct (get_or_unknown (st_vars s) (f, p)) eqn:Eg; try discriminate.
    intros [rho Hs]. destruct Hok as [Hi Hfo].
    assert (H1 : rho (f, p) = isarr (kty (st_vars s) (f, p))).
    { apply forced_kty; try assumption. rewrite (kty_local _ f p Hf), Eg. discriminate. }
    rewrite (kty_local _ f p Hf), Eg in H1. cbn in H1.
    assert (Hc : In (CNotArr (f, p)) (constraints P)).
    { apply Hin. cbn [constr_of_step]. rewrite Efi, En, Ep. left; reflexivity. }
    specialize (Hs _ Hc). cbn [holds] in Hs. congruence.
  - destruct (func_info P f) as [fi|] eqn:Efi; [|discriminate].
    destruct (fi_native fi) eqn:En.
    + apply record_var_err in H; [apply H; exact He | exact Hok|].
      eapply just_of_CIs; [exact Hin|]. cbn [constr_of_step]. rewrite Efi, En. left; reflexivity.
    + destruct (nth_error (fi_params fi) i) as [p|] eqn:Ep; [|discriminate].
      destruct (func_info_awk f fi Efi En) as [Hf [Hpar _]].
      assert (Hpin : In p (params_of P f)) by (rewrite <- Hpar; eapply nth_error_In; eassumption).
      assert (Hceq : In (CEq (scope_key P cur v) (f, p)) (constraints P)).
      { apply Hin. cbn [constr_of_step]. rewrite Efi, En, Ep. left; reflexivity. }
      destruct Hok as [Hi Hfo].
      rewrite (type_of_lookup_kty _ cur v Hi) in H.
      set (k := scope_key P cur v) in *.
      set (pty := get_or_unknown (st_vars s) (f, p)) in *.
      assert (Hpty : kty (st_vars s) (f, p) = pty) by (apply kty_local; exact Hf).
      set (vty := kty (st_vars s) k) in *.
      destruct (ty_eqb vty TUnknown && negb (ty_eqb pty TUnknown)) eqn:C1.
      { apply andb_true_iff in C1. destruct C1 as [C1 C2]. apply ty_eqb_eq in C1.
        apply negb_true_iff in C2. apply ty_eqb_neq in C2.
        apply record_var_err in H; [apply H; exact He | split; assumption|].
        intros rho Hs _. fold k. specialize (Hs _ Hceq) as Hs'. cbn [holds] in Hs'. fold k in Hs'. rewrite Hs'.
        rewrite <- Hpty. apply forced_kty; try assumption. rewrite Hpty. exact C2. }
      destruct (negb (ty_eqb vty TUnknown) && ty_eqb pty TUnknown) eqn:C2.
      { apply andb_true_iff in C2. destruct C2 as [C2 C3]. apply ty_eqb_eq in C3.
        apply negb_true_iff in C2. apply ty_eqb_neq in C2.
        apply record_var_err in H; [apply H; exact He | split; assumption|].
        intros rho Hs _. rewrite (scope_key_param f p Hf Hpin).
        specialize (Hs _ Hceq) as Hs'. cbn [holds] in Hs'. fold k in Hs'. norm. rewrite <- Hs'.
        apply forced_kty; assumption. }
      destruct (negb (ty_eqb vty pty) && negb (ty_eqb vty TUnknown) && negb (ty_eqb pty TUnknown)) eqn:C3.
      * intros [rho Hs].
        apply andb_true_iff in C3. destruct C3 as [C3 C5]. apply andb_true_iff in C3. destruct C3 as [C3 C4].
        apply negb_true_iff in C3, C4, C5. apply ty_eqb_neq in C3, C4, C5.
        assert (H1 : rho k = isarr vty) by (apply forced_kty; assumption).
        assert (H2 : rho (f, p) = isarr pty) by (rewrite <- Hpty; apply forced_kty; try assumption; rewrite Hpty; exact C5).
        specialize (Hs _ Hceq). cbn [holds] in Hs. fold k in Hs.
        destruct vty, pty; cbn in H1, H2; congruence.
      * apply record_var_err in H; [apply H; exact He | split; assumption|].
        intros rho Hs Hne. congruence.
Qed.

End Env.
