(* C05: texts in the AWK numeric grammar are syntactically accepted by the model of
   strconv.ParseFloat (hex needs its exponent), hence: a grammatical input text is a
   number for parseFloat unless its value is out of range; and the text the scanner
   hands to strconv is never a syntax error. *)
From Verif Require Import Lib.Base Lib.Dyadic Lib.Utf8 Model.Value Proofs.ValueScan Proofs.ValueGrammar.

(* ------------------------------------------------------------------ *)
(* readFloat accepts what lexes completely                             *)
(* ------------------------------------------------------------------ *)

Lemma rf_exp_digits_all ed : forall e und,
  forallb is_digit ed = true -> exists e', rf_exp_digits ed e und = (e', und, []).
Proof.
  induction ed as [|c t IH]; intros e und H.
  - exists e. reflexivity.
  - cbn [forallb] in H. apply andb_true_iff in H as [Hc Ht]. cbn [rf_exp_digits].
    assert (c =? 95 = false) as -> by (unfold is_digit in Hc; lia).
    rewrite Hc. apply IH. exact Ht.
Qed.

Lemma read_float_of_lex s sg u d1 dot d2 r3 :
  contains 95 s = false -> s <> [] -> opt_sign s = (sg, u) ->
  lex_mant (mant_digit (hex_of u)) (body_of u) = (d1, dot, d2, r3) ->
  is_nil d1 && is_nil d2 = false ->
  ((r3 = [] /\ hex_of u = false) \/
   (exists c es ed, r3 = c :: es ++ ed /\ (lower c =? (if hex_of u then 112 else 101)) = true /\
      opt_sign (es ++ ed) = (es, ed) /\ ed <> [] /\ forallb is_digit ed = true)) ->
  exists d, read_float s = Some (d, []).
Proof.
  intros Hus Hne Hos Hl Hnil Hr3.
  destruct s as [|c0 t0]; [congruence|].
  unfold read_float.
  set (u' := if (c0 =? 43) || (c0 =? 45) then t0 else c0 :: t0).
  assert (u' = u) as ->.
  { subst u'. rewrite opt_sign_cons in Hos. destruct ((c0 =? 43) || (c0 =? 45)); injection Hos as _ <-; reflexivity. }
  assert (Huu : contains 95 u = false).
  { destruct (opt_sign_inv _ _ _ Hos) as [E _]. rewrite E, contains_app in Hus.
    apply orb_false_iff in Hus as [_ H]. exact H. }
  rewrite hex_split.
  assert (Hub : contains 95 (body_of u) = false).
  { unfold body_of. destruct (hex_of u); [apply contains_zdrop|]; exact Huu. }
  destruct (rf_loop_lex _ _ _ _ _ _ Hub Hl) as [nd [dp [digs Hloop]]].
  rewrite Hloop, Hnil. cbn [negb].
  destruct Hr3 as [[-> Hh] | [c [es [ed [-> [Hc [Hose [Hed Hedd]]]]]]]].
  - rewrite Hh. cbn [andb]. eexists. reflexivity.
  - rewrite Hc.
    destruct (opt_sign_inv _ _ _ Hose) as [_ Hes].
    destruct ed as [|e1 ed']; [congruence|].
    assert (He1 : is_digit e1 = true) by (cbn [forallb] in Hedd; apply andb_true_iff in Hedd as [H _]; exact H).
    destruct (rf_exp_digits_all (e1 :: ed') 0 false Hedd) as [e' He'].
    destruct Hes as [-> | [-> | ->]]; cbn [app].
    + assert ((e1 =? 43) || (e1 =? 45) = false) as -> by (unfold is_digit in He1; lia).
      rewrite He1, He'. cbn [andb]. eexists. reflexivity.
    + cbn [Z.eqb Pos.eqb orb]. rewrite He1, He'. cbn [andb]. eexists. reflexivity.
    + cbn [Z.eqb Pos.eqb orb]. rewrite He1, He'. cbn [andb]. eexists. reflexivity.
Qed.

(* ------------------------------------------------------------------ *)
(* small facts about grammatical texts                                 *)
(* ------------------------------------------------------------------ *)

Lemma forallb_no (p : Z -> bool) (x : Z) l :
  (forall c, p c = true -> c <> x) -> forallb p l = true -> contains x l = false.
Proof.
  intros Hp. induction l as [|c t IH]; cbn [forallb contains]; [reflexivity|].
  intro H. apply andb_true_iff in H as [Hc Ht]. rewrite (IH Ht), orb_false_r. apply Z.eqb_neq. apply Hp. exact Hc.
Qed.

Lemma digit_ne c (x : Z) : (x < 48 \/ 57 < x) -> is_digit c = true -> c <> x.
Proof. unfold is_digit. intros Hx H. lia. Qed.
Lemma hex_digit_ne c (x : Z) : (x < 48 \/ 57 < x < 65 \/ 70 < x < 97 \/ 102 < x) -> is_hex_digit c = true -> c <> x.
Proof. unfold is_hex_digit, is_digit. intros Hx H. lia. Qed.

Lemma sign_str_no sg (x : Z) : x <> 43 -> x <> 45 -> sign_str sg -> contains x sg = false.
Proof.
  intros H1 H2 [-> | [-> | ->]]; cbn [contains]; [reflexivity| |]; rewrite orb_false_r; apply Z.eqb_neq; lia.
Qed.

Lemma mantissa_no p (x : Z) m :
  (forall c, p c = true -> c <> x) -> x <> 46 -> mantissa p m -> contains x m = false.
Proof.
  intros Hp H46 [d1 [dot [d2 [-> [H1 [H2 [Hd _]]]]]]].
  rewrite !contains_app, (forallb_no p x d1 Hp H1), (forallb_no p x d2 Hp H2).
  destruct Hd as [-> | [-> _]]; cbn [contains orb]; [|reflexivity].
  rewrite !orb_false_r. apply Z.eqb_neq. lia.
Qed.

Lemma exponent_no lo up (x : Z) e :
  x <> lo -> x <> up -> x <> 43 -> x <> 45 -> (x < 48 \/ 57 < x) -> exponent lo up e -> contains x e = false.
Proof.
  intros Hlo Hup H43 H45 Hx [c [es [ed [-> [Hc [Hes [_ Hd]]]]]]].
  cbn [contains]. rewrite contains_app, (sign_str_no es x H43 H45 Hes).
  rewrite (forallb_no is_digit x ed (fun c => digit_ne c x Hx) Hd).
  rewrite !orb_false_r. apply Z.eqb_neq. destruct Hc as [-> | ->]; lia.
Qed.

Lemma special_numeral_none sg h r :
  sign_str sg -> (is_digit h = true \/ h = 46) -> special (sg ++ h :: r) = None.
Proof.
  intros Hsg Hh.
  assert (Hcpl : common_prefix_len_ic (h :: r) str_infinity = 0).
  { unfold str_infinity. cbn [common_prefix_len_ic]. rewrite ic_eq by lia.
    assert ((h =? 105) || (h =? 105 - 32) = false) as -> by (unfold is_digit in Hh; lia). reflexivity. }
  destruct Hsg as [-> | [-> | ->]]; cbn [app special is_sign Z.eqb Pos.eqb orb].
  - assert (is_sign h = false) as -> by (unfold is_sign, is_digit in *; lia).
    assert ((h =? 105) || (h =? 73) = false) as -> by (unfold is_digit in Hh; lia).
    assert ((h =? 110) || (h =? 78) = false) as -> by (unfold is_digit in Hh; lia). reflexivity.
  - unfold special_inf. rewrite Hcpl. reflexivity.
  - unfold special_inf. rewrite Hcpl. reflexivity.
Qed.

(* a decimal numeral that starts like "0x": it is just "0" *)
Lemma dec_hex_prefix_inv m x rest b r :
  mantissa is_digit m -> (x = [] \/ exponent 101 69 x) -> (b = 120 \/ b = 88) ->
  m ++ x ++ rest = 48 :: b :: r -> m ++ x = [48].
Proof.
  intros [a [dot [b' [-> [Ha [Hb' [Hdot Hne]]]]]]] Hx Hb Eu.
  destruct a as [|h1 a'].
  - destruct Hdot as [-> | [-> ->]]; [cbn [app] in Eu; discriminate|destruct Hne; congruence].
  - cbn [app] in Eu. injection Eu as -> Eu. destruct a' as [|h2 a''].
    + cbn [app] in Eu.
      destruct Hdot as [-> | [-> ->]]; [cbn [app] in Eu; injection Eu as <- _; destruct Hb; discriminate|].
      cbn [app] in Eu |- *.
      destruct Hx as [-> | [c [es [ed [-> [Hc _]]]]]]; [reflexivity|].
      cbn [app] in Eu. injection Eu as <- _. destruct Hc as [-> | ->], Hb; discriminate.
    + cbn [app] in Eu. injection Eu as <- _. cbn [forallb] in Ha.
      apply andb_true_iff in Ha as [_ Ha]. apply andb_true_iff in Ha as [Ha _].
      destruct Hb as [-> | ->]; discriminate.
Qed.

(* the exponent part, as the lexer-level shape readFloat checks *)
Lemma exponent_lex lo up r3 (lower_code : Z) :
  (forall c, (c = lo \/ c = up) -> (lower c =? lower_code) = true) ->
  exponent lo up r3 ->
  exists c es ed, r3 = c :: es ++ ed /\ (lower c =? lower_code) = true /\
    opt_sign (es ++ ed) = (es, ed) /\ ed <> [] /\ forallb is_digit ed = true.
Proof.
  intros Hlow [c [es [ed [-> [Hc [Hes [Hne Hd]]]]]]].
  exists c, es, ed. split; [reflexivity|]. split; [apply Hlow; exact Hc|].
  split; [|split; assumption].
  pose proof (opt_sign_shape es ed [] Hes Hne Hd) as H. rewrite !app_nil_r in H. exact H.
Qed.

(* complete lexing of a grammatical mantissa+exponent *)
Lemma lex_complete p lo up m x :
  p 46 = false -> p lo = false -> p up = false -> lo <> 46 -> up <> 46 ->
  mantissa p m -> (x = [] \/ exponent lo up x) ->
  exists d1 dot d2, lex_mant p (m ++ x) = (d1, dot, d2, x) /\ is_nil d1 && is_nil d2 = false /\ m = d1 ++ dot ++ d2.
Proof.
  intros H1 H2 H3 H4 H5 Hm Hx.
  destruct (lex_forward p lo up m x [] H1 H2 H3 H4 H5 Hm Hx)
    as [d1 [dot [d2 [r3 [more [tail' [Hl [Hn [Hc Ht]]]]]]]]].
  rewrite app_nil_r in Hl.
  symmetry in Ht. apply app_eq_nil in Ht as [-> ->]. rewrite app_nil_r in Hc.
  pose proof (lex_mant_decomp _ _ _ _ _ _ Hl) as Hd.
  (* scan_exp r3 = r3, and m ++ x = d1 ++ dot ++ d2 ++ r3 with x, r3 both the exponent part *)
  assert (Hr3 : scan_exp lo up r3 = r3).
  { rewrite Hd in Hc. rewrite !app_assoc in Hc. apply app_inv_head in Hc. exact Hc. }
  destruct Hm as [a [dt [b [Em [Ha [Hb [Hdt Hne]]]]]]].
  (* both decompositions lex the same string: use determinism of lex_mant on m ++ x *)
  assert (Hl' : lex_mant p (m ++ x) = (a, dt, b, x)).
  { subst m. unfold lex_mant. rewrite <- !app_assoc.
    assert (Sx : stops p x /\ stops (fun c => c =? 46) x).
    { destruct Hx as [-> | [c [es [ed [-> [Hcc _]]]]]]; [split; exact I|].
      cbn [stops]. destruct Hcc as [-> | ->]; split; try assumption; apply Z.eqb_neq; assumption. }
    destruct Sx as [Sx1 Sx2].
    destruct Hdt as [-> | [-> ->]].
    - rewrite (span_stop p a ([46] ++ b ++ x) Ha) by (cbn [app stops]; exact H1).
      cbn [app opt_dot]. rewrite Z.eqb_refl. rewrite (span_stop p b x Hb Sx1). reflexivity.
    - cbn [app]. rewrite (span_stop p a x Ha Sx1).
      destruct x as [|c x']; [reflexivity|]. cbn [stops] in Sx1, Sx2. cbn [opt_dot]. rewrite Sx2.
      cbn [span]. rewrite Sx1. reflexivity. }
  rewrite Hl in Hl'. injection Hl' as -> -> -> ->.
  exists a, dt, b. split; [exact Hl|]. split; [exact Hn|exact Em].
Qed.

(* ------------------------------------------------------------------ *)
(* grammatical texts are accepted by strconv's syntax                  *)
(* ------------------------------------------------------------------ *)

Lemma lower_e_true c : c = 101 \/ c = 69 -> (lower c =? 101) = true.
Proof. intros [-> | ->]; reflexivity. Qed.
Lemma lower_p_true c : c = 112 \/ c = 80 -> (lower c =? 112) = true.
Proof. intros [-> | ->]; reflexivity. Qed.

Lemma dec_hex_of_false m x : mantissa is_digit m -> (x = [] \/ exponent 101 69 x) -> hex_of (m ++ x) = false.
Proof.
  intros Hm Hx. destruct (hex_of (m ++ x)) eqn:E; [exfalso|reflexivity].
  destruct (hex_of_true_inv _ E) as [b [c [r [Eu Hb]]]].
  assert (H : m ++ x ++ [] = 48 :: b :: c :: r) by (rewrite app_nil_r; exact Eu).
  pose proof (dec_hex_prefix_inv m x [] b (c :: r) Hm Hx Hb H) as H1. rewrite H1 in Eu. discriminate.
Qed.

Lemma awk_decimal_accepted sg m x :
  sign_str sg -> mantissa is_digit m -> (x = [] \/ exponent 101 69 x) ->
  let t := sg ++ m ++ x in
  contains 95 t = false /\ special t = None /\ opt_sign t = (sg, m ++ x) /\
  exists d, read_float t = Some (d, []).
Proof.
  intros Hsg Hm Hx t. subst t.
  destruct (mantissa_head is_digit m x Hm) as [h [r [Eu Hh]]].
  assert (Hhs : is_sign h = false) by (apply (digit_or_dot_not_sign is_digit); [apply digit_not_sign|exact Hh]).
  assert (H95 : contains 95 (sg ++ m ++ x) = false).
  { rewrite !contains_app. rewrite (sign_str_no sg 95) by (try lia; exact Hsg).
    rewrite (mantissa_no is_digit 95 m) by (try lia; try exact Hm; intros c; apply digit_ne; lia).
    destruct Hx as [-> | Hx]; [reflexivity|]. rewrite (exponent_no 101 69 95 x) by (try lia; exact Hx). reflexivity. }
  assert (Hos : opt_sign (sg ++ m ++ x) = (sg, m ++ x)) by (rewrite Eu; apply opt_sign_build; assumption).
  split; [exact H95|]. split; [rewrite Eu; apply special_numeral_none; assumption|]. split; [exact Hos|].
  pose proof (dec_hex_of_false m x Hm Hx) as Hhex.
  destruct (lex_complete is_digit 101 69 m x eq_refl eq_refl eq_refl ltac:(lia) ltac:(lia) Hm Hx)
    as [d1 [dot [d2 [Hl [Hn _]]]]].
  apply (read_float_of_lex (sg ++ m ++ x) sg (m ++ x) d1 dot d2 x H95).
  - rewrite Eu. destruct sg; discriminate.
  - exact Hos.
  - unfold body_of. rewrite Hhex. rewrite (lex_mant_ext _ _ _ mant_digit_dec). exact Hl.
  - exact Hn.
  - rewrite Hhex. destruct Hx as [-> | Hx]; [left; split; reflexivity|right].
    apply (exponent_lex 101 69 x 101 lower_e_true Hx).
Qed.

Lemma awk_hex_exp_accepted sg b m x :
  sign_str sg -> (b = 120 \/ b = 88) -> mantissa is_hex_digit m -> exponent 112 80 x ->
  let t := sg ++ [48; b] ++ m ++ x in
  contains 95 t = false /\ special t = None /\ exists d, read_float t = Some (d, []).
Proof.
  intros Hsg Hb Hm Hx t. subst t.
  destruct (mantissa_head is_hex_digit m x Hm) as [h [r [Eu _]]].
  assert (H95 : contains 95 (sg ++ [48; b] ++ m ++ x) = false).
  { rewrite !contains_app. rewrite (sign_str_no sg 95) by (try lia; exact Hsg).
    rewrite (mantissa_no is_hex_digit 95 m) by (try lia; try exact Hm; intros c; apply hex_digit_ne; lia).
    rewrite (exponent_no 112 80 95 x) by (try lia; exact Hx).
    destruct Hb as [-> | ->]; reflexivity. }
  assert (Hos : opt_sign (sg ++ [48; b] ++ m ++ x) = (sg, 48 :: b :: m ++ x))
    by (cbn [app]; apply opt_sign_build; [exact Hsg|reflexivity]).
  split; [exact H95|]. split; [cbn [app]; apply special_hex_none; exact Hsg|].
  assert (Hhex : hex_of (48 :: b :: m ++ x) = true).
  { rewrite Eu. unfold hex_of. rewrite zlen_ge3. destruct Hb as [-> | ->]; reflexivity. }
  destruct (lex_complete is_hex_digit 112 80 m x eq_refl eq_refl eq_refl ltac:(lia) ltac:(lia) Hm (or_intror Hx))
    as [d1 [dot [d2 [Hl [Hn _]]]]].
  apply (read_float_of_lex _ sg (48 :: b :: m ++ x) d1 dot d2 x H95).
  - destruct sg; discriminate.
  - exact Hos.
  - unfold body_of. rewrite Hhex. rewrite (lex_mant_ext _ _ _ mant_digit_hex).
    rewrite Eu. change (zdrop 2 (48 :: b :: h :: r)) with (h :: r). rewrite <- Eu. exact Hl.
  - exact Hn.
  - rewrite Hhex. right. apply (exponent_lex 112 80 x 112 lower_p_true Hx).
Qed.

Lemma accepted_desc t : special t = None -> (exists d, read_float t = Some (d, [])) -> exists d, go_parse_desc t = Some d.
Proof. intros Hs [d Hd]. unfold go_parse_desc. rewrite Hs, Hd. exists d. reflexivity. Qed.

Lemma exponent_p0 : exponent 112 80 str_p0.
Proof.
  exists 112, [], [48]. split; [reflexivity|]. split; [left; reflexivity|]. split; [left; reflexivity|].
  split; [discriminate|reflexivity].
Qed.

(* ------------------------------------------------------------------ *)
(* the text the scanner hands to strconv is never a syntax error       *)
(* ------------------------------------------------------------------ *)

Lemma scan_t_text_accepted start t start' c patch :
  scan_t start t = PSNum start' c patch -> exists d, go_parse_desc (scan_text c patch) = Some d.
Proof.
  unfold scan_t. destruct (opt_sign t) as [sg u] eqn:Hos.
  destruct (opt_sign_inv _ _ _ Hos) as [Et Hsg].
  destruct ((3 <=? zlen u) && has_nan_prefix u); [discriminate|].
  destruct ((3 <=? zlen u) && has_inf_prefix u); [destruct t; discriminate|].
  destruct (hex_of u) eqn:Hh.
  - destruct (hex_of_true_inv u Hh) as [b [c0 [r [Eu Hb]]]]. rewrite Eu.
    change (ztake 2 (48 :: b :: c0 :: r)) with [48; b]. change (zdrop 2 (48 :: b :: c0 :: r)) with (c0 :: r).
    unfold scan_hex'. destruct (lex_mant is_hex_digit (c0 :: r)) as [[[d1 dot] d2] r3] eqn:Hl.
    destruct (is_nil d1 && is_nil d2) eqn:Hn; [discriminate|].
    intro H. injection H as _ <- <-.
    pose proof (lex_mant_mantissa _ _ _ _ _ _ Hl Hn) as Hm.
    destruct (scan_exp_spec 112 80 r3) as [_ Hex]. unfold scan_text.
    destruct (scan_exp 112 80 r3) as [|e0 ex'] eqn:Eex; cbn [is_nil].
    + destruct (awk_hex_exp_accepted sg b (d1 ++ dot ++ d2) str_p0 Hsg Hb Hm exponent_p0) as [_ [Hs Hr]].
      match goal with |- exists d, go_parse_desc ?X = Some d =>
        replace X with (sg ++ [48; b] ++ (d1 ++ dot ++ d2) ++ str_p0)
          by (rewrite app_nil_r; norm_app; reflexivity) end.
      exact (accepted_desc _ Hs Hr).
    + destruct Hex as [Hex|Hex]; [discriminate|].
      destruct (awk_hex_exp_accepted sg b (d1 ++ dot ++ d2) (e0 :: ex') Hsg Hb Hm Hex) as [_ [Hs Hr]].
      match goal with |- exists d, go_parse_desc ?X = Some d =>
        replace X with (sg ++ [48; b] ++ (d1 ++ dot ++ d2) ++ e0 :: ex') by (norm_app; reflexivity) end.
      exact (accepted_desc _ Hs Hr).
  - unfold scan_dec. destruct (lex_mant is_digit u) as [[[d1 dot] d2] r3] eqn:Hl.
    destruct (is_nil d1 && is_nil d2) eqn:Hn; [discriminate|].
    intro H. injection H as _ <- <-. unfold scan_text.
    pose proof (lex_mant_mantissa _ _ _ _ _ _ Hl Hn) as Hm.
    destruct (scan_exp_spec 101 69 r3) as [_ Hex].
    destruct (awk_decimal_accepted sg (d1 ++ dot ++ d2) (scan_exp 101 69 r3) Hsg Hm Hex) as [_ [Hs [_ Hr]]].
    match goal with |- exists d, go_parse_desc ?X = Some d =>
      replace X with (sg ++ (d1 ++ dot ++ d2) ++ scan_exp 101 69 r3) by (norm_app; reflexivity) end.
    exact (accepted_desc _ Hs Hr).
Qed.

Theorem scan_text_accepted s start c patch :
  scan_prefix s = PSNum start c patch ->
  exists d, go_parse_desc (scan_text c patch) = Some d /\ parse_float_prefix s = Ok (fst (desc_value d)).
Proof.
  intro H. pose proof H as H'. rewrite scan_prefix_eq in H'.
  destruct (scan_t_text_accepted _ _ _ _ _ H') as [d Hd]. exists d. split; [exact Hd|].
  unfold parse_float_prefix. rewrite H. unfold go_parse_float. rewrite Hd.
  destruct (desc_value d) as [v r]. reflexivity.
Qed.

(* ------------------------------------------------------------------ *)
(* parseFloat on grammatical input text                                *)
(* ------------------------------------------------------------------ *)

(* the text parseFloat hands to strconv, as one equation *)
Lemma parse_float_text_eq s sg u :
  let t := ascii_trim s in
  t <> [] -> opt_sign t = (sg, u) ->
  parse_float_text s =
    if negb (is_nil sg) && (zlen t =? 4) && has_nan_prefix u then None
    else Some (if hex_of u && (negb (contains 112 t) && negb (contains 80 t)) then t ++ str_p0 else t).
Proof.
  unfold parse_float_text. set (t := ascii_trim s). cbv zeta. intros Hne Hos.
  destruct t as [|c t'] eqn:Et; [congruence|].
  rewrite opt_sign_cons in Hos. change ((c =? 43) || (c =? 45)) with (is_sign c) in Hos.
  destruct (is_sign c) eqn:Hsc; injection Hos as <- <-.
  - cbn [is_nil negb andb].
    destruct t' as [|a t''].
    + (* a lone sign *)
      cbn [zlen length Z.of_nat Z.ltb Z.compare andb Z.eqb]. reflexivity.
    + assert (1 <? zlen (c :: a :: t'') = true) as ->
        by (apply Z.ltb_lt; rewrite !zlen_cons; pose proof (zlen_nonneg t''); lia).
      cbn [andb]. destruct ((zlen (c :: a :: t'') =? 4) && has_nan_prefix (a :: t'')); [reflexivity|].
      unfold hex_of. rewrite (zlen_cons c (a :: t'')).
      replace (3 <? 1 + zlen (a :: t'')) with (2 <? zlen (a :: t'')) by (destruct (2 <? zlen (a :: t'')) eqn:E; lia).
      match goal with |- context [if ?b then Some _ else Some _] => destruct b end; reflexivity.
  - cbn [is_nil negb andb]. rewrite andb_false_r. cbn [andb]. unfold hex_of.
    match goal with |- context [if ?b then Some _ else Some _] => destruct b end; reflexivity.
Qed.

Lemma awk_numeral_head t : awk_numeral t ->
  exists sg h r, sign_str sg /\ t = sg ++ h :: r /\ (is_hex_digit h = true \/ h = 46).
Proof.
  intros [[sg [m [x [-> [Hsg [Hm _]]]]]] | [sg [b [m [x [-> [Hsg _]]]]]]].
  - destruct (mantissa_head is_digit m x Hm) as [h [r [E Hh]]]. exists sg, h, r. rewrite E.
    split; [exact Hsg|]. split; [reflexivity|]. destruct Hh as [Hh|Hh]; [left|right; exact Hh].
    unfold is_hex_digit. rewrite Hh. reflexivity.
  - exists sg, 48, (b :: m ++ x). split; [exact Hsg|]. split; [reflexivity|left; reflexivity].
Qed.

Lemma has_nan_prefix_head h r : (is_hex_digit h = true \/ h = 46) -> has_nan_prefix (h :: r) = false.
Proof.
  intro Hh. destruct r as [|b [|c r']]; try reflexivity. cbn [has_nan_prefix].
  assert ((h =? 110) || (h =? 78) = false) as -> by (unfold is_hex_digit, is_digit in Hh; lia). reflexivity.
Qed.

(* a grammatical input text (ASCII blanks around it) is a number for parseFloat *)
Theorem numeric_text_accepted s :
  awk_numeral (ascii_trim s) -> exists x, parse_float s = PFOk x.
Proof.
  intros Hnum.
  destruct (awk_numeral_head _ Hnum) as [sg0 [h [r [Hsg0 [Et Hh]]]]].
  assert (Hhs : is_sign h = false) by (unfold is_sign, is_hex_digit, is_digit in *; lia).
  assert (Hos : opt_sign (ascii_trim s) = (sg0, h :: r)) by (rewrite Et; apply opt_sign_build; assumption).
  assert (Hne : ascii_trim s <> []) by (rewrite Et; destruct sg0; discriminate).
  pose proof (parse_float_text_eq s sg0 (h :: r)) as Htext. cbv zeta in Htext.
  specialize (Htext Hne Hos). rewrite (has_nan_prefix_head h r Hh), andb_false_r in Htext.
  (* the text handed to strconv is accepted and underscore-free *)
  assert (Hacc : exists text d, parse_float_text s = Some text /\ go_parse_desc text = Some d /\ contains 95 text = false).
  { destruct Hnum as [[sg [m [x [E [Hsg [Hm Hx]]]]]] | [sg [b [m [x [E [Hsg [Hb [Hm Hx]]]]]]]]].
    - (* decimal: never patched *)
      destruct (awk_decimal_accepted sg m x Hsg Hm Hx) as [H95 [Hs [Hos' Hr]]]. cbv zeta in *.
      rewrite <- E in H95, Hs, Hos', Hr. rewrite Hos in Hos'. injection Hos' as <- Hu.
      rewrite Hu, (dec_hex_of_false m x Hm Hx) in Htext. cbn [andb] in Htext.
      destruct (accepted_desc _ Hs Hr) as [d Hd]. exists (ascii_trim s), d. auto.
    - (* hexadecimal *)
      assert (Hos' : opt_sign (ascii_trim s) = (sg, 48 :: b :: m ++ x))
        by (rewrite E; cbn [app]; apply opt_sign_build; [exact Hsg|reflexivity]).
      rewrite Hos in Hos'. injection Hos' as <- -> ->.
      destruct (mantissa_head is_hex_digit m x Hm) as [h' [r' [Em _]]].
      assert (Hhex : hex_of (48 :: b :: m ++ x) = true).
      { rewrite Em. unfold hex_of. rewrite zlen_ge3. destruct Hb as [-> | ->]; reflexivity. }
      rewrite Hhex in Htext. cbn [andb] in Htext.
      assert (Hpre : contains 112 (sg0 ++ [48; b] ++ m) = false /\ contains 80 (sg0 ++ [48; b] ++ m) = false).
      { rewrite !contains_app. rewrite (sign_str_no sg0 112), (sign_str_no sg0 80) by (try lia; exact Hsg).
        rewrite (mantissa_no is_hex_digit 112 m), (mantissa_no is_hex_digit 80 m)
          by (try lia; try exact Hm; intros c; apply hex_digit_ne; lia).
        destruct Hb as [-> | ->]; split; reflexivity. }
      destruct Hpre as [P1 P2].
      destruct Hx as [-> | Hx].
      + (* no exponent: "p0" is appended *)
        rewrite app_nil_r in E. rewrite E in Htext. rewrite P1, P2 in Htext. cbn [negb andb] in Htext.
        destruct (awk_hex_exp_accepted sg0 b m str_p0 Hsg Hb Hm exponent_p0) as [H95 [Hs Hr]]. cbv zeta in *.
        destruct (accepted_desc _ Hs Hr) as [d Hd].
        exists ((sg0 ++ [48; b] ++ m) ++ str_p0), d. split; [exact Htext|].
        replace ((sg0 ++ [48; b] ++ m) ++ str_p0) with (sg0 ++ [48; b] ++ m ++ str_p0) by (norm_app; reflexivity).
        auto.
      + (* exponent present: the text has a p or P, nothing is appended *)
        assert (Hp : negb (contains 112 (ascii_trim s)) && negb (contains 80 (ascii_trim s)) = false).
        { rewrite E. destruct Hx as [c [es [ed [-> [Hc _]]]]].
          replace (sg0 ++ [48; b] ++ m ++ c :: es ++ ed) with ((sg0 ++ [48; b] ++ m) ++ c :: es ++ ed) by (norm_app; reflexivity).
          rewrite !(contains_app _ (sg0 ++ [48; b] ++ m)), P1, P2. cbn [contains orb].
          destruct Hc as [-> | ->]; cbn [Z.eqb Pos.eqb orb negb andb]; [reflexivity|apply andb_false_r]. }
        rewrite Hp in Htext.
        destruct (awk_hex_exp_accepted sg0 b m x Hsg Hb Hm Hx) as [H95 [Hs Hr]]. cbv zeta in *.
        rewrite <- E in H95, Hs, Hr. destruct (accepted_desc _ Hs Hr) as [d Hd].
        exists (ascii_trim s), d. auto. }
  destruct Hacc as [text [d [Ht [Hd H95]]]].
  unfold parse_float, go_parse_float. rewrite Ht, Hd, H95.
  destruct (desc_value d) as [v rng]. eexists; reflexivity.
Qed.

(* ------------------------------------------------------------------ *)
(* converse: what parseFloat accepts is in the grammar                 *)
(* ------------------------------------------------------------------ *)

(* [sign] inf | infinity | nan, any case (the sign before nan is goawk's own extension) *)
Definition special_word (w : bytes) : Prop :=
  (zlen w = 3 /\ has_inf_prefix w = true) \/ (zlen w = 3 /\ has_nan_prefix w = true) \/
  (zlen w = 8 /\ common_prefix_len_ic w str_infinity = 8).
Definition awk_special (t : bytes) : Prop :=
  exists sg w, sign_str sg /\ t = sg ++ w /\ special_word w.

Lemma special_inf_word neg nsign w d n :
  special_inf neg nsign w = Some (d, n) -> n = nsign + zlen w -> special_word w.
Proof.
  unfold special_inf. set (k := common_prefix_len_ic w str_infinity).
  destruct ((3 <? k) && (k <? 8)) eqn:E.
  - cbn [Z.eqb Pos.eqb orb]. intros H Hn. injection H as _ <-.
    left. split; [lia|]. assert (H3 : 3 <= k) by lia. destruct (cpl_inf3 w H3) as [a [b [c [r [-> Hi]]]]]. exact Hi.
  - destruct ((k =? 3) || (k =? 8)) eqn:E2; [|discriminate]. intros H Hn. injection H as _ <-.
    apply orb_true_iff in E2 as [E2|E2]; apply Z.eqb_eq in E2.
    + left. split; [lia|]. assert (H3 : 3 <= k) by lia. destruct (cpl_inf3 w H3) as [a [b [c [r [-> Hi]]]]]. exact Hi.
    + right; right. split; [lia|exact E2].
Qed.

Lemma special_whole_word t d : special t = Some (d, zlen t) -> awk_special t.
Proof.
  destruct t as [|c t']; [discriminate|]. cbn [special].
  destruct (is_sign c) eqn:Es.
  - intro H. exists [c], t'. split.
    + unfold is_sign in Es. apply orb_true_iff in Es as [E|E]; apply Z.eqb_eq in E; subst; [right; left|right; right]; reflexivity.
    + split; [reflexivity|]. apply (special_inf_word _ _ _ _ _ H). rewrite zlen_cons. reflexivity.
  - destruct ((c =? 105) || (c =? 73)).
    + intro H. exists [], (c :: t'). split; [left; reflexivity|]. split; [reflexivity|].
      apply (special_inf_word _ _ _ _ _ H). lia.
    + destruct ((c =? 110) || (c =? 78)); [|discriminate].
      destruct (common_prefix_len_ic (c :: t') str_nan =? 3) eqn:E3; [|discriminate].
      intro H. apply Z.eqb_eq in E3.
      assert (Hn := f_equal (fun o : option (desc * Z) => match o with Some (_, n) => n | None => 0 end) H).
      cbv beta iota in Hn.
      exists [], (c :: t'). split; [left; reflexivity|]. split; [reflexivity|].
      right; left. split; [lia|]. destruct (cpl_nan3 _ E3) as [a [b [e [r [-> Hnan]]]]]. exact Hnan.
Qed.

(* from the lexer-level shape of an accepted text to the grammar *)
Lemma accepted_shape_numeral t sg u d1 dot d2 r3 :
  opt_sign t = (sg, u) ->
  lex_mant (mant_digit (hex_of u)) (body_of u) = (d1, dot, d2, r3) ->
  is_nil d1 && is_nil d2 = false ->
  (r3 = [] \/
   (exists c es ed, r3 = c :: es ++ ed /\ (lower c =? (if hex_of u then 112 else 101)) = true /\
      opt_sign (es ++ ed) = (es, ed) /\ ed <> [] /\ forallb is_digit ed = true)) ->
  awk_numeral t.
Proof.
  intros Hos Hl Hn Hr3. destruct (opt_sign_inv _ _ _ Hos) as [Et Hsg].
  pose proof (lex_mant_decomp _ _ _ _ _ _ Hl) as Eb.
  destruct (hex_of u) eqn:Hh.
  - destruct (hex_of_true_inv u Hh) as [b [c0 [r [Eu Hb]]]].
    unfold body_of in Hl, Eb. rewrite Hh, Eu in Hl, Eb. change (zdrop 2 (48 :: b :: c0 :: r)) with (c0 :: r) in Hl, Eb.
    rewrite (lex_mant_ext _ _ _ mant_digit_hex) in Hl.
    right. exists sg, b, (d1 ++ dot ++ d2), r3.
    split; [rewrite Et, Eu; change (48 :: b :: c0 :: r) with ([48; b] ++ (c0 :: r)); rewrite Eb; norm_app; reflexivity|].
    split; [exact Hsg|]. split; [exact Hb|]. split; [exact (lex_mant_mantissa _ _ _ _ _ _ Hl Hn)|].
    destruct Hr3 as [-> | [c [es [ed [-> [Hc [Hose [Hne Hd]]]]]]]]; [left; reflexivity|right].
    exists c, es, ed. split; [reflexivity|]. rewrite lower_p in Hc. split; [lia|].
    split; [exact (proj2 (opt_sign_inv _ _ _ Hose))|]. split; assumption.
  - unfold body_of in Hl, Eb. rewrite Hh in Hl, Eb. rewrite (lex_mant_ext _ _ _ mant_digit_dec) in Hl.
    left. exists sg, (d1 ++ dot ++ d2), r3.
    split; [rewrite Et, Eb; norm_app; reflexivity|]. split; [exact Hsg|].
    split; [exact (lex_mant_mantissa _ _ _ _ _ _ Hl Hn)|].
    destruct Hr3 as [-> | [c [es [ed [-> [Hc [Hose [Hne Hd]]]]]]]]; [left; reflexivity|right].
    exists c, es, ed. split; [reflexivity|]. rewrite lower_e in Hc. split; [lia|].
    split; [exact (proj2 (opt_sign_inv _ _ _ Hose))|]. split; assumption.
Qed.

(* conversely, what parseFloat accepts is, between ASCII blanks, in the grammar *)
Theorem accepted_is_numeric s x :
  parse_float s = PFOk x ->
  awk_numeral (ascii_trim s) \/ awk_special (ascii_trim s).
Proof.
  intros Hpf.
  pose proof (parse_float_text_cases s) as Hc. cbv zeta in Hc.
  unfold parse_float in Hpf.
  destruct (parse_float_text s) as [text|].
  - destruct (go_parse_float text) as [|v rng] eqn:Hgo; [discriminate|].
    destruct (contains 95 text) eqn:H95; [discriminate|].
    destruct Hc as [[_ ->] | [Htne Hc]]; [discriminate|].
    destruct (opt_sign (ascii_trim s)) as [sg u] eqn:Hos.
    specialize (Hc sg u eq_refl).
    destruct (opt_sign_inv _ _ _ Hos) as [Etsu Hsg].
    unfold go_parse_float in Hgo. destruct (go_parse_desc text) as [d|] eqn:Hd; [|discriminate].
    unfold go_parse_desc in Hd.
    destruct (special text) as [[d' n]|] eqn:Hsp.
    + destruct (n =? zlen text) eqn:En; [|discriminate]. apply Z.eqb_eq in En. subst n.
      assert (text = ascii_trim s) as ->.
      { destruct Hc as [H | [-> [Hh _]]]; [exact H|exfalso].
        destruct (hex_of_true_inv u Hh) as [b [c [r [Eu _]]]].
        rewrite Etsu, Eu, <- app_assoc in Hsp. cbn [app] in Hsp. rewrite (special_hex_none sg b _ Hsg) in Hsp. discriminate. }
      right. exact (special_whole_word _ _ Hsp).
    + destruct (read_float text) as [[d' rest]|] eqn:Hrf; [|discriminate].
      destruct rest; [|discriminate].
      destruct (read_float_accept text d' H95 Hrf) as [sg' [u' [d1 [dot [d2 [r3 [_ [Hos' [Hl [Hnil Hr3]]]]]]]]]].
      left. destruct Hc as [-> | [-> [Hh [N112 N80]]]].
      * rewrite Hos in Hos'. injection Hos' as <- <-.
        apply (accepted_shape_numeral _ sg u d1 dot d2 r3 Hos Hl Hnil).
        destruct Hr3 as [[H _]|H]; [left; exact H|right; exact H].
      * rewrite (opt_sign_app _ str_p0 sg u Htne Hos) in Hos'. injection Hos' as <- <-.
        destruct (hex_of_true_inv u Hh) as [b [c [r [Eu Hb]]]].
        assert (Hh' : hex_of (u ++ str_p0) = true).
        { rewrite Eu. unfold hex_of. cbn [app]. rewrite zlen_ge3. cbn [andb has_hex_prefix].
          destruct Hb as [-> | ->]; reflexivity. }
        rewrite Hh' in Hl, Hr3.
        assert (Hbody : body_of (u ++ str_p0) = body_of u ++ str_p0).
        { unfold body_of. rewrite Hh', Hh, Eu. reflexivity. }
        rewrite Hbody in Hl. rewrite (lex_mant_ext _ _ _ mant_digit_hex) in Hl.
        destruct (lex_mant is_hex_digit (body_of u)) as [[[a1 adot] a2] r3t] eqn:Hlt.
        rewrite (lex_mant_app is_hex_digit (body_of u) str_p0 a1 adot a2 r3t eq_refl Hlt (fun _ => stops_p0)) in Hl.
        injection Hl as <- <- <- <-.
        assert (r3t = []) as ->.
        { destruct r3t as [|c0 r3t']; [reflexivity|exfalso].
          destruct Hr3 as [[H _]|[c1 [es [ed [H [Hc1 _]]]]]]; [discriminate|].
          cbn [app] in H. injection H as <- _. rewrite lower_p in Hc1.
          pose proof (lex_mant_decomp _ _ _ _ _ _ Hlt) as Eb.
          assert (Hin : contains 112 (body_of u) = false /\ contains 80 (body_of u) = false).
          { unfold body_of. rewrite Hh. split; apply contains_zdrop.
            - rewrite Etsu, contains_app in N112. apply orb_false_iff in N112 as [_ H]. exact H.
            - rewrite Etsu, contains_app in N80. apply orb_false_iff in N80 as [_ H]. exact H. }
          destruct Hin as [I1 I2]. rewrite Eb, !contains_app in I1, I2. cbn [contains] in I1, I2.
          repeat (apply orb_false_iff in I1 as [? I1]). repeat (apply orb_false_iff in I2 as [? I2]).
          lia. }
        apply (accepted_shape_numeral _ sg u a1 adot a2 [] Hos).
        -- rewrite Hh, (lex_mant_ext _ _ _ mant_digit_hex). exact Hlt.
        -- exact Hnil.
        -- left; reflexivity.
  - destruct Hc as [c [a [b [e [Et [Hsc Hn]]]]]]. right.
    exists [c], [a; b; e]. split.
    + unfold is_sign in Hsc. apply orb_true_iff in Hsc as [E|E]; apply Z.eqb_eq in E; subst; [right; left|right; right]; reflexivity.
    + split; [exact Et|]. right; left. split; [reflexivity|exact Hn].
Qed.

(* text with a non-ASCII blank at an edge is not numeric for either routine *)
Lemma nbsp12_is_a_string :
  parse_float [194; 160; 49; 50] = PFErrSyntax /\ parse_float_prefix [194; 160; 49; 50] = Ok (FFin 0 0) /\
  ~ (awk_numeral (ascii_trim [194; 160; 49; 50]) \/ awk_special (ascii_trim [194; 160; 49; 50])).
Proof.
  split; [vm_compute; reflexivity|]. split; [vm_compute; reflexivity|].
  change (ascii_trim [194; 160; 49; 50]) with [194; 160; 49; 50].
  intros [H | [sg [w [Hsg [Et Hw]]]]].
  - destruct (awk_numeral_head _ H) as [sg [h [r [Hsg [Et Hh]]]]].
    destruct Hsg as [-> | [-> | ->]]; cbn [app] in Et; try discriminate.
    injection Et as <- _. destruct Hh as [Hh|Hh]; [vm_compute in Hh|]; discriminate.
  - destruct Hsg as [-> | [-> | ->]]; cbn [app] in Et; try discriminate. subst w.
    destruct Hw as [[H _] | [[H _] | [H _]]]; vm_compute in H; discriminate.
Qed.
