(* C02: the call depth of every machine state visited by a run of checked code is at most
   maxCallDepth.  [all_states Q k C ip stk m] says that Q holds of every machine state the first
   k dispatch steps of the run from (C, ip, stk, m) go through, including the runs of for-in
   bodies and of called functions (it follows the recursion of [VM.run] exactly). *)
From Coq Require Import ZifyBool.
From Verif Require Import Lib.Base Model.Ast Model.Instr Model.Compiler Model.Prims Model.VM
  Model.Verifier Proofs.CodeAt Proofs.VMLemmas Proofs.VerifierBase Proofs.VerifierSimple Proofs.VerifierSound Gen.Consts.

Section Depth.
  Variables value St err : Type.
  Variable P : prims value St err.
  Variable F : list cfunc.

  Notation mstate := (mstate value St).
  Notation run := (run P F).
  Notation step := (step P F).

  Fixpoint all_states (Q : mstate -> Prop) (k : nat) (C : code) (ip : Z) (stk : list value) (m : mstate) : Prop :=
    Q m /\
    match k with
    | O => True
    | S f =>
      match step C ip stk m with
      | ANext ip' stk' m' => all_states Q f C ip' stk' m'
      | AStop _ => True
      | AForIn vsc vi keys body ipa stk0 m0 =>
          (fix loop (ks : list value) (stk : list value) (m : mstate) : Prop :=
             match ks with
             | [] => all_states Q f C ipa stk m
             | key :: ks' =>
                 match var_write P m vsc vi key with
                 | WStuck => True
                 | WErr _ m1 => Q m1
                 | WOk m1 =>
                     all_states Q f body 0 stk m1 /\
                     match run f body 0 stk m1 with
                     | VDone stk' m2 => loop ks' stk' m2
                     | VBrk stk' m2 => all_states Q f C ipa stk' m2
                     | _ => True
                     end
                 end
             end) keys stk0 m0
      | ACall fn m1 saved ipa stk0 =>
          all_states Q f (cf_body fn) 0 stk0 m1 /\
          match run f (cf_body fn) 0 stk0 m1 with
          | VDone stk' m2 =>
              match pop_n (Z.to_nat (cf_nscalars fn)) stk' [] with
              | Some (_, t) => all_states Q f C ipa (p_null P :: t) (restore P saved m2)
              | None => True
              end
          | VRet v stk' m2 =>
              match pop_n (Z.to_nat (cf_nscalars fn)) stk' [] with
              | Some (_, t) => all_states Q f C ipa (v :: t) (restore P saved m2)
              | None => True
              end
          | _ => True
          end
      end
    end.

  Lemma all_states_S Q k C ip stk m :
    all_states Q (S k) C ip stk m =
    (Q m /\
      match step C ip stk m with
      | ANext ip' stk' m' => all_states Q k C ip' stk' m'
      | AStop _ => True
      | AForIn vsc vi keys body ipa stk0 m0 =>
          (fix loop (ks : list value) (stk : list value) (m : mstate) : Prop :=
             match ks with
             | [] => all_states Q k C ipa stk m
             | key :: ks' =>
                 match var_write P m vsc vi key with
                 | WStuck => True
                 | WErr _ m1 => Q m1
                 | WOk m1 =>
                     all_states Q k body 0 stk m1 /\
                     match run k body 0 stk m1 with
                     | VDone stk' m2 => loop ks' stk' m2
                     | VBrk stk' m2 => all_states Q k C ipa stk' m2
                     | _ => True
                     end
                 end
             end) keys stk0 m0
      | ACall fn m1 saved ipa stk0 =>
          all_states Q k (cf_body fn) 0 stk0 m1 /\
          match run k (cf_body fn) 0 stk0 m1 with
          | VDone stk' m2 =>
              match pop_n (Z.to_nat (cf_nscalars fn)) stk' [] with
              | Some (_, t) => all_states Q k C ipa (p_null P :: t) (restore P saved m2)
              | None => True
              end
          | VRet v stk' m2 =>
              match pop_n (Z.to_nat (cf_nscalars fn)) stk' [] with
              | Some (_, t) => all_states Q k C ipa (v :: t) (restore P saved m2)
              | None => True
              end
          | _ => True
          end
      end).
  Proof. reflexivity. Qed.

  Hypothesis Hshape : prims_shape P.
  Hypothesis HF : check_funcs F = true.

  Notation FT := (ftable_of F).
  Notation chkb := (chkb F).
  Notation good := (good value St err).

  Definition Qd (m : mstate) : Prop := depth m <= maxCallDepth.

  Ltac flow_inv H :=
    cbn [flow_of] in H; try discriminate H;
    try (unfold fnext_if in H;
         match type of H with (if ?b then _ else _) = _ => destruct b eqn:?; try discriminate H end).

  Lemma depth_sound : forall k cf cx a C d0 dend,
    check_ann FT (chkb cf) cx a C d0 dend = true ->
    forall ip d stk (m : mstate) B,
      is_target C ip = true -> look a ip = Some d ->
      zlen stk = B + d -> 0 <= B ->
      zlen (frame m) = cx_nlocals cx -> depth m <= maxCallDepth ->
      all_states Qd k C ip stk m.
  Proof.
    induction k as [|k IH]; intros cf cx a C d0 dend Hchk ip d stk m B Htgt Hlook Hstk HB Hfr Hdp.
    { split; [exact Hdp|exact I]. }
    pose proof Hchk as Hchk0.
    unfold check_ann in Hchk. apply andb_true_iff in Hchk as [Hchk Hend].
    apply andb_true_iff in Hchk as [Hstart Hall]. rewrite forallb_forall in Hall.
    rewrite all_states_S. split; [exact Hdp|].
    destruct (is_target_cases _ _ Htgt) as [Hip|[i Hfetch]].
    { rewrite step_end by lia. exact I. }
    pose proof (Hall _ (fetch_boundaries C 0 ip i Hfetch)) as Hloc.
    replace (0 + ip) with ip in Hloc by lia. cbn [fst snd] in Hloc. rewrite Hlook in Hloc.
    unfold local_ok in Hloc.
    assert (Hnext : forall ip2 d2 stk2 (m2 : mstate),
               tgt C a ip2 d2 = true -> zlen stk2 = B + d2 ->
               zlen (frame m2) = cx_nlocals cx -> depth m2 = depth m ->
               all_states Qd k C ip2 stk2 m2).
    { intros ip2 d2 stk2 m2 Ht Hs2 Hf2 Hd2. apply tgt_true in Ht as [Ht1 Ht2].
      eapply IH; try eassumption. lia. }
    (* the results of sub-runs, from the soundness theorem *)
    pose proof (run_sound value St err P Hshape F HF k) as Hrun.
    destruct (flow_of cx i) as [po pu|po joff fall|po|po| |foff|cfi|] eqn:Hfl.
    - apply andb_true_iff in Hloc as [Hpo Ht].
      rewrite (step_simple_f value St err P F HF cx C ip i po pu stk m Hfetch Hfl).
      pose proof (exec_simple_ok _ _ _ P Hshape cx i po pu stk m Hfl ltac:(lia) Hfr) as Hex.
      destruct (exec_simple P i stk m) as [stk' m'|e m'|]; cbn [sres_ok] in Hex; [|exact I|exact I].
      destruct Hex as (H1 & H2 & H3). apply (Hnext _ _ _ _ Ht); [lia|assumption|assumption].
    - apply andb_true_iff in Hloc as [Hloc Hfall]. apply andb_true_iff in Hloc as [Hpo Ht].
      rewrite (step_fetched value St err P F HF _ _ _ stk m Hfetch).
      destruct i; flow_inv Hfl; injection Hfl as <- <- <-; cbv zeta beta iota.
      + apply (Hnext _ _ _ _ Ht); [lia|assumption|reflexivity].
      + destruct stk as [|v stk]; [exact I|rewrite zlen_cons in *].
        destruct (p_to_bool P v);
          [apply (Hnext _ _ _ _ Hfall)|apply (Hnext _ _ _ _ Ht)]; first [lia|assumption|reflexivity].
      + destruct stk as [|v stk]; [exact I|rewrite zlen_cons in *].
        destruct (p_to_bool P v);
          [apply (Hnext _ _ _ _ Ht)|apply (Hnext _ _ _ _ Hfall)]; first [lia|assumption|reflexivity].
      + destruct stk as [|v stk]; [exact I|rewrite zlen_cons in *].
        destruct stk as [|w stk]; [exact I|rewrite zlen_cons in *].
        destruct (p_cmpj P c (ms m) w v);
          [apply (Hnext _ _ _ _ Ht)|apply (Hnext _ _ _ _ Hfall)]; first [lia|assumption|reflexivity].
    - rewrite (step_fetched value St err P F HF _ _ _ stk m Hfetch).
      destruct i; flow_inv Hfl; cbv zeta beta iota; try exact I.
      destruct stk; exact I.
    - rewrite (step_fetched value St err P F HF _ _ _ stk m Hfetch).
      destruct i; flow_inv Hfl; cbv zeta beta iota; try exact I.
      destruct stk; exact I.
    - rewrite (step_fetched value St err P F HF _ _ _ stk m Hfetch).
      destruct i; flow_inv Hfl. exact I.
    - (* for-in *)
      rewrite (step_fetched value St err P F HF _ _ _ stk m Hfetch).
      destruct i; flow_inv Hfl. injection Hfl as <-. cbv zeta beta iota.
      apply andb_true_iff in Heqb as [Hvar Hasc].
      destruct (sub_code C (ip + isize (IForIn vsc vi asc ai off)) off) as [body|] eqn:Hsub; [|discriminate].
      apply andb_true_iff in Hloc as [Hbody Ht].
      unfold VerifierSound.chkb in Hbody. destruct cf as [|cf']; [discriminate|]. cbn [check_seg] in Hbody.
      fold (chkb cf') in Hbody.
      assert (Hb0 : look (infer FT (in_forin cx d) body d) 0 = Some d).
      { unfold check_ann in Hbody. apply andb_true_iff in Hbody as [Hb _].
        apply andb_true_iff in Hb as [Hb _]. apply look_is_true. exact Hb. }
      generalize (p_array_keys P (ms m) asc ai). intros keys.
      assert (Hloop : forall stk1 (m1 : mstate),
                 zlen stk1 = B + d -> zlen (frame m1) = cx_nlocals cx -> depth m1 = depth m ->
                 (fix loop (ks : list value) (stk : list value) (m : mstate) : Prop :=
                    match ks with
                    | [] => all_states Qd k C (ip + isize (IForIn vsc vi asc ai off) + off) stk m
                    | key :: ks' =>
                        match var_write P m vsc vi key with
                        | WStuck => True
                        | WErr _ m1 => Qd m1
                        | WOk m1 =>
                            all_states Qd k body 0 stk m1 /\
                            match run k body 0 stk m1 with
                            | VDone stk' m2 => loop ks' stk' m2
                            | VBrk stk' m2 => all_states Qd k C (ip + isize (IForIn vsc vi asc ai off) + off) stk' m2
                            | _ => True
                            end
                    end
                    end) keys stk1 m1).
      { induction keys as [|key ks IHk]; intros stk1 m1 Hs1 Hf1 Hd1.
        - apply (Hnext _ _ _ _ Ht); assumption.
        - pose proof (var_write_ok _ _ _ P cx (depth m) m1 vsc vi key Hvar Hf1 Hd1) as Hw.
          destruct (var_write P m1 vsc vi key) as [m1'|e m1'|] eqn:Ew; cbn [wres_ok] in Hw; [| |exact I].
          + destruct Hw as [Hf1' Hd1'].
            split.
            * eapply (IH cf' (in_forin cx d) _ body d d Hbody 0 d stk1 m1' B);
                first [apply is_target_start|assumption|lia].
            * pose proof (Hrun cf' (in_forin cx d) _ body d d Hbody 0 d stk1 m1' B
                            (is_target_start body) Hb0 Hs1 HB Hf1' ltac:(lia)) as Hg.
              apply (good_weaken_forin value St err) in Hg. rewrite Hd1' in Hg.
              destruct (VM.run P F k body 0 stk1 m1') as [stk' m2|v stk' m2|stk' m2|x m2| |]; try exact I.
              -- destruct Hg as (G1 & G2 & G3). apply IHk; assumption.
              -- destruct Hg as (G1 & G2 & G3). apply (Hnext _ _ _ _ Ht); assumption.
          + (* a special variable rejected the key: the state is the one with the new specials *)
            destruct vsc; cbn [var_write] in Ew.
            * destruct (frame_set m1 vi key); discriminate.
            * destruct (p_set_special P (ms m1) vi key) as [s [u|e']]; [discriminate|].
              injection Ew as _ <-. unfold Qd. cbn [with_ms depth]. lia.
            * discriminate. }
      apply Hloop; [assumption|assumption|reflexivity].
    - (* user call *)
      rewrite (step_fetched value St err P F HF _ _ _ stk m Hfetch).
      destruct i; flow_inv Hfl. injection Hfl as <-. cbv zeta beta iota.
      destruct (nth_z FT fi) as [nsc|] eqn:Hnz; [|discriminate].
      apply andb_true_iff in Hloc as [Hloc Ht]. apply andb_true_iff in Hloc as [Hnsc0 Hnsc].
      destruct (ftable_func F HF _ _ Hnz) as (Hfi & fn & Hfn & Hns & Hcf).
      destruct (fi <? 0) eqn:Efi; [lia|]. rewrite Hfn.
      destruct (maxCallDepth <=? depth m) eqn:Emax; [exact I|].
      subst nsc.
      destruct (pop_n_z _ (cf_nscalars fn) stk ltac:(lia) ltac:(lia)) as (args & t0 & Ep & Lt0 & Largs).
      rewrite Ep.
      unfold check_func in Hcf. apply andb_true_iff in Hcf as [_ Hcode].
      unfold check_code in Hcode. cbn [check_seg] in Hcode. fold (chkb (length (cf_body fn))) in Hcode.
      assert (Hc0 : look (infer FT (top_ctx (cf_nscalars fn) true) (cf_body fn) 0) 0 = Some 0).
      { unfold check_ann in Hcode. apply andb_true_iff in Hcode as [Hb _].
        apply andb_true_iff in Hb as [Hb _]. apply look_is_true. exact Hb. }
      set (m1 := {| ms := p_push_arrays P (ms m) arrs (cf_narrays fn); frame := args; depth := depth m + 1 |}).
      assert (Hm1f : zlen (frame m1) = cx_nlocals (top_ctx (cf_nscalars fn) true)) by exact Largs.
      assert (Hm1d : depth m1 <= maxCallDepth) by (cbn [m1 depth]; lia).
      assert (Hstk0 : zlen stk = zlen stk + 0) by lia.
      assert (HB0 : 0 <= zlen stk) by apply zlen_nonneg.
      split.
      + exact (IH _ (top_ctx (cf_nscalars fn) true) _ (cf_body fn) 0 0 Hcode 0 0 stk m1 (zlen stk)
                 (is_target_start _) Hc0 Hstk0 HB0 Hm1f Hm1d).
      + pose proof (Hrun _ (top_ctx (cf_nscalars fn) true) _ (cf_body fn) 0 0 Hcode 0 0 stk m1 (zlen stk)
                      (is_target_start _) Hc0 Hstk0 HB0 Hm1f Hm1d) as Hg.
        assert (Hfin : forall v stk' (m2 : mstate), zlen stk' = zlen stk ->
                   match pop_n (Z.to_nat (cf_nscalars fn)) stk' [] with
                   | Some (_, t) => all_states Qd k C (ip + isize (ICallUser fi arrs)) (v :: t) (restore P m m2)
                   | None => True
                   end).
        { intros v stk' m2 Hs'.
          destruct (pop_n_z _ (cf_nscalars fn) stk' ltac:(lia) ltac:(lia)) as (a2 & t2 & Ep2 & Lt2 & _).
          rewrite Ep2. apply (Hnext _ _ _ _ Ht).
          - rewrite zlen_cons. lia.
          - cbn [restore frame]. assumption.
          - reflexivity. }
        destruct (VM.run P F k (cf_body fn) 0 stk m1) as [stk' m2|v stk' m2|stk' m2|x m2| |];
          cbn [VerifierSound.good top_ctx cx_forin] in Hg; try exact I.
        * apply Hfin. lia.
        * apply Hfin. lia.
    - discriminate.
  Qed.

  Theorem check_code_depth_bounded nlocals infunc d0 dend C :
    check_code FT nlocals infunc d0 dend C = true ->
    forall fuel stk (m : mstate),
      d0 <= zlen stk -> zlen (frame m) = nlocals -> depth m <= maxCallDepth ->
      all_states (fun m' => depth m' <= maxCallDepth) fuel C 0 stk m.
  Proof.
    intros Hc fuel stk m Hd Hf Hdp.
    unfold check_code in Hc. cbn [check_seg] in Hc. fold (chkb (length C)) in Hc.
    assert (H0 : look (infer FT (top_ctx nlocals infunc) C d0) 0 = Some d0).
    { unfold check_ann in Hc. apply andb_true_iff in Hc as [Hb _].
      apply andb_true_iff in Hb as [Hb _]. apply look_is_true. exact Hb. }
    change (all_states Qd fuel C 0 stk m).
    eapply depth_sound with (B := zlen stk - d0); try eassumption.
    - apply is_target_start.
    - lia.
    - lia.
  Qed.

End Depth.

Arguments all_states {value St err}.
