(* C01: statements of the simulation between syntax-tree evaluation and the VM. *)
From Verif Require Import Lib.Base Model.Ast Model.Instr Model.Compiler Model.Prims Model.VM Model.AstSem
  Proofs.CodeAt Proofs.VMLemmas Proofs.Reach Proofs.PrimsOk Proofs.CompLemmas.

Section SimDefs.
  Variables value St err : Type.
  Variable P : prims value St err.
  Variable FN : list func.

  Definition F : list cfunc := map comp_func FN.

  Notation mstate := (mstate value St).
  Notation reaches := (reaches P F).
  Notation stops := (stops P F).

  Definition inl (l : lctx) : bool := match l with LNone => false | _ => true end.

  (* the stack shape an evaluated assignment target leaves *)
  Definition ref_stack (r : lref value) (stk : list value) : list value :=
    match r with
    | RVar _ _ => stk
    | RField idx => idx :: stk
    | RIndex _ _ key => key :: stk
    end.

  (* targets that differ only by an equivalent subscript *)
  Definition ref_eq (r r' : lref value) : Prop :=
    match r, r' with
    | RVar sc i, RVar sc' i' => sc = sc' /\ i = i'
    | RField a, RField b => a = b
    | RIndex sc i k, RIndex sc' i' k' => sc = sc' /\ i = i' /\ keq P k k'
    | _, _ => False
    end.

  Definition SimExpr (n : nat) : Prop :=
    forall e m C p stk, code_at C p (comp_expr e) ->
    match eval P FN n e m with
    | ENormal v m' => reaches C p stk m (p + csize (comp_expr e)) (v :: stk) m'
    | EAbort x m' => stops C p stk m (VAbort x m')
    | _ => True
    end.

  Definition SimExprs (n : nat) : Prop :=
    forall es m C p stk, code_at C p (comp_exprs es) ->
    match eval_exprs P FN n es m with
    | ENormal vs m' => reaches C p stk m (p + csize (comp_exprs es)) (rev vs ++ stk) m' /\ zlen vs = exprs_len es
    | EAbort x m' => stops C p stk m (VAbort x m')
    | _ => True
    end.

  Definition SimArgs (n : nat) : Prop :=
    forall a m C p stk, code_at C p (comp_args a) ->
    match eval_args P FN n a m with
    | ENormal vs m' => reaches C p stk m (p + csize (comp_args a)) (rev vs ++ stk) m' /\ zlen vs = args_scalars a
    | EAbort x m' => stops C p stk m (VAbort x m')
    | _ => True
    end.

  (* subscripts: the VM may hold an equivalent key (integer constants are pushed as strings) *)
  Definition SimIndex (n : nat) : Prop :=
    forall es m C p stk, code_at C p (comp_index es) ->
    match eval_index P FN n es m with
    | ENormal key m' => exists key', keq P key key' /\ reaches C p stk m (p + csize (comp_index es)) (key' :: stk) m'
    | EAbort x m' => stops C p stk m (VAbort x m')
    | _ => True
    end.

  (* the target a given lvalue evaluates to has the lvalue's shape *)
  Definition lv_ref (lv : lval) (r : lref value) : Prop :=
    match lv, r with
    | LVar sc i, RVar sc' i' => sc = sc' /\ i = i'
    | LField _, RField _ => True
    | LIndex sc i _, RIndex sc' i' _ => sc = sc' /\ i = i'
    | _, _ => False
    end.

  Definition SimLref (n : nat) : Prop :=
    forall lv m C p stk, code_at C p (lv_code lv) ->
    match eval_lref P FN n lv m with
    | ENormal r m' => exists r', lv_ref lv r /\ ref_eq r r' /\ reaches C p stk m (p + csize (lv_code lv)) (ref_stack r' stk) m'
    | EAbort x m' => stops C p stk m (VAbort x m')
    | _ => True
    end.

  (* condition(e, invert) + jump: the jump is taken iff the truth value differs from invert *)
  Definition SimCond (n : nat) : Prop :=
    forall e inv off m C p stk, code_at C p (comp_cond e inv off) ->
    match eval P FN n e m with
    | ENormal v m' =>
        let e_ := p + csize (comp_cond e inv off) in
        reaches C p stk m (if xorb (p_to_bool P v) inv then e_ + off else e_) stk m'
    | EAbort x m' => stops C p stk m (VAbort x m')
    | _ => True
    end.

  (* operands of a concatenation chain, pushed left to right; the value of the chain is their
     left-nested concatenation in the final state *)
  Definition SimCat (n : nat) : Prop :=
    forall e m C p stk, code_at C p (comp_cat e) ->
    match eval P FN n e m with
    | ENormal v m' =>
        exists v0 vs, zlen (v0 :: vs) = cat_count e /\
          v = fold_left (p_concat P (ms m')) vs v0 /\
          reaches C p stk m (p + csize (comp_cat e)) (rev (v0 :: vs) ++ stk) m'
    | EAbort x m' => stops C p stk m (VAbort x m')
    | _ => True
    end.

  Definition stmt_post (l : lctx) (C : code) (p : Z) (stk : list value) (m : mstate) (e_ : Z)
             (r : xres value St err) : Prop :=
    match r with
    | RNormal m' => reaches C p stk m e_ stk m'
    | RBreak m' =>
        match l with
        | LLoop bd _ => reaches C p stk m (e_ + bd) stk m'
        | LForIn _ => stops C p stk m (VBrk stk m')
        | LNone => True
        end
    | RContinue m' =>
        match l with
        | LLoop _ cd | LForIn cd => reaches C p stk m (e_ + cd) stk m'
        | LNone => True
        end
    | RReturn v m' => stops C p stk m (VRet v stk m')
    | RAbort x m' => stops C p stk m (VAbort x m')
    | _ => True
    end.

  Definition SimStmt (n : nat) : Prop :=
    forall s l m C p stk, code_at C p (comp_stmt l s) ->
    stmt_post l C p stk m (p + csize (comp_stmt l s)) (exec P FN n (inl l) s m).

  Definition SimStmts (n : nat) : Prop :=
    forall ss l m C p stk, code_at C p (comp_stmts l ss) ->
    stmt_post l C p stk m (p + csize (comp_stmts l ss)) (exec_stmts P FN n (inl l) ss m).

  (* the loop of while / for, entered at its bottom test: pt is the position of the bottom
     condition code, pb the start of the body *)
  Definition SimLoop (n : nat) : Prop :=
    forall c post body m C pb stk,
    let cpost := match post with OSnone => [] | OSsome s1 => comp_stmt LNone s1 end in
    let body_sz := csize (comp_stmts (LLoop 0 0) body) in
    let bot := match c with
               | OEsome ce => comp_cond ce false 0
               | OEnone => [IJump 0]
               end in
    let tail := csize cpost + csize bot in
    let bot' := match c with
                | OEsome ce => comp_cond ce false (- (body_sz + tail))
                | OEnone => [IJump (- (body_sz + tail))]
                end in
    code_at C pb (comp_stmts (LLoop tail 0) body ++ cpost ++ bot') ->
    match exec_loop P FN n c post body m with
    | RNormal m' => reaches C (pb + body_sz + csize cpost) stk m (pb + body_sz + tail) stk m'
    | RReturn v m' => stops C (pb + body_sz + csize cpost) stk m (VRet v stk m')
    | RAbort x m' => stops C (pb + body_sz + csize cpost) stk m (VAbort x m')
    | _ => True
    end.

  (* the same loop entered through its top test (condition(c, true)) at p *)
  Definition SimLoopTop (n : nat) : Prop :=
    forall c post body m C p stk,
    let cpost := match post with OSnone => [] | OSsome s1 => comp_stmt LNone s1 end in
    let body_sz := csize (comp_stmts (LLoop 0 0) body) in
    let bot := match c with
               | OEsome ce => comp_cond ce false 0
               | OEnone => [IJump 0]
               end in
    let tail := csize cpost + csize bot in
    let bot' := match c with
                | OEsome ce => comp_cond ce false (- (body_sz + tail))
                | OEnone => [IJump (- (body_sz + tail))]
                end in
    let top := match c with
               | OEsome ce => comp_cond ce true (body_sz + tail)
               | OEnone => []
               end in
    code_at C p (top ++ comp_stmts (LLoop tail 0) body ++ cpost ++ bot') ->
    match exec_loop P FN n c post body m with
    | RNormal m' => reaches C p stk m (p + csize top + body_sz + tail) stk m'
    | RReturn v m' => stops C p stk m (VRet v stk m')
    | RAbort x m' => stops C p stk m (VAbort x m')
    | _ => True
    end.

  (* subscript items: integer constants are pushed as strings, so the VM holds
     pairwise-equivalent values *)
  Definition SimItems (n : nat) : Prop :=
    forall es m C p stk, code_at C p (comp_index_items es) ->
    match eval_exprs P FN n es m with
    | ENormal vs m' =>
        exists vs', Forall2 (keq P) vs vs' /\ zlen vs = exprs_len es /\
          reaches C p stk m (p + csize (comp_index_items es)) (rev vs' ++ stk) m'
    | EAbort x m' => stops C p stk m (VAbort x m')
    | _ => True
    end.

  Definition Sim (n : nat) : Prop :=
    SimExpr n /\ SimExprs n /\ SimArgs n /\ SimIndex n /\ SimLref n /\ SimCond n /\ SimCat n /\
    SimStmt n /\ SimStmts n /\ SimLoop n /\ SimLoopTop n /\ SimItems n.

End SimDefs.

Arguments F : clear implicits.
Arguments inl : clear implicits.
Arguments ref_stack {value}.
Arguments ref_eq {value St err}.
Arguments lv_ref {value}.
Arguments SimExpr {value St err}.
Arguments SimExprs {value St err}.
Arguments SimArgs {value St err}.
Arguments SimIndex {value St err}.
Arguments SimLref {value St err}.
Arguments SimCond {value St err}.
Arguments SimCat {value St err}.
Arguments stmt_post {value St err}.
Arguments SimStmt {value St err}.
Arguments SimStmts {value St err}.
Arguments SimLoop {value St err}.
Arguments SimLoopTop {value St err}.
Arguments SimItems {value St err}.
Arguments Sim {value St err}.
