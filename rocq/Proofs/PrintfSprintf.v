(* C09: end to end — sprintf (parseFmtTypes, argument conversion, the modelled
   fmt.Sprintf) on a format  pre ++ <conversion specification> ++ post  equals
   the C specification, for the integer conversions. *)
From Verif Require Import Lib.Base Lib.Dyadic Lib.Utf8 Model.Printf
  Proofs.PrintfSpec Proofs.PrintfBase Proofs.PrintfInt Proofs.PrintfDir.

(* the AWK way to an integer: truncation toward zero of a finite number *)
Definition awk_int (x : fnum) : option Z :=
  match x with FFin m e => Some (ftrunc m e) | _ => None end.

Lemma f2i64_awk_int x v : awk_int x = Some v -> - two63 <= v < two63 -> f2i64 x = v.
Proof.
  destruct x as [| |m e]; cbn [awk_int]; try discriminate. intros [= <-] H.
  unfold f2i64, in_i64. replace (- two63 <=? ftrunc m e) with true by (symmetry; apply Z.leb_le; lia).
  replace (ftrunc m e <? two63) with true by (symmetry; apply Z.ltb_lt; lia). reflexivity.
Qed.

Lemma i64_to_u64_mod v : - two63 <= v < two63 -> i64_to_u64 v = v mod two64.
Proof.
  intros H. unfold i64_to_u64. unfold two63, two64 in *. destruct (v <? 0) eqn:E.
  - apply Z.ltb_lt in E. apply Z.mod_unique with (q := -1); lia.
  - apply Z.ltb_ge in E. symmetry. apply Z.mod_small. lia.
Qed.

(* ---- indexing the argument list ---- *)
Lemma index_0 {A} (x : A) l : index (x :: l) 0 = Ok x.
Proof. unfold index. rewrite zlen_cons. pose proof (zlen_nonneg l).
  replace (0 <? 1 + zlen l) with true by (symmetry; apply Z.ltb_lt; lia). reflexivity. Qed.
Lemma index_1 {A} (x y : A) l : index (x :: y :: l) 1 = Ok y.
Proof. unfold index. rewrite !zlen_cons. pose proof (zlen_nonneg l).
  replace (1 <? 1 + (1 + zlen l)) with true by (symmetry; apply Z.ltb_lt; lia). reflexivity. Qed.
Lemma index_2 {A} (x y z : A) l : index (x :: y :: z :: l) 2 = Ok z.
Proof. unfold index. rewrite !zlen_cons. pose proof (zlen_nonneg l).
  replace (2 <? 1 + (1 + (1 + zlen l))) with true by (symmetry; apply Z.ltb_lt; lia). reflexivity. Qed.

(* ---- parseFmtTypes on pre ++ render d ++ post ---- *)
Lemma is_flag_fmtch c : is_flag c = true -> is_fmtch c = true.
Proof.
  unfold is_flag, is_fmtch, is_digit. intros H.
  repeat (apply orb_true_iff in H as [H|H]); apply Z.eqb_eq in H; subst c; reflexivity.
Qed.
Lemma is_dig_fmtch c : is_dig c = true -> is_fmtch c = true.
Proof. unfold is_fmtch. intros H. change (is_digit c) with (is_dig c). rewrite H. rewrite !orb_true_r. reflexivity. Qed.

Lemma forallb_impl {A} (p q : A -> bool) l : (forall x, p x = true -> q x = true) -> forallb p l = true -> forallb q l = true.
Proof. intros H. induction l as [|x t IH]; cbn [forallb]; [reflexivity|]. intros E. apply andb_true_iff in E as [E1 E2].
  rewrite (H x E1), (IH E2). reflexivity. Qed.

Lemma filter_none {A} (p : A -> bool) l : forallb (fun x => negb (p x)) l = true -> filter p l = [].
Proof. induction l as [|x t IH]; cbn [forallb filter]; [reflexivity|]. intros E. apply andb_true_iff in E as [E1 E2].
  apply negb_true_iff in E1. rewrite E1. apply IH. exact E2. Qed.

Definition run_of (d : dir) : bytes := d_flags d ++ render_w (d_width d) ++ render_p (d_prec d).

Definition dir_tys (d : dir) : list ty :=
  (match d_width d with WStar => [TyD] | _ => [] end) ++ (match d_prec d with PrStar => [TyD] | _ => [] end).

Lemma run_fmtch d : wf_dir d = true -> forallb is_fmtch (run_of d) = true /\ star_tys (run_of d) = dir_tys d.
Proof.
  intros Hwf. unfold wf_dir in Hwf. apply andb_true_iff in Hwf as [Hwf Hwp]. apply andb_true_iff in Hwf as [Hfl Hww].
  destruct d as [fl w p c]. unfold run_of, dir_tys, star_tys. cbn [d_flags d_width d_prec] in *.
  assert (Hnf : forall l, forallb is_flag l = true -> filter (fun c => c =? 42) l = []).
  { intros l H. apply filter_none. eapply forallb_impl; [|exact H]. intros x Hx. unfold is_flag in Hx.
    repeat (apply orb_true_iff in Hx as [Hx|Hx]); apply Z.eqb_eq in Hx; subst x; reflexivity. }
  assert (Hnd : forall l, forallb is_dig l = true -> filter (fun c => c =? 42) l = []).
  { intros l H. apply filter_none. eapply forallb_impl; [|exact H]. intros x Hx. unfold is_dig in Hx.
    apply andb_true_iff in Hx as [A B]. apply Z.leb_le in A, B. apply negb_true_iff, Z.eqb_neq. lia. }
  rewrite !forallb_app, !filter_app, !map_app. rewrite (Hnf fl Hfl). rewrite (forallb_impl _ _ fl is_flag_fmtch Hfl).
  cbn [map app andb].
  assert (Hw : forallb is_fmtch (render_w w) = true /\ map (fun _ => TyD) (filter (fun c => c =? 42) (render_w w)) = match w with WStar => [TyD] | _ => [] end).
  { destruct w as [|ds|]; cbn [render_w]; [split; reflexivity | | split; reflexivity].
    destruct ds as [|c0 t0]; [discriminate|]. apply andb_true_iff in Hww as [Hww Ht0]. apply andb_true_iff in Hww as [Hc0 _].
    assert (Hall : forallb is_dig (c0 :: t0) = true) by (cbn [forallb]; rewrite Hc0, Ht0; reflexivity).
    rewrite (Hnd _ Hall). split; [exact (forallb_impl _ _ _ is_dig_fmtch Hall) | reflexivity]. }
  assert (Hp : forallb is_fmtch (render_p p) = true /\ map (fun _ => TyD) (filter (fun c => c =? 42) (render_p p)) = match p with PrStar => [TyD] | _ => [] end).
  { destruct p as [|ds|]; cbn [render_p]; [split; reflexivity | | split; reflexivity].
    cbn [forallb filter]. change (46 =? 42) with false. cbv iota. rewrite (Hnd _ Hwp).
    split; [exact (forallb_impl _ _ _ is_dig_fmtch Hwp) | reflexivity]. }
  destruct Hw as [-> ->]. destruct Hp as [-> ->]. split; reflexivity.
Qed.

Lemma conv_byte_not_fmtch c : is_fmtch (conv_byte c) = false.
Proof. destruct c; reflexivity. Qed.

Definition go_render (d : dir) : bytes := 37 :: tail_of d (go_conv_byte (d_conv d)).

Theorem parse_render d pre post : wf_dir d = true -> no_pct pre = true -> no_pct post = true ->
  parse_fmt_types (pre ++ render d ++ post)
  = Ok (pre ++ go_render d ++ post, dir_tys d ++ [conv_ty (d_conv d)]).
Proof.
  intros Hwf Hpre Hpost. unfold parse_fmt_types. rewrite (pft_lit_app pre _ Hpre).
  destruct (run_fmtch d Hwf) as [Hrun Htys].
  unfold render, go_render, tail_of. fold (run_of d).
  assert (E : (37 :: d_flags d ++ render_w (d_width d) ++ render_p (d_prec d) ++ [conv_byte (d_conv d)]) ++ post
              = 37 :: run_of d ++ conv_byte (d_conv d) :: post).
  { unfold run_of. cbn [app]. rewrite <- !app_assoc. reflexivity. }
  rewrite E. cbn [pft]. change (37 =? 37) with true. cbv iota.
  rewrite (pft_pct_run (run_of d) _ _ _ post Hrun (verb_info_conv (d_conv d)) (conv_byte_not_fmtch _)).
  rewrite (pft_lit post Hpost). unfold cons_out. rewrite Htys. f_equal. f_equal.
  unfold run_of. cbn [app]. rewrite <- !app_assoc. reflexivity.
Qed.

(* ---- the modelled fmt.Sprintf on pre ++ go_render d ++ post ---- *)
Lemma span_lit_pre pre x : no_pct pre = true -> span_lit (pre ++ 37 :: x) = (pre, 37 :: x).
Proof.
  induction pre as [|c t IH]; intros H; [reflexivity|].
  cbn [no_pct forallb] in H. apply andb_true_iff in H as [Hc Ht]. apply negb_true_iff in Hc.
  cbn [app span_lit]. rewrite Hc, (IH Ht). reflexivity.
Qed.

Lemma span_lit_all s : no_pct s = true -> span_lit s = (s, []).
Proof.
  induction s as [|c t IH]; intros H; [reflexivity|].
  cbn [no_pct forallb] in H. apply andb_true_iff in H as [Hc Ht]. apply negb_true_iff in Hc.
  cbn [span_lit]. rewrite Hc, (IH Ht). reflexivity.
Qed.

Theorem go_sprintf_render d wv pv a pre post :
  wf_dir d = true -> in_lim d wv pv -> no_pct pre = true -> no_pct post = true ->
  exists f, st_matches f (resolve d wv pv) /\
    go_sprintf (pre ++ go_render d ++ post) (star_gargs d wv pv ++ [a])
    = match print_arg f a (go_conv_byte (d_conv d)) with
      | Ok o => Ok (pre ++ o ++ post)
      | Err m => Err m | Panic => Panic | Unmod => Unmod
      end.
Proof.
  intros Hwf Hlim Hpre Hpost.
  destruct (go_directive_render d wv pv (go_conv_byte (d_conv d)) a [] post Hwf Hlim (go_conv_byte_ok _)) as (f & Hst & Hdir).
  exists f. split; [exact Hst|].
  unfold go_sprintf, go_render.
  assert (E : pre ++ (37 :: tail_of d (go_conv_byte (d_conv d))) ++ post
              = pre ++ 37 :: (tail_of d (go_conv_byte (d_conv d)) ++ post)) by reflexivity.
  rewrite E. cbn [go_printf]. rewrite (span_lit_pre pre _ Hpre). rewrite Hdir.
  destruct (print_arg f a (go_conv_byte (d_conv d))) as [o| | |]; try reflexivity.
  rewrite app_length. cbn [length]. rewrite Nat.add_succ_r. cbn [go_printf].
  rewrite (span_lit_all post Hpost). cbn [go_extra]. rewrite app_nil_r. reflexivity.
Qed.

(* ---- argument lists ---- *)
Definition args_for (d : dir) (aw ap a : value) (extra : list value) : list value :=
  (match d_width d with WStar => [aw] | _ => [] end)
  ++ (match d_prec d with PrStar => [ap] | _ => [] end) ++ a :: extra.

Lemma conv_args_render chars ffmt d aw ap a extra wv pv g :
  (d_width d = WStar -> f2i64 (v_num aw) = wv) ->
  (d_prec d = PrStar -> f2i64 (v_num ap) = pv) ->
  conv_arg chars ffmt (conv_ty (d_conv d)) a = Ok g ->
  conv_args chars ffmt (dir_tys d ++ [conv_ty (d_conv d)]) (args_for d aw ap a extra) 0
  = Ok (star_gargs d wv pv ++ [g]) /\
  (zlen (dir_tys d ++ [conv_ty (d_conv d)]) >? zlen (args_for d aw ap a extra)) = false.
Proof.
  intros Hw Hp Hg. unfold dir_tys, args_for, star_gargs.
  destruct (d_width d) eqn:EW; destruct (d_prec d) eqn:EP; cbn [app conv_args];
    rewrite ?index_0; cbn [rbind conv_arg Z.add]; rewrite ?index_1; cbn [rbind conv_arg Z.add]; rewrite ?index_2; cbn [rbind];
    rewrite ?Hg; cbn [rbind]; rewrite ?(Hw eq_refl), ?(Hp eq_refl);
    (split; [reflexivity | rewrite ?zlen_cons, ?zlen_nil; pose proof (zlen_nonneg extra); rewrite Z.gtb_ltb; apply Z.ltb_ge; lia]).
Qed.

(* ---- the integer conversions ---- *)
Definition is_int_conv (c : conv) : bool :=
  match c with Cd | Ci | Co | Cu | Cx | CX => true | _ => false end.

(* the combinations of flags / precision / value in which fmt and C differ *)
Definition int_ok (d : dir) (r : rspec) (v : Z) : Prop :=
  match d_conv d with
  | Cd | Ci => ~ (r_prec r = Some 0 /\ v = 0 /\ r_plus r || r_space r = true)
  | c => unsigned_ok r c (v mod two64)
  end.

Theorem sprintf_int_agree chars ffmt d pre post aw ap a extra wv pv v :
  wf_dir d = true -> is_int_conv (d_conv d) = true ->
  no_pct pre = true -> no_pct post = true ->
  in_lim d wv pv ->
  (d_width d = WStar -> awk_int (v_num aw) = Some wv) ->
  (d_prec d = PrStar -> awk_int (v_num ap) = Some pv) ->
  awk_int (v_num a) = Some v -> - two63 <= v < two63 ->
  int_ok d (resolve d wv pv) v ->
  sprintf chars ffmt (pre ++ render d ++ post) (args_for d aw ap a extra)
  = Ok (pre ++ c_directive chars d wv pv (AInt v) ++ post).
Proof.
  intros Hwf Hic Hpre Hpost Hlim Hw Hp Ha Hv Hok.
  unfold sprintf. rewrite (parse_render d pre post Hwf Hpre Hpost).
  assert (Hw' : d_width d = WStar -> f2i64 (v_num aw) = wv).
  { intros E. apply f2i64_awk_int; [exact (Hw E)|]. destruct Hlim as [L _]. rewrite E in L. unfold two63. lia. }
  assert (Hp' : d_prec d = PrStar -> f2i64 (v_num ap) = pv).
  { intros E. apply f2i64_awk_int; [exact (Hp E)|]. destruct Hlim as [_ L]. rewrite E in L. unfold two63. lia. }
  pose proof (f2i64_awk_int _ _ Ha Hv) as Hf.
  set (g := match conv_ty (d_conv d) with TyD => GInt v | _ => GUint (v mod two64) end).
  assert (Hg : conv_arg chars ffmt (conv_ty (d_conv d)) a = Ok g).
  { unfold g. destruct (d_conv d); try discriminate; cbn [conv_ty conv_arg]; rewrite Hf; try reflexivity;
      rewrite (i64_to_u64_mod v Hv); reflexivity. }
  destruct (conv_args_render chars ffmt d aw ap a extra wv pv g Hw' Hp' Hg) as [Hca Hlen].
  rewrite Hlen, Hca. cbn [rbind].
  destruct (go_sprintf_render d wv pv g pre post Hwf Hlim Hpre Hpost) as (f & Hst & Hgo).
  rewrite Hgo. unfold c_directive, int_ok in *. unfold g.
  destruct (d_conv d); try discriminate; cbn [conv_ty go_conv_byte print_arg int_verb Z.eqb Pos.eqb orb].
  - rewrite (fmt_integer_signed f _ v Hst Hok). reflexivity.
  - rewrite (fmt_integer_signed f _ v Hst Hok). reflexivity.
  - rewrite (fmt_integer_o f _ v Hst Hok). reflexivity.
  - rewrite (fmt_integer_u f _ v Hst Hok). reflexivity.
  - rewrite (fmt_integer_x f _ v Hst Hok). reflexivity.
  - rewrite (fmt_integer_X f _ v Hst Hok). reflexivity.
Qed.
