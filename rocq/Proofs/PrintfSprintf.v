(* C09: end to end — sprintf (parseFmtTypes, argument conversion, the modelled
   fmt.Sprintf) on a format  pre ++ <conversion specification> ++ post  equals
   the C specification, for the integer conversions. *)
From Verif Require Import Lib.Base Lib.Dyadic Lib.Utf8 Model.Printf
  Proofs.PrintfSpec Proofs.PrintfBase Proofs.PrintfInt Proofs.PrintfDir Proofs.PrintfScan.

(* the AWK way to an integer: truncation toward zero of a finite number *)
Definition awk_int (x : fnum) : option Z :=
  match x with FFin m e => Some (ftrunc m e) | _ => None end.

Lemma f2i64_awk_int x v : awk_int x = Some v -> - two63 <= v < two63 -> f2i64 x = v.
Proof.
  destruct x as [| |m e]; cbn [awk_int]; try discriminate. intros [= <-] H.
  unfold f2i64, in_i64. replace (- two63 <=? ftrunc m e) with true by (symmetry; apply Z.leb_le; lia).
  replace (ftrunc m e <? two63) with true by (symmetry; apply Z.ltb_lt; lia). reflexivity.
Qed.

Lemma i64_to_u64_mod v : - two63 <= v < two63 -> i64_to_u64 v = v mod two64.
Proof.
  intros H. unfold i64_to_u64. unfold two63, two64 in *. destruct (v <? 0) eqn:E.
  - apply Z.ltb_lt in E. apply Z.mod_unique with (q := -1); lia.
  - apply Z.ltb_ge in E. symmetry. apply Z.mod_small. lia.
Qed.

(* ---- indexing the argument list ---- *)
Lemma index_0 {A} (x : A) l : index (x :: l) 0 = Ok x.
Proof. unfold index. rewrite zlen_cons. pose proof (zlen_nonneg l).
  replace (0 <? 1 + zlen l) with true by (symmetry; apply Z.ltb_lt; lia). reflexivity. Qed.
Lemma index_1 {A} (x y : A) l : index (x :: y :: l) 1 = Ok y.
Proof. unfold index. rewrite !zlen_cons. pose proof (zlen_nonneg l).
  replace (1 <? 1 + (1 + zlen l)) with true by (symmetry; apply Z.ltb_lt; lia). reflexivity. Qed.
Lemma index_2 {A} (x y z : A) l : index (x :: y :: z :: l) 2 = Ok z.
Proof. unfold index. rewrite !zlen_cons. pose proof (zlen_nonneg l).
  replace (2 <? 1 + (1 + (1 + zlen l))) with true by (symmetry; apply Z.ltb_lt; lia). reflexivity. Qed.

(* ---- parseFmtTypes on pre ++ render d ++ post ---- *)
Definition go_render (d : dir) : bytes := 37 :: go_tail d.

Theorem parse_render d pre post : wf_dir d = true -> no_pct pre = true -> no_pct post = true ->
  parse_fmt_types (pre ++ render d ++ post)
  = Ok (pre ++ go_render d ++ post, dir_tys d ++ [conv_ty (d_conv d)], dir_stars d (zlen pre + 1)).
Proof.
  intros Hwf Hpre Hpost. unfold parse_fmt_types. rewrite (pft_lit_app pre _ _ Hpre).
  rewrite render_tail. cbn [app pft]. change (37 =? 37) with true. cbv iota.
  rewrite cons_out_prepend. rewrite (pft_dir _ d post Hwf). rewrite (pft_lit post _ Hpost).
  cbn [prepend]. rewrite !app_nil_r. unfold go_render. rewrite Z.add_0_l. cbn [app].
  reflexivity.
Qed.

(* ---- the modelled fmt.Sprintf on pre ++ % tail ++ post ---- *)
Lemma span_lit_pre pre x : no_pct pre = true -> span_lit (pre ++ 37 :: x) = (pre, 37 :: x).
Proof.
  induction pre as [|c t IH]; intros H; [reflexivity|].
  cbn [no_pct forallb] in H. apply andb_true_iff in H as [Hc Ht]. apply negb_true_iff in Hc.
  cbn [app span_lit]. rewrite Hc, (IH Ht). reflexivity.
Qed.

Lemma span_lit_all s : no_pct s = true -> span_lit s = (s, []).
Proof.
  induction s as [|c t IH]; intros H; [reflexivity|].
  cbn [no_pct forallb] in H. apply andb_true_iff in H as [Hc Ht]. apply negb_true_iff in Hc.
  cbn [span_lit]. rewrite Hc, (IH Ht). reflexivity.
Qed.

Theorem go_sprintf_tail d wv pv verb a pre post :
  wf_dir d = true -> in_lim d wv pv -> verb_ok verb -> no_pct pre = true -> no_pct post = true ->
  exists f, st_matches f (resolve d wv pv) /\
    go_sprintf (pre ++ 37 :: tail_of d verb ++ post) (star_gargs d wv pv ++ [a])
    = match print_arg f a verb with
      | Ok o => Ok (pre ++ o ++ post)
      | Err m => Err m | Panic => Panic | Unmod => Unmod
      end.
Proof.
  intros Hwf Hlim Hv Hpre Hpost.
  destruct (go_directive_render d wv pv verb a [] post Hwf Hlim Hv) as (f & Hst & Hdir).
  exists f. split; [exact Hst|].
  unfold go_sprintf. cbn [go_printf]. rewrite (span_lit_pre pre _ Hpre). rewrite Hdir.
  destruct (print_arg f a verb) as [o| | |]; try reflexivity.
  rewrite app_length. cbn [length]. rewrite Nat.add_succ_r. cbn [go_printf].
  rewrite (span_lit_all post Hpost). cbn [go_extra]. rewrite app_nil_r. reflexivity.
Qed.

(* ---- the directive fmt sees after translation and after sprintf's patch ---- *)
Definition set_dprec (d : dir) (p : pr) : dir := mkDir (d_flags d) (d_width d) p (d_conv d).
Definition is_float_conv (c : conv) : bool := match c with Ce | CE | Cf | Cg | CG => true | _ => false end.

(* g/G without precision carry .6; a negative '*' precision is dropped (for the
   floating conversions: replaced by the value 6) *)
Definition eff_dir (d : dir) (pv : Z) : dir :=
  match d_prec d with
  | PrNone => if is_g (d_conv d) then set_dprec d (PrLit [54]) else d
  | PrStar => if (pv <? 0) && negb (is_float_conv (d_conv d)) then set_dprec d PrNone else d
  | PrLit _ => d
  end.
Definition eff_pv (d : dir) (pv : Z) : Z :=
  match d_prec d with PrStar => if (pv <? 0) && is_float_conv (d_conv d) then 6 else pv | _ => pv end.

Lemma ins_true cv : ins cv true = [].
Proof. unfold ins. rewrite andb_false_r. reflexivity. Qed.

(* ---- slicing the format ---- *)
Lemma slice_prefix {A} (a b : list A) : slice (a ++ b) 0 (zlen a) = Ok a.
Proof.
  unfold slice. rewrite zlen_app. pose proof (zlen_nonneg a). pose proof (zlen_nonneg b).
  replace (0 <=? 0) with true by reflexivity.
  replace (0 <=? zlen a) with true by (symmetry; apply Z.leb_le; lia).
  replace (zlen a <=? zlen a + zlen b) with true by (symmetry; apply Z.leb_le; lia).
  cbn [andb]. rewrite zdrop_0, Z.sub_0_r. unfold ztake, zlen. rewrite Nat2Z.id.
  rewrite firstn_app, Nat.sub_diag, firstn_all. cbn [firstn]. rewrite app_nil_r. reflexivity.
Qed.

Lemma slice_suffix {A} (a b : list A) : slice (a ++ b) (zlen a) (zlen (a ++ b)) = Ok b.
Proof.
  unfold slice. rewrite zlen_app. pose proof (zlen_nonneg a). pose proof (zlen_nonneg b).
  replace (0 <=? zlen a) with true by (symmetry; apply Z.leb_le; lia).
  replace (zlen a <=? zlen a + zlen b) with true by (symmetry; apply Z.leb_le; lia).
  replace (zlen a + zlen b <=? zlen a + zlen b) with true by (symmetry; apply Z.leb_le; lia).
  cbn [andb]. unfold zdrop, ztake, zlen. rewrite Nat2Z.id. rewrite skipn_app, Nat.sub_diag, skipn_all. cbn [skipn app].
  replace (Z.of_nat (length a) + Z.of_nat (length b) - Z.of_nat (length a)) with (Z.of_nat (length b)) by lia.
  rewrite Nat2Z.id. rewrite firstn_all. reflexivity.
Qed.

(* ---- argument lists ---- *)
Definition args_for (d : dir) (aw ap a : value) (extra : list value) : list value :=
  (match d_width d with WStar => [aw] | _ => [] end)
  ++ (match d_prec d with PrStar => [ap] | _ => [] end) ++ a :: extra.

Lemma conv_ty_not_p cv : conv_ty cv <> TyP.
Proof. destruct cv; discriminate. Qed.

Lemma conv_ty_float cv : (match conv_ty cv with TyF => true | _ => false end) = is_float_conv cv.
Proof. destruct cv; reflexivity. Qed.

(* ---- steps of the conversion loop ---- *)
Lemma conv_args_last chars ffmt cv a g i rest fm st rm :
  conv_arg chars ffmt (conv_ty cv) a = Ok g -> index rest i = Ok a ->
  conv_args chars ffmt [conv_ty cv] rest i fm st rm = Ok (fm, [g]).
Proof.
  intros Hg Hi. cbn [conv_args]. rewrite Hi. cbn [rbind].
  destruct (conv_ty cv) eqn:ET; try (rewrite Hg; reflexivity). exfalso. exact (conv_ty_not_p _ ET).
Qed.

Lemma conv_args_width chars ffmt ts aw wv i rest fm st rm :
  conv_arg chars ffmt TyD aw = Ok (GInt wv) -> index rest i = Ok aw ->
  conv_args chars ffmt (TyD :: ts) rest i fm st rm
  = cons_arg (GInt wv) (conv_args chars ffmt ts rest (i + 1) fm st rm).
Proof. intros Hw Hi. cbn [conv_args]. rewrite Hi. cbn [rbind]. rewrite Hw. reflexivity. Qed.

Lemma conv_args_p_step chars ffmt ts rest i fm off stars' rm :
  conv_args chars ffmt (TyP :: ts) rest i fm (off :: stars') rm
  = (do a <- index rest i;
     let n := f2i64 (v_num a) in
     if n <? 0 then
       match ts with
       | [] => Panic
       | TyF :: _ => cons_arg (GInt 6) (conv_args chars ffmt ts rest (i + 1) fm stars' rm)
       | _ => do f1 <- slice fm 0 (off - rm);
              do f2 <- slice fm (off - rm + 2) (zlen fm);
              conv_args chars ffmt ts rest (i + 1) (f1 ++ f2) stars' (rm + 2)
       end
     else cons_arg (GInt n) (conv_args chars ffmt ts rest (i + 1) fm stars' rm)).
Proof. reflexivity. Qed.

(* the '*' precision: kept, replaced by 6 (floating conversions), or its ".*" cut out of the format *)
Lemma conv_args_prec chars ffmt cv ap a g pv (A post : bytes) stars' i rest :
  f2i64 (v_num ap) = pv -> conv_arg chars ffmt (conv_ty cv) a = Ok g ->
  index rest i = Ok ap -> index rest (i + 1) = Ok a ->
  conv_args chars ffmt [TyP; conv_ty cv] rest i (A ++ 46 :: 42 :: go_conv_byte cv :: post) (zlen A :: stars') 0
  = Ok (A ++ (if (pv <? 0) && negb (is_float_conv cv) then [] else [46; 42]) ++ go_conv_byte cv :: post,
        (if (pv <? 0) && negb (is_float_conv cv) then []
         else [GInt (if (pv <? 0) && is_float_conv cv then 6 else pv)]) ++ [g]).
Proof.
  intros Hp Hg Hi Hi1.
  pose proof (fun fm st rm => conv_args_last chars ffmt cv a g (i + 1) rest fm st rm Hg Hi1) as HL.
  rewrite conv_args_p_step. rewrite Hi. cbn [rbind]. cbv zeta. rewrite Hp.
  rewrite <- (conv_ty_float cv).
  destruct (pv <? 0) eqn:EN; cbn [andb].
  - destruct (conv_ty cv) eqn:ET; try (exfalso; exact (conv_ty_not_p _ ET)); cbn [negb app];
      try (rewrite Z.sub_0_r; rewrite slice_prefix; cbn [rbind];
           replace (A ++ 46 :: 42 :: go_conv_byte cv :: post) with ((A ++ [46; 42]) ++ go_conv_byte cv :: post)
             by (rewrite <- app_assoc; reflexivity);
           replace (zlen A + 2) with (zlen (A ++ [46; 42])) by (rewrite zlen_app; reflexivity);
           rewrite slice_suffix; cbn [rbind]; rewrite HL; reflexivity).
    rewrite HL. reflexivity.
  - cbn [negb app]. rewrite HL. reflexivity.
Qed.

(* the conversion loop of sprintf on the arguments of one directive *)
Lemma conv_args_render chars ffmt d aw ap a extra wv pv g pre post :
  (d_width d = WStar -> conv_arg chars ffmt TyD aw = Ok (GInt wv)) ->
  (d_prec d = PrStar -> f2i64 (v_num ap) = pv) ->
  conv_arg chars ffmt (conv_ty (d_conv d)) a = Ok g ->
  conv_args chars ffmt (dir_tys d ++ [conv_ty (d_conv d)]) (args_for d aw ap a extra) 0
            (pre ++ go_render d ++ post) (dir_stars d (zlen pre + 1)) 0
  = Ok (pre ++ 37 :: tail_of (eff_dir d pv) (go_conv_byte (d_conv d)) ++ post,
        star_gargs (eff_dir d pv) wv (eff_pv d pv) ++ [g]) /\
  (zlen (dir_tys d ++ [conv_ty (d_conv d)]) >? zlen (args_for d aw ap a extra)) = false.
Proof.
  intros Hw Hp Hg. split.
  2:{ unfold dir_tys, args_for, w_tys, p_tys. destruct (d_width d), (d_prec d); cbn [app];
      rewrite ?zlen_cons, ?zlen_nil; pose proof (zlen_nonneg extra); rewrite Z.gtb_ltb; apply Z.ltb_ge; lia. }
  unfold go_render, go_tail, dir_tys, dir_stars, args_for, star_gargs, eff_dir, eff_pv, tail_of, w_tys, p_tys, p_stars, set_dprec.
  destruct d as [fl w p cv]. cbn [d_flags d_width d_prec d_conv] in *.
  destruct p as [|ds|]; cbn [render_p has_p app d_prec d_flags d_width d_conv].
  - (* no precision *)
    assert (E : forall X : bytes, ins cv false ++ X = render_p (if is_g cv then PrLit [54] else PrNone) ++ X).
    { intros X. unfold ins. rewrite andb_true_r. destruct (is_g cv); reflexivity. }
    assert (F : forall (P : dir -> bytes),
              P (if is_g cv then mkDir fl w (PrLit [54]) cv else mkDir fl w PrNone cv)
              = P (mkDir fl w (if is_g cv then PrLit [54] else PrNone) cv)) by (intros P; destruct (is_g cv); reflexivity).
    destruct w as [|wds|]; cbn [app render_w].
    + rewrite (conv_args_last chars ffmt cv a g _ _ _ _ _ Hg (index_0 _ _)).
      destruct (is_g cv) eqn:EG; cbn [d_flags d_width d_prec d_conv render_w render_p app]; unfold ins; rewrite EG; reflexivity.
    + rewrite (conv_args_last chars ffmt cv a g _ _ _ _ _ Hg (index_0 _ _)).
      destruct (is_g cv) eqn:EG; cbn [d_flags d_width d_prec d_conv render_w render_p app]; unfold ins; rewrite EG; reflexivity.
    + rewrite (conv_args_width chars ffmt _ aw wv _ _ _ _ _ (Hw eq_refl) (index_0 _ _)).
      rewrite (conv_args_last chars ffmt cv a g _ _ _ _ _ Hg (index_1 _ _ _)). cbn [cons_arg].
      destruct (is_g cv) eqn:EG; cbn [d_flags d_width d_prec d_conv render_w render_p app]; unfold ins; rewrite EG; reflexivity.
  - (* literal precision *)
    rewrite ins_true. cbn [app].
    destruct w as [|wds|]; cbn [app render_w].
    + rewrite (conv_args_last chars ffmt cv a g _ _ _ _ _ Hg (index_0 _ _)). reflexivity.
    + rewrite (conv_args_last chars ffmt cv a g _ _ _ _ _ Hg (index_0 _ _)). reflexivity.
    + rewrite (conv_args_width chars ffmt _ aw wv _ _ _ _ _ (Hw eq_refl) (index_0 _ _)).
      rewrite (conv_args_last chars ffmt cv a g _ _ _ _ _ Hg (index_1 _ _ _)). reflexivity.
  - (* '*' precision *)
    rewrite ins_true. cbn [app]. specialize (Hp eq_refl).
    assert (N : forall (A : bytes) F O rest i,
              F = A ++ 46 :: 42 :: go_conv_byte cv :: post -> O = zlen A ->
              index rest i = Ok ap -> index rest (i + 1) = Ok a ->
              conv_args chars ffmt [TyP; conv_ty cv] rest i F [O] 0
              = Ok (A ++ (if (pv <? 0) && negb (is_float_conv cv) then [] else [46; 42]) ++ go_conv_byte cv :: post,
                    (if (pv <? 0) && negb (is_float_conv cv) then []
                     else [GInt (if (pv <? 0) && is_float_conv cv then 6 else pv)]) ++ [g])).
    { intros A F O rest i -> -> Hi Hi1. exact (conv_args_prec chars ffmt cv ap a g pv A post [] i rest Hp Hg Hi Hi1). }
    destruct w as [|wds|]; cbn [app render_w].
    + erewrite (N (pre ++ 37 :: fl));
        [ | repeat (rewrite <- ?app_assoc; cbn [app]); reflexivity | zl; lia | apply index_0 | apply index_1 ].
      destruct ((pv <? 0) && negb (is_float_conv cv)); cbn [d_flags d_width d_prec d_conv render_w render_p app];
        repeat (rewrite <- ?app_assoc; cbn [app]); reflexivity.
    + erewrite (N (pre ++ 37 :: fl ++ wds));
        [ | repeat (rewrite <- ?app_assoc; cbn [app]); reflexivity | zl; lia | apply index_0 | apply index_1 ].
      destruct ((pv <? 0) && negb (is_float_conv cv)); cbn [d_flags d_width d_prec d_conv render_w render_p app];
        repeat (rewrite <- ?app_assoc; cbn [app]); reflexivity.
    + rewrite (conv_args_width chars ffmt _ aw wv _ _ _ _ _ (Hw eq_refl) (index_0 _ _)).
      erewrite (N (pre ++ 37 :: fl ++ [42]));
        [ | repeat (rewrite <- ?app_assoc; cbn [app]); reflexivity | zl; lia | apply index_1 | apply index_2 ].
      cbn [cons_arg]. destruct ((pv <? 0) && negb (is_float_conv cv)); cbn [d_flags d_width d_prec d_conv render_w render_p app];
        repeat (rewrite <- ?app_assoc; cbn [app]); reflexivity.
Qed.

(* ---- the integer conversions ---- *)
Definition is_int_conv (c : conv) : bool :=
  match c with Cd | Ci | Co | Cu | Cx | CX => true | _ => false end.

(* the combinations of flags / precision / value in which fmt and C still differ *)
Definition int_ok (d : dir) (r : rspec) (v : Z) : Prop :=
  match d_conv d with
  | Cd | Ci => ~ (r_prec r = Some 0 /\ v = 0 /\ r_plus r || r_space r = true)
  | c => unsigned_ok r c (v mod two64)
  end.

(* width / precision within fmt's limit of 10^6; a '*' precision may be negative *)
Definition lim (d : dir) (wv pv : Z) : Prop :=
  match d_width d with
  | WLit ds => dval ds <= 1000000 | WStar => -1000000 <= wv <= 1000000 | WNone => True end /\
  match d_prec d with
  | PrLit ds => dval ds <= 1000000 | PrStar => - two63 <= pv <= 1000000 | PrNone => True end.

Lemma conv_arg_d_in_range chars ffmt a v : awk_int (v_num a) = Some v -> - two63 <= v < two63 ->
  conv_arg chars ffmt TyD a = Ok (GInt v).
Proof.
  intros Ha Hv. cbn [conv_arg]. destruct (v_num a) as [| |m e] eqn:E; cbn [awk_int] in Ha; try discriminate.
  injection Ha as Ha. cbv zeta. rewrite Ha.
  replace (two63 <=? v) with false by (symmetry; apply Z.leb_gt; lia).
  replace (v <? - two63) with false by (symmetry; apply Z.ltb_ge; lia). cbn [orb].
  rewrite (f2i64_awk_int (FFin m e) v); [reflexivity | cbn [awk_int]; rewrite Ha; reflexivity | exact Hv].
Qed.

Lemma conv_arg_d_big chars ffmt a v : awk_int (v_num a) = Some v -> ~ (- two63 <= v < two63) ->
  conv_arg chars ffmt TyD a = Ok (GBig v).
Proof.
  intros Ha Hv. cbn [conv_arg]. destruct (v_num a) as [| |m e] eqn:E; cbn [awk_int] in Ha; try discriminate.
  injection Ha as Ha. cbv zeta. rewrite Ha.
  destruct (two63 <=? v) eqn:A; [reflexivity|]. destruct (v <? - two63) eqn:B; [reflexivity|].
  apply Z.leb_gt in A. apply Z.ltb_ge in B. exfalso. apply Hv. lia.
Qed.

Lemma conv_arg_u chars ffmt a v : awk_int (v_num a) = Some v -> - two63 <= v < two64 ->
  conv_arg chars ffmt TyU a = Ok (GUint (v mod two64)).
Proof.
  intros Ha Hv. cbn [conv_arg]. destruct (v_num a) as [| |m e] eqn:E; cbn [awk_int] in Ha; try discriminate.
  injection Ha as Ha. cbv zeta. rewrite Ha.
  destruct (two63 <=? v) eqn:A.
  - apply Z.leb_le in A. replace (v <? two64) with true by (symmetry; apply Z.ltb_lt; lia). cbn [andb].
    rewrite Z.mod_small by (unfold two63, two64 in *; lia). reflexivity.
  - apply Z.leb_gt in A. cbn [andb].
    rewrite (f2i64_awk_int (FFin m e) v); [| cbn [awk_int]; rewrite Ha; reflexivity | lia].
    rewrite i64_to_u64_mod by lia. reflexivity.
Qed.

Lemma wf_set_dprec d p : wf_dir d = true -> wf_p p = true -> wf_dir (set_dprec d p) = true.
Proof.
  unfold wf_dir, set_dprec. cbn [d_flags d_width d_prec]. intros H Hp.
  apply andb_true_iff in H as [H _]. rewrite H. destruct p; exact Hp.
Qed.

Lemma resolve_eff d wv pv : is_float_conv (d_conv d) = false -> is_g (d_conv d) = false ->
  wf_dir (eff_dir d pv) = wf_dir d /\ d_conv (eff_dir d pv) = d_conv d /\
  resolve (eff_dir d pv) wv (eff_pv d pv) = resolve d wv pv /\
  (lim d wv pv -> in_lim (eff_dir d pv) wv (eff_pv d pv)).
Proof.
  intros Hf Hg. destruct d as [fl w p cv]. unfold eff_dir, eff_pv, lim, in_lim, set_dprec, resolve, wf_dir.
  cbn [d_flags d_width d_prec d_conv] in *. rewrite Hf, Hg. rewrite andb_false_r, andb_true_r.
  destruct p as [|ds|]; cbn [d_flags d_width d_prec d_conv].
  - split; [reflexivity|]. split; [reflexivity|]. split; [reflexivity|]. intros [A B]; split; assumption.
  - split; [reflexivity|]. split; [reflexivity|]. split; [reflexivity|]. intros [A B]; split; assumption.
  - destruct (pv <? 0) eqn:EN; cbn [d_flags d_width d_prec d_conv].
    + split; [rewrite andb_true_r; reflexivity|]. split; [reflexivity|]. split; [reflexivity|].
      intros [A B]; split; [exact A | exact I].
    + rewrite ?EN. apply Z.ltb_ge in EN. split; [reflexivity|]. split; [reflexivity|]. split; [try rewrite (proj2 (Z.ltb_ge pv 0) EN); reflexivity|].
      intros [A B]; split; [exact A | lia].
Qed.

(* the converted argument of an integer conversion and what fmt prints for it *)
Lemma int_arg_print chars ffmt d wv pv a v :
  is_int_conv (d_conv d) = true -> awk_int (v_num a) = Some v ->
  (conv_ty (d_conv d) = TyU -> - two63 <= v < two64) ->
  int_ok d (resolve d wv pv) v ->
  exists g, conv_arg chars ffmt (conv_ty (d_conv d)) a = Ok g /\
    forall f, st_matches f (resolve d wv pv) ->
      print_arg f g (go_conv_byte (d_conv d)) = Ok (c_directive chars d wv pv (AInt v)).
Proof.
  intros Hic Ha Hu Hok. unfold c_directive, int_ok in *.
  assert (Sg : exists g, conv_arg chars ffmt TyD a = Ok g /\
            forall f r, st_matches f r -> ~ (r_prec r = Some 0 /\ v = 0 /\ r_plus r || r_space r = true) ->
              print_arg f g 100 = Ok (c_signed r v)).
  { destruct (Z_le_dec (- two63) v) as [L|L]; [destruct (Z_lt_dec v two63) as [U|U]|].
    - exists (GInt v). split; [apply conv_arg_d_in_range; [exact Ha | lia]|].
      intros f r Hst Hk. cbn [print_arg int_verb Z.eqb Pos.eqb orb]. rewrite (fmt_integer_signed f _ v Hst Hk). reflexivity.
    - exists (GBig v). split; [apply conv_arg_d_big; [exact Ha | lia]|].
      intros f r Hst Hk. cbn [print_arg Z.eqb Pos.eqb orb]. rewrite (big_format_signed f _ v Hst); [reflexivity | unfold two63 in *; lia].
    - exists (GBig v). split; [apply conv_arg_d_big; [exact Ha | lia]|].
      intros f r Hst Hk. cbn [print_arg Z.eqb Pos.eqb orb]. rewrite (big_format_signed f _ v Hst); [reflexivity | unfold two63 in *; lia]. }
  destruct (d_conv d) eqn:EC; try discriminate; cbn [conv_ty go_conv_byte] in *.
  - destruct Sg as (g & G1 & G2). exists g. split; [exact G1|]. intros f Hst. apply G2; assumption.
  - destruct Sg as (g & G1 & G2). exists g. split; [exact G1|]. intros f Hst. apply G2; assumption.
  - exists (GUint (v mod two64)). split; [apply conv_arg_u; [exact Ha | exact (Hu eq_refl)]|].
    intros f Hst. cbn [print_arg int_verb Z.eqb Pos.eqb orb]. rewrite (fmt_integer_o f _ v Hst Hok). reflexivity.
  - exists (GUint (v mod two64)). split; [apply conv_arg_u; [exact Ha | exact (Hu eq_refl)]|].
    intros f Hst. cbn [print_arg int_verb Z.eqb Pos.eqb orb]. rewrite (fmt_integer_u f _ v Hst Hok). reflexivity.
  - exists (GUint (v mod two64)). split; [apply conv_arg_u; [exact Ha | exact (Hu eq_refl)]|].
    intros f Hst. cbn [print_arg int_verb Z.eqb Pos.eqb orb]. rewrite (fmt_integer_x f _ v Hst Hok). reflexivity.
  - exists (GUint (v mod two64)). split; [apply conv_arg_u; [exact Ha | exact (Hu eq_refl)]|].
    intros f Hst. cbn [print_arg int_verb Z.eqb Pos.eqb orb]. rewrite (fmt_integer_X f _ v Hst Hok). reflexivity.
Qed.

(* ---- one directive, any conversion: sprintf = pre ++ (what fmt prints for the converted
        argument under the state of the effective directive) ++ post ---- *)
Lemma eff_wf_lim d wv pv : wf_dir d = true -> lim d wv pv ->
  wf_dir (eff_dir d pv) = true /\ in_lim (eff_dir d pv) wv (eff_pv d pv) /\ d_conv (eff_dir d pv) = d_conv d.
Proof.
  intros Hwf [L1 L2]. destruct d as [fl w p cv]. unfold eff_dir, eff_pv, in_lim, set_dprec, wf_dir in *.
  cbn [d_flags d_width d_prec d_conv] in *.
  destruct p as [|ds|]; cbn [d_flags d_width d_prec d_conv].
  - destruct (is_g cv); cbn [d_flags d_width d_prec d_conv].
    + split; [|split; [split; [exact L1 | vm_compute; discriminate] | reflexivity]].
      apply andb_true_iff in Hwf as [H _]. rewrite H. reflexivity.
    + split; [exact Hwf | split; [split; assumption | reflexivity]].
  - split; [exact Hwf | split; [split; assumption | reflexivity]].
  - destruct (pv <? 0) eqn:EN; cbn [andb].
    + destruct (is_float_conv cv); cbn [negb d_flags d_width d_prec d_conv].
      * split; [exact Hwf | split; [split; [exact L1 | lia] | reflexivity]].
      * split; [|split; [split; [exact L1 | exact I] | reflexivity]].
        apply andb_true_iff in Hwf as [H _]. rewrite H. reflexivity.
    + apply Z.ltb_ge in EN. cbn [d_flags d_width d_prec d_conv]. split; [exact Hwf | split; [split; [exact L1 | lia] | reflexivity]].
Qed.

Theorem sprintf_dir_eff chars ffmt d pre post aw ap a extra wv pv g out :
  wf_dir d = true -> no_pct pre = true -> no_pct post = true -> lim d wv pv ->
  (d_width d = WStar -> awk_int (v_num aw) = Some wv) ->
  (d_prec d = PrStar -> awk_int (v_num ap) = Some pv) ->
  conv_arg chars ffmt (conv_ty (d_conv d)) a = Ok g ->
  (forall f, st_matches f (resolve (eff_dir d pv) wv (eff_pv d pv)) ->
             print_arg f g (go_conv_byte (d_conv d)) = Ok out) ->
  sprintf chars ffmt (pre ++ render d ++ post) (args_for d aw ap a extra) = Ok (pre ++ out ++ post).
Proof.
  intros Hwf Hpre Hpost Hlim Hw Hp Hg Hpr.
  unfold sprintf. rewrite (parse_render d pre post Hwf Hpre Hpost).
  assert (Hw' : d_width d = WStar -> conv_arg chars ffmt TyD aw = Ok (GInt wv)).
  { intros E. apply conv_arg_d_in_range; [exact (Hw E)|]. destruct Hlim as [L _]. rewrite E in L. unfold two63. lia. }
  assert (Hp' : d_prec d = PrStar -> f2i64 (v_num ap) = pv).
  { intros E. apply f2i64_awk_int; [exact (Hp E)|]. destruct Hlim as [_ L]. rewrite E in L. unfold two63 in *. lia. }
  destruct (conv_args_render chars ffmt d aw ap a extra wv pv g pre post Hw' Hp' Hg) as [Hca Hlen].
  rewrite Hlen, Hca. cbn [rbind fst snd].
  destruct (eff_wf_lim d wv pv Hwf Hlim) as (Ewf & Elim & Ecv).
  destruct (go_sprintf_tail (eff_dir d pv) wv (eff_pv d pv) (go_conv_byte (d_conv d)) g pre post
              Ewf Elim (go_conv_byte_ok _) Hpre Hpost) as (f & Hst & Hgo).
  rewrite Hgo. rewrite (Hpr f Hst). reflexivity.
Qed.

(* ---- e E f g G of an infinity or NaN ---- *)
Theorem sprintf_nonfinite_agree chars ffmt d pre post aw ap a extra wv pv x :
  wf_dir d = true -> is_float_conv (d_conv d) = true ->
  no_pct pre = true -> no_pct post = true -> lim d wv pv ->
  (d_width d = WStar -> awk_int (v_num aw) = Some wv) ->
  (d_prec d = PrStar -> awk_int (v_num ap) = Some pv) ->
  v_num a = x -> (match x with FFin _ _ => False | _ => True end) ->
  sprintf chars ffmt (pre ++ render d ++ post) (args_for d aw ap a extra)
  = Ok (pre ++ c_directive chars d wv pv (ANonFin x) ++ post).
Proof.
  intros Hwf Hfc Hpre Hpost Hlim Hw Hp Hx Hnf.
  apply (sprintf_dir_eff chars ffmt d pre post aw ap a extra wv pv (GNonFinite x)); try assumption.
  - destruct (d_conv d); try discriminate; cbn [conv_ty conv_arg]; rewrite Hx; destruct x; try contradiction; reflexivity.
  - intros f Hst. cbn [print_arg]. rewrite (nf_format_nonfinite f _ x _ Hst Hnf).
    (* the specification of non-finite values does not look at the precision *)
    assert (E : forall r r' up, r_minus r = r_minus r' -> r_plus r = r_plus r' -> r_space r = r_space r' ->
                r_zero r = r_zero r' -> r_width r = r_width r' -> c_nonfinite r x up = c_nonfinite r' x up).
    { intros r r' up A B C D W. unfold c_nonfinite, c_field. rewrite A, B, C, D, W. reflexivity. }
    unfold c_directive.
    assert (R : forall up, c_nonfinite (resolve (eff_dir d pv) wv (eff_pv d pv)) x up = c_nonfinite (resolve d wv pv) x up).
    { intros up. apply E; destruct d as [fl w p cv]; unfold eff_dir, eff_pv, resolve, set_dprec; cbn [d_flags d_width d_prec d_conv];
        destruct p; try reflexivity; try (destruct (is_g cv); reflexivity);
        destruct ((pv <? 0) && negb (is_float_conv cv)); reflexivity. }
    rewrite R. destruct (d_conv d); try discriminate; reflexivity.
Qed.

Theorem sprintf_int_agree chars ffmt d pre post aw ap a extra wv pv v :
  wf_dir d = true -> is_int_conv (d_conv d) = true ->
  no_pct pre = true -> no_pct post = true ->
  lim d wv pv ->
  (d_width d = WStar -> awk_int (v_num aw) = Some wv) ->
  (d_prec d = PrStar -> awk_int (v_num ap) = Some pv) ->
  awk_int (v_num a) = Some v ->
  (conv_ty (d_conv d) = TyU -> - two63 <= v < two64) ->
  int_ok d (resolve d wv pv) v ->
  sprintf chars ffmt (pre ++ render d ++ post) (args_for d aw ap a extra)
  = Ok (pre ++ c_directive chars d wv pv (AInt v) ++ post).
Proof.
  intros Hwf Hic Hpre Hpost Hlim Hw Hp Ha Hu Hok.
  destruct (int_arg_print chars ffmt d wv pv a v Hic Ha Hu Hok) as (g & Hg & Hpr).
  assert (Hfl : is_float_conv (d_conv d) = false /\ is_g (d_conv d) = false) by (destruct (d_conv d); try discriminate; split; reflexivity).
  destruct Hfl as [Hfl Hgg]. destruct (resolve_eff d wv pv Hfl Hgg) as (_ & _ & Eres & _).
  apply (sprintf_dir_eff chars ffmt d pre post aw ap a extra wv pv g); try assumption.
  rewrite Eres. exact Hpr.
Qed.
