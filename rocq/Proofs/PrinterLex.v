(* C20 — rendering a piece list and lexing it again (lexer.scan model of Model/Printer.v).
   [lexable t]   : the text of a literal token is one the lexer reads back as that token
                   (identifier that is no keyword, number text that the NUMBER scanner consumes
                   entirely, string the quoting round-trips, regex in the lexer's image);
   [nofuse t nb] : the byte that follows t in the text does not extend or change it
                   (+ before + or =, - before - or =, ! before = or ~, name before a name byte ...);
   [safe ps]     : every token of the piece list is lexable and not followed by a fusing byte.
   Theorem render_lex: safe ps -> lex_as (toks ps) (render ps).
   The quoting round trip enters as a Section hypothesis here and is discharged in PrinterQuote.v. *)
From Coq Require Import ZifyBool.
From Verif Require Import Lib.Base Model.ExprAst Model.ExprParser Model.Printer Proofs.PrinterRegex.

(* ---------- span ---------- *)
Lemma span_app (p : Z -> bool) l rest :
  p (ch rest) = false ->
  span p (l ++ rest) = let '(a, b) := span p l in (a, b ++ rest).
Proof.
  intros Hp. induction l as [|x l IH]; cbn [app span].
  - destruct rest as [|y rest']; [reflexivity|]. cbn [ch] in Hp. cbn [span]. rewrite Hp. reflexivity.
  - destruct (p x); [|reflexivity]. rewrite IH. destruct (span p l). reflexivity.
Qed.

Lemma span_stop (p : Z -> bool) rest : p (ch rest) = false -> span p rest = ([], rest).
Proof. intros H. destruct rest as [|y r]; [reflexivity|]. cbn [ch] in H. cbn [span]. rewrite H. reflexivity. Qed.

Lemma span_all (p : Z -> bool) l : forallb p l = true -> span p l = (l, []).
Proof.
  induction l as [|x l IH]; cbn [forallb span]; [reflexivity|]. intros H. apply andb_prop in H as [Hx Hl].
  rewrite Hx, (IH Hl). reflexivity.
Qed.

Lemma span_all_app (p : Z -> bool) l rest :
  forallb p l = true -> p (ch rest) = false -> span p (l ++ rest) = (l, rest).
Proof. intros Hl Hp. rewrite (span_app p l rest Hp), (span_all p l Hl). reflexivity. Qed.

(* ---------- the whitespace loop ---------- *)
Lemma skip_ws_spaces k bs sp : skip_ws (repeat 32 k ++ bs) sp = skip_ws bs (sp || (0 <? Z.of_nat k)).
Proof.
  revert sp. induction k as [|k IH]; intros sp.
  - cbn [repeat app]. rewrite orb_false_r. reflexivity.
  - cbn [repeat app skip_ws]. change ((32 =? 32) || (32 =? 9) || (32 =? 13)) with true. cbn iota.
    rewrite IH. f_equal. destruct sp; cbn [orb]; [reflexivity|]. destruct (0 <? Z.of_nat k); lia.
Qed.

Definition not_ws (c : Z) : bool := negb ((c =? 32) || (c =? 9) || (c =? 13)).

Lemma skip_ws_stop c r sp : not_ws c = true -> skip_ws (c :: r) sp = (c :: r, sp).
Proof. unfold not_ws. intros H. apply negb_true_iff in H. cbn [skip_ws]. rewrite H. reflexivity. Qed.

Lemma scan1_spaces k c r : not_ws c = true ->
  scan1 (repeat 32 k ++ c :: r) = scan_body (c :: r) (0 <? Z.of_nat k).
Proof. intros H. unfold scan1. rewrite skip_ws_spaces, (skip_ws_stop c r _ H). reflexivity. Qed.

Lemma scan1_spaces_nil k : scan1 (repeat 32 k ++ []) = SEof.
Proof. unfold scan1. rewrite skip_ws_spaces. reflexivity. Qed.

(* ---------- scan_body by first character ---------- *)
Lemma scan_dollar r sp : scan_body (36 :: r) sp = STok TDollar sp r. Proof. reflexivity. Qed.
Lemma scan_at r sp : scan_body (64 :: r) sp = STok TAt sp r. Proof. reflexivity. Qed.
Lemma scan_lbrace r sp : scan_body (123 :: r) sp = STok TLBrace sp r. Proof. reflexivity. Qed.
Lemma scan_rbrace r sp : scan_body (125 :: r) sp = STok TRBrace sp r. Proof. reflexivity. Qed.
Lemma scan_lparen r sp : scan_body (40 :: r) sp = STok (TLParen sp) sp r. Proof. reflexivity. Qed.
Lemma scan_rparen r sp : scan_body (41 :: r) sp = STok TRParen sp r. Proof. reflexivity. Qed.
Lemma scan_comma r sp : scan_body (44 :: r) sp = STok TComma sp r. Proof. reflexivity. Qed.
Lemma scan_semi r sp : scan_body (59 :: r) sp = STok TSemicolon sp r. Proof. reflexivity. Qed.
Lemma scan_lbracket r sp : scan_body (91 :: r) sp = STok TLBracket sp r. Proof. reflexivity. Qed.
Lemma scan_rbracket r sp : scan_body (93 :: r) sp = STok TRBracket sp r. Proof. reflexivity. Qed.
Lemma scan_newline r sp : scan_body (10 :: r) sp = STok TNewline sp r. Proof. reflexivity. Qed.
Lemma scan_tilde r sp : scan_body (126 :: r) sp = STok TMatch sp r. Proof. reflexivity. Qed.
Lemma scan_question r sp : scan_body (63 :: r) sp = STok TQuestion sp r. Proof. reflexivity. Qed.
Lemma scan_colon r sp : scan_body (58 :: r) sp = STok TColon sp r. Proof. reflexivity. Qed.
Lemma scan_eq r sp : scan_body (61 :: r) sp = if ch r =? 61 then STok TEquals sp (nxt r) else STok TAssign sp r.
Proof. reflexivity. Qed.
Lemma scan_lt r sp : scan_body (60 :: r) sp = if ch r =? 61 then STok TLte sp (nxt r) else STok TLess sp r.
Proof. reflexivity. Qed.
Lemma scan_gt r sp : scan_body (62 :: r) sp =
  if ch r =? 61 then STok TGte sp (nxt r) else if ch r =? 62 then STok TAppend sp (nxt r) else STok TGreater sp r.
Proof. reflexivity. Qed.
Lemma scan_plus r sp : scan_body (43 :: r) sp =
  if ch r =? 43 then STok TIncr sp (nxt r) else if ch r =? 61 then STok TAddAssign sp (nxt r) else STok TAdd sp r.
Proof. reflexivity. Qed.
Lemma scan_minus r sp : scan_body (45 :: r) sp =
  if ch r =? 45 then STok TDecr sp (nxt r) else if ch r =? 61 then STok TSubAssign sp (nxt r) else STok TSub sp r.
Proof. reflexivity. Qed.
Lemma scan_star r sp : scan_body (42 :: r) sp =
  if ch r =? 42 then (if ch (nxt r) =? 61 then STok TPowAssign sp (nxt (nxt r)) else STok TPow sp (nxt r))
  else if ch r =? 61 then STok TMulAssign sp (nxt r) else STok TMul sp r.
Proof. reflexivity. Qed.
Lemma scan_slash r sp : scan_body (47 :: r) sp = if ch r =? 61 then STok TDivAssign sp (nxt r) else STok TDiv sp r.
Proof. reflexivity. Qed.
Lemma scan_percent r sp : scan_body (37 :: r) sp = if ch r =? 61 then STok TModAssign sp (nxt r) else STok TMod sp r.
Proof. reflexivity. Qed.
Lemma scan_caret r sp : scan_body (94 :: r) sp = if ch r =? 61 then STok TPowAssign sp (nxt r) else STok TPow sp r.
Proof. reflexivity. Qed.
Lemma scan_bang r sp : scan_body (33 :: r) sp =
  if ch r =? 61 then STok TNotEquals sp (nxt r) else if ch r =? 126 then STok TNotMatch sp (nxt r) else STok TNot sp r.
Proof. reflexivity. Qed.
Lemma scan_amp r sp : scan_body (38 :: r) sp = if ch r =? 38 then STok TAnd sp (nxt r) else SIllegal.
Proof. reflexivity. Qed.
Lemma scan_bar r sp : scan_body (124 :: r) sp = if ch r =? 124 then STok TOr sp (nxt r) else STok TPipe sp r.
Proof. reflexivity. Qed.

Lemma name_start_tests c : is_name_start c = true ->
  (c =? 0) = false /\ ((c =? 92) || (c =? 35)) = false.
Proof. unfold is_name_start. lia. Qed.

Lemma scan_name c r sp : is_name_start c = true ->
  scan_body (c :: r) sp =
  let '(more, rest) := span is_name_char r in
  match keyword_token (c :: more) with Some t => STok t sp rest | None => STok (TName (c :: more)) sp rest end.
Proof.
  intros H. destruct (name_start_tests c H) as [H0 H1]. unfold scan_body. rewrite H0, H1, H. reflexivity.
Qed.

Definition num_start (c : Z) : bool := is_digit c || (c =? 46).

Lemma num_start_tests c : num_start c = true ->
  (c =? 0) = false /\ ((c =? 92) || (c =? 35)) = false /\ is_name_start c = false.
Proof. unfold num_start, is_digit, is_name_start. lia. Qed.

Lemma scan_num c r sp : num_start c = true ->
  scan_body (c :: r) sp =
  match scan_number_rest c r with
  | None => SIllegal
  | Some rest => STok (TNumber (firstn (length (c :: r) - length rest) (c :: r))) sp rest
  end.
Proof.
  intros H. destruct (num_start_tests c H) as (H0 & H1 & H2). unfold scan_body. rewrite H0, H1, H2.
  unfold num_start in H. rewrite H. reflexivity.
Qed.

Lemma scan_quote r sp : scan_body (34 :: r) sp =
  match parse_string (S (length r)) 34 r [] with
  | None => SIllegal
  | Some (s, rest) => if ch rest =? 34 then STok (TString s) sp (nxt rest) else SIllegal
  end.
Proof. reflexivity. Qed.

(* ---------- which tokens the lexer reads back, and after which byte ---------- *)
Definition is_kw (s : bytes) : bool := match keyword_token s with Some _ => true | None => false end.

Definition name_ok (s : bytes) : bool :=
  match s with
  | c :: more => is_name_start c && forallb is_name_char more && negb (is_kw s)
  | [] => false
  end.

(* the NUMBER scanner, run on the text alone, consumes all of it *)
Definition num_ok (s : bytes) : bool :=
  match s with
  | c :: r => num_start c && match scan_number_rest c r with Some [] => true | _ => false end
  | [] => false
  end.

Definition kw_numbers : list Z := [44; 45; 46; 47; 48; 49; 50; 51; 52; 53; 55; 57; 58; 61; 62].

Section Lex.
  Variable str_ok : bytes -> bool.
  Hypothesis str_lex : forall s, str_ok s = true ->
    forall rest sp, scan_body (quote s ++ rest) sp = STok (TString s) sp rest.

  Definition lexable (t : tok) : bool :=
    match t with
    | TName s => name_ok s
    | TNumber s => num_ok s
    | TString s => str_ok s
    | TRegex s => regex_ok s
    | TOther k => existsb (Z.eqb k) kw_numbers
    | _ => true
    end.

  Definition nofuse (t : tok) (nb : Z) : bool :=
    match t with
    | TAdd => negb (nb =? 43) && negb (nb =? 61)
    | TSub => negb (nb =? 45) && negb (nb =? 61)
    | TNot => negb (nb =? 61) && negb (nb =? 126)
    | TAssign | TLess | TDiv | TMod | TPow => negb (nb =? 61)
    | TGreater => negb (nb =? 61) && negb (nb =? 62)
    | TMul => negb (nb =? 42) && negb (nb =? 61)
    | TPipe => negb (nb =? 124)
    | TGetline | TIn | TPrint | TPrintf | TFunc _ | TOther _ | TName _ => negb (is_name_char nb)
    | TNumber _ =>
        negb (is_digit nb) && negb (nb =? 46) && negb (nb =? 101) && negb (nb =? 69)
        && negb (nb =? 43) && negb (nb =? 45)
    | _ => true
    end.

  Definition is_regex_tok (t : tok) : bool := match t with TRegex _ => true | _ => false end.
  Definition reflag (t : tok) (sp : bool) : tok := match t with TLParen _ => TLParen sp | _ => t end.

  (* ---- numbers ---- *)
  Lemma ch_app_nonnil (b rest : bytes) : b <> [] -> ch (b ++ rest) = ch b.
  Proof. destruct b; [congruence | reflexivity]. Qed.
  Lemma nxt_app_nonnil (b rest : bytes) : b <> [] -> nxt (b ++ rest) = nxt b ++ rest.
  Proof. destruct b; [congruence | reflexivity]. Qed.

  Definition num_sep (nb : Z) : bool :=
    negb (is_digit nb) && negb (nb =? 46) && negb (nb =? 101) && negb (nb =? 69) && negb (nb =? 43) && negb (nb =? 45).

  Definition num_tail (got1 : bool) (r2 : bytes) : option bytes :=
    let '(ds2, r3) := span is_digit r2 in
    let got := got1 || negb (match ds2 with [] => true | _ => false end) in
    if negb got then None
    else if (ch r3 =? 101) || (ch r3 =? 69) then
      let r4 := nxt r3 in
      let r5 := if (ch r4 =? 43) || (ch r4 =? 45) then nxt r4 else r4 in
      let '(ds3, r6) := span is_digit r5 in
      match ds3 with [] => Some r3 | _ => Some r6 end
    else Some r3.

  Lemma scan_number_rest_eq c r :
    scan_number_rest c r =
    if c =? 46 then num_tail false r
    else let '(_, r1) := span is_digit r in num_tail true (if ch r1 =? 46 then nxt r1 else r1).
  Proof.
    unfold scan_number_rest, num_tail. destruct (c =? 46); [reflexivity|].
    destruct (span is_digit r) as [a b]. reflexivity.
  Qed.

  Lemma num_tail_app g r2 rest : num_sep (ch rest) = true ->
    num_tail g (r2 ++ rest) = option_map (fun x => x ++ rest) (num_tail g r2).
  Proof.
    intros Hsep. unfold num_sep in Hsep.
    assert (Hd : is_digit (ch rest) = false) by lia.
    assert (HeE : ((ch rest =? 101) || (ch rest =? 69)) = false) by lia.
    assert (Hpm : ((ch rest =? 43) || (ch rest =? 45)) = false) by lia.
    unfold num_tail.
    rewrite (span_app is_digit r2 rest Hd). destruct (span is_digit r2) as [ds2 r3].
    destruct (negb (g || negb match ds2 with [] => true | _ :: _ => false end)); [reflexivity|].
    destruct r3 as [|x r3'].
    - cbn [app]. rewrite HeE. reflexivity.
    - cbn [app ch]. destruct ((x =? 101) || (x =? 69)); [|reflexivity].
      cbn [nxt]. destruct r3' as [|y r4'].
      + cbn [app]. rewrite Hpm. cbn [ch]. change ((0 =? 43) || (0 =? 45)) with false. cbn iota.
        rewrite (span_stop is_digit rest Hd). reflexivity.
      + cbn [app ch]. destruct ((y =? 43) || (y =? 45)).
        * cbn [nxt]. rewrite (span_app is_digit r4' rest Hd). destruct (span is_digit r4') as [ds3 r6].
          destruct ds3; reflexivity.
        * change (y :: r4' ++ rest) with ((y :: r4') ++ rest).
          rewrite (span_app is_digit (y :: r4') rest Hd). destruct (span is_digit (y :: r4')) as [ds3 r6].
          destruct ds3; reflexivity.
  Qed.

  Lemma scan_number_rest_app c r rest : num_sep (ch rest) = true ->
    scan_number_rest c (r ++ rest) = option_map (fun x => x ++ rest) (scan_number_rest c r).
  Proof.
    intros Hsep. rewrite !scan_number_rest_eq.
    destruct (c =? 46); [apply num_tail_app; exact Hsep|].
    assert (Hd : is_digit (ch rest) = false) by (unfold num_sep in Hsep; lia).
    assert (H46 : (ch rest =? 46) = false) by (unfold num_sep in Hsep; lia).
    rewrite (span_app is_digit r rest Hd). destruct (span is_digit r) as [a b].
    destruct b as [|x b'].
    - cbn [app]. rewrite H46. cbn [ch]. change (0 =? 46) with false. cbn iota.
      apply (num_tail_app true [] rest Hsep).
    - cbn [app ch]. destruct (x =? 46).
      + cbn [nxt]. apply num_tail_app; exact Hsep.
      + change (x :: b' ++ rest) with ((x :: b') ++ rest). apply num_tail_app; exact Hsep.
  Qed.

  Lemma firstn_len_app (s rest : bytes) : firstn (length (s ++ rest) - length rest) (s ++ rest) = s.
  Proof.
    rewrite app_length. replace (length s + length rest - length rest)%nat with (length s) by lia.
    rewrite firstn_app, Nat.sub_diag, firstn_all. cbn [firstn]. apply app_nil_r.
  Qed.

  Lemma scan_tok_number s rest sp : num_ok s = true -> num_sep (ch rest) = true ->
    scan_body (s ++ rest) sp = STok (TNumber s) sp rest.
  Proof.
    intros Hok Hsep. destruct s as [|c r]; [discriminate|]. cbn [num_ok] in Hok.
    apply andb_prop in Hok as [Hc Hr].
    change ((c :: r) ++ rest) with (c :: (r ++ rest)). rewrite (scan_num c _ sp Hc).
    rewrite (scan_number_rest_app c r rest Hsep).
    destruct (scan_number_rest c r) as [[|? ?]|]; try discriminate.
    cbn [option_map app]. change (c :: r ++ rest) with ((c :: r) ++ rest). rewrite firstn_len_app. reflexivity.
  Qed.

  (* ---- names and keywords ---- *)
  Lemma name_char_zero : is_name_char 0 = false. Proof. reflexivity. Qed.

  Lemma scan_tok_word c more rest sp : is_name_start c = true -> forallb is_name_char more = true ->
    is_name_char (ch rest) = false ->
    scan_body ((c :: more) ++ rest) sp =
    match keyword_token (c :: more) with Some t => STok t sp rest | None => STok (TName (c :: more)) sp rest end.
  Proof.
    intros Hc Hm Hr. change ((c :: more) ++ rest) with (c :: (more ++ rest)).
    rewrite (scan_name c _ sp Hc), (span_all_app is_name_char more rest Hm Hr). reflexivity.
  Qed.

  Lemma scan_tok_name s rest sp : name_ok s = true -> is_name_char (ch rest) = false ->
    scan_body (s ++ rest) sp = STok (TName s) sp rest.
  Proof.
    intros Hok Hr. destruct s as [|c more]; [discriminate|]. cbn [name_ok] in Hok.
    apply andb_prop in Hok as [Hok Hk]. apply andb_prop in Hok as [Hc Hm].
    rewrite (scan_tok_word c more rest sp Hc Hm Hr).
    unfold is_kw in Hk. destruct (keyword_token (c :: more)); [discriminate | reflexivity].
  Qed.

  Ltac kw_tac Hr :=
    match goal with
    | |- scan_body (?bs ++ ?rest) ?sp = _ =>
        let b := eval cbv in bs in
        change bs with b;
        match b with
        | ?c :: ?more =>
            rewrite (scan_tok_word c more rest sp eq_refl eq_refl Hr); reflexivity
        end
    end.

  Lemma scan_tok_keyword t rest sp :
    match t with TGetline | TIn | TPrint | TPrintf | TFunc _ => True
               | TOther k => existsb (Z.eqb k) kw_numbers = true | _ => False end ->
    is_name_char (ch rest) = false ->
    scan_body (tok_bytes t ++ rest) sp = STok t sp rest.
  Proof.
    intros Ht Hr. destruct t; try contradiction.
    - kw_tac Hr.
    - kw_tac Hr.
    - kw_tac Hr.
    - kw_tac Hr.
    - destruct f; kw_tac Hr.
    - cbn [existsb kw_numbers] in Ht.
      repeat (apply orb_prop in Ht as [Ht | Ht]; [apply Z.eqb_eq in Ht; subst k; kw_tac Hr|]).
      discriminate.
  Qed.

  (* ---- every token except REGEX ---- *)
  Lemma negb_and2 a b : negb a && negb b = true -> a = false /\ b = false.
  Proof. destruct a, b; cbn; intros; try discriminate; split; reflexivity. Qed.

  Theorem scan_tok t rest sp : lexable t = true -> nofuse t (ch rest) = true -> is_regex_tok t = false ->
    scan_body (tok_bytes t ++ rest) sp = STok (reflag t sp) sp rest.
  Proof.
    intros Hl Hn Hre.
    destruct t; cbn [tok_bytes app reflag]; cbn [nofuse] in Hn; try discriminate Hre;
      try reflexivity.
    - (* + *) apply negb_and2 in Hn as [H1 H2]. rewrite scan_plus, H1, H2. reflexivity.
    - (* = *) apply negb_true_iff in Hn. rewrite scan_eq, Hn. reflexivity.
    - (* / *) apply negb_true_iff in Hn. rewrite scan_slash, Hn. reflexivity.
    - (* > *) apply negb_and2 in Hn as [H1 H2]. rewrite scan_gt, H1, H2. reflexivity.
    - (* < *) apply negb_true_iff in Hn. rewrite scan_lt, Hn. reflexivity.
    - (* % *) apply negb_true_iff in Hn. rewrite scan_percent, Hn. reflexivity.
    - (* * *) apply negb_and2 in Hn as [H1 H2]. rewrite scan_star, H1, H2. reflexivity.
    - (* ! *) apply negb_and2 in Hn as [H1 H2]. rewrite scan_bang, H1, H2. reflexivity.
    - (* | *) apply negb_true_iff in Hn. rewrite scan_bar, Hn. reflexivity.
    - (* ^ *) apply negb_true_iff in Hn. rewrite scan_caret, Hn. reflexivity.
    - (* - *) apply negb_and2 in Hn as [H1 H2]. rewrite scan_minus, H1, H2. reflexivity.
    - apply negb_true_iff in Hn. apply (scan_tok_keyword TGetline rest sp I Hn).
    - apply negb_true_iff in Hn. apply (scan_tok_keyword TIn rest sp I Hn).
    - apply negb_true_iff in Hn. apply (scan_tok_keyword TPrint rest sp I Hn).
    - apply negb_true_iff in Hn. apply (scan_tok_keyword TPrintf rest sp I Hn).
    - apply negb_true_iff in Hn. apply (scan_tok_keyword (TFunc f) rest sp I Hn).
    - apply negb_true_iff in Hn. apply scan_tok_name; assumption.
    - apply scan_tok_number; assumption.
    - apply str_lex. exact Hl.
    - apply negb_true_iff in Hn. apply (scan_tok_keyword (TOther k) rest sp Hl Hn).
  Qed.

  (* ---- REGEX: DIV or DIV_ASSIGN, then ScanRegex ---- *)
  Lemma regex_ok_tail s : regex_ok (61 :: s) = true -> regex_ok s = true.
  Proof. cbn [regex_ok]. change (61 =? 92) with false. cbn iota. intros H. apply andb_prop in H as [_ H]. exact H. Qed.

  Lemma scan_tok_regex s rest sp : regex_ok s = true ->
    (exists r, scan_body (format_regex s ++ rest) sp = STok TDiv sp r /\ scan_regex false r = Some (s, rest)) \/
    (exists r, scan_body (format_regex s ++ rest) sp = STok TDivAssign sp r /\ scan_regex true r = Some (s, rest)).
  Proof.
    intros Hok. rewrite format_regex_eq. cbn [app]. rewrite <- app_assoc. cbn [app]. rewrite scan_slash.
    destruct s as [|b s'].
    - left. cbn [regex_escape app ch]. change (47 =? 61) with false. cbn iota.
      eexists. split; [reflexivity|]. apply (regex_roundtrip [] rest Hok).
    - destruct (b =? 61) eqn:E61.
      + apply Z.eqb_eq in E61. subst b. right. cbn [regex_escape]. change (61 =? 47) with false. cbn iota.
        cbn [app ch nxt]. change (61 =? 61) with true. cbn iota.
        eexists. split; [reflexivity|]. apply regex_roundtrip_eq. apply regex_ok_tail. exact Hok.
      + left.
        assert (Hch : (ch (regex_escape (b :: s') ++ 47 :: rest) =? 61) = false).
        { cbn [regex_escape]. destruct (b =? 47); cbn [app ch]; [reflexivity | exact E61]. }
        rewrite Hch. eexists. split; [reflexivity|]. apply (regex_roundtrip (b :: s') rest Hok).
  Qed.

  (* ---------- token equality is reflexive ---------- *)
  Lemma bytes_eqb_refl s : bytes_eqb s s = true.
  Proof. induction s as [|x s IH]; cbn [bytes_eqb]; [reflexivity | rewrite Z.eqb_refl, IH; reflexivity]. Qed.

  Lemma tok_eqb_refl t : tok_eqb t t = true.
  Proof.
    destruct t; cbn [tok_eqb]; try reflexivity;
      first [ apply Z.eqb_refl | apply bytes_eqb_refl | (unfold bfn_eqb; apply bytes_eqb_refl) | (destruct sp; reflexivity) ].
  Qed.

  (* ---------- piece lists ---------- *)
  Fixpoint safe (an sp : bool) (ps : list piece) : bool :=
    match ps with
    | [] => true
    | PSp :: r => safe an true r
    | PT t :: r =>
        lexable t && nofuse t (ch (render r))
        && (if an && is_lparen t then tok_eqb t (TLParen sp) else true)
        && safe (is_name_tok t) false r
    end.

  Lemma tok_first_not_ws t : lexable t = true -> exists c r, tok_bytes t = c :: r /\ not_ws c = true.
  Proof.
    intros Hl. destruct t; cbn [tok_bytes]; try (eexists; eexists; split; reflexivity).
    - destruct f; eexists; eexists; split; reflexivity.
    - (* name *) destruct s as [|c more]; [discriminate|]. cbn [lexable name_ok] in Hl.
      exists c, more. split; [reflexivity|]. unfold not_ws, is_name_start in *. lia.
    - destruct s as [|c more]; [discriminate|]. cbn [lexable num_ok] in Hl.
      exists c, more. split; [reflexivity|]. unfold not_ws, num_start, is_digit in *. lia.
    - cbn [lexable kw_numbers existsb] in Hl. unfold other_name.
      repeat (apply orb_prop in Hl as [Hl | Hl]; [apply Z.eqb_eq in Hl; subst k; eexists; eexists; split; reflexivity|]).
      discriminate.
  Qed.

  Lemma repeat_snoc_app k (bs : bytes) : repeat 32 k ++ 32 :: bs = repeat 32 (S k) ++ bs.
  Proof. induction k as [|k IH]; cbn [repeat app]; [reflexivity | rewrite IH; reflexivity]. Qed.

  Theorem render_lex_gen : forall ps an k,
    safe an (0 <? Z.of_nat k) ps = true -> lex_as an (toks ps) (repeat 32 k ++ render ps) = true.
  Proof.
    induction ps as [|p ps IH]; intros an k Hs.
    - cbn [toks render flat_map lex_as]. rewrite scan1_spaces_nil. reflexivity.
    - destruct p as [t|].
      + cbn [safe] in Hs. apply andb_prop in Hs as [Hs Hrest]. apply andb_prop in Hs as [Hs Hflag].
        apply andb_prop in Hs as [Hl Hn].
        specialize (IH (is_name_tok t) 0%nat Hrest). cbn [repeat app] in IH.
        cbn [toks render flat_map piece_bytes]. fold (render ps).
        destruct (is_regex_tok t) eqn:Ere.
        * destruct t; try discriminate Ere. cbn [lex_as tok_bytes].
          destruct (tok_first_not_ws (TRegex s) Hl) as (c & r & Hb & Hc). cbn [tok_bytes] in Hb.
          rewrite Hb. cbn [app]. rewrite (scan1_spaces k c _ Hc).
          change (c :: r ++ render ps) with ((c :: r) ++ render ps). rewrite <- Hb.
          destruct (scan_tok_regex s (render ps) (0 <? Z.of_nat k) Hl) as [(r' & E1 & E2) | (r' & E1 & E2)];
            rewrite E1, E2, bytes_eqb_refl; cbn [andb is_name_tok] in *; exact IH.
        * destruct (tok_first_not_ws t Hl) as (c & r & Hb & Hc).
          assert (Hscan : scan1 (repeat 32 k ++ tok_bytes t ++ render ps)
                          = STok (reflag t (0 <? Z.of_nat k)) (0 <? Z.of_nat k) (render ps)).
          { rewrite Hb. cbn [app]. rewrite (scan1_spaces k c _ Hc).
            change (c :: r ++ render ps) with ((c :: r) ++ render ps). rewrite <- Hb.
            apply scan_tok; assumption. }
          assert (Hgen : lex_as an (t :: toks ps) (repeat 32 k ++ tok_bytes t ++ render ps) =
                         ((if is_lparen t && is_lparen (reflag t (0 <? Z.of_nat k)) && negb an then true
                           else tok_eqb t (reflag t (0 <? Z.of_nat k)))
                          && lex_as (is_name_tok t) (toks ps) (render ps))).
          { destruct t; try discriminate Ere; cbn [lex_as]; rewrite Hscan; reflexivity. }
          rewrite Hgen, IH, andb_true_r.
          destruct t; cbn [is_lparen reflag andb]; try apply tok_eqb_refl.
          cbn [is_lparen] in Hflag. destruct an; cbn [andb negb] in *; [exact Hflag | reflexivity].
      + cbn [safe] in Hs. cbn [toks render flat_map piece_bytes app]. fold (render ps).
        rewrite repeat_snoc_app. apply IH.
        replace (0 <? Z.of_nat (S k)) with true by lia. exact Hs.
  Qed.

  (* MAIN (text level): a safe piece list, rendered, lexes back to its own token list *)
  Theorem render_lex : forall ps, safe false false ps = true -> lex_as false (toks ps) (render ps) = true.
  Proof. intros ps H. apply (render_lex_gen ps false 0%nat H). Qed.
End Lex.
