(* C15: the VM under a context (Model/Cancel.v) against the plain VM (Model/VM.v).
   1. one-step unfolding of [run_ctx];
   2. [run_ctx_sim]: whatever the context does, a result that is not checkContext's error is
      exactly VM.run's result (cancellation is invisible until it strikes);
   3. [run_ctx_silent]: with checkCtx = false (Execute) or a context that is never cancelled,
      checkContext's error is never returned. *)
From Verif Require Import Lib.Base Model.Ast Model.Instr Model.Compiler Model.Prims Model.VM Model.Cancel
  Proofs.CodeAt Proofs.VMLemmas Gen.Consts.

Section CancelSim.
  Variables value St err : Type.
  Variable P : prims value St err.
  Variable F : list cfunc.
  Variable cancel_req : St -> bool.

  Notation run := (run P F).
  Notation step := (step P F).
  Notation run_ctx := (run_ctx P F cancel_req).
  Notation latch := (latch cancel_req).
  Notation latch_res := (latch_res cancel_req).
  Notation mstate := (mstate value St).
  Notation cres := (cres value St err).

  Lemma run_ctx_S k C ip stk m cs :
    run_ctx (S k) C ip stk m cs =
    if csize C <=? ip then (CRes (VDone stk m), cs) else
    let '(stop, cs1) := poll cs in
    if stop then (CCtx m, cs1) else
    let cs2 := tick cs1 in
    match step C ip stk m with
    | ANext ip' stk' m' => run_ctx k C ip' stk' m' (latch cs2 m')
    | AStop r => (CRes r, latch_res cs2 r)
    | AForIn vsc vi keys body ipa stk0 m0 =>
        (fix loop (ks : list value) (stk : list value) (m : mstate) (cs : cstate) : cres * cstate :=
           match ks with
           | [] => run_ctx k C ipa stk m cs
           | key :: ks' =>
               match var_write P m vsc vi key with
               | WStuck => (CRes VStuck, cs)
               | WErr e m1 => (CRes (VAbort (XError e) m1), cs)
               | WOk m1 =>
                   match run_ctx k body 0 stk m1 cs with
                   | (CRes (VDone stk' m2), cs') => loop ks' stk' m2 cs'
                   | (CRes (VBrk stk' m2), cs') => run_ctx k C ipa stk' m2 cs'
                   | other => other
                   end
               end
           end) keys stk0 m0 cs2
    | ACall fn m1 saved ipa stk0 =>
        let finish := fun (v : value) (stk' : list value) (m2 : mstate) (cs' : cstate) =>
          match pop_n (Z.to_nat (cf_nscalars fn)) stk' [] with
          | Some (_, t) => run_ctx k C ipa (v :: t) (restore P saved m2) cs'
          | None => (CRes VStuck, cs')
          end in
        match run_ctx k (cf_body fn) 0 stk0 m1 cs2 with
        | (CRes (VDone stk' m2), cs') => finish (p_null P) stk' m2 cs'
        | (CRes (VRet v stk' m2), cs') => finish v stk' m2 cs'
        | (CRes (VBrk stk' m2), cs') => (CRes (VBrk stk' (restore P saved m2)), cs')
        | (CRes (VAbort x m2), cs') => (CRes (VAbort x (restore P saved m2)), cs')
        | (CRes VStuck, cs') => (CRes VStuck, cs')
        | (CRes VFuel, cs') => (CRes VFuel, cs')
        | (CCtx m2, cs') => (CCtx (restore P saved m2), cs')
        end
    end.
  Proof. reflexivity. Qed.

  (* ---- 2. simulation ---- *)

  Lemma run_ctx_sim : forall k C ip stk m cs r cs',
    run_ctx k C ip stk m cs = (CRes r, cs') -> run k C ip stk m = r.
  Proof.
    induction k as [|k IH]; intros C ip stk m cs r cs' H.
    - cbn in H. inversion H. reflexivity.
    - rewrite run_ctx_S in H. rewrite run_S.
      destruct (csize C <=? ip) eqn:Eend.
      { apply Z.leb_le in Eend. rewrite step_end by exact Eend. inversion H. reflexivity. }
      destruct (poll cs) as [stop cs1]. destruct stop; [discriminate H|].
      cbv zeta in H. remember (tick cs1) as cs2 eqn:Ecs2. clear Ecs2 cs1 cs.
      destruct (step C ip stk m) as [ip' stk' m'|r0|vsc vi keys body ipa stk0 m0|fn m1 saved ipa stk0].
      + eapply IH; eassumption.
      + inversion H. reflexivity.
      + clear stk m. revert stk0 m0 cs2 H.
        induction keys as [|key ks IHk]; intros stk0 m0 cs2 H.
        * eapply IH; eassumption.
        * destruct (var_write P m0 vsc vi key) as [m1|e m1|]; try (inversion H; reflexivity).
          destruct (run_ctx k body 0 stk0 m1 cs2) as [[rb|mb] csb] eqn:Eb.
          -- rewrite (IH _ _ _ _ _ _ _ Eb).
             destruct rb as [stk' m2|v stk' m2|stk' m2|x m2| |]; try (inversion H; reflexivity).
             ++ eapply IHk; eassumption.
             ++ eapply IH; eassumption.
          -- discriminate H.
      + cbv zeta in H |- *.
        destruct (run_ctx k (cf_body fn) 0 stk0 m1 cs2) as [[rb|mb] csb] eqn:Eb.
        * rewrite (IH _ _ _ _ _ _ _ Eb).
          destruct rb as [stk' m2|v stk' m2|stk' m2|x m2| |]; try (inversion H; reflexivity).
          -- destruct (pop_n (Z.to_nat (cf_nscalars fn)) stk' []) as [[a t]|]; [|inversion H; reflexivity].
             eapply IH; eassumption.
          -- destruct (pop_n (Z.to_nat (cf_nscalars fn)) stk' []) as [[a t]|]; [|inversion H; reflexivity].
             eapply IH; eassumption.
        * discriminate H.
  Qed.

  (* ---- 3. silence ---- *)

  (* Execute, or a context that is not (and will not be) cancelled *)
  Definition silent (cs : cstate) : Prop := checkCtx cs = false \/ done_at cs = None.

  Hypothesis never_req : forall s, cancel_req s = false.

  Lemma latch_id cs (m : mstate) : latch cs m = cs.
  Proof. unfold Cancel.latch. destruct (done_at cs); [reflexivity|]. rewrite never_req. reflexivity. Qed.

  Lemma latch_res_id cs (r : vres value St err) : latch_res cs r = cs.
  Proof. destruct r; cbn [Cancel.latch_res]; try apply latch_id; reflexivity. Qed.

  Lemma poll_silent cs : silent cs -> exists cs1, poll cs = (false, cs1) /\ silent cs1.
  Proof.
    intros Hs. unfold poll. destruct (checkCtx cs) eqn:Ec.
    - destruct Hs as [Hs|Hs]; [congruence|].
      unfold check_context. destruct (ctxOps cs + 1 <? checkContextOps).
      + eexists; split; [reflexivity|]. right. exact Hs.
      + unfold closed. rewrite Hs. eexists; split; [reflexivity|]. right. exact Hs.
    - exists cs. split; [reflexivity|]. left. exact Ec.
  Qed.

  Lemma tick_silent cs : silent cs -> silent (tick cs).
  Proof. intros [H|H]; [left|right]; exact H. Qed.

  Lemma run_ctx_silent : forall k C ip stk m cs,
    silent cs -> exists cs', run_ctx k C ip stk m cs = (CRes (run k C ip stk m), cs') /\ silent cs'.
  Proof.
    induction k as [|k IH]; intros C ip stk m cs Hs.
    - exists cs. split; [reflexivity|exact Hs].
    - rewrite run_ctx_S, run_S.
      destruct (csize C <=? ip) eqn:Eend.
      { apply Z.leb_le in Eend. rewrite step_end by exact Eend. exists cs. split; [reflexivity|exact Hs]. }
      destruct (poll_silent cs Hs) as (cs1 & Ep & Hs1). rewrite Ep. cbv zeta.
      pose proof (tick_silent cs1 Hs1) as Hs2. remember (tick cs1) as cs2 eqn:Ecs2. clear Ecs2 Ep Hs1 cs1 Hs cs.
      destruct (step C ip stk m) as [ip' stk' m'|r0|vsc vi keys body ipa stk0 m0|fn m1 saved ipa stk0].
      + rewrite latch_id. apply IH. exact Hs2.
      + rewrite latch_res_id. exists cs2. split; [reflexivity|exact Hs2].
      + clear stk m. revert stk0 m0 cs2 Hs2.
        induction keys as [|key ks IHk]; intros stk0 m0 cs2 Hs2.
        * apply IH. exact Hs2.
        * destruct (var_write P m0 vsc vi key) as [m1|e m1|]; try (exists cs2; split; [reflexivity|exact Hs2]).
          destruct (IH body 0 stk0 m1 cs2 Hs2) as (csb & Eb & Hsb). rewrite Eb.
          destruct (run k body 0 stk0 m1) as [stk' m2|v stk' m2|stk' m2|x m2| |];
            try (exists csb; split; [reflexivity|exact Hsb]).
          -- apply IHk. exact Hsb.
          -- apply IH. exact Hsb.
      + cbv zeta.
        destruct (IH (cf_body fn) 0 stk0 m1 cs2 Hs2) as (csb & Eb & Hsb). rewrite Eb.
        destruct (run k (cf_body fn) 0 stk0 m1) as [stk' m2|v stk' m2|stk' m2|x m2| |];
          try (exists csb; split; [reflexivity|exact Hsb]).
        * destruct (pop_n (Z.to_nat (cf_nscalars fn)) stk' []) as [[a t]|];
            [apply IH; exact Hsb|exists csb; split; [reflexivity|exact Hsb]].
        * destruct (pop_n (Z.to_nat (cf_nscalars fn)) stk' []) as [[a t]|];
            [apply IH; exact Hsb|exists csb; split; [reflexivity|exact Hsb]].
  Qed.

End CancelSim.
