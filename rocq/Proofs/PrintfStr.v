(* C09: %s and %c.  fmt pads and truncates by runes (utf8.RuneCount): equal to
   C (bytes) for ASCII text, and whenever neither width nor precision is given. *)
From Verif Require Import Lib.Base Lib.Dyadic Lib.Utf8 Model.Printf
  Proofs.PrintfSpec Proofs.PrintfBase Proofs.PrintfInt Proofs.PrintfDir Proofs.PrintfSprintf Proofs.PrintfParse.

Lemma ztake_map {A B} (g : A -> B) n l : ztake n (List.map g l) = List.map g (ztake n l).
Proof. unfold ztake. apply firstn_map. Qed.

Lemma ascii_ztake n s : ascii s = true -> ascii (ztake n s) = true.
Proof.
  unfold ztake. revert s. induction (Z.to_nat n) as [|k IH]; intros s H; [reflexivity|].
  destruct s as [|b t]; [reflexivity|]. cbn [firstn]. cbn [ascii forallb] in *.
  apply andb_true_iff in H as [H1 H2]. rewrite H1. apply IH. exact H2.
Qed.

Lemma zlen_map {A B} (g : A -> B) l : zlen (List.map g l) = zlen l.
Proof. unfold zlen. rewrite map_length. reflexivity. Qed.

(* the state built by doPrintf pads with spaces when the 0 flag is absent *)
Definition space_pad (f : fmts) : Prop := fzero f && negb (fminus f) = false.

Lemma pad_norm_any f b : space_pad f -> (widP f = false -> wid f = 0) -> 0 <= wid f ->
  pad f b = if fminus f then b ++ rep (wid f - rune_count b) 32 else rep (wid f - rune_count b) 32 ++ b.
Proof.
  intros Hs Hw H0. unfold pad, write_padding, pad_char. rewrite Hs. rewrite padding_rep.
  assert (0 <= rune_count b) by (unfold rune_count; apply zlen_nonneg).
  destruct (widP f) eqn:EP; cbn [negb orb].
  - destruct (wid f =? 0) eqn:E0.
    + apply Z.eqb_eq in E0. rewrite E0. rewrite rep_nonpos by lia.
      destruct (fminus f); [rewrite app_nil_r|]; reflexivity.
    + destruct (fminus f); reflexivity.
  - rewrite (Hw eq_refl). rewrite rep_nonpos by lia. destruct (fminus f); [rewrite app_nil_r|]; reflexivity.
Qed.

(* ---- %s ---- *)
Theorem fmt_s_ascii chars f r s : st_matches f r -> space_pad f -> ascii s = true ->
  fmt_s f s = c_string chars r s.
Proof.
  intros (Hw & HwP & Hw0 & Hm & Hp & Hs & Hsp & Hz & Hpr & Hp0) Hsp0 Ha.
  unfold fmt_s, c_string. rewrite pad_norm_any; [| exact Hsp0 | rewrite Hw; exact HwP | rewrite Hw; exact Hw0].
  assert (Hu : units chars s = List.map (fun b => [b]) s) by (unfold units; destruct chars; [apply runes_ascii; exact Ha | reflexivity]).
  rewrite Hu, Hpr, <- Hm, Hw. unfold truncate. rewrite (runes_ascii s Ha).
  destruct (precP f).
  - rewrite ztake_map, concat_singletons, zlen_map. rewrite (rune_count_ascii _ (ascii_ztake (prec f) s Ha)).
    destruct (fminus f); reflexivity.
  - rewrite concat_singletons, zlen_map, (rune_count_ascii s Ha). destruct (fminus f); reflexivity.
Qed.

(* the chunks of [runes] cover the string *)
Lemma concat_runes_fuel fuel : forall s, (length s <= fuel)%nat -> concat (runes_fuel fuel s) = s.
Proof.
  induction fuel as [|k IH]; intros s H.
  - destruct s; [reflexivity | cbn [length] in H; lia].
  - destruct s as [|b t]; [reflexivity|]. cbn [runes_fuel concat].
    pose proof (decode_rune_width (b :: t) ltac:(discriminate)) as W.
    set (w := snd (decode_rune (b :: t))) in *.
    rewrite IH.
    + unfold ztake, zdrop. apply firstn_skipn.
    + unfold zdrop. rewrite skipn_length. unfold zlen in W. cbn [length] in *. lia.
Qed.

Lemma concat_runes s : concat (runes s) = s.
Proof. unfold runes. apply concat_runes_fuel. lia. Qed.

(* no width and no precision: any bytes, either mode *)
Theorem fmt_s_plain chars f r s : st_matches f r -> r_width r = 0 -> r_prec r = None ->
  fmt_s f s = s /\ c_string chars r s = s.
Proof.
  intros (Hw & HwP & Hw0 & Hm & Hp & Hs & Hsp & Hz & Hpr & Hp0) W0 P0.
  rewrite P0 in Hpr. destruct (precP f) eqn:EP; [discriminate|].
  split.
  - unfold fmt_s, truncate, pad. rewrite EP. rewrite Hw, W0. rewrite orb_true_r. reflexivity.
  - unfold c_string. rewrite P0, W0.
    assert (0 <= zlen (units chars s)) by apply zlen_nonneg. rewrite !rep_nonpos by lia.
    assert (E : concat (units chars s) = s).
    { unfold units. destruct chars; [apply concat_runes | apply concat_singletons]. }
    rewrite E. destruct (r_minus r); [rewrite app_nil_r|]; reflexivity.
Qed.

(* ---- %c ---- *)
Lemma rune_count_single b : rune_count [b] = 1.
Proof.
  unfold rune_count, runes. cbn [length runes_fuel].
  assert (W : snd (decode_rune [b]) = 1).
  { pose proof (decode_rune_width [b] ltac:(discriminate)) as H. rewrite zlen_cons, zlen_nil in H. lia. }
  rewrite W. reflexivity.
Qed.

(* the character (one byte, or in character mode one rune) is padded to the width with spaces *)
Theorem fmt_s_char f r ch : st_matches f r -> space_pad f -> r_prec r = None -> rune_count ch = 1 ->
  fmt_s f ch = c_char r ch.
Proof.
  intros (Hw & HwP & Hw0 & Hm & Hp & Hs & Hsp & Hz & Hpr & Hp0) Hsp0 P0 H1.
  rewrite P0 in Hpr. destruct (precP f) eqn:EP; [discriminate|].
  unfold fmt_s, truncate, c_char. rewrite EP.
  rewrite pad_norm_any; [| exact Hsp0 | rewrite Hw; exact HwP | rewrite Hw; exact Hw0].
  rewrite H1, <- Hm, Hw. reflexivity.
Qed.

(* what %c converts its argument to (functions.go `case 'c'`), byte mode *)
Theorem conv_c_number_bytes ffmt x n : awk_int x = Some n -> -2147483648 <= n < 2147483648 ->
  conv_c false ffmt (VNum x) = Ok [n mod 256].
Proof.
  destruct x as [| |m e]; cbn [awk_int]; try discriminate. intros [= <-] H.
  unfold conv_c. cbn [v_is_true_str]. unfold f2i32.
  replace (-2147483648 <=? ftrunc m e) with true by (symmetry; apply Z.leb_le; lia).
  replace (ftrunc m e <? 2147483648) with true by (symmetry; apply Z.ltb_lt; lia). reflexivity.
Qed.

Theorem conv_c_number_chars ffmt x n : awk_int x = Some n -> -2147483648 <= n < 2147483648 ->
  conv_c true ffmt (VNum x) = Ok (encode_rune n).
Proof.
  destruct x as [| |m e]; cbn [awk_int]; try discriminate. intros [= <-] H.
  unfold conv_c. cbn [v_is_true_str]. unfold f2i32.
  replace (-2147483648 <=? ftrunc m e) with true by (symmetry; apply Z.leb_le; lia).
  replace (ftrunc m e <? 2147483648) with true by (symmetry; apply Z.ltb_lt; lia). reflexivity.
Qed.

Theorem conv_c_string_bytes ffmt b t n : conv_c false ffmt (VStr (b :: t) n) = Ok [b].
Proof. reflexivity. Qed.

(* character mode: the bytes of the first rune (one byte if it is not valid UTF-8) *)
Theorem conv_c_string_chars ffmt b t n :
  conv_c true ffmt (VStr (b :: t) n) = Ok (ztake (snd (decode_rune (b :: t))) (b :: t)).
Proof.
  unfold conv_c. cbn [v_is_true_str v_str rbind].
  pose proof (decode_rune_width (b :: t) ltac:(discriminate)) as W.
  unfold slice. replace (0 <=? 0) with true by reflexivity.
  replace (0 <=? snd (decode_rune (b :: t))) with true by (symmetry; apply Z.leb_le; lia).
  replace (snd (decode_rune (b :: t)) <=? zlen (b :: t)) with true by (symmetry; apply Z.leb_le; lia).
  cbn [andb]. rewrite Z.sub_0_r. reflexivity.
Qed.

(* the empty string: goawk prints a NUL byte (the property leaves this case open) *)
Lemma conv_c_empty_string chars ffmt n : conv_c chars ffmt (VStr [] n) = Ok [0].
Proof. reflexivity. Qed.

(* ---- end to end for %s and %c ---- *)
Lemma st_space_pad f d wv pv : st_matches f (resolve d wv pv) -> has 48 (d_flags d) = false -> space_pad f.
Proof.
  intros (Hw & HwP & Hw0 & Hm & Hp & Hs & Hsp & Hz & Hpr & Hp0) H48. unfold space_pad.
  destruct (fminus f) eqn:EM; [rewrite andb_false_r; reflexivity|].
  cbn [negb]. rewrite andb_true_r. rewrite Hz by (symmetry; exact Hm). exact H48.
Qed.

Theorem sprintf_s_agree chars ffmt d pre post aw ap a extra wv pv s :
  wf_dir d = true -> d_conv d = Cs -> c_defined d = true ->
  no_pct pre = true -> no_pct post = true -> lim d wv pv ->
  (d_width d = WStar -> awk_int (v_num aw) = Some wv) ->
  (d_prec d = PrStar -> awk_int (v_num ap) = Some pv) ->
  v_str ffmt a = Ok s ->
  ascii s = true \/ (d_width d = WNone /\ d_prec d = PrNone) ->
  sprintf chars ffmt (pre ++ render d ++ post) (args_for d aw ap a extra)
  = Ok (pre ++ c_directive chars d wv pv (AStr s) ++ post).
Proof.
  intros Hwf Hc Hdef Hpre Hpost Hlim Hw Hp Ha Hok.
  apply (sprintf_dir_eff chars ffmt d pre post aw ap a extra wv pv (GStr s)); try assumption.
  - rewrite Hc. cbn [conv_ty conv_arg]. rewrite Ha. reflexivity.
  - destruct (resolve_eff d wv pv ltac:(rewrite Hc; reflexivity) ltac:(rewrite Hc; reflexivity)) as (_ & _ & Eres & _).
    rewrite Eres. intros f Hst. unfold c_directive. unfold c_defined in Hdef. rewrite Hc in *.
    cbn [go_conv_byte print_arg Z.eqb Pos.eqb orb].
    apply andb_true_iff in Hdef as [_ H48]. apply negb_true_iff in H48.
    destruct Hok as [Hasc | [W0 P0]].
    + rewrite (fmt_s_ascii chars f _ s Hst (st_space_pad f d wv pv Hst H48) Hasc). reflexivity.
    + destruct (fmt_s_plain chars f (resolve d wv pv) s Hst) as [E1 E2].
      * unfold resolve. rewrite W0. reflexivity.
      * unfold resolve. rewrite P0. reflexivity.
      * rewrite E1, E2. reflexivity.
Qed.

Theorem sprintf_c_agree chars ffmt d pre post aw ap a extra wv pv ch :
  wf_dir d = true -> d_conv d = Cc -> c_defined d = true ->
  no_pct pre = true -> no_pct post = true -> lim d wv pv ->
  (d_width d = WStar -> awk_int (v_num aw) = Some wv) ->
  conv_c chars ffmt a = Ok ch -> rune_count ch = 1 ->
  sprintf chars ffmt (pre ++ render d ++ post) (args_for d aw ap a extra)
  = Ok (pre ++ c_directive chars d wv pv (AChar ch) ++ post).
Proof.
  intros Hwf Hc Hdef Hpre Hpost Hlim Hw Ha H1.
  unfold c_defined in Hdef. rewrite Hc in Hdef. apply andb_true_iff in Hdef as [Hdef HP]. apply andb_true_iff in Hdef as [_ H48].
  apply negb_true_iff in H48. destruct (d_prec d) eqn:EP; try discriminate.
  apply (sprintf_dir_eff chars ffmt d pre post aw ap a extra wv pv (GBytes ch)); try assumption.
  - rewrite EP. discriminate.
  - rewrite Hc. cbn [conv_ty conv_arg]. rewrite Ha. reflexivity.
  - destruct (resolve_eff d wv pv ltac:(rewrite Hc; reflexivity) ltac:(rewrite Hc; reflexivity)) as (_ & _ & Eres & _).
    rewrite Eres. intros f Hst. unfold c_directive. rewrite Hc. cbn [go_conv_byte print_arg Z.eqb Pos.eqb].
    rewrite (fmt_s_char f _ ch Hst (st_space_pad f d wv pv Hst H48)); [reflexivity | | exact H1].
    unfold resolve. rewrite EP. reflexivity.
Qed.

(* ---- one rune is one unit (character mode %c) ---- *)
Lemma rune_count_whole c : c <> [] -> snd (decode_rune c) = zlen c -> rune_count c = 1.
Proof.
  intros Hne Hw. unfold rune_count, runes. destruct c as [|b t]; [congruence|].
  cbn [length runes_fuel]. rewrite Hw. rewrite ztake_all by lia. rewrite zdrop_all by lia.
  destruct (length t); reflexivity.
Qed.

Lemma decode_prefix s : s <> [] ->
  snd (decode_rune (ztake (snd (decode_rune s)) s)) = snd (decode_rune s).
Proof.
  destruct s as [|b0 t]; [congruence|]. intros _. cbn [decode_rune].
  destruct (b0 <? 128) eqn:E0.
  { cbn [snd]. change (ztake 1 (b0 :: t)) with [b0]. cbn [decode_rune]. rewrite E0. reflexivity. }
  destruct (in_rng 194 223 b0) eqn:E1.
  { destruct t as [|b1 t1].
    - cbn [snd]. change (ztake 1 [b0]) with [b0]. cbn [decode_rune]. rewrite E0, E1. reflexivity.
    - destruct (is_cont b1) eqn:C1; cbn [snd].
      + change (ztake 2 (b0 :: b1 :: t1)) with [b0; b1]. cbn [decode_rune]. rewrite E0, E1, C1. reflexivity.
      + change (ztake 1 (b0 :: b1 :: t1)) with [b0]. cbn [decode_rune]. rewrite E0, E1. reflexivity. }
  destruct (in_rng 224 239 b0) eqn:E2.
  { destruct t as [|b1 [|b2 t2]].
    - cbn [snd]. change (ztake 1 [b0]) with [b0]. cbn [decode_rune]. rewrite E0, E1, E2. reflexivity.
    - cbn [snd]. change (ztake 1 [b0; b1]) with [b0]. cbn [decode_rune]. rewrite E0, E1, E2. reflexivity.
    - destruct (in_rng _ _ b1 && is_cont b2) eqn:C; cbn [snd].
      + change (ztake 3 (b0 :: b1 :: b2 :: t2)) with [b0; b1; b2]. cbn [decode_rune]. rewrite E0, E1, E2, C. reflexivity.
      + change (ztake 1 (b0 :: b1 :: b2 :: t2)) with [b0]. cbn [decode_rune]. rewrite E0, E1, E2. reflexivity. }
  destruct (in_rng 240 244 b0) eqn:E3.
  { destruct t as [|b1 [|b2 [|b3 t3]]].
    - cbn [snd]. change (ztake 1 [b0]) with [b0]. cbn [decode_rune]. rewrite E0, E1, E2, E3. reflexivity.
    - cbn [snd]. change (ztake 1 [b0; b1]) with [b0]. cbn [decode_rune]. rewrite E0, E1, E2, E3. reflexivity.
    - cbn [snd]. change (ztake 1 [b0; b1; b2]) with [b0]. cbn [decode_rune]. rewrite E0, E1, E2, E3. reflexivity.
    - destruct (in_rng _ _ b1 && is_cont b2 && is_cont b3) eqn:C; cbn [snd].
      + change (ztake 4 (b0 :: b1 :: b2 :: b3 :: t3)) with [b0; b1; b2; b3]. cbn [decode_rune]. rewrite E0, E1, E2, E3, C. reflexivity.
      + change (ztake 1 (b0 :: b1 :: b2 :: b3 :: t3)) with [b0]. cbn [decode_rune]. rewrite E0, E1, E2, E3. reflexivity. }
  cbn [snd]. change (ztake 1 (b0 :: t)) with [b0]. cbn [decode_rune]. rewrite E0, E1, E2, E3. reflexivity.
Qed.

(* the first rune of a non-empty string counts as one character *)
Theorem first_rune_is_one_unit s : s <> [] -> rune_count (ztake (snd (decode_rune s)) s) = 1.
Proof.
  intros H. pose proof (decode_rune_width s H) as W. apply rune_count_whole.
  - destruct s as [|b t]; [congruence|]. intros E. apply (f_equal zlen) in E.
    rewrite zlen_ztake in E by lia. rewrite zlen_nil in E. lia.
  - rewrite (decode_prefix s H). rewrite zlen_ztake by lia. reflexivity.
Qed.

(* utf8.EncodeRune produces exactly one rune (invalid code points become U+FFFD) *)
Theorem encode_rune_is_one_unit n : rune_count (encode_rune n) = 1.
Proof.
  unfold encode_rune.
  set (r := if (n <? 0) || (1114111 <? n) || ((55296 <=? n) && (n <=? 57343)) then rune_error else n).
  assert (Hr : 0 <= r <= 1114111 /\ ~ (55296 <= r <= 57343)).
  { unfold r, rune_error. destruct (n <? 0) eqn:A; [cbn; lia|]. destruct (1114111 <? n) eqn:B; [cbn; lia|].
    destruct ((55296 <=? n) && (n <=? 57343)) eqn:C; cbn [orb]; [lia|].
    apply Z.ltb_ge in A, B. split; [lia|]. intros [X Y].
    apply andb_false_iff in C as [C|C]; [apply Z.leb_gt in C | apply Z.leb_gt in C]; lia. }
  clearbody r. destruct Hr as [[R0 R1] RS].
  destruct (r <? 128) eqn:E1.
  { apply rune_count_single. }
  apply Z.ltb_ge in E1.
  destruct (r <? 2048) eqn:E2.
  { apply Z.ltb_lt in E2. apply rune_count_whole; [discriminate|].
    cbn [decode_rune]. unfold in_rng, is_cont.
    replace (192 + r / 64 <? 128) with false by (symmetry; apply Z.ltb_ge; Z.div_mod_to_equations; lia).
    replace ((194 <=? 192 + r / 64) && (192 + r / 64 <=? 223)) with true
      by (symmetry; apply andb_true_iff; split; apply Z.leb_le; Z.div_mod_to_equations; lia).
    replace ((128 <=? 128 + r mod 64) && (128 + r mod 64 <=? 191)) with true
      by (symmetry; apply andb_true_iff; split; apply Z.leb_le; Z.div_mod_to_equations; lia).
    reflexivity. }
  apply Z.ltb_ge in E2.
  destruct (r <? 65536) eqn:E3.
  { apply Z.ltb_lt in E3. apply rune_count_whole; [discriminate|].
    cbn [decode_rune]. unfold in_rng, is_cont.
    replace (224 + r / 4096 <? 128) with false by (symmetry; apply Z.ltb_ge; Z.div_mod_to_equations; lia).
    replace ((194 <=? 224 + r / 4096) && (224 + r / 4096 <=? 223)) with false
      by (symmetry; apply andb_false_iff; right; apply Z.leb_gt; Z.div_mod_to_equations; lia).
    replace ((224 <=? 224 + r / 4096) && (224 + r / 4096 <=? 239)) with true
      by (symmetry; apply andb_true_iff; split; apply Z.leb_le; Z.div_mod_to_equations; lia).
    assert (H1 : ((if 224 + r / 4096 =? 224 then 160 else 128) <=? 128 + (r / 64) mod 64) = true).
    { apply Z.leb_le. destruct (224 + r / 4096 =? 224) eqn:Q; [apply Z.eqb_eq in Q|]; Z.div_mod_to_equations; lia. }
    assert (H2 : (128 + (r / 64) mod 64 <=? (if 224 + r / 4096 =? 237 then 159 else 191)) = true).
    { apply Z.leb_le. destruct (224 + r / 4096 =? 237) eqn:Q; [apply Z.eqb_eq in Q|]; Z.div_mod_to_equations; lia. }
    rewrite H1, H2.
    replace ((128 <=? 128 + r mod 64) && (128 + r mod 64 <=? 191)) with true
      by (symmetry; apply andb_true_iff; split; apply Z.leb_le; Z.div_mod_to_equations; lia).
    reflexivity. }
  apply Z.ltb_ge in E3.
  apply rune_count_whole; [discriminate|].
  cbn [decode_rune]. unfold in_rng, is_cont.
  replace (240 + r / 262144 <? 128) with false by (symmetry; apply Z.ltb_ge; Z.div_mod_to_equations; lia).
  replace ((194 <=? 240 + r / 262144) && (240 + r / 262144 <=? 223)) with false
    by (symmetry; apply andb_false_iff; right; apply Z.leb_gt; Z.div_mod_to_equations; lia).
  replace ((224 <=? 240 + r / 262144) && (240 + r / 262144 <=? 239)) with false
    by (symmetry; apply andb_false_iff; right; apply Z.leb_gt; Z.div_mod_to_equations; lia).
  replace ((240 <=? 240 + r / 262144) && (240 + r / 262144 <=? 244)) with true
    by (symmetry; apply andb_true_iff; split; apply Z.leb_le; Z.div_mod_to_equations; lia).
  assert (H1 : ((if 240 + r / 262144 =? 240 then 144 else 128) <=? 128 + (r / 4096) mod 64) = true).
  { apply Z.leb_le. destruct (240 + r / 262144 =? 240) eqn:Q; [apply Z.eqb_eq in Q|]; Z.div_mod_to_equations; lia. }
  assert (H2 : (128 + (r / 4096) mod 64 <=? (if 240 + r / 262144 =? 244 then 143 else 191)) = true).
  { apply Z.leb_le. destruct (240 + r / 262144 =? 244) eqn:Q; [apply Z.eqb_eq in Q|]; Z.div_mod_to_equations; lia. }
  rewrite H1, H2.
  replace ((128 <=? 128 + (r / 64) mod 64) && (128 + (r / 64) mod 64 <=? 191)) with true
    by (symmetry; apply andb_true_iff; split; apply Z.leb_le; Z.div_mod_to_equations; lia).
  replace ((128 <=? 128 + r mod 64) && (128 + r mod 64 <=? 191)) with true
    by (symmetry; apply andb_true_iff; split; apply Z.leb_le; Z.div_mod_to_equations; lia).
  reflexivity.
Qed.
