(* C16: proofs about the resolver model, part 3: programs that satisfy the
   property's precondition are rejected only for a type error or by the
   iteration cut-off; exactness; the oracle-ordered resolver. *)
From Verif Require Import Lib.Base Model.Resolver Proofs.Resolver Proofs.ResolverSound.
From Coq Require Import Permutation.
Open Scope Z_scope.

Definition names_ok (P : program) : Prop := forall fd, In fd (p_funcs P) -> f_name fd <> [].

(* neither a name-clash/arity/undefined-function error, nor a Go panic, nor out of fuel *)
Definition clean {A} (r : rres A) : Prop :=
  match r with
  | ROk _ => True
  | RErr e => is_type_error e = true \/ e = ETooManyIter
  | _ => False
  end.

Section Clean.
Variable P : program.
Hypothesis Hnodup : NoDup (fnames P).
Hypothesis Hnonempty : names_ok P.

Lemma record_var_clean s cur v typ :
  inv P (st_vars s) -> global_ok P cur v = true -> clean (record_var P s cur v typ).
Proof.
  intros Hi Hg. destruct (record_var P s cur v typ) as [s'|e| |] eqn:E; cbn [clean].
  - exact I.
  - destruct (is_type_error e) eqn:Et; [left; reflexivity|]. exfalso.
    destruct (record_var_struct P s cur v typ e Hi E Et) as [Hf [Hk Hfst]].
    unfold global_ok in Hg. unfold scope_key, kspecial in *.
    destruct (negb (is_empty cur) && mem v (params_of P cur)) eqn:Eloc; cbn [fst snd] in *.
    + apply andb_true_iff in Eloc. destruct Eloc as [E1 _]. rewrite Hfst in E1. discriminate.
    + cbn [is_empty andb orb] in *. rewrite Hk, Hf in Hg. discriminate.
  - destruct (record_var_no_panic P s cur v typ) as [H _]. congruence.
  - destruct (record_var_no_panic P s cur v typ) as [_ H]. congruence.
Qed.

Lemma global_ok_param (f p : name) : f <> [] -> In p (params_of P f) -> global_ok P f p = true.
Proof.
  intros Hf Hp. unfold global_ok. apply is_empty_false in Hf. rewrite Hf. apply mem_In in Hp. rewrite Hp. reflexivity.
Qed.

Lemma lookup_not_local cur s f :
  inv P (st_vars s) -> negb (is_empty cur) && mem f (params_of P cur) = false ->
  match lookup_var (st_vars s) cur f with Some (_, _, vf) => negb (is_empty vf) | None => false end = false.
Proof.
  intros Hi Hl. rewrite (lookup_spec P _ cur f Hi). cbv zeta.
  assert (Hk : scope_key P cur f = gk f) by (unfold scope_key; rewrite Hl; reflexivity).
  rewrite Hk. destruct (kspecial (gk f)); [reflexivity|]. destruct (get (st_vars s) (gk f)); reflexivity.
Qed.

Lemma visit_step_clean cur s st :
  inv P (st_vars s) -> wf_step P cur st = true -> clean (visit_step P cur s st).
Proof.
  intros Hi Hw. destruct st as [v t|f nargs|f i|f i v]; cbn [visit_step wf_step] in *.
  - apply record_var_clean; assumption.
  - apply andb_true_iff in Hw. destruct Hw as [Hl Hw]. apply negb_true_iff in Hl.
    rewrite (lookup_not_local cur s f Hi Hl).
    destruct (func_info P f) as [fi|]; [|discriminate].
    destruct (fi_native fi).
    + destruct (find_native (p_natives P) f) as [nt|]; [|discriminate].
      apply andb_true_iff in Hw. destruct Hw as [Hfn Hw]. rewrite Hfn. cbn [negb].
      apply negb_true_iff in Hw. rewrite Hw. exact I.
    + apply negb_true_iff in Hw. rewrite Hw. exact I.
  - unfold arg_ok in Hw. destruct (func_info P f) as [fi|]; [|discriminate].
    destruct (fi_native fi); [exact I|]. cbn [orb] in Hw.
    destruct (nth_error (fi_params fi) i) as [p|]; [|discriminate].
    destruct (get_or_unknown (st_vars s) (f, p)); cbn [clean]; auto.
  - apply andb_true_iff in Hw. destruct Hw as [Ha Hg]. unfold arg_ok in Ha.
    destruct (func_info P f) as [fi|] eqn:Efi; [|discriminate].
    destruct (fi_native fi) eqn:En; [apply record_var_clean; assumption|]. cbn [orb] in Ha.
    destruct (nth_error (fi_params fi) i) as [p|] eqn:Ep; [|discriminate].
    destruct (func_info_awk P Hnonempty f fi Efi En) as [Hf [Hpar _]].
    assert (Hpin : In p (params_of P f)) by (rewrite <- Hpar; eapply nth_error_In; eassumption).
    destruct (_ && _); [apply record_var_clean; assumption|].
    destruct (_ && _); [apply record_var_clean; [assumption | apply global_ok_param; assumption]|].
    destruct (_ && _ && _); [cbn [clean]; auto|]. apply record_var_clean; assumption.
Qed.

Lemma run_steps_clean cur l s :
  state_ok P s -> Forall (step_in P cur) l -> forallb (wf_step P cur) l = true ->
  clean (run_steps P cur l s).
Proof.
  revert s. induction l as [|st l IH]; intros s Hok Hin Hw; cbn [run_steps]; [exact I|].
  inversion Hin as [|x y Hin1 Hin2]; subst. cbn [forallb] in Hw. apply andb_true_iff in Hw. destruct Hw as [Hw1 Hw2].
  pose proof (visit_step_clean cur s st (proj1 Hok) Hw1) as Hc.
  destruct (visit_step P cur s st) as [s1|e| |] eqn:E; try exact Hc.
  destruct (visit_step_ok P Hnonempty cur s st s1 Hok Hin1 E) as [Hok1 _]. apply IH; assumption.
Qed.

Hypothesis Hwf_funcs : forall fd, In fd (p_funcs P) -> forallb (wf_step P (f_name fd)) (flat_events (f_body fd)) = true.
Hypothesis Hwf_main : forallb (wf_step P []) (flat_events (p_main P)) = true.

Lemma walk_funcs_clean order s : state_ok P s -> clean (walk_funcs P order s).
Proof.
  revert s. induction order as [|fn order IH]; intros s Hok; cbn [walk_funcs]; [exact I|].
  destruct (is_empty fn); [apply IH; exact Hok|].
  destruct (find_func P fn) as [[i0 fd0]|] eqn:Ef; [|apply IH; exact Hok].
  destruct (find_func_In P fn i0 fd0 Ef) as [Hin0 Hname0].
  assert (Hsi : Forall (step_in P fn) (flat_events (f_body fd0))) by (rewrite <- Hname0; apply body_steps_in; exact Hin0).
  assert (Hw : forallb (wf_step P fn) (flat_events (f_body fd0)) = true) by (rewrite <- Hname0; apply Hwf_funcs; exact Hin0).
  pose proof (run_steps_clean fn _ s Hok Hsi Hw) as Hc.
  destruct (run_steps P fn (flat_events (f_body fd0)) s) as [s1|e| |] eqn:E; try exact Hc.
  destruct (run_steps_ok P Hnonempty fn _ s s1 Hok Hsi E) as [Hok1 _]. apply IH; exact Hok1.
Qed.

Lemma walk_ordered_clean order s : state_ok P s -> clean (walk_ordered P order s).
Proof.
  intros Hok. unfold walk_ordered. pose proof (walk_funcs_clean order s Hok) as Hc.
  destruct (walk_funcs P order s) as [s1|e| |] eqn:E; try exact Hc.
  destruct (walk_funcs_ok P Hnonempty order s s1 Hok E) as [Hok1 _].
  apply run_steps_clean; [exact Hok1 | apply main_steps_in | exact Hwf_main].
Qed.

Lemma pass_loop_clean order k s updates : state_ok P s -> clean (pass_loop P order k s updates).
Proof.
  revert s updates. induction k as [|k IH]; intros s updates Hok; cbn [pass_loop].
  - destruct (st_updates s =? updates); [exact I|].
    pose proof (walk_ordered_clean order s Hok) as Hc.
    destruct (walk_ordered P order s) as [s1|e| |]; try exact Hc. cbn [clean]. auto.
  - destruct (st_updates s =? updates); [exact I|].
    pose proof (walk_ordered_clean order s Hok) as Hc.
    destruct (walk_ordered P order s) as [s1|e| |] eqn:E; try exact Hc.
    destruct (walk_ordered_ok P Hnonempty order s s1 Hok E) as [Hok1 _]. apply IH; exact Hok1.
Qed.

Hypothesis Hwf_builtin : is_func P n_ARGV = false /\ is_func P n_ENVIRON = false /\ is_func P n_FIELDS = false.

Lemma resolve_order_clean cut order : first_dup [] (fnames P) = None -> clean (resolve_order cut order P).
Proof.
  intros Hd. unfold resolve_order. rewrite Hd.
  set (s0 := {| st_vars := init_vars P; st_updates := 0 |}).
  pose proof (init_state_ok P Hnodup Hnonempty) as Hok0. fold s0 in Hok0.
  destruct Hwf_builtin as [W1 [W2 W3]].
  assert (G : forall v, is_func P v = false -> global_ok P [] v = true).
  { intros v Hv. unfold global_ok. rewrite Hv. cbn. apply orb_true_r. }
  pose proof (record_var_clean s0 [] n_ARGV TArray (proj1 Hok0) (G _ W1)) as C1.
  destruct (record_var P s0 [] n_ARGV TArray) as [s1|e| |] eqn:E1; try exact C1. cbn [rbind2].
  destruct (record_var_ok P s0 [] n_ARGV TArray s1 Hok0 (base_justified P n_ARGV ltac:(cbn; auto)) E1) as [Hok1 _].
  pose proof (record_var_clean s1 [] n_ENVIRON TArray (proj1 Hok1) (G _ W2)) as C2.
  destruct (record_var P s1 [] n_ENVIRON TArray) as [s2|e| |] eqn:E2; try exact C2. cbn [rbind2].
  destruct (record_var_ok P s1 [] n_ENVIRON TArray s2 Hok1 (base_justified P n_ENVIRON ltac:(cbn; auto)) E2) as [Hok2 _].
  pose proof (record_var_clean s2 [] n_FIELDS TArray (proj1 Hok2) (G _ W3)) as C3.
  destruct (record_var P s2 [] n_FIELDS TArray) as [s3|e| |] eqn:E3; try exact C3. cbn [rbind2].
  destruct (record_var_ok P s2 [] n_FIELDS TArray s3 Hok2 (base_justified P n_FIELDS ltac:(cbn; auto)) E3) as [Hok3 _].
  pose proof (walk_ordered_clean order s3 Hok3) as C4.
  destruct (walk_ordered P order s3) as [s4|e| |] eqn:E4; try exact C4. cbn [rbind2].
  destruct (walk_ordered_ok P Hnonempty order s3 s4 Hok3 E4) as [Hok4 _].
  pose proof (pass_loop_clean order cut s4 (st_updates s3) Hok4) as C5.
  destruct (pass_loop P order cut s4 (st_updates s3)) as [s5|e| |]; exact C5.
Qed.

End Clean.

(* ---------- what [wf] gives ------------------------------------------------------- *)

Lemma wf_parts P :
  wf P = true ->
  first_dup [] (fnames P) = None /\ NoDup (fnames P) /\ names_ok P /\
  (is_func P n_ARGV = false /\ is_func P n_ENVIRON = false /\ is_func P n_FIELDS = false) /\
  (forall fd, In fd (p_funcs P) -> forallb (wf_step P (f_name fd)) (flat_events (f_body fd)) = true) /\
  forallb (wf_step P []) (flat_events (p_main P)) = true.
Proof.
  unfold wf. intros H.
  repeat (apply andb_true_iff in H; destruct H as [H ?]).
  destruct (first_dup [] (fnames P)) eqn:Ed; [discriminate|].
  split; [reflexivity|]. split; [apply (first_dup_none _ _ Ed)|]. split.
  - intros fd Hfd. rewrite forallb_forall in H5. specialize (H5 fd Hfd).
    apply negb_true_iff in H5. apply is_empty_false in H5. exact H5.
  - split; [repeat split; apply negb_true_iff; assumption|]. split; [|assumption].
    intros fd Hfd. rewrite forallb_forall in H1. apply H1. exact Hfd.
Qed.

Lemma resolve_order_nodup cut order P r :
  resolve_order cut order P = r -> (forall f, r <> RErr (EAlreadyDefined f)) -> NoDup (fnames P).
Proof.
  unfold resolve_order. intros H Hr. destruct (first_dup [] (fnames P)) eqn:Ed.
  - exfalso. apply (Hr n). congruence.
  - apply (first_dup_none _ _ Ed).
Qed.

(* ---------- main statements about resolve_order ----------------------------------- *)

(* SOUND: an accepted program's types solve the constraint system, and the
   compiler's scalarInfo/arrayInfo/array-argument demands are met *)
Theorem resolve_order_sound cut order P F :
  names_ok P -> covers P order ->
  resolve_order cut order P = ROk F ->
  solution P (rho_of (fin_types F)) /\ compile_check P F = true.
Proof.
  intros Hne Hcov H.
  assert (Hnd : NoDup (fnames P)) by (eapply resolve_order_nodup; [exact H | intros f; discriminate]).
  destruct (resolve_order_ok P Hnd Hne cut order F H) as [s [Hacc Hpq]].
  pose proof (pass_quiet_all P Hnd s order Hcov Hpq) as Haq.
  split; [eapply sound_state; eassumption | eapply well_typed_state; eassumption].
Qed.

(* COMPLETE: a type error means the constraints are unsatisfiable *)
Theorem resolve_order_complete cut order P e :
  names_ok P ->
  resolve_order cut order P = RErr e -> is_type_error e = true -> ~ sat P.
Proof.
  intros Hne H He.
  assert (Hnd : NoDup (fnames P)).
  { eapply resolve_order_nodup; [exact H|]. intros f E. injection E as ->. discriminate. }
  eapply complete_order; eassumption.
Qed.

(* EXACT, up to the iteration cut-off *)
Theorem resolve_order_exact cut order P :
  wf P = true -> covers P order ->
  resolve_order cut order P <> RErr ETooManyIter ->
  ((exists F, resolve_order cut order P = ROk F) <-> sat P).
Proof.
  intros Hwf Hcov Hcut. destruct (wf_parts P Hwf) as [Hd [Hnd [Hne [Hb [Hwff Hwfm]]]]].
  split.
  - intros [F HF]. exists (rho_of (fin_types F)). eapply resolve_order_sound; eassumption.
  - intros Hsat. pose proof (resolve_order_clean P Hnd Hne Hwff Hwfm Hb cut order Hd) as Hc.
    destruct (resolve_order cut order P) as [F|e| |] eqn:E; cbn [clean] in Hc; try contradiction.
    + eauto.
    + exfalso. destruct Hc as [Hc| ->]; [|congruence].
      eapply resolve_order_complete; eassumption.
Qed.

(* ---------- the oracle-ordered resolver -------------------------------------------- *)

Definition perm_oracle (pi : oracle) : Prop := forall k l, Permutation (pi k l) l.

Lemma ordered_funcs_covers pi P order :
  perm_oracle pi -> ordered_funcs pi P = Some order -> covers P order.
Proof.
  intros Hpi H fd Hfd. unfold ordered_funcs in H.
  destruct (topo_sort pi (call_graph P)) as [[sorted ctr]|]; [|discriminate]. injection H as <-.
  apply in_or_app. destruct (mem (f_name fd) sorted) eqn:E.
  - left. apply mem_In. exact E.
  - right. apply filter_In. split; [|rewrite E; reflexivity].
    eapply Permutation_in; [apply Permutation_sym; apply Hpi|]. unfold fnames. apply in_map. exact Hfd.
Qed.

Lemma resolve_cut_order cut pi P r :
  resolve_cut cut pi P = r -> r <> RFuel ->
  (exists order, ordered_funcs pi P = Some order /\ resolve_order cut order P = r) \/
  (exists f, r = RErr (EAlreadyDefined f)).
Proof.
  unfold resolve_cut. intros H Hr. destruct (first_dup [] (fnames P)) as [f|]; [right; eauto|].
  destruct (ordered_funcs pi P) as [order|]; [left; eauto | congruence].
Qed.

Theorem resolve_sound cut pi P F :
  perm_oracle pi -> names_ok P ->
  resolve_cut cut pi P = ROk F ->
  solution P (rho_of (fin_types F)) /\ compile_check P F = true.
Proof.
  intros Hpi Hne H. destruct (resolve_cut_order cut pi P _ H ltac:(discriminate)) as [[order [Ho Hr]]|[f Hf]]; [|discriminate].
  eapply resolve_order_sound; [exact Hne | eapply ordered_funcs_covers; eassumption | exact Hr].
Qed.

Theorem resolve_complete cut pi P e :
  names_ok P -> resolve_cut cut pi P = RErr e -> is_type_error e = true -> ~ sat P.
Proof.
  intros Hne H He. destruct (resolve_cut_order cut pi P _ H ltac:(discriminate)) as [[order [Ho Hr]]|[f Hf]].
  - eapply resolve_order_complete; eassumption.
  - injection Hf as ->. discriminate.
Qed.

Theorem resolve_exact cut pi P :
  perm_oracle pi -> wf P = true ->
  resolve_cut cut pi P <> RErr ETooManyIter -> resolve_cut cut pi P <> RFuel ->
  ((exists F, resolve_cut cut pi P = ROk F) <-> sat P).
Proof.
  intros Hpi Hwf. destruct (wf_parts P Hwf) as [Hd _]. unfold resolve_cut. rewrite Hd.
  destruct (ordered_funcs pi P) as [order|] eqn:Ho; [|congruence].
  intros Hcut _. apply resolve_order_exact; [exact Hwf | eapply ordered_funcs_covers; eassumption | exact Hcut].
Qed.
