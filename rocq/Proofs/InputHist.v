(* C11: the two whole-run invariants.
   (1) advances: for a program that leaves ARGV, ARGC and the stdin file alone, the history of
       main-input events followed by the plan of the current state is always the plan of the
       initial state  ->  main_input_order, assign_operands_timing.
   (2) tracks: NR, FNR, FILENAME, the exit status and the variables are functions of the
       history, for every program  ->  counters, exit status. *)
From Verif Require Import Lib.Base Model.Input Proofs.Input Proofs.InputLift.

(* ---------- (1) ---------- *)

Definition neutral (r : req) : Prop :=
  match r with
  | RSetArgc _ | RSetArgv _ _ | RDelArgv _ => False
  | RGetline (SFile f) _ => bytes_eqb f b_dash = false
  | _ => True
  end.

Lemma set_field_quiet e n l s s' :
  set_field e n l s = Some s' ->
  log s' = log s /\ cur s' = cur s /\ argv s' = argv s /\ argc s' = argc s /\ idx s' = idx s /\ had s' = had s /\
  stdin s' = stdin s /\ NR s' = NR s /\ FNR s' = FNR s /\ FILENAME s' = FILENAME s /\ status s' = status s /\ vars s' = vars s.
Proof.
  unfold set_field. destruct (n =? 0). { intros H; injection H as <-. sst. repeat split; reflexivity. }
  destruct (n <? 0); [discriminate|]. intros H; injection H as <-. sst. repeat split; reflexivity.
Qed.

Lemma scan_rd_quiet name recs s r l s' :
  scan_rd name recs s = (r, l, s') ->
  log s' = log s /\ cur s' = cur s /\ argv s' = argv s /\ argc s' = argc s /\ idx s' = idx s /\ had s' = had s /\
  stdin s' = stdin s /\ NR s' = NR s /\ FNR s' = FNR s /\ FILENAME s' = FILENAME s /\ status s' = status s /\ vars s' = vars s /\
  line s' = line s /\ fields s' = fields s.
Proof.
  unfold scan_rd. destruct recs; intros H; injection H as _ _ <-; sst; repeat split; reflexivity.
Qed.

(* the part of a getline after the read: storing into the target *)
Definition store (e : env) (tg : tgt) (r : Z) (l : record) (s2 : st) : option st :=
  if r =? 1 then
    match tg with
    | TLine => Some (set_line e l s2)
    | TVar v => Some (add_log (EvGetVar v l) (set_vars (bupdate (vars s2) v l) s2))
    | TField n => set_field e n l s2
    end
  else Some s2.

Lemma do_getline_split e sr tg s s' :
  do_getline e sr tg s = Some s' ->
  exists r l s1, rd_read e sr s = Some (r, l, s1) /\ store e tg r l (set_ret r s1) = Some s'.
Proof.
  unfold do_getline, store. destruct (rd_read e sr s) as [[[r l] s1]|]; [|discriminate].
  intros H. exists r, l, s1. split; [reflexivity|exact H].
Qed.

Lemma store_advances e tg r l s s' : store e tg r l s = Some s' -> advances e s s'.
Proof.
  unfold store. destruct (r =? 1).
  - destruct tg as [|v|n]; intros H.
    + injection H as <-. apply (advances_quiet e _ _ []); reflexivity.
    + injection H as <-. apply (advances_quiet e _ _ [EvGetVar v l]); reflexivity.
    + apply set_field_quiet in H as (H0 & H1 & H2 & H3 & H4 & H5 & H6 & _).
      apply (advances_quiet e _ _ []); first [assumption|reflexivity].
  - intros H; injection H as <-. apply advances_refl.
Qed.

Lemma rd_read_advances e sr s r l s1 :
  match sr with SFile f => bytes_eqb f b_dash = false | _ => True end ->
  rd_read e sr s = Some (r, l, s1) -> advances e s s1.
Proof.
  intros Hn H. destruct sr as [|f|c]; cbn [rd_read] in H.
  - destruct (next_line e s) as [res s'] eqn:HN.
    assert (advances e s s' /\ s1 = s') as [HA ->].
    { destruct res; try discriminate; injection H as _ _ <-; (split; [|reflexivity]);
        (eapply next_line_advances; [exact HN|discriminate]). }
    exact HA.
  - rewrite Hn in H.
    destruct (blookup (rd s) f) as [recs|].
    { injection H as H. apply scan_rd_quiet in H as (H0 & H1 & H2 & H3 & H4 & H5 & H6 & _).
      apply (advances_quiet e _ _ []); first [assumption|reflexivity]. }
    destruct (blookup (fs e) f) as [recs|].
    { injection H as H. apply scan_rd_quiet in H as (H0 & H1 & H2 & H3 & H4 & H5 & H6 & _).
      apply (advances_quiet e _ _ []); first [assumption|reflexivity]. }
    injection H as _ _ <-. apply advances_refl.
  - destruct (blookup (rd s) c) as [recs|].
    { injection H as H. apply scan_rd_quiet in H as (H0 & H1 & H2 & H3 & H4 & H5 & H6 & _).
      apply (advances_quiet e _ _ []); first [assumption|reflexivity]. }
    destruct (blookup (cmds e) c) as [recs|]; [|discriminate].
    injection H as H. apply scan_rd_quiet in H as (H0 & H1 & H2 & H3 & H4 & H5 & H6 & _).
    apply (advances_quiet e _ _ []); first [assumption|reflexivity].
Qed.

Lemma prim_advances e r s s' : neutral r -> prim e r s = Some s' -> advances e s s'.
Proof.
  intros Hn H. destruct r; cbn [prim] in H; cbn [neutral] in Hn; try contradiction;
    try (injection H as <-; apply advances_refl).
  - apply do_getline_split in H as (r & l & s1 & HR & HS).
    eapply advances_trans; [eapply rd_read_advances; [|exact HR]|].
    { destruct sr; try exact I. exact Hn. }
    eapply advances_trans; [|eapply store_advances; exact HS].
    apply (advances_quiet e _ _ []); reflexivity.
  - injection H as <-. apply (advances_quiet e _ _ []); reflexivity.
  - injection H as <-. apply (advances_quiet e _ _ []); reflexivity.
  - injection H as <-. apply (advances_quiet e _ _ [EvSetNR z]); reflexivity.
  - injection H as <-. apply (advances_quiet e _ _ [EvSetFNR z]); reflexivity.
  - injection H as <-. apply (advances_quiet e _ _ [EvSetVar name val]); reflexivity.
  - injection H as <-. apply (advances_quiet e _ _ []); reflexivity.
Qed.

Lemma drop_file_advances e s : advances e s (drop_file s).
Proof.
  unfold drop_file. destruct (cur s) as [[name rest]|] eqn:Hc; [|apply advances_refl].
  exists [EvSkip name rest]. split; [reflexivity|].
  unfold plan, cur_part. sst. rewrite Hc. cbn [rev app pev_of flat_map pev_of1]. rewrite app_nil_r. reflexivity.
Qed.

Section Order.
  Variable U : Type.
  Variable step : U -> st -> req * U.
  Variable enter : blk -> U -> U.
  Variable e : env.
  Variable G : U -> Prop.     (* an invariant of the program's own state under which it makes only neutral requests *)
  Hypothesis Hneutral : forall u s, G u -> neutral (fst (step u s)) /\ G (snd (step u s)).
  Hypothesis Henter : forall b u, G u -> G (enter b u).

  Lemma exec_all_advances fuel rules has_end u s : G u ->
    fin_R U (advances e) G s (exec_all U step enter e fuel rules has_end u s).
  Proof.
    apply (exec_all_lift U step enter e (advances e) neutral).
    - apply advances_refl.
    - apply advances_trans.
    - intros r s0 s' HQ HP. eapply prim_advances; eassumption.
    - intros n s0. apply (advances_quiet e _ _ [EvExit n]); reflexivity.
    - intros s0 res s' HN Hun. eapply next_line_advances; eassumption.
    - apply drop_file_advances.
    - intros l s0. apply (advances_quiet e _ _ []); reflexivity.
    - intros o s0. apply (advances_quiet e _ _ []); reflexivity.
    - exact Hneutral.
    - exact Henter.
  Qed.

  Lemma main_loop_advances fuel n rules flags u s : G u ->
    lres_R U (advances e) G s (main_loop U step enter e fuel n rules flags u s).
  Proof.
    apply (main_loop_lift U step enter e (advances e) neutral).
    - apply advances_refl.
    - apply advances_trans.
    - intros r s0 s' HQ HP. eapply prim_advances; eassumption.
    - intros k s0. apply (advances_quiet e _ _ [EvExit k]); reflexivity.
    - intros s0 res s' HN Hun. eapply next_line_advances; eassumption.
    - apply drop_file_advances.
    - intros l s0. apply (advances_quiet e _ _ []); reflexivity.
    - intros o s0. apply (advances_quiet e _ _ []); reflexivity.
    - exact Hneutral.
    - exact Henter.
  Qed.

  Lemma run_advances fuel u s o u' s' : G u ->
    run U step e fuel u s = ROk o u' s' -> advances e s s' /\ G u'.
  Proof.
    apply (run_lift U step e (advances e) neutral).
    - apply advances_refl.
    - apply advances_trans.
    - intros r s0 s1 HQ HP. eapply prim_advances; eassumption.
    - intros k s0. apply (advances_quiet e _ _ [EvExit k]); reflexivity.
    - exact Hneutral.
  Qed.

  (* when execActions returns because the input is exhausted, nothing is left in the plan *)
  Lemma main_loop_exhausts fuel rules : forall n flags u s u' s' fl',
    main_loop U step enter e fuel n rules flags u s = LCont u' s' fl' -> plan e s' = [].
  Proof.
    induction n as [|n IH]; intros flags u s u' s' fl' H; cbn [main_loop] in H; [discriminate|].
    destruct (next_line e s) as [res s1] eqn:HN.
    destruct res as [r| | | |]; try discriminate.
    - destruct (exec_rules U step enter e fuel rules 0 [] flags u (set_line e r s1)) as [| |u2 s2 fl2|o u2 s2]; try discriminate.
      eapply IH; exact H.
    - injection H as _ <- _. eapply next_line_eof_plan; exact HN.
  Qed.
End Order.

(* ---------- the plan of the initial state, as a function of the operand list ---------- *)

Fixpoint plan_ops (e : env) (ops : list bytes) (hd : bool) (sin : list record) : list pev :=
  match ops with
  | [] => if hd then [] else PFile b_dash :: map (PRec b_dash) sin
  | name :: ops' =>
      match (if noargvars e then None else parse_assign name) with
      | Some (v, raw) =>
          match operand_value raw with
          | None => []
          | Some val => if assign_ok v val then PAssign v val :: plan_ops e ops' hd sin else []
          end
      | None =>
          match name with
          | [] => plan_ops e ops' hd sin
          | _ =>
            if bytes_eqb name b_dash then PFile b_dash :: map (PRec b_dash) sin ++ plan_ops e ops' true []
            else match blookup (fs e) name with
                 | None => PBad name :: plan_ops e ops' hd sin
                 | Some recs => PFile name :: map (PRec name) recs ++ plan_ops e ops' true sin
                 end
          end
      end
  end.

Lemma zlookup_number_from_lt {A} : forall (l : list A) i k, k < i -> zlookup (number_from i l) k = None.
Proof.
  induction l as [|x l IH]; intros i k H; cbn [number_from zlookup]; [reflexivity|].
  destruct (i =? k) eqn:E; [apply Z.eqb_eq in E; lia|]. apply IH. lia.
Qed.

Lemma planF_ops e : forall ops i hd sin av,
  (forall k, i <= k -> zlookup av k = zlookup (number_from i ops) k) ->
  planF e av (i + zlen ops) i hd sin = plan_ops e ops hd sin.
Proof.
  induction ops as [|op ops IH]; intros i hd sin av Hav; rewrite planF_unfold.
  - rewrite zlen_nil. replace (i + 0 <=? i) with true by (symmetry; apply Z.leb_le; lia).
    cbn [plan_ops]. destruct hd; reflexivity.
  - rewrite zlen_cons. pose proof (zlen_nonneg ops).
    replace (i + (1 + zlen ops) <=? i) with false by (symmetry; apply Z.leb_gt; lia).
    cbn [andb]. cbn zeta.
    rewrite (Hav i) by lia. cbn [number_from zlookup]. rewrite Z.eqb_refl.
    assert (Hav' : forall k, i + 1 <= k -> zlookup av k = zlookup (number_from (i + 1) ops) k).
    { intros k Hk. rewrite Hav by lia. cbn [number_from zlookup].
      destruct (i =? k) eqn:E; [apply Z.eqb_eq in E; lia|reflexivity]. }
    replace (i + (1 + zlen ops)) with ((i + 1) + zlen ops) by lia.
    cbn [plan_ops].
    destruct (if noargvars e then None else parse_assign op) as [[v raw]|].
    { destruct (operand_value raw) as [val|]; [|reflexivity].
      destruct (assign_ok v val); [|reflexivity]. f_equal. apply IH; exact Hav'. }
    destruct op as [|c0 op'].
    { apply IH; exact Hav'. }
    destruct (bytes_eqb (c0 :: op') b_dash).
    { f_equal. f_equal. apply IH; exact Hav'. }
    destruct (blookup (fs e) (c0 :: op')).
    + f_equal. f_equal. apply IH; exact Hav'.
    + f_equal. apply IH; exact Hav'.
Qed.

Lemma plan_init e a0 args sin : plan e (init_st a0 args sin) = plan_ops e args false sin.
Proof.
  unfold plan, cur_part, init_st. sst. cbn [app].
  apply planF_ops.
  intros k Hk. cbn [zlookup]. destruct (0 =? k) eqn:E; [apply Z.eqb_eq in E; lia|reflexivity].
Qed.

(* ---------- (2) NR, FNR, FILENAME, exit status, variables as functions of the history ---------- *)

Definition nr_ev (x : Z) (v : ev) : Z :=
  match v with
  | EvRec _ _ => x + 1
  | EvAssign n val => if bytes_eqb n b_NR then match parse_canon_nat val with Some z => z | None => x end else x
  | EvSetNR z => z
  | _ => x
  end.

Definition fnr_ev (x : Z) (v : ev) : Z :=
  match v with
  | EvRec _ _ => x + 1
  | EvSetFile _ => 0
  | EvAssign n val =>
      if bytes_eqb n b_NR then x
      else if bytes_eqb n b_FNR then match parse_canon_nat val with Some z => z | None => x end else x
  | EvSetFNR z => z
  | _ => x
  end.

Definition fname_ev (x : bytes) (v : ev) : bytes :=
  match v with EvSetFile n => n | _ => x end.

Definition status_ev (x : Z) (v : ev) : Z :=
  match v with EvExit n => n | _ => x end.

Definition vars_ev (e : env) (x : list (bytes * bytes)) (v : ev) : list (bytes * bytes) :=
  match v with
  | EvAssign n val =>
      if bytes_eqb n b_NR then x else if bytes_eqb n b_FNR then x
      else if all_upper n then x else if bmem n (globals e) then bupdate x n val else x
  | EvSetVar n val => bupdate x n val
  | EvGetVar n val => bupdate x n val
  | _ => x
  end.

Definition obs : Type := (Z * Z * bytes * Z * list (bytes * bytes))%type.
Definition obs_of (s : st) : obs := (NR s, FNR s, FILENAME s, status s, vars s).
Definition obs_ev (e : env) (o : obs) (v : ev) : obs :=
  let '(nr, fnr, fn, stt, vs) := o in (nr_ev nr v, fnr_ev fnr v, fname_ev fn v, status_ev stt v, vars_ev e vs v).

(* [s'] is reached from [s] and its observables are those of [s] updated by the new events *)
Definition tracks (e : env) (s s' : st) : Prop :=
  exists new, log s' = new ++ log s /\ obs_of s' = fold_left (obs_ev e) (rev new) (obs_of s).

Lemma tracks_refl e s : tracks e s s.
Proof. exists []. split; reflexivity. Qed.

Lemma tracks_trans e a b c : tracks e a b -> tracks e b c -> tracks e a c.
Proof.
  intros (n1 & L1 & O1) (n2 & L2 & O2). exists (n2 ++ n1). split.
  - rewrite L2, L1, app_assoc. reflexivity.
  - rewrite rev_app_distr, fold_left_app, <- O1. exact O2.
Qed.

Lemma tracks_same e s s' : log s' = log s -> obs_of s' = obs_of s -> tracks e s s'.
Proof. intros HL HO. exists []. split; [exact HL|exact HO]. Qed.

Lemma tracks_one e s s' v : log s' = v :: log s -> obs_of s' = obs_ev e (obs_of s) v -> tracks e s s'.
Proof. intros HL HO. exists [v]. split; [exact HL|exact HO]. Qed.

Lemma set_var_by_name_obs e v val s s2 :
  set_var_by_name e v val s = Some s2 -> obs_of s2 = obs_ev e (obs_of s) (EvAssign v val).
Proof.
  unfold set_var_by_name, obs_of, obs_ev, nr_ev, fnr_ev, fname_ev, status_ev, vars_ev. intros H.
  destruct (bytes_eqb v b_NR).
  { destruct (parse_canon_nat val); [|discriminate]. injection H as <-. reflexivity. }
  destruct (bytes_eqb v b_FNR).
  { destruct (parse_canon_nat val); [|discriminate]. injection H as <-. reflexivity. }
  destruct (all_upper v); [discriminate|].
  destruct (bmem v (globals e)); injection H as <-; reflexivity.
Qed.

Lemma deliver_tracks e name r rest s res s' : deliver name r rest s = (res, s') -> tracks e s s'.
Proof. unfold deliver. intros H. injection H as _ <-. apply (tracks_one e _ _ (EvRec name r)); reflexivity. Qed.

Lemma set_file_tracks e name s : tracks e s (set_file name s).
Proof. apply (tracks_one e _ _ (EvSetFile name)); reflexivity. Qed.

Lemma walk_tracks e : forall n s res s', walk e n s = (res, s') -> tracks e s s'.
Proof.
  induction n as [|n IH]; intros s res s' Hw; cbn [walk] in Hw.
  - destruct ((argc s <=? idx s) && negb (had s)).
    + destruct (stdin (set_file b_dash s)).
      * injection Hw as _ <-. apply set_file_tracks.
      * eapply tracks_trans; [apply set_file_tracks|].
        eapply tracks_trans; [|eapply deliver_tracks; exact Hw]. apply tracks_same; reflexivity.
    + destruct (argc s <=? idx s); injection Hw as _ <-; apply tracks_refl.
  - destruct ((argc s <=? idx s) && negb (had s)).
    + destruct (stdin (set_file b_dash s)).
      * injection Hw as _ <-. apply set_file_tracks.
      * eapply tracks_trans; [apply set_file_tracks|].
        eapply tracks_trans; [|eapply deliver_tracks; exact Hw]. apply tracks_same; reflexivity.
    + destruct (argc s <=? idx s). { injection Hw as _ <-; apply tracks_refl. }
      cbn zeta in Hw.
      assert (H1 : tracks e s (set_idx (idx s + 1) s)) by (apply tracks_same; reflexivity).
      destruct (if noargvars e then None else parse_assign (argv_get s (idx s))) as [[v raw]|].
      { destruct (unescape raw) as [uv| |].
        - destruct (set_var_by_name e v uv (set_idx (idx s + 1) s)) as [s2|] eqn:Hsv.
          + apply IH in Hw. eapply tracks_trans; [exact H1|]. eapply tracks_trans; [|exact Hw].
            pose proof (set_var_by_name_obs _ _ _ _ _ Hsv) as HO.
            apply set_var_by_name_some in Hsv as (_ & _ & _ & _ & _ & _ & _ & HL & _).
            apply (tracks_one e _ _ (EvAssign v uv)); [sst; rewrite HL; reflexivity|exact HO].
          + injection Hw as _ <-. exact H1.
        - destruct (set_var_by_name e v raw (set_idx (idx s + 1) s)) as [s2|] eqn:Hsv.
          + apply IH in Hw. eapply tracks_trans; [exact H1|]. eapply tracks_trans; [|exact Hw].
            pose proof (set_var_by_name_obs _ _ _ _ _ Hsv) as HO.
            apply set_var_by_name_some in Hsv as (_ & _ & _ & _ & _ & _ & _ & HL & _).
            apply (tracks_one e _ _ (EvAssign v raw)); [sst; rewrite HL; reflexivity|exact HO].
          + injection Hw as _ <-. exact H1.
        - injection Hw as _ <-. exact H1. }
      destruct (argv_get s (idx s)) as [|c0 nm].
      { apply IH in Hw. eapply tracks_trans; eassumption. }
      destruct (bytes_eqb (c0 :: nm) b_dash).
      { destruct (stdin (set_file b_dash (set_idx (idx s + 1) s))).
        - apply IH in Hw. eapply tracks_trans; [exact H1|]. eapply tracks_trans; [apply set_file_tracks|exact Hw].
        - eapply tracks_trans; [exact H1|]. eapply tracks_trans; [apply set_file_tracks|].
          eapply tracks_trans; [|eapply deliver_tracks; exact Hw]. apply tracks_same; reflexivity. }
      destruct (blookup (fs e) (c0 :: nm)) as [[|r0 rest]|].
      * apply IH in Hw. eapply tracks_trans; [exact H1|]. eapply tracks_trans; [apply set_file_tracks|exact Hw].
      * eapply tracks_trans; [exact H1|]. eapply tracks_trans; [apply set_file_tracks|]. eapply deliver_tracks; exact Hw.
      * injection Hw as _ <-. eapply tracks_trans; [exact H1|].
        apply (tracks_one e _ _ (EvNoFile (c0 :: nm))); reflexivity.
Qed.

Lemma next_line_tracks e s res s' : next_line e s = (res, s') -> tracks e s s'.
Proof.
  unfold next_line. intros H.
  destruct (cur s) as [[name [|r rest]]|].
  - apply walk_tracks in H. eapply tracks_trans; [|exact H]. apply tracks_same; reflexivity.
  - eapply deliver_tracks; exact H.
  - apply walk_tracks in H. eapply tracks_trans; [|exact H]. apply tracks_same; reflexivity.
Qed.

Lemma store_tracks e tg r l s s' : store e tg r l s = Some s' -> tracks e s s'.
Proof.
  unfold store. destruct (r =? 1).
  - destruct tg as [|v|n]; intros H.
    + injection H as <-. apply tracks_same; reflexivity.
    + injection H as <-. apply (tracks_one e _ _ (EvGetVar v l)); reflexivity.
    + apply set_field_quiet in H as (H0 & _ & _ & _ & _ & _ & _ & H1 & H2 & H3 & H4 & H5).
      apply tracks_same; [exact H0|]. unfold obs_of. rewrite H1, H2, H3, H4, H5. reflexivity.
  - intros H; injection H as <-. apply tracks_refl.
Qed.

Lemma scan_rd_tracks e name recs s r l s' : scan_rd name recs s = (r, l, s') -> tracks e s s'.
Proof.
  intros H. apply scan_rd_quiet in H as (H0 & _ & _ & _ & _ & _ & _ & H1 & H2 & H3 & H4 & H5 & _).
  apply tracks_same; [exact H0|]. unfold obs_of. rewrite H1, H2, H3, H4, H5. reflexivity.
Qed.

Lemma rd_read_tracks e sr s r l s1 : rd_read e sr s = Some (r, l, s1) -> tracks e s s1.
Proof.
  intros H. destruct sr as [|f|c]; cbn [rd_read] in H.
  - destruct (next_line e s) as [res s'] eqn:HN. apply next_line_tracks in HN.
    destruct res; try discriminate; injection H as _ _ <-; exact HN.
  - destruct (blookup (rd s) f) as [recs|]. { injection H as H. eapply scan_rd_tracks; exact H. }
    destruct (bytes_eqb f b_dash).
    + destruct (rdstdin s) as [[|r0 rest]|].
      * injection H as _ _ <-. apply tracks_refl.
      * injection H as _ _ <-. apply tracks_same; reflexivity.
      * destruct (stdin s); injection H as _ _ <-; apply tracks_same; reflexivity.
    + destruct (blookup (fs e) f) as [recs|].
      * injection H as H. eapply scan_rd_tracks; exact H.
      * injection H as _ _ <-. apply tracks_refl.
  - destruct (blookup (rd s) c) as [recs|]. { injection H as H. eapply scan_rd_tracks; exact H. }
    destruct (blookup (cmds e) c) as [recs|]; [|discriminate].
    injection H as H. eapply scan_rd_tracks; exact H.
Qed.

Lemma prim_tracks e r s s' : prim e r s = Some s' -> tracks e s s'.
Proof.
  intros H. destruct r; cbn [prim] in H; try (injection H as <-; apply tracks_refl).
  - apply do_getline_split in H as (r & l & s1 & HR & HS).
    eapply tracks_trans; [eapply rd_read_tracks; exact HR|].
    eapply tracks_trans; [|eapply store_tracks; exact HS]. apply tracks_same; reflexivity.
  - injection H as <-. apply tracks_same; reflexivity.
  - injection H as <-. apply tracks_same; reflexivity.
  - injection H as <-. apply (tracks_one e _ _ (EvSetNR z)); reflexivity.
  - injection H as <-. apply (tracks_one e _ _ (EvSetFNR z)); reflexivity.
  - injection H as <-. apply tracks_same; reflexivity.
  - injection H as <-. apply tracks_same; reflexivity.
  - injection H as <-. apply tracks_same; reflexivity.
  - injection H as <-. apply (tracks_one e _ _ (EvSetVar name val)); reflexivity.
  - injection H as <-. apply tracks_same; reflexivity.
Qed.

Lemma drop_file_tracks e s : tracks e s (drop_file s).
Proof.
  unfold drop_file. destruct (cur s) as [[name rest]|]; [|apply tracks_refl].
  apply (tracks_one e _ _ (EvSkip name rest)); reflexivity.
Qed.

Section Counters.
  Variable U : Type.
  Variable step : U -> st -> req * U.
  Variable enter : blk -> U -> U.
  Variable e : env.

  Lemma exec_all_tracks fuel rules has_end u s :
    fin_R U (tracks e) (fun _ => True) s (exec_all U step enter e fuel rules has_end u s).
  Proof.
    apply (exec_all_lift U step enter e (tracks e) (fun _ => True)); try (intros; exact I).
    - apply tracks_refl.
    - apply tracks_trans.
    - intros r s0 s' _ HP. eapply prim_tracks; exact HP.
    - intros n s0. apply (tracks_one e _ _ (EvExit n)); reflexivity.
    - intros s0 res s' HN _. eapply next_line_tracks; exact HN.
    - apply drop_file_tracks.
    - intros l s0. apply tracks_same; reflexivity.
    - intros o s0. apply tracks_same; reflexivity.
    - intros; split; exact I.
  Qed.

  Lemma run_tracks fuel u s o u' s' : run U step e fuel u s = ROk o u' s' -> tracks e s s'.
  Proof.
    intros H.
    apply (run_lift U step e (tracks e) (fun _ => True) (tracks_refl e) (tracks_trans e)) with (G := fun _ => True) in H.
    - tauto.
    - intros r s0 s1 _ HP. eapply prim_tracks; exact HP.
    - intros n s0. apply (tracks_one e _ _ (EvExit n)); reflexivity.
    - intros; split; exact I.
    - exact I.
  Qed.
End Counters.
