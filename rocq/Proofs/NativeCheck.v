(* C17: what checkNativeFunc accepts and rejects; the parse-time arity check. *)
From Verif Require Import Lib.Base Lib.Dyadic Model.Native Gen.Keywords.

(* The model's keyword table is the repository's (Gen/Keywords.v is regenerated from
   lexer/token.go on every check). *)
Theorem keywords_table_agrees : keywords = go_keywords.
Proof. reflexivity. Qed.

(* ---- the documented kinds ---- *)
Inductive documented : ty -> Prop :=
| doc_bool d : documented (TBool d)
| doc_int w d : documented (TInt w d)
| doc_uint w d : documented (TUint w d)
| doc_f32 d : documented (TFloat32 d)
| doc_f64 d : documented (TFloat64 d)
| doc_string d : documented (TString d)
| doc_bytes e d : kind_of e = KUint W8 -> documented (TSlice e d).

Lemma is_uint8_kind_iff k : is_uint8_kind k = true <-> k = KUint W8.
Proof. destruct k as [|w|w| | | | |]; try destruct w; cbn; split; intros H; congruence. Qed.

Theorem valid_native_type_iff t : valid_native_type t = true <-> documented t.
Proof.
  split.
  - destruct t; cbn [valid_native_type kind_of]; intros H; try discriminate; try constructor.
    apply is_uint8_kind_iff. exact H.
  - intros H. destruct H; cbn [valid_native_type kind_of]; try reflexivity.
    apply is_uint8_kind_iff. assumption.
Qed.

(* ---- signatures as reflect presents them ---- *)
(* reflect guarantees: IsVariadic() implies the last parameter is a slice type *)
Definition wf_sig (s : sig) : Prop :=
  variadic s = true -> exists front e d, params s = front ++ [TSlice e d].

(* the types the arguments are converted to: the last one replaced by its element if variadic *)
Fixpoint eff_var (ps : list ty) : list ty :=
  match ps with
  | [] => []
  | [p] => [match p with TSlice e _ => e | _ => TOther end]
  | p :: rest => p :: eff_var rest
  end.

Definition eff_params (s : sig) : list ty :=
  if variadic s then eff_var (params s) else params s.

Lemma eff_var_cons p l : l <> [] -> eff_var (p :: l) = p :: eff_var l.
Proof. destruct l; [congruence|reflexivity]. Qed.

Lemma eff_var_snoc front e d : eff_var (front ++ [TSlice e d]) = front ++ [e].
Proof.
  induction front as [|p front IH]; [reflexivity|].
  change ((p :: front) ++ [TSlice e d]) with (p :: (front ++ [TSlice e d])).
  rewrite eff_var_cons; [rewrite IH; reflexivity|].
  destruct front; discriminate.
Qed.

Lemma eff_params_len s : wf_sig s -> zlen (eff_params s) = zlen (params s).
Proof.
  intros W. unfold eff_params. destruct (variadic s) eqn:V; [|reflexivity].
  destruct (W V) as (front & e & d & ->). rewrite eff_var_snoc, !zlen_app. reflexivity.
Qed.

Definition results_ok (rs : list ty) : bool :=
  match rs with
  | [] => true
  | [r] => valid_native_type r
  | [r; e] => valid_native_type r && ty_eqb e TError
  | _ => false
  end.

Definition acceptable_sig (s : sig) : bool :=
  forallb valid_native_type (eff_params s) && results_ok (results s).

(* the documented shape: not a keyword, a function, documented kinds, (result[, error]) *)
Definition acceptable (name : bytes) (f : fval) : bool :=
  negb (is_keyword name) &&
  match f with FFunc s _ => acceptable_sig s | _ => false end.

(* position of the first type that is not a documented kind *)
Fixpoint first_invalid (i : Z) (l : list ty) : option Z :=
  match l with
  | [] => None
  | t :: rest => if valid_native_type t then first_invalid (i + 1) rest else Some i
  end.

Lemma first_invalid_none i l : first_invalid i l = None <-> forallb valid_native_type l = true.
Proof.
  revert i. induction l as [|t l IH]; intros i; cbn [first_invalid forallb]; [tauto|].
  destruct (valid_native_type t); cbn [andb]; [apply IH|split; discriminate].
Qed.

Lemma first_invalid_range i l j : first_invalid i l = Some j -> i <= j < i + zlen l.
Proof.
  revert i. induction l as [|t l IH]; intros i; cbn [first_invalid]; [discriminate|].
  rewrite zlen_cons. pose proof (zlen_nonneg l) as Hl.
  destruct (valid_native_type t).
  - intros Hf. apply IH in Hf. lia.
  - intros [= <-]. lia.
Qed.

Definition param_err (o : option Z) : option setup_err :=
  match o with Some j => Some (EParam j) | None => None end.

Lemma check_params_nonvar n ps : forall i,
  check_params false n i ps = NOk (param_err (first_invalid i ps)).
Proof.
  induction ps as [|p ps IH]; intros i; cbn [check_params first_invalid]; [reflexivity|].
  cbn [andb nbind]. destruct (valid_native_type p); [apply IH|reflexivity].
Qed.

Lemma check_params_var e d front : forall n i,
  n = i + zlen front + 1 ->
  check_params true n i (front ++ [TSlice e d]) = NOk (param_err (first_invalid i (front ++ [e]))).
Proof.
  induction front as [|p front IH]; intros n i Hn.
  - cbn [app check_params first_invalid]. rewrite zlen_nil in Hn.
    replace (i =? n - 1) with true by (symmetry; apply Z.eqb_eq; lia).
    cbn [andb elem nbind]. destruct (valid_native_type e); reflexivity.
  - change ((p :: front) ++ [TSlice e d]) with (p :: (front ++ [TSlice e d])).
    change ((p :: front) ++ [e]) with (p :: (front ++ [e])).
    cbn [check_params first_invalid]. rewrite zlen_cons in Hn. pose proof (zlen_nonneg front).
    replace (i =? n - 1) with false by (symmetry; apply Z.eqb_neq; lia).
    cbn [andb nbind]. destruct (valid_native_type p); [|reflexivity].
    apply IH. lia.
Qed.

Lemma check_params_spec s : wf_sig s ->
  check_params (variadic s) (zlen (params s)) 0 (params s) = NOk (param_err (first_invalid 0 (eff_params s))).
Proof.
  intros W. unfold eff_params. destruct (variadic s) eqn:V.
  - destruct (W V) as (front & e & d & E). rewrite E, eff_var_snoc.
    apply check_params_var. rewrite zlen_app. cbn. lia.
  - apply check_params_nonvar.
Qed.

Lemma check_results_none rs : check_results rs = None <-> results_ok rs = true.
Proof.
  destruct rs as [|r [|e [|x rs]]]; cbn [check_results results_ok].
  - tauto.
  - destruct (valid_native_type r); split; congruence.
  - destruct (valid_native_type r); cbn [negb andb]; [|split; congruence].
    destruct (ty_eqb e TError); cbn [negb]; split; congruence.
  - split; discriminate.
Qed.

(* The complete description of checkNativeFunc on a function value. *)
Theorem check_native_func_spec name s b : wf_sig s ->
  check_native_func name (FFunc s b) =
  NOk (if is_keyword name then Some EKeyword
       else match first_invalid 0 (eff_params s) with
            | Some j => Some (EParam j)
            | None => check_results (results s)
            end).
Proof.
  intros W. unfold check_native_func. destruct (is_keyword name); [reflexivity|].
  rewrite (check_params_spec s W). cbn [nbind].
  destruct (first_invalid 0 (eff_params s)); reflexivity.
Qed.

(* accepted exactly when of the documented shape; never a panic on a function value *)
Theorem check_accepts_iff name s b : wf_sig s ->
  (check_native_func name (FFunc s b) = NOk None <-> acceptable name (FFunc s b) = true).
Proof.
  intros W. rewrite (check_native_func_spec name s b W). unfold acceptable, acceptable_sig.
  destruct (is_keyword name); cbn [negb andb]; [split; discriminate|].
  destruct (first_invalid 0 (eff_params s)) as [j|] eqn:E.
  - assert (F : forallb valid_native_type (eff_params s) = false).
    { destruct (forallb valid_native_type (eff_params s)) eqn:F; [|reflexivity].
      apply (first_invalid_none 0) in F. congruence. }
    rewrite F. cbn [andb]. split; discriminate.
  - apply first_invalid_none in E. rewrite E. cbn [andb].
    split; intros H.
    + apply check_results_none. congruence.
    + f_equal. apply check_results_none. exact H.
Qed.

Definition wf_fval (f : fval) : Prop :=
  match f with FFunc s _ => wf_sig s | _ => True end.

(* invalid_rejected: every value that is not of the documented shape (nil and non-functions
   included) gets an error, not a panic *)
Theorem invalid_rejected name f : wf_fval f ->
  acceptable name f = false -> exists e, check_native_func name f = NOk (Some e).
Proof.
  intros W A. destruct f as [| |s b].
  - unfold check_native_func. destruct (is_keyword name); eexists; reflexivity.
  - unfold check_native_func. destruct (is_keyword name); eexists; reflexivity.
  - cbn [wf_fval] in W.
    destruct (check_native_func name (FFunc s b)) as [[e|]|k] eqn:E.
    + exists e; reflexivity.
    + apply (check_accepts_iff name s b W) in E. congruence.
    + rewrite (check_native_func_spec name s b W) in E. discriminate.
Qed.

Theorem keyword_rejected name f : is_keyword name = true -> check_native_func name f = NOk (Some EKeyword).
Proof. intros K. unfold check_native_func. rewrite K. reflexivity. Qed.

Theorem param_error_index name s b j : wf_sig s -> is_keyword name = false ->
  check_native_func name (FFunc s b) = NOk (Some (EParam j)) ->
  0 <= j < zlen (params s) /\ first_invalid 0 (eff_params s) = Some j.
Proof.
  intros W K. rewrite (check_native_func_spec name s b W), K.
  destruct (first_invalid 0 (eff_params s)) as [i|] eqn:E.
  - intros [= <-]. split; [|reflexivity]. apply first_invalid_range in E.
    rewrite (eff_params_len s W) in E. lia.
  - intros H. injection H as H. destruct (results s) as [|r [|e [|x rs]]]; cbn [check_results] in H.
    + discriminate.
    + destruct (valid_native_type r); discriminate.
    + destruct (valid_native_type r); cbn [negb] in H; [|discriminate].
      destruct (ty_eqb e TError); discriminate.
    + discriminate.
Qed.

(* ---- initNativeFuncs's first loop ---- *)
Lemma check_all_ok funcs :
  (forall n f, In (n, f) funcs -> wf_fval f) ->
  exists r, check_all funcs = NOk r /\
    match r with
    | None => forall n f, In (n, f) funcs -> acceptable n f = true
    | Some (n, e) => exists f, In (n, f) funcs /\ acceptable n f = false /\ check_native_func n f = NOk (Some e)
    end.
Proof.
  induction funcs as [|[n f] rest IH]; intros H.
  - exists None. split; [reflexivity|]. intros ? ? [].
  - cbn [check_all]. pose proof (H n f (or_introl eq_refl)) as W.
    destruct (acceptable n f) eqn:A.
    + assert (E : check_native_func n f = NOk None).
      { destruct f as [| |s b].
        - unfold acceptable in A. rewrite andb_false_r in A. discriminate.
        - unfold acceptable in A. rewrite andb_false_r in A. discriminate.
        - apply check_accepts_iff; assumption. }
      rewrite E. cbn [nbind].
      destruct IH as (r & Er & Hr); [intros n' f' Hin; apply (H n' f'); right; exact Hin|].
      exists r. split; [exact Er|]. destruct r as [[n' e']|].
      * destruct Hr as (f' & Hin & Hr). exists f'. split; [right; exact Hin|exact Hr].
      * intros n' f' [[= <- <-]|Hin]; [exact A|apply Hr; exact Hin].
    + destruct (invalid_rejected n f W A) as (e & E). rewrite E. cbn [nbind].
      exists (Some (n, e)). split; [reflexivity|]. exists f. repeat split; try assumption. left; reflexivity.
Qed.

(* ---- the parse-time check ---- *)
Theorem too_many_args_is_parse_error funcs awk name s b nargs :
  mem_bytes name awk = false -> lookup name funcs = Some (FFunc s b) ->
  variadic s = false -> zlen (params s) < nargs ->
  resolve_call funcs awk name nargs = NOk (Some PTooMany).
Proof.
  intros A L V H. unfold resolve_call. rewrite A, L, V.
  destruct (zlen (params s) <? nargs) eqn:E; [reflexivity|apply Z.ltb_ge in E; lia].
Qed.

Theorem resolve_call_passes funcs awk name nargs :
  mem_bytes name awk = false -> resolve_call funcs awk name nargs = NOk None ->
  exists s b, lookup name funcs = Some (FFunc s b) /\
              (if variadic s then nargs <= 1000000000 else nargs <= zlen (params s)).
Proof.
  intros A. unfold resolve_call. rewrite A.
  destruct (lookup name funcs) as [[| |s b]|]; try discriminate.
  destruct (variadic s) eqn:V.
  - destruct (1000000000 <? nargs) eqn:E; [discriminate|]. apply Z.ltb_ge in E.
    intros _. exists s, b. rewrite V. split; [reflexivity|exact E].
  - destruct (zlen (params s) <? nargs) eqn:E; [discriminate|]. apply Z.ltb_ge in E.
    intros _. exists s, b. rewrite V. split; [reflexivity|exact E].
Qed.

(* the parse-time check never panics, whatever the map holds *)
Theorem resolve_call_no_panic funcs awk name nargs :
  exists r, resolve_call funcs awk name nargs = NOk r.
Proof.
  unfold resolve_call. destruct (mem_bytes name awk); [eexists; reflexivity|].
  destruct (lookup name funcs) as [[| |s b]|] eqn:L; try (eexists; reflexivity).
  destruct (_ <? nargs); eexists; reflexivity.
Qed.

(* calling a value that is not a function is a parse error *)
Theorem not_a_function_is_parse_error funcs awk name nargs f :
  mem_bytes name awk = false -> lookup name funcs = Some f -> (forall s b, f <> FFunc s b) ->
  resolve_call funcs awk name nargs = NOk (Some PNotFunc).
Proof.
  intros A L H. unfold resolve_call. rewrite A, L. destruct f as [| |s b]; try reflexivity.
  exfalso. exact (H s b eq_refl).
Qed.
