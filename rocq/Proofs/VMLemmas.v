(* C01: one-step unfolding of the VM at a known instruction, and fuel monotonicity. *)
From Verif Require Import Lib.Base Model.Ast Model.Instr Model.Compiler Model.Prims Model.VM Proofs.CodeAt.

Section VMLemmas.
  Variables value St err : Type.
  Variable P : prims value St err.
  Variable F : list cfunc.

  Notation run := (run P F).
  Notation step := (step P F).
  Notation mstate := (mstate value St).

  Lemma run_S k C ip stk m :
    run (S k) C ip stk m =
    match step C ip stk m with
    | ANext ip' stk' m' => run k C ip' stk' m'
    | AStop r => r
    | AForIn vsc vi keys body ipa stk0 m0 =>
        (fix loop (ks : list value) (stk : list value) (m : mstate) : vres value St err :=
           match ks with
           | [] => run k C ipa stk m
           | key :: ks' =>
               match var_write P m vsc vi key with
               | WStuck => VStuck
               | WErr e m1 => VAbort (XError e) m1
               | WOk m1 =>
                   match run k body 0 stk m1 with
                   | VDone stk' m2 => loop ks' stk' m2
                   | VBrk stk' m2 => run k C ipa stk' m2
                   | other => other
                   end
               end
           end) keys stk0 m0
    | ACall fn m1 saved ipa stk0 =>
        let finish := fun (v : value) (stk' : list value) (m2 : mstate) =>
          match pop_n (Z.to_nat (cf_nscalars fn)) stk' [] with
          | Some (_, t) => run k C ipa (v :: t) (restore P saved m2)
          | None => VStuck
          end in
        match run k (cf_body fn) 0 stk0 m1 with
        | VDone stk' m2 => finish (p_null P) stk' m2
        | VRet v stk' m2 => finish v stk' m2
        | VBrk stk' m2 => VBrk stk' (restore P saved m2)
        | VAbort x m2 => VAbort x (restore P saved m2)
        | VStuck => VStuck
        | VFuel => VFuel
        end
    end.
  Proof. reflexivity. Qed.

  (* ---- the step at a known instruction ---- *)

  Lemma step_at C p i c stk m :
    code_at C p (i :: c) ->
    step C p stk m =
    (let ip' := p + isize i in
     match i with
     | IJump off => ANext (ip' + off) stk m
     | IJumpFalse off =>
         match stk with
         | v :: t => ANext (if p_to_bool P v then ip' else ip' + off) t m
         | _ => AStop VStuck end
     | IJumpTrue off =>
         match stk with
         | v :: t => ANext (if p_to_bool P v then ip' + off else ip') t m
         | _ => AStop VStuck end
     | IJumpCmp c0 off =>
         match stk with
         | r :: l :: t => ANext (if p_cmpj P c0 (ms m) l r then ip' + off else ip') t m
         | _ => AStop VStuck end
     | INext => AStop (VAbort XNext m)
     | INextfile => AStop (VAbort XNextfile m)
     | IExit => AStop (VAbort XExit m)
     | IExitStatus =>
         match stk with
         | v :: _ => AStop (VAbort XExit (with_ms m (p_set_exit P (ms m) v)))
         | _ => AStop VStuck end
     | IBreakForIn => AStop (VBrk stk m)
     | IReturn => match stk with v :: t => AStop (VRet v t m) | _ => AStop VStuck end
     | IReturnNull => AStop (VRet (p_null P) stk m)
     | IForIn vsc vi asc ai off =>
         match sub_code C ip' off with
         | None => AStop VStuck
         | Some body => AForIn vsc vi (p_array_keys P (ms m) asc ai) body (ip' + off) stk m
         end
     | ICallUser fi arrs =>
         if fi <? 0 then AStop VStuck else
         match nth_error F (Z.to_nat fi) with
         | None => AStop VStuck
         | Some fn =>
           if Gen.Consts.maxCallDepth <=? depth m then AStop (VAbort (XError (p_err_depth P fi)) m) else
           match pop_n (Z.to_nat (cf_nscalars fn)) stk [] with
           | None => AStop VStuck
           | Some (args, _) =>
               ACall fn {| ms := p_push_arrays P (ms m) arrs (cf_narrays fn); frame := args; depth := depth m + 1 |}
                     m ip' stk
           end
         end
     | _ =>
         match exec_simple P i stk m with
         | SOk stk' m' => ANext ip' stk' m'
         | SErr e m' => AStop (VAbort (XError e) m')
         | SStuck => AStop VStuck
         end
     end).
  Proof.
    intros H. unfold VM.step.
    pose proof (code_at_lt _ _ _ _ H) as Hlt.
    destruct (csize C <=? p) eqn:E; [apply Z.leb_le in E; lia|].
    rewrite (code_at_fetch _ _ _ _ H). reflexivity.
  Qed.

  Lemma step_simple C p i c stk m :
    code_at C p (i :: c) -> is_control i = false ->
    step C p stk m =
    match exec_simple P i stk m with
    | SOk stk' m' => ANext (p + isize i) stk' m'
    | SErr e m' => AStop (VAbort (XError e) m')
    | SStuck => AStop VStuck
    end.
  Proof.
    intros H Hc. rewrite (step_at _ _ _ _ stk m H). destruct i; try discriminate Hc; reflexivity.
  Qed.

  Lemma step_end C p stk m : csize C <= p -> step C p stk m = AStop (VDone stk m).
  Proof.
    intros H. unfold VM.step. destruct (csize C <=? p) eqn:E; [reflexivity|apply Z.leb_gt in E; lia].
  Qed.

  Lemma run_end k C p stk m : csize C <= p -> run (S k) C p stk m = VDone stk m.
  Proof. intros H. rewrite run_S, step_end by exact H. reflexivity. Qed.

  (* ---- fuel monotonicity ---- *)

  Lemma run_mono : forall k C ip stk m r,
    run k C ip stk m = r -> r <> VFuel -> forall k', (k <= k')%nat -> run k' C ip stk m = r.
  Proof.
    induction k as [|k IH]; intros C ip stk m r Hr Hnf k' Hle.
    - cbn in Hr. congruence.
    - destruct k' as [|k']; [lia|]. assert (Hle' : (k <= k')%nat) by lia.
      rewrite run_S in Hr. rewrite run_S.
      destruct (step C ip stk m) as [ip' stk' m'|r0|vsc vi keys body ipa stk0 m0|fn m1 saved ipa stk0].
      + eapply IH; eassumption.
      + exact Hr.
      + (* for-in: induction over the keys *)
        clear stk m. revert stk0 m0 Hr.
        induction keys as [|key ks IHk]; intros stk0 m0 Hr.
        * eapply IH; eassumption.
        * destruct (var_write P m0 vsc vi key) as [m1|e m1|]; try exact Hr.
          destruct (VM.run P F k body 0 stk0 m1) as [stk' m2|v stk' m2|stk' m2|x m2| |] eqn:Eb.
          -- rewrite (IH _ _ _ _ _ Eb ltac:(discriminate) _ Hle'). apply IHk. exact Hr.
          -- rewrite (IH _ _ _ _ _ Eb ltac:(discriminate) _ Hle'). exact Hr.
          -- rewrite (IH _ _ _ _ _ Eb ltac:(discriminate) _ Hle'). eapply IH; eassumption.
          -- rewrite (IH _ _ _ _ _ Eb ltac:(discriminate) _ Hle'). exact Hr.
          -- rewrite (IH _ _ _ _ _ Eb ltac:(discriminate) _ Hle'). exact Hr.
          -- subst r. congruence.
      + cbv zeta in Hr |- *.
        destruct (VM.run P F k (cf_body fn) 0 stk0 m1) as [stk' m2|v stk' m2|stk' m2|x m2| |] eqn:Eb.
        * rewrite (IH _ _ _ _ _ Eb ltac:(discriminate) _ Hle').
          destruct (pop_n (Z.to_nat (cf_nscalars fn)) stk' []) as [[a t]|]; [|exact Hr].
          eapply IH; eassumption.
        * rewrite (IH _ _ _ _ _ Eb ltac:(discriminate) _ Hle').
          destruct (pop_n (Z.to_nat (cf_nscalars fn)) stk' []) as [[a t]|]; [|exact Hr].
          eapply IH; eassumption.
        * rewrite (IH _ _ _ _ _ Eb ltac:(discriminate) _ Hle'). exact Hr.
        * rewrite (IH _ _ _ _ _ Eb ltac:(discriminate) _ Hle'). exact Hr.
        * rewrite (IH _ _ _ _ _ Eb ltac:(discriminate) _ Hle'). exact Hr.
        * subst r. congruence.
  Qed.

End VMLemmas.
