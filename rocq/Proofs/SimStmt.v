(* C01: simulation, statements and loops. *)
From Verif Require Import Lib.Base Lib.Dyadic Model.Ast Model.Instr Model.Compiler Model.Prims Model.VM Model.AstSem
  Proofs.CodeAt Proofs.VMLemmas Proofs.Reach Proofs.PrimsOk Proofs.CompLemmas Proofs.SimDefs Proofs.SimExpr
  Proofs.AstSemEq.

Section SimStmt.
  Variables value St err : Type.
  Variable P : prims value St err.
  Variable FN : list func.
  Hypothesis OK : prims_ok P.
  Hypothesis CI : concat_indep P.

  Notation F := (F FN).
  Notation reaches := (reaches P F).
  Notation stops := (stops P F).
  Notation Sim := (Sim P FN).
  Notation mstate := (mstate value St).

  (* outcome of a statement as seen from the VM: current stack s, statement-entry stack base *)
  Definition spost (l : lctx) (C : code) (p : Z) (s : list value) (m : mstate) (e_ : Z) (base : list value)
             (r : xres value St err) : Prop :=
    match r with
    | RNormal m' => reaches C p s m e_ base m'
    | RBreak m' =>
        match l with
        | LLoop bd _ => reaches C p s m (e_ + bd) base m'
        | LForIn _ => stops C p s m (VBrk base m')
        | LNone => True
        end
    | RContinue m' =>
        match l with
        | LLoop _ cd | LForIn cd => reaches C p s m (e_ + cd) base m'
        | LNone => True
        end
    | RReturn v m' => stops C p s m (VRet v base m')
    | RAbort x m' => stops C p s m (VAbort x m')
    | _ => True
    end.

  Lemma stmt_post_spost l C p stk m e_ r : stmt_post P FN l C p stk m e_ r = spost l C p stk m e_ stk r.
  Proof. reflexivity. Qed.

  Lemma spost_reaches l C p s m p1 s1 m1 e_ base r :
    reaches C p s m p1 s1 m1 -> spost l C p1 s1 m1 e_ base r -> spost l C p s m e_ base r.
  Proof.
    intros Hr Hp.
    destruct r as [m'|m'|m'|v m'|x m'| |]; cbn [spost] in *; try exact I;
      try (eapply reaches_trans; eassumption);
      try (eapply reaches_stops; [eassumption|eassumption|discriminate]).
    - destruct l; try exact I; [eapply reaches_stops; [eassumption|eassumption|discriminate]|eapply reaches_trans; eassumption].
    - destruct l; try exact I; eapply reaches_trans; eassumption.
  Qed.

  Lemma spost_pos l C p p' s m e_ base r : p' = p -> spost l C p s m e_ base r -> spost l C p' s m e_ base r.
  Proof. intros ->. exact (fun x => x). Qed.
  Lemma spost_end l C p s m e_ e' base r : e_ = e' -> spost l C p s m e_ base r -> spost l C p s m e' base r.
  Proof. intros ->. exact (fun x => x). Qed.

  Lemma spost_simple l C p i c s m s' m' e_ base r :
    code_at C p (i :: c) -> is_control i = false -> exec_simple P i s m = SOk s' m' ->
    (code_at C (p + isize i) c -> spost l C (p + isize i) s' m' e_ base r) ->
    spost l C p s m e_ base r.
  Proof.
    intros H Hc He Hk. eapply spost_reaches; [eapply reaches_simple; eassumption|].
    apply Hk. eapply code_at_tail. exact H.
  Qed.

  Lemma spost_simple_err l C p i c s m e m' e_ base :
    code_at C p (i :: c) -> is_control i = false -> exec_simple P i s m = SErr e m' ->
    spost l C p s m e_ base (RAbort (XError e) m').
  Proof. intros H Hc He. cbn [spost]. eapply stops_simple_err; eassumption. Qed.

  Lemma spost_done l C p s m e_ base : p = e_ -> s = base -> spost l C p s m e_ base (RNormal m).
  Proof. intros -> ->. cbn [spost]. apply reaches_refl. Qed.

  Lemma spost_bind_expr l n (SE : SimExpr P FN n) e m C p s rest e_ base (K : value -> mstate -> xres value St err) :
    code_at C p (comp_expr e ++ rest) ->
    (forall v m1, code_at C (p + csize (comp_expr e)) rest ->
                  spost l C (p + csize (comp_expr e)) (v :: s) m1 e_ base (K v m1)) ->
    spost l C p s m e_ base (sbind (eval P FN n e m) K).
  Proof.
    intros Hc HK. apply code_at_app in Hc as [Ha Hb].
    pose proof (SE e m C p s Ha) as H.
    destruct (eval P FN n e m) as [v m1|x m1| |]; cbn [sbind]; try exact I.
    - eapply spost_reaches; [exact H|]. apply HK. exact Hb.
    - exact H.
  Qed.

  Lemma spost_bind_exprs l n (SEs : SimExprs P FN n) es m C p s rest e_ base (K : list value -> mstate -> xres value St err) :
    code_at C p (comp_exprs es ++ rest) ->
    (forall vs m1, zlen vs = exprs_len es -> code_at C (p + csize (comp_exprs es)) rest ->
                   spost l C (p + csize (comp_exprs es)) (rev vs ++ s) m1 e_ base (K vs m1)) ->
    spost l C p s m e_ base (sbind (eval_exprs P FN n es m) K).
  Proof.
    intros Hc HK. apply code_at_app in Hc as [Ha Hb].
    pose proof (SEs es m C p s Ha) as H.
    destruct (eval_exprs P FN n es m) as [vs m1|x m1| |]; cbn [sbind]; try exact I.
    - destruct H as [H Hl]. eapply spost_reaches; [exact H|]. apply HK; assumption.
    - exact H.
  Qed.

  Lemma spost_bind_index l n (SI : SimIndex P FN n) es m C p s rest e_ base (K : value -> mstate -> xres value St err) :
    code_at C p (comp_index es ++ rest) ->
    (forall key key' m1, keq P key key' -> code_at C (p + csize (comp_index es)) rest ->
                   spost l C (p + csize (comp_index es)) (key' :: s) m1 e_ base (K key m1)) ->
    spost l C p s m e_ base (sbind (eval_index P FN n es m) K).
  Proof.
    intros Hc HK. apply code_at_app in Hc as [Ha Hb].
    pose proof (SI es m C p s Ha) as H.
    destruct (eval_index P FN n es m) as [key m1|x m1| |]; cbn [sbind]; try exact I.
    - destruct H as (key' & Hk & H). eapply spost_reaches; [exact H|]. eapply HK; eassumption.
    - exact H.
  Qed.

  (* an expression result used as a statement outcome *)
  Lemma spost_of_post l C p s m e_ base (r : eres value St err value) (K : value -> mstate -> xres value St err) p1 :
    post P FN C p s m p1 base r ->
    (forall v m', spost l C p1 (v :: base) m' e_ base (K v m')) ->
    spost l C p s m e_ base (sbind r K).
  Proof.
    intros Hp HK. destruct r as [v m'|x m'| |]; cbn [sbind post] in *; try exact I.
    - eapply spost_reaches; [exact Hp|apply HK].
    - exact Hp.
  Qed.

  (* storing into an evaluated target (lv_set): core fact shared by expression and statement position *)
  Lemma write_core {A} lv r r' (a : A) m v C p s rest :
    lv_ref lv r -> ref_eq P r r' -> code_at C p (lv_set lv ++ rest) ->
    match lref_write P a m r v with
    | ENormal a' m' => a' = a /\ reaches C p (ref_stack r' (v :: s)) m (p + csize (lv_set lv)) s m'
    | EAbort x m' => stops C p (ref_stack r' (v :: s)) m (VAbort x m')
    | _ => True
    end.
  Proof.
    intros Hlr Hre Hc.
    destruct lv as [sc i|e|sc i idx], r as [sc1 i1|idx1|sc1 i1 k1]; cbn [lv_ref] in Hlr; try contradiction;
      destruct r' as [sc2 i2|idx2|sc2 i2 k2]; cbn [ref_eq] in Hre; try contradiction;
      cbn [lv_set lref_write ref_stack] in *.
    - destruct Hlr as [<- <-]. destruct Hre as [<- <-].
      apply code_at_app in Hc as [Ha Hb].
      pose proof (@var_set_exec _ _ _ P sc i v s m) as He.
      destruct (var_write P m sc i v) as [m'|e0 m'|] eqn:Ew; cbn [of_w lift_w] in *; try exact I.
      + split; [reflexivity|]. eapply reaches_cast; [eapply reaches_simple; [exact Ha|apply var_set_simple|exact He]|].
        cbn [csize]. lia.
      + eapply stops_simple_err; [exact Ha|apply var_set_simple|exact He].
    - subst idx2. apply code_at_app in Hc as [Ha Hb].
      destruct (p_set_field P (ms m) idx1 v) as [s0 [u|e0]] eqn:Es.
      + split; [reflexivity|]. eapply reaches_cast; [eapply reaches_simple; [exact Ha|reflexivity|cbn [exec_simple]; rewrite Es; reflexivity]|].
        cbn [csize isize]. lia.
      + eapply stops_simple_err; [exact Ha|reflexivity|cbn [exec_simple]; rewrite Es; reflexivity].
    - destruct Hlr as [<- <-]. destruct Hre as (<- & <- & Hk).
      destruct Hk as (_ & Hset & _). rewrite (Hset (ms m) sc i).
      apply code_at_app in Hc as [Ha Hb].
      split; [reflexivity|]. eapply reaches_cast; [eapply reaches_simple; [exact Ha|reflexivity|reflexivity]|].
      cbn [csize isize]. lia.
  Qed.

  Notation SimStmt := (SimStmt P FN).
  Notation SimStmts := (SimStmts P FN).

  Ltac pos_eq := unfold comp_expr, comp_cat, comp_index; cbn [lv_get lv_set lv_code comp_assign_rote]; rewrite ?csize_app; cbn [csize]; rewrite ?var_get_size, ?var_set_size; cbn [isize]; lia.
  Ltac sone := eapply spost_simple; [eassumption|reflexivity|cbn [exec_simple]; reflexivity|intro].
  Ltac sone_with E := eapply spost_simple; [eassumption|reflexivity|cbn [exec_simple]; rewrite ?E; reflexivity|intro].
  Ltac serr_with E := eapply spost_simple_err; [eassumption|reflexivity|cbn [exec_simple]; rewrite ?E; reflexivity].
  Ltac sdone := apply spost_done; [pos_eq|reflexivity].

  (* value of x++ / x-- / ++x / --x as computed by the expression path = what Incr* stores *)
  Lemma incr_pre decr old : p_arith P (incr_arith decr) old (p_num P one_bits) = EOk (p_incr P (incr_amount decr) old).
  Proof. destruct decr; cbn [incr_arith incr_amount]; [apply (ok_incr_sub OK)|apply (ok_incr_add OK)]. Qed.
  Lemma incr_post decr old :
    p_arith P (incr_arith decr) (p_plus P old) (p_num P one_bits) = EOk (p_incr P (incr_amount decr) old).
  Proof. rewrite incr_pre, (ok_incr_plus OK). reflexivity. Qed.

  (* ---- expression statements, with the three shortcuts ---- *)
  Lemma sim_expr_stmt n (HS : forall k, (k <= n)%nat -> Sim k) l e m C p stk :
    code_at C p (comp_expr_stmt e) ->
    spost l C p stk m (p + csize (comp_expr_stmt e)) stk (sbind (eval P FN n e m) (fun _ m1 => RNormal m1)).
  Proof.
    intros Hc.
    assert (Hgen : code_at C p (comp_expr e ++ [IDrop]) ->
              spost l C p stk m (p + csize (comp_expr e ++ [IDrop])) stk (sbind (eval P FN n e m) (fun _ m1 => RNormal m1))).
    { intros Hc'. destruct (HS n (Nat.le_refl n)) as (SE & _).
      eapply spost_bind_expr; [exact SE|exact Hc'|intros v m1 Hr]. sone. sdone. }
    destruct e; try (apply Hgen; exact Hc).
    - (* x = e *)
      destruct n as [|n']; [exact I|]. destruct (HS n' (Nat.le_succ_diag_r n')) as (SE & _ & _ & _ & SL & _).
      cbn [comp_expr_stmt] in Hc |- *. rewrite comp_assign_eq in Hc |- *. rewrite eval_assign.
      apply code_at_app in Hc as [Hr0 Hc].
      pose proof (SE e m C p stk Hr0) as H1.
      destruct (eval P FN n' e m) as [v m1|x m1| |]; cbn [ebind sbind]; try exact I; [|exact H1].
      eapply spost_reaches; [exact H1|].
      pose proof Hc as Hc0. apply code_at_app in Hc as [Hl Hs].
      pose proof (SL lv m1 C _ (v :: stk) Hl) as H2.
      destruct (eval_lref P FN n' lv m1) as [r m2|x m2| |]; cbn [ebind sbind]; try exact I; [|exact H2].
      destruct H2 as (r' & Hlr & Hre & H2). eapply spost_reaches; [exact H2|].
      rewrite <- (app_nil_r (lv_set lv)) in Hs.
      pose proof (write_core lv r r' v m2 v _ _ stk [] Hlr Hre Hs) as H3.
      destruct (lref_write P v m2 r v) as [a' m3|x m3| |]; cbn [sbind]; try exact I; [|exact H3].
      destruct H3 as [_ H3]. eapply spost_reaches; [exact H3|]. sdone.
    - (* x op= e *)
      destruct n as [|n']; [exact I|]. destruct (HS n' (Nat.le_succ_diag_r n')) as (SE & _ & _ & SI & SL & _).
      cbn [comp_expr_stmt] in Hc |- *. rewrite eval_augassign.
      apply code_at_app in Hc as [Hr0 Hc].
      pose proof (SE e m C p stk Hr0) as H1.
      destruct (eval P FN n' e m) as [rv m1|x m1| |]; cbn [ebind sbind]; try exact I; [|exact H1].
      eapply spost_reaches; [exact H1|].
      destruct lv as [sc i|e1|sc i idx].
      + (* variable *)
        destruct n' as [|n'']; [exact I|]. rewrite eval_lref_var. cbn [ebind lref_read].
        destruct sc; cbn [var_read var_aug] in *.
        * destruct (frame_get m1 i) as [old|] eqn:Ef; cbn [ebind sbind]; [|exact I].
          rewrite <- (ok_aug OK).
          destruct (p_aug P op old rv) as [nv|e0] eqn:Ea; cbn [of_pure_er ebind sbind lref_write].
          -- destruct (var_write P m1 SLocal i nv) as [m'|e0 m'|] eqn:Ew; cbn [of_w sbind]; try exact I.
             ++ eapply spost_simple; [exact Hc|reflexivity|cbn [exec_simple]; rewrite Ef, Ea; rewrite Ew; reflexivity|intros _]. sdone.
             ++ eapply spost_simple_err; [exact Hc|reflexivity|cbn [exec_simple]; rewrite Ef, Ea; rewrite Ew; reflexivity].
          -- eapply spost_simple_err; [exact Hc|reflexivity|cbn [exec_simple]; rewrite Ef, Ea; reflexivity].
        * destruct (p_get_special P (ms m1) i) as [s0 old] eqn:Eg; cbn [ebind sbind].
          rewrite <- (ok_aug OK).
          destruct (p_aug P op old rv) as [nv|e0] eqn:Ea; cbn [of_pure_er ebind sbind lref_write].
          -- destruct (var_write P (with_ms m1 s0) SSpecial i nv) as [m'|e0 m'|] eqn:Ew; cbn [of_w sbind]; try exact I.
             ++ eapply spost_simple; [exact Hc|reflexivity|cbn [exec_simple]; rewrite Eg, Ea, Ew; reflexivity|intros _]. sdone.
             ++ eapply spost_simple_err; [exact Hc|reflexivity|cbn [exec_simple]; rewrite Eg, Ea, Ew; reflexivity].
          -- eapply spost_simple_err; [exact Hc|reflexivity|cbn [exec_simple]; rewrite Eg, Ea; reflexivity].
        * cbn [ebind sbind]. rewrite <- (ok_aug OK).
          destruct (p_aug P op (p_get_global P (ms m1) i) rv) as [nv|e0] eqn:Ea; cbn [of_pure_er ebind sbind lref_write of_w var_write].
          -- eapply spost_simple; [exact Hc|reflexivity|cbn [exec_simple]; rewrite Ea; reflexivity|intros _]. sdone.
          -- eapply spost_simple_err; [exact Hc|reflexivity|cbn [exec_simple]; rewrite Ea; reflexivity].
      + (* field *)
        pose proof (SL (LField e1) m1 C _ (rv :: stk) ltac:(cbn [lv_code]; eapply code_at_app_l; exact Hc)) as H2.
        apply code_at_app_r in Hc.
        destruct (eval_lref P FN n' (LField e1) m1) as [r m2|x m2| |]; cbn [ebind sbind]; try exact I; [|exact H2].
        destruct H2 as (r' & Hlr & Hre & H2). eapply spost_reaches; [exact H2|].
        destruct r as [? ?|idx0|? ? ?]; destruct r' as [? ?|idx'|? ? ?]; cbn [lv_ref ref_eq] in Hlr, Hre; try contradiction.
        subst idx'. cbn [ref_stack lref_read lv_code] in *.
        destruct (p_get_field P (ms m2) idx0) as [s0 old] eqn:Eg; cbn [ebind sbind].
        rewrite <- (ok_aug OK).
        destruct (p_aug P op old rv) as [nv|e0] eqn:Ea; cbn [of_pure_er ebind sbind lref_write].
        * destruct (p_set_field P (ms (with_ms m2 s0)) idx0 nv) as [s1 [u|e0]] eqn:Es; cbn [sbind].
          -- eapply spost_simple; [exact Hc|reflexivity|cbn [exec_simple]; rewrite Eg, Ea; cbn [ms with_ms] in Es; rewrite Es; reflexivity|intros _]. sdone.
          -- eapply spost_simple_err; [exact Hc|reflexivity|cbn [exec_simple]; rewrite Eg, Ea; cbn [ms with_ms] in Es; rewrite Es; reflexivity].
        * eapply spost_simple_err; [exact Hc|reflexivity|cbn [exec_simple]; rewrite Eg, Ea; reflexivity].
      + (* array element *)
        pose proof (SL (LIndex sc i idx) m1 C _ (rv :: stk) ltac:(cbn [lv_code]; eapply code_at_app_l; exact Hc)) as H2.
        apply code_at_app_r in Hc.
        destruct (eval_lref P FN n' (LIndex sc i idx) m1) as [r m2|x m2| |]; cbn [ebind sbind]; try exact I; [|exact H2].
        destruct H2 as (r' & Hlr & Hre & H2). eapply spost_reaches; [exact H2|].
        destruct r as [? ?|?|scr ir kr]; destruct r' as [? ?|?|sc' i' k']; cbn [lv_ref ref_eq] in Hlr, Hre; try contradiction.
        destruct Hlr as [<- <-]. destruct Hre as (<- & <- & Hk). destruct Hk as (Hget & Hset & _).
        cbn [ref_stack lref_read lv_code] in *. rewrite (Hget (ms m2) sc i).
        destruct (p_array_get P (ms m2) sc i k') as [s0 old] eqn:Eg; cbn [ebind sbind].
        rewrite <- (ok_aug OK).
        destruct (p_aug P op old rv) as [nv|e0] eqn:Ea; cbn [of_pure_er ebind sbind lref_write].
        * rewrite (Hset (ms (with_ms m2 s0)) sc i).
          eapply spost_simple; [exact Hc|reflexivity|cbn [exec_simple]; rewrite Eg, Ea; reflexivity|intros _]. sdone.
        * eapply spost_simple_err; [exact Hc|reflexivity|cbn [exec_simple]; rewrite Eg, Ea; reflexivity].
    - (* x++ and friends *)
      destruct n as [|n']; [exact I|]. destruct (HS n' (Nat.le_succ_diag_r n')) as (SE & _ & _ & SI & SL & _).
      cbn [comp_expr_stmt] in Hc |- *. rewrite eval_incr.
      assert (Hval : forall old mm (K : value -> mstate -> eres value St err value),
                ebind (if pre
                       then ebind (of_pure_er mm (p_arith P (incr_arith decr) old (p_num P one_bits))) K
                       else ebind (of_pure_er mm (p_arith P (incr_arith decr) (p_plus P old) (p_num P one_bits))) K)
                      (fun a m' => ENormal a m') =
                K (p_incr P (incr_amount decr) old) mm).
      { intros old mm K. destruct pre; [rewrite incr_pre|rewrite incr_post]; cbn [of_pure_er ebind]; apply ebind_ret. }
      destruct lv as [sc i|e1|sc i idx].
      + destruct n' as [|n'']; [exact I|]. rewrite eval_lref_var. cbn [ebind lref_read].
        destruct sc; cbn [var_read var_incr] in *.
        * destruct (frame_get m i) as [old|] eqn:Ef; cbn [ebind sbind]; [|exact I].
          assert (Hw : forall a : value, sbind (lref_write P a m (RVar SLocal i) (p_incr P (incr_amount decr) old)) (fun _ m1 => RNormal m1) =
                       match var_write P m SLocal i (p_incr P (incr_amount decr) old) with
                       | WOk m' => RNormal m' | WErr e0 m' => RAbort (XError e0) m' | WStuck => RWrong end).
          { intros a. cbn [lref_write]. destruct (var_write P m SLocal i _); reflexivity. }
          destruct pre; [rewrite incr_pre|rewrite incr_post]; cbn [of_pure_er ebind]; rewrite Hw;
            (destruct (var_write P m SLocal i (p_incr P (incr_amount decr) old)) as [m'|e0 m'|] eqn:Ew; try exact I;
             [eapply spost_simple; [exact Hc|reflexivity|cbn [exec_simple]; rewrite Ef; rewrite Ew; reflexivity|intros _]; sdone
             |eapply spost_simple_err; [exact Hc|reflexivity|cbn [exec_simple]; rewrite Ef; rewrite Ew; reflexivity]]).
        * destruct (p_get_special P (ms m) i) as [s0 old] eqn:Eg; cbn [ebind sbind].
          assert (Hw : forall a : value, sbind (lref_write P a (with_ms m s0) (RVar SSpecial i) (p_incr P (incr_amount decr) old)) (fun _ m1 => RNormal m1) =
                       match var_write P (with_ms m s0) SSpecial i (p_incr P (incr_amount decr) old) with
                       | WOk m' => RNormal m' | WErr e0 m' => RAbort (XError e0) m' | WStuck => RWrong end).
          { intros a. cbn [lref_write]. destruct (var_write P (with_ms m s0) SSpecial i _); reflexivity. }
          destruct pre; [rewrite incr_pre|rewrite incr_post]; cbn [of_pure_er ebind]; rewrite Hw;
            (destruct (var_write P (with_ms m s0) SSpecial i (p_incr P (incr_amount decr) old)) as [m'|e0 m'|] eqn:Ew; try exact I;
             [eapply spost_simple; [exact Hc|reflexivity|cbn [exec_simple]; rewrite Eg, Ew; reflexivity|intros _]; sdone
             |eapply spost_simple_err; [exact Hc|reflexivity|cbn [exec_simple]; rewrite Eg, Ew; reflexivity]]).
        * cbn [ebind sbind].
          destruct pre; [rewrite incr_pre|rewrite incr_post]; cbn [of_pure_er ebind lref_write of_w var_write sbind];
            (eapply spost_simple; [exact Hc|reflexivity|reflexivity|intros _]; sdone).
      + pose proof (SL (LField e1) m C p stk ltac:(cbn [lv_code]; eapply code_at_app_l; exact Hc)) as H2.
        apply code_at_app_r in Hc.
        destruct (eval_lref P FN n' (LField e1) m) as [r m2|x m2| |]; cbn [ebind sbind]; try exact I; [|exact H2].
        destruct H2 as (r' & Hlr & Hre & H2). eapply spost_reaches; [exact H2|].
        destruct r as [? ?|idx0|? ? ?]; destruct r' as [? ?|idx'|? ? ?]; cbn [lv_ref ref_eq] in Hlr, Hre; try contradiction.
        subst idx'. cbn [ref_stack lref_read lv_code] in *.
        destruct (p_get_field P (ms m2) idx0) as [s0 old] eqn:Eg; cbn [ebind sbind].
        destruct pre; [rewrite incr_pre|rewrite incr_post]; cbn [of_pure_er ebind lref_write];
          (destruct (p_set_field P (ms (with_ms m2 s0)) idx0 (p_incr P (incr_amount decr) old)) as [s1 [u|e0]] eqn:Es; cbn [sbind];
           [eapply spost_simple; [exact Hc|reflexivity|cbn [exec_simple]; rewrite Eg; cbn [ms with_ms] in Es; rewrite Es; reflexivity|intros _]; sdone
           |eapply spost_simple_err; [exact Hc|reflexivity|cbn [exec_simple]; rewrite Eg; cbn [ms with_ms] in Es; rewrite Es; reflexivity]]).
      + pose proof (SL (LIndex sc i idx) m C p stk ltac:(cbn [lv_code]; eapply code_at_app_l; exact Hc)) as H2.
        apply code_at_app_r in Hc.
        destruct (eval_lref P FN n' (LIndex sc i idx) m) as [r m2|x m2| |]; cbn [ebind sbind]; try exact I; [|exact H2].
        destruct H2 as (r' & Hlr & Hre & H2). eapply spost_reaches; [exact H2|].
        destruct r as [? ?|?|scr ir kr]; destruct r' as [? ?|?|sc' i' k']; cbn [lv_ref ref_eq] in Hlr, Hre; try contradiction.
        destruct Hlr as [<- <-]. destruct Hre as (<- & <- & Hk). destruct Hk as (Hget & Hset & _).
        cbn [ref_stack lref_read lv_code] in *. rewrite (Hget (ms m2) sc i).
        destruct (p_array_get P (ms m2) sc i k') as [s0 old] eqn:Eg; cbn [ebind sbind].
        destruct pre; [rewrite incr_pre|rewrite incr_post]; cbn [of_pure_er ebind lref_write sbind];
          rewrite (Hset (ms (with_ms m2 s0)) sc i);
          (eapply spost_simple; [exact Hc|reflexivity|cbn [exec_simple]; rewrite Eg; reflexivity|intros _]; sdone).
  Qed.

  Lemma inl_shift l d : inl (shift l d) = inl l.
  Proof. destruct l; reflexivity. Qed.

  (* a statement compiled with the context shifted by d, followed by d more words *)
  Lemma spost_seq l d C p s m e1 e_ base r (K : mstate -> xres value St err) :
    e_ = e1 + d ->
    spost (shift l d) C p s m e1 base r ->
    (forall m', spost l C e1 base m' e_ base (K m')) ->
    spost l C p s m e_ base (match r with RNormal m1 => K m1 | other => other end).
  Proof.
    intros -> Hp HK.
    destruct r as [m'|m'|m'|v m'|x m'| |]; cbn [spost] in *; try exact I; try exact Hp.
    - eapply spost_reaches; [exact Hp|apply HK].
    - destruct l; cbn [shift] in *; try exact I; [exact Hp|]. eapply reaches_cast; [exact Hp|lia].
    - destruct l; cbn [shift] in *; try exact I; eapply reaches_cast; try exact Hp; lia.
  Qed.

  Lemma spost_same l C p s m e_ base r : spost l C p s m e_ base r ->
    spost l C p s m e_ base (match r with RNormal m1 => RNormal m1 | other => other end).
  Proof. destruct r; exact (fun x => x). Qed.

  (* the VM's for-in loop (run_S, AForIn arm) as a named function *)
  Fixpoint vm_forin (k : nat) (C body : code) (ipa : Z) (vsc : scope) (vi : Z)
           (ks : list value) (stk : list value) (m : mstate) : vres value St err :=
    match ks with
    | [] => run P F k C ipa stk m
    | key :: ks' =>
        match var_write P m vsc vi key with
        | WStuck => VStuck
        | WErr e m1 => VAbort (XError e) m1
        | WOk m1 =>
            match run P F k body 0 stk m1 with
            | VDone stk' m2 => vm_forin k C body ipa vsc vi ks' stk' m2
            | VBrk stk' m2 => run P F k C ipa stk' m2
            | other => other
            end
        end
    end.

  Lemma forin_loop_eq k C body ipa vsc vi ks : forall stk m,
    (fix loop (ks : list value) (stk : list value) (m : mstate) : vres value St err :=
       match ks with
       | [] => run P F k C ipa stk m
       | key :: ks' =>
           match var_write P m vsc vi key with
           | WStuck => VStuck
           | WErr e m1 => VAbort (XError e) m1
           | WOk m1 =>
               match run P F k body 0 stk m1 with
               | VDone stk' m2 => loop ks' stk' m2
               | VBrk stk' m2 => run P F k C ipa stk' m2
               | other => other
               end
           end
       end) ks stk m = vm_forin k C body ipa vsc vi ks stk m.
  Proof.
    induction ks as [|key ks IH]; intros stk m; [reflexivity|].
    cbn [vm_forin]. destruct (var_write P m vsc vi key); try reflexivity.
    destruct (run P F k body 0 stk m0); try reflexivity. apply IH.
  Qed.

  Lemma run_forin k C p stk m vsc vi keys body ipa :
    step P F C p stk m = AForIn vsc vi keys body ipa stk m ->
    run P F (S k) C p stk m = vm_forin k C body ipa vsc vi keys stk m.
  Proof. intros Hs. rewrite run_S, Hs. apply forin_loop_eq. Qed.

  Lemma vm_forin_mono k k' C body ipa vsc vi ks : forall stk m r,
    vm_forin k C body ipa vsc vi ks stk m = r -> r <> VFuel -> (k <= k')%nat ->
    vm_forin k' C body ipa vsc vi ks stk m = r.
  Proof.
    induction ks as [|key ks IH]; intros stk m r Hr Hf Hle; cbn [vm_forin] in *.
    - eapply run_mono; eassumption.
    - destruct (var_write P m vsc vi key) as [m1|e m1|]; try exact Hr.
      destruct (run P F k body 0 stk m1) as [stk' m2|v stk' m2|stk' m2|x m2| |] eqn:Eb.
      + rewrite (@run_mono _ _ _ P F _ _ _ _ _ _ Eb ltac:(discriminate) k' Hle). eapply IH; eassumption.
      + rewrite (@run_mono _ _ _ P F _ _ _ _ _ _ Eb ltac:(discriminate) k' Hle). exact Hr.
      + rewrite (@run_mono _ _ _ P F _ _ _ _ _ _ Eb ltac:(discriminate) k' Hle). eapply run_mono; eassumption.
      + rewrite (@run_mono _ _ _ P F _ _ _ _ _ _ Eb ltac:(discriminate) k' Hle). exact Hr.
      + rewrite (@run_mono _ _ _ P F _ _ _ _ _ _ Eb ltac:(discriminate) k' Hle). exact Hr.
      + subst r. congruence.
  Qed.

  (* for-in: the syntax-tree loop and the VM loop over the same key list *)
  Lemma forin_sim n (SSs : SimStmts n) C cb ipa vsc vi body stk :
    cb = comp_stmts (LForIn 0) body ->
    forall ks m,
    match forin_ast P FN n vsc vi body ks m with
    | RNormal m' => forall k r, run P F k C ipa stk m' = r -> final r ->
                      exists k', vm_forin k' C cb ipa vsc vi ks stk m = r
    | RReturn v m' => exists k', vm_forin k' C cb ipa vsc vi ks stk m = VRet v stk m'
    | RAbort x m' => exists k', vm_forin k' C cb ipa vsc vi ks stk m = VAbort x m'
    | _ => True
    end.
  Proof.
    intros Hcb. induction ks as [|key ks IH]; intros m; cbn [forin_ast vm_forin].
    - intros k r Hr _. exists k. exact Hr.
    - destruct (var_write P m vsc vi key) as [m1|e m1|]; try exact I; [|exists 0%nat; reflexivity].
      pose proof (SSs body (LForIn 0) m1 cb 0 stk ltac:(rewrite Hcb; apply code_at_whole)) as Hb.
      rewrite stmt_post_spost in Hb. cbn [inl] in Hb. rewrite <- Hcb in Hb.
      assert (Hdone : forall m2, reaches cb 0 stk m1 (0 + csize cb + 0) stk m2 -> exists kb, run P F kb cb 0 stk m1 = VDone stk m2).
      { intros m2 Hr. eapply reaches_stops; [exact Hr|apply stops_end; lia|discriminate]. }
      assert (Hnext : forall m2, (exists kb, run P F kb cb 0 stk m1 = VDone stk m2) ->
                match forin_ast P FN n vsc vi body ks m2 with
                | RNormal m' => forall k r, run P F k C ipa stk m' = r -> final r ->
                    exists k', match run P F k' cb 0 stk m1 with
                               | VDone stk' m3 => vm_forin k' C cb ipa vsc vi ks stk' m3
                               | VBrk stk' m3 => run P F k' C ipa stk' m3
                               | other => other end = r
                | RReturn v m' => exists k', match run P F k' cb 0 stk m1 with
                               | VDone stk' m3 => vm_forin k' C cb ipa vsc vi ks stk' m3
                               | VBrk stk' m3 => run P F k' C ipa stk' m3
                               | other => other end = VRet v stk m'
                | RAbort x m' => exists k', match run P F k' cb 0 stk m1 with
                               | VDone stk' m3 => vm_forin k' C cb ipa vsc vi ks stk' m3
                               | VBrk stk' m3 => run P F k' C ipa stk' m3
                               | other => other end = VAbort x m'
                | _ => True
                end).
      { intros m2 [kb Hkb]. specialize (IH m2).
        destruct (forin_ast P FN n vsc vi body ks m2) as [m'|m'|m'|v m'|x m'| |]; try exact I.
        - intros k r Hr Hf. destruct (IH k r Hr Hf) as [k1 Hk1].
          exists (Nat.max kb k1).
          rewrite (@run_mono _ _ _ P F _ _ _ _ _ _ Hkb ltac:(discriminate) _ (Nat.le_max_l kb k1)).
          eapply vm_forin_mono; [exact Hk1|exact Hf|apply Nat.le_max_r].
        - destruct IH as [k1 Hk1]. exists (Nat.max kb k1).
          rewrite (@run_mono _ _ _ P F _ _ _ _ _ _ Hkb ltac:(discriminate) _ (Nat.le_max_l kb k1)).
          eapply vm_forin_mono; [exact Hk1|discriminate|apply Nat.le_max_r].
        - destruct IH as [k1 Hk1]. exists (Nat.max kb k1).
          rewrite (@run_mono _ _ _ P F _ _ _ _ _ _ Hkb ltac:(discriminate) _ (Nat.le_max_l kb k1)).
          eapply vm_forin_mono; [exact Hk1|discriminate|apply Nat.le_max_r]. }
      destruct (exec_stmts P FN n true body m1) as [m2|m2|m2|v m2|x m2| |]; cbn [spost] in Hb; try exact I.
      + apply Hnext. apply Hdone. eapply reaches_cast; [exact Hb|lia].
      + (* break *)
        destruct Hb as [kb Hkb]. intros k r Hr Hf. exists (Nat.max kb k).
        rewrite (@run_mono _ _ _ P F _ _ _ _ _ _ Hkb ltac:(discriminate) _ (Nat.le_max_l kb k)).
        eapply run_mono; [exact Hr|exact Hf|apply Nat.le_max_r].
      + apply Hnext. apply Hdone. exact Hb.
      + destruct Hb as [kb Hkb]. exists kb. rewrite Hkb. reflexivity.
      + destruct Hb as [kb Hkb]. exists kb. rewrite Hkb. reflexivity.
  Qed.

  Notation SimLoop := (SimLoop P FN).
  Notation SimLoopTop := (SimLoopTop P FN).

  (* one iteration of a while / for loop after its test succeeded: body at pb, then the
     increment, arriving at the bottom test *)
  Lemma loop_iter n (HSn : Sim n) post body m1 C pb stk tail rest (K : mstate -> xres value St err) pend :
    let cpost := match post with OSnone => [] | OSsome s1 => comp_stmt LNone s1 end in
    let body_sz := csize (comp_stmts (LLoop 0 0) body) in
    code_at C pb (comp_stmts (LLoop tail 0) body ++ cpost ++ rest) ->
    pend = pb + body_sz + tail ->
    (forall m3, match K m3 with
                | RNormal m' => reaches C (pb + body_sz + csize cpost) stk m3 pend stk m'
                | RReturn v m' => stops C (pb + body_sz + csize cpost) stk m3 (VRet v stk m')
                | RAbort x m' => stops C (pb + body_sz + csize cpost) stk m3 (VAbort x m')
                | _ => True end) ->
    match (match exec_stmts P FN n true body m1 with
           | RNormal m2 | RContinue m2 =>
               match exec_ostmt P FN n post m2 with
               | RNormal m3 => K m3
               | RBreak _ | RContinue _ => RWrong
               | other => other
               end
           | RBreak m2 => RNormal m2
           | other => other
           end) with
    | RNormal m' => reaches C pb stk m1 pend stk m'
    | RReturn v m' => stops C pb stk m1 (VRet v stk m')
    | RAbort x m' => stops C pb stk m1 (VAbort x m')
    | _ => True
    end.
  Proof.
    intros cpost body_sz Hc Hpend HK.
    destruct HSn as (_ & _ & _ & _ & _ & _ & _ & SSt & SSs & _).
    apply code_at_app in Hc as [Hb Hc]. apply code_at_app in Hc as [Hp Hr].
    assert (Hsz : csize (comp_stmts (LLoop tail 0) body) = body_sz).
    { unfold body_sz. apply stmts_size_kind. exact I. }
    rewrite Hsz in Hp, Hr.
    pose proof (SSs body (LLoop tail 0) m1 C pb stk Hb) as H1. rewrite stmt_post_spost in H1. cbn [inl] in H1.
    rewrite Hsz in H1.
    (* the increment, from the end of the body *)
    assert (Hpost : forall m2, match (match exec_ostmt P FN n post m2 with
                                      | RNormal m3 => K m3
                                      | RBreak _ | RContinue _ => RWrong
                                      | other => other end) with
                | RNormal m' => reaches C (pb + body_sz) stk m2 pend stk m'
                | RReturn v m' => stops C (pb + body_sz) stk m2 (VRet v stk m')
                | RAbort x m' => stops C (pb + body_sz) stk m2 (VAbort x m')
                | _ => True end).
    { intros m2. destruct post as [|s1]; cbn [exec_ostmt].
      - specialize (HK m2). unfold cpost in HK. cbn [csize] in HK.
        replace (pb + body_sz + 0) with (pb + body_sz) in HK by lia. exact HK.
      - pose proof (SSt s1 LNone m2 C _ stk Hp) as H2. rewrite stmt_post_spost in H2. cbn [inl] in H2.
        destruct (exec P FN n false s1 m2) as [m3|m3|m3|v m3|x m3| |]; cbn [spost] in H2; try exact I; try exact H2.
        specialize (HK m3).
        destruct (K m3) as [m'|m'|m'|v m'|x m'| |]; try exact I.
        + eapply reaches_trans; [exact H2|exact HK].
        + eapply reaches_stops; [exact H2|exact HK|discriminate].
        + eapply reaches_stops; [exact H2|exact HK|discriminate]. }
    destruct (exec_stmts P FN n true body m1) as [m2|m2|m2|v m2|x m2| |]; cbn [spost] in H1; try exact I; try exact H1.
    - specialize (Hpost m2).
      destruct (match exec_ostmt P FN n post m2 with RNormal m3 => K m3 | RBreak _ | RContinue _ => RWrong | other => other end)
        as [m'|m'|m'|v m'|x m'| |]; try exact I.
      + eapply reaches_trans; [exact H1|exact Hpost].
      + eapply reaches_stops; [exact H1|exact Hpost|discriminate].
      + eapply reaches_stops; [exact H1|exact Hpost|discriminate].
    - eapply reaches_cast; [exact H1|lia].
    - specialize (Hpost m2).
      assert (H1' : reaches C pb stk m1 (pb + body_sz) stk m2) by (eapply reaches_cast; [exact H1|lia]).
      destruct (match exec_ostmt P FN n post m2 with RNormal m3 => K m3 | RBreak _ | RContinue _ => RWrong | other => other end)
        as [m'|m'|m'|v m'|x m'| |]; try exact I.
      + eapply reaches_trans; [exact H1'|exact Hpost].
      + eapply reaches_stops; [exact H1'|exact Hpost|discriminate].
      + eapply reaches_stops; [exact H1'|exact Hpost|discriminate].
  Qed.

  Lemma sim_loop_S n : Sim n -> SimLoop (S n).
  Proof.
    intros HSn. pose proof HSn as (SE & _ & _ & _ & _ & SC & _ & _ & _ & SLp & _).
    intros c post body m C pb stk cpost body_sz bot tail bot' Hc.
    rewrite exec_loop_S.
    pose proof Hc as Hc0. apply code_at_app_r in Hc0. apply code_at_app_r in Hc0.
    assert (Hsz : csize (comp_stmts (LLoop tail 0) body) = body_sz).
    { unfold body_sz. apply stmts_size_kind. exact I. }
    rewrite Hsz in Hc0. fold cpost in Hc0.
    assert (Hbot : csize bot' = csize bot).
    { unfold bot', bot. destruct c; [reflexivity|apply cond_size]. }
    (* after a successful test we are at pb *)
    assert (Hiter : forall m1,
              match (match exec_stmts P FN n true body m1 with
                     | RNormal m2 | RContinue m2 =>
                         match exec_ostmt P FN n post m2 with
                         | RNormal m3 => exec_loop P FN n c post body m3
                         | RBreak _ | RContinue _ => RWrong
                         | other => other
                         end
                     | RBreak m2 => RNormal m2
                     | other => other
                     end) with
              | RNormal m' => reaches C pb stk m1 (pb + body_sz + tail) stk m'
              | RReturn v m' => stops C pb stk m1 (VRet v stk m')
              | RAbort x m' => stops C pb stk m1 (VAbort x m')
              | _ => True
              end).
    { intros m1. eapply (@loop_iter n HSn post body m1 C pb stk tail bot'); [exact Hc|reflexivity|].
      intros m3. exact (SLp c post body m3 C pb stk Hc). }
    destruct c as [|ce]; cbn [test_cond sbind negb].
    - (* no condition: unconditional jump back *)
      specialize (Hiter m).
      assert (Hj : reaches C (pb + body_sz + csize cpost) stk m pb stk m).
      { eapply reaches_cast; [apply reaches_step; erewrite step_at by exact Hc0; reflexivity|].
        unfold tail, bot. cbn [csize isize]. lia. }
      destruct (match exec_stmts P FN n true body m with
                | RNormal m2 | RContinue m2 => match exec_ostmt P FN n post m2 with
                                               | RNormal m3 => exec_loop P FN n OEnone post body m3
                                               | RBreak _ | RContinue _ => RWrong | other => other end
                | RBreak m2 => RNormal m2 | other => other end) as [m'|m'|m'|v m'|x m'| |]; try exact I.
      + eapply reaches_trans; [exact Hj|exact Hiter].
      + eapply reaches_stops; [exact Hj|exact Hiter|discriminate].
      + eapply reaches_stops; [exact Hj|exact Hiter|discriminate].
    - pose proof (SC ce false (- (body_sz + tail)) m C _ stk Hc0) as H1.
      destruct (eval P FN n ce m) as [v m1|x m1| |]; cbn [ebind sbind]; try exact I; [|exact H1].
      cbv zeta in H1. rewrite xorb_false_r in H1.
      fold bot' in H1. rewrite Hbot in H1.
      destruct (p_to_bool P v); cbn [negb].
      + specialize (Hiter m1).
        assert (Hj : reaches C (pb + body_sz + csize cpost) stk m pb stk m1).
        { eapply reaches_cast; [exact H1|]. unfold tail. lia. }
        destruct (match exec_stmts P FN n true body m1 with
                  | RNormal m2 | RContinue m2 => match exec_ostmt P FN n post m2 with
                                                 | RNormal m3 => exec_loop P FN n (OEsome ce) post body m3
                                                 | RBreak _ | RContinue _ => RWrong | other => other end
                  | RBreak m2 => RNormal m2 | other => other end) as [m'|m'|m'|v' m'|x m'| |]; try exact I.
        * eapply reaches_trans; [exact Hj|exact Hiter].
        * eapply reaches_stops; [exact Hj|exact Hiter|discriminate].
        * eapply reaches_stops; [exact Hj|exact Hiter|discriminate].
      + eapply reaches_cast; [exact H1|]. unfold tail. lia.
  Qed.

  Lemma sim_looptop_S n : Sim n -> SimLoopTop (S n).
  Proof.
    intros HSn. pose proof HSn as (SE & _ & _ & _ & _ & SC & _ & _ & _ & SLp & _).
    intros c post body m C p stk cpost body_sz bot tail bot' top Hc.
    rewrite exec_loop_S.
    pose proof Hc as Hc0. apply code_at_app_r in Hc0.
    assert (Hiter : forall m1,
              match (match exec_stmts P FN n true body m1 with
                     | RNormal m2 | RContinue m2 =>
                         match exec_ostmt P FN n post m2 with
                         | RNormal m3 => exec_loop P FN n c post body m3
                         | RBreak _ | RContinue _ => RWrong
                         | other => other
                         end
                     | RBreak m2 => RNormal m2
                     | other => other
                     end) with
              | RNormal m' => reaches C (p + csize top) stk m1 (p + csize top + body_sz + tail) stk m'
              | RReturn v m' => stops C (p + csize top) stk m1 (VRet v stk m')
              | RAbort x m' => stops C (p + csize top) stk m1 (VAbort x m')
              | _ => True
              end).
    { intros m1. eapply (@loop_iter n HSn post body m1 C (p + csize top) stk tail bot'); [exact Hc0|reflexivity|].
      intros m3. exact (SLp c post body m3 C (p + csize top) stk Hc0). }
    destruct c as [|ce]; cbn [test_cond sbind negb].
    - specialize (Hiter m). unfold top in *. cbn [csize] in *.
      replace (p + 0) with p in * by lia. exact Hiter.
    - apply code_at_app_l in Hc.
      pose proof (SC ce true (body_sz + tail) m C p stk Hc) as H1.
      destruct (eval P FN n ce m) as [v m1|x m1| |]; cbn [ebind sbind]; try exact I; [|exact H1].
      cbv zeta in H1. rewrite xorb_true_r in H1. fold top in H1.
      destruct (p_to_bool P v); cbn [negb] in *.
      + specialize (Hiter m1).
        destruct (match exec_stmts P FN n true body m1 with
                  | RNormal m2 | RContinue m2 => match exec_ostmt P FN n post m2 with
                                                 | RNormal m3 => exec_loop P FN n (OEsome ce) post body m3
                                                 | RBreak _ | RContinue _ => RWrong | other => other end
                  | RBreak m2 => RNormal m2 | other => other end) as [m'|m'|m'|v' m'|x m'| |]; try exact I.
        * eapply reaches_trans; [exact H1|exact Hiter].
        * eapply reaches_stops; [exact H1|exact Hiter|discriminate].
        * eapply reaches_stops; [exact H1|exact Hiter|discriminate].
      + eapply reaches_cast; [exact H1|]. lia.
  Qed.

  (* print / printf: destination (if any), arguments, then the instruction *)
  Lemma sim_print n (HSn : Sim n) l (pf : bool) r dest args m C p stk :
    code_at C p (comp_print pf r dest args) ->
    spost l C p stk m (p + csize (comp_print pf r dest args)) stk
      (sbind (match r with RNone => ENormal (p_null P) m | _ => eval P FN n dest m end) (fun dv m1 =>
       sbind (eval_exprs P FN n args m1) (fun vs m2 =>
       sbind (of_er m2 (p_print P pf (ms m2) r (redir_src r dv) vs)) (fun _ m3 => RNormal m3)))).
  Proof.
    destruct HSn as (SE & SEs & _). unfold comp_print. intros Hc.
    (* after the destination *)
    assert (Hrest : forall dv m1 dstk pd,
              dstk = match r with RNone => stk | _ => dv :: stk end ->
              code_at C pd (comp_exprs args ++ [if pf then IPrintf (exprs_len args) r else IPrint (exprs_len args) r]) ->
              pd + csize (comp_exprs args) + 3 = p + csize ((match r with RNone => [] | _ => comp_expr dest end) ++ comp_exprs args ++
                                                   [if pf then IPrintf (exprs_len args) r else IPrint (exprs_len args) r]) ->
              spost l C pd dstk m1 (p + csize ((match r with RNone => [] | _ => comp_expr dest end) ++ comp_exprs args ++
                                                   [if pf then IPrintf (exprs_len args) r else IPrint (exprs_len args) r])) stk
                (sbind (eval_exprs P FN n args m1) (fun vs m2 =>
                 sbind (of_er m2 (p_print P pf (ms m2) r (redir_src r dv) vs)) (fun _ m3 => RNormal m3)))).
    { intros dv m1 dstk pd Hd Hc1 Hpos.
      eapply spost_bind_exprs; [exact SEs|exact Hc1|intros vs m2 Hl Hr].
      pose proof (@pop_n_rev_z _ vs _ dstk Hl) as Hpop.
      assert (Hex : exec_simple P (if pf then IPrintf (exprs_len args) r else IPrint (exprs_len args) r) (rev vs ++ dstk) m2 =
                    lift_unit stk m2 (p_print P pf (ms m2) r (redir_src r dv) vs)).
      { destruct pf; cbn [exec_simple]; rewrite Hpop; subst dstk; destruct r; reflexivity. }
      assert (Hctl : is_control (if pf then IPrintf (exprs_len args) r else IPrint (exprs_len args) r) = false)
        by (destruct pf; reflexivity).
      destruct (p_print P pf (ms m2) r (redir_src r dv) vs) as [s0 [u|e0]] eqn:Ep; cbn [of_er sbind lift_unit] in *.
      - eapply spost_simple; [exact Hr|exact Hctl|exact Hex|intros _].
        apply spost_done; [|reflexivity]. rewrite <- Hpos. destruct pf; cbn [isize]; lia.
      - eapply spost_simple_err; [exact Hr|exact Hctl|exact Hex]. }
    destruct r; cbn [sbind].
    - eapply (Hrest (p_null P) m stk p); [reflexivity|exact Hc|]. rewrite !csize_app. destruct pf; cbn [csize isize]; lia.
    - eapply spost_bind_expr; [exact SE|exact Hc|intros dv m1 Hr].
      eapply (Hrest dv m1); [reflexivity|exact Hr|]. rewrite !csize_app. destruct pf; cbn [csize isize]; lia.
    - eapply spost_bind_expr; [exact SE|exact Hc|intros dv m1 Hr].
      eapply (Hrest dv m1); [reflexivity|exact Hr|]. rewrite !csize_app. destruct pf; cbn [csize isize]; lia.
    - eapply spost_bind_expr; [exact SE|exact Hc|intros dv m1 Hr].
      eapply (Hrest dv m1); [reflexivity|exact Hr|]. rewrite !csize_app. destruct pf; cbn [csize isize]; lia.
    - eapply spost_bind_expr; [exact SE|exact Hc|intros dv m1 Hr].
      eapply (Hrest dv m1); [reflexivity|exact Hr|]. rewrite !csize_app. destruct pf; cbn [csize isize]; lia.
  Qed.

  (* a while / for loop entered through its top test, as a statement outcome *)
  Lemma looptop_spost n (SLt : SimLoopTop n) l c post body m1 C p0 stk :
    let cpost := match post with OSnone => [] | OSsome s1 => comp_stmt LNone s1 end in
    let body_sz := csize (comp_stmts (LLoop 0 0) body) in
    let bot := match c with OEsome ce => comp_cond ce false 0 | OEnone => [IJump 0] end in
    let tail := csize cpost + csize bot in
    let bot' := match c with
                | OEsome ce => comp_cond ce false (- (body_sz + tail))
                | OEnone => [IJump (- (body_sz + tail))]
                end in
    let top := match c with OEsome ce => comp_cond ce true (body_sz + tail) | OEnone => [] end in
    code_at C p0 (top ++ comp_stmts (LLoop tail 0) body ++ cpost ++ bot') ->
    spost l C p0 stk m1 (p0 + csize (top ++ comp_stmts (LLoop tail 0) body ++ cpost ++ bot')) stk
          (exec_loop P FN n c post body m1).
  Proof.
    intros cpost body_sz bot tail bot' top Hc.
    pose proof (SLt c post body m1 C p0 stk Hc) as H.
    assert (Hsz : csize (top ++ comp_stmts (LLoop tail 0) body ++ cpost ++ bot') = csize top + body_sz + tail).
    { rewrite !csize_app. rewrite (stmts_size_kind body (LLoop tail 0) (LLoop 0 0) I).
      assert (csize bot' = csize bot) by (unfold bot', bot; destruct c; [reflexivity|apply cond_size]).
      unfold tail, body_sz. lia. }
    rewrite Hsz. pose proof (@exec_loop_no_brk _ _ _ P FN n c post body m1) as Hnb.
    destruct (exec_loop P FN n c post body m1) as [m'|m'|m'|v m'|x m'| |]; cbn [spost]; try exact I; try exact H;
      try contradiction.
    eapply reaches_cast; [exact H|]. fold cpost body_sz bot tail top. lia.
  Qed.

  Lemma sim_stmt_S n (HS : forall k, (k <= n)%nat -> Sim k) : SimStmt (S n).
  Proof.
    pose proof (HS n (Nat.le_refl n)) as HSn.
    pose proof HSn as (SE & SEs & SA & SI & SL & SC & SCat & SSt & SSs & SLp & SLt & SIt).
    intros s l m C p stk Hc. rewrite stmt_post_spost.
    destruct s.
    - (* expression statement *)
      rewrite exec_expr. cbn [comp_stmt] in *. apply sim_expr_stmt; assumption.
    - (* print *)
      change (SPrint r dest args) with (if false then SPrintf r dest args else SPrint r dest args).
      rewrite exec_print. cbn [comp_stmt] in *. apply sim_print; assumption.
    - (* printf *)
      change (SPrintf r dest args) with (if true then SPrintf r dest args else SPrint r dest args).
      rewrite exec_print. cbn [comp_stmt] in *. apply sim_print; assumption.
    - (* if *)
      rewrite exec_if. cbn [comp_stmt] in *.
      destruct (stmts_is_nil els) eqn:Enil.
      + destruct els; [|discriminate].
        apply code_at_app in Hc as [Hcc Hb].
        pose proof (SC c true (csize (comp_stmts l body)) m C p stk Hcc) as H1.
        destruct (eval P FN n c m) as [vc m1|x m1| |]; cbn [sbind]; try exact I; [|exact H1].
        cbv zeta in H1. rewrite xorb_true_r in H1.
        destruct (p_to_bool P vc); cbn [negb] in H1.
        * eapply spost_reaches; [exact H1|].
          pose proof (SSs body l m1 C _ stk Hb) as H2. rewrite stmt_post_spost in H2.
          eapply spost_end; [|exact H2]. rewrite csize_app. lia.
        * destruct n as [|n']; [exact I|]. rewrite exec_stmts_nil.
          cbn [spost]. eapply reaches_cast; [exact H1|]. rewrite csize_app. lia.
      + set (ce := comp_stmts l els) in *.
        set (cb := comp_stmts (shift l (2 + csize ce)) body) in *.
        apply code_at_app in Hc as [Hcc Hc]. apply code_at_app in Hc as [Hb Hc]. apply code_at_app in Hc as [Hj He].
        pose proof (SC c true (csize cb + 2) m C p stk Hcc) as H1.
        destruct (eval P FN n c m) as [vc m1|x m1| |]; cbn [sbind]; try exact I; [|exact H1].
        cbv zeta in H1. rewrite xorb_true_r in H1.
        destruct (p_to_bool P vc); cbn [negb] in H1.
        * eapply spost_reaches; [exact H1|].
          pose proof (SSs body (shift l (2 + csize ce)) m1 C _ stk Hb) as H2. rewrite stmt_post_spost, inl_shift in H2.
          fold cb in H2.
          assert (H4 : forall m', spost l C (p + csize (comp_cond c true (csize cb + 2)) + csize cb) stk m'
                          (p + csize (comp_cond c true (csize cb + 2) ++ cb ++ [IJump (csize ce)] ++ ce)) stk (RNormal m')).
          { intros m'. cbn [spost]. eapply reaches_cast; [apply reaches_step; erewrite step_at by exact Hj; reflexivity|].
            rewrite !csize_app. cbn [csize isize]. lia. }
          pose proof (@spost_seq l (2 + csize ce) C (p + csize (comp_cond c true (csize cb + 2))) stk m1
                       (p + csize (comp_cond c true (csize cb + 2)) + csize cb)
                       (p + csize (comp_cond c true (csize cb + 2) ++ cb ++ [IJump (csize ce)] ++ ce)) stk
                       (exec_stmts P FN n (inl l) body m1) (fun m' => RNormal m')
                       ltac:(rewrite !csize_app; cbn [csize isize]; lia) H2 H4) as H3.
          destruct (exec_stmts P FN n (inl l) body m1); exact H3.
        * eapply spost_reaches; [eapply reaches_cast; [exact H1|]|].
          2:{ pose proof (SSs els l m1 C _ stk He) as H2. rewrite stmt_post_spost in H2.
              eapply spost_end; [|exact H2]. fold ce. rewrite !csize_app. cbn [csize isize]. lia. }
          cbn [csize isize]. lia.
    - (* for *)
      rewrite exec_for. cbn [comp_stmt] in Hc |- *.
      set (cpre := match pre with OSnone => [] | OSsome s1 => comp_stmt LNone s1 end) in *.
      assert (Hloop : forall X, code_at C (p + csize cpre) X ->
                 (forall m1, spost l C (p + csize cpre) stk m1 (p + csize cpre + csize X) stk (exec_loop P FN n c post body m1)) ->
                 code_at C p cpre ->
                 spost l C p stk m (p + csize (cpre ++ X)) stk
                   (match exec_ostmt P FN n pre m with
                    | RNormal m1 => exec_loop P FN n c post body m1
                    | RBreak _ | RContinue _ => RWrong
                    | other => other
                    end)).
      { intros X HX HL Hp. rewrite csize_app, Z.add_assoc.
        destruct pre as [|s1]; cbn [exec_ostmt].
        - unfold cpre in *. cbn [csize] in *. replace (p + 0) with p in * by lia. apply HL.
        - pose proof (SSt s1 LNone m C p stk Hp) as H1. rewrite stmt_post_spost in H1. cbn [inl] in H1. fold cpre in H1.
          destruct (exec P FN n false s1 m) as [m1|m1|m1|v m1|x m1| |]; cbn [spost] in H1 |- *; try exact I; try exact H1.
          eapply spost_reaches; [exact H1|]. apply HL. }
      destruct c as [|ce]; apply code_at_app in Hc as [Hp Hl].
      + eapply Hloop; [exact Hl| |exact Hp].
        intros m1. exact (@looptop_spost n SLt l OEnone post body m1 C (p + csize cpre) stk Hl).
      + eapply Hloop; [exact Hl| |exact Hp].
        intros m1. exact (@looptop_spost n SLt l (OEsome ce) post body m1 C (p + csize cpre) stk Hl).
    - (* for-in *)
      rewrite exec_forin. cbn [comp_stmt] in Hc |- *.
      set (cb := comp_stmts (LForIn 0) body) in *.
      assert (Hstep : step P F C p stk m =
                AForIn vsc vi (p_array_keys P (ms m) asc ai) cb (p + 6 + csize cb) stk m).
      { erewrite step_at by exact Hc. cbv zeta. cbn [isize].
        rewrite (sub_code_at C (p + 6) cb ltac:(apply code_at_tail in Hc; cbn [isize] in Hc; eapply code_at_app_l; rewrite app_nil_r; exact Hc)).
        reflexivity. }
      pose proof (@forin_sim n SSs C cb (p + 6 + csize cb) vsc vi body stk eq_refl (p_array_keys P (ms m) asc ai) m) as H.
      pose proof (@forin_ast_no_brk _ _ _ P FN n vsc vi body (p_array_keys P (ms m) asc ai) m) as Hnb.
      destruct (forin_ast P FN n vsc vi body (p_array_keys P (ms m) asc ai) m) as [m'|m'|m'|v m'|x m'| |]; cbn [spost]; try exact I; try contradiction.
      + intros k r Hr Hf. replace (p + csize (IForIn vsc vi asc ai (csize cb) :: cb)) with (p + 6 + csize cb) in Hr by (cbn [csize isize]; lia).
        destruct (H k r Hr Hf) as [k' Hk']. exists (S k'). rewrite (@run_forin k' _ _ _ _ _ _ _ _ _ Hstep). exact Hk'.
      + destruct H as [k' Hk']. exists (S k'). rewrite (@run_forin k' _ _ _ _ _ _ _ _ _ Hstep). exact Hk'.
      + destruct H as [k' Hk']. exists (S k'). rewrite (@run_forin k' _ _ _ _ _ _ _ _ _ Hstep). exact Hk'.
    - (* while *)
      rewrite exec_while. cbn [comp_stmt] in Hc |- *.
      exact (@looptop_spost n SLt l (OEsome c) OSnone body m C p stk Hc).
    - (* do-while *)
      rewrite exec_dowhile. cbn [comp_stmt] in Hc |- *.
      set (body_sz := csize (comp_stmts (LLoop 0 0) body)) in *.
      set (tail := csize (comp_cond c false 0)) in *.
      pose proof Hc as Hc0. apply code_at_app in Hc0 as [Hb Hcc].
      assert (Hsz : csize (comp_stmts (LLoop tail 0) body) = body_sz) by (apply stmts_size_kind; exact I).
      assert (Hcsz : csize (comp_cond c false (- (body_sz + tail))) = tail) by apply cond_size.
      pose proof (SSs body (LLoop tail 0) m C p stk Hb) as H1. rewrite stmt_post_spost in H1. cbn [inl] in H1.
      rewrite Hsz in H1, Hcc.
      assert (Htest : forall m1, spost l C (p + body_sz) stk m1
                        (p + csize (comp_stmts (LLoop tail 0) body ++ comp_cond c false (- (body_sz + tail)))) stk
                        (sbind (eval P FN n c m1) (fun vc m2 =>
                           if p_to_bool P vc then exec P FN n (inl l) (SDoWhile body c) m2 else RNormal m2))).
      { intros m1.
        pose proof (SC c false (- (body_sz + tail)) m1 C _ stk Hcc) as H2.
        destruct (eval P FN n c m1) as [vc m2|x m2| |]; cbn [sbind]; try exact I; [|exact H2].
        cbv zeta in H2. rewrite xorb_false_r in H2. rewrite Hcsz in H2.
        destruct (p_to_bool P vc).
        - eapply spost_reaches; [eapply reaches_cast; [exact H2|]|].
          2:{ pose proof (SSt (SDoWhile body c) l m2 C p stk) as H3. rewrite stmt_post_spost in H3.
              cbn [comp_stmt] in H3. fold body_sz tail in H3. exact (H3 Hc). }
          lia.
        - cbn [spost]. eapply reaches_cast; [exact H2|]. rewrite csize_app, Hsz, Hcsz. lia. }
      destruct (exec_stmts P FN n true body m) as [m1|m1|m1|v m1|x m1| |]; cbn [spost] in H1 |- *; try exact I; try exact H1.
      + eapply spost_reaches; [exact H1|]. apply Htest.
      + eapply reaches_cast; [exact H1|]. rewrite csize_app, Hsz, Hcsz. lia.
      + eapply spost_reaches; [|apply Htest]. eapply reaches_cast; [exact H1|lia].
    - (* break *)
      rewrite exec_break. cbn [comp_stmt] in Hc |- *.
      destruct l as [|cd|bd cd]; cbn [inl spost]; try exact I.
      + apply stops_step. erewrite step_at by exact Hc. reflexivity.
      + eapply reaches_cast; [apply reaches_step; erewrite step_at by exact Hc; reflexivity|]. cbn [csize isize]. lia.
    - (* continue *)
      rewrite exec_continue. cbn [comp_stmt] in Hc |- *.
      destruct l as [|cd|bd cd]; cbn [inl spost]; try exact I.
      + eapply reaches_cast; [apply reaches_step; erewrite step_at by exact Hc; reflexivity|]. cbn [csize isize]. lia.
      + eapply reaches_cast; [apply reaches_step; erewrite step_at by exact Hc; reflexivity|]. cbn [csize isize]. lia.
    - (* next *) rewrite exec_next. cbn [spost]. apply stops_step. erewrite step_at by exact Hc. reflexivity.
    - (* nextfile *) rewrite exec_nextfile. cbn [spost]. apply stops_step. erewrite step_at by exact Hc. reflexivity.
    - (* exit *)
      rewrite exec_exit. cbn [comp_stmt] in Hc |- *. destruct e as [|e].
      + cbn [spost]. apply stops_step. erewrite step_at by exact Hc. reflexivity.
      + eapply spost_bind_expr; [exact SE|exact Hc|intros v m1 Hr].
        cbn [spost]. apply stops_step. erewrite step_at by exact Hr. reflexivity.
    - (* return *)
      rewrite exec_return. cbn [comp_stmt] in Hc |- *. destruct e as [|e].
      + cbn [spost]. apply stops_step. erewrite step_at by exact Hc. reflexivity.
      + eapply spost_bind_expr; [exact SE|exact Hc|intros v m1 Hr].
        cbn [spost]. apply stops_step. erewrite step_at by exact Hr. reflexivity.
    - (* delete element *)
      rewrite exec_delete. cbn [comp_stmt] in Hc |- *.
      eapply spost_bind_index; [exact SI|exact Hc|intros key key' m1 Hk Hr].
      destruct Hk as (_ & _ & _ & Hdel & _). rewrite (Hdel (ms m1) sc i).
      sone. sdone.
    - (* delete array *)
      rewrite exec_deleteall. cbn [comp_stmt] in Hc |- *. sone. sdone.
    - (* block *)
      rewrite exec_block. cbn [comp_stmt] in Hc |- *.
      pose proof (SSs body l m C p stk Hc) as H. rewrite stmt_post_spost in H. exact H.
  Qed.

  Lemma sim_stmts_S n : Sim n -> SimStmts (S n).
  Proof.
    intros HSn. pose proof HSn as (_ & _ & _ & _ & _ & _ & _ & SSt & SSs & _).
    intros ss l m C p stk Hc. rewrite stmt_post_spost.
    destruct ss as [|s ss].
    - rewrite exec_stmts_nil. cbn [comp_stmts csize spost]. eapply reaches_cast; [apply reaches_refl|lia].
    - rewrite exec_stmts_cons. cbn [comp_stmts] in Hc |- *.
      set (d := csize (comp_stmts l ss)) in *.
      apply code_at_app in Hc as [Hs Hss].
      pose proof (SSt s (shift l d) m C p stk Hs) as H1. rewrite stmt_post_spost, inl_shift in H1.
      assert (H2 : forall m', spost l C (p + csize (comp_stmt (shift l d) s)) stk m'
                      (p + csize (comp_stmt (shift l d) s ++ comp_stmts l ss)) stk (exec_stmts P FN n (inl l) ss m')).
      { intros m'. pose proof (SSs ss l m' C _ stk Hss) as H2. rewrite stmt_post_spost in H2.
        eapply spost_end; [|exact H2]. rewrite csize_app. fold d. lia. }
      pose proof (@spost_seq l d C p stk m (p + csize (comp_stmt (shift l d) s))
                    (p + csize (comp_stmt (shift l d) s ++ comp_stmts l ss)) stk
                    (exec P FN n (inl l) s m) (fun m1 => exec_stmts P FN n (inl l) ss m1)
                    ltac:(rewrite csize_app; fold d; lia) H1 H2) as H3.
      destruct (exec P FN n (inl l) s m); exact H3.
  Qed.

End SimStmt.
