(* C11: the operand walk (nextLine) against its specification.
   - [pev], [plan_from], [plan], [plan_ops]: the ideal stream of main-input events
     (file opened, record, assignment operand processed, file that cannot be opened)
     that the operands still to be visited will produce;
   - [next_line_plan]: every call of nextLine moves a prefix of that stream into the history;
   - frame lemmas for nextLine and the getline forms;
   - NR, FNR, FILENAME, exit status as functions of the history. *)
From Verif Require Import Lib.Base Model.Input.

Ltac sst := cbn [argv argc idx had cur stdin NR FNR FILENAME line fields vars rd rdstdin ret status out log
                 set_argv set_argc set_idx set_had set_cur set_stdin set_NR set_FNR set_FILENAME set_linefields
                 set_vars set_rd set_rdstdin set_ret set_status add_out add_log set_file set_line] in *.

(* ---------- the specification of the main input ---------- *)

Inductive pev :=
| PRec (file : bytes) (r : record)     (* a record of [file] *)
| PFile (name : bytes)                 (* [name] becomes the current file (FILENAME := name, FNR := 0) *)
| PAssign (name val : bytes)           (* the operand name=val is processed *)
| PBad (name : bytes).                 (* the operand names a file that cannot be opened *)

Definition pev_of1 (x : ev) : list pev :=
  match x with
  | EvRec f r => [PRec f r]
  | EvSkip f rs => map (PRec f) rs
  | EvSetFile n => [PFile n]
  | EvAssign n v => [PAssign n v]
  | EvNoFile n => [PBad n]
  | _ => []
  end.
Definition pev_of (l : list ev) : list pev := flat_map pev_of1 l.

Lemma pev_of_app a b : pev_of (a ++ b) = pev_of a ++ pev_of b.
Proof. unfold pev_of. apply flat_map_app. Qed.

(* the history in chronological order *)
Definition hist (s : st) : list ev := rev (log s).

(* is the assignment operand name=val one the model evaluates (NR, FNR with a canonical
   number; any name that is not all upper case) *)
Definition assign_ok (v val : bytes) : bool :=
  if bytes_eqb v b_NR then match parse_canon_nat val with Some _ => true | None => false end
  else if bytes_eqb v b_FNR then match parse_canon_nat val with Some _ => true | None => false end
  else negb (all_upper v).

Definition operand_value (raw : bytes) : option bytes :=
  match unescape raw with UOk u => Some u | UErr => Some raw | UUnmod => None end.

(* what the operands from index [i] on will deliver; [hd] = a file operand was already seen,
   [sin] = what is left of stdin *)
Fixpoint plan_from (e : env) (av : list (Z * bytes)) (ac : Z) (n : nat) (i : Z) (hd : bool) (sin : list record) : list pev :=
  if (ac <=? i) && negb hd then PFile b_dash :: map (PRec b_dash) sin
  else if ac <=? i then []
  else
    match n with
    | O => []
    | S n' =>
      let name := match zlookup av i with Some v => v | None => [] end in
      match (if noargvars e then None else parse_assign name) with
      | Some (v, raw) =>
          match operand_value raw with
          | None => []
          | Some val => if assign_ok v val then PAssign v val :: plan_from e av ac n' (i + 1) hd sin else []
          end
      | None =>
          match name with
          | [] => plan_from e av ac n' (i + 1) hd sin
          | _ =>
            if bytes_eqb name b_dash then PFile b_dash :: map (PRec b_dash) sin ++ plan_from e av ac n' (i + 1) true []
            else match blookup (fs e) name with
                 | None => PBad name :: plan_from e av ac n' (i + 1) hd sin
                 | Some recs => PFile name :: map (PRec name) recs ++ plan_from e av ac n' (i + 1) true sin
                 end
          end
      end
    end.

Definition planF e av ac i hd sin := plan_from e av ac (Z.to_nat (ac - i)) i hd sin.

Definition cur_part (s : st) : list pev :=
  match cur s with Some (name, recs) => map (PRec name) recs | None => [] end.

(* everything the main input will still deliver from state [s] (if the program leaves ARGV, ARGC and stdin alone) *)
Definition plan (e : env) (s : st) : list pev :=
  cur_part s ++ planF e (argv s) (argc s) (idx s) (had s) (stdin s).

Lemma planF_unfold e av ac i hd sin :
  planF e av ac i hd sin =
  if (ac <=? i) && negb hd then PFile b_dash :: map (PRec b_dash) sin
  else if ac <=? i then []
  else
      let name := match zlookup av i with Some v => v | None => [] end in
      match (if noargvars e then None else parse_assign name) with
      | Some (v, raw) =>
          match operand_value raw with
          | None => []
          | Some val => if assign_ok v val then PAssign v val :: planF e av ac (i + 1) hd sin else []
          end
      | None =>
          match name with
          | [] => planF e av ac (i + 1) hd sin
          | _ =>
            if bytes_eqb name b_dash then PFile b_dash :: map (PRec b_dash) sin ++ planF e av ac (i + 1) true []
            else match blookup (fs e) name with
                 | None => PBad name :: planF e av ac (i + 1) hd sin
                 | Some recs => PFile name :: map (PRec name) recs ++ planF e av ac (i + 1) true sin
                 end
          end
      end.
Proof.
  unfold planF.
  destruct (ac <=? i) eqn:Hle.
  - replace (Z.to_nat (ac - i)) with 0%nat by lia. cbn [plan_from]. rewrite Hle. reflexivity.
  - assert (Hn : Z.to_nat (ac - i) = S (Z.to_nat (ac - (i + 1)))) by lia.
    rewrite Hn. cbn [plan_from]. rewrite Hle. reflexivity.
Qed.

(* ---------- setVarByName: what it can touch ---------- *)

Lemma set_var_by_name_some e v val s s2 :
  set_var_by_name e v val s = Some s2 ->
  assign_ok v val = true /\
  argv s2 = argv s /\ argc s2 = argc s /\ idx s2 = idx s /\ had s2 = had s /\ cur s2 = cur s /\
  stdin s2 = stdin s /\ log s2 = log s /\ line s2 = line s /\ fields s2 = fields s /\ out s2 = out s /\
  rd s2 = rd s /\ rdstdin s2 = rdstdin s /\ ret s2 = ret s /\ status s2 = status s /\ FILENAME s2 = FILENAME s.
Proof.
  unfold set_var_by_name, assign_ok. intros H.
  destruct (bytes_eqb v b_NR).
  { destruct (parse_canon_nat val); [|discriminate]. injection H as <-. sst. repeat split; reflexivity. }
  destruct (bytes_eqb v b_FNR).
  { destruct (parse_canon_nat val); [|discriminate]. injection H as <-. sst. repeat split; reflexivity. }
  destruct (all_upper v); [discriminate|].
  destruct (bmem v (globals e)); injection H as <-; sst; repeat split; reflexivity.
Qed.

Lemma set_var_by_name_none e v val s :
  set_var_by_name e v val s = None -> assign_ok v val = false.
Proof.
  unfold set_var_by_name, assign_ok. intros H.
  destruct (bytes_eqb v b_NR). { destruct (parse_canon_nat val); [discriminate|reflexivity]. }
  destruct (bytes_eqb v b_FNR). { destruct (parse_canon_nat val); [discriminate|reflexivity]. }
  destruct (all_upper v); [reflexivity|].
  destruct (bmem v (globals e)); discriminate.
Qed.

(* ---------- nextLine against the plan ---------- *)

Lemma deliver_eq name r rest s res s' :
  deliver name r rest s = (res, s') ->
  res = NLRec r /\ log s' = EvRec name r :: log s /\ cur s' = Some (name, rest) /\
  argv s' = argv s /\ argc s' = argc s /\ idx s' = idx s /\ had s' = had s /\ stdin s' = stdin s.
Proof. unfold deliver. intros H. injection H as <- <-. sst. repeat split; reflexivity. Qed.

Lemma walk_plan e : forall n s res s',
  walk e n s = (res, s') -> cur s = None -> (Z.to_nat (argc s - idx s) <= n)%nat ->
  res <> NLUnmod ->
  res <> NLFuel /\
  exists new, log s' = new ++ log s /\ argv s' = argv s /\ argc s' = argc s /\
    pev_of (rev new) ++ plan e s' = planF e (argv s) (argc s) (idx s) (had s) (stdin s).
Proof.
  induction n as [|n IH]; intros s res s' Hw Hcur Hfuel Hun.
  - (* no fuel: only the two exits at the top are possible *)
    rewrite planF_unfold. cbn [walk] in Hw.
    destruct ((argc s <=? idx s) && negb (had s)) eqn:Hc1.
    + sst. destruct (stdin s) as [|r0 rest] eqn:Hsin.
      * injection Hw as <- <-. split; [discriminate|]. exists [EvSetFile b_dash]. sst.
        repeat split; try reflexivity. unfold plan, cur_part. sst. rewrite Hcur.
        rewrite planF_unfold. apply andb_true_iff in Hc1 as [Hle _]. rewrite Hle. cbn. reflexivity.
      * apply deliver_eq in Hw as (-> & Hlog & Hc & Hav & Hac & Hidx & Hhad & Hsin').
        sst. split; [discriminate|]. exists [EvRec b_dash r0; EvSetFile b_dash].
        split; [exact Hlog|]. split; [exact Hav|]. split; [exact Hac|].
        unfold plan, cur_part. rewrite Hc, Hav, Hac, Hidx, Hhad, Hsin'.
        rewrite planF_unfold. apply andb_true_iff in Hc1 as [Hle _]. rewrite Hle. cbn. rewrite app_nil_r. reflexivity.
    + destruct (argc s <=? idx s) eqn:Hle.
      * injection Hw as <- <-. split; [discriminate|]. exists []. repeat split; try reflexivity.
        cbn [rev pev_of flat_map app]. unfold plan, cur_part. rewrite Hcur. cbn [app].
        rewrite planF_unfold, Hle, Hc1. reflexivity.
      * exfalso. apply Z.leb_gt in Hle. lia.
  - rewrite planF_unfold. cbn [walk] in Hw.
    destruct ((argc s <=? idx s) && negb (had s)) eqn:Hc1.
    + sst. destruct (stdin s) as [|r0 rest] eqn:Hsin.
      * injection Hw as <- <-. split; [discriminate|]. exists [EvSetFile b_dash]. sst.
        repeat split; try reflexivity. unfold plan, cur_part. sst. rewrite Hcur.
        rewrite planF_unfold. apply andb_true_iff in Hc1 as [Hle _]. rewrite Hle. cbn. reflexivity.
      * apply deliver_eq in Hw as (-> & Hlog & Hc & Hav & Hac & Hidx & Hhad & Hsin').
        sst. split; [discriminate|]. exists [EvRec b_dash r0; EvSetFile b_dash].
        split; [exact Hlog|]. split; [exact Hav|]. split; [exact Hac|].
        unfold plan, cur_part. rewrite Hc, Hav, Hac, Hidx, Hhad, Hsin'.
        rewrite planF_unfold. apply andb_true_iff in Hc1 as [Hle _]. rewrite Hle. cbn. rewrite app_nil_r. reflexivity.
    + destruct (argc s <=? idx s) eqn:Hle.
      * injection Hw as <- <-. split; [discriminate|]. exists []. repeat split; try reflexivity.
        cbn [rev pev_of flat_map app]. unfold plan, cur_part. rewrite Hcur. cbn [app].
        rewrite planF_unfold, Hle, Hc1. reflexivity.
      * apply Z.leb_gt in Hle.
        unfold argv_get in Hw. cbn zeta in Hw |- *.
        set (name := match zlookup (argv s) (idx s) with Some v => v | None => [] end) in *.
        set (s1 := set_idx (idx s + 1) s) in *.
        assert (Hs1 : cur s1 = None /\ (Z.to_nat (argc s1 - idx s1) <= n)%nat /\ argv s1 = argv s /\ argc s1 = argc s /\
                      idx s1 = idx s + 1 /\ had s1 = had s /\ stdin s1 = stdin s /\ log s1 = log s).
        { subst s1. sst. repeat split; try assumption; try reflexivity. lia. }
        destruct Hs1 as (Hc1' & Hf1 & Hav1 & Hac1 & Hi1 & Hh1 & Hsin1 & Hl1).
        destruct (if noargvars e then None else parse_assign name) as [[v raw]|] eqn:Hpa.
        { (* assignment operand *)
          unfold operand_value. destruct (unescape raw) as [uv| |] eqn:Hu.
          - destruct (set_var_by_name e v uv s1) as [s2|] eqn:Hsv.
            + apply set_var_by_name_some in Hsv as (Hok & Hav2 & Hac2 & Hi2 & Hh2 & Hc2 & Hsin2 & Hl2 & _).
              rewrite Hok.
              apply IH in Hw; sst; try (rewrite ?Hc2, ?Hac2, ?Hi2; assumption).
              destruct Hw as (Hnf & new & Hlog & Hav' & Hac' & Hplan). split; [exact Hnf|].
              exists (new ++ [EvAssign v uv]). sst.
              split. { rewrite Hlog, Hl2, Hl1, <- app_assoc. reflexivity. }
              split. { rewrite Hav', Hav2. exact Hav1. }
              split. { rewrite Hac', Hac2. exact Hac1. }
              rewrite rev_app_distr. cbn [rev app]. cbn [pev_of flat_map pev_of1 app].
              f_equal. fold (pev_of (rev new)). rewrite Hplan, Hav2, Hac2, Hi2, Hh2, Hsin2, Hav1, Hac1, Hi1, Hh1, Hsin1.
              reflexivity.
            + injection Hw as <- _. contradiction.
          - destruct (set_var_by_name e v raw s1) as [s2|] eqn:Hsv.
            + apply set_var_by_name_some in Hsv as (Hok & Hav2 & Hac2 & Hi2 & Hh2 & Hc2 & Hsin2 & Hl2 & _).
              rewrite Hok.
              apply IH in Hw; sst; try (rewrite ?Hc2, ?Hac2, ?Hi2; assumption).
              destruct Hw as (Hnf & new & Hlog & Hav' & Hac' & Hplan). split; [exact Hnf|].
              exists (new ++ [EvAssign v raw]). sst.
              split. { rewrite Hlog, Hl2, Hl1, <- app_assoc. reflexivity. }
              split. { rewrite Hav', Hav2. exact Hav1. }
              split. { rewrite Hac', Hac2. exact Hac1. }
              rewrite rev_app_distr. cbn [rev app]. cbn [pev_of flat_map pev_of1 app].
              f_equal. fold (pev_of (rev new)). rewrite Hplan, Hav2, Hac2, Hi2, Hh2, Hsin2, Hav1, Hac1, Hi1, Hh1, Hsin1.
              reflexivity.
            + injection Hw as <- _. contradiction.
          - injection Hw as <- _. contradiction. }
        destruct name as [|c0 name'] eqn:Hname.
        { (* empty operand *)
          apply IH in Hw; assumption. }
        destruct (bytes_eqb (c0 :: name') b_dash) eqn:Hdash.
        { (* "-" *)
          sst. rewrite Hsin1 in Hw. destruct (stdin s) as [|r0 rest] eqn:Hsin.
          - apply IH in Hw; sst; try assumption.
            destruct Hw as (Hnf & new & Hlog & Hav' & Hac' & Hplan). split; [exact Hnf|].
            exists (new ++ [EvSetFile b_dash]). sst.
            split. { rewrite Hlog, Hl1, <- app_assoc. reflexivity. }
            split; [congruence|]. split; [congruence|].
            rewrite rev_app_distr. cbn [rev app]. cbn [pev_of flat_map pev_of1 app map].
            f_equal. fold (pev_of (rev new)). rewrite Hplan, Hav1, Hac1, Hi1, Hsin1. reflexivity.
          - apply deliver_eq in Hw as (-> & Hlog & Hc & Hav & Hac & Hidx & Hhad & Hsin').
            sst. split; [discriminate|]. exists [EvRec b_dash r0; EvSetFile b_dash].
            split. { rewrite Hlog, Hl1. reflexivity. } split; [congruence|]. split; [congruence|].
            unfold plan, cur_part. rewrite Hc, Hav, Hac, Hidx, Hhad, Hsin', Hav1, Hac1, Hi1.
            cbn [rev app pev_of flat_map pev_of1 map]. reflexivity. }
        destruct (blookup (fs e) (c0 :: name')) as [[|r0 rest]|] eqn:Hfs.
        { (* an empty file *)
          apply IH in Hw; sst; try assumption.
          destruct Hw as (Hnf & new & Hlog & Hav' & Hac' & Hplan). split; [exact Hnf|].
          exists (new ++ [EvSetFile (c0 :: name')]). sst.
          split. { rewrite Hlog, Hl1, <- app_assoc. reflexivity. }
          split; [congruence|]. split; [congruence|].
          rewrite rev_app_distr. cbn [rev app]. cbn [pev_of flat_map pev_of1 app map].
          f_equal. fold (pev_of (rev new)). rewrite Hplan, Hav1, Hac1, Hi1, Hsin1. reflexivity. }
        { (* a file with records *)
          apply deliver_eq in Hw as (-> & Hlog & Hc & Hav & Hac & Hidx & Hhad & Hsin').
          sst. split; [discriminate|]. exists [EvRec (c0 :: name') r0; EvSetFile (c0 :: name')].
          split. { rewrite Hlog, Hl1. reflexivity. } split; [congruence|]. split; [congruence|].
          unfold plan, cur_part. rewrite Hc, Hav, Hac, Hidx, Hhad, Hsin', Hav1, Hac1, Hi1, Hsin1.
          cbn [rev app pev_of flat_map pev_of1 map]. reflexivity. }
        { (* cannot be opened *)
          injection Hw as <- <-. split; [discriminate|]. exists [EvNoFile (c0 :: name')]. sst.
          split. { rewrite Hl1. reflexivity. } split; [exact Hav1|]. split; [exact Hac1|].
          unfold plan, cur_part. sst. rewrite Hc1', Hav1, Hac1, Hi1, Hh1, Hsin1.
          cbn [rev app pev_of flat_map pev_of1]. reflexivity. }
Qed.

Lemma next_line_plan e s res s' :
  next_line e s = (res, s') -> res <> NLUnmod ->
  res <> NLFuel /\
  exists new, log s' = new ++ log s /\ argv s' = argv s /\ argc s' = argc s /\
    pev_of (rev new) ++ plan e s' = plan e s.
Proof.
  unfold next_line. intros Hw Hun.
  destruct (cur s) as [[name [|r rest]]|] eqn:Hcur.
  - apply walk_plan in Hw; sst; try reflexivity; try lia; try assumption.
    destruct Hw as (Hnf & new & Hlog & Hav & Hac & Hplan). split; [exact Hnf|].
    exists new. repeat split; try assumption. rewrite Hplan. unfold plan, cur_part. rewrite Hcur. reflexivity.
  - apply deliver_eq in Hw as (-> & Hlog & Hc & Hav & Hac & Hidx & Hhad & Hsin).
    split; [discriminate|]. exists [EvRec name r]. repeat split; try assumption.
    unfold plan, cur_part. rewrite Hc, Hcur, Hav, Hac, Hidx, Hhad, Hsin. reflexivity.
  - apply walk_plan in Hw; sst; try reflexivity; try lia; try assumption.
    destruct Hw as (Hnf & new & Hlog & Hav & Hac & Hplan). split; [exact Hnf|].
    exists new. repeat split; try assumption. rewrite Hplan. unfold plan, cur_part. rewrite Hcur. reflexivity.
Qed.

(* nextLine never runs out of fuel: the bound argc - idx is enough *)
Lemma next_line_total e s : fst (next_line e s) <> NLUnmod -> fst (next_line e s) <> NLFuel.
Proof.
  destruct (next_line e s) as [res s'] eqn:H. cbn [fst]. intros Hun.
  apply next_line_plan in H; [tauto|exact Hun].
Qed.

(* ---------- "advances": the history grows by a prefix of the plan ---------- *)

Definition advances (e : env) (s s' : st) : Prop :=
  exists new, log s' = new ++ log s /\ pev_of (rev new) ++ plan e s' = plan e s.

Lemma advances_refl e s : advances e s s.
Proof. exists []. split; reflexivity. Qed.

Lemma advances_trans e s1 s2 s3 : advances e s1 s2 -> advances e s2 s3 -> advances e s1 s3.
Proof.
  intros (n1 & L1 & P1) (n2 & L2 & P2). exists (n2 ++ n1). split.
  - rewrite L2, L1, app_assoc. reflexivity.
  - rewrite rev_app_distr, pev_of_app, <- app_assoc, P2, P1. reflexivity.
Qed.

Lemma plan_ext e s s' :
  cur s' = cur s -> argv s' = argv s -> argc s' = argc s -> idx s' = idx s -> had s' = had s -> stdin s' = stdin s ->
  plan e s' = plan e s.
Proof. intros H1 H2 H3 H4 H5 H6. unfold plan, cur_part. rewrite H1, H2, H3, H4, H5, H6. reflexivity. Qed.

(* a step that leaves the operand cursor alone and logs nothing about the main input *)
Lemma advances_quiet e s s' new :
  log s' = new ++ log s -> pev_of (rev new) = [] ->
  cur s' = cur s -> argv s' = argv s -> argc s' = argc s -> idx s' = idx s -> had s' = had s -> stdin s' = stdin s ->
  advances e s s'.
Proof.
  intros HL HP H1 H2 H3 H4 H5 H6. exists new. split; [exact HL|].
  rewrite HP. cbn [app]. apply plan_ext; assumption.
Qed.

Lemma advances_plan_nil e s s' : advances e s s' -> plan e s = [] -> plan e s' = [].
Proof. intros (new & _ & P) H. rewrite H in P. apply app_eq_nil in P. tauto. Qed.

Lemma next_line_advances e s res s' :
  next_line e s = (res, s') -> res <> NLUnmod -> advances e s s'.
Proof.
  intros H Hun. apply next_line_plan in H; [|exact Hun].
  destruct H as (_ & new & HL & _ & _ & HP). exists new. split; assumption.
Qed.

(* at the end of all input nothing is left in the plan *)
Lemma walk_eof_plan e : forall n s s',
  walk e n s = (NLEof, s') -> cur s = None -> plan e s' = [].
Proof.
  induction n as [|n IH]; intros s s' Hw Hcur; cbn [walk] in Hw.
  - destruct ((argc s <=? idx s) && negb (had s)) eqn:Hc1.
    + sst. destruct (stdin s) eqn:Hsin; [|unfold deliver in Hw; discriminate].
      injection Hw as <-. unfold plan, cur_part. sst. rewrite Hcur. cbn [app].
      rewrite planF_unfold. apply andb_true_iff in Hc1 as [Hle _]. rewrite Hle. reflexivity.
    + destruct (argc s <=? idx s) eqn:Hle; [|discriminate].
      injection Hw as <-. unfold plan, cur_part. rewrite Hcur. cbn [app]. rewrite planF_unfold, Hle, Hc1. reflexivity.
  - destruct ((argc s <=? idx s) && negb (had s)) eqn:Hc1.
    + sst. destruct (stdin s) eqn:Hsin; [|unfold deliver in Hw; discriminate].
      injection Hw as <-. unfold plan, cur_part. sst. rewrite Hcur. cbn [app].
      rewrite planF_unfold. apply andb_true_iff in Hc1 as [Hle _]. rewrite Hle. reflexivity.
    + destruct (argc s <=? idx s) eqn:Hle.
      { injection Hw as <-. unfold plan, cur_part. rewrite Hcur. cbn [app]. rewrite planF_unfold, Hle, Hc1. reflexivity. }
      cbn zeta in Hw.
      destruct (if noargvars e then None else parse_assign (argv_get s (idx s))) as [[v raw]|].
      { destruct (unescape raw) as [uv| |].
        - destruct (set_var_by_name e v uv (set_idx (idx s + 1) s)) as [s2|] eqn:Hsv; [|discriminate].
          apply set_var_by_name_some in Hsv as (_ & _ & _ & _ & _ & Hc2 & _).
          apply IH in Hw; [exact Hw|]. sst. rewrite Hc2. sst. exact Hcur.
        - destruct (set_var_by_name e v raw (set_idx (idx s + 1) s)) as [s2|] eqn:Hsv; [|discriminate].
          apply set_var_by_name_some in Hsv as (_ & _ & _ & _ & _ & Hc2 & _).
          apply IH in Hw; [exact Hw|]. sst. rewrite Hc2. sst. exact Hcur.
        - discriminate. }
      destruct (argv_get s (idx s)) as [|c0 nm].
      { apply IH in Hw; [exact Hw|]. sst. exact Hcur. }
      destruct (bytes_eqb (c0 :: nm) b_dash).
      { sst. destruct (stdin s); [|unfold deliver in Hw; discriminate].
        apply IH in Hw; [exact Hw|]. sst. exact Hcur. }
      destruct (blookup (fs e) (c0 :: nm)) as [[|r0 rest]|]; [|unfold deliver in Hw; discriminate|discriminate].
      apply IH in Hw; [exact Hw|]. sst. exact Hcur.
Qed.

Lemma next_line_eof_plan e s s' : next_line e s = (NLEof, s') -> plan e s' = [].
Proof.
  unfold next_line. intros H.
  destruct (cur s) as [[name [|r rest]]|] eqn:Hcur.
  - apply walk_eof_plan in H; [exact H|reflexivity].
  - unfold deliver in H. discriminate.
  - apply walk_eof_plan in H; [exact H|reflexivity].
Qed.

(* ---------- frame lemmas for nextLine: it never touches $0, the fields, the getline streams, the output ---------- *)

Definition same_record (s s' : st) : Prop := line s' = line s /\ fields s' = fields s.

Lemma walk_frame e : forall n s res s',
  walk e n s = (res, s') ->
  line s' = line s /\ fields s' = fields s /\ out s' = out s /\ rd s' = rd s /\ rdstdin s' = rdstdin s /\
  ret s' = ret s /\ status s' = status s.
Proof.
  induction n as [|n IH]; intros s res s' Hw; cbn [walk] in Hw.
  - destruct ((argc s <=? idx s) && negb (had s)).
    + sst. destruct (stdin s); [injection Hw as _ <-|unfold deliver in Hw; injection Hw as _ <-]; sst; repeat split; reflexivity.
    + destruct (argc s <=? idx s); injection Hw as _ <-; repeat split; reflexivity.
  - destruct ((argc s <=? idx s) && negb (had s)).
    + sst. destruct (stdin s); [injection Hw as _ <-|unfold deliver in Hw; injection Hw as _ <-]; sst; repeat split; reflexivity.
    + destruct (argc s <=? idx s). { injection Hw as _ <-; repeat split; reflexivity. }
      cbn zeta in Hw.
      destruct (if noargvars e then None else parse_assign (argv_get s (idx s))) as [[v raw]|].
      { destruct (unescape raw) as [uv| |].
        - destruct (set_var_by_name e v uv (set_idx (idx s + 1) s)) as [s2|] eqn:Hsv.
          + apply set_var_by_name_some in Hsv as (_ & _ & _ & _ & _ & _ & _ & _ & H1 & H2 & H3 & H4 & H5 & H6 & H7 & _).
            apply IH in Hw. sst. destruct Hw as (K1 & K2 & K3 & K4 & K5 & K6 & K7).
            rewrite K1, K2, K3, K4, K5, K6, K7, H1, H2, H3, H4, H5, H6, H7. sst. repeat split; reflexivity.
          + injection Hw as _ <-. sst. repeat split; reflexivity.
        - destruct (set_var_by_name e v raw (set_idx (idx s + 1) s)) as [s2|] eqn:Hsv.
          + apply set_var_by_name_some in Hsv as (_ & _ & _ & _ & _ & _ & _ & _ & H1 & H2 & H3 & H4 & H5 & H6 & H7 & _).
            apply IH in Hw. sst. destruct Hw as (K1 & K2 & K3 & K4 & K5 & K6 & K7).
            rewrite K1, K2, K3, K4, K5, K6, K7, H1, H2, H3, H4, H5, H6, H7. sst. repeat split; reflexivity.
          + injection Hw as _ <-. sst. repeat split; reflexivity.
        - injection Hw as _ <-. sst. repeat split; reflexivity. }
      destruct (argv_get s (idx s)) as [|c0 nm].
      { apply IH in Hw. sst. exact Hw. }
      destruct (bytes_eqb (c0 :: nm) b_dash).
      { sst. destruct (stdin s).
        - apply IH in Hw. sst. exact Hw.
        - unfold deliver in Hw. injection Hw as _ <-. sst. repeat split; reflexivity. }
      destruct (blookup (fs e) (c0 :: nm)) as [[|r0 rest]|].
      * apply IH in Hw. sst. exact Hw.
      * unfold deliver in Hw. injection Hw as _ <-. sst. repeat split; reflexivity.
      * injection Hw as _ <-. sst. repeat split; reflexivity.
Qed.

Lemma next_line_frame e s res s' :
  next_line e s = (res, s') ->
  line s' = line s /\ fields s' = fields s /\ out s' = out s /\ rd s' = rd s /\ rdstdin s' = rdstdin s /\
  ret s' = ret s /\ status s' = status s.
Proof.
  unfold next_line. intros H.
  destruct (cur s) as [[name [|r rest]]|].
  - apply walk_frame in H. sst. exact H.
  - unfold deliver in H. injection H as _ <-. sst. repeat split; reflexivity.
  - apply walk_frame in H. sst. exact H.
Qed.
