(* C15 at program level (interp.go executeAll / execActions as modelled in Model/Cancel.v):
   the counter invariant and the silence of an uncancelled context lifted through patterns,
   range patterns, rule bodies, the record loop, BEGIN and END. *)
From Verif Require Import Lib.Base Model.Ast Model.Instr Model.Compiler Model.Prims Model.VM Model.Cancel
  Proofs.CodeAt Proofs.VMLemmas Proofs.Cancel Proofs.CancelPrompt Gen.Consts.

Section CancelProgram.
  Variables value St err : Type.
  Variable P : prims value St err.
  Variable F : list cfunc.
  Variable cancel_req : St -> bool.
  Variable IO : ioprims value St err.

  Notation run_ctx := (run_ctx P F cancel_req).
  Notation eval_pattern := (eval_pattern P F cancel_req).
  Notation match_pattern := (match_pattern P F cancel_req).
  Notation run_rules := (run_rules P F cancel_req IO).
  Notation exec_actions := (exec_actions P F cancel_req IO).
  Notation execute_all := (execute_all P F cancel_req IO).
  Notation mstate := (mstate value St).
  Notation cres := (cres value St err).
  Notation good := (@good value St err).
  Notation rci := (@run_ctx_inv value St err P F cancel_req).

  (* ================= the counter invariant ================= *)

  Definition goodp (o : pout value St err) (cs : cstate) : Prop :=
    match o with POk _ _ _ | PNext _ _ _ => Inv cs | PStop r => good r cs end.
  Definition goodm (o : mout value St err) (cs : cstate) : Prop :=
    match o with MOk _ _ _ _ | MNext _ _ _ _ => Inv cs | MStop r => good r cs end.
  Definition goodl (o : lout value St err) (cs : cstate) : Prop :=
    match o with LNextLine _ _ | LNextFile _ _ => Inv cs | LStop r => good r cs end.

  Lemma eval_pattern_inv f pat stk m cs o cs' :
    Inv cs -> eval_pattern f pat stk m cs = (o, cs') -> goodp o cs' /\ ext cs cs'.
  Proof.
    intros HI H. unfold Cancel.eval_pattern in H.
    destruct (run_ctx f pat 0 stk m cs) as [x csb] eqn:E.
    destruct (rci _ _ _ _ _ _ _ _ HI E) as (Hg & He).
    destruct x as [r|mb]; [destruct r as [stk' m'|v stk' m'|stk' m'|x0 m'| |]; [destruct stk'| | |destruct x0| |]|];
      inversion H; subst; split; auto.
  Qed.

  Lemma match_pattern_inv f pats ir stk m cs o cs' :
    Inv cs -> match_pattern f pats ir stk m cs = (o, cs') -> goodm o cs' /\ ext cs cs'.
  Proof.
    intros HI H. unfold Cancel.match_pattern in H.
    destruct pats as [|p0 [|p1 [|p2 ps]]].
    - inversion H; subst. split; [exact HI|apply ext_refl].
    - destruct (eval_pattern f p0 stk m cs) as [o0 cs0] eqn:E0.
      destruct (eval_pattern_inv _ _ _ _ _ _ _ HI E0) as (Hg & He).
      destruct o0; inversion H; subst; split; auto.
    - assert (Hstart : forall o0 cs0,
                (if ir then (POk true stk m, cs) else eval_pattern f p0 stk m cs) = (o0, cs0) ->
                goodp o0 cs0 /\ ext cs cs0).
      { intros o0 cs0 E. destruct ir.
        - inversion E; subst. split; [exact HI|apply ext_refl].
        - eapply eval_pattern_inv; eassumption. }
      destruct (if ir then (POk true stk m, cs) else eval_pattern f p0 stk m cs) as [o0 cs0] eqn:E0.
      destruct (Hstart _ _ eq_refl) as (Hg0 & He0).
      destruct o0 as [b stk' m'|fl stk' m'|r].
      + destruct b.
        * destruct (eval_pattern f p1 stk' m' cs0) as [o1 cs1] eqn:E1.
          destruct (eval_pattern_inv _ _ _ _ _ _ _ Hg0 E1) as (Hg1 & He1).
          destruct o1; inversion H; subst; (split; [exact Hg1|eapply ext_trans; eassumption]).
        * inversion H; subst. split; assumption.
      + inversion H; subst. split; assumption.
      + inversion H; subst. split; assumption.
    - inversion H; subst. split; [exact HI|apply ext_refl].
  Qed.

  Lemma run_rules_inv f : forall acts inr stk m cs o inr' cs',
    Inv cs -> run_rules f acts inr stk m cs = (o, inr', cs') -> goodl o cs' /\ ext cs cs'.
  Proof.
    induction acts as [|[pats body] rest IH]; intros inr stk m cs o inr' cs' HI H.
    - cbn in H. inversion H; subst. split; [exact HI|apply ext_refl].
    - cbn [Cancel.run_rules] in H.
      destruct inr as [|ir inr0]; [inversion H; subst; split; [exact HI|apply ext_refl]|].
      destruct (match_pattern f pats ir stk m cs) as [om cs1] eqn:Em.
      destruct (match_pattern_inv _ _ _ _ _ _ _ _ HI Em) as (Hg1 & He1).
      destruct om as [matched ir' stk1 m1|fl ir' stk1 m1|r];
        [|destruct fl; inversion H; subst; split; assumption|inversion H; subst; split; assumption].
      cbn [goodm] in Hg1.
      assert (Hgo : forall stk2 m2 cs2 o2 inr2 cs3, Inv cs2 -> ext cs cs2 ->
                (let '(o, inr'', cs3) := run_rules f rest inr0 stk2 m2 cs2 in (o, ir' :: inr'', cs3)) = (o2, inr2, cs3) ->
                goodl o2 cs3 /\ ext cs cs3).
      { intros stk2 m2 cs2 o2 inr2 cs3 HI2 He2 E.
        destruct (run_rules f rest inr0 stk2 m2 cs2) as [[o3 inr3] cs4] eqn:Er. inversion E; subst.
        destruct (IH _ _ _ _ _ _ _ HI2 Er) as (Hg & He). split; [exact Hg|eapply ext_trans; eassumption]. }
      destruct matched; [|eapply Hgo; eassumption].
      assert (Hprint : forall o2 inr2 cs3,
                match io_print_line IO (ms m1) with
                | (s, EOk _) => let '(o, inr'', cs3) := run_rules f rest inr0 stk1 (with_ms m1 s) cs1 in (o, ir' :: inr'', cs3)
                | (s, EErr e) => (LStop (CRes (VAbort (XError e) (with_ms m1 s))), ir' :: inr0, cs1)
                end = (o2, inr2, cs3) -> goodl o2 cs3 /\ ext cs cs3).
      { intros o2 inr2 cs3 E. destruct (io_print_line IO (ms m1)) as [s [u|e]].
        - eapply Hgo; eassumption.
        - inversion E; subst. split; assumption. }
      destruct body as [[|i b]|]; [eapply Hprint; exact H| |eapply Hprint; exact H].
      destruct (run_ctx f (i :: b) 0 stk1 m1 cs1) as [x cs2] eqn:Eb.
      destruct (rci _ _ _ _ _ _ _ _ Hg1 Eb) as (Hg2 & He2).
      assert (He02 : ext cs cs2) by (eapply ext_trans; eassumption).
      destruct x as [r|mb]; [|inversion H; subst; split; assumption].
      cbn [CancelPrompt.good] in Hg2.
      destruct r as [stk2 m2|v stk2 m2|stk2 m2|x0 m2| |]; try (inversion H; subst; split; assumption).
      + eapply Hgo; eassumption.
      + destruct x0; inversion H; subst; split; assumption.
  Qed.

  Lemma exec_actions_inv f : forall n acts inr stk m cs x cs',
    Inv cs -> exec_actions n f acts inr stk m cs = (x, cs') -> good x cs' /\ ext cs cs'.
  Proof.
    induction n as [|n IH]; intros acts inr stk m cs x cs' HI H.
    - cbn in H. inversion H; subst. split; [exact HI|apply ext_refl].
    - cbn [Cancel.exec_actions] in H.
      destruct (poll cs) as [stop cs0] eqn:Ep. pose proof (poll_inv _ _ _ HI Ep) as Hp.
      destruct stop.
      { destruct Hp as (Hpost & Hcl & Hext). inversion H; subst. split; [split; assumption|exact Hext]. }
      destruct Hp as (HI2 & Hext2 & _).
      remember (tick cs0) as cs2 eqn:Ecs2. clear Ecs2 Ep cs0.
      destruct (io_next_line IO (ms m)) as [s [[line|]|e]];
        try (inversion H; subst; split; [exact HI2|exact Hext2]).
      destruct (run_rules f acts inr stk (with_ms m (io_set_record IO s line)) cs2) as [[o inr'] cs1] eqn:Er.
      destruct (run_rules_inv _ _ _ _ _ _ _ _ _ HI2 Er) as (Hg & He).
      assert (He0 : ext cs cs1) by (eapply ext_trans; eassumption).
      destruct o as [stk' m'|stk' m'|r].
      + destruct (IH _ _ _ _ _ _ _ Hg H) as (Hg2 & He2). split; [exact Hg2|eapply ext_trans; eassumption].
      + destruct (IH _ _ _ _ _ _ _ Hg H) as (Hg2 & He2). split; [exact Hg2|eapply ext_trans; eassumption].
      + inversion H; subst. split; assumption.
  Qed.

  (* what holds when Execute/ExecuteContext returns *)
  Definition fin_ok (x : xres value St err) (cs : cstate) : Prop :=
    Post cs /\
    (x = RCtx -> closed cs = true) /\
    (closed cs = true -> match x with RErr _ | RSentinel _ => False | _ => True end).

  Lemma classify_ok r cs :
    good r cs ->
    match classify r cs with
    | KNil _ _ | KExit _ => Inv cs
    | KFail x _ => fin_ok x cs
    end.
  Proof.
    intros Hg. destruct r as [r|mb].
    - cbn [CancelPrompt.good] in Hg. pose proof (Inv_Post _ Hg) as Hpost.
      assert (Hc : checkCtx cs = true) by (destruct Hg as (Hc & _); exact Hc).
      assert (Hf : forall (x : xres value St err),
                 (match x with RErr _ | RSentinel _ => True | _ => False end) ->
                 fin_ok (if ctx_now cs then RCtx else x) cs).
      { intros x Hx. unfold fin_ok, ctx_now. rewrite Hc. cbn [andb].
        destruct (closed cs) eqn:Ecl; repeat split; auto; try discriminate.
        intros E; subst x; contradiction. }
      destruct r as [stk m|v stk m|stk m|x0 m| |]; cbn [classify]; try exact Hg;
        try (apply Hf; exact I);
        try (unfold fin_ok; repeat split; auto; discriminate).
      destruct x0; try exact Hg; apply Hf; exact I.
    - cbn [CancelPrompt.good] in Hg. destruct Hg as (Hpost & Hcl). cbn [classify].
      unfold fin_ok. repeat split; auto.
  Qed.

  Theorem execute_all_inv fuel cp m0 cs0 x fin cs' :
    Inv cs0 -> execute_all fuel cp m0 cs0 = (x, fin, cs') -> fin_ok x cs' /\ ext cs0 cs'.
  Proof.
    intros HI H. unfold Cancel.execute_all in H.
    destruct (run_ctx fuel (c_begin cp) 0 [] m0 cs0) as [rb cs1] eqn:Eb.
    destruct (rci _ _ _ _ _ _ _ _ HI Eb) as (Hgb & Heb).
    pose proof (classify_ok _ _ Hgb) as Hcb.
    assert (Hend : forall stk m cs, Inv cs -> ext cs0 cs ->
              (let '(re, cs3) := run_ctx fuel (c_end cp) 0 stk m cs in
               match classify re cs3 with
               | KFail r fin => (r, option_map (close IO) fin, cs3)
               | KNil _ m3 | KExit m3 => (RStatus (io_exit_status IO (ms m3)), Some (close IO m3), cs3)
               end) = (x, fin, cs') -> fin_ok x cs' /\ ext cs0 cs').
    { intros stk m cs HIc Hec E.
      destruct (run_ctx fuel (c_end cp) 0 stk m cs) as [re cs3] eqn:Ee.
      destruct (rci _ _ _ _ _ _ _ _ HIc Ee) as (Hge & Hee).
      pose proof (classify_ok _ _ Hge) as Hce.
      assert (Hst : forall st, Inv cs3 -> fin_ok (RStatus st : xres value St err) cs3).
      { intros st HI3. unfold fin_ok. repeat split; auto; try discriminate. apply Inv_Post; exact HI3. }
      destruct (classify re cs3); inversion E; subst;
        (split; [auto|eapply ext_trans; eassumption]). }
    assert (Hst : forall st cs, Inv cs -> fin_ok (RStatus st : xres value St err) cs).
    { intros st cs HI3. unfold fin_ok. repeat split; auto; try discriminate. apply Inv_Post; exact HI3. }
    destruct (classify rb cs1) as [stk m1|m1|r fin0].
    - destruct (c_actions cp) as [|a acts] eqn:Ea.
      + destruct (c_end cp) as [|i e] eqn:Ee.
        * inversion H; subst. split; [apply Hst; exact Hcb|exact Heb].
        * cbn [length repeat] in H.
          destruct (exec_actions fuel fuel [] [] stk m1 cs1) as [ra cs2] eqn:Ex.
          destruct (exec_actions_inv _ _ _ _ _ _ _ _ _ Hcb Ex) as (Hga & Hea).
          pose proof (classify_ok _ _ Hga) as Hca.
          assert (He2 : ext cs0 cs2) by (eapply ext_trans; eassumption).
          destruct (classify ra cs2).
          -- eapply Hend; eassumption.
          -- eapply Hend; eassumption.
          -- inversion H; subst. split; assumption.
      + destruct (exec_actions fuel fuel (a :: acts) (repeat false (length (a :: acts))) stk m1 cs1) as [ra cs2] eqn:Ex.
        destruct (exec_actions_inv _ _ _ _ _ _ _ _ _ Hcb Ex) as (Hga & Hea).
        pose proof (classify_ok _ _ Hga) as Hca.
        assert (He2 : ext cs0 cs2) by (eapply ext_trans; eassumption).
        destruct (classify ra cs2).
        * eapply Hend; eassumption.
        * eapply Hend; eassumption.
        * inversion H; subst. split; assumption.
    - destruct (c_actions cp) as [|a acts] eqn:Ea.
      + destruct (c_end cp) as [|i e] eqn:Ee.
        * inversion H; subst. split; [apply Hst; exact Hcb|exact Heb].
        * eapply Hend; eassumption.
      + eapply Hend; eassumption.
    - inversion H; subst. split; assumption.
  Qed.

  (* ExecuteContext with a cancellable context, cancelled from outside at [d] (None: not at all) *)
  Corollary execute_context_prompt fuel cp m0 d x fin cs' :
    (forall t, d = Some t -> 0 <= t) ->
    execute_all fuel cp m0 (cs_execute_context true d) = (x, fin, cs') ->
    (forall t, done_at cs' = Some t -> clock cs' <= t + checkContextOps - 1) /\
    (x = RCtx -> closed cs' = true) /\
    (closed cs' = true -> match x with RErr _ | RSentinel _ => False | _ => True end).
  Proof.
    intros Hd H. destruct (execute_all_inv _ _ _ _ _ _ _ (Inv_init d Hd) H) as ((Hp & Hc & Hpref) & _).
    repeat split; assumption.
  Qed.

  Corollary execute_context_pre_cancelled fuel cp m0 x fin cs' :
    execute_all fuel cp m0 (cs_execute_context true (Some 0)) = (x, fin, cs') ->
    clock cs' <= checkContextOps - 1 /\ match x with RErr _ | RSentinel _ => False | _ => True end.
  Proof.
    intros H.
    assert (Hd : forall t, Some 0 = Some t -> 0 <= t) by (intros t E; inversion E; lia).
    destruct (execute_all_inv _ _ _ _ _ _ _ (Inv_init (Some 0) Hd) H) as ((Hp & Hc & Hpref) & (Hclk & Hdone & _)).
    assert (E : done_at cs' = Some 0) by (apply Hdone; reflexivity).
    specialize (Hp 0 E). split; [lia|].
    apply Hpref. unfold closed. rewrite E. apply Z.leb_le. cbn in Hclk. exact Hclk.
  Qed.

End CancelProgram.
