(* C08: the fuel of the splitter loops is only a device: results do not depend on it once
   it suffices, and the amount [scan] passes always suffices. *)
From Verif Require Import Lib.Base Lib.Utf8 Model.Csv Proofs.CsvBase.

Lemma parse_field_S c e f line data adv done cr :
  parse_field c e (S f) line data adv done cr =
    if starts_quote line
    then parse_quoted c e f (zdrop 1 line) data (adv + 1) [] done cr
    else
      match cut_sub (sep_bytes c) line with
      | Some (field, rest) =>
          parse_field c e f rest data (adv + zlen field + sep_len c) (done ++ [field]) cr
      | None =>
          PDone (adv + zlen line) (done ++ [ztake (zlen line - len_newline line) line]) cr
      end.
Proof. reflexivity. Qed.

Lemma parse_quoted_S c e f line data adv cur done cr :
  parse_quoted c e (S f) line data adv cur done cr =
    match cut_byte 34 line with
    | Some (pre, line1) =>
        let cur := cur ++ pre in
        let adv := adv + zlen pre + 1 in
        let rn := next_rune line1 in
        if rn =? 34 then parse_quoted c e f (zdrop 1 line1) data (adv + 1) (cur ++ [34]) done cr
        else if rn =? c_sep c
        then parse_field c e f (zdrop (sep_len c) line1) data (adv + sep_len c) (done ++ [cur]) cr
        else if len_newline line1 =? zlen line1
        then PDone (adv + zlen line1) (done ++ [cur]) cr
        else parse_quoted c e f line1 data adv (cur ++ [34]) done cr
    | None =>
        match line with
        | _ :: _ =>
            let adv := adv + zlen line in
            let nl2 := len_newline line =? 2 in
            let cur := if nl2 then cur ++ ztake (zlen line - 2) line ++ [10] else cur ++ line in
            let cr := if nl2 then true else cr in
            match read_line data e with
            | None => PNeed
            | Some (line', data', inc) => parse_quoted c e f line' data' (adv + inc) cur done cr
            end
        | [] => PDone adv (done ++ [cur]) cr
        end
    end.
Proof. reflexivity. Qed.

Lemma skip_lines_S c e f data adv skip :
  skip_lines c e (S f) data adv skip =
    match read_line data e with
    | None => SkNeed
    | Some (line, data', inc) =>
        let adv := adv + inc in
        if zlen line =? 0 then SkNeed
        else if negb (c_comment c =? 0) && (next_rune line =? c_comment c)
        then skip_lines c e f data' (adv + zlen line) (skip + zlen line)
        else if zlen line =? len_newline line
        then skip_lines c e f data' (adv + zlen line) (skip + zlen line)
        else SkLine line data' adv skip
    end.
Proof. reflexivity. Qed.

(* ---- more fuel does not change a result ---------------------------------- *)

Lemma parse_mono c e : forall f,
  (forall line data adv done cr r, parse_field c e f line data adv done cr = r -> r <> PFuel ->
     forall f', (f <= f')%nat -> parse_field c e f' line data adv done cr = r) /\
  (forall line data adv cur done cr r, parse_quoted c e f line data adv cur done cr = r -> r <> PFuel ->
     forall f', (f <= f')%nat -> parse_quoted c e f' line data adv cur done cr = r).
Proof.
  induction f as [|f [IHf IHq]]; split; intros until r; intros H Hr f' Hle.
  - cbn in H. congruence.
  - cbn in H. congruence.
  - destruct f' as [|f']; [lia|]. rewrite parse_field_S in *.
    destruct (starts_quote line).
    + eapply IHq; eauto; lia.
    + destruct (cut_sub (sep_bytes c) line) as [[field rest]|]; [|exact H].
      eapply IHf; eauto; lia.
  - destruct f' as [|f']; [lia|]. rewrite parse_quoted_S in *.
    destruct (cut_byte 34 line) as [[pre line1]|].
    + cbv zeta in *.
      destruct (next_rune line1 =? 34); [eapply IHq; eauto; lia|].
      destruct (next_rune line1 =? c_sep c); [eapply IHf; eauto; lia|].
      destruct (len_newline line1 =? zlen line1); [exact H|].
      eapply IHq; eauto; lia.
    + destruct line as [|x line]; [exact H|]. cbv zeta in *.
      destruct (read_line data e) as [[[line' data'] inc]|]; [|exact H].
      eapply IHq; eauto; lia.
Qed.

Lemma parse_field_mono c e f f' line data adv done cr r :
  parse_field c e f line data adv done cr = r -> r <> PFuel -> (f <= f')%nat ->
  parse_field c e f' line data adv done cr = r.
Proof. intros. eapply (proj1 (parse_mono c e f)); eauto. Qed.

Lemma parse_quoted_mono c e f f' line data adv cur done cr r :
  parse_quoted c e f line data adv cur done cr = r -> r <> PFuel -> (f <= f')%nat ->
  parse_quoted c e f' line data adv cur done cr = r.
Proof. intros. eapply (proj2 (parse_mono c e f)); eauto. Qed.

Lemma skip_lines_mono c e : forall f data adv skip r,
  skip_lines c e f data adv skip = r -> r <> SkFuel ->
  forall f', (f <= f')%nat -> skip_lines c e f' data adv skip = r.
Proof.
  induction f as [|f IH]; intros data adv skip r H Hr f' Hle; [cbn in H; congruence|].
  destruct f' as [|f']; [lia|]. rewrite skip_lines_S in *.
  destruct (read_line data e) as [[[line data'] inc]|]; [|exact H]. cbv zeta in *.
  destruct (zlen line =? 0); [exact H|].
  destruct (negb (c_comment c =? 0) && (next_rune line =? c_comment c)); [eapply IH; eauto; lia|].
  destruct (zlen line =? len_newline line); [eapply IH; eauto; lia | exact H].
Qed.

(* ---- sizes ---------------------------------------------------------------- *)

Lemma cut_sub_some_inv p s u v : cut_sub p s = Some (u, v) -> s = u ++ p ++ v.
Proof.
  revert u v; induction s as [|x s IH]; intros u v H; rewrite cut_sub_unfold in H.
  - destruct p as [|y p]; [|discriminate]. cbn in H. injection H as <- <-. reflexivity.
  - destruct (prefix_of p (x :: s)) eqn:E.
    + injection H as <- <-. destruct (prefix_of_inv _ _ E) as [t Ht]. rewrite Ht.
      rewrite zdrop_app_len. reflexivity.
    + destruct (cut_sub p s) as [[u' v']|]; [|discriminate]. injection H as <- <-.
      rewrite (IH _ _ eq_refl) at 1. reflexivity.
Qed.

Lemma length_zdrop_le {A} k (l : list A) : (length (zdrop k l) <= length l)%nat.
Proof. unfold zdrop. rewrite skipn_length. lia. Qed.

Lemma length_removelast_le {A} (l : list A) : (length (removelast l) <= length l)%nat.
Proof. induction l as [|x [|y l] IH]; cbn [removelast length] in *; lia. Qed.

Lemma read_line_size data e line data' inc : read_line data e = Some (line, data', inc) ->
  (length line + length data' <= length data)%nat.
Proof.
  unfold read_line. destruct (cut_nl data) as [[l d]|] eqn:E.
  - intros H. injection H as <- <- <-. destruct (cut_nl_some_inv _ _ _ E) as (u & _ & _ & ->).
    rewrite app_length. lia.
  - destruct e; [|discriminate]. destruct (last_is 13 data); intros H; injection H as <- <- <-;
      cbn [length]; [pose proof (length_removelast_le data)|]; lia.
Qed.

Lemma starts_quote_inv line : starts_quote line = true -> exists t, line = 34 :: t.
Proof.
  destruct line as [|x t]; [discriminate|]. cbn. intros H. apply Z.eqb_eq in H as ->. eauto.
Qed.

(* ---- the fuel passed by [scan] suffices ------------------------------------ *)

Lemma parse_enough c e : forall f,
  (forall line data adv done cr, (length line + length data < f)%nat ->
     parse_field c e f line data adv done cr <> PFuel) /\
  (forall line data adv cur done cr, (length line + length data < f)%nat ->
     parse_quoted c e f line data adv cur done cr <> PFuel).
Proof.
  induction f as [|f [IHf IHq]]; split; intros until cr; intros Hm; try lia.
  - rewrite parse_field_S. destruct (starts_quote line) eqn:Eq.
    + destruct (starts_quote_inv _ Eq) as [t ->]. apply IHq. rewrite zdrop_1_cons. cbn [length] in Hm. lia.
    + destruct (cut_sub (sep_bytes c) line) as [[field rest]|] eqn:E; [|discriminate].
      apply IHf. apply cut_sub_some_inv in E. subst line. rewrite !app_length in Hm.
      pose proof (encode_nonempty (c_sep c)) as Hn. unfold sep_bytes, zlen in *. lia.
  - rewrite parse_quoted_S. destruct (cut_byte 34 line) as [[pre line1]|] eqn:E.
    + apply cut_byte_some_inv in E as [-> _]. rewrite app_length in Hm. cbn [length] in Hm. cbv zeta.
      destruct (next_rune line1 =? 34).
      { apply IHq. pose proof (length_zdrop_le 1 line1). lia. }
      destruct (next_rune line1 =? c_sep c).
      { apply IHf. pose proof (length_zdrop_le (sep_len c) line1). lia. }
      destruct (len_newline line1 =? zlen line1); [discriminate|].
      apply IHq. lia.
    + destruct line as [|x line]; [discriminate|]. cbv zeta.
      destruct (read_line data e) as [[[line' data'] inc]|] eqn:R; [|discriminate].
      apply IHq. apply read_line_size in R. cbn [length] in Hm. lia.
Qed.

Lemma skip_enough c e : forall f data adv skip, (length data < f)%nat ->
  skip_lines c e f data adv skip <> SkFuel.
Proof.
  induction f as [|f IH]; intros data adv skip Hm; [lia|]. rewrite skip_lines_S.
  destruct (read_line data e) as [[[line data'] inc]|] eqn:R; [|discriminate]. cbv zeta.
  destruct (zlen line =? 0) eqn:Z0; [discriminate|].
  assert (Hpos : (0 < length line)%nat).
  { destruct line; [cbn in Z0; discriminate | cbn; lia]. }
  apply read_line_size in R.
  destruct (negb (c_comment c =? 0) && (next_rune line =? c_comment c)); [apply IH; lia|].
  destruct (zlen line =? len_newline line); [apply IH; lia | discriminate].
Qed.

Lemma skip_lines_size c e : forall f data adv skip line data',
  forall adv' skip', skip_lines c e f data adv skip = SkLine line data' adv' skip' ->
  (length line + length data' <= length data)%nat.
Proof.
  induction f as [|f IH]; intros data adv skip line data' adv' skip' H; [discriminate|].
  rewrite skip_lines_S in H.
  destruct (read_line data e) as [[[l d] inc]|] eqn:R; [|discriminate]. cbv zeta in H.
  apply read_line_size in R.
  destruct (zlen l =? 0); [discriminate|].
  destruct (negb (c_comment c =? 0) && (next_rune l =? c_comment c)).
  { apply IH in H. lia. }
  destruct (zlen l =? len_newline l).
  { apply IH in H. lia. }
  injection H as <- <- <- <-. exact R.
Qed.

(* csvSplitter.scan never runs out of fuel *)
Theorem scan_never_fuel c s data stale nz e : snd (scan c s data stale nz e) <> OFuel.
Proof.
  unfold scan.
  set (isbom := negb (st_noBOM s) && prefix_of bom data).
  set (data1 := if isbom then zdrop 3 data else data).
  destruct (e && (zlen data1 =? 0)); [discriminate|].
  destruct (skip_lines c e (S (length data1)) data1 (if isbom then 3 else 0) (if isbom then 3 else 0)) as [| |line data2 adv skip] eqn:Sk.
  - discriminate.
  - exfalso. eapply skip_enough; [|exact Sk]. lia.
  - pose proof (skip_lines_size _ _ _ _ _ _ _ _ _ _ Sk) as Hsz.
    destruct (parse_field c e (S (length data1)) line data2 adv [] false) as [|adv' fields cr|] eqn:P.
    + discriminate.
    + destruct ((st_row s =? 0) && c_header c); [discriminate|].
      destruct (slice_cap (data ++ stale) nz skip adv'); discriminate.
    + exfalso. eapply (proj1 (parse_enough c e _)); [|exact P]. lia.
Qed.
