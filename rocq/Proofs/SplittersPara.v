(* RS = "": on input without CR the records are the blank-line separated paragraphs. *)
From Verif Require Import Lib.Base Model.Scanner Model.Splitters
  Proofs.Scanner Proofs.Splitters Proofs.SplittersBlank.

(* ---------- the specification ---------- *)

(* strings.Split(l, sep) for a one-byte sep: always at least one piece *)
Fixpoint pieces (sep : Z) (l : bytes) : list bytes :=
  match l with
  | [] => [[]]
  | c :: l' =>
    if c =? sep then [] :: pieces sep l'
    else match pieces sep l' with
         | p :: ps => (c :: p) :: ps
         | [] => [[c]]
         end
  end.

Definition glue (cur : option bytes) (l : bytes) : bytes :=
  match cur with Some p => p ++ 10 :: l | None => l end.

(* maximal runs of non-empty lines, the lines of a run joined by "\n" *)
Fixpoint paras (cur : option bytes) (ls : list bytes) : list bytes :=
  match ls with
  | [] => match cur with Some p => [p] | None => [] end
  | l :: ls' =>
    if nilb l then match cur with Some p => p :: paras None ls' | None => paras None ls' end
    else paras (Some (glue cur l)) ls'
  end.

Definition paragraphs (data : bytes) : list bytes := paras None (pieces 10 data).

(* ---------- pieces ---------- *)

Lemma pieces_nonnil sep l : pieces sep l <> [].
Proof.
  destruct l as [|c l]; [discriminate|]. cbn [pieces].
  destruct (c =? sep); [discriminate|]. destruct (pieces sep l); discriminate.
Qed.

Lemma pieces_line sep a : ~ In sep a -> forall y, pieces sep (a ++ sep :: y) = a :: pieces sep y.
Proof.
  induction a as [|c a IH]; intros Hn y.
  - cbn [app pieces]. rewrite Z.eqb_refl. reflexivity.
  - cbn [app pieces]. destruct (c =? sep) eqn:E.
    + apply Z.eqb_eq in E. exfalso. apply Hn. left. exact E.
    + rewrite IH by (intro H; apply Hn; right; exact H). reflexivity.
Qed.

Lemma pieces_last sep a : ~ In sep a -> pieces sep a = [a].
Proof.
  induction a as [|c a IH]; intros Hn; [reflexivity|].
  cbn [pieces]. destruct (c =? sep) eqn:E.
  - apply Z.eqb_eq in E. exfalso. apply Hn. left. exact E.
  - rewrite IH by (intro H; apply Hn; right; exact H). reflexivity.
Qed.

(* ---------- no "\n\n" ---------- *)

Definition nb (l : bytes) : Prop := forall u v, l <> u ++ 10 :: 10 :: v.

Lemma nb_cons c l : nb l -> (c <> 10 \/ forall t, l <> 10 :: t) -> nb (c :: l).
Proof.
  intros Hl Hc u v E. destruct u as [|x u]; cbn [app] in E.
  - injection E as -> ->. destruct Hc as [Hc|Hc]; [congruence|exact (Hc v eq_refl)].
  - injection E as _ E. exact (Hl u v E).
Qed.

Lemma nb_suffix a l : nb (a ++ l) -> nb l.
Proof. intros H u v E. apply (H (a ++ u) v). rewrite E, app_assoc. reflexivity. Qed.

Lemma nb_short l : (length l < 2)%nat -> nb l.
Proof.
  intros H u v E. rewrite E in H. rewrite app_length in H. cbn [length] in H. lia.
Qed.

(* find_blank on CR-free text: where it finds the first "\n\n", what precedes has none *)
Lemma find_blank_some_nocr l : ~ In 13 l -> forall i en i', find_blank l i = Some (en, i') ->
  exists b l2, l = b ++ 10 :: 10 :: l2 /\ en = i + zlen b /\ i' = en + 2 + skip_nl l2 /\ nb (b ++ [10]).
Proof.
  induction l as [|c l' IH]; intros Hcr i en i' H; [discriminate|].
  cbn [find_blank] in H.
  assert (Hcr' : ~ In 13 l') by (intro; apply Hcr; right; assumption).
  assert (R : (c <> 10 \/ forall t, l' <> 10 :: t) -> find_blank l' (i + 1) = Some (en, i') ->
    exists b l2, c :: l' = b ++ 10 :: 10 :: l2 /\ en = i + zlen b /\ i' = en + 2 + skip_nl l2 /\ nb (b ++ [10])).
  { intros Hc H'. destruct (IH Hcr' _ _ _ H') as (b & l2 & -> & -> & -> & Hnb).
    exists (c :: b), l2. split; [reflexivity|]. rewrite zlen_cons. split; [lia|]. split; [lia|].
    cbn [app]. apply nb_cons; [exact Hnb|].
    destruct Hc as [Hc|Hc]; [left; exact Hc|right].
    intros t E. destruct b as [|x b]; cbn [app] in *.
    - exact (Hc _ eq_refl).
    - injection E as -> _. exact (Hc _ eq_refl). }
  destruct (c =? 10) eqn:Ec; [|apply R; [left; apply Z.eqb_neq; exact Ec|exact H]].
  apply Z.eqb_eq in Ec. subst c.
  destruct l' as [|c1 l2]; [discriminate|].
  destruct (c1 =? 10) eqn:E1.
  - apply Z.eqb_eq in E1. subst c1. injection H as <- <-.
    exists [], l2. split; [reflexivity|]. rewrite zlen_nil. split; [lia|]. split; [lia|].
    apply nb_short. cbn. lia.
  - assert (Hne : forall t, c1 :: l2 <> 10 :: t)
      by (intros t E; injection E as -> _; rewrite Z.eqb_refl in E1; discriminate).
    destruct l2 as [|c2 l3]; [apply R; [right; exact Hne|exact H]|].
    destruct ((c1 =? 13) && (c2 =? 10)) eqn:E2; [|apply R; [right; exact Hne|exact H]].
    apply andb_true_iff in E2 as [E2 _]. apply Z.eqb_eq in E2. subst c1.
    exfalso. apply Hcr. right. left. reflexivity.
Qed.

Lemma find_blank_none_nocr l : ~ In 13 l -> forall i, find_blank l i = None -> nb l.
Proof.
  induction l as [|c l' IH]; intros Hcr i H; [apply nb_short; cbn; lia|].
  cbn [find_blank] in H.
  assert (Hcr' : ~ In 13 l') by (intro; apply Hcr; right; assumption).
  destruct (c =? 10) eqn:Ec.
  - apply Z.eqb_eq in Ec. subst c.
    destruct l' as [|c1 l2]; [apply nb_short; cbn; lia|].
    destruct (c1 =? 10) eqn:E1; [discriminate|].
    assert (Hne : forall t, c1 :: l2 <> 10 :: t)
      by (intros t E; injection E as -> _; rewrite Z.eqb_refl in E1; discriminate).
    destruct l2 as [|c2 l3].
    + apply nb_cons; [exact (IH Hcr' _ H)|right; exact Hne].
    + destruct ((c1 =? 13) && (c2 =? 10)); [discriminate|].
      apply nb_cons; [exact (IH Hcr' _ H)|right; exact Hne].
  - apply nb_cons; [exact (IH Hcr' _ H)|left; apply Z.eqb_neq; exact Ec].
Qed.

(* ---------- paragraphs of a block without "\n\n" ---------- *)

Lemma glue_assoc cur a b : glue (Some (glue cur a)) b = glue cur (a ++ 10 :: b).
Proof. destruct cur; cbn [glue]; [rewrite <- app_assoc|]; reflexivity. Qed.

Lemma strip_last_app c a d : d <> [] -> strip_last c (a ++ d) = a ++ strip_last c d.
Proof.
  intros Hd. induction a as [|x a IH]; [reflexivity|].
  cbn [app strip_last]. destruct (a ++ d) eqn:E; [destruct a; [cbn in E; congruence|discriminate]|].
  rewrite IH. reflexivity.
Qed.

Definition starts10 (l : bytes) : Prop := exists t, l = 10 :: t.

(* a block b (non-empty, not starting with "\n", b ++ "\n" free of "\n\n") followed by a
   blank line is one paragraph *)
Lemma paras_block : forall n b, (length b <= n)%nat -> b <> [] -> ~ starts10 b -> nb (b ++ [10]) ->
  forall cur y, paras cur (pieces 10 (b ++ 10 :: 10 :: y)) = glue cur b :: paras None (pieces 10 y).
Proof.
  induction n as [|n IH]; intros b Hlen Hb Hs Hnb cur y.
  - destruct b; [congruence|cbn in Hlen; lia].
  - destruct (first_occurrence 10 b) as [Hn|(a & b' & -> & Hn)].
    + rewrite pieces_line by exact Hn. cbn [paras].
      replace (nilb b) with false by (symmetry; apply nilb_false; exact Hb).
      cbn [paras pieces]. rewrite Z.eqb_refl. cbn [paras nilb]. reflexivity.
    + assert (Ha : a <> []) by (intros ->; apply Hs; exists b'; reflexivity).
      assert (Hb' : b' <> []).
      { intros ->. apply (Hnb a []). rewrite <- app_assoc. reflexivity. }
      assert (Hs' : ~ starts10 b').
      { intros (t & ->). apply (Hnb a (t ++ [10])). rewrite <- app_assoc. reflexivity. }
      assert (Hnb' : nb (b' ++ [10])).
      { apply (nb_suffix (a ++ [10])). rewrite <- !app_assoc in *. exact Hnb. }
      rewrite <- app_assoc. cbn [app]. rewrite pieces_line by exact Hn. cbn [paras].
      replace (nilb a) with false by (symmetry; apply nilb_false; exact Ha).
      rewrite (IH b'); try assumption.
      * rewrite glue_assoc. reflexivity.
      * rewrite app_length in Hlen. cbn [length] in Hlen. lia.
Qed.

(* the last block: its paragraph is the block without one trailing "\n" *)
Lemma paras_last : forall n d, (length d <= n)%nat -> d <> [] -> ~ starts10 d -> nb d ->
  forall cur, paras cur (pieces 10 d) = [glue cur (strip_last 10 d)].
Proof.
  induction n as [|n IH]; intros d Hlen Hd Hs Hnb cur.
  - destruct d; [congruence|cbn in Hlen; lia].
  - destruct (first_occurrence 10 d) as [Hn|(a & d' & -> & Hn)].
    + rewrite pieces_last by exact Hn. cbn [paras].
      replace (nilb d) with false by (symmetry; apply nilb_false; exact Hd).
      rewrite strip_last_notin by exact Hn. reflexivity.
    + assert (Ha : a <> []) by (intros ->; apply Hs; exists d'; reflexivity).
      rewrite pieces_line by exact Hn. cbn [paras].
      replace (nilb a) with false by (symmetry; apply nilb_false; exact Ha).
      destruct d' as [|x d'].
      * cbn [pieces paras nilb]. rewrite strip_last_snoc, Z.eqb_refl. reflexivity.
      * assert (Hs' : ~ starts10 (x :: d')).
        { intros (t & E). injection E as -> ->. apply (Hnb a t). reflexivity. }
        rewrite (IH (x :: d')); try assumption; try discriminate.
        -- rewrite glue_assoc. change (10 :: x :: d') with ([10] ++ x :: d').
           rewrite app_assoc, strip_last_app by discriminate. rewrite <- app_assoc. reflexivity.
        -- rewrite app_length in Hlen. cbn [length] in *. lia.
        -- apply (nb_suffix (a ++ [10])). rewrite <- app_assoc. exact Hnb.
Qed.

Lemma paragraphs_nl x : paragraphs (10 :: x) = paragraphs x.
Proof. unfold paragraphs. cbn [pieces]. rewrite Z.eqb_refl. reflexivity. Qed.

Lemma paragraphs_skip l : ~ In 13 l -> paragraphs (zdrop (skip_nl l) l) = paragraphs l.
Proof.
  induction l as [|c l IH]; intros Hcr; [reflexivity|].
  cbn [skip_nl]. destruct ((c =? 10) || (c =? 13)) eqn:E.
  - rewrite zdrop_cons by apply skip_nl_bounds.
    rewrite IH by (intro; apply Hcr; right; assumption).
    apply orb_true_iff in E as [E|E]; apply Z.eqb_eq in E; subst c.
    + symmetry. apply paragraphs_nl.
    + exfalso. apply Hcr. left. reflexivity.
  - rewrite zdrop_0. reflexivity.
Qed.

(* ---------- the records ---------- *)

Definition blank_records (data : bytes) : list bytes := fst (reference unit bytes blank_rec tt data).

Lemma blank_records_nil : blank_records [] = [].
Proof.
  unfold blank_records, reference, finish. rewrite (drainF_wb _ _ _ blank_rec_wb).
  rewrite blank_rec_closed. reflexivity.
Qed.

Lemma blank_records_nl c x : is_nl c = true -> blank_records (c :: x) = blank_records x.
Proof.
  intros Hc. unfold blank_records, reference, finish.
  assert (Hsk : skips unit bytes blank_rec tt [c]) by (apply blank_rec_skips; repeat constructor; exact Hc).
  pose proof (skips_drain _ _ _ blank_rec_wb tt [c] Hsk x) as H. cbn [app] in H. rewrite H. reflexivity.
Qed.

Lemma blank_records_head c x : is_nl c = false ->
  blank_records (c :: x) =
    match find_blank (c :: x) 0 with
    | Some (en, i') => strip_last 13 (ztake en (c :: x)) :: blank_records (zdrop i' (c :: x))
    | None => [strip_last 13 (strip_last 10 (c :: x))]
    end.
Proof.
  intros Hc. unfold blank_records, reference, finish. rewrite (drainF_wb _ _ _ blank_rec_wb).
  rewrite blank_rec_head by exact Hc.
  destruct (find_blank (c :: x) 0) as [[en i']|].
  - destruct tt. reflexivity.
  - rewrite zdrop_all by lia. rewrite (drainF_wb _ _ _ blank_rec_wb), blank_rec_closed. reflexivity.
Qed.

Theorem blank_records_paragraphs : forall n data, (length data <= n)%nat -> ~ In 13 data ->
  blank_records data = paragraphs data.
Proof.
  induction n as [|n IH]; intros data Hlen Hcr.
  - destruct data; [apply blank_records_nil|cbn in Hlen; lia].
  - destruct data as [|c x]; [apply blank_records_nil|].
    assert (Hcr' : ~ In 13 x) by (intro; apply Hcr; right; assumption).
    assert (Hc13 : c <> 13) by (intros ->; apply Hcr; left; reflexivity).
    destruct (Z.eq_dec c 10) as [->|Hc10].
    + rewrite blank_records_nl by reflexivity. rewrite paragraphs_nl.
      apply IH; [cbn [length] in Hlen; lia|exact Hcr'].
    + assert (Hnl : is_nl c = false).
      { unfold is_nl. apply orb_false_iff. split; apply Z.eqb_neq; assumption. }
      rewrite blank_records_head by exact Hnl.
      assert (Hst : ~ starts10 (c :: x)) by (intros (t & E); injection E as -> _; congruence).
      destruct (find_blank (c :: x) 0) as [[en i']|] eqn:Hf.
      * destruct (find_blank_some_nocr _ Hcr _ _ _ Hf) as (b & l2 & E & -> & -> & Hnb).
        rewrite E in *. clear E.
        assert (Hb : b <> []) by (intros ->; apply Hst; eexists; reflexivity).
        assert (Hsb : ~ starts10 b) by (intros (t & ->); apply Hst; eexists; reflexivity).
        rewrite Z.add_0_l. rewrite ztake_zlen_app.
        rewrite strip_last_notin by (intro Hi; apply Hcr; apply in_or_app; left; exact Hi).
        unfold paragraphs at 1. rewrite (paras_block (length b) b (le_n _) Hb Hsb Hnb None l2).
        cbn [glue]. f_equal.
        pose proof (skip_nl_bounds l2).
        replace (zlen b + 2 + skip_nl l2) with (zlen b + (1 + (1 + skip_nl l2))) by lia.
        rewrite zdrop_app_zlen by lia. rewrite !zdrop_cons by lia.
        assert (Hcr2 : ~ In 13 l2).
        { intro Hi. apply Hcr. apply in_or_app. right. right. right. exact Hi. }
        rewrite IH.
        -- apply paragraphs_skip. exact Hcr2.
        -- assert (length (zdrop (skip_nl l2) l2) <= length l2)%nat
             by (unfold zdrop; rewrite skipn_length; lia).
           rewrite app_length in Hlen. cbn [length] in Hlen. lia.
        -- intro Hi. apply Hcr2. exact (in_zdrop _ _ _ Hi).
      * pose proof (find_blank_none_nocr _ Hcr _ Hf) as Hnb.
        rewrite (strip_last_notin 13)
          by (intro Hi; destruct (strip_last_prefix 10 (c :: x)) as (s & Hs); apply Hcr; rewrite Hs; apply in_or_app; left; exact Hi).
        unfold paragraphs. rewrite (paras_last (length (c :: x)) (c :: x) (le_n _)); try assumption; [reflexivity|discriminate].
Qed.

(* goawk, RS = "", input without CR, whole input or any delivery (C07_blank_chunk_partial):
   the records are the paragraphs *)
Theorem paragraph_spec find data : ~ In 13 data ->
  map fst (fst (reference unit record (goawk_split [] find) tt data)) = paragraphs data.
Proof.
  intros Hcr. rewrite <- (blank_records_paragraphs (length data) data (le_n _) Hcr).
  unfold blank_records, reference.
  rewrite (finish_map unit record bytes fst (goawk_split [] find) blank_rec (to_split_rec_map [] blank_scan)).
  reflexivity.
Qed.
