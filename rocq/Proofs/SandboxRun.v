(* C12: run-level consequences — a denied attempt ends the run (every form, plain
   getline included since the repair of F-C12-1), an ordinary open error of an operand
   still gives getline -1, provenance of every open stream, reuse of open names,
   availability of standard input. *)
From Verif Require Import Lib.Base Gen.Consts Model.Sandbox Proofs.Sandbox.

(* ---- a denied attempt ends the run (all histories, all request forms) ---------- *)

Theorem denied_attempt_ends_run : forall c e s h1 r h2,
  all_continue (run_log c e s h1) = true ->
  attempts c e (run_state c e s h1) r ->
  exists effs x,
    run_log c e s (h1 ++ r :: h2) = run_log c e s h1 ++ [(effs, Stop x)] /\
    is_sandbox_err x = true /\ forallb is_std effs = true.
Proof.
  intros c e s h1 r h2 Hc Ha.
  destruct (denied_attempt_stops c e _ r Ha) as [x [Ho [Hx Hstd]]].
  rewrite run_log_app, Hc. cbn [run_log].
  destruct (io_step c e (run_state c e s h1) r) as [[effs o] s'].
  cbn in Ho, Hstd. subst o. exists effs, x. cbn [is_continue]. auto.
Qed.

(* the former witness of F-C12-1 (NoFileReads, operand in1, BEGIN { getline; print > "out" }) *)
Definition wit_cfg : config := mkConfig false false true false.           (* NoFileReads only *)
Definition wit_env : env := env_of_tables [OsOk; OsOk] [] true.
Definition wit_in1 : bytes := [105; 110; 49].                             (* "in1" *)
Definition wit_out : bytes := [111; 117; 116].                            (* "out" *)
Definition wit_state : state := init_state [wit_in1] 0.

(* the run now ends at the getline with the sandbox error; "out" is never opened *)
Theorem plain_getline_denial_ends_run :
  run_log wit_cfg wit_env wit_state [NextLine ViaGetline; OpenWrite wit_out]
  = [([], Stop ENoFileReads)].
Proof. vm_compute. reflexivity. Qed.

(* the two callers of nextLine treat the denial alike *)
Theorem plain_getline_denied_like_main_loop : forall c e s,
  attempts c e s (NextLine ViaGetline) ->
  snd (fst (io_step c e s (NextLine ViaGetline))) = Stop ENoFileReads /\
  snd (fst (io_step c e s (NextLine ViaMain))) = Stop ENoFileReads.
Proof.
  intros c e s Ha.
  destruct (denied_attempt_stops c e s _ Ha) as [x [Ho _]].
  cbn [io_step] in *. unfold next_line_via in *.
  destruct (next_line c e s) as [[e1 o1] s1].
  destruct o1 as [| |y|]; cbn in Ho; try discriminate.
  destruct y; cbn in Ho; try discriminate. split; reflexivity.
Qed.

(* only the denial is propagated: a failing open of the operand still makes plain getline
   yield -1 and the program goes on (POSIX) *)
Theorem plain_getline_open_error_is_minus1 : forall c e s,
  snd (fst (next_line c e s)) = NLErr EOpen ->
  snd (fst (io_step c e s (NextLine ViaGetline))) = Continue RNeg1.
Proof.
  intros c e s H. cbn [io_step]. unfold next_line_via.
  destruct (next_line c e s) as [[e1 o1] s1]. cbn in H. subst o1. reflexivity.
Qed.

(* ---- stream tables ------------------------------------------------------------ *)

Lemma bytes_eqb_refl a : bytes_eqb a a = true.
Proof. apply bytes_eqb_eq. reflexivity. Qed.

Lemma lookup_remove n m t :
  lookup n (remove m t) = if bytes_eqb n m then None else lookup n t.
Proof.
  induction t as [|[m' k'] t IH]; cbn [remove lookup].
  - destruct (bytes_eqb n m); reflexivity.
  - destruct (bytes_eqb m m') eqn:Hmm.
    + apply bytes_eqb_eq in Hmm. subst m'. rewrite IH. destruct (bytes_eqb n m); reflexivity.
    + cbn [lookup]. rewrite IH. destruct (bytes_eqb n m) eqn:Hnm; [|reflexivity].
      apply bytes_eqb_eq in Hnm. subst n. rewrite Hmm. reflexivity.
Qed.

Lemma lookup_insert n m k t :
  lookup n (insert m k t) = if bytes_eqb n m then Some k else lookup n t.
Proof.
  unfold insert. cbn [lookup]. destruct (bytes_eqb n m) eqn:H; [reflexivity|].
  rewrite lookup_remove, H. reflexivity.
Qed.

(* nextLine never touches the stream tables *)
Lemma nll_tables fuel : forall c e s,
  ins (snd (next_line_loop fuel c e s)) = ins s /\ outs (snd (next_line_loop fuel c e s)) = outs s.
Proof.
  induction fuel as [|f IH]; intros c e s; [split; reflexivity|].
  cbn [next_line_loop].
  assert (ATT : forall effs0 k s0, ins s0 = ins s -> outs s0 = outs s ->
      ins (snd (match k with
      | S k' => (effs0, NLRecord, set_main_in (Some k') s0)
      | O => let '(e2, o2, s2) := next_line_loop f c e (set_main_in None s0) in (effs0 ++ e2, o2, s2)
      end)) = ins s /\
      outs (snd (match k with
      | S k' => (effs0, NLRecord, set_main_in (Some k') s0)
      | O => let '(e2, o2, s2) := next_line_loop f c e (set_main_in None s0) in (effs0 ++ e2, o2, s2)
      end)) = outs s).
  { intros effs0 k s0 Hi Ho. destruct k; [|cbn; auto].
    specialize (IH c e (set_main_in None s0)).
    destruct (next_line_loop f c e (set_main_in None s0)) as [[e2 o2] s2]. cbn in *.
    destruct IH as [-> ->]. auto. }
  destruct ((argc s <=? fidx s) && negb (had_files s)). { apply ATT; reflexivity. }
  destruct (argc s <=? fidx s). { split; reflexivity. }
  destruct (negb (noArgVars c) && is_var_assign (argv_get (fidx s) (argv s))). { apply (IH c e (set_fidx (fidx s + 1) s)). }
  destruct (bytes_eqb (argv_get (fidx s) (argv s)) []). { apply (IH c e (set_fidx (fidx s + 1) s)). }
  destruct (bytes_eqb (argv_get (fidx s) (argv s)) dash). { apply ATT; reflexivity. }
  destruct (noFileReads c). { split; reflexivity. }
  destruct (os_open e _ _ ORead); [apply ATT; reflexivity | split; reflexivity | split; reflexivity].
Qed.

Lemma next_line_via_tables c e s v :
  ins (snd (next_line_via c e s v)) = ins s /\ outs (snd (next_line_via c e s v)) = outs s.
Proof.
  unfold next_line_via, next_line.
  destruct (main_in s) as [[|k]|].
  - pose proof (nll_tables (next_line_fuel s) c e (set_main_in None s)) as H.
    destruct (next_line_loop (next_line_fuel s) c e (set_main_in None s)) as [[e1 o1] s1].
    cbn in H. destruct o1; destruct v; exact H.
  - destruct v; split; reflexivity.
  - pose proof (nll_tables (next_line_fuel s) c e s) as H.
    destruct (next_line_loop (next_line_fuel s) c e s) as [[e1 o1] s1].
    cbn in H. destruct o1; destruct v; exact H.
Qed.

(* ---- provenance: every stream in the tables was obtained through the open
        function / a process start that appears in the trace ------------------- *)

Definition prov (E : list effect) (s : state) : Prop :=
  (forall n, lookup n (ins s) = Some KFile -> In (CallOpenFile n ORead) E) /\
  (forall n, lookup n (outs s) = Some KFile -> In (CallOpenFile n OTrunc) E \/ In (CallOpenFile n OAppend) E) /\
  (forall n, lookup n (ins s) = Some KCmd -> In (StartProcess n) E) /\
  (forall n k, lookup n (outs s) = Some k -> k <> KFile -> In (StartProcess n) E) /\
  (forall n, lookup n (ins s) <> Some KNull).

Lemma prov_weaken E effs s : prov E s -> prov (E ++ effs) s.
Proof.
  intros (H1 & H2 & H3 & H4 & H5). repeat split; intros.
  - apply in_or_app; left; auto.
  - destruct (H2 n H); [left | right]; apply in_or_app; left; assumption.
  - apply in_or_app; left; auto.
  - apply in_or_app; left; eauto.
  - apply H5.
Qed.

Lemma prov_same_tables E s s' : ins s' = ins s -> outs s' = outs s -> prov E s -> prov E s'.
Proof. unfold prov. intros -> ->. auto. Qed.

Lemma in_last {A} (x : A) E : In x (E ++ [x]).
Proof. apply in_or_app; right; left; reflexivity. Qed.

Lemma prov_insert_out_file E s n fl :
  fl <> ORead -> prov E s ->
  prov (E ++ [CallOpenFile n fl]) (set_outs (insert n KFile (outs s)) (bump_open s)).
Proof.
  intros Hfl HP. apply (prov_weaken _ [CallOpenFile n fl]) in HP.
  destruct HP as (H1 & H2 & H3 & H4 & H5). repeat split; cbn [ins outs set_outs bump_open]; intros.
  - auto.
  - rewrite lookup_insert in H. destruct (bytes_eqb n0 n) eqn:He.
    + apply bytes_eqb_eq in He. subst n0. destruct fl; [congruence | left | right]; apply in_last.
    + auto.
  - auto.
  - rewrite lookup_insert in H. destruct (bytes_eqb n0 n); [congruence | eauto].
  - apply H5.
Qed.

Lemma prov_insert_out_cmd E s n k :
  k <> KFile -> prov E s ->
  prov (E ++ [StartProcess n]) (set_outs (insert n k (outs s)) (bump_start s)).
Proof.
  intros Hk HP. apply (prov_weaken _ [StartProcess n]) in HP.
  destruct HP as (H1 & H2 & H3 & H4 & H5). repeat split; cbn [ins outs set_outs bump_start]; intros.
  - auto.
  - rewrite lookup_insert in H. destruct (bytes_eqb n0 n); [congruence | auto].
  - auto.
  - rewrite lookup_insert in H. destruct (bytes_eqb n0 n) eqn:He.
    + apply bytes_eqb_eq in He. subst n0. apply in_last.
    + eauto.
  - apply H5.
Qed.

Lemma prov_insert_in_file E s n :
  prov E s -> prov (E ++ [CallOpenFile n ORead]) (set_ins (insert n KFile (ins s)) (bump_open s)).
Proof.
  intros HP. apply (prov_weaken _ [CallOpenFile n ORead]) in HP.
  destruct HP as (H1 & H2 & H3 & H4 & H5). repeat split; cbn [ins outs set_ins bump_open]; intros.
  - rewrite lookup_insert in H. destruct (bytes_eqb n0 n) eqn:He.
    + apply bytes_eqb_eq in He. subst n0. apply in_last.
    + auto.
  - auto.
  - rewrite lookup_insert in H. destruct (bytes_eqb n0 n); [congruence | auto].
  - eauto.
  - rewrite lookup_insert. destruct (bytes_eqb n0 n); [congruence | apply H5].
Qed.

Lemma prov_insert_in_cmd E s n :
  prov E s -> prov (E ++ [StartProcess n]) (set_ins (insert n KCmd (ins s)) (bump_start s)).
Proof.
  intros HP. apply (prov_weaken _ [StartProcess n]) in HP.
  destruct HP as (H1 & H2 & H3 & H4 & H5). repeat split; cbn [ins outs set_ins bump_start]; intros.
  - rewrite lookup_insert in H. destruct (bytes_eqb n0 n); [congruence | auto].
  - auto.
  - rewrite lookup_insert in H. destruct (bytes_eqb n0 n) eqn:He.
    + apply bytes_eqb_eq in He. subst n0. apply in_last.
    + auto.
  - eauto.
  - rewrite lookup_insert. destruct (bytes_eqb n0 n); [congruence | apply H5].
Qed.

Lemma prov_remove_in E s n : prov E s -> prov E (set_ins (remove n (ins s)) s).
Proof.
  intros (H1 & H2 & H3 & H4 & H5). repeat split; cbn [ins outs set_ins]; intros.
  - rewrite lookup_remove in H. destruct (bytes_eqb n0 n); [discriminate | auto].
  - auto.
  - rewrite lookup_remove in H. destruct (bytes_eqb n0 n); [discriminate | auto].
  - eauto.
  - rewrite lookup_remove. destruct (bytes_eqb n0 n); [discriminate | apply H5].
Qed.

Lemma prov_remove_out E s n : prov E s -> prov E (set_outs (remove n (outs s)) s).
Proof.
  intros (H1 & H2 & H3 & H4 & H5). repeat split; cbn [ins outs set_outs]; intros.
  - auto.
  - rewrite lookup_remove in H. destruct (bytes_eqb n0 n); [discriminate | auto].
  - auto.
  - rewrite lookup_remove in H. destruct (bytes_eqb n0 n); [discriminate | eauto].
  - apply H5.
Qed.

Ltac prov_case HP :=
  first [ apply prov_weaken; exact HP
        | apply prov_insert_out_file; [discriminate | exact HP]
        | apply prov_insert_out_cmd; [first [discriminate | destruct (start_ok _ _ _); discriminate] | exact HP]
        | apply prov_insert_in_file; exact HP
        | apply prov_insert_in_cmd; exact HP
        | apply prov_weaken, prov_remove_in; exact HP
        | apply prov_weaken, prov_remove_out; exact HP
        | eapply prov_same_tables; [ | | apply prov_weaken; exact HP]; reflexivity ].

Ltac split_matches H :=
  repeat match type of H with
  | (if ?x then _ else _) = _ => destruct x eqn:?
  | match ?x with _ => _ end = _ => destruct x eqn:?
  end.

Lemma io_step_prov c e s r E effs o s' :
  prov E s -> io_step c e s r = (effs, o, s') -> prov (E ++ effs) s'.
Proof.
  intros HP. destruct r; cbn [io_step]; intros H.
  - unfold get_output_stream in H. split_matches H; injection H as <- <- <-; prov_case HP.
  - unfold get_output_stream in H. split_matches H; injection H as <- <- <-; prov_case HP.
  - unfold get_output_stream in H. split_matches H; injection H as <- <- <-; prov_case HP.
  - unfold get_input_scanner_file in H. split_matches H; injection H as <- <- <-; prov_case HP.
  - unfold get_input_scanner_pipe in H. split_matches H; injection H as <- <- <-; prov_case HP.
  - unfold builtin_system in H. split_matches H; injection H as <- <- <-; prov_case HP.
  - pose proof (next_line_via_tables c e s v) as [Hi Ho]. rewrite H in Hi, Ho. cbn in Hi, Ho.
    apply (prov_same_tables _ s); [exact Hi | exact Ho | apply prov_weaken; exact HP].
  - unfold builtin_close in H. split_matches H; injection H as <- <- <-; prov_case HP.
  - injection H as <- <- <-. prov_case HP.
  - destruct (maxFieldIndex <? n); injection H as <- <- <-; prov_case HP.
  - unfold builtin_fflush in H. split_matches H; injection H as <- <- <-; prov_case HP.
Qed.

Lemma run_prov c e : forall h s E,
  prov E s -> prov (E ++ run_effects c e s h) (run_state c e s h).
Proof.
  unfold run_effects, effects_of.
  induction h as [|r h IH]; intros s E HP.
  - cbn. rewrite app_nil_r. exact HP.
  - cbn [run_log run_state]. destruct (io_step c e s r) as [[effs o] s'] eqn:Hs.
    pose proof (io_step_prov c e s r E effs o s' HP Hs) as HP'.
    cbn [map fst concat]. destruct (is_continue o).
    + rewrite app_assoc. apply IH. exact HP'.
    + cbn [map concat]. rewrite app_nil_r. exact HP'.
Qed.

Lemma prov_init args k : prov [] (init_state args k).
Proof. repeat split; cbn; intros; discriminate. Qed.

(* every file the program holds open was opened by a call of the configured open function,
   every command stream by a process start, both recorded in the trace of the run *)
Theorem all_opens_via_hook : forall c e args k h,
  let s' := run_state c e (init_state args k) h in
  let E := run_effects c e (init_state args k) h in
  (forall n, lookup n (ins s') = Some KFile -> In (CallOpenFile n ORead) E) /\
  (forall n, lookup n (outs s') = Some KFile -> In (CallOpenFile n OTrunc) E \/ In (CallOpenFile n OAppend) E) /\
  (forall n, lookup n (ins s') = Some KCmd -> In (StartProcess n) E) /\
  (forall n k', lookup n (outs s') = Some k' -> k' <> KFile -> In (StartProcess n) E).
Proof.
  intros c e args k h s' E.
  pose proof (run_prov c e h (init_state args k) [] (prov_init args k)) as (H1 & H2 & H3 & H4 & _).
  cbn [app] in *. auto.
Qed.

(* consequently: under the flags the tables never hold such a stream *)
Corollary nofilewrites_no_file_writer : forall c e args k h n,
  noFileWrites c = true -> lookup n (outs (run_state c e (init_state args k) h)) <> Some KFile.
Proof.
  intros c e args k h n Hf Hl.
  destruct (all_opens_via_hook c e args k h) as (_ & H2 & _).
  destruct (H2 n Hl) as [Hin | Hin]; apply (nofilewrites_confines c e _ h Hf) in Hin; discriminate.
Qed.

Corollary nofilereads_no_file_reader : forall c e args k h n,
  noFileReads c = true -> lookup n (ins (run_state c e (init_state args k) h)) <> Some KFile.
Proof.
  intros c e args k h n Hf Hl.
  destruct (all_opens_via_hook c e args k h) as (H1 & _).
  exact (nofilereads_confines c e _ h Hf n (H1 n Hl)).
Qed.

Corollary noexec_no_command_stream : forall c e args k h n,
  noExec c = true ->
  lookup n (ins (run_state c e (init_state args k) h)) <> Some KCmd /\
  lookup n (outs (run_state c e (init_state args k) h)) <> Some KCmd /\
  lookup n (outs (run_state c e (init_state args k) h)) <> Some KNull.
Proof.
  intros c e args k h n Hf.
  destruct (all_opens_via_hook c e args k h) as (_ & _ & H3 & H4).
  repeat split; intros Hl.
  - exact (noexec_confines c e _ h Hf n (H3 n Hl)).
  - exact (noexec_confines c e _ h Hf n (H4 n KCmd Hl ltac:(discriminate))).
  - exact (noexec_confines c e _ h Hf n (H4 n KNull Hl ltac:(discriminate))).
Qed.

(* ---- names already open are reused: no flag test, no open, no start ------------- *)

Theorem open_name_reused_out : forall c e s n k r,
  lookup n (ins s) = None -> lookup n (outs s) = Some k ->
  r = OpenWrite n \/ r = OpenAppend n \/ r = PipeTo n ->
  io_step c e s r = ([Reuse n k], Continue RNone, s).
Proof.
  intros c e s n k r Hi Ho [-> | [-> | ->]]; cbn [io_step]; unfold get_output_stream; rewrite Hi, Ho; reflexivity.
Qed.

Theorem open_name_reused_in : forall c e s n k r,
  lookup n (outs s) = None -> lookup n (ins s) = Some k ->
  r = ReadFile n \/ r = ReadCmd n ->
  io_step c e s r = ([Reuse n k], Continue RNonNeg, s).
Proof.
  intros c e s n k r Ho Hi [-> | ->]; cbn [io_step];
    unfold get_input_scanner_file, get_input_scanner_pipe; rewrite Hi, Ho; reflexivity.
Qed.

(* after close the name is gone from both tables' view of it, so the next use is gated again *)
Theorem close_forgets : forall s n effs o s',
  builtin_close s n = (effs, o, s') ->
  (lookup n (ins s) <> None -> lookup n (ins s') = None) /\
  (lookup n (ins s) = None -> lookup n (outs s') = None).
Proof.
  intros s n effs o s' H. unfold builtin_close in H.
  destruct (lookup n (ins s)) eqn:Hi.
  - injection H as <- <- <-. split; [intros _|congruence]. cbn. rewrite lookup_remove, bytes_eqb_refl. reflexivity.
  - destruct (lookup n (outs s)) eqn:Ho; injection H as <- <- <-; (split; [congruence | intros _]).
    + cbn. rewrite lookup_remove, bytes_eqb_refl. reflexivity.
    + exact Ho.
Qed.

(* ---- standard input stays available, whatever the flags -------------------------- *)

Theorem stdin_dash_available : forall c e s,
  lookup dash (outs s) = None -> lookup dash (ins s) = None ->
  exists s', io_step c e s (ReadFile dash) = ([UseStd StdIn], Continue RNonNeg, s').
Proof.
  intros c e s Ho Hi. cbn [io_step]. unfold get_input_scanner_file. rewrite Ho, Hi. cbn. eexists. reflexivity.
Qed.

Theorem stdin_main_available : forall c e k v,
  exists s', io_step c e (init_state [] k) (NextLine v) = ([UseStd StdInMain], Continue RNonNeg, s').
Proof.
  intros c e k v. destruct c as [f1 f2 f3 f4]; destruct k; destruct v; vm_compute; eexists; reflexivity.
Qed.

Theorem stdin_operand_dash_available : forall c e k v,
  exists s', io_step c e (init_state [dash] k) (NextLine v) = ([UseStd StdInMain], Continue RNonNeg, s').
Proof.
  intros c e k v. destruct c as [f1 f2 f3 f4]; destruct f4; destruct k; destruct v; vm_compute; eexists; reflexivity.
Qed.

(* "-" as output, /dev/stdout and /dev/stderr are never opened: existing streams are used *)
Theorem std_names_never_opened : forall c e s r n,
  (r = OpenWrite n \/ r = OpenAppend n) ->
  n = dash \/ n = dev_stdout \/ n = dev_stderr ->
  forall x, In x (fst (fst (io_step c e s r))) -> is_write_open x = false /\ is_read_open x = false /\ is_start x = false.
Proof.
  intros c e s r n Hr Hn x Hin.
  assert (H : forall rd, In x (fst (fst (get_output_stream c e s rd n))) -> rd <> RPipe ->
              is_write_open x = false /\ is_read_open x = false /\ is_start x = false).
  { intros rd Hx Hrd. unfold get_output_stream in Hx.
    destruct (lookup n (ins s)); [cbn in Hx; contradiction|].
    destruct (lookup n (outs s)); [cbn in Hx; destruct Hx as [<-|[]]; auto|].
    destruct rd; [| |congruence];
    (destruct Hn as [-> | [-> | ->]]; cbn in Hx;
     destruct (noFileWrites c); cbn in Hx; repeat (destruct Hx as [<-|Hx]; auto); try contradiction). }
  destruct Hr as [-> | ->]; cbn [io_step] in Hin; eapply H; try exact Hin; discriminate.
Qed.

(* ---- all three flags: from empty tables a run touches nothing but standard streams ---- *)

Lemma nll_std fuel : forall c e s, noFileReads c = true ->
  forallb is_std (fst (fst (next_line_loop fuel c e s))) = true.
Proof.
  induction fuel as [|f IH]; intros c e s Hnr; [reflexivity|].
  cbn [next_line_loop].
  assert (ATT : forall effs0 k s0, forallb is_std effs0 = true ->
      forallb is_std (fst (fst (match k with
      | S k' => (effs0, NLRecord, set_main_in (Some k') s0)
      | O => let '(e2, o2, s2) := next_line_loop f c e (set_main_in None s0) in (effs0 ++ e2, o2, s2)
      end))) = true).
  { intros effs0 k s0 H0. destruct k; [|exact H0].
    specialize (IH c e (set_main_in None s0) Hnr).
    destruct (next_line_loop f c e (set_main_in None s0)) as [[e2 o2] s2]. cbn in *.
    rewrite forallb_app, H0, IH. reflexivity. }
  destruct ((argc s <=? fidx s) && negb (had_files s)). { apply ATT. reflexivity. }
  destruct (argc s <=? fidx s). { reflexivity. }
  destruct (negb (noArgVars c) && is_var_assign (argv_get (fidx s) (argv s))). { apply IH. exact Hnr. }
  destruct (bytes_eqb (argv_get (fidx s) (argv s)) []). { apply IH. exact Hnr. }
  destruct (bytes_eqb (argv_get (fidx s) (argv s)) dash). { apply ATT. reflexivity. }
  rewrite Hnr. reflexivity.
Qed.

Definition tables_empty (s : state) : Prop := ins s = [] /\ outs s = [].

Lemma sandboxed_step c e s r :
  noExec c = true -> noFileWrites c = true -> noFileReads c = true -> tables_empty s ->
  forallb is_std (fst (fst (io_step c e s r))) = true /\ tables_empty (snd (io_step c e s r)).
Proof.
  intros Hx Hw Hr [Hi Ho]. unfold tables_empty.
  destruct r; cbn [io_step].
  1-2: unfold get_output_stream; rewrite Hi, Ho; cbn [lookup]; rewrite ?Hw, ?Hx;
       destruct (bytes_eqb name dash); cbn; auto.
  - unfold get_output_stream. rewrite Hi, Ho. cbn [lookup]. rewrite Hx. cbn. auto.
  - unfold get_input_scanner_file. rewrite Hi, Ho. cbn [lookup]. rewrite Hr.
    destruct (bytes_eqb name dash); cbn; auto.
  - unfold get_input_scanner_pipe. rewrite Hi, Ho. cbn [lookup]. rewrite Hx. cbn. auto.
  - unfold builtin_system. rewrite Hx. cbn. auto.
  - pose proof (next_line_via_tables c e s v) as [Ti To]. rewrite Ti, To. split; [|auto].
    unfold next_line_via, next_line.
    destruct (main_in s) as [[|k]|].
    + pose proof (nll_std (next_line_fuel s) c e (set_main_in None s) Hr) as H.
      destruct (next_line_loop (next_line_fuel s) c e (set_main_in None s)) as [[e1 o1] s1].
      destruct o1; destruct v; exact H.
    + destruct v; reflexivity.
    + pose proof (nll_std (next_line_fuel s) c e s Hr) as H.
      destruct (next_line_loop (next_line_fuel s) c e s) as [[e1 o1] s1].
      destruct o1; destruct v; exact H.
  - unfold builtin_close. rewrite Hi, Ho. cbn. auto.
  - cbn. auto.
  - destruct (maxFieldIndex <? n); cbn; auto.
  - unfold builtin_fflush. rewrite Ho. destruct (bytes_eqb name []); cbn; auto.
Qed.

Theorem sandboxed_only_std : forall c e h s,
  noExec c = true -> noFileWrites c = true -> noFileReads c = true -> tables_empty s ->
  forallb is_std (run_effects c e s h) = true.
Proof.
  intros c e h. unfold run_effects, effects_of.
  induction h as [|r h IH]; intros s Hx Hw Hr Ht; [reflexivity|].
  cbn [run_log]. destruct (sandboxed_step c e s r Hx Hw Hr Ht) as [Hs Ht'].
  destruct (io_step c e s r) as [[effs o] s']. cbn in Hs, Ht'.
  cbn [map fst concat]. rewrite forallb_app, Hs. cbn [andb].
  destruct (is_continue o); [apply IH; assumption | reflexivity].
Qed.
