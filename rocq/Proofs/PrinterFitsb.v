(* C20 — a decision procedure for C04's [fits] (sound: fitsb = true -> fits), so that the harness can
   check on every tree the real parser builds that it is a writing that respects the table, i.e. that
   the hypothesis of C20_print_parse describes the image of the parser (on the fragment fits covers). *)
From Verif Require Import Lib.Base Model.ExprAst Model.ExprParser
  Proofs.ExprParserMono Proofs.ExprParserRel Proofs.PrecSpec Proofs.ExprParserPrinted.
Local Open Scope nat_scope.

Definition not_regex_startb (e : expr) : bool :=
  match first_tok e with TRegex _ | TDiv | TDivAssign => false | _ => true end.

Definition binop_eqb (a b : binop) : bool :=
  match a, b with
  | BAdd, BAdd | BSub, BSub | BMul, BMul | BDiv, BDiv | BMod, BMod | BPow, BPow | BEq, BEq | BNe, BNe | BLt, BLt
  | BLe, BLe | BGt, BGt | BGe, BGe | BMatch, BMatch | BNotMatch, BNotMatch | BAnd, BAnd | BOr, BOr | BConcat, BConcat => true
  | _, _ => false
  end.

Definition aug_okb (op : binop) : bool :=
  match assign_op (aug_tok op) with Some (AsgAug o) => binop_eqb o op | _ => false end.

Fixpoint fitsb (pc : bool) (k : nat) (e : expr) : bool :=
  let all := fix all (es : list expr) : bool := match es with [] => true | x :: r => fitsb false 0 x && all r end in
  match e with
  | ENum _ | EStr _ | ERegex _ | EVar _ => true
  | EStrRegex _ => false
  | EGroup x => fitsb false 0 x
  | EField i => fitsb false 13 i
  | EIndex _ idx => negb (match idx with [] => true | _ => false end) && all idx
  | EUserCall _ args => all args
  | EIn [x] _ => (k <=? 5) && fitsb pc 5 x && ok pc x TIn
  | EIn ((_ :: _ :: _) as idx) _ => all idx
  | EUnary _ v => fitsb false 11 v
  | EBinary op l r =>
      match op with
      | BOr => (k <=? 3) && fitsb pc 3 l && ok pc l TOr && fitsb pc 4 r
      | BAnd => (k <=? 4) && fitsb pc 4 l && ok pc l TAnd && fitsb pc 5 r
      | BMatch | BNotMatch =>
          (k <=? 6) && fitsb pc 7 l && ok pc l TMatch &&
          match r with EStrRegex _ => true | _ => fitsb pc 7 r && not_regex_startb r end
      | BEq | BNe | BLt | BLe | BGt | BGe =>
          (k <=? 7) && negb (pc && binop_eqb op BGt) && fitsb pc 8 l && ok pc l (hd_tok (binop_tok op)) && fitsb pc 8 r
      | BConcat =>
          (k <=? 8) && fitsb pc 8 l && fitsb pc 9 r &&
          concat_start (first_tok r) && (tok_cont pc (first_tok r) <=? 9) && ok pc l (first_tok r)
      | BAdd | BSub => (k <=? 9) && fitsb pc 9 l && ok pc l TAdd && fitsb pc 10 r
      | BMul | BDiv | BMod => (k <=? 10) && fitsb pc 10 l && ok pc l TMul && fitsb pc 11 r
      | BPow => (k <=? 11) && fitsb pc 12 l && ok pc l TPow && fitsb pc 11 r
      end
  | ECond c t f => (k <=? 2) && fitsb pc 3 c && ok pc c TQuestion && fitsb pc 0 t && fitsb pc 0 f
  | EAssign l r => (k =? 0) && is_lvalue l && fitsb pc 1 l && ok pc l TAssign && fitsb pc 0 r
  | EAugAssign op l r => (k =? 0) && is_lvalue l && fitsb pc 1 l && ok pc l TAssign && fitsb pc 0 r && aug_okb op
  | EIncr _ true x =>
      match x with
      | EVar _ => true
      | EIndex _ _ => fitsb false 13 x
      | EField i => fitsb false 13 i
      | _ => false
      end
  | EIncr _ false x =>
      match x with
      | EVar _ => k <=? 12
      | EIndex _ _ => (k <=? 12) && fitsb false 13 x
      | EField i => fitsb false 13 i && ok false i TIncr
      | _ => false
      end
  | _ => false
  end.

Lemma binop_eqb_eq a b : binop_eqb a b = true -> a = b.
Proof. destruct a, b; cbn; congruence. Qed.

Lemma aug_okb_ok op : aug_okb op = true -> assign_op (aug_tok op) = Some (AsgAug op).
Proof. unfold aug_okb. destruct (assign_op (aug_tok op)) as [[|o]|]; try discriminate. intros H. apply binop_eqb_eq in H. congruence. Qed.

Lemma not_regex_startb_ok e : not_regex_startb e = true -> not_regex_start e.
Proof. unfold not_regex_startb, not_regex_start. destruct (first_tok e); try discriminate; intros; exact I. Qed.

Ltac split_andb :=
  repeat match goal with
  | H : _ && _ = true |- _ => apply andb_prop in H; destruct H
  end.

Lemma all_fitb_ok es :
  Forall (fun e => forall pc k, fitsb pc k e = true -> fits pc k e) es ->
  (fix all (es : list expr) : bool := match es with [] => true | x :: r => fitsb false 0 x && all r end) es = true ->
  all_fit (fits false 0) es.
Proof.
  induction 1 as [|x r Hx _ IH]; intros H; cbn [all_fit]; [exact I|].
  apply andb_prop in H as [H1 H2]. split; [apply Hx; exact H1 | apply IH; exact H2].
Qed.

Theorem fitsb_sound : forall e pc k, fitsb pc k e = true -> fits pc k e.
Proof.
  induction e using expr_ind'; intros pc k Hb; cbn [fitsb] in Hb; cbn [fits]; try exact I; try discriminate.
  - apply IHe; exact Hb.
  - split_andb. split; [destruct idx; [discriminate | discriminate] | apply all_fitb_ok; assumption].
  - destruct idx as [|x [|y r]]; try discriminate.
    + inversion H as [|? ? Hx _]; subst. split_andb.
      repeat split; [apply Nat.leb_le; assumption | apply Hx; assumption | assumption].
    + apply all_fitb_ok; assumption.
  - apply IHe; exact Hb.
  - destruct op; split_andb;
      repeat match goal with
      | |- _ /\ _ => split
      | |- _ <= _ => apply Nat.leb_le; assumption
      | |- fits _ _ e1 => apply IHe1; assumption
      | |- fits _ _ e2 => apply IHe2; assumption
      | |- _ = true => assumption
      | |- _ = true -> _ <> _ =>
          let Hp := fresh in intros Hp; subst pc;
          match goal with Hn : negb _ = true |- _ => cbn in Hn; discriminate || (intros; discriminate) end
      end.
    all: try (destruct e2; try exact I; split_andb; (split; [apply IHe2; assumption | apply not_regex_startb_ok; assumption])).
    all: try (apply Nat.leb_le; assumption).
  - split_andb. repeat split; [apply Nat.leb_le; assumption | apply IHe1; assumption | assumption | apply IHe2; assumption | apply IHe3; assumption].
  - split_andb. repeat split; [apply Nat.eqb_eq; assumption | assumption | apply IHe1; assumption | assumption | apply IHe2; assumption].
  - split_andb. repeat split; [apply Nat.eqb_eq; assumption | assumption | apply IHe1; assumption | assumption | apply IHe2; assumption | apply aug_okb_ok; assumption].
  - destruct pre.
    + destruct e; try discriminate; try exact I.
      * apply (IHe false 13). cbn [fitsb]. exact Hb.
      * apply (IHe false 13). exact Hb.
    + destruct e; try discriminate.
      * split_andb. split; [apply (IHe false 13); cbn [fitsb]; assumption | assumption].
      * apply Nat.leb_le; exact Hb.
      * split_andb. split; [apply Nat.leb_le; assumption | apply (IHe false 13); assumption].
  - apply all_fitb_ok; assumption.
  - apply IHe; exact Hb.
Qed.
