(* C20 — the Go printer's parentheses never hurt: if a tree (with its own grouping nodes, i.e. as the
   parser built it) is a writing that respects C04's table, so is the tree [gp e] that Expr.String()
   writes.  Hence, by C04's parse_printed, the TOKENS of the printed text are read back as exactly
   [gp e], which is e up to grouping nodes. *)
From Verif Require Import Lib.Base Gen.Prec Model.ExprAst Model.ExprParser Model.Printer
  Proofs.ExprParserMono Proofs.ExprParserRel Proofs.PrecSpec Proofs.ExprParserPrinted Proofs.PrinterGroup.
Local Open Scope nat_scope.

(* ---- with equal continuation numbers the print flag does not matter to okn ---- *)
Lemma okn_pc_irrel : forall e c, okn true e c c = okn false e c c.
Proof.
  induction e using expr_ind'; intros c0; cbn [okn]; try reflexivity.
  - destruct op; rewrite IHe2; reflexivity.
  - rewrite IHe3. reflexivity.
  - rewrite IHe2. reflexivity.
  - rewrite IHe2. reflexivity.
  - destruct pre; [apply IHe | reflexivity].
Qed.

Definition same_cont (t : tok) : Prop := tok_cont true t = tok_cont false t.

Lemma ok_pc_irrel e t : same_cont t -> ok true e t = ok false e t.
Proof. unfold ok, same_cont. intros ->. apply okn_pc_irrel. Qed.

Lemma concat_start_cont pc t : concat_start t = true -> tok_cont pc t <= 9 ->
  tok_cont true t = 9 /\ tok_cont false t = 9.
Proof.
  destruct t as [ | | | | | | | | | | | | | | | | | | | sp | | | | | | | | | | | | | | | | | | | | | | | | | | | | | | | ];
    cbn [concat_start]; try discriminate; intros _ Hle; cbn [tok_cont] in *; try (split; reflexivity); try lia.
  destruct sp; [split; reflexivity | lia].
Qed.

(* ---- a writing that fits the print tower fits the plain tower ---- *)
Lemma all_fit_imp (P Q : expr -> Prop) es : Forall (fun x => P x -> Q x) es -> all_fit P es -> all_fit Q es.
Proof. induction 1 as [|x r Hx _ IH]; cbn [all_fit]; [trivial | intros [H1 H2]; split; auto]. Qed.

Lemma fits_pc_false : forall e k, fits true k e -> fits false k e.
Proof.
  induction e using expr_ind'; intros k Hf; cbn [fits] in *; try exact Hf.
  - (* in *)
    destruct idx as [|x [|y r]]; try exact Hf.
    inversion H as [|? ? Hx _]; subst. destruct Hf as (H1 & H2 & H3).
    repeat split; [exact H1 | apply Hx; exact H2 | rewrite <- ok_pc_irrel by reflexivity; exact H3].
  - (* binary *)
    destruct op;
      try (destruct Hf as (H1 & H2 & H3 & H4);
           repeat split; [exact H1 | apply IHe1; exact H2 | rewrite <- ok_pc_irrel by reflexivity; exact H3 | apply IHe2; exact H4]).
    + (* eq *) destruct Hf as (H1 & _ & H2 & H3 & H4).
      repeat split; [exact H1 | discriminate | apply IHe1; exact H2 | rewrite <- ok_pc_irrel by reflexivity; exact H3 | apply IHe2; exact H4].
    + destruct Hf as (H1 & _ & H2 & H3 & H4).
      repeat split; [exact H1 | discriminate | apply IHe1; exact H2 | rewrite <- ok_pc_irrel by reflexivity; exact H3 | apply IHe2; exact H4].
    + destruct Hf as (H1 & _ & H2 & H3 & H4).
      repeat split; [exact H1 | discriminate | apply IHe1; exact H2 | rewrite <- ok_pc_irrel by reflexivity; exact H3 | apply IHe2; exact H4].
    + destruct Hf as (H1 & _ & H2 & H3 & H4).
      repeat split; [exact H1 | discriminate | apply IHe1; exact H2 | rewrite <- ok_pc_irrel by reflexivity; exact H3 | apply IHe2; exact H4].
    + (* gt: impossible in the print tower *) destruct Hf as (_ & Hgt & _). exfalso. apply Hgt; reflexivity.
    + destruct Hf as (H1 & _ & H2 & H3 & H4).
      repeat split; [exact H1 | discriminate | apply IHe1; exact H2 | rewrite <- ok_pc_irrel by reflexivity; exact H3 | apply IHe2; exact H4].
    + (* match *) destruct Hf as (H1 & H2 & H3 & H4).
      repeat split; [exact H1 | apply IHe1; exact H2 | rewrite <- ok_pc_irrel by reflexivity; exact H3 |].
      destruct e2; try (destruct H4 as [H4 H5]; split; [apply IHe2; exact H4 | exact H5]). exact I.
    + destruct Hf as (H1 & H2 & H3 & H4).
      repeat split; [exact H1 | apply IHe1; exact H2 | rewrite <- ok_pc_irrel by reflexivity; exact H3 |].
      destruct e2; try (destruct H4 as [H4 H5]; split; [apply IHe2; exact H4 | exact H5]). exact I.
    + (* concat *) destruct Hf as (H1 & H2 & H3 & H4 & H5 & H6).
      destruct (concat_start_cont true _ H4 H5) as [Ct Cf].
      repeat split; [exact H1 | apply IHe1; exact H2 | apply IHe2; exact H3 | exact H4 | rewrite Cf; lia |].
      rewrite <- ok_pc_irrel; [exact H6 | unfold same_cont; congruence].
  - (* cond *) destruct Hf as (H1 & H2 & H3 & H4 & H5).
    repeat split; [exact H1 | apply IHe1; exact H2 | rewrite <- ok_pc_irrel by reflexivity; exact H3 | apply IHe2; exact H4 | apply IHe3; exact H5].
  - (* assign *) destruct Hf as (H1 & H2 & H3 & H4 & H5).
    repeat split; [exact H1 | exact H2 | apply IHe1; exact H3 | rewrite <- ok_pc_irrel by reflexivity; exact H4 | apply IHe2; exact H5].
  - destruct Hf as (H1 & H2 & H3 & H4 & H5 & H6).
    repeat split; [exact H1 | exact H2 | apply IHe1; exact H3 | rewrite <- ok_pc_irrel by reflexivity; exact H4 | apply IHe2; exact H5 | exact H6].
Qed.

Lemma fits_weaken pc k e : fits pc k e -> fits false 0 e.
Proof.
  intros H. destruct pc; [apply fits_pc_false in H|]; (eapply fits_mono; [exact H | lia]).
Qed.

(* ---- okn survives the Go printer's grouping ---- *)
Lemma okn_gpar parent c pc ct cf :
  (okn pc c ct cf = true -> okn pc (gp c) ct cf = true) ->
  okn pc c ct cf = true -> okn pc (gpar parent c (gp c)) ct cf = true.
Proof. intros IH H. unfold gpar. destruct (needs_paren c parent); [reflexivity | auto]. Qed.

Lemma andb_imp (a b b' : bool) : (b = true -> b' = true) -> a && b = true -> a && b' = true.
Proof. destruct a, b, b'; cbn; auto. Qed.

Lemma okn_gp : forall e pc ct cf, okn pc e ct cf = true -> okn pc (gp e) ct cf = true.
Proof.
  induction e using expr_ind'; intros pc ct cf Ho; try exact Ho; try reflexivity.
  - (* field *) cbn [gp okn] in *. revert Ho. apply andb_imp. apply okn_gpar. apply IHe.
  - cbn [gp okn] in *. revert Ho. apply okn_gpar. apply IHe.
  - (* in *) destruct idx as [|x [|y r]]; reflexivity.
  - (* unary *) cbn [gp okn] in *. revert Ho. apply andb_imp. apply okn_gpar. apply IHe.
  - (* binary *) cbn [gp okn] in *. destruct op; revert Ho; apply andb_imp; apply okn_gpar; apply IHe2.
  - cbn [gp okn] in *. revert Ho. apply andb_imp. apply okn_gpar. apply IHe3.
  - cbn [gp okn] in *. revert Ho. apply andb_imp. apply okn_gpar. apply IHe2.
  - cbn [gp okn] in *. revert Ho. apply andb_imp. apply okn_gpar. apply IHe2.
  - (* incr *) destruct pre; [|reflexivity]. cbn [gp okn] in *. revert Ho. apply okn_gpar. apply IHe.
  - (* getline *)
    destruct f as [y|].
    + cbn [gp okn] in *. cbn in H1. revert Ho. apply okn_gpar. apply H1.
    + cbn [gp okn] in *. revert Ho. apply andb_imp. destruct t as [x|]; [|trivial]. cbn in H0. apply H0.
Qed.

Lemma ok_gp pc e t : ok pc e t = true -> ok pc (gp e) t = true.
Proof. apply okn_gp. Qed.

Lemma ok_gpar parent pc c t : ok pc c t = true -> ok pc (gpar parent c (gp c)) t = true.
Proof. unfold ok. apply okn_gpar. apply okn_gp. Qed.

(* ---- facts that come from the numbers in Gen/Prec.v ---- *)
Lemma is_lvalue_gp e : is_lvalue (gp e) = is_lvalue e.
Proof. destruct e; try reflexivity. destruct idx as [|x [|y r]]; reflexivity. Qed.

(* an lvalue operand of = , op= , ++ , -- is never parenthesised *)
Lemma lvalue_no_paren_assign x l r : is_lvalue x = true -> needs_paren x (EAssign l r) = false.
Proof. destruct x; try discriminate; intros _; vm_compute; reflexivity. Qed.
Lemma lvalue_no_paren_aug x op l r : is_lvalue x = true -> needs_paren x (EAugAssign op l r) = false.
Proof. destruct x; try discriminate; intros _; vm_compute; reflexivity. Qed.
Lemma lvalue_no_paren_incr x op pre y : is_lvalue x = true -> needs_paren x (EIncr op pre y) = false.
Proof. destruct x; try discriminate; intros _; destruct pre; vm_compute; reflexivity. Qed.
(* the /re/ right operand of ~ and !~ is never parenthesised *)
Lemma strregex_no_paren s op l r : needs_paren (EStrRegex s) (EBinary op l r) = false.
Proof. destruct op; vm_compute; reflexivity. Qed.

Lemma gpar_lvalue parent x : needs_paren x parent = false -> gpar parent x (gp x) = gp x.
Proof. unfold gpar. intros ->. reflexivity. Qed.

(* ---- the main induction ---- *)
Definition keeps_first (e : expr) : Prop := first_tok (gp e) = first_tok e \/ first_tok (gp e) = TLParen true.

Definition FG (e : expr) : Prop :=
  forall pc k, fits pc k e -> fits pc k (gp e) /\ keeps_first e.

Lemma fits_gpar parent pc j c :
  fits pc j c -> fits pc j (gp c) -> fits pc j (gpar parent c (gp c)).
Proof.
  intros _ H. unfold gpar. destruct (needs_paren c parent); [|exact H].
  cbn [fits]. eapply fits_weaken. exact H.
Qed.

Lemma first_gpar parent c :
  keeps_first c ->
  first_tok (gpar parent c (gp c)) = first_tok c \/ first_tok (gpar parent c (gp c)) = TLParen true.
Proof. intros H. unfold gpar. destruct (needs_paren c parent); [right; reflexivity | exact H]. Qed.

Lemma first_left (l l' : expr) (mid mid' : list tok) pc k pc' k' :
  fits pc k l -> fits pc' k' l' ->
  (first_tok l' = first_tok l \/ first_tok l' = TLParen true) ->
  hd_tok (flat l' ++ mid') = hd_tok (flat l ++ mid) \/ hd_tok (flat l' ++ mid') = TLParen true.
Proof.
  intros Hl Hl' H.
  rewrite (hd_tok_app (flat l')) by (eapply flat_start; exact Hl').
  rewrite (hd_tok_app (flat l)) by (eapply flat_start; exact Hl).
  exact H.
Qed.

Lemma not_regex_start_first (r r' : expr) :
  not_regex_start r -> (first_tok r' = first_tok r \/ first_tok r' = TLParen true) -> not_regex_start r'.
Proof. unfold not_regex_start. intros H [-> | ->]; [exact H | exact I]. Qed.

Lemma all_fit_gp es : Forall FG es -> all_fit (fits false 0) es -> all_fit (fits false 0) (map gp es).
Proof.
  induction 1 as [|x r Hx _ IH]; cbn [all_fit map]; [trivial|].
  intros [H1 H2]. split; [apply (Hx false 0 H1) | apply IH; exact H2].
Qed.

Ltac fg_child IH H := pose proof (IH _ _ H) as [? ?].

Theorem fits_gp_all : forall e, FG e.
Proof.
  induction e using expr_ind'; intros pc k Hf;
    try (split; [exact Hf | left; reflexivity]);
    try (cbn [fits] in Hf; contradiction).
  - (* field *)
    cbn [fits] in Hf. destruct (IHe _ _ Hf) as [Hg _].
    split; [|left; reflexivity]. cbn [gp fits]. apply fits_gpar; assumption.
  - (* index *)
    cbn [fits] in Hf. destruct Hf as [Hne Hall].
    split; [|left; reflexivity]. cbn [gp fits]. split; [destruct idx; [congruence | discriminate] | apply all_fit_gp; assumption].
  - (* in *)
    destruct idx as [|x [|y r]]; try (cbn [fits] in Hf; contradiction).
    + inversion H as [|? ? Hx _]; subst. cbn [fits] in Hf. destruct Hf as (H1 & H2 & H3).
      destruct (Hx _ _ H2) as [Hg Hk].
      assert (Hfx' : fits pc 5 (gpar (EIn [x] a) x (gp x))) by (apply fits_gpar; assumption).
      split.
      * cbn [gp fits]. repeat split; [exact H1 | exact Hfx' | apply ok_gpar; exact H3].
      * unfold keeps_first, first_tok. cbn [gp flat].
        eapply first_left; [exact H2 | exact Hfx' | apply first_gpar; exact Hk].
    + split; [|left; reflexivity].
      change (gp (EIn (x :: y :: r) a)) with (EIn (map gp (x :: y :: r)) a).
      cbn [fits] in Hf. cbn [map]. cbn [fits].
      change (all_fit (fits false 0) (map gp (x :: y :: r))). apply all_fit_gp; assumption.
  - (* unary *)
    cbn [fits] in Hf. destruct (IHe _ _ Hf) as [Hg _].
    split; [|left; reflexivity]. cbn [gp fits]. apply fits_gpar; assumption.
  - (* binary *)
    set (P := EBinary op e1 e2).
    assert (Hleft : forall pc' j, fits pc' j e1 ->
              fits pc' j (gpar P e1 (gp e1)) /\
              (first_tok (gpar P e1 (gp e1)) = first_tok e1 \/ first_tok (gpar P e1 (gp e1)) = TLParen true)).
    { intros pc' j Hj. destruct (IHe1 _ _ Hj) as [Hg Hk]. split; [apply fits_gpar; assumption | apply first_gpar; exact Hk]. }
    assert (Hright : forall pc' j, fits pc' j e2 ->
              fits pc' j (gpar P e2 (gp e2)) /\
              (first_tok (gpar P e2 (gp e2)) = first_tok e2 \/ first_tok (gpar P e2 (gp e2)) = TLParen true)).
    { intros pc' j Hj. destruct (IHe2 _ _ Hj) as [Hg Hk]. split; [apply fits_gpar; assumption | apply first_gpar; exact Hk]. }
    assert (Hfirst : forall pc' j, fits pc' j e1 -> keeps_first P).
    { intros pc' j Hj. destruct (Hleft _ _ Hj) as [Hg Hk]. unfold keeps_first, first_tok, P. cbn [gp flat].
      eapply first_left; [exact Hj | exact Hg | exact Hk]. }
    cbn [fits] in Hf. subst P.
    destruct op; cbn [gp fits];
      try (destruct Hf as (H1 & H2 & H3 & H4);
           split; [repeat split; [exact H1 | apply (Hleft _ _ H2) | apply ok_gpar; exact H3 | apply (Hright _ _ H4)]
                  | eapply Hfirst; exact H2]);
      try (destruct Hf as (H1 & Hgt & H2 & H3 & H4);
           split; [repeat split; [exact H1 | exact Hgt | apply (Hleft _ _ H2) | apply ok_gpar; exact H3 | apply (Hright _ _ H4)]
                  | eapply Hfirst; exact H2]).
    + (* match *)
      destruct Hf as (H1 & H2 & H3 & H4).
      split; [|eapply Hfirst; exact H2].
      repeat split; [exact H1 | apply (Hleft _ _ H2) | apply ok_gpar; exact H3 |].
      destruct e2; try (destruct H4 as [H4 H5]; destruct (Hright _ _ H4) as [Hr1 Hr2];
        match goal with |- match ?x with _ => _ end =>
          assert (Hx : fits pc 7 x /\ not_regex_start x) by (split; [exact Hr1 | eapply not_regex_start_first; eassumption]);
          destruct x; try exact Hx; exact I end).
      rewrite gpar_lvalue by apply strregex_no_paren. exact I.
    + destruct Hf as (H1 & H2 & H3 & H4).
      split; [|eapply Hfirst; exact H2].
      repeat split; [exact H1 | apply (Hleft _ _ H2) | apply ok_gpar; exact H3 |].
      destruct e2; try (destruct H4 as [H4 H5]; destruct (Hright _ _ H4) as [Hr1 Hr2];
        match goal with |- match ?x with _ => _ end =>
          assert (Hx : fits pc 7 x /\ not_regex_start x) by (split; [exact Hr1 | eapply not_regex_start_first; eassumption]);
          destruct x; try exact Hx; exact I end).
      rewrite gpar_lvalue by apply strregex_no_paren. exact I.
    + (* concat *)
      destruct Hf as (H1 & H2 & H3 & H4 & H5 & H6).
      destruct (Hright _ _ H3) as [Hr1 Hr2].
      destruct (concat_start_cont pc _ H4 H5) as [Ct Cf].
      split; [|eapply Hfirst; exact H2].
      assert (Hok9 : okn pc e1 9 9 = true) by (unfold ok in H6; rewrite Ct, Cf in H6; exact H6).
      repeat split; [exact H1 | apply (Hleft _ _ H2) | exact Hr1 | | |].
      * destruct Hr2 as [-> | ->]; [exact H4 | reflexivity].
      * destruct Hr2 as [-> | ->]; [exact H5 | destruct pc; cbn; lia].
      * destruct Hr2 as [-> | ->]; [apply ok_gpar; exact H6|].
        unfold ok. cbn [tok_cont]. apply okn_gpar; [apply okn_gp | exact Hok9].
  - (* cond *)
    cbn [fits] in Hf. destruct Hf as (H1 & H2 & H3 & H4 & H5).
    destruct (IHe1 _ _ H2) as [Hg1 Hk1]. destruct (IHe2 _ _ H4) as [Hg2 _]. destruct (IHe3 _ _ H5) as [Hg3 _].
    assert (Hc' : fits pc 3 (gpar (ECond e1 e2 e3) e1 (gp e1))) by (apply fits_gpar; assumption).
    split.
    + cbn [gp fits]. repeat split; [exact H1 | exact Hc' | apply ok_gpar; exact H3 | apply fits_gpar; assumption | apply fits_gpar; assumption].
    + unfold keeps_first, first_tok. cbn [gp flat].
      eapply first_left; [exact H2 | exact Hc' | apply first_gpar; exact Hk1].
  - (* assign *)
    cbn [fits] in Hf. destruct Hf as (H1 & H2 & H3 & H4 & H5).
    destruct (IHe1 _ _ H3) as [Hg1 Hk1]. destruct (IHe2 _ _ H5) as [Hg2 _].
    assert (Eg : gp (EAssign e1 e2) = EAssign (gp e1) (gpar (EAssign e1 e2) e2 (gp e2))).
    { cbn [gp]. rewrite (gpar_lvalue _ e1) by (apply lvalue_no_paren_assign; exact H2). reflexivity. }
    unfold keeps_first. rewrite Eg.
    split.
    + cbn [fits]. repeat split; [exact H1 | rewrite is_lvalue_gp; exact H2 | exact Hg1 | apply ok_gp; exact H4 | apply fits_gpar; assumption].
    + unfold first_tok. cbn [flat]. eapply first_left; [exact H3 | exact Hg1 | exact Hk1].
  - (* augassign *)
    cbn [fits] in Hf. destruct Hf as (H1 & H2 & H3 & H4 & H5 & H6).
    destruct (IHe1 _ _ H3) as [Hg1 Hk1]. destruct (IHe2 _ _ H5) as [Hg2 _].
    assert (Eg : gp (EAugAssign op e1 e2) = EAugAssign op (gp e1) (gpar (EAugAssign op e1 e2) e2 (gp e2))).
    { cbn [gp]. rewrite (gpar_lvalue _ e1) by (apply lvalue_no_paren_aug; exact H2). reflexivity. }
    unfold keeps_first. rewrite Eg.
    split.
    + cbn [fits]. repeat split; [exact H1 | rewrite is_lvalue_gp; exact H2 | exact Hg1 | apply ok_gp; exact H4 | apply fits_gpar; assumption | exact H6].
    + unfold first_tok. cbn [flat]. eapply first_left; [exact H3 | exact Hg1 | exact Hk1].
  - (* incr *)
    assert (Hlv : is_lvalue e = true) by (cbn [fits] in Hf; destruct pre, e; try contradiction; reflexivity).
    assert (Eg : gp (EIncr op pre e) = EIncr op pre (gp e)).
    { cbn [gp]. rewrite (gpar_lvalue _ e) by (apply lvalue_no_paren_incr; exact Hlv). reflexivity. }
    unfold keeps_first. rewrite Eg.
    destruct pre.
    + split; [|left; reflexivity].
      cbn [fits] in Hf. destruct e; try discriminate Hlv.
      * (* field *) destruct (IHe false 13 Hf) as [Hg _]. exact Hg.
      * exact I.
      * destruct (IHe false 13 Hf) as [Hg _]. exact Hg.
    + cbn [fits] in Hf. destruct e; try discriminate Hlv.
      * (* field *) destruct Hf as [Hf1 Hf2].
        destruct (IHe false 13 Hf1) as [Hg Hk]. cbn [gp] in Hg. cbn [fits] in Hg.
        split.
        -- cbn [gp fits]. split; [exact Hg | apply ok_gpar; exact Hf2].
        -- left. reflexivity.
      * split; [exact Hf | left; reflexivity].
      * destruct Hf as [Hf1 Hf2]. destruct (IHe false 13 Hf2) as [Hg _].
        split; [split; [exact Hf1 | exact Hg] | left; reflexivity].
  - (* user call *)
    cbn [fits] in Hf. split; [|left; reflexivity]. cbn [gp fits]. apply all_fit_gp; assumption.
  - (* group *)
    cbn [fits] in Hf. destruct (IHe _ _ Hf) as [Hg _]. split; [exact Hg | left; reflexivity].
Qed.

Theorem fits_gp : forall e pc k, fits pc k e -> fits pc k (gp e).
Proof. intros e pc k H. apply (fits_gp_all e pc k H). Qed.

(* ---- MAIN (token level): what Expr.String() writes for a tree that respects the table is read
   back by the parser as exactly [gp e] = e with the printer's parentheses as grouping nodes ---- *)
Theorem print_parse_tokens : forall e k pc rest,
  fits pc (rk k) e -> ok pc e (hd_tok rest) = true -> (pc = true -> k <> LGetline) ->
  tok_cont pc (hd_tok rest) <= rk k ->
  exists n0, forall n, n0 <= n ->
    p_lv n k pc None (toks (pe e) ++ rest) = POk (gp e, rest) /\ strip (gp e) = strip e.
Proof.
  intros e k pc rest Hf Ho Hpc Hc.
  destruct (parse_printed (gp e) k pc rest (fits_gp _ _ _ Hf) (ok_gp _ _ _ Ho) Hpc Hc) as [n0 H].
  exists n0. intros n Hn. split; [rewrite toks_pe; apply H; exact Hn | apply strip_gp].
Qed.
