(* C13 proofs, part 2: standard output when its sink never fails (invariant
   [good]); flush-before-child; the close status table. *)
From Verif Require Import Lib.Base Model.Streams Proofs.StreamsBase Proofs.StreamsSpec.

(* s' differs from s at most in the ghost flags *)
Definition frame (s s' : state) : Prop :=
  st_out s' = st_out s /\ st_sink s' = st_sink s /\ st_outs s' = st_outs s /\ st_ins s' = st_ins s /\
  st_fs s' = st_fs s /\ st_log s' = st_log s /\ st_obs s' = st_obs s.

Lemma touch_frame E s : frame s (touch E s).
Proof.
  unfold touch, frame.
  destruct (negb (is_osfile (e_mode E)) && any_active (st_outs s)); cbn [st_outs set_overlap];
  match goal with |- context [if ?c then set_unmod _ else _] => destruct c end; cbn; repeat split; auto.
Qed.

Lemma good_frame E s s' : frame s s' -> good E s -> good E s'.
Proof.
  unfold frame, good, out_content, nobuf. intros (H1 & H2 & H3 & H4 & H5 & H6 & H7).
  rewrite H1, H2, H3, H6. auto.
Qed.

Lemma flush_stdout_good E s s' ok : good E s -> flush_stdout E s = (s', ok) ->
  good E s' /\ ok = true /\ st_outs s' = st_outs s /\ st_fs s' = st_fs s /\ st_ins s' = st_ins s /\
  st_log s' = st_log s /\ st_obs s' = st_obs s.
Proof.
  intros Hg. unfold flush_stdout. destruct (e_mode E) eqn:Em; try (intros H; injection H as <- <-; auto 10).
  pose proof (touch_frame E s) as Hf. pose proof (good_frame E _ _ Hf Hg) as Hg'.
  destruct Hf as (F1 & F2 & F3 & F4 & F5 & F6 & F7).
  set (s1 := touch E s) in *. destruct Hg' as (Hl & He & Hc & Hx & Hn).
  destruct (bw_flush_nolimit _ _ Hl He) as (w' & k' & Ef & Hl' & He' & Hb' & Hd'). rewrite Ef.
  intros H; injection H as <- <-. cbn [st_outs st_fs st_ins st_log st_obs set_out].
  repeat split; auto.
  - unfold out_content. cbn [st_log st_sink st_out set_out]. rewrite Hx, Hb', Hd', app_nil_r. auto.
  - unfold nobuf. rewrite Em. auto.
Qed.

Lemma flush_out_err_good E s : good E s ->
  let s' := flush_out_err E s in
  good E s' /\ st_outs s' = st_outs s /\ st_fs s' = st_fs s /\ st_ins s' = st_ins s /\ st_log s' = st_log s /\ st_obs s' = st_obs s.
Proof.
  intros Hg. unfold flush_out_err. destruct (flush_stdout E s) as [s' ok] eqn:Ef. cbn [fst].
  destruct (flush_stdout_good _ _ _ _ Hg Ef) as (? & ? & ? & ? & ? & ? & ?). auto 10.
Qed.

Lemma print_errorf_good E s : good E s ->
  let s' := print_errorf E s in
  good E s' /\ st_outs s' = st_outs s /\ st_fs s' = st_fs s /\ st_ins s' = st_ins s /\ st_log s' = st_log s /\ st_obs s' = st_obs s.
Proof. exact (flush_out_err_good E s). Qed.

Lemma write_stdout_good E s ps s' ok : good E s -> write_stdout E s ps = (s', ok) ->
  good E s' /\ ok = true /\ st_outs s' = st_outs s.
Proof.
  intros Hg. unfold write_stdout.
  pose proof (touch_frame E s) as Hf. pose proof (good_frame E _ _ Hf Hg) as Hg'.
  destruct Hf as (F1 & F2 & F3 & F4 & F5 & F6 & F7).
  set (s1 := touch E s) in *. destruct Hg' as (Hl & He & Hc & Hx & Hn).
  unfold nobuf in Hn.
  destruct (e_mode E) eqn:Em; cbn [st_out st_sink add_log].
  - destruct (write_pieces_direct_nolimit ps _ Hl) as (k' & Ew & Hl' & Hd'). rewrite Ew.
    intros H; injection H as <- <-. unfold good, out_content, nobuf. rewrite Em. cbn. rewrite Hx. unfold out_content.
    rewrite Hd', Hn, !app_nil_r. auto 10.
  - destruct (write_pieces_direct_nolimit ps _ Hl) as (k' & Ew & Hl' & Hd'). rewrite Ew.
    intros H; injection H as <- <-. unfold good, out_content, nobuf. rewrite Em. cbn. rewrite Hx. unfold out_content.
    rewrite Hd', Hn, !app_nil_r. auto 10.
  - destruct (write_pieces_buf_nolimit cap ps _ _ Hl He) as (w' & k' & Ew & Hl' & He' & Hd'). rewrite Ew.
    intros H; injection H as <- <-. unfold good, out_content, nobuf. rewrite Em. cbn. rewrite Hx. unfold out_content.
    rewrite Hd', <- app_assoc. auto 10.
Qed.

Lemma write_stdout_rec_good E s rec s' ok : good E s -> write_stdout_rec E s rec = (s', ok) ->
  good E s' /\ ok = true /\ st_outs s' = st_outs s.
Proof.
  intros Hg. unfold write_stdout_rec.
  destruct (e_mode E) eqn:Em; try apply (write_stdout_good E s [rec] s' ok Hg).
  destruct (cap <? scratch_size)%nat; [|apply (write_stdout_good E s [rec] s' ok Hg)].
  pose proof (touch_frame E s) as Hf. pose proof (good_frame E _ _ Hf Hg) as Hg'.
  destruct Hf as (F1 & F2 & F3 & F4 & F5 & F6 & F7).
  set (s1 := touch E s) in *. destruct Hg' as (Hl & He & Hc & Hx & Hn).
  cbn [st_out st_sink add_log].
  destruct (write_chunks_buf_nolimit cap (scratch_chunks rec) _ _ Hl He) as (w' & k' & Ew & Hl' & He' & Hd'). rewrite Ew.
  intros H; injection H as <- <-. unfold good, out_content, nobuf. rewrite Em. cbn. rewrite Hx. unfold out_content.
  rewrite Hd', scratch_chunks_concat, <- app_assoc. auto 10.
Qed.

Lemma child_out_good E s data s' ok : good E s -> child_out E s false data = (s', ok) ->
  good E s' /\ ok = true /\ st_outs s' = st_outs s /\ st_fs s' = st_fs s /\ st_ins s' = st_ins s /\ st_obs s' = st_obs s.
Proof.
  intros Hg. unfold child_out. destruct data as [|b data]; [intros H; injection H as <- <-; auto 10|].
  destruct Hg as (Hl & He & Hc & Hx & Hn). unfold nobuf in Hn. set (d := b :: data).
  destruct (e_mode E) eqn:Em; cbn [st_out st_sink add_log].
  - rewrite sink_write_nolimit by auto. intros H; injection H as <- <-.
    unfold good, out_content, nobuf. rewrite Em. cbn. rewrite Hx. unfold out_content. rewrite Hn, !app_nil_r. auto 10.
  - rewrite sink_write_nolimit by auto. intros H; injection H as <- <-.
    unfold good, out_content, nobuf. rewrite Em. cbn. rewrite Hx. unfold out_content. rewrite Hn, !app_nil_r. auto 10.
  - destruct (bw_write_nolimit cap d _ _ Hl He) as (w' & k' & Ew & Hl' & He' & Hd').
    match goal with |- context [if ?c then set_unmod ?x else ?x] => destruct c end; cbn [st_out st_sink add_log set_unmod]; rewrite Ew;
    intros H; injection H as <- <-; unfold good, out_content, nobuf; rewrite Em; cbn; rewrite Hx; unfold out_content;
    rewrite Hd', <- app_assoc; auto 10.
Qed.

Lemma child_eof_good E s s' ok : good E s -> child_eof E s false = (s', ok) ->
  good E s' /\ ok = true /\ st_outs s' = st_outs s /\ st_fs s' = st_fs s /\ st_ins s' = st_ins s /\
  st_log s' = st_log s /\ st_obs s' = st_obs s.
Proof. intros Hg. unfold child_eof. intros H; injection H as <- <-. auto 10. Qed.

Lemma start_proc_good E s c s' cg : good E s -> start_proc E s c = (s', cg) ->
  good E s' /\ cg = false /\ st_outs s' = st_outs s /\ st_ins s' = st_ins s /\ st_obs s' = st_obs s.
Proof.
  intros Hg. unfold start_proc. destruct Hg as (Hl & He & Hc & Hx & Hn). unfold nobuf in Hn.
  intros H; injection H as <- <-.
  destruct (c_sink (e_spec E c)); unfold good, out_content, nobuf; cbn; rewrite Hx; unfold out_content;
    (repeat split; auto); rewrite ?app_nil_r; auto; destruct (e_mode E); auto.
Qed.

Lemma good_set_unmod' E s : good E s -> good E (set_unmod s).
Proof. intros (Hl & He & Hc & Hx & Hn). unfold good, out_content, nobuf in *. cbn. auto. Qed.

(* a detached stream that has not failed *)
Lemma deliver_good E s n o data s' o' : good E s -> os_cgfail o = false -> deliver E s n o data = (s', o') ->
  good E s' /\ os_cgfail o' = false /\ st_outs s' = st_outs s /\ st_ins s' = st_ins s /\ st_obs s' = st_obs s /\
  os_kind o' = os_kind o.
Proof.
  intros Hg Hc. unfold deliver. destruct data as [|b data]; [intros H; injection H as <- <-; auto 10|].
  set (d := b :: data).
  assert (Hfs : forall fs, good E (set_fs s fs)).
  { intros fs. destruct Hg as (Hl & He & Hcc & Hx & Hn). unfold good, out_content, nobuf in *. cbn. auto. }
  destruct (os_kind o) eqn:Ek.
  - destruct (os_off o); intros H; injection H as <- <-; cbn; auto 10.
  - destruct (c_drain (e_spec E n)).
    2:{ intros H; injection H as <- <-. cbn [os_cgfail os_kind].
        destruct (is_synced E s n); cbn [st_outs st_ins st_obs set_unmod]; auto 10 using good_set_unmod'. }
    set (s1 := match c_sink (e_spec E n) with Some t => set_fs s (fs_append (st_fs s) t d) | None => s end).
    assert (Hg1 : good E s1) by (subst s1; destruct (c_sink (e_spec E n)); auto).
    assert (Ho1 : st_outs s1 = st_outs s /\ st_ins s1 = st_ins s /\ st_obs s1 = st_obs s)
      by (subst s1; destruct (c_sink (e_spec E n)); cbn; auto).
    destruct Ho1 as (Ho1 & Hi1 & Hb1).
    destruct (c_echo (e_spec E n)).
    + rewrite Hc. destruct (child_out E s1 false d) as [s2 ok] eqn:Eo.
      destruct (child_out_good _ _ _ _ _ Hg1 Eo) as (Hg2 & -> & Ho2 & Hf2 & Hi2 & Hb2).
      intros H; injection H as <- <-. cbn. rewrite Ho2, Hi2, Hb2. auto 10.
    + intros H; injection H as <- <-. auto 10.
Qed.

Lemma flush_ostream_good E s n o s' o' : good E s -> os_cgfail o = false -> flush_ostream E s n o = (s', o') ->
  good E s' /\ os_cgfail o' = false /\ st_outs s' = st_outs s /\ st_ins s' = st_ins s /\ st_obs s' = st_obs s /\
  os_kind o' = os_kind o.
Proof.
  intros Hg Hc. unfold flush_ostream. destruct (deliver E s n o (os_buf o)) as [s1 o1] eqn:Ed.
  destruct (deliver_good _ _ _ _ _ _ _ Hg Hc Ed) as (? & ? & ? & ? & ? & ?).
  intros HH; injection HH as <- <-. cbn. auto 10.
Qed.

Lemma write_ostream_good E s n o p s' o' : good E s -> os_cgfail o = false -> write_ostream E s n o p = (s', o') ->
  good E s' /\ os_cgfail o' = false /\ st_outs s' = st_outs s /\ st_ins s' = st_ins s /\ st_obs s' = st_obs s.
Proof.
  intros Hg Hc. unfold write_ostream. destruct (buf_bytes (e_fcap E) (os_buf o) p) as [f r].
  destruct (deliver E s n o f) as [s1 o1] eqn:Ed.
  destruct (deliver_good _ _ _ _ _ _ _ Hg Hc Ed) as (? & ? & ? & ? & ? & ?).
  intros HH; injection HH as <- <-. cbn. auto 10.
Qed.

(* replacing or removing table entries keeps [good] *)
Lemma good_set_outs E s outs : good E s -> (forall n o, In (n, o) outs -> os_cgfail o = false) -> good E (set_outs s outs).
Proof. intros (Hl & He & Hc & Hx & Hn) H. unfold good, out_content, nobuf in *. cbn. auto. Qed.

Lemma good_aset E s n o : good E s -> os_cgfail o = false -> good E (set_outs s (aset n o (st_outs s))).
Proof.
  intros Hg Hc. apply good_set_outs; auto. intros m o2 Hin. apply In_aset in Hin.
  destruct Hin as [[-> ->]|[Hin _]]; auto. destruct Hg as (_ & _ & H & _). eauto.
Qed.

Lemma good_aset' E s n o outs : good E s -> os_cgfail o = false ->
  (forall m o2, In (m, o2) outs -> os_cgfail o2 = false) -> good E (set_outs s (aset n o outs)).
Proof.
  intros Hg Hc H. apply good_set_outs; auto. intros m o2 Hin. apply In_aset in Hin.
  destruct Hin as [[-> ->]|[Hin _]]; eauto.
Qed.

Lemma good_aremove E s n : good E s -> good E (set_outs s (aremove n (st_outs s))).
Proof.
  intros Hg. apply good_set_outs; auto. intros m o2 Hin. apply In_aremove in Hin.
  destruct Hg as (_ & _ & H & _). destruct Hin. eauto.
Qed.

Lemma good_lookup E s n o : good E s -> alookup n (st_outs s) = Some o -> os_cgfail o = false.
Proof. intros (_ & _ & H & _) Hl. apply alookup_In in Hl. eauto. Qed.

Lemma good_add_log E s e : good E s -> (match e with EvWrite WStdout _ | EvChildOut _ => False | _ => True end) -> good E (add_log s e).
Proof.
  intros (Hl & He & Hc & Hx & Hn) H. unfold good, out_content, nobuf in *. cbn [st_log st_sink st_out st_outs add_log expected_stdout].
  repeat split; auto. rewrite Hx. destruct e as [| [] | | | |]; try contradiction; rewrite app_nil_r; auto.
Qed.

Lemma good_add_obs E s o : good E s -> good E (add_obs s o).
Proof. intros (Hl & He & Hc & Hx & Hn). unfold good, out_content, nobuf in *. cbn. auto. Qed.

Lemma good_set_ins E s i : good E s -> good E (set_ins s i).
Proof. intros (Hl & He & Hc & Hx & Hn). unfold good, out_content, nobuf in *. cbn. auto. Qed.

Lemma good_set_fs E s fs : good E s -> good E (set_fs s fs).
Proof. intros (Hl & He & Hc & Hx & Hn). unfold good, out_content, nobuf in *. cbn. auto. Qed.

Lemma good_set_unmod E s : good E s -> good E (set_unmod s).
Proof. intros (Hl & He & Hc & Hx & Hn). unfold good, out_content, nobuf in *. cbn. auto. Qed.

Lemma good_set_overlap E s : good E s -> good E (set_overlap s).
Proof. intros (Hl & He & Hc & Hx & Hn). unfold good, out_content, nobuf in *. cbn. auto. Qed.

Lemma flush_named_good E s n o : good E s -> alookup n (st_outs s) = Some o -> good E (flush_named E s n o).
Proof.
  intros Hg Hl. unfold flush_named. destruct (flush_ostream E s n o) as [s1 o1] eqn:Ef.
  destruct (flush_ostream_good _ _ _ _ _ _ Hg (good_lookup _ _ _ _ Hg Hl) Ef) as (Hg1 & Hc1 & _).
  cbv zeta. assert (Hg2 : good E (set_outs s1 (aset n o1 (st_outs s1)))) by (apply good_aset; auto).
  destruct (os_err o1); auto. apply print_errorf_good; auto.
Qed.

Lemma flush_streams_good E ns : forall s, good E s -> good E (flush_streams E s ns).
Proof.
  induction ns as [|n ns IH]; intros s Hg; cbn [flush_streams]; auto.
  destruct (alookup n (st_outs s)) eqn:El; auto. apply IH. eapply flush_named_good; eauto.
Qed.

Lemma flush_all_good E s s' ok : good E s -> flush_all E s = (s', ok) -> good E s' /\ True.
Proof.
  intros Hg. unfold flush_all.
  pose proof (flush_streams_good E (map fst (st_outs s)) s Hg) as Hg1.
  destruct (flush_stdout E _) as [s2 ok2] eqn:Ef.
  destruct (flush_stdout_good _ _ _ _ Hg1 Ef) as (Hg2 & -> & _).
  intros H; injection H as <- <-. auto.
Qed.

Lemma close_ostream_good E s n o s' code err : good E s -> os_cgfail o = false ->
  close_ostream E s n o = (s', code, err) ->
  good E s' /\ code = match os_kind o with KFile => 0 | KCmd => fst (wait_result (c_exit (e_spec E n)) false) end.
Proof.
  intros Hg Hc. unfold close_ostream. destruct (flush_ostream E s n o) as [s1 o1] eqn:Ef.
  destruct (flush_ostream_good _ _ _ _ _ _ Hg Hc Ef) as (Hg1 & Hc1 & _ & _ & _ & Hk). rewrite Hk.
  destruct (os_kind o).
  - intros H; injection H as <- <- <-. auto.
  - rewrite Hc1. destruct (child_eof E s1 false) as [s2 ok] eqn:Ee.
    destruct (child_eof_good _ _ _ _ Hg1 Ee) as (Hg2 & -> & _). cbn [negb].
    destruct (wait_result _ false) as [c e]. intros H; injection H as <- <- <-. auto.
Qed.


Lemma close_streams_good E ns : forall s, good E s -> good E (close_streams E s ns).
Proof.
  induction ns as [|n ns IH]; intros s Hg; cbn [close_streams]; auto.
  destruct (alookup n (st_outs s)) as [o|] eqn:El; auto.
  destruct (close_ostream E _ n o) as [[s1 code] err] eqn:Ec.
  destruct (close_ostream_good _ _ _ _ _ _ _ (good_aremove E s n Hg) (good_lookup _ _ _ _ Hg El) Ec) as (Hg1 & _).
  apply IH. apply good_add_log; auto.
Qed.

Lemma close_all_good E s : good E s -> good E (close_all E s) /\ bw_buf (st_out (close_all E s)) = [].
Proof.
  intros Hg. unfold close_all.
  pose proof (close_streams_good E (map fst (st_outs (set_ins s []))) _ (good_set_ins E s [] Hg)) as Hg1.
  set (s1 := close_streams E _ _) in *.
  unfold flush_out_err. destruct (flush_stdout E s1) as [s2 ok] eqn:Ef. cbn [fst].
  destruct (flush_stdout_good _ _ _ _ Hg1 Ef) as (Hg2 & _). split; auto.
  revert Ef. unfold flush_stdout. destruct (e_mode E) eqn:Em.
  - intros H; injection H as <- <-. destruct Hg1 as (_ & _ & _ & _ & Hn). unfold nobuf in Hn. rewrite Em in Hn. auto.
  - intros H; injection H as <- <-. destruct Hg1 as (_ & _ & _ & _ & Hn). unfold nobuf in Hn. rewrite Em in Hn. auto.
  - pose proof (good_frame E _ _ (touch_frame E s1) Hg1) as (Hl & He & _).
    destruct (bw_flush_nolimit _ _ Hl He) as (w' & k' & Ew & _ & _ & Hb & _). rewrite Ew.
    intros H; injection H as <- <-. cbn. auto.
Qed.

Lemma get_output_stream_good E s d s' r : good E s -> get_output_stream E s d = (s', r) -> good E s'.
Proof.
  intros Hg. unfold get_output_stream. destruct d as [| | |r0 n].
  - intros H; injection H as <- <-; auto.
  - intros H; injection H as <- <-; auto.
  - intros H; injection H as <- <-. apply flush_out_err_good; auto.
  - destruct (amem n (st_ins s)); [intros H; injection H as <- <-; auto|].
    destruct (amem n (st_outs s)); [intros H; injection H as <- <-; auto|].
    destruct (flush_out_err_good E s Hg) as (Hg1 & Ho1 & _). set (s1 := flush_out_err E s) in *.
    destruct r0.
    + destruct (e_bad E n) eqn:Eb; intros H; injection H as <- <-; auto.
      apply good_aset'; auto; [apply good_add_log; auto; apply good_set_fs; auto|].
      cbn [st_outs add_log set_fs]. destruct Hg1 as (_ & _ & Hc & _). exact Hc.
    + destruct (e_bad E n) eqn:Eb; intros H; injection H as <- <-; auto.
      apply good_aset'; auto; [apply good_add_log; auto; apply good_set_fs; auto|].
      cbn [st_outs add_log set_fs]. destruct Hg1 as (_ & _ & Hc & _). exact Hc.
    + match goal with |- context [if ?c then set_unmod s1 else s1] => set (s2 := if c then set_unmod s1 else s1) end.
      assert (Hg2 : good E s2) by (subst s2; match goal with |- good E (if ?c then _ else _) => destruct c end; auto using good_set_unmod).
      pose proof (good_add_log E s2 (EvOpen n KCmd false) Hg2 I) as Hg3.
      destruct (start_proc E _ n) as [s4 cg] eqn:Es.
      destruct (start_proc_good _ _ _ _ _ Hg3 Es) as (Hg4 & -> & _).
      destruct (child_out E s4 false _) as [s5 ok] eqn:Ec.
      destruct (child_out_good _ _ _ _ _ Hg4 Ec) as (Hg5 & -> & _).
      intros H; injection H as <- <-. apply good_aset; auto.
      match goal with |- good E (if ?c then _ else _) => destruct c end; auto using good_set_unmod.
Qed.

Lemma scan_stream_good E s n i : good E s -> good E (scan_stream s n i).
Proof.
  intros Hg. unfold scan_stream. destruct (is_rest i); [apply good_add_obs; auto|].
  destruct (scan_line [] _). repeat apply good_add_obs. apply good_set_ins. auto.
Qed.

Lemma good_add_synced E s n : good E s -> good E (add_synced s n).
Proof. intros (Hl & He & Hc & Hx & Hn). unfold good, out_content, nobuf in *. cbn. auto. Qed.

Lemma getline_file_good E s n s' oc : good E s -> getline_file E s n = (s', oc) -> good E s'.
Proof.
  intros Hg0. unfold getline_file.
  set (s0 := if sink_busy E s n then set_unmod s else s).
  assert (Hg : good E s0) by (subst s0; destruct (sink_busy E s n); auto using good_set_unmod).
  clearbody s0.
  destruct (amem n (st_outs s0)); [intros H; injection H as <- <-; auto|].
  destruct (alookup n (st_ins s0)) as [i|]; [intros H; injection H as <- <-; apply scan_stream_good; auto|].
  destruct (alookup n (st_fs s0)); intros H; injection H as <- <-.
  - apply scan_stream_good. apply good_set_ins; auto.
  - apply good_add_obs; auto.
Qed.

Lemma step_print_good E s d ps wr s' oc : good E s ->
  (forall s1 s2 ok, good E s1 -> wr s1 = (s2, ok) -> good E s2) ->
  step_print E s d ps wr = (s', oc) -> good E s'.
Proof.
  intros Hg Hwr. unfold step_print.
  destruct (get_output_stream E s d) as [s1 [[|n]|]] eqn:Eg;
      pose proof (get_output_stream_good _ _ _ _ _ Hg Eg) as Hg1.
    + destruct (wr s1) as [s2 ok] eqn:Ew. pose proof (Hwr _ _ _ Hg1 Ew) as Hg2.
      destruct ok; intros H; injection H as <- <-; auto.
    + destruct (alookup n (st_outs s1)) as [os|] eqn:El; [|intros H; injection H as <- <-; auto].
      set (s1' := add_log s1 _).
      assert (Hg1' : good E s1') by (subst s1'; apply good_add_log; auto; destruct (os_kind os); exact I).
      destruct (write_ostream E s1' n os (concat ps)) as [s2 os'] eqn:Ew.
      destruct (write_ostream_good _ _ _ _ _ _ _ Hg1' (good_lookup _ _ _ _ Hg1 El) Ew) as (Hg2 & Hc2 & _).
      intros H; injection H as <- <-. apply good_aset; auto.
    + intros H; injection H as <- <-; auto.
Qed.

Lemma step_good E s o s' oc : good E s -> step E s o = (s', oc) -> good E s'.
Proof.
  intros Hg. destruct o as [d ps|n|[n|]|c|n|c| |code| |n|d rec]; cbn [step].
  - (* Print *)
    apply step_print_good; auto. intros s1 s2 ok Hg1 Ew. eapply write_stdout_good; eauto.
  - (* Close *)
    destruct (alookup n (st_ins s)) as [i|] eqn:Ei.
    + destruct (if is_cmd i then wait_result (c_exit (e_spec E n)) false else (0, false)) as [code err].
      intros H; injection H as <- <-. apply good_add_obs.
      assert (Hg1 : good E (add_log (set_ins s (aremove n (st_ins s))) (EvClose n true code)))
        by (apply good_add_log; auto; apply good_set_ins; auto).
      destruct err; auto. apply print_errorf_good; auto.
    + destruct (alookup n (st_outs s)) as [os|] eqn:El; [|intros H; injection H as <- <-; apply good_add_obs; auto].
      destruct (close_ostream E _ n os) as [[s1 code] err] eqn:Ec.
      destruct (close_ostream_good _ _ _ _ _ _ _ (good_aremove E s n Hg) (good_lookup _ _ _ _ Hg El) Ec) as (Hg1 & _).
      intros H; injection H as <- <-. apply good_add_obs.
      assert (Hg2 : good E (add_log s1 (EvClose n false code))) by (apply good_add_log; auto).
      destruct err; auto. apply print_errorf_good; auto.
  - (* Fflush name *)
    destruct (alookup n (st_outs s)) as [os|] eqn:El; intros H; injection H as <- <-; apply good_add_obs.
    + eapply flush_named_good; eauto.
    + apply print_errorf_good; auto.
  - (* Fflush all *)
    destruct (flush_all E s) as [s1 ok] eqn:Ef. destruct (flush_all_good _ _ _ _ Hg Ef) as (Hg1 & _).
    intros H; injection H as <- <-. apply good_add_obs; auto.
  - (* System *)
    destruct (flush_all E s) as [s1 ok] eqn:Ef. destruct (flush_all_good _ _ _ _ Hg Ef) as (Hg1 & _).
    destruct (start_proc E s1 c) as [s2 cg] eqn:Es. destruct (start_proc_good _ _ _ _ _ Hg1 Es) as (Hg2 & -> & _).
    destruct (child_out E s2 false _) as [s3 ok3] eqn:Ec. destruct (child_out_good _ _ _ _ _ Hg2 Ec) as (Hg3 & -> & _).
    cbn [negb]. destruct (child_eof E s3 false) as [s4 ok4] eqn:Ee. destruct (child_eof_good _ _ _ _ Hg3 Ee) as (Hg4 & -> & _).
    destruct (wait_result _ _) as [code err]. intros H; injection H as <- <-. apply good_add_obs.
    destruct err; auto. apply print_errorf_good; auto.
  - (* GetlineFile *)
    apply getline_file_good; auto.
  - (* GetlineCmd *)
    destruct (amem c (st_outs s)); [intros H; injection H as <- <-; auto|].
    destruct (alookup c (st_ins s)) as [i|]; [intros H; injection H as <- <-; apply scan_stream_good; auto|].
    destruct (flush_out_err_good E s Hg) as (Hg1 & _).
    destruct (start_proc E _ c) as [s2 cg] eqn:Es. destruct (start_proc_good _ _ _ _ _ Hg1 Es) as (Hg2 & _).
    intros H; injection H as <- <-. apply scan_stream_good. apply good_set_ins; auto.
  - intros H; injection H as <- <-. apply good_add_obs. apply flush_out_err_good; auto.
  - intros H; injection H as <- <-; auto.
  - intros H; injection H as <- <-; auto.
  - (* AwaitFile *)
    destruct (amem n (st_outs s)); [intros H; injection H as <- <-; auto|].
    destruct (negb (amem n (st_ins s)) && negb (amem n (st_fs s))); [intros H; injection H as <- <-; auto using good_set_unmod|].
    apply getline_file_good. apply good_add_synced; auto.
  - (* print in CSV/TSV mode *)
    apply step_print_good; auto. intros s1 s2 ok Hg1 Ew. eapply write_stdout_rec_good; eauto.
Qed.

Lemma exec_good E ops : forall s s' r, good E s -> exec E s ops = (s', r) -> good E s'.
Proof.
  induction ops as [|o ops IH]; intros s s' r Hg; cbn [exec].
  - intros H; injection H as <- <-; auto.
  - destruct (step E s o) as [s1 [| |]] eqn:Es; pose proof (step_good _ _ _ _ _ Hg Es) as Hg1.
    + apply IH; auto.
    + intros H; injection H as <- <-; auto.
    + intros H; injection H as <- <-; auto.
Qed.

Lemma init_good E fs : good E (init_state fs None).
Proof. unfold good, init_state, out_content, nobuf. cbn. repeat split; auto; try contradiction. destruct (e_mode E); auto. Qed.

(* standard output, when its writer never fails: at the end of the run --
   normal end, exit, or run-time error -- it holds exactly the writes of the
   program and of its children in the order they were issued *)
Theorem stdout_delivered E fs ops s r :
  run E (init_state fs None) ops = (s, r) -> sk_data (st_sink s) = expected_stdout (st_log s).
Proof.
  unfold run. destruct (exec E _ ops) as [s1 r1] eqn:Ee. intros H; injection H as <- <-.
  pose proof (exec_good _ _ _ _ _ (init_good E fs) Ee) as Hg1.
  destruct (close_all_good E s1 Hg1) as ((_ & _ & _ & Hx & _) & Hb). rewrite Hx. unfold out_content. rewrite Hb, app_nil_r. auto.
Qed.
