(* C04 — the general lemma: a writing that respects the table (fits) is read back by the parser
   model as exactly the tree that was written, at every position, in both towers. *)
From Verif Require Import Lib.Base Model.ExprAst Model.ExprParser Proofs.ExprParserMono Proofs.ExprParserRel Proofs.PrecSpec.
Local Open Scope nat_scope.

(* ---- induction on trees with lists of sub-trees ---- *)
Section ExprInd.
  Variable P : expr -> Prop.
  Definition optP (o : option expr) : Prop := match o with Some x => P x | None => True end.
  Hypothesis HNum : forall s, P (ENum s).
  Hypothesis HStr : forall s, P (EStr s).
  Hypothesis HStrRegex : forall s, P (EStrRegex s).
  Hypothesis HRegex : forall s, P (ERegex s).
  Hypothesis HField : forall i, P i -> P (EField i).
  Hypothesis HNamedField : forall i, P i -> P (ENamedField i).
  Hypothesis HVar : forall s, P (EVar s).
  Hypothesis HIndex : forall a idx, Forall P idx -> P (EIndex a idx).
  Hypothesis HIn : forall idx a, Forall P idx -> P (EIn idx a).
  Hypothesis HUnary : forall op v, P v -> P (EUnary op v).
  Hypothesis HBinary : forall op l r, P l -> P r -> P (EBinary op l r).
  Hypothesis HCond : forall c t f, P c -> P t -> P f -> P (ECond c t f).
  Hypothesis HAssign : forall l r, P l -> P r -> P (EAssign l r).
  Hypothesis HAugAssign : forall op l r, P l -> P r -> P (EAugAssign op l r).
  Hypothesis HIncr : forall op pre x, P x -> P (EIncr op pre x).
  Hypothesis HCall : forall f args, Forall P args -> P (ECall f args).
  Hypothesis HUserCall : forall n args, Forall P args -> P (EUserCall n args).
  Hypothesis HMulti : forall es, Forall P es -> P (EMulti es).
  Hypothesis HGetline : forall c t f, optP c -> optP t -> optP f -> P (EGetline c t f).
  Hypothesis HGroup : forall x, P x -> P (EGroup x).

  Fixpoint expr_ind' (e : expr) : P e :=
    let all := fix all (l : list expr) : Forall P l :=
      match l with [] => Forall_nil P | x :: r => Forall_cons x (expr_ind' x) (all r) end in
    let opt := fun (o : option expr) => match o return optP o with Some x => expr_ind' x | None => I end in
    match e with
    | ENum s => HNum s | EStr s => HStr s | EStrRegex s => HStrRegex s | ERegex s => HRegex s
    | EField i => HField i (expr_ind' i)
    | ENamedField i => HNamedField i (expr_ind' i)
    | EVar s => HVar s
    | EIndex a idx => HIndex a idx (all idx)
    | EIn idx a => HIn idx a (all idx)
    | EUnary op v => HUnary op v (expr_ind' v)
    | EBinary op l r => HBinary op l r (expr_ind' l) (expr_ind' r)
    | ECond c t f => HCond c t f (expr_ind' c) (expr_ind' t) (expr_ind' f)
    | EAssign l r => HAssign l r (expr_ind' l) (expr_ind' r)
    | EAugAssign op l r => HAugAssign op l r (expr_ind' l) (expr_ind' r)
    | EIncr op pre x => HIncr op pre x (expr_ind' x)
    | ECall f args => HCall f args (all args)
    | EUserCall n args => HUserCall n args (all args)
    | EMulti es => HMulti es (all es)
    | EGetline c t f => HGetline c t f (opt c) (opt t) (opt f)
    | EGroup x => HGroup x (expr_ind' x)
    end.
End ExprInd.

(* ---- small facts about ok / fits / flat ---- *)

Lemma leb_le a b : (a <=? b) = true <-> a <= b.
Proof. apply Nat.leb_le. Qed.

Lemma okn_zero e : forall pc, okn pc e 0 0 = true.
Proof.
  induction e using expr_ind'; intros pc; cbn [okn]; try reflexivity;
    try (destruct pc; reflexivity); try (rewrite ?IHe, ?IHe2, ?IHe3; destruct pc; reflexivity).
  - destruct op; rewrite IHe2; destruct pc; reflexivity.
  - destruct pre; [apply IHe | reflexivity].
  - destruct f as [f|]; [apply H1|]. destruct t as [t|]; [cbn in H0; rewrite H0|]; reflexivity.
Qed.

Lemma ok_zero pc e t : tok_cont false t = 0 -> ok pc e t = true.
Proof.
  intros H. unfold ok. rewrite H.
  assert (Ht : tok_cont true t = 0) by (pose proof (tok_cont_true_le t); lia).
  rewrite Ht. apply okn_zero.
Qed.

Lemma fits_mono pc k k' e : fits pc k e -> k' <= k -> fits pc k' e.
Proof.
  intros H Hk. destruct e; cbn [fits] in *; try exact H.
  - destruct idx as [|x [|y r]]; try exact H. destruct H as (H1 & H2); split; [lia | exact H2].
  - destruct op; intuition lia.
  - intuition lia.
  - intuition lia.
  - intuition lia.
  - destruct pre; [exact H|]. destruct e; try exact H; intuition lia.
Qed.

(* the rank of the level function that creates the node *)
Definition nat_rk (e : expr) : nat :=
  match e with
  | EBinary op _ _ =>
      match op with
      | BOr => 3 | BAnd => 4 | BMatch | BNotMatch => 6 | BConcat => 8 | BAdd | BSub => 9
      | BMul | BDiv | BMod => 10 | BPow => 11 | _ => 7
      end
  | ECond _ _ _ => 2
  | EAssign _ _ | EAugAssign _ _ _ => 0
  | EIn [_] _ => 5
  | EIncr _ false (EField _) => 13
  | EIncr _ false _ => 12
  | _ => 13
  end.

Lemma fits_nat pc k e : k <= 13 -> fits pc k e -> k <= nat_rk e.
Proof.
  intros Hk H. destruct e; cbn [fits nat_rk] in *; try lia; try contradiction.
  all: try solve [destruct idx as [|x [|y r]]; try lia; destruct H; lia].
  all: try solve [destruct op; intuition lia].
  all: try solve [destruct pre; [lia|]; destruct e; try lia; try contradiction; intuition lia].
Qed.

Lemma ret_nat e : nat_rk e <= rk (ret_lvl e).
Proof.
  destruct e; cbn; try lia.
  - destruct idx as [|x [|y r]]; cbn; lia.
  - destruct op; cbn; lia.
  - destruct pre; cbn; try lia. destruct e; cbn; lia.
Qed.

Definition loop_rank (j : nat) : Prop := j = 3 \/ j = 4 \/ j = 5 \/ j = 8 \/ j = 9 \/ j = 10.

Lemma ret_loop e : loop_rank (nat_rk e) -> rk (ret_lvl e) = nat_rk e + 1.
Proof.
  unfold loop_rank. destruct e; cbn; try lia.
  - destruct idx as [|x [|y r]]; cbn; lia.
  - destruct op; cbn; lia.
  - destruct pre; cbn; try lia. destruct e; cbn; lia.
Qed.

Lemma fits_ret_left pc j l : fits pc j l -> loop_rank j -> j + 1 <= rk (ret_lvl l).
Proof.
  intros H Hj. apply fits_nat in H; [|unfold loop_rank in Hj; lia]. pose proof (ret_nat l).
  destruct (Nat.eq_dec (nat_rk l) j) as [E|E]; [|lia].
  rewrite ret_loop; [lia | rewrite E; exact Hj].
Qed.

Lemma fits_ret pc k e : k <= 13 -> fits pc k e -> k <= rk (ret_lvl e).
Proof. intros Hk H. apply fits_nat in H; [|lia]. pose proof (ret_nat e). lia. Qed.

Lemma rk_le13 l : rk l <= 13.
Proof. destruct l; cbn; lia. Qed.

Lemma fits_prim pc e : fits pc 13 e -> ret_lvl e = LPrimary.
Proof.
  intros H. apply fits_nat in H; [|lia].
  destruct e; cbn in *; try reflexivity; try lia.
  - destruct idx as [|x [|y r]]; cbn in *; try reflexivity; lia.
  - destruct op; lia.
  - destruct pre; [reflexivity|]. destruct e; cbn in *; try reflexivity; lia.
Qed.

Lemma ret_not_getline e : ret_lvl e <> LGetline.
Proof.
  destruct e; cbn; try congruence.
  - destruct idx as [|x [|y r]]; congruence.
  - destruct op; congruence.
  - destruct pre; try congruence. destruct e; congruence.
Qed.

(* a writing starts with a token that can only start an operand *)
Definition is_start (t : tok) : bool :=
  match t with
  | TNumber _ | TString _ | TRegex _ | TName _ | TDollar | TNot | TAdd | TSub | TIncr | TDecr
  | TLParen _ | TFunc _ | TGetline | TAt => true
  | _ => false
  end.

Lemma hd_tok_app ts rest : is_start (hd_tok ts) = true -> hd_tok (ts ++ rest) = hd_tok ts.
Proof. destruct ts; cbn; [discriminate | reflexivity]. Qed.

Lemma flat_start e : forall pc k, fits pc k e -> is_start (first_tok e) = true.
Proof.
  unfold first_tok.
  induction e using expr_ind'; intros pc k Hf; cbn [fits flat] in *; try reflexivity; try contradiction.
  - (* EIn *)
    destruct idx as [|x [|y r]]; try contradiction; [|reflexivity].
    destruct Hf as (_ & Hx & _). inversion H; subst.
    rewrite hd_tok_app; eauto.
  - destruct op; reflexivity.
  - (* EBinary *)
    assert (Hl : exists k', fits pc k' e1) by (destruct op; eexists; apply Hf).
    destruct Hl as [k' Hl]. rewrite hd_tok_app; eauto.
  - destruct Hf as (_ & Hc & _). rewrite hd_tok_app; eauto.
  - destruct Hf as (_ & _ & Hl & _). rewrite hd_tok_app; eauto.
  - destruct Hf as (_ & _ & Hl & _). rewrite hd_tok_app; eauto.
  - destruct pre; [destruct op; reflexivity|].
    destruct e; try contradiction; try reflexivity.
Qed.

Lemma start_cons ts : is_start (hd_tok ts) = true -> exists t r, ts = t :: r /\ is_start t = true.
Proof. destruct ts as [|t r]; cbn; [discriminate|]. eauto. Qed.

Lemma start_no_stop ts rest : is_start (hd_tok ts) = true -> exprlist_stop (ts ++ rest) = false.
Proof. intros H. apply start_cons in H as (t & r & -> & Ht). destruct t; cbn in *; congruence. Qed.

Lemma start_skip_nl ts rest : is_start (hd_tok ts) = true -> skip_nl (ts ++ rest) = ts ++ rest.
Proof. intros H. apply start_cons in H as (t & r & -> & Ht). destruct t; cbn in *; congruence. Qed.

(* ---- the general lemma ---- *)

Lemma prim_var_pc pc s r : tok_cont pc (hd_tok r) <= 13 -> Prim (TName s :: r) (EVar s, r).
Proof.
  intros H. apply prim_var. destruct r as [|t r']; cbn in *; [lia|].
  destruct t; cbn in *; try lia; destruct sp, pc; cbn in *; lia.
Qed.

Lemma optlv_var_pc pc s r : tok_cont pc (hd_tok r) <= 13 -> OptLv (TName s :: r) (Some (EVar s), r).
Proof.
  intros H. apply optlv_var. destruct r as [|t r']; cbn in *; [lia|].
  destruct t; cbn in *; try lia; destruct sp, pc; cbn in *; lia.
Qed.

Definition M (e : expr) : Prop :=
  forall k pc rest R,
    fits pc (rk k) e -> ok pc e (hd_tok rest) = true -> (pc = true -> k <> LGetline) ->
    PF pc k (ret_lvl e) e rest R ->
    Parses k pc None (flat e ++ rest) R.

Lemma M_closed e : M e -> forall k pc rest,
  fits pc (rk k) e -> ok pc e (hd_tok rest) = true -> (pc = true -> k <> LGetline) ->
  tok_cont pc (hd_tok rest) <= rk k ->
  Parses k pc None (flat e ++ rest) (e, rest).
Proof.
  intros HM k pc rest Hf Hok Hpc Hc. apply HM; try assumption.
  apply pf_stops; [|exact Hc].
  apply reach_of_rank; [eapply fits_ret; [apply rk_le13 | exact Hf]|].
  intros ->. split; [apply ret_not_getline | auto].
Qed.

Lemma M_prim e : M e -> forall rest,
  fits false 13 e -> ok false e (hd_tok rest) = true -> Prim (flat e ++ rest) (e, rest).
Proof.
  intros HM rest Hf Hok. apply (prim_of_parses false).
  apply HM; try assumption; try discriminate.
  rewrite (fits_prim _ _ Hf). apply PF_done.
Qed.

Definition tailc (es : list expr) : list tok := flat_map (fun x => TComma :: flat x) es.

Lemma commas_cons x r : commas flat (x :: r) = flat x ++ tailc r.
Proof.
  revert x. induction r as [|y r IH]; intros x; cbn [commas tailc flat_map].
  - rewrite app_nil_r. reflexivity.
  - f_equal. specialize (IH y). cbn [commas] in IH. cbn [app]. f_equal. exact IH.
Qed.

Lemma exprlist_tail c rest : exprlist_stop (c :: rest) = true -> tok_cont false c = 0 ->
  forall es, Forall M es -> all_fit (fits false 0) es ->
  ExprList false false (tailc es ++ c :: rest) (es, c :: rest).
Proof.
  intros Hstop Hc. induction es as [|x es IH]; intros HM Hf.
  - apply exprlist_nil. exact Hstop.
  - inversion HM as [|? ? Hx HMs]; subst. destruct Hf as [Hfx Hfs].
    cbn [tailc flat_map app]. rewrite <- app_assoc.
    pose proof (flat_start _ _ _ Hfx) as Hst.
    eapply exprlist_next; [|apply IH; assumption].
    rewrite start_skip_nl by exact Hst.
    assert (Hz : tok_cont false (hd_tok (flat_map (fun x0 => TComma :: flat x0) es ++ c :: rest)) = 0)
      by (destruct es; cbn; [exact Hc | reflexivity]).
    apply (M_closed _ Hx LExpr false); try assumption; try discriminate.
    + apply ok_zero. exact Hz.
    + cbn [rk]. fold (tailc es). unfold tailc. lia.
Qed.

Lemma exprlist_all c rest : exprlist_stop (c :: rest) = true -> tok_cont false c = 0 ->
  forall x es, Forall M (x :: es) -> all_fit (fits false 0) (x :: es) ->
  ExprList false true (commas flat (x :: es) ++ c :: rest) (x :: es, c :: rest).
Proof.
  intros Hstop Hc x es HM Hf.
  inversion HM as [|? ? Hx HMs]; subst. destruct Hf as [Hfx Hfs].
  rewrite commas_cons, <- app_assoc.
  pose proof (flat_start _ _ _ Hfx) as Hst.
  eapply exprlist_first; [apply start_no_stop; exact Hst | | apply exprlist_tail; assumption].
  assert (Hz : tok_cont false (hd_tok (tailc es ++ c :: rest)) = 0)
    by (destruct es; cbn; [exact Hc | reflexivity]).
  apply (M_closed _ Hx LExpr false); try assumption; try discriminate.
  - apply ok_zero. exact Hz.
  - cbn [rk]. lia.
Qed.

Ltac ok_split H H1 H2 :=
  unfold ok in H; cbn [okn] in H; apply andb_prop in H as [H1 H2]; apply leb_le in H1; fold (ok) in *.

(* left-associative loop levels with an operator token: || && + - * / % *)
Section Loop.
  Variables (op : binop) (lj lh : lvl) (t : tok).
  Hypothesis Hlow : forall pc, lower pc lh = Some lj.
  Hypothesis Hrk : rk lh = rk lj + 1.
  Hypothesis Hloop : loop_rank (rk lj).
  Hypothesis Hcont : forall pc, tok_cont pc t = rk lj + 1.
  Hypothesis Hng : lj <> LGetline /\ lh <> LGetline.
  Hypothesis Haft : forall pc e r rgt ts' R, skip_nl r = r ->
    Parses lh pc None r (rgt, ts') -> Afters lj pc (EBinary op e rgt) ts' R -> Afters lj pc e (t :: r) R.
  Hypothesis Hfits : forall pc k l r, fits pc k (EBinary op l r) ->
    k <= rk lj /\ fits pc (rk lj) l /\ ok pc l t = true /\ fits pc (rk lh) r.
  Hypothesis Hok : forall pc l r t', ok pc (EBinary op l r) t' = true ->
    tok_cont pc t' <= rk lh /\ ok pc r t' = true.
  Hypothesis Hret : forall l r, ret_lvl (EBinary op l r) = lh.
  Hypothesis Hflat : forall l r, flat (EBinary op l r) = flat l ++ t :: flat r.

  Lemma M_loop l r : M l -> M r -> M (EBinary op l r).
  Proof.
    intros Ml Mr k pc rest R Hf Ho Hpc HF.
    apply Hfits in Hf as (Hk & Fl & Okl & Fr). apply Hok in Ho as (Hc & Okr).
    rewrite Hret in HF. rewrite Hflat, <- app_assoc. cbn [app].
    destruct (pf_inv _ _ _ _ _ _ HF ltac:(lia)) as (l' & e1 & ts1 & Hl' & HA & HF').
    rewrite Hlow in Hl'. injection Hl' as <-.
    apply Ml; try assumption.
    - eapply fits_mono; [exact Fl | exact Hk].
    - eapply pf_skip with (l1 := lh).
      + apply reach_of_rank; [rewrite Hrk; apply (fits_ret_left pc); assumption|].
        intros _. split; [apply ret_not_getline | apply Hng].
      + cbn [hd_tok]. rewrite Hcont. lia.
      + eapply PF_step; [apply Hlow | | exact HF'].
        pose proof (flat_start _ _ _ Fr) as Hst.
        apply Haft with (rgt := r) (ts' := rest); [apply start_skip_nl; exact Hst | | exact HA].
        apply (M_closed _ Mr); try assumption.
        intros _. apply Hng.
  Qed.
End Loop.

Lemma M_or l r : M l -> M r -> M (EBinary BOr l r).
Proof.
  apply (M_loop BOr LOr LAnd TOr); try reflexivity; try (cbn; unfold loop_rank; lia); try (split; congruence).
  - intros pc e r0 rgt ts' R Hs HP HA. eapply aft_loop_or; [rewrite Hs; exact HP | exact HA].
  - intros pc k l0 r0 H. exact H.
  - intros pc l0 r0 t' H. ok_split H H1 H2. split; [cbn; destruct pc; exact H1 | exact H2].
Qed.

Lemma M_and l r : M l -> M r -> M (EBinary BAnd l r).
Proof.
  apply (M_loop BAnd LAnd LIn TAnd); try reflexivity; try (cbn; unfold loop_rank; lia); try (split; congruence).
  - intros pc e r0 rgt ts' R Hs HP HA. eapply aft_loop_and; [rewrite Hs; exact HP | exact HA].
  - intros pc k l0 r0 H. exact H.
  - intros pc l0 r0 t' H. ok_split H H1 H2. split; [cbn; destruct pc; exact H1 | exact H2].
Qed.

Lemma ok_same_cont pc e t t' :
  tok_cont true t = tok_cont true t' -> tok_cont false t = tok_cont false t' -> ok pc e t = ok pc e t'.
Proof. unfold ok. intros -> ->. reflexivity. Qed.

Lemma M_addsub op t l r : (op = BAdd /\ t = TAdd \/ op = BSub /\ t = TSub) ->
  M l -> M r -> M (EBinary op l r).
Proof.
  intros Hop.
  apply (M_loop op LAdd LMul t); try reflexivity; try (cbn; unfold loop_rank; lia); try (split; congruence).
  - intros pc; destruct Hop as [[-> ->] | [-> ->]]; reflexivity.
  - intros pc e r0 rgt ts' R Hs HP HA. apply aft_loop_add with (op := op) (rgt := rgt) (ts' := ts'); [|exact HP | exact HA].
    destruct Hop as [[-> ->] | [-> ->]]; reflexivity.
  - intros pc k l0 r0 H. destruct Hop as [[-> ->] | [-> ->]]; cbn [fits] in H; exact H.
  - intros pc l0 r0 t' H. destruct Hop as [[-> ->] | [-> ->]]; ok_split H H1 H2; (split; [cbn; destruct pc; exact H1 | exact H2]).
  - intros l0 r0. destruct Hop as [[-> ->] | [-> ->]]; reflexivity.
  - intros l0 r0. destruct Hop as [[-> ->] | [-> ->]]; reflexivity.
Qed.

Lemma M_muldivmod op t l r :
  (op = BMul /\ t = TMul \/ op = BDiv /\ t = TDiv \/ op = BMod /\ t = TMod) ->
  M l -> M r -> M (EBinary op l r).
Proof.
  intros Hop.
  apply (M_loop op LMul LPow t); try reflexivity; try (cbn; unfold loop_rank; lia); try (split; congruence).
  - intros pc; destruct Hop as [[-> ->] | [[-> ->] | [-> ->]]]; reflexivity.
  - intros pc e r0 rgt ts' R Hs HP HA. apply aft_loop_mul with (op := op) (rgt := rgt) (ts' := ts'); [|exact HP | exact HA].
    destruct Hop as [[-> ->] | [[-> ->] | [-> ->]]]; reflexivity.
  - intros pc k l0 r0 H. destruct Hop as [[-> ->] | [[-> ->] | [-> ->]]]; cbn [fits] in H; exact H.
  - intros pc l0 r0 t' H. destruct Hop as [[-> ->] | [[-> ->] | [-> ->]]]; ok_split H H1 H2; (split; [cbn; destruct pc; exact H1 | exact H2]).
  - intros l0 r0. destruct Hop as [[-> ->] | [[-> ->] | [-> ->]]]; reflexivity.
  - intros l0 r0. destruct Hop as [[-> ->] | [[-> ->] | [-> ->]]]; reflexivity.
Qed.

Lemma M_concat l r : M l -> M r -> M (EBinary BConcat l r).
Proof.
  intros Ml Mr k pc rest R Hf Ho Hpc HF.
  cbn [fits] in Hf. destruct Hf as (Hk & Fl & Fr & Hcs & Hc9 & Okl).
  ok_split Ho Hc Okr. cbn [ret_lvl] in HF. cbn [flat binop_tok app]. rewrite <- app_assoc.
  destruct (pf_inv _ _ _ _ _ _ HF ltac:(cbn; lia)) as (l' & e1 & ts1 & Hl' & HA & HF').
  cbn in Hl'. injection Hl' as <-.
  pose proof (flat_start _ _ _ Fr) as Hst.
  assert (Hhd : hd_tok (flat r ++ rest) = first_tok r) by (apply hd_tok_app; exact Hst).
  apply Ml; try assumption.
  - eapply fits_mono; [exact Fl | exact Hk].
  - rewrite Hhd. exact Okl.
  - eapply pf_skip with (l1 := LAdd).
    + apply reach_of_rank; [apply (fits_ret_left pc 8); [assumption | unfold loop_rank; lia]|].
      intros _. split; [apply ret_not_getline | congruence].
    + rewrite Hhd. cbn [rk]. exact Hc9.
    + eapply PF_step; [reflexivity | | exact HF'].
      destruct (start_cons _ Hst) as (t0 & r0 & Efl & _).
      assert (Ecs : concat_start t0 = true) by (unfold first_tok in Hcs; rewrite Efl in Hcs; exact Hcs).
      rewrite Efl. cbn [app].
      eapply aft_loop_concat; [exact Ecs | | exact HA].
      change (t0 :: r0 ++ rest) with ((t0 :: r0) ++ rest). rewrite <- Efl.
      apply (M_closed _ Mr); try assumption; [congruence | destruct pc; exact Hc].
Qed.

Lemma M_in1 x a : M x -> M (EIn [x] a).
Proof.
  intros Mx k pc rest R Hf Ho Hpc HF.
  cbn [fits] in Hf. destruct Hf as (Hk & Fx & Okx).
  cbn [ret_lvl] in HF. cbn [flat]. rewrite <- app_assoc. cbn [app].
  destruct (pf_inv _ _ _ _ _ _ HF ltac:(cbn; lia)) as (l' & e1 & ts1 & Hl' & HA & HF').
  cbn in Hl'. injection Hl' as <-.
  apply Mx; try assumption.
  - eapply fits_mono; [exact Fx | exact Hk].
  - eapply pf_skip with (l1 := LMatch).
    + apply reach_of_rank; [apply (fits_ret_left pc 5); [assumption | unfold loop_rank; lia]|].
      intros _. split; [apply ret_not_getline | congruence].
    + cbn. lia.
    + eapply PF_step; [reflexivity | | exact HF'].
      apply aft_loop_in. exact HA.
Qed.

Lemma M_pow l r : M l -> M r -> M (EBinary BPow l r).
Proof.
  intros Ml Mr k pc rest R Hf Ho Hpc HF.
  cbn [fits] in Hf. destruct Hf as (Hk & Fl & Okl & Fr).
  ok_split Ho Hc Okr. cbn [ret_lvl] in HF. cbn [flat binop_tok app]. rewrite <- app_assoc. cbn [app].
  apply Ml; try assumption.
  - eapply fits_mono; [exact Fl | lia].
  - eapply pf_skip with (l1 := LPostIncr).
    + apply reach_of_rank; [eapply fits_ret; [cbn; lia|exact Fl]|].
      intros _. split; [apply ret_not_getline | congruence].
    + cbn. lia.
    + eapply PF_step; [reflexivity | | exact HF].
      apply aft_pow. apply (M_closed _ Mr); try assumption; [congruence | destruct pc; exact Hc].
Qed.

Lemma M_cmp op t l r : cmp_op false t = Some op -> binop_tok op = [t] ->
  M l -> M r -> M (EBinary op l r).
Proof.
  intros Hop Htk Ml Mr k pc rest R Hf Ho Hpc HF.
  assert (Hf' : rk k <= 7 /\ (pc = true -> op <> BGt) /\ fits pc 8 l /\ ok pc l (hd_tok (binop_tok op)) = true /\ fits pc 8 r)
    by (destruct t; cbn in Hop; try discriminate; injection Hop as <-; exact Hf).
  destruct Hf' as (Hk & Hgt & Fl & Okl & Fr).
  assert (Ho' : tok_cont pc (hd_tok rest) <= 8 /\ ok pc r (hd_tok rest) = true).
  { destruct t; cbn in Hop; try discriminate; injection Hop as <-; ok_split Ho H1 H2;
      (split; [destruct pc; exact H1 | exact H2]). }
  destruct Ho' as (Hc & Okr).
  assert (Hret : ret_lvl (EBinary op l r) = LCompare)
    by (destruct t; cbn in Hop; try discriminate; injection Hop as <-; reflexivity).
  rewrite Hret in HF. cbn [flat]. rewrite Htk. cbn [app]. rewrite <- app_assoc. cbn [app].
  assert (Hcp : cmp_op pc t = Some op).
  { destruct pc; [|exact Hop]. destruct t; cbn in Hop |- *; try discriminate; try exact Hop.
    injection Hop as <-. exfalso. apply Hgt; reflexivity. }
  assert (Hct : tok_cont pc t = 8).
  { destruct t; cbn in Hop; try discriminate; try reflexivity.
    destruct pc; [|reflexivity]. cbn in Hcp. discriminate. }
  apply Ml; try assumption.
  - eapply fits_mono; [exact Fl | lia].
  - rewrite Htk in Okl. exact Okl.
  - eapply pf_skip with (l1 := LConcat).
    + apply reach_of_rank; [eapply fits_ret; [cbn; lia|exact Fl]|].
      intros _. split; [apply ret_not_getline | congruence].
    + cbn [hd_tok rk]. lia.
    + eapply PF_step; [reflexivity | | exact HF].
      apply (aft_cmp pc l t op (flat r ++ rest) r rest Hcp).
      apply (M_closed _ Mr); try assumption. congruence.
Qed.

Lemma M_match op t l r : (op = BMatch /\ t = TMatch \/ op = BNotMatch /\ t = TNotMatch) ->
  M l -> M r -> M (EBinary op l r).
Proof.
  intros Hop Ml Mr k pc rest R Hf Ho Hpc HF.
  assert (Hf' : rk k <= 6 /\ fits pc 7 l /\ ok pc l TMatch = true /\
                match r with EStrRegex _ => True | _ => fits pc 7 r /\ not_regex_start r end)
    by (destruct Hop as [[-> ->] | [-> ->]]; exact Hf).
  destruct Hf' as (Hk & Fl & Okl & Fr).
  assert (Ho' : tok_cont pc (hd_tok rest) <= 7 /\ ok pc r (hd_tok rest) = true).
  { destruct Hop as [[-> ->] | [-> ->]]; ok_split Ho H1 H2; (split; [destruct pc; exact H1 | exact H2]). }
  destruct Ho' as (Hc & Okr).
  assert (Hret : ret_lvl (EBinary op l r) = LMatch) by (destruct Hop as [[-> ->] | [-> ->]]; reflexivity).
  assert (Hfl : flat (EBinary op l r) = flat l ++ t :: flat r) by (destruct Hop as [[-> ->] | [-> ->]]; reflexivity).
  rewrite Hret in HF. rewrite Hfl, <- app_assoc. cbn [app].
  apply Ml; try assumption.
  - eapply fits_mono; [exact Fl | lia].
  - rewrite <- Okl. apply ok_same_cont; destruct Hop as [[-> ->] | [-> ->]]; reflexivity.
  - eapply pf_skip with (l1 := LCompare).
    + apply reach_of_rank; [eapply fits_ret; [cbn; lia|exact Fl]|].
      intros _. split; [apply ret_not_getline | congruence].
    + destruct Hop as [[-> ->] | [-> ->]]; cbn; lia.
    + eapply PF_step; [reflexivity | | exact HF].
      assert (HR : RegexStr LCompare pc (flat r ++ rest) (r, rest)).
      { destruct r; try (destruct Fr as [Fr Hnr]; apply regex_str_expr;
          [ pose proof (flat_start _ _ _ Fr) as Hst; unfold not_regex_start in Hnr;
            destruct (start_cons _ Hst) as (t0 & r0 & E0 & _); unfold first_tok in Hnr; rewrite E0 in *;
            cbn [app hd_tok] in *; destruct t0; try exact I; contradiction
          | apply (M_closed _ Mr); try assumption; congruence ]).
        cbn [flat app]. apply regex_str_lit. }
      destruct Hop as [[-> ->] | [-> ->]]; [apply aft_match | apply aft_notmatch]; exact HR.
Qed.

Lemma M_cond c t f : M c -> M t -> M f -> M (ECond c t f).
Proof.
  intros Mc Mt Mf k pc rest R Hf Ho Hpc HF.
  cbn [fits] in Hf. destruct Hf as (Hk & Fc & Okc & Ft & Ff).
  ok_split Ho Hc Okf. cbn [ret_lvl] in HF. cbn [flat]. rewrite <- app_assoc. cbn [app].
  apply Mc; try assumption.
  - eapply fits_mono; [exact Fc | lia].
  - eapply pf_skip with (l1 := LOr).
    + apply reach_of_rank; [eapply fits_ret; [cbn; lia|exact Fc]|].
      intros _. split; [apply ret_not_getline | congruence].
    + cbn. lia.
    + eapply PF_step; [reflexivity | | exact HF].
      pose proof (flat_start _ _ _ Ft) as Hst. pose proof (flat_start _ _ _ Ff) as Hsf.
      rewrite <- app_assoc. cbn [app].
      eapply aft_cond.
      * rewrite start_skip_nl by exact Hst.
        apply (M_closed _ Mt LExpr pc); try assumption; try congruence.
        -- apply ok_zero. reflexivity.
        -- destruct pc; cbn; lia.
      * rewrite start_skip_nl by exact Hsf.
        apply (M_closed _ Mf LExpr pc); try assumption; try congruence.
        destruct pc; exact Hc.
Qed.

Lemma is_lvalue_ret l : is_lvalue l = true -> ret_lvl l = LPrimary.
Proof. destruct l; cbn; try discriminate; reflexivity. Qed.

Lemma M_assign_gen e l r t aop :
  flat e = flat l ++ t :: flat r -> assign_op t = Some aop -> e = make_assign l aop r ->
  (forall pc k, fits pc k e -> k = 0 /\ is_lvalue l = true /\ fits pc 1 l /\ ok pc l TAssign = true /\ fits pc 0 r) ->
  (forall pc t', ok pc e t' = true -> tok_cont pc t' <= 0 /\ ok pc r t' = true) ->
  ret_lvl e = LExpr ->
  M l -> M r -> M e.
Proof.
  intros Hfl Hop He Hfits Hoks Hret Ml Mr k pc rest R Hf Ho Hpc HF.
  apply Hfits in Hf as (Hk & Hlv & Fl & Okl & Fr). apply Hoks in Ho as (Hc & Okr).
  assert (k = LExpr) by (destruct k; cbn in Hk; try lia; reflexivity). subst k.
  rewrite Hret in HF. apply pf_same in HF. subst R.
  rewrite Hfl, <- app_assoc. cbn [app].
  assert (Hct : tok_cont pc t = 1) by (destruct t; cbn in Hop; try discriminate; reflexivity).
  apply Ml; try assumption.
  - eapply fits_mono; [exact Fl | cbn; lia].
  - rewrite <- Okl. apply ok_same_cont; destruct t; cbn in Hop; try discriminate; reflexivity.
  - rewrite (is_lvalue_ret _ Hlv).
    eapply pf_skip with (l1 := higher pc LExpr).
    + apply reach_of_rank; [destruct pc; cbn; lia|]. intros ->. cbn. split; congruence.
    + cbn [hd_tok]. rewrite Hct. destruct pc; cbn; lia.
    + eapply PF_step; [destruct pc; reflexivity | | apply PF_done].
      rewrite He. apply aft_assign; [exact Hop | exact Hlv |].
      apply (M_closed _ Mr LExpr); assumption.
Qed.

Lemma M_assign l r : M l -> M r -> M (EAssign l r).
Proof.
  apply (M_assign_gen (EAssign l r) l r TAssign AsgPlain); try reflexivity.
  - intros pc k H. exact H.
  - intros pc t' H. ok_split H H1 H2. split; [destruct pc; exact H1 | exact H2].
Qed.

Lemma M_augassign op l r : M l -> M r -> M (EAugAssign op l r).
Proof.
  intros Ml Mr k pc rest R Hf. revert k pc rest R Hf.
  change (forall k pc rest R, fits pc (rk k) (EAugAssign op l r) -> _) with
    (forall k pc rest R, fits pc (rk k) (EAugAssign op l r) ->
       ok pc (EAugAssign op l r) (hd_tok rest) = true -> (pc = true -> k <> LGetline) ->
       PF pc k (ret_lvl (EAugAssign op l r)) (EAugAssign op l r) rest R ->
       Parses k pc None (flat (EAugAssign op l r) ++ rest) R).
  intros k pc rest R Hf.
  assert (Hop : assign_op (aug_tok op) = Some (AsgAug op)) by (cbn [fits] in Hf; apply Hf).
  revert k pc rest R Hf.
  apply (M_assign_gen (EAugAssign op l r) l r (aug_tok op) (AsgAug op)); try reflexivity; try assumption.
  - intros pc k H. cbn [fits] in H. intuition.
  - intros pc t' H. ok_split H H1 H2. split; [destruct pc; exact H1 | exact H2].
Qed.

(* ---- nodes created by primary() ---- *)

Lemma M_of_prim e :
  ret_lvl e = LPrimary ->
  (forall pc k rest, fits pc k e -> ok pc e (hd_tok rest) = true -> Prim (flat e ++ rest) (e, rest)) ->
  M e.
Proof.
  intros Hret HP k pc rest R Hf Ho Hpc HF. rewrite Hret in HF.
  eapply parses_via; [apply parses_prim; eapply HP; eassumption | exact HF].
Qed.

Lemma M_num s : M (ENum s).
Proof. apply M_of_prim; [reflexivity|]. intros. apply prim_num. Qed.
Lemma M_str s : M (EStr s).
Proof. apply M_of_prim; [reflexivity|]. intros. apply prim_str. Qed.
Lemma M_regex s : M (ERegex s).
Proof. apply M_of_prim; [reflexivity|]. intros. apply prim_regex. Qed.
Lemma M_strregex s : M (EStrRegex s).
Proof. intros k pc rest R Hf. contradiction. Qed.

Lemma M_var s : M (EVar s).
Proof.
  apply M_of_prim; [reflexivity|]. intros pc k rest _ Ho.
  unfold ok in Ho. cbn [okn] in Ho. apply leb_le in Ho.
  apply (prim_var_pc pc). destruct pc; exact Ho.
Qed.

Lemma M_unary op v : M v -> M (EUnary op v).
Proof.
  intros Mv. apply M_of_prim; [reflexivity|]. intros pc k rest Hf Ho.
  cbn [fits] in Hf. ok_split Ho Hc Okv. cbn [flat app].
  apply prim_unary. apply (M_closed _ Mv LPow false); try assumption; discriminate.
Qed.

Lemma M_group x : M x -> M (EGroup x).
Proof.
  intros Mx. apply M_of_prim; [reflexivity|]. intros pc k rest Hf _.
  cbn [fits] in Hf. cbn [flat app]. rewrite <- app_assoc. cbn [app].
  apply prim_group.
  pose proof (flat_start _ _ _ Hf) as Hst.
  eapply exprlist_first; [apply start_no_stop; exact Hst | | apply exprlist_nil; reflexivity].
  apply (M_closed _ Mx LExpr false); try assumption; try discriminate.
  - apply ok_zero. reflexivity.
  - cbn. lia.
Qed.

Lemma M_field i : M i -> M (EField i).
Proof.
  intros Mi. apply M_of_prim; [reflexivity|]. intros pc k rest Hf Ho.
  cbn [fits] in Hf. ok_split Ho Hc Oki. cbn [flat app].
  apply prim_field; [|exact Hc]. apply (M_prim _ Mi); assumption.
Qed.

Lemma M_index a idx : Forall M idx -> M (EIndex a idx).
Proof.
  intros Mi. apply M_of_prim; [reflexivity|]. intros pc k rest Hf _.
  cbn [fits] in Hf. destruct Hf as [Hne Hf]. destruct idx as [|x es]; [congruence|].
  cbn [flat app]. rewrite <- app_assoc. cbn [app].
  apply prim_index. apply exprlist_all; [reflexivity | reflexivity | exact Mi | exact Hf].
Qed.

Lemma M_in_multi x y es a : Forall M (x :: y :: es) -> M (EIn (x :: y :: es) a).
Proof.
  intros Mi. apply M_of_prim; [reflexivity|]. intros pc k rest Hf _.
  cbn [flat app]. rewrite <- app_assoc. cbn [app].
  apply prim_multi_in. apply exprlist_all; [reflexivity | reflexivity | exact Mi | exact Hf].
Qed.

Lemma uargs_tail rest : forall es, Forall M es -> all_fit (fits false 0) es ->
  UArgs false (tailc es ++ TRParen :: rest) (es, TRParen :: rest).
Proof.
  induction es as [|x es IH]; intros HM Hf.
  - apply uargs_nil.
  - inversion HM as [|? ? Hx HMs]; subst. destruct Hf as [Hfx Hfs].
    cbn [tailc flat_map app]. rewrite <- app_assoc.
    pose proof (flat_start _ _ _ Hfx) as Hst.
    eapply uargs_next; [|apply IH; assumption].
    rewrite start_skip_nl by exact Hst.
    assert (Hz : tok_cont false (hd_tok (flat_map (fun x0 => TComma :: flat x0) es ++ TRParen :: rest)) = 0)
      by (destruct es; reflexivity).
    apply (M_closed _ Hx LExpr false); try assumption; try discriminate.
    + apply ok_zero. exact Hz.
    + cbn [rk]. fold (tailc es). unfold tailc. lia.
Qed.

Lemma M_ucall n args : Forall M args -> M (EUserCall n args).
Proof.
  intros Ma. apply M_of_prim; [reflexivity|]. intros pc k rest Hf _.
  cbn [fits] in Hf. cbn [flat app]. rewrite <- app_assoc. cbn [app].
  apply prim_ucall. destruct args as [|x es]; [apply uargs_nil|].
  inversion Ma as [|? ? Hx HMs]; subst. destruct Hf as [Hfx Hfs].
  rewrite commas_cons, <- app_assoc.
  pose proof (flat_start _ _ _ Hfx) as Hst.
  eapply uargs_first; [| | apply uargs_tail; assumption].
  - destruct (start_cons _ Hst) as (t0 & r0 & -> & Ht0). cbn [app]. destruct t0; try exact I; discriminate.
  - assert (Hz : tok_cont false (hd_tok (tailc es ++ TRParen :: rest)) = 0) by (destruct es; reflexivity).
    apply (M_closed _ Hx LExpr false); try assumption; try discriminate.
    + apply ok_zero. exact Hz.
    + cbn [rk]. lia.
Qed.

Lemma M_prim_pc e : M e -> forall pc rest,
  fits pc 13 e -> ok pc e (hd_tok rest) = true -> Prim (flat e ++ rest) (e, rest).
Proof.
  intros HM pc rest Hf Hok. apply (prim_of_parses pc).
  apply HM; try assumption; try discriminate.
  rewrite (fits_prim _ _ Hf). apply PF_done.
Qed.

(* on an lvalue, optionalLValue() does what primary() does *)
Lemma optlv_of_prim x rest : is_lvalue x = true ->
  Prim (flat x ++ rest) (x, rest) -> OptLv (flat x ++ rest) (Some x, rest).
Proof.
  intros Hlv [[|n] H]; [discriminate|]. exists (S n).
  destruct x; try discriminate; cbn [flat app] in *; cbn [primary opt_lvalue] in *.
  - (* $i *)
    destruct (primary n None (flat x ++ rest)) as [[i' r']| | |] eqn:E; cbn [pbind] in *; try discriminate.
    destruct r' as [|t r'']; [congruence|]. destruct t; try congruence.
  - (* variable *)
    destruct rest as [|t r']; [exact (f_equal _ eq_refl)|].
    destruct t; try reflexivity.
    + destruct (exprlist n false true r') as [[idx r2]| | |]; cbn [pbind] in *; try discriminate.
      destruct idx; try discriminate. destruct (expect_rbracket r2); cbn [pbind] in *; discriminate.
    + destruct sp; [reflexivity|].
      destruct (ucall_args n true r') as [[args r2]| | |]; cbn [pbind] in *; try discriminate.
      destruct (expect_rparen r2); cbn [pbind] in *; discriminate.
  - (* a[...] *)
    rewrite <- app_assoc in *. cbn [app] in *.
    destruct (exprlist n false true _) as [[idx' r2]| | |]; cbn [pbind] in *; try discriminate.
    destruct idx'; try discriminate. destruct (expect_rbracket r2); cbn [pbind] in *; congruence.
Qed.

Lemma M_preincr op x : M x -> M (EIncr op true x).
Proof.
  intros Mx. apply M_of_prim; [reflexivity|]. intros pc k rest Hf Ho.
  cbn [flat app]. apply prim_preincr.
  assert (Hlv : is_lvalue x = true) by (destruct x; cbn [fits] in Hf; try contradiction; reflexivity).
  apply optlv_of_prim; [exact Hlv|].
  apply (M_prim_pc _ Mx pc).
  - destruct x; try discriminate; cbn [fits] in Hf |- *; exact Hf.
  - exact Ho.
Qed.

Lemma M_postincr_field op i : M i -> M (EIncr op false (EField i)).
Proof.
  intros Mi k pc rest R Hf Ho Hpc HF.
  cbn [fits] in Hf. destruct Hf as [Fi Oki]. cbn [ret_lvl] in HF.
  eapply parses_via; [|exact HF]. apply parses_prim.
  cbn [flat app]. rewrite <- app_assoc. cbn [app].
  apply prim_field_postincr.
  apply (M_prim _ Mi); [exact Fi|].
  cbn [hd_tok]. rewrite <- Oki. apply ok_same_cont; destruct op; reflexivity.
Qed.

Lemma M_postincr_lv op x : (match x with EVar _ | EIndex _ _ => True | _ => False end) ->
  M x -> M (EIncr op false x).
Proof.
  intros Hx Mx k pc rest R Hf Ho Hpc HF.
  assert (Hlv : is_lvalue x = true) by (destruct x; try contradiction; reflexivity).
  assert (Hret : ret_lvl (EIncr op false x) = LPostIncr) by (destruct x; try contradiction; reflexivity).
  rewrite Hret in HF.
  cbn [flat]. rewrite <- app_assoc. cbn [app].
  apply Mx; try assumption.
  - destruct x; try contradiction; cbn [fits] in Hf |- *; [exact I | apply Hf].
  - destruct x; try contradiction; [|reflexivity]. destruct op, pc; reflexivity.
  - rewrite (is_lvalue_ret _ Hlv).
    eapply PF_step; [reflexivity | | exact HF].
    apply aft_postincr; [destruct op; auto | exact Hlv].
Qed.

(* ---- all trees ---- *)
Definition M' (e : expr) : Prop := M e /\ match e with EField i => M i | _ => True end.

Lemma Forall_M' es : Forall M' es -> Forall M es.
Proof. intros H. eapply Forall_impl; [|exact H]. intros a [Ha _]. exact Ha. Qed.

Lemma M_unsupported e : (forall pc k, ~ fits pc k e) -> M e.
Proof. intros H k pc rest R Hf. exfalso. eapply H. exact Hf. Qed.

Theorem parse_printed_all : forall e, M' e.
Proof.
  induction e using expr_ind'; unfold M'.
  - split; [apply M_num | exact I].
  - split; [apply M_str | exact I].
  - split; [apply M_strregex | exact I].
  - split; [apply M_regex | exact I].
  - destruct IHe as [Mi _]. split; [apply M_field; exact Mi | exact Mi].
  - split; [apply M_unsupported; intros pc k H; exact H | exact I].
  - split; [apply M_var | exact I].
  - split; [apply M_index; apply Forall_M'; assumption | exact I].
  - split; [|exact I]. apply Forall_M' in H.
    destruct idx as [|x [|y es]].
    + apply M_unsupported; intros pc k Hf; exact Hf.
    + inversion H; subst. apply M_in1; assumption.
    + apply M_in_multi; assumption.
  - destruct IHe as [Mv _]. split; [apply M_unary; exact Mv | exact I].
  - destruct IHe1 as [Ml _], IHe2 as [Mr _]. split; [|exact I].
    destruct op.
    + eapply M_addsub; eauto.
    + eapply M_addsub; eauto.
    + eapply M_muldivmod; eauto.
    + eapply M_muldivmod; eauto 6.
    + eapply M_muldivmod; eauto 6.
    + apply M_pow; assumption.
    + apply (M_cmp BEq TEquals); auto.
    + apply (M_cmp BNe TNotEquals); auto.
    + apply (M_cmp BLt TLess); auto.
    + apply (M_cmp BLe TLte); auto.
    + apply (M_cmp BGt TGreater); auto.
    + apply (M_cmp BGe TGte); auto.
    + eapply M_match; eauto.
    + eapply M_match; eauto.
    + apply M_and; assumption.
    + apply M_or; assumption.
    + apply M_concat; assumption.
  - destruct IHe1 as [Mc _], IHe2 as [Mt _], IHe3 as [Mf _]. split; [apply M_cond; assumption | exact I].
  - destruct IHe1 as [Ml _], IHe2 as [Mr _]. split; [apply M_assign; assumption | exact I].
  - destruct IHe1 as [Ml _], IHe2 as [Mr _]. split; [apply M_augassign; assumption | exact I].
  - destruct IHe as [Mx Mi]. split; [|exact I]. destruct pre.
    + apply M_preincr; exact Mx.
    + destruct e; try (apply M_unsupported; intros pc k Hf; exact Hf).
      * apply M_postincr_field; exact Mi.
      * apply M_postincr_lv; [exact I | exact Mx].
      * apply M_postincr_lv; [exact I | exact Mx].
  - split; [apply M_unsupported; intros pc k Hf; exact Hf | exact I].
  - split; [apply M_ucall; apply Forall_M'; assumption | exact I].
  - split; [apply M_unsupported; intros pc k Hf; exact Hf | exact I].
  - split; [apply M_unsupported; intros pc k Hf; exact Hf | exact I].
  - destruct IHe as [Mx _]. split; [apply M_group; exact Mx | exact I].
Qed.

(* the general lemma of DESIGN §4 C04: a writing that respects the table, followed by a token that
   none of the still-open level functions consumes, is read back as exactly the tree written *)
Theorem parse_printed : forall e k pc rest,
  fits pc (rk k) e -> ok pc e (hd_tok rest) = true -> (pc = true -> k <> LGetline) ->
  tok_cont pc (hd_tok rest) <= rk k ->
  exists n0, forall n, n0 <= n -> p_lv n k pc None (flat e ++ rest) = POk (e, rest).
Proof.
  intros e k pc rest Hf Ho Hpc Hc.
  destruct (M_closed e (proj1 (parse_printed_all e)) k pc rest Hf Ho Hpc Hc) as [n0 H].
  exists n0. intros n Hn. eapply p_lv_mono; eassumption.
Qed.
