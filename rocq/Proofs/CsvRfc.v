(* C08: the reader produces the fields of the independent RFC 4180 specification [rfc_parse]
   (lexer + six-state machine of Model/Csv.v), for EVERY input byte string - here for
   single-byte separators and comment characters (',' ';' '|' TAB ...), a leading BOM included.
   (Multi-byte separators are covered by the correspondence check: Coq spec = harness
   reference reader = implementation on every generated input.) *)
From Verif Require Import Lib.Base Lib.Utf8 Model.Csv Proofs.CsvBase Proofs.CsvFuel
  Proofs.CsvAccount Proofs.CsvRoundtrip Proofs.CsvChunks.
From Coq Require Import ZifyBool.

(* ---- the machine without the registers that do not influence the fields ------ *)

Definition reg3 : Type := rstate * bytes * list bytes.

Section Spec3.
Variable sepb comb : bytes.

Definition rstep3 (g : reg3) (t : tok) : reg3 * option (list bytes) :=
  let '(q, cur, fs) := g in
  let unq :=
    match t with
    | TSep => ((RField, [], fs ++ [cur]), None)
    | TNL _ => ((RLine, [], []), Some (fs ++ [cur]))
    | _ => ((RUnq, cur ++ lit sepb comb t, fs), None)
    end in
  match q with
  | RLine =>
      match t with
      | TNL _ => ((RLine, [], []), None)
      | TCom => ((RComment, [], []), None)
      | TQ => ((RQuo, [], []), None)
      | _ => unq
      end
  | RComment =>
      match t with
      | TNL _ => ((RLine, [], []), None)
      | _ => (g, None)
      end
  | RField =>
      match t with
      | TQ => ((RQuo, [], fs), None)
      | _ => unq
      end
  | RUnq => unq
  | RQuo =>
      match t with
      | TQ => ((RAfterQ, cur, fs), None)
      | TNL _ => ((RQuo, cur ++ [10], fs), None)
      | _ => ((RQuo, cur ++ lit sepb comb t, fs), None)
      end
  | RAfterQ =>
      match t with
      | TQ => ((RQuo, cur ++ [34], fs), None)
      | TSep => ((RField, [], fs ++ [cur]), None)
      | TNL _ => ((RLine, [], []), Some (fs ++ [cur]))
      | _ => ((RQuo, cur ++ [34] ++ lit sepb comb t, fs), None)
      end
  end.

Fixpoint run3 (g : reg3) (ts : list tok) : list (list bytes) :=
  match ts with
  | [] =>
      match g with
      | (RLine, _, _) | (RComment, _, _) => []
      | (_, cur, fs) => [fs ++ [cur]]
      end
  | t :: r =>
      let '(g', out) := rstep3 g t in
      match out with
      | Some x => x :: run3 g' r
      | None => run3 g' r
      end
  end.

Definition reg3_of (g : rreg) : reg3 := (r_q g, r_cur g, r_fs g).

Lemma rstep3_ok g t :
  reg3_of (fst (rstep sepb comb g t)) = fst (rstep3 (reg3_of g) t) /\
  option_map (fun r => fst (fst r)) (snd (rstep sepb comb g t)) = snd (rstep3 (reg3_of g) t).
Proof.
  destruct g as [q cur fs raw cr]. unfold reg3_of. cbn [r_q r_cur r_fs].
  destruct q, t; cbn; try destruct crlf; cbn; auto.
Qed.

Lemma run3_ok eofcr : forall ts g,
  map (fun r => fst (fst r)) (rfc_run sepb comb eofcr g ts) = run3 (reg3_of g) ts.
Proof.
  induction ts as [|t ts IH]; intros g.
  - destruct g as [q cur fs raw cr]. unfold reg3_of. cbn. destruct q; reflexivity.
  - cbn [rfc_run run3]. destruct (rstep3_ok g t) as [H1 H2].
    destruct (rstep sepb comb g t) as [g' out]. destruct (rstep3 (reg3_of g) t) as [g3 out3].
    cbn [fst snd] in *. subst g3 out3. destruct out as [x|]; cbn [option_map map]; rewrite IH; reflexivity.
Qed.

End Spec3.

Definition ev_fields (ev : event) : list bytes :=
  match ev with ERecord _ fs => fs | EHeader fs => fs end.

(* ---- single-byte separator and comment character ---------------------------- *)

Definition sepb_of (c : csv_cfg) : bytes := encode_rune (c_sep c).
Definition comb_of (c : csv_cfg) : bytes := if c_comment c =? 0 then [] else encode_rune (c_comment c).

Section Ascii.
Variable c : csv_cfg.
Hypothesis Hsep : valid_sep (c_sep c).
Hypothesis Hs128 : c_sep c < 128.
Hypothesis Hcom : c_comment c = 0 \/ (valid_sep (c_comment c) /\ c_comment c < 128).
Hypothesis Hne : c_sep c <> c_comment c.

Notation sep := (c_sep c).
Notation com := (c_comment c).
Notation sepb := (sepb_of c).
Notation comb := (comb_of c).

Lemma enc_ascii r : valid_sep r -> r < 128 -> encode_rune r = [r].
Proof.
  intros Hv Hr. apply valid_sep_iff in Hv. unfold encode_rune.
  replace ((r <? 0) || (1114111 <? r) || ((55296 <=? r) && (r <=? 57343))) with false by lia.
  replace (r <? 128) with true by lia. reflexivity.
Qed.

Lemma sepb_eq : sepb = [sep].
Proof. apply enc_ascii; assumption. Qed.

Lemma sep_bytes_eq : sep_bytes c = [sep].
Proof. exact sepb_eq. Qed.

Lemma comb_eq : comb = if com =? 0 then [] else [com].
Proof.
  unfold comb_of. destruct (Z.eqb_spec com 0); [reflexivity|].
  destruct Hcom as [H | [H1 H2]]; [contradiction | apply enc_ascii; assumption].
Qed.

Lemma sep_facts : sep <> 10 /\ sep <> 13 /\ sep <> 34 /\ sep <> 0 /\ 0 <= sep.
Proof. pose proof Hsep as H. apply valid_sep_iff in H. lia. Qed.

Lemma com_facts : com <> 10 /\ com <> 13 /\ com <> 34 /\ 0 <= com < 128.
Proof.
  destruct Hcom as [-> | [H1 H2]]; [lia|]. apply valid_sep_iff in H1. lia.
Qed.

Notation L := (lex sepb comb 0).
Notation run := (run3 sepb comb).

(* the token of a byte that is neither LF nor the CR of a CR LF *)
Definition tokb (x : Z) : tok :=
  if x =? 34 then TQ
  else if x =? sep then TSep
  else if negb (com =? 0) && (x =? com) then TCom
  else TB x.

Lemma lit_tokb x : lit sepb comb (tokb x) = [x].
Proof.
  unfold tokb. destruct (Z.eqb_spec x 34) as [->|]; [reflexivity|].
  destruct (Z.eqb_spec x sep) as [->|]; [exact sepb_eq|].
  destruct (Z.eqb_spec com 0) as [E|E]; cbn [negb andb]; [reflexivity|].
  destruct (Z.eqb_spec x com) as [->|]; [|reflexivity].
  cbn [lit]. rewrite comb_eq. destruct (Z.eqb_spec com 0); [contradiction | reflexivity].
Qed.

Definition starts10 (R : bytes) : bool := match R with x :: _ => x =? 10 | [] => false end.

(* lexing one byte that is not a line break *)
Lemma lex_byte x R : x <> 10 -> (x = 13 -> starts10 R = false) ->
  L (x :: R) = tokb x :: L R.
Proof.
  intros H10 H13. cbn [lex]. unfold tokb.
  destruct (Z.eqb_spec x 34) as [->|N34]; [reflexivity|].
  destruct (Z.eqb_spec x 10); [contradiction|].
  assert (Hcr : (x =? 13) && prefix_of [10] R = false).
  { destruct (Z.eqb_spec x 13) as [E|]; [|reflexivity]. specialize (H13 E).
    destruct R as [|y R]; [reflexivity|]. cbn [starts10] in H13. cbn [prefix_of andb].
    destruct (Z.eqb_spec 10 y) as [<-|]; [cbn in H13; discriminate H13 | reflexivity]. }
  rewrite Hcr. rewrite sepb_eq. cbn [prefix_of zlen length].
  destruct (Z.eqb_spec sep x) as [E|N]; [subst x; rewrite Z.eqb_refl; reflexivity|].
  destruct (Z.eqb_spec x sep); [congruence|]. cbn [andb].
  rewrite comb_eq. destruct (Z.eqb_spec com 0) as [E0|N0]; cbn [negb andb prefix_of].
  - reflexivity.
  - destruct (Z.eqb_spec com x) as [E|Nc]; [subst x; rewrite Z.eqb_refl; reflexivity|].
    destruct (Z.eqb_spec x com); [congruence | reflexivity].
Qed.

Lemma lex_lf R : L (10 :: R) = TNL false :: L R.
Proof. reflexivity. Qed.

Lemma lex_crlf R : L (13 :: 10 :: R) = TNL true :: L R.
Proof. cbn [lex]. reflexivity. Qed.

(* a segment without LF whose last CR (if any) is not followed by LF *)
Lemma lex_plain : forall w R, nob 10 w -> (last_is 13 w = true -> starts10 R = false) ->
  L (w ++ R) = map tokb w ++ L R.
Proof.
  induction w as [|x w IH]; intros R Hw Hb; [reflexivity|].
  apply nob_cons in Hw as [Hx Hw]. cbn [app map]. rewrite lex_byte.
  - f_equal. apply IH; [exact Hw|]. intros E. apply Hb. cbn [last_is]. destruct w; [discriminate | exact E].
  - exact Hx.
  - intros ->. destruct w as [|y w]; [apply Hb; reflexivity|].
    apply nob_cons in Hw as [Hy _]. cbn. destruct (Z.eqb_spec y 10); [contradiction | reflexivity].
Qed.

(* ---- the machine over plain segments ------------------------------------------ *)

Lemma run_unq_plain : forall w cur fs ts, nob 10 w -> nob sep w ->
  run (RUnq, cur, fs) (map tokb w ++ ts) = run (RUnq, cur ++ w, fs) ts.
Proof.
  induction w as [|x w IH]; intros cur fs ts H10 Hs; [rewrite app_nil_r; reflexivity|].
  apply nob_cons in H10 as [_ H10]. apply nob_cons in Hs as [Hx Hs].
  cbn [map app run3]. unfold rstep3.
  assert (E : tokb x <> TSep /\ (forall b, tokb x <> TNL b)).
  { unfold tokb. destruct (x =? 34); [split; [discriminate | intros; discriminate]|].
    destruct (Z.eqb_spec x sep); [contradiction|].
    destruct (negb (com =? 0) && (x =? com)); split; try discriminate; intros; discriminate. }
  pose proof (lit_tokb x) as Hl. destruct (tokb x) eqn:T; try (exfalso; destruct E as [E1 E2]; (congruence || (eapply E2; reflexivity))).
  all: rewrite Hl, IH by assumption; rewrite <- app_assoc; reflexivity.
Qed.

Lemma run_quo_plain : forall w cur fs ts, nob 10 w -> nob 34 w ->
  run (RQuo, cur, fs) (map tokb w ++ ts) = run (RQuo, cur ++ w, fs) ts.
Proof.
  induction w as [|x w IH]; intros cur fs ts H10 Hq; [rewrite app_nil_r; reflexivity|].
  apply nob_cons in H10 as [_ H10]. apply nob_cons in Hq as [Hx Hq].
  cbn [map app run3]. unfold rstep3.
  assert (E : tokb x <> TQ /\ (forall b, tokb x <> TNL b)).
  { unfold tokb. destruct (Z.eqb_spec x 34); [contradiction|].
    destruct (x =? sep); [split; [discriminate | intros; discriminate]|].
    destruct (negb (com =? 0) && (x =? com)); split; try discriminate; intros; discriminate. }
  pose proof (lit_tokb x) as Hl. destruct (tokb x) eqn:T; try (exfalso; destruct E as [E1 E2]; (congruence || (eapply E2; reflexivity))).
  all: rewrite Hl, IH by assumption; rewrite <- app_assoc; reflexivity.
Qed.

Lemma run_comment_plain : forall w cur fs ts,
  run (RComment, cur, fs) (map tokb w ++ ts) = run (RComment, cur, fs) ts.
Proof.
  induction w as [|x w IH]; intros cur fs ts; [reflexivity|].
  cbn [map app run3]. unfold rstep3.
  assert (E : forall b, tokb x <> TNL b).
  { unfold tokb. destruct (x =? 34); [intros; discriminate|]. destruct (x =? sep); [intros; discriminate|].
    destruct (negb (com =? 0) && (x =? com)); intros; discriminate. }
  destruct (tokb x) eqn:T; try (exfalso; eapply E; reflexivity); apply IH.
Qed.

(* ---- lines ------------------------------------------------------------------- *)

(* [line] is what readLine cut off in front of [data]: it ends in its only LF, or it is the
   unterminated last line *)
Definition isline (line data : bytes) : Prop :=
  (exists w, line = w ++ [10] /\ nob 10 w) \/ (nob 10 line /\ data = []).

Lemma isline_fl X : isline (fl1 X) (fl2 X).
Proof.
  unfold fl1, fl2, fl. destruct (cut_nl X) as [[l d]|] eqn:E; cbn [fst snd].
  - destruct (cut_nl_some_inv _ _ _ E) as (u & -> & Hu & _). left. eauto.
  - right. split; [apply cut_nl_none_inv; exact E | reflexivity].
Qed.

Lemma isline_prefix_nob u x v data : isline (u ++ x :: v) data -> nob 10 u.
Proof.
  intros [(w & E & Hw) | [H _]].
  - destruct (@exists_last _ (x :: v) ltac:(discriminate)) as (v' & y & Ev). rewrite Ev in E.
    rewrite app_assoc in E. apply app_inj_tail in E as [E _]. rewrite <- E in Hw.
    apply nob_app in Hw as [Hw _]. exact Hw.
  - apply nob_app in H as [H _]. exact H.
Qed.

Lemma isline_suffix u v data : isline (u ++ v) data -> nob 10 u -> isline v data.
Proof.
  intros [(w & E & Hw) | [H Hd]] Hu.
  - destruct v as [|x v].
    + rewrite app_nil_r in E. subst u. apply nob_app in Hu as [_ Hu]. apply nob_cons in Hu as [Hu _]. congruence.
    + destruct (@exists_last _ (x :: v) ltac:(discriminate)) as (v' & y & Ev). rewrite Ev in *.
      rewrite app_assoc in E. apply app_inj_tail in E as [E ->]. left. exists v'. split; [reflexivity|].
      rewrite <- E in Hw. apply nob_app in Hw as [_ Hw]. exact Hw.
  - right. apply nob_app in H as [_ H]. auto.
Qed.

Lemma nc_suffix u v : last_is 13 (u ++ v) = false -> last_is 13 v = false.
Proof. destruct v as [|x v]; [reflexivity|]. rewrite last_is_app by discriminate. auto. Qed.

Lemma read_line_true data : last_is 13 data = false -> read_line data true = Some (fl1 data, fl2 data, 0).
Proof.
  intros H. unfold read_line, fl1, fl2, fl. destruct (cut_nl data) as [[l d]|]; [reflexivity|].
  rewrite H. reflexivity.
Qed.

Lemma len_newline_crlf u : len_newline (u ++ [13; 10]) = 2.
Proof.
  induction u as [|x u IH]; [reflexivity|]. rewrite <- app_comm_cons.
  rewrite len_newline_cons; [exact IH|]. zl. pose proof (zlen_nonneg u). lia.
Qed.

Lemma len_newline_lf' u : last_is 13 u = false -> len_newline (u ++ [10]) = 1.
Proof.
  induction u as [|x u IH]; intros H; [reflexivity|]. destruct u as [|y u].
  - cbn in *. rewrite H. reflexivity.
  - rewrite <- app_comm_cons. rewrite len_newline_cons; [apply IH; exact H|].
    zl. pose proof (zlen_nonneg u). lia.
Qed.

Lemma last_is_split b u : last_is b u = true -> exists u', u = u' ++ [b].
Proof.
  intros H. destruct (@exists_last _ u) as (u' & y & ->); [intros ->; discriminate|].
  rewrite last_is_snoc in H. apply Z.eqb_eq in H as ->. eauto.
Qed.

(* how a line ends *)
Lemma line_end line data : isline line data ->
  exists u, nob 10 u /\
    ((line = u ++ [10] /\ last_is 13 u = false /\ len_newline line = 1) \/
     (line = u ++ [13; 10] /\ len_newline line = 2) \/
     (line = u /\ data = [] /\ len_newline line = 0)).
Proof.
  intros [(w & -> & Hw) | [H ->]].
  - destruct (last_is 13 w) eqn:E.
    + destruct (last_is_split _ _ E) as [u ->]. apply nob_app in Hw as [Hu _].
      exists u. split; [exact Hu|]. right. left. rewrite <- app_assoc. split; [reflexivity|].
      apply len_newline_crlf.
    + exists w. split; [exact Hw|]. left. split; [reflexivity|]. split; [exact E|]. apply len_newline_lf'. exact E.
  - exists line. split; [exact H|]. right. right.
    repeat split; auto. apply len_newline_no_lf. exact H.
Qed.

(* at EOF readLine drops one final CR of the last line: the specification sees the input
   without it *)
Definition sc (d : bytes) : bytes := if last_is 13 d then removelast d else d.

Lemma sc_nil : sc [] = [].
Proof. reflexivity. Qed.

Lemma sc_cut data l d : cut_nl data = Some (l, d) -> sc data = l ++ sc d.
Proof.
  intros H. destruct (cut_nl_some_inv _ _ _ H) as (u & -> & _ & ->). unfold sc.
  destruct d as [|x d].
  - rewrite app_nil_r. rewrite last_is_snoc. cbn. rewrite app_nil_r. reflexivity.
  - rewrite last_is_app by discriminate. destruct (last_is 13 (x :: d)); [|reflexivity].
    apply removelast_app. discriminate.
Qed.

Lemma read_line_sc data :
  read_line data true = match cut_nl data with
                        | Some (l, d) => Some (l, d, 0)
                        | None => Some (sc data, [], zlen data - zlen (sc data))
                        end.
Proof.
  unfold read_line, sc. destruct (cut_nl data) as [[l d]|]; [reflexivity|].
  destruct (last_is 13 data) eqn:E.
  - pose proof (zlen_removelast data (last_is_nonempty _ _ E)). do 2 f_equal. lia.
  - do 2 f_equal. lia.
Qed.

Lemma nob_removelast b (l : bytes) : nob b l -> nob b (removelast l).
Proof.
  induction l as [|x [|y l] IH]; intros H; cbn [removelast]; try apply nob_nil.
  apply nob_cons in H as [Hx H]. apply nob_cons. split; [exact Hx | apply IH; exact H].
Qed.

Lemma nob10_sc data : nob 10 data -> nob 10 (sc data).
Proof. intros H. unfold sc. destruct (last_is 13 data); [apply nob_removelast|]; exact H. Qed.

Lemma len_newline_all l : len_newline l = zlen l -> l = [] \/ l = [10] \/ l = [13; 10].
Proof.
  destruct l as [|x [|y [|z l]]]; intros H; auto.
  - cbn in H. destruct (Z.eqb_spec x 10); [subst; auto | cbn in H; lia].
  - cbn in H. destruct (Z.eqb_spec y 10); [|cbn in H; lia]. destruct (Z.eqb_spec x 13); [subst; auto|cbn in H; lia].
  - pose proof (len_newline_range (x :: y :: z :: l)). rewrite H in H0. zl. pose proof (zlen_nonneg l). lia.
Qed.

(* ---- single-byte facts ---------------------------------------------------------- *)

Lemma cut_sub_byte b : forall s, cut_sub [b] s = cut_byte b s.
Proof.
  induction s as [|x s IH]; [reflexivity|]. rewrite cut_sub_unfold. cbn [prefix_of cut_byte].
  rewrite Z.eqb_sym. destruct (x =? b); cbn [andb]; [reflexivity|]. rewrite IH. reflexivity.
Qed.

Lemma sep_len_1 : sep_len c = 1.
Proof.
  unfold sep_len, rune_len. destruct sep_facts as (_ & _ & _ & _ & H0).
  replace (sep <? 0) with false by lia. replace (sep <? 128) with true by lia. reflexivity.
Qed.

Lemma tokb_sep : tokb sep = TSep.
Proof.
  unfold tokb. destruct sep_facts as (_ & _ & H34 & _). destruct (Z.eqb_spec sep 34); [contradiction|].
  rewrite Z.eqb_refl. reflexivity.
Qed.

Lemma tokb_quote : tokb 34 = TQ.
Proof. reflexivity. Qed.

(* a byte that is neither quote nor separator is copied by a quoted field, also just after
   a quote (bare quote) *)
Lemma tokb_other x : x <> 34 -> x <> sep -> tokb x = TCom \/ tokb x = TB x.
Proof.
  intros H1 H2. unfold tokb. destruct (Z.eqb_spec x 34); [contradiction|].
  destruct (Z.eqb_spec x sep); [contradiction|]. destruct (negb (com =? 0) && (x =? com)); auto.
Qed.

Lemma next_rune_lt128 x t : 0 <= x < 128 -> next_rune (x :: t) = x.
Proof. intros H. unfold next_rune. cbn [decode_rune]. replace (x <? 128) with true by lia. reflexivity. Qed.

Lemma next_rune_34 l : next_rune l = 34 -> exists t, l = 34 :: t.
Proof. intros H. destruct (decode_prefix l 34 H eq_refl ltac:(discriminate)) as [t ->]. exists t. reflexivity. Qed.

Lemma next_rune_sep l : next_rune l = sep -> exists t, l = sep :: t.
Proof.
  intros H. pose proof Hsep as Hv. unfold valid_sep, valid_csv_separator in Hv.
  destruct (decode_prefix l sep H ltac:(lia) ltac:(unfold rune_error; lia)) as [t ->].
  fold sepb. rewrite sepb_eq. exists t. reflexivity.
Qed.

(* ---- unquoted fields on the machine ---------------------------------------------- *)

Lemma run_field_unq_start fs ts : (forall ts', ts <> TQ :: ts') ->
  run (RField, [], fs) ts = run (RUnq, [], fs) ts.
Proof.
  intros H. destruct ts as [|t ts]; [reflexivity|]. destruct t; try reflexivity. exfalso. eapply H. reflexivity.
Qed.

Lemma run_field_plain w fs ts : nob 10 w -> nob sep w -> starts_quote w = false ->
  (forall ts', ts <> TQ :: ts') ->
  run (RField, [], fs) (map tokb w ++ ts) = run (RUnq, w, fs) ts.
Proof.
  intros H10 Hs Hq Hts. destruct w as [|x w].
  - cbn [map app]. apply run_field_unq_start. exact Hts.
  - rewrite run_field_unq_start.
    + rewrite run_unq_plain by assumption. reflexivity.
    + cbn [map app]. intros ts' E. injection E as E _. unfold tokb in E. cbn in Hq.
      destruct (x =? 34); [discriminate|]. destruct (x =? sep); [discriminate|].
      destruct (negb (com =? 0) && (x =? com)); discriminate.
Qed.

(* ---- the parse loops against the machine ---------------------------------------- *)

Definition RL0 : reg3 := (RLine, [], []).

Lemma starts_quote_prefix u v : starts_quote (u ++ v) = false -> u <> [] -> starts_quote u = false.
Proof. destruct u; [congruence | auto]. Qed.

Lemma parse_sim : forall f,
  (forall line data adv done cr adv' fields cr',
     isline line data ->
     parse_field c true f line data adv done cr = PDone adv' fields cr' ->
     exists dataF, suffix_of dataF data /\ adv' + zlen dataF = adv + zlen line + zlen data /\
       run (RField, [], done) (L (line ++ sc data)) = fields :: run RL0 (L (sc dataF))) /\
  (forall line data adv cur done cr adv' fields cr',
     isline line data ->
     parse_quoted c true f line data adv cur done cr = PDone adv' fields cr' ->
     exists dataF, suffix_of dataF data /\ adv' + zlen dataF = adv + zlen line + zlen data /\
       run (RQuo, cur, done) (L (line ++ sc data)) = fields :: run RL0 (L (sc dataF))).
Proof.
  destruct sep_facts as (S10 & S13 & S34 & S0 & Sge).
  induction f as [|f [IHf IHq]]; split; intros until cr'; intros Hl H; try discriminate.
  - (* parse_field *)
    rewrite parse_field_S in H. destruct (starts_quote line) eqn:Q.
    + destruct (starts_quote_inv _ Q) as [t ->]. rewrite zdrop_1_cons in H.
      assert (Hl' : isline t data) by (apply (isline_suffix [34]); [exact Hl | repeat constructor; lia]).
      destruct (IHq _ _ _ _ _ _ _ _ _ Hl' H) as (dF & Hs & Ha & Hr). exists dF.
      split; [exact Hs|]. split; [zl; lia|]. cbn [app]. rewrite lex_byte by (try lia; discriminate).
      rewrite tokb_quote. exact Hr.
    + rewrite sep_bytes_eq, cut_sub_byte in H. destruct (cut_byte sep line) as [[field rest]|] eqn:E.
      * apply cut_byte_some_inv in E as [-> Hns].
        pose proof (isline_prefix_nob _ _ _ _ Hl) as H10.
        assert (Hl' : isline rest data).
        { apply (isline_suffix (field ++ [sep])); [rewrite <- app_assoc; exact Hl|].
          apply nob_app. split; [exact H10 | repeat constructor; lia]. }
        destruct (IHf _ _ _ _ _ _ _ _ Hl' H) as (dF & Hs & Ha & Hr). exists dF.
        split; [exact Hs|]. split; [rewrite sep_len_1 in Ha; zl; lia|].
        rewrite <- app_assoc. cbn [app]. rewrite lex_plain; [|exact H10|intros _; cbn; lia].
        rewrite lex_byte by (try lia; intros; lia). rewrite tokb_sep.
        rewrite run_field_plain; [|exact H10|exact Hns| |intros ts' E; discriminate].
        -- exact Hr.
        -- destruct field as [|x field]; [reflexivity|]. exact Q.
      * apply cut_byte_none_inv in E. injection H as <- <- <-.
        destruct (line_end line data Hl) as (u & Hu & [(-> & Hcr & Hln) | [(-> & Hln) | (-> & -> & Hln)]]);
          rewrite Hln.
        -- exists data. split; [apply suffix_refl|]. split; [lia|].
           apply nob_app in E as [Eu _].
           rewrite <- app_assoc. cbn [app]. rewrite lex_plain by (auto; congruence). rewrite lex_lf.
           rewrite run_field_plain; [|exact Hu|exact Eu| |intros ts' X; discriminate].
           ++ cbn [run3 rstep3]. do 3 f_equal. zl. replace (zlen u + (1 + 0) - 1) with (zlen u) by lia.
              symmetry. apply ztake_app_len.
           ++ destruct u; [reflexivity | exact Q].
        -- exists data. split; [apply suffix_refl|]. split; [lia|].
           apply nob_app in E as [Eu _].
           rewrite <- app_assoc. cbn [app]. rewrite lex_plain by (auto; intros; reflexivity). rewrite lex_crlf.
           rewrite run_field_plain; [|exact Hu|exact Eu| |intros ts' X; discriminate].
           ++ cbn [run3 rstep3]. do 3 f_equal. zl. replace (zlen u + (1 + (1 + 0)) - 2) with (zlen u) by lia.
              symmetry. apply ztake_app_len.
           ++ destruct u; [reflexivity | exact Q].
        -- exists []. split; [apply suffix_refl|]. split; [lia|].
           rewrite sc_nil. rewrite lex_plain by (auto; intros; reflexivity).
           cbn [lex]. rewrite run_field_plain; [|exact Hu|exact E|exact Q|intros ts' X; discriminate].
           cbn [run3 RL0]. do 3 f_equal. rewrite Z.sub_0_r. symmetry. apply ztake_all. lia.
  - (* parse_quoted *)
    rewrite parse_quoted_S in H. destruct (cut_byte 34 line) as [[pre line1]|] eqn:E.
    + apply cut_byte_some_inv in E as [-> Hnq]. cbv zeta in H.
      pose proof (isline_prefix_nob _ _ _ _ Hl) as H10.
      assert (Hl1 : isline line1 data).
      { apply (isline_suffix (pre ++ [34])); [rewrite <- app_assoc; exact Hl|].
        apply nob_app. split; [exact H10 | repeat constructor; lia]. }
      (* the machine has read up to and including the quote *)
      assert (Hrun : forall ts, run (RQuo, cur, done) (map tokb pre ++ TQ :: ts) = run (RAfterQ, cur ++ pre, done) ts).
      { intros ts. rewrite run_quo_plain by assumption. reflexivity. }
      rewrite <- app_assoc. cbn [app]. rewrite lex_plain; [|exact H10|intros _; reflexivity].
      rewrite lex_byte by (try lia; discriminate). rewrite tokb_quote, Hrun.
      destruct (Z.eqb_spec (next_rune line1) 34) as [R34|N34].
      { destruct (next_rune_34 _ R34) as [t ->]. rewrite zdrop_1_cons in H.
        assert (Hl' : isline t data) by (apply (isline_suffix [34]); [exact Hl1 | repeat constructor; lia]).
        destruct (IHq _ _ _ _ _ _ _ _ _ Hl' H) as (dF & Hs & Ha & Hr). exists dF.
        split; [exact Hs|]. split; [zl; lia|]. cbn [app]. rewrite lex_byte by (try lia; discriminate).
        rewrite tokb_quote. exact Hr. }
      destruct (Z.eqb_spec (next_rune line1) sep) as [Rs|Ns].
      { destruct (next_rune_sep _ Rs) as [t ->]. rewrite sep_len_1, zdrop_1_cons in H.
        assert (Hl' : isline t data) by (apply (isline_suffix [sep]); [exact Hl1 | repeat constructor; lia]).
        destruct (IHf _ _ _ _ _ _ _ _ Hl' H) as (dF & Hs & Ha & Hr). exists dF.
        split; [exact Hs|]. split; [zl; lia|]. cbn [app]. rewrite lex_byte by (try lia; intros; lia).
        rewrite tokb_sep. exact Hr. }
      destruct (Z.eqb_spec (len_newline line1) (zlen line1)) as [Enl|Nnl].
      { injection H as <- <- <-.
        destruct (len_newline_all _ Enl) as [-> | [-> | ->]].
        - destruct Hl1 as [(w & Ew & _) | [_ ->]]; [destruct w; discriminate|].
          exists []. split; [apply suffix_refl|]. split; [zl; lia|]. reflexivity.
        - exists data. split; [apply suffix_refl|]. split; [zl; lia|]. reflexivity.
        - exists data. split; [apply suffix_refl|]. split; [zl; lia|]. cbn [app]. rewrite lex_crlf. reflexivity. }
      (* bare quote *)
      destruct (IHq _ _ _ _ _ _ _ _ _ Hl1 H) as (dF & Hs & Ha & Hr). exists dF.
      split; [exact Hs|]. split; [zl; lia|]. rewrite <- Hr.
      destruct line1 as [|x t]; [cbn in Nnl; lia|].
      assert (X34 : x <> 34) by (intros ->; apply N34; apply next_rune_lt128; lia).
      assert (Xs : x <> sep) by (intros ->; apply Ns; apply next_rune_lt128; lia).
      assert (X10 : x <> 10).
      { intros ->. destruct Hl1 as [(w & Ew & Hw) | [Hw _]].
        - destruct w as [|y w]; [injection Ew as ->; cbn in Nnl; lia|].
          injection Ew as <- _. apply nob_cons in Hw as [Hw _]. congruence.
        - apply nob_cons in Hw as [Hw _]. congruence. }
      assert (X13 : x = 13 -> starts10 (t ++ sc data) = false).
      { intros ->. destruct t as [|y t].
        - destruct Hl1 as [(w & Ew & _) | [_ ->]]; [|reflexivity].
          destruct w as [|? [|? ?]]; discriminate.
        - cbn. destruct (Z.eqb_spec y 10) as [->|]; [|reflexivity]. exfalso.
          destruct Hl1 as [(w & Ew & Hw) | [Hw _]].
          + destruct w as [|a [|b w]]; try discriminate.
            * injection Ew as _ Ew. destruct t; [|discriminate]. cbn in Nnl. lia.
            * injection Ew as _ <- _. apply nob_cons in Hw as [_ Hw]. apply nob_cons in Hw as [Hw _]. congruence.
          + apply nob_cons in Hw as [_ Hw]. apply nob_cons in Hw as [Hw _]. congruence. }
      cbn [app]. rewrite lex_byte by assumption.
      destruct (tokb_other x X34 Xs) as [T | T]; rewrite T; cbn [run3 rstep3]; rewrite <- !app_assoc; reflexivity.
    + apply cut_byte_none_inv in E. destruct line as [|x line].
      * injection H as <- <- <-. destruct Hl as [(w & Ew & _) | [_ ->]]; [destruct w; discriminate|].
        exists []. split; [apply suffix_refl|]. split; [zl; lia|]. reflexivity.
      * cbv zeta in H. set (ln := x :: line) in *. rewrite read_line_sc in H.
        (* the machine side of "copy the line, go on with the next one" *)
        assert (Hcopy : forall cur1 X,
                  cur1 = (if len_newline ln =? 2 then cur ++ ztake (zlen ln - 2) ln ++ [10] else cur ++ ln) ->
                  (data = [] -> X = []) ->
                  run (RQuo, cur, done) (L (ln ++ X)) = run (RQuo, cur1, done) (L X)).
        { intros cur1 X -> HX.
          destruct (line_end ln data Hl) as (u & Hu & [(Eu & Hcr & Hln) | [(Eu & Hln) | (Eu & Ed & Hln)]]);
            rewrite Hln; cbn [Z.eqb Pos.eqb]; rewrite Eu in *.
          - apply nob_app in E as [Eq _]. rewrite <- app_assoc. cbn [app].
            rewrite lex_plain by (auto; congruence). rewrite lex_lf.
            rewrite run_quo_plain by assumption. cbn [run3 rstep3]. rewrite <- !app_assoc. reflexivity.
          - apply nob_app in E as [Eq _]. rewrite <- app_assoc. cbn [app].
            rewrite lex_plain by (auto; intros; reflexivity). rewrite lex_crlf.
            rewrite run_quo_plain by assumption. cbn [run3 rstep3].
            replace (zlen (u ++ [13; 10]) - 2) with (zlen u) by (zl; lia). rewrite ztake_app_len.
            rewrite <- !app_assoc. reflexivity.
          - rewrite (HX Ed). rewrite lex_plain by (auto; intros; reflexivity).
            cbn [lex]. rewrite run_quo_plain by assumption. reflexivity. }
        destruct (cut_nl data) as [[l d]|] eqn:Cn.
        -- destruct (cut_nl_some_inv _ _ _ Cn) as (w & El & Hw & Ed).
           assert (Hl' : isline l d) by (left; eauto).
           destruct (IHq _ _ _ _ _ _ _ _ _ Hl' H) as (dF & [p Hp] & Ha & Hr). exists dF.
           split; [exists (l ++ p); rewrite Ed, Hp, <- app_assoc; reflexivity|].
           split; [rewrite Ed; zl; lia|].
           rewrite (sc_cut _ _ _ Cn). rewrite (Hcopy _ (l ++ sc d) eq_refl).
           ++ exact Hr.
           ++ intros Ed'. rewrite Ed' in Cn. discriminate.
        -- assert (Hl' : isline (sc data) []).
           { right. split; [apply nob10_sc, cut_nl_none_inv; exact Cn | reflexivity]. }
           destruct (IHq _ _ _ _ _ _ _ _ _ Hl' H) as (dF & Hs & Ha & Hr). apply suffix_of_nil in Hs. subst dF.
           exists []. split; [apply suffix_nil|]. split; [rewrite zlen_nil in *; lia|].
           rewrite sc_nil, app_nil_r in Hr. rewrite (Hcopy _ (sc data) eq_refl).
           ++ exact Hr.
           ++ intros ->. reflexivity.
Qed.

(* ---- the first loop: comment and blank lines ------------------------------------ *)

Lemma tokb_com : com <> 0 -> tokb com = TCom.
Proof.
  intros H0. destruct com_facts as (C10 & C13 & C34 & _). unfold tokb.
  destruct (Z.eqb_spec com 34); [contradiction|]. destruct (Z.eqb_spec com sep); [congruence|].
  destruct (Z.eqb_spec com 0); [contradiction|]. rewrite Z.eqb_refl. reflexivity.
Qed.

Lemma next_rune_com l : com <> 0 -> next_rune l = com -> exists t, l = com :: t.
Proof.
  intros H0 H. destruct Hcom as [E | [Hv H128]]; [contradiction|].
  pose proof Hv as Hv'. unfold valid_sep, valid_csv_separator in Hv'.
  destruct (decode_prefix l com H ltac:(lia) ltac:(unfold rune_error; lia)) as [t ->].
  rewrite (enc_ascii _ Hv H128). exists t. reflexivity.
Qed.

Lemma fl1_nil X : fl1 X = [] -> X = [].
Proof. intros H. destruct X as [|x X]; [reflexivity|]. exfalso. apply (fl1_nonempty (x :: X)); [discriminate | exact H]. Qed.

Lemma head_of_u (x : Z) t u nl : x :: t = u ++ nl -> nl = [10] \/ nl = [13; 10] \/ nl = [] ->
  x <> 10 -> x <> 13 -> exists u', u = x :: u'.
Proof.
  intros H Hn H10 H13. destruct u as [|y u].
  - cbn in H. destruct Hn as [-> | [-> | ->]]; try discriminate; injection H as E _; congruence.
  - injection H as <- _. eauto.
Qed.

(* what readLine returns at EOF, and what the specification sees of it *)
Lemma read_line_true_spec data : exists l d inc,
  read_line data true = Some (l, d, inc) /\ isline l d /\ sc data = l ++ sc d.
Proof.
  rewrite read_line_sc. destruct (cut_nl data) as [[l d]|] eqn:Cn.
  - exists l, d, 0. split; [reflexivity|]. split; [|apply sc_cut; exact Cn].
    destruct (cut_nl_some_inv _ _ _ Cn) as (w & -> & Hw & _). left. eauto.
  - exists (sc data), [], (zlen data - zlen (sc data)). split; [reflexivity|].
    split; [|rewrite sc_nil, app_nil_r; reflexivity].
    right. split; [apply nob10_sc, cut_nl_none_inv; exact Cn | reflexivity].
Qed.

Lemma skip_sim : forall f data adv skip,
  match skip_lines c true f data adv skip with
  | SkLine line data' adv' skip' =>
      isline line data' /\ run RL0 (L (sc data)) = run (RField, [], []) (L (line ++ sc data'))
  | SkNeed => run RL0 (L (sc data)) = []
  | SkFuel => True
  end.
Proof.
  destruct sep_facts as (S10 & S13 & S34 & S0 & Sge). destruct com_facts as (C10 & C13 & C34 & Cr).
  induction f as [|f IH]; intros data adv skip; [exact I|].
  rewrite skip_lines_S. destruct (read_line_true_spec data) as (l & d & inc & -> & Hl & Hsc). cbv zeta.
  rewrite Hsc.
  destruct (Z.eqb_spec (zlen l) 0) as [Z0|Z0].
  { apply zlen_0_nil in Z0. subst l. destruct Hl as [(w & Ew & _) | [_ ->]]; [destruct w; discriminate|]. reflexivity. }
  destruct (negb (com =? 0) && (next_rune l =? com)) eqn:Cm.
  { (* comment line *)
    apply andb_true_iff in Cm as [Cm0 Cm1]. apply negb_true_iff in Cm0. apply Z.eqb_neq in Cm0. apply Z.eqb_eq in Cm1.
    destruct (next_rune_com _ Cm0 Cm1) as [t Et].
    specialize (IH d (adv + inc + zlen l) (skip + zlen l)).
    assert (E : run RL0 (L (l ++ sc d)) = run RL0 (L (sc d))).
    { destruct (line_end _ _ Hl) as (u & Hu & [(Eu & Hcr & _) | [(Eu & _) | (Eu & Ed & _)]]).
      - rewrite Et in Eu. destruct (head_of_u _ _ _ _ Eu ltac:(auto) C10 C13) as [u' ->].
        rewrite Et, Eu. rewrite <- app_assoc. cbn [app]. rewrite lex_byte by (auto; intros; congruence).
        rewrite tokb_com by exact Cm0. cbn [run3 rstep3 RL0].
        apply nob_cons in Hu as [_ Hu]. rewrite lex_plain; [|exact Hu|].
        2:{ intros E. cbn [last_is] in Hcr. destruct u'; [discriminate | congruence]. }
        rewrite lex_lf. rewrite run_comment_plain. reflexivity.
      - rewrite Et in Eu. destruct (head_of_u _ _ _ _ Eu ltac:(auto) C10 C13) as [u' ->].
        rewrite Et, Eu. rewrite <- app_assoc. cbn [app]. rewrite lex_byte by (auto; intros; congruence).
        rewrite tokb_com by exact Cm0. cbn [run3 rstep3 RL0].
        apply nob_cons in Hu as [_ Hu]. rewrite lex_plain by (auto; intros; reflexivity).
        rewrite lex_crlf. rewrite run_comment_plain. reflexivity.
      - rewrite Et in Eu. rewrite <- (app_nil_r u) in Eu. destruct (head_of_u _ _ _ _ Eu ltac:(auto) C10 C13) as [u' ->].
        rewrite app_nil_r in Eu. rewrite Ed, sc_nil, app_nil_r, Et, Eu. cbn [app]. rewrite lex_byte by (auto; intros; congruence).
        rewrite tokb_com by exact Cm0. cbn [run3 rstep3 RL0].
        apply nob_cons in Hu as [_ Hu]. rewrite <- (app_nil_r u'). rewrite lex_plain by (auto; intros; reflexivity).
        cbn [lex]. rewrite run_comment_plain. reflexivity. }
    destruct (skip_lines c true f d (adv + inc + zlen l) (skip + zlen l)) as [| |l' d' a k];
      [rewrite E; exact IH | exact I |].
    destruct IH as (I1 & I3). rewrite E. auto. }
  destruct (Z.eqb_spec (zlen l) (len_newline l)) as [Bl|Bl].
  { (* blank line *)
    specialize (IH d (adv + inc + zlen l) (skip + zlen l)).
    assert (E : run RL0 (L (l ++ sc d)) = run RL0 (L (sc d))).
    { symmetry in Bl. destruct (len_newline_all _ Bl) as [E | [E | E]]; rewrite E in *.
      - cbn in Z0. lia.
      - reflexivity.
      - cbn [app]. rewrite lex_crlf. reflexivity. }
    destruct (skip_lines c true f d (adv + inc + zlen l) (skip + zlen l)) as [| |l' d' a k];
      [rewrite E; exact IH | exact I |].
    destruct IH as (I1 & I3). rewrite E. auto. }
  (* a record starts here *)
  split; [exact Hl|].
  destruct l as [|x t] eqn:El; [cbn in Z0; lia|].
  assert (X10 : x <> 10).
  { intros ->. destruct Hl as [(w & Ew & Hw) | [Hw _]].
    - destruct w as [|y w]; [injection Ew as ->; cbn in Bl; lia|].
      injection Ew as <- _. apply nob_cons in Hw as [Hw _]. congruence.
    - apply nob_cons in Hw as [Hw _]. congruence. }
  assert (X13 : x = 13 -> starts10 (t ++ sc d) = false).
  { intros ->. destruct t as [|y t].
    - destruct Hl as [(w & Ew & _) | [_ ->]]; [|reflexivity]. destruct w as [|? [|? ?]]; discriminate.
    - cbn. destruct (Z.eqb_spec y 10) as [->|]; [|reflexivity]. exfalso.
      destruct Hl as [(w & Ew & Hw) | [Hw _]].
      + destruct w as [|a [|b w]]; try discriminate.
        * injection Ew as _ Ew. destruct t; [|discriminate]. cbn in Bl. lia.
        * injection Ew as _ <- _. apply nob_cons in Hw as [_ Hw]. apply nob_cons in Hw as [Hw _]. congruence.
      + apply nob_cons in Hw as [_ Hw]. apply nob_cons in Hw as [Hw _]. congruence. }
  cbn [app]. rewrite lex_byte by assumption.
  assert (Tc : tokb x <> TCom).
  { unfold tokb. destruct (x =? 34); [discriminate|]. destruct (x =? sep); [discriminate|].
    destruct (Z.eqb_spec com 0) as [E0|E0]; cbn [negb andb]; [discriminate|].
    destruct (Z.eqb_spec x com) as [->|]; [|discriminate]. exfalso.
    rewrite (next_rune_lt128 com t Cr) in Cm. rewrite Z.eqb_refl in Cm.
    destruct (Z.eqb_spec com 0); [contradiction | discriminate]. }
  assert (Tn : forall b, tokb x <> TNL b).
  { intros b. unfold tokb. destruct (x =? 34); [discriminate|]. destruct (x =? sep); [discriminate|].
    destruct (negb (com =? 0) && (x =? com)); discriminate. }
  destruct (tokb x) eqn:T; try reflexivity; try congruence; exfalso; eapply Tn; reflexivity.
Qed.

Lemma parse_true_no_need : forall f,
  (forall line data adv done cr, parse_field c true f line data adv done cr <> PNeed) /\
  (forall line data adv cur done cr, parse_quoted c true f line data adv cur done cr <> PNeed).
Proof.
  induction f as [|f [IHf IHq]]; split; intros; try discriminate.
  - rewrite parse_field_S. destruct (starts_quote line); [apply IHq|].
    destruct (cut_sub (sep_bytes c) line) as [[a b]|]; [apply IHf | discriminate].
  - rewrite parse_quoted_S. destruct (cut_byte 34 line) as [[pre line1]|].
    + cbv zeta. destruct (next_rune line1 =? 34); [apply IHq|].
      destruct (next_rune line1 =? sep); [apply IHf|].
      destruct (len_newline line1 =? zlen line1); [discriminate | apply IHq].
    + destruct line; [discriminate|]. cbv zeta. unfold read_line.
      destruct (cut_nl data) as [[l d]|]; [apply IHq|]. destruct (last_is 13 data); apply IHq.
Qed.

Lemma zdrop_suffix (p d : bytes) : zdrop (zlen p) (p ++ d) = d.
Proof. apply zdrop_app_len. Qed.

Lemma bdy_nobom s d : st_noBOM s = true -> bdy s d = d.
Proof. intros H. unfold bdy, isbom. rewrite H. reflexivity. Qed.

(* the whole-input reader produces the fields of the specification machine (which sees the
   input without a leading BOM and without a final lone CR) *)
Lemma read_all_rfc : forall f s data, (length data < f)%nat ->
  map ev_fields (read_all f c s data) = run RL0 (L (sc (bdy s data))).
Proof.
  induction f as [|f IH]; intros s data Hf; [lia|].
  cbn [read_all]. rewrite scan_unfold. cbn [andb].
  pose proof (bdy_len s data) as [HBA HA]. pose proof (bdy_split s data) as Hsplit.
  set (B := bdy s data) in *. set (A := a0 s data) in *.
  set (pre := if isbom s data then bom else []) in *.
  assert (Hpre : zlen pre = A) by (unfold pre, A, a0; destruct (isbom s data); reflexivity).
  destruct (Z.eqb_spec (zlen B) 0) as [Z0|Z0].
  { apply zlen_0_nil in Z0. rewrite Z0. reflexivity. }
  pose proof (skip_sim (S (length B)) B A A) as Hsk.
  destruct (skip_lines c true (S (length B)) B A A) as [| |line d2 adv skip] eqn:Sk.
  - cbn [map]. symmetry. exact Hsk.
  - exfalso. eapply skip_enough; [|exact Sk]. lia.
  - destruct Hsk as (Hl & Hrun).
    pose proof (skip_line_nonempty _ _ _ _ _ _ _ _ _ _ Sk) as Hlne.
    pose proof (skip_acct c true _ _ _ _ _ _ _ _ Sk) as ([p2 Hp2] & Sa & S1 & S2).
    pose proof (skip_lines_size _ _ _ _ _ _ _ _ _ _ Sk) as Hsz.
    destruct (parse_field c true (S (length B)) line d2 adv [] false) as [|adv' fields cr|] eqn:P.
    + exfalso. eapply (proj1 (parse_true_no_need _)). exact P.
    + destruct (proj1 (parse_sim _) _ _ _ _ _ _ _ _ Hl P) as (dF & [p Hp] & Ha & Hr).
      assert (Hd : data = (pre ++ p2 ++ p) ++ dF) by (rewrite Hsplit, Hp2, Hp, <- !app_assoc; reflexivity).
      assert (Hzd : zlen data = zlen (pre ++ p2 ++ p) + zlen dF) by (rewrite Hd at 1; apply zlen_app).
      assert (Hzb : zlen B = zlen (p2 ++ p) + zlen dF) by (rewrite Hp2, Hp, app_assoc; apply zlen_app).
      assert (Hzd2 : zlen d2 = zlen p + zlen dF) by (rewrite Hp at 1; apply zlen_app).
      assert (Hzpp : zlen (pre ++ p2 ++ p) = A + zlen (p2 ++ p)) by (rewrite zlen_app; lia).
      assert (Hadv : adv' = zlen (pre ++ p2 ++ p)) by lia.
      pose proof (zlen_nonneg p) as Hpp. pose proof (zlen_nonneg p2) as Hpp2. pose proof (zlen_nonneg dF) as HdF.
      pose proof (zlen_nonneg (p2 ++ p)) as Hpp3.
      assert (Hpos : 1 <= zlen (pre ++ p2 ++ p)) by lia.
      assert (Hnext : forall s', st_noBOM s' = true ->
                map ev_fields (read_all f c s' (zdrop adv' data)) = run RL0 (L (sc dF))).
      { intros s' Hs'. rewrite Hadv. rewrite Hd at 1. rewrite zdrop_suffix. rewrite IH.
        - rewrite bdy_nobom by exact Hs'. reflexivity.
        - rewrite Hd in Hf. rewrite app_length in Hf. unfold zlen in Hpos. lia. }
      rewrite Hrun, Hr.
      destruct ((st_row s =? 0) && c_header c).
      * cbn [map ev_fields]. f_equal. apply Hnext. reflexivity.
      * rewrite (slice_cap_inside data [] 0 skip adv') by lia.
        cbn [map ev_fields]. f_equal. apply Hnext. reflexivity.
    + exfalso. eapply (proj1 (parse_enough c true _)); [|exact P]. lia.
Qed.

End Ascii.

(* The reader's fields are those of the RFC 4180 specification. *)
Theorem reader_is_rfc c data :
  valid_sep (c_sep c) -> c_sep c < 128 ->
  (c_comment c = 0 \/ (valid_sep (c_comment c) /\ c_comment c < 128)) -> c_sep c <> c_comment c ->
  map ev_fields (read_file c data) = rfc_parse (c_sep c) (c_comment c) data.
Proof.
  intros Hv H128 Hc Hne. unfold read_file.
  rewrite (read_all_rfc c Hv H128 Hc Hne) by lia.
  unfold rfc_parse, rfc_records. rewrite run3_ok. reflexivity.
Qed.
