(* C19: sort.Strings is canonical: the sorted list depends only on the multiset
   of names, not on the order in which Go's map iteration delivered them. *)
From Verif Require Import Lib.Base Model.Resolver Proofs.Resolver Proofs.ResolverNoPanic.
From Coq Require Import Permutation.
Open Scope Z_scope.

Lemma name_leb_refl a : name_leb a a = true.
Proof.
  induction a as [|x a IH]; cbn [name_leb]; [reflexivity|].
  rewrite Z.ltb_irrefl. exact IH.
Qed.

Lemma name_leb_total a b : name_leb a b = false -> name_leb b a = true.
Proof.
  revert b. induction a as [|x a IH]; intros [|y b]; cbn [name_leb]; intros H; try congruence.
  destruct (x <? y) eqn:E1; [discriminate|]. destruct (y <? x) eqn:E2; [reflexivity|]. apply IH. exact H.
Qed.

Lemma name_leb_antisym a b : name_leb a b = true -> name_leb b a = true -> a = b.
Proof.
  revert b. induction a as [|x a IH]; intros [|y b]; cbn [name_leb]; intros H1 H2; try congruence.
  destruct (x <? y) eqn:E1; destruct (y <? x) eqn:E2; try discriminate.
  - apply Z.ltb_lt in E1, E2. lia.
  - apply Z.ltb_ge in E1, E2. assert (x = y) by lia. subst y. f_equal. apply IH; assumption.
Qed.

Lemma name_leb_trans a b c : name_leb a b = true -> name_leb b c = true -> name_leb a c = true.
Proof.
  revert b c. induction a as [|x a IH]; intros [|y b] [|z c]; cbn [name_leb]; intros H1 H2; try congruence.
  destruct (x <? y) eqn:E1.
  - apply Z.ltb_lt in E1. destruct (y <? z) eqn:E2.
    + apply Z.ltb_lt in E2. assert (Hx : x <? z = true) by (apply Z.ltb_lt; lia). rewrite Hx. reflexivity.
    + destruct (z <? y) eqn:E3; [discriminate|]. apply Z.ltb_ge in E2, E3.
      assert (Hx : x <? z = true) by (apply Z.ltb_lt; lia). rewrite Hx. reflexivity.
  - destruct (y <? x) eqn:E1'; [discriminate|]. apply Z.ltb_ge in E1, E1'. assert (x = y) by lia. subst y.
    destruct (x <? z) eqn:E2; [reflexivity|]. destruct (z <? x) eqn:E3; [discriminate|].
    eapply IH; eassumption.
Qed.

Inductive sorted : list name -> Prop :=
| sorted_nil : sorted []
| sorted_cons x l : (forall y, In y l -> name_leb x y = true) -> sorted l -> sorted (x :: l).

Lemma insert_name_sorted x l : sorted l -> sorted (insert_name x l).
Proof.
  induction 1 as [|y l Hy Hs IH]; cbn [insert_name].
  - constructor; [intros y [] | constructor].
  - destruct (name_leb x y) eqn:E.
    + constructor; [|constructor; assumption].
      intros z [<-|Hz]; [exact E|]. eapply name_leb_trans; [exact E | apply Hy; exact Hz].
    + constructor; [|exact IH].
      intros z Hz. apply In_insert_name in Hz.
      destruct Hz as [->|Hz]; [apply name_leb_total; exact E | apply Hy; exact Hz].
Qed.

Lemma sort_names_sorted l : sorted (sort_names l).
Proof.
  induction l as [|x l IH]; cbn [sort_names fold_right]; [constructor|].
  apply insert_name_sorted. exact IH.
Qed.

Lemma insert_name_perm x l : Permutation (insert_name x l) (x :: l).
Proof.
  induction l as [|y l IH]; cbn [insert_name]; [apply Permutation_refl|].
  destruct (name_leb x y); [apply Permutation_refl|].
  eapply Permutation_trans; [apply perm_skip; exact IH | apply perm_swap].
Qed.

Lemma sort_names_perm l : Permutation (sort_names l) l.
Proof.
  induction l as [|x l IH]; cbn [sort_names fold_right]; [apply Permutation_refl|].
  eapply Permutation_trans; [apply insert_name_perm | apply perm_skip; exact IH].
Qed.

Lemma sorted_unique l : forall l', sorted l -> sorted l' -> Permutation l l' -> l = l'.
Proof.
  induction l as [|x l IH]; intros l' Hs Hs' Hp.
  - apply Permutation_nil in Hp. congruence.
  - destruct l' as [|y l']; [apply Permutation_sym, Permutation_nil in Hp; discriminate|].
    inversion Hs as [|x0 l0 Hx Hsl]; subst. inversion Hs' as [|y0 l0' Hy Hsl']; subst.
    assert (Hxy : x = y).
    { assert (H1 : In y (x :: l)) by (eapply Permutation_in; [apply Permutation_sym; exact Hp | left; reflexivity]).
      assert (H2 : In x (y :: l')) by (eapply Permutation_in; [exact Hp | left; reflexivity]).
      destruct H1 as [H1|H1]; [exact H1|]. destruct H2 as [H2|H2]; [congruence|].
      apply name_leb_antisym; [apply Hx; exact H1 | apply Hy; exact H2]. }
    subst y. f_equal. apply IH; [exact Hsl | exact Hsl'|]. eapply Permutation_cons_inv. exact Hp.
Qed.

(* sort.Strings of the keys of a map: whatever order the keys came in *)
Theorem sort_names_canonical l l' : Permutation l l' -> sort_names l = sort_names l'.
Proof.
  intros Hp. apply sorted_unique; [apply sort_names_sorted | apply sort_names_sorted|].
  eapply Permutation_trans; [apply sort_names_perm|].
  eapply Permutation_trans; [exact Hp | apply Permutation_sym, sort_names_perm].
Qed.
