(* C16: proofs about the resolver model, part 2: whole passes, the pass loop,
   soundness (the accepted table solves the constraint system and is what the
   compiler relies on) and completeness (a type error refutes satisfiability). *)
From Verif Require Import Lib.Base Model.Resolver Proofs.Resolver.
Open Scope Z_scope.

Section Walk.
Variable P : program.
Hypothesis Hnodup : NoDup (fnames P).
Hypothesis Hnonempty : forall fd, In fd (p_funcs P) -> f_name fd <> [].

Notation state_ok := (state_ok P).
Notation step_in := (step_in P).
Notation step_holds := (step_holds P).

(* ---------- known types never change ------------------------------------ *)

Definition ext (t t' : vtable) : Prop :=
  forall k ty0, get t k = Some ty0 -> ty0 <> TUnknown -> get t' k = Some ty0.

Lemma ext_refl t : ext t t.
Proof. intros k ty0 H _. exact H. Qed.

Lemma ext_trans a b c : ext a b -> ext b c -> ext a c.
Proof. intros H1 H2 k ty0 G Hn. apply H2; [apply H1; assumption | exact Hn]. Qed.

Lemma record_var_ext s cur v typ s' :
  record_var P s cur v typ = ROk s' -> ext (st_vars s) (st_vars s').
Proof.
  unfold record_var, lookup_var. intros H k ty0 G Hn. norm.
  destruct (if is_empty cur then None else get (st_vars s) (cur, v)) as [lt|] eqn:E1.
  - destruct (_ && _ && _); [discriminate|].
    destruct (ty_eqb lt TUnknown && negb (ty_eqb typ TUnknown)) eqn:C; injection H as <-; [|exact G].
    cbn [st_vars]. rewrite get_put. destruct (key_eqb k (cur, v)) eqn:Ek; [|exact G].
    apply key_eqb_eq in Ek. subst k. destruct (is_empty cur); [discriminate|].
    apply andb_true_iff in C. destruct C as [C _]. apply ty_eqb_eq in C. norm. congruence.
  - destruct (special v) eqn:Es.
    + destruct (_ && _ && _); [discriminate|]. cbn [ty_eqb andb] in H. injection H as <-. exact G.
    + destruct (get (st_vars s) (gk v)) as [gt|] eqn:E2.
      * destruct (_ && _ && _); [discriminate|].
        destruct (ty_eqb gt TUnknown && negb (ty_eqb typ TUnknown)) eqn:C; injection H as <-; [|exact G].
        cbn [st_vars]. rewrite get_put. destruct (key_eqb k (gk v)) eqn:Ek; [|exact G].
        apply key_eqb_eq in Ek. subst k.
        apply andb_true_iff in C. destruct C as [C _]. apply ty_eqb_eq in C. norm. congruence.
      * destruct (is_func P v); [discriminate|]. injection H as <-. cbn [st_vars].
        rewrite get_put. destruct (key_eqb k (gk v)) eqn:Ek; [|exact G].
        apply key_eqb_eq in Ek. subst k. norm. congruence.
Qed.

Lemma visit_step_ext cur s st s' : visit_step P cur s st = ROk s' -> ext (st_vars s) (st_vars s').
Proof.
  intros H. destruct st as [v t|f nargs|f i|f i v]; cbn [visit_step] in H.
  - eapply record_var_ext; eassumption.
  - assert (s' = s); [|subst; apply ext_refl].
    destruct (match lookup_var (st_vars s) cur f with Some (_, _, vf) => negb (is_empty vf) | None => false end); [discriminate|].
    destruct (func_info P f) as [fi|]; [|discriminate].
    destruct (fi_native fi).
    + destruct (find_native (p_natives P) f) as [nt|]; [|discriminate].
      destruct (n_func nt); cbn [negb] in H; [|discriminate].
      destruct (_ <? nargs); [discriminate | congruence].
    + destruct (_ <? nargs); [discriminate | congruence].
  - assert (s' = s); [|subst; apply ext_refl].
    destruct (func_info P f) as [fi|]; [|discriminate].
    destruct (fi_native fi); [congruence|].
    destruct (nth_error (fi_params fi) i) as [p|]; [|discriminate].
    destruct (get_or_unknown (st_vars s) (f, p)); congruence.
  - destruct (func_info P f) as [fi|]; [|discriminate].
    destruct (fi_native fi); [eapply record_var_ext; eassumption|].
    destruct (nth_error (fi_params fi) i) as [p|]; [|discriminate].
    destruct (_ && _); [eapply record_var_ext; eassumption|].
    destruct (_ && _); [eapply record_var_ext; eassumption|].
    destruct (_ && _ && _); [discriminate|]. eapply record_var_ext; eassumption.
Qed.

(* ---------- a list of steps ------------------------------------------------ *)

(* the step ran without changing anything *)
Definition quiet (s : state) (cur : name) (st : step) : Prop :=
  visit_step P cur s st = ROk s /\ step_holds (st_vars s) cur st.

Lemma run_steps_ok cur l s s' :
  state_ok s -> Forall (step_in cur) l ->
  run_steps P cur l s = ROk s' ->
  state_ok s' /\ st_updates s <= st_updates s' /\ ext (st_vars s) (st_vars s') /\
  (st_updates s' = st_updates s -> s' = s /\ Forall (quiet s cur) l).
Proof.
  revert s. induction l as [|st l IH]; intros s Hok Hin H; cbn [run_steps] in H.
  - injection H as <-. split; [exact Hok|]. split; [lia|]. split; [apply ext_refl|]. intros _. split; [reflexivity | constructor].
  - inversion Hin as [|x y Hin1 Hin2]; subst.
    destruct (visit_step P cur s st) as [s1| | |] eqn:E; try discriminate.
    pose proof (visit_step_ext _ _ _ _ E) as Hx.
    destruct (visit_step_ok P Hnonempty cur s st s1 Hok Hin1 E) as [Hok1 [Hm1 Hq1]].
    destruct (IH s1 Hok1 Hin2 H) as [Hok' [Hm' [Hx' Hq']]].
    split; [exact Hok'|]. split; [lia|]. split; [eapply ext_trans; eassumption|]. intros Hu.
    assert (Hu1 : st_updates s1 = st_updates s) by lia.
    destruct (Hq1 Hu1) as [-> Hh]. destruct (Hq' Hu) as [-> Hall].
    split; [reflexivity|]. constructor; [split; assumption | exact Hall].
Qed.

Lemma run_steps_err cur l s e :
  state_ok s -> Forall (step_in cur) l ->
  run_steps P cur l s = RErr e -> is_type_error e = true -> ~ sat P.
Proof.
  revert s. induction l as [|st l IH]; intros s Hok Hin H He; cbn [run_steps] in H; [discriminate|].
  inversion Hin as [|x y Hin1 Hin2]; subst.
  destruct (visit_step P cur s st) as [s1|e1| |] eqn:E; try discriminate.
  - destruct (visit_step_ok P Hnonempty cur s st s1 Hok Hin1 E) as [Hok1 _].
    eapply IH; eassumption.
  - injection H as <-. eapply visit_step_err; eassumption.
Qed.

(* ---------- the steps of the program --------------------------------------- *)

Lemma body_steps_in fd : In fd (p_funcs P) -> Forall (step_in (f_name fd)) (flat_events (f_body fd)).
Proof.
  intros Hfd. apply Forall_forall. intros st Hst c Hc. unfold constraints.
  apply in_or_app. right. apply in_or_app. left.
  apply in_flat_map. exists fd. split; [exact Hfd|]. apply in_flat_map. exists st. split; assumption.
Qed.

Lemma main_steps_in : Forall (step_in []) (flat_events (p_main P)).
Proof.
  apply Forall_forall. intros st Hst c Hc. unfold constraints.
  apply in_or_app. right. apply in_or_app. right.
  apply in_flat_map. exists st. split; assumption.
Qed.

(* ---------- a pass ----------------------------------------------------------- *)

Definition funcs_quiet (s : state) (order : list name) : Prop :=
  forall fn i fd, In fn order -> find_func P fn = Some (i, fd) ->
                  Forall (quiet s fn) (flat_events (f_body fd)).

Lemma walk_funcs_ok order s s' :
  state_ok s -> walk_funcs P order s = ROk s' ->
  state_ok s' /\ st_updates s <= st_updates s' /\ ext (st_vars s) (st_vars s') /\
  (st_updates s' = st_updates s -> s' = s /\ funcs_quiet s order).
Proof.
  revert s. induction order as [|fn order IH]; intros s Hok H; cbn [walk_funcs] in H.
  - injection H as <-. split; [exact Hok|]. split; [lia|]. split; [apply ext_refl|]. intros _.
    split; [reflexivity|]. intros fn i fd [].
  - destruct (is_empty fn) eqn:Ee.
    { destruct (IH s Hok H) as [Hok' [Hm [Hx Hq]]]. split; [exact Hok'|]. split; [exact Hm|]. split; [exact Hx|].
      intros Hu. destruct (Hq Hu) as [-> Hfq]. split; [reflexivity|].
      intros g i fd [<-|Hg] Hfind; [|eapply Hfq; eassumption].
      apply is_empty_nil in Ee. subst fn. apply (find_func_nonempty P Hnonempty) in Hfind. contradiction. }
    destruct (find_func P fn) as [[i0 fd0]|] eqn:Ef.
    + destruct (run_steps P fn (flat_events (f_body fd0)) s) as [s1| | |] eqn:E; try discriminate.
      destruct (find_func_In P fn i0 fd0 Ef) as [Hin0 Hname0].
      assert (Hsi : Forall (step_in fn) (flat_events (f_body fd0))) by (rewrite <- Hname0; apply body_steps_in; exact Hin0).
      destruct (run_steps_ok fn _ s s1 Hok Hsi E) as [Hok1 [Hm1 [Hx1 Hq1]]].
      destruct (IH s1 Hok1 H) as [Hok' [Hm' [Hx' Hq']]].
      split; [exact Hok'|]. split; [lia|]. split; [eapply ext_trans; eassumption|]. intros Hu.
      assert (Hu1 : st_updates s1 = st_updates s) by lia.
      destruct (Hq1 Hu1) as [-> Hall]. destruct (Hq' Hu) as [-> Hfq].
      split; [reflexivity|]. intros g i fd [<-|Hg] Hfind; [|eapply Hfq; eassumption].
      rewrite Ef in Hfind. injection Hfind as <- <-. exact Hall.
    + destruct (IH s Hok H) as [Hok' [Hm [Hx Hq]]]. split; [exact Hok'|]. split; [exact Hm|]. split; [exact Hx|].
      intros Hu. destruct (Hq Hu) as [-> Hfq]. split; [reflexivity|].
      intros g i fd [<-|Hg] Hfind; [congruence | eapply Hfq; eassumption].
Qed.

Lemma walk_funcs_err order s e :
  state_ok s -> walk_funcs P order s = RErr e -> is_type_error e = true -> ~ sat P.
Proof.
  revert s. induction order as [|fn order IH]; intros s Hok H He; cbn [walk_funcs] in H; [discriminate|].
  destruct (is_empty fn); [eapply IH; eassumption|].
  destruct (find_func P fn) as [[i0 fd0]|] eqn:Ef; [|eapply IH; eassumption].
  destruct (find_func_In P fn i0 fd0 Ef) as [Hin0 Hname0].
  assert (Hsi : Forall (step_in fn) (flat_events (f_body fd0))) by (rewrite <- Hname0; apply body_steps_in; exact Hin0).
  destruct (run_steps P fn (flat_events (f_body fd0)) s) as [s1|e1| |] eqn:E; try discriminate.
  - destruct (run_steps_ok fn _ s s1 Hok Hsi E) as [Hok1 _]. eapply IH; eassumption.
  - injection H as <-. eapply run_steps_err; eassumption.
Qed.

Definition pass_quiet (s : state) (order : list name) : Prop :=
  funcs_quiet s order /\ Forall (quiet s []) (flat_events (p_main P)).

Lemma walk_ordered_ok order s s' :
  state_ok s -> walk_ordered P order s = ROk s' ->
  state_ok s' /\ st_updates s <= st_updates s' /\ ext (st_vars s) (st_vars s') /\
  (st_updates s' = st_updates s -> s' = s /\ pass_quiet s order).
Proof.
  intros Hok H. unfold walk_ordered in H.
  destruct (walk_funcs P order s) as [s1| | |] eqn:E; try discriminate.
  destruct (walk_funcs_ok order s s1 Hok E) as [Hok1 [Hm1 [Hx1 Hq1]]].
  destruct (run_steps_ok [] _ s1 s' Hok1 main_steps_in H) as [Hok' [Hm' [Hx' Hq']]].
  split; [exact Hok'|]. split; [lia|]. split; [eapply ext_trans; eassumption|]. intros Hu.
  assert (Hu1 : st_updates s1 = st_updates s) by lia.
  destruct (Hq1 Hu1) as [-> Hfq]. destruct (Hq' Hu) as [-> Hall].
  split; [reflexivity|]. split; assumption.
Qed.

Lemma walk_ordered_err order s e :
  state_ok s -> walk_ordered P order s = RErr e -> is_type_error e = true -> ~ sat P.
Proof.
  intros Hok H He. unfold walk_ordered in H.
  destruct (walk_funcs P order s) as [s1|e1| |] eqn:E; try discriminate.
  - destruct (walk_funcs_ok order s s1 Hok E) as [Hok1 _].
    eapply run_steps_err; [exact Hok1 | apply main_steps_in | exact H | exact He].
  - injection H as <-. eapply walk_funcs_err; eassumption.
Qed.

(* ---------- the pass loop ----------------------------------------------------- *)

Lemma pass_loop_ok order k s updates s5 :
  state_ok s ->
  (exists s0, state_ok s0 /\ walk_ordered P order s0 = ROk s /\ st_updates s0 = updates) ->
  pass_loop P order k s updates = ROk s5 ->
  state_ok s5 /\ ext (st_vars s) (st_vars s5) /\ pass_quiet s5 order.
Proof.
  revert s updates. induction k as [|k IH]; intros s updates Hok [s0 [Hok0 [Hw0 Hu0]]] H; cbn [pass_loop] in H.
  - destruct (st_updates s =? updates) eqn:E.
    + injection H as <-. apply Z.eqb_eq in E.
      destruct (walk_ordered_ok order s0 s Hok0 Hw0) as [_ [_ [_ Hq]]].
      destruct (Hq ltac:(lia)) as [-> Hpq]. split; [exact Hok|]. split; [apply ext_refl | exact Hpq].
    + destruct (walk_ordered P order s); discriminate.
  - destruct (st_updates s =? updates) eqn:E.
    + injection H as <-. apply Z.eqb_eq in E.
      destruct (walk_ordered_ok order s0 s Hok0 Hw0) as [_ [_ [_ Hq]]].
      destruct (Hq ltac:(lia)) as [-> Hpq]. split; [exact Hok|]. split; [apply ext_refl | exact Hpq].
    + destruct (walk_ordered P order s) as [s1| | |] eqn:Ew; try discriminate.
      destruct (walk_ordered_ok order s s1 Hok Ew) as [Hok1 [_ [Hx1 _]]].
      destruct (IH s1 (st_updates s) Hok1 ltac:(exists s; auto) H) as [Hok5 [Hx5 Hpq]].
      split; [exact Hok5|]. split; [eapply ext_trans; eassumption | exact Hpq].
Qed.

Lemma pass_loop_err order k s updates e :
  state_ok s -> pass_loop P order k s updates = RErr e -> is_type_error e = true -> ~ sat P.
Proof.
  revert s updates. induction k as [|k IH]; intros s updates Hok H He; cbn [pass_loop] in H.
  - destruct (st_updates s =? updates); [discriminate|].
    destruct (walk_ordered P order s) as [s1|e1| |] eqn:Ew; try discriminate.
    + injection H as <-. discriminate.
    + injection H as <-. eapply walk_ordered_err; eassumption.
  - destruct (st_updates s =? updates); [discriminate|].
    destruct (walk_ordered P order s) as [s1|e1| |] eqn:Ew; try discriminate.
    + destruct (walk_ordered_ok order s s1 Hok Ew) as [Hok1 _]. eapply IH; eassumption.
    + injection H as <-. eapply walk_ordered_err; eassumption.
Qed.

(* ---------- the initial table --------------------------------------------------- *)

Lemma get_fold_put_params t (f : name) ps k :
  get (fold_left (fun t p => put t (f, p) TUnknown) ps t) k =
  if existsb (fun p => key_eqb k (f, p)) ps then Some TUnknown else get t k.
Proof.
  revert t. induction ps as [|p ps IH]; intros t; cbn [fold_left existsb]; [reflexivity|].
  rewrite IH. rewrite get_put.
  destruct (existsb (fun p0 => key_eqb k (f, p0)) ps); [rewrite orb_true_r; reflexivity|].
  rewrite orb_false_r. reflexivity.
Qed.

Lemma get_init_vars_from fs t k :
  get (fold_left (fun t fd => fold_left (fun t p => put t (f_name fd, p) TUnknown) (f_params fd) t) fs t) k =
  if existsb (fun fd => existsb (fun p => key_eqb k (f_name fd, p)) (f_params fd)) fs then Some TUnknown else get t k.
Proof.
  revert t. induction fs as [|fd fs IH]; intros t; cbn [fold_left existsb]; [reflexivity|].
  rewrite IH. rewrite get_fold_put_params.
  destruct (existsb (fun fd0 => existsb (fun p => key_eqb k (f_name fd0, p)) (f_params fd0)) fs);
    [rewrite orb_true_r; reflexivity|].
  rewrite orb_false_r. reflexivity.
Qed.

Lemma init_state_ok : state_ok {| st_vars := init_vars P; st_updates := 0 |}.
Proof.
  assert (Hget : forall k, get (init_vars P) k =
            if existsb (fun fd => existsb (fun p => key_eqb k (f_name fd, p)) (f_params fd)) (p_funcs P)
            then Some TUnknown else None).
  { intros k. unfold init_vars. rewrite get_init_vars_from. reflexivity. }
  split; cbn [st_vars].
  - split.
    + intros fn v Hfn. rewrite Hget. split.
      * intros H. destruct (existsb _ (p_funcs P)) eqn:E; [|congruence].
        apply existsb_exists in E. destruct E as [fd [Hfd E]]. apply existsb_exists in E. destruct E as [p [Hp E]].
        apply key_eqb_eq in E. injection E as -> ->.
        destruct (find_func_of_In P Hnodup fd Hfd) as [i Hi]. unfold params_of. rewrite Hi. exact Hp.
      * intros H. unfold params_of in H. destruct (find_func P fn) as [[i fd]|] eqn:Ef; [|destruct H].
        destruct (find_func_In P fn i fd Ef) as [Hfd Hname].
        assert (E : existsb (fun fd => existsb (fun p => key_eqb (fn, v) (f_name fd, p)) (f_params fd)) (p_funcs P) = true).
        { apply existsb_exists. exists fd. split; [exact Hfd|]. apply existsb_exists. exists v. split; [exact H|].
          rewrite Hname. apply key_eqb_refl. }
        rewrite E. discriminate.
    + intros v Hv. rewrite Hget.
      destruct (existsb _ (p_funcs P)) eqn:E; [|reflexivity].
      apply existsb_exists in E. destruct E as [fd [Hfd E]]. apply existsb_exists in E. destruct E as [p [Hp E]].
      apply key_eqb_eq in E. injection E as E1 _. exfalso. apply (Hnonempty fd Hfd). congruence.
  - intros rho Hs k ty0 G Hn. rewrite Hget in G. destruct (existsb _ (p_funcs P)); congruence.
Qed.

(* ---------- the result ------------------------------------------------------------ *)

Definition defaulted (t : vtable) : vtable := map (fun e => (fst e, default_ty (snd e))) t.

Lemma get_defaulted t k : get (defaulted t) k = option_map default_ty (get t k).
Proof.
  induction t as [|[k' v] t IH]; cbn [defaulted map get fst snd option_map]; [reflexivity|].
  destruct (key_eqb k k'); [reflexivity | exact IH].
Qed.

Lemma inv_defaulted t : inv P t -> inv P (defaulted t).
Proof.
  intros [I1 I2]. split.
  - intros fn v Hfn. rewrite get_defaulted. rewrite <- (I1 fn v Hfn).
    destruct (get t (fn, v)); cbn [option_map]; split; congruence.
  - intros v Hv. rewrite get_defaulted, (I2 v Hv). reflexivity.
Qed.

Lemma kty_defaulted t k : present t k -> kty (defaulted t) k = default_ty (kty t k).
Proof.
  unfold present, kty, get_or_unknown. rewrite get_defaulted. intros H.
  destruct (kspecial k); [reflexivity|]. destruct H as [H|H]; [discriminate|].
  destruct (get t k); [reflexivity | congruence].
Qed.

Lemma rho_defaulted t k : inv P t -> rho_of (defaulted t) k = isarr (kty t k).
Proof.
  intros [I1 I2]. unfold rho_of, kty, get_or_unknown. rewrite get_defaulted.
  destruct (kspecial k) eqn:E.
  - unfold kspecial in E. apply andb_true_iff in E. destruct E as [E1 E2].
    destruct k as [fn v]. cbn [fst snd] in *. apply is_empty_nil in E1. subst fn.
    norm. rewrite (I2 v E2). reflexivity.
  - destruct (get t k) as [[| |]|]; reflexivity.
Qed.

Lemma holds3_holds t c : inv P t -> holds3 t c -> holds (rho_of (defaulted t)) c.
Proof.
  intros Hi H. destruct c as [k ty0|k1 k2|k]; cbn [holds holds3] in *.
  - destruct ty0; [exact I| |]; rewrite (rho_defaulted t k Hi);
      (destruct H as [H|H]; [discriminate | rewrite H; reflexivity]).
  - rewrite !(rho_defaulted t _ Hi). rewrite H. reflexivity.
  - rewrite (rho_defaulted t k Hi). destruct (kty t k); [reflexivity | reflexivity | congruence].
Qed.

(* every function is in the order *)
Definition covers (order : list name) : Prop := forall fd, In fd (p_funcs P) -> In (f_name fd) order.

Definition all_quiet (s : state) : Prop :=
  (forall fd, In fd (p_funcs P) -> Forall (quiet s (f_name fd)) (flat_events (f_body fd))) /\
  Forall (quiet s []) (flat_events (p_main P)).

Lemma pass_quiet_all s order : covers order -> pass_quiet s order -> all_quiet s.
Proof.
  intros Hc [Hf Hm]. split; [|exact Hm]. intros fd Hfd.
  destruct (find_func_of_In P Hnodup fd Hfd) as [i Hi].
  eapply Hf; [apply Hc; exact Hfd | exact Hi].
Qed.

(* the three built-in arrays *)
Definition builtin_ok (t : vtable) : Prop :=
  get t (gk n_ARGV) = Some TArray /\ get t (gk n_ENVIRON) = Some TArray /\ get t (gk n_FIELDS) = Some TArray.

Lemma record_builtin s v s' :
  state_ok s -> special v = false ->
  record_var P s [] v TArray = ROk s' -> get (st_vars s') (gk v) = Some TArray.
Proof.
  intros [Hi _] Hv H. unfold record_var in H. rewrite (lookup_spec P _ [] v Hi) in H. cbv zeta in H.
  assert (Hk : scope_key P [] v = gk v) by reflexivity. rewrite Hk in H.
  unfold kspecial in H. cbn [fst snd is_empty andb] in H. rewrite Hv in H.
  destruct (get (st_vars s) (gk v)) as [ity|] eqn:G.
  - cbn [fst] in H. destruct ity; cbn [ty_eqb negb andb] in H; try discriminate; injection H as <-; cbn [st_vars].
    + apply get_put_same.
    + exact G.
  - destruct (is_func P v); [discriminate|]. injection H as <-. cbn [st_vars]. norm. apply get_put_same.
Qed.

Lemma base_justified (v : name) :
  In v [n_ARGV; n_ENVIRON; n_FIELDS] ->
  forall rho, solution P rho -> TArray <> TUnknown -> rho (scope_key P [] v) = isarr TArray.
Proof.
  intros Hv rho Hs _. assert (Hk : scope_key P [] v = gk v) by reflexivity. rewrite Hk.
  specialize (Hs (CIs (gk v) TArray)). cbn [holds] in Hs. apply Hs.
  unfold constraints, base_constraints. apply in_or_app. left. apply in_or_app. left.
  cbn [In] in Hv. destruct Hv as [<-|[<-|[<-|[]]]]; cbn [In]; auto.
Qed.

(* what acceptance means: the pre-default table of the final, quiet pass *)
Definition accepted_by (s : state) (F : final) : Prop :=
  F = finalize P s /\ state_ok s /\ builtin_ok (st_vars s).

Lemma resolve_order_ok cut order F :
  resolve_order cut order P = ROk F ->
  exists s, accepted_by s F /\ pass_quiet s order.
Proof.
  unfold resolve_order. intros H.
  destruct (first_dup [] (fnames P)); [discriminate|].
  set (s0 := {| st_vars := init_vars P; st_updates := 0 |}) in *.
  pose proof init_state_ok as Hok0. fold s0 in Hok0.
  destruct (record_var P s0 [] n_ARGV TArray) as [s1| | |] eqn:E1; try discriminate. cbn [rbind2] in H.
  destruct (record_var P s1 [] n_ENVIRON TArray) as [s2| | |] eqn:E2; try discriminate. cbn [rbind2] in H.
  destruct (record_var P s2 [] n_FIELDS TArray) as [s3| | |] eqn:E3; try discriminate. cbn [rbind2] in H.
  destruct (walk_ordered P order s3) as [s4| | |] eqn:E4; try discriminate. cbn [rbind2] in H.
  destruct (pass_loop P order cut s4 (st_updates s3)) as [s5| | |] eqn:E5; try discriminate. cbn [rbind2] in H.
  injection H as <-.
  destruct (record_var_ok P s0 [] n_ARGV TArray s1 Hok0
              (base_justified n_ARGV ltac:(cbn; auto)) E1) as [Hok1 _].
  destruct (record_var_ok P s1 [] n_ENVIRON TArray s2 Hok1
              (base_justified n_ENVIRON ltac:(cbn; auto)) E2) as [Hok2 _].
  destruct (record_var_ok P s2 [] n_FIELDS TArray s3 Hok2
              (base_justified n_FIELDS ltac:(cbn; auto)) E3) as [Hok3 _].
  pose proof (record_builtin s0 n_ARGV s1 Hok0 eq_refl E1) as B1.
  pose proof (record_builtin s1 n_ENVIRON s2 Hok1 eq_refl E2) as B2.
  pose proof (record_builtin s2 n_FIELDS s3 Hok2 eq_refl E3) as B3.
  pose proof (record_var_ext _ _ _ _ _ E2) as X2. pose proof (record_var_ext _ _ _ _ _ E3) as X3.
  destruct (walk_ordered_ok order s3 s4 Hok3 E4) as [Hok4 [_ [X4 _]]].
  destruct (pass_loop_ok order cut s4 (st_updates s3) s5 Hok4 ltac:(exists s3; auto) E5) as [Hok5 [X5 Hpq]].
  exists s5. split; [|exact Hpq]. split; [reflexivity|]. split; [exact Hok5|].
  assert (X : ext (st_vars s3) (st_vars s5)) by (eapply ext_trans; eassumption).
  split; [|split].
  - apply X; [|discriminate]. apply X3; [|discriminate]. apply X2; [|discriminate]. exact B1.
  - apply X; [|discriminate]. apply X3; [|discriminate]. exact B2.
  - apply X; [|discriminate]. exact B3.
Qed.

Lemma fin_types_finalize s : fin_types (finalize P s) = defaulted (st_vars s).
Proof. reflexivity. Qed.

Lemma in_base_constraints c :
  In c base_constraints ->
  (exists v, In v [n_ARGV; n_ENVIRON; n_FIELDS] /\ c = CIs (gk v) TArray) \/
  (exists v, special v = true /\ c = CIs (gk v) TScalar).
Proof.
  unfold base_constraints. intros H. apply in_app_or in H. destruct H as [H|H].
  - left. cbn [In] in H. destruct H as [<-|[<-|[<-|[]]]]; eexists; (split; [|reflexivity]); cbn; auto.
  - right. apply in_map_iff in H. destruct H as [v [<- Hv]]. exists v. split; [apply mem_In; exact Hv | reflexivity].
Qed.

(* SOUNDNESS: the accepted types solve the constraint system *)
Lemma sound_state s F :
  accepted_by s F -> all_quiet s -> solution P (rho_of (fin_types F)).
Proof.
  intros [-> [[Hi Hf] [B1 [B2 B3]]]] [Hfq Hmq] c Hc. rewrite fin_types_finalize.
  unfold constraints in Hc. apply in_app_or in Hc. destruct Hc as [Hc|Hc].
  - apply in_base_constraints in Hc. destruct Hc as [[v [Hv ->]]|[v [Hv ->]]]; cbn [holds].
    + unfold rho_of. rewrite get_defaulted.
      cbn [In] in Hv. destruct Hv as [<-|[<-|[<-|[]]]]; [rewrite B1 | rewrite B2 | rewrite B3]; reflexivity.
    + unfold rho_of. rewrite get_defaulted. destruct Hi as [_ I2]. rewrite (I2 v Hv). reflexivity.
  - apply holds3_holds; [exact Hi|].
    apply in_app_or in Hc. destruct Hc as [Hc|Hc].
    + apply in_flat_map in Hc. destruct Hc as [fd [Hfd Hc]]. apply in_flat_map in Hc. destruct Hc as [st [Hst Hc]].
      pose proof (Hfq fd Hfd) as Hall. rewrite Forall_forall in Hall. destruct (Hall st Hst) as [_ [Hh _]].
      apply Hh. exact Hc.
    + apply in_flat_map in Hc. destruct Hc as [st [Hst Hc]].
      rewrite Forall_forall in Hmq. destruct (Hmq st Hst) as [_ [Hh _]]. apply Hh. exact Hc.
Qed.

(* what the compiler relies on *)
Lemma cc_step_quiet s cur st :
  inv P (st_vars s) -> quiet s cur st -> cc_step P (defaulted (st_vars s)) cur st = true.
Proof.
  intros Hi [Hv [Hh Hp]]. pose proof (inv_defaulted _ Hi) as Hid.
  destruct st as [v t|f nargs|f i|f i v]; cbn [cc_step].
  - rewrite (type_of_lookup_kty P _ cur v Hid).
    rewrite (kty_defaulted _ _ Hp).
    specialize (Hh (CIs (scope_key P cur v) t) ltac:(left; reflexivity)). cbn [holds3] in Hh.
    destruct t.
    + destruct (kty (st_vars s) (scope_key P cur v)); reflexivity.
    + destruct Hh as [Hh|Hh]; [discriminate | rewrite Hh; reflexivity].
    + destruct Hh as [Hh|Hh]; [discriminate | rewrite Hh; reflexivity].
  - reflexivity.
  - cbn [visit_step] in Hv. destruct (func_info P f) as [fi|] eqn:Efi; [|discriminate].
    destruct (fi_native fi) eqn:En; [reflexivity|]. cbn [orb].
    destruct (nth_error (fi_params fi) i) as [p|] eqn:Ep; [|discriminate].
    destruct (func_info_awk P Hnonempty f fi Efi En) as [Hf _].
    specialize (Hh (CNotArr (f, p))). cbn [constr_of_step] in Hh. rewrite Efi, En, Ep in Hh.
    specialize (Hh ltac:(left; reflexivity)). cbn [holds3] in Hh. rewrite (kty_local _ f p Hf) in Hh.
    unfold get_or_unknown in *. rewrite get_defaulted.
    destruct (get (st_vars s) (f, p)) as [[| |]|]; cbn [option_map default_ty ty_eqb negb]; congruence.
  - cbn [visit_step] in Hv. destruct (func_info P f) as [fi|] eqn:Efi; [|discriminate].
    rewrite (type_of_lookup_kty P _ cur v Hid). rewrite (kty_defaulted _ _ Hp).
    destruct (fi_native fi) eqn:En.
    + specialize (Hh (CIs (scope_key P cur v) TScalar)). cbn [constr_of_step] in Hh. rewrite Efi, En in Hh.
      specialize (Hh ltac:(left; reflexivity)). cbn [holds3] in Hh.
      destruct Hh as [Hh|Hh]; [discriminate | rewrite Hh; reflexivity].
    + destruct (nth_error (fi_params fi) i) as [p|] eqn:Ep; [|discriminate].
      destruct (func_info_awk P Hnonempty f fi Efi En) as [Hf _].
      specialize (Hh (CEq (scope_key P cur v) (f, p))). cbn [constr_of_step] in Hh. rewrite Efi, En, Ep in Hh.
      specialize (Hh ltac:(left; reflexivity)). cbn [holds3] in Hh. rewrite (kty_local _ f p Hf) in Hh.
      rewrite Hh. unfold get_or_unknown. rewrite get_defaulted.
      destruct (get (st_vars s) (f, p)) as [[| |]|]; reflexivity.
Qed.

Lemma well_typed_state s F :
  accepted_by s F -> all_quiet s -> compile_check P F = true.
Proof.
  intros [-> [[Hi Hf] _]] [Hfq Hmq]. unfold compile_check. rewrite fin_types_finalize.
  apply andb_true_iff. split.
  - apply forallb_forall. intros fd Hfd. apply forallb_forall. intros st Hst.
    apply cc_step_quiet; [exact Hi|]. pose proof (Hfq fd Hfd) as Hall. rewrite Forall_forall in Hall. apply Hall. exact Hst.
  - apply forallb_forall. intros st Hst. apply cc_step_quiet; [exact Hi|].
    rewrite Forall_forall in Hmq. apply Hmq. exact Hst.
Qed.

(* COMPLETENESS: a type error refutes satisfiability *)
Lemma complete_order cut order e :
  resolve_order cut order P = RErr e -> is_type_error e = true -> ~ sat P.
Proof.
  unfold resolve_order. intros H He.
  destruct (first_dup [] (fnames P)); [injection H as <-; discriminate|].
  set (s0 := {| st_vars := init_vars P; st_updates := 0 |}) in *.
  pose proof init_state_ok as Hok0. fold s0 in Hok0.
  destruct (record_var P s0 [] n_ARGV TArray) as [s1|e1| |] eqn:E1; try discriminate; cbn [rbind2] in H.
  2:{ injection H as <-. eapply (record_var_err P); [exact Hok0 | apply (base_justified n_ARGV); cbn; auto | exact E1 | exact He]. }
  destruct (record_var_ok P s0 [] n_ARGV TArray s1 Hok0
              (base_justified n_ARGV ltac:(cbn; auto)) E1) as [Hok1 _].
  destruct (record_var P s1 [] n_ENVIRON TArray) as [s2|e2| |] eqn:E2; try discriminate; cbn [rbind2] in H.
  2:{ injection H as <-. eapply (record_var_err P); [exact Hok1 | apply (base_justified n_ENVIRON); cbn; auto | exact E2 | exact He]. }
  destruct (record_var_ok P s1 [] n_ENVIRON TArray s2 Hok1
              (base_justified n_ENVIRON ltac:(cbn; auto)) E2) as [Hok2 _].
  destruct (record_var P s2 [] n_FIELDS TArray) as [s3|e3| |] eqn:E3; try discriminate; cbn [rbind2] in H.
  2:{ injection H as <-. eapply (record_var_err P); [exact Hok2 | apply (base_justified n_FIELDS); cbn; auto | exact E3 | exact He]. }
  destruct (record_var_ok P s2 [] n_FIELDS TArray s3 Hok2
              (base_justified n_FIELDS ltac:(cbn; auto)) E3) as [Hok3 _].
  destruct (walk_ordered P order s3) as [s4|e4| |] eqn:E4; try discriminate; cbn [rbind2] in H.
  2:{ injection H as <-. eapply walk_ordered_err; eassumption. }
  destruct (walk_ordered_ok order s3 s4 Hok3 E4) as [Hok4 _].
  destruct (pass_loop P order cut s4 (st_updates s3)) as [s5|e5| |] eqn:E5; try discriminate; cbn [rbind2] in H.
  injection H as <-. eapply pass_loop_err; eassumption.
Qed.

End Walk.
