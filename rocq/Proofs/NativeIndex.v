(* C17: the two name-sorted index assignments (resolver, interpreter) agree, for every
   set of names and whatever the two map iteration orders are. *)
From Coq Require Import Permutation Sorting.Sorted.
From Verif Require Import Lib.Base Lib.Dyadic Model.Native.

(* ---- Go's string order on byte lists is a strict total order ---- *)
Lemma bytes_ltb_irrefl a : bytes_ltb a a = false.
Proof.
  induction a as [|x a IH]; cbn [bytes_ltb]; [reflexivity|].
  rewrite Z.ltb_irrefl. exact IH.
Qed.

Lemma bytes_ltb_trans a : forall b c, bytes_ltb a b = true -> bytes_ltb b c = true -> bytes_ltb a c = true.
Proof.
  induction a as [|x a IH]; intros [|y b] [|z c]; cbn [bytes_ltb]; intros H1 H2;
    try discriminate; try reflexivity.
  destruct (x <? y) eqn:Exy; [apply Z.ltb_lt in Exy|apply Z.ltb_ge in Exy].
  - destruct (y <? z) eqn:Eyz; [apply Z.ltb_lt in Eyz|apply Z.ltb_ge in Eyz].
    + destruct (x <? z) eqn:Exz; [reflexivity|apply Z.ltb_ge in Exz; lia].
    + destruct (z <? y) eqn:Ezy; [discriminate|apply Z.ltb_ge in Ezy].
      assert (y = z) by lia; subst z.
      destruct (x <? y) eqn:E; [reflexivity|apply Z.ltb_ge in E; lia].
  - destruct (y <? x) eqn:Eyx; [discriminate|apply Z.ltb_ge in Eyx].
    assert (x = y) by lia; subst y.
    destruct (x <? z) eqn:Exz; [reflexivity|].
    destruct (z <? x) eqn:Ezx; [discriminate|].
    eapply IH; eassumption.
Qed.

Lemma bytes_ltb_total a : forall b, bytes_ltb a b = false -> bytes_ltb b a = false -> a = b.
Proof.
  induction a as [|x a IH]; intros [|y b]; cbn [bytes_ltb]; intros H1 H2;
    try discriminate; try reflexivity.
  destruct (x <? y) eqn:Exy; [discriminate|apply Z.ltb_ge in Exy].
  destruct (y <? x) eqn:Eyx; [discriminate|apply Z.ltb_ge in Eyx].
  assert (x = y) by lia; subst y. f_equal. apply IH; assumption.
Qed.

Lemma bytes_ltb_asym a b : bytes_ltb a b = true -> bytes_ltb b a = false.
Proof.
  intros H. destruct (bytes_ltb b a) eqn:E; [|reflexivity].
  pose proof (bytes_ltb_trans _ _ _ H E) as C. rewrite bytes_ltb_irrefl in C. discriminate.
Qed.

(* a <= b *)
Definition ble (a b : bytes) : Prop := bytes_ltb b a = false.

Lemma ble_refl a : ble a a.
Proof. apply bytes_ltb_irrefl. Qed.

Lemma ble_trans a b c : ble a b -> ble b c -> ble a c.
Proof.
  unfold ble. intros H1 H2.
  destruct (bytes_ltb c a) eqn:E; [|reflexivity].
  (* c < a, and not b < a: so c < b or c = b ... *)
  destruct (bytes_ltb a b) eqn:Eab.
  - pose proof (bytes_ltb_trans _ _ _ E Eab) as C. congruence.
  - pose proof (bytes_ltb_total _ _ Eab H1); subst b. congruence.
Qed.

Lemma ble_antisym a b : ble a b -> ble b a -> a = b.
Proof. unfold ble. intros H1 H2. apply bytes_ltb_total; assumption. Qed.

Lemma ble_total a b : ble a b \/ ble b a.
Proof.
  unfold ble. destruct (bytes_ltb b a) eqn:E; [right|left; reflexivity].
  apply bytes_ltb_asym. exact E.
Qed.

(* ---- insertion sort: sorted and a permutation ---- *)
Definition sorted (l : list bytes) : Prop := StronglySorted ble l.

Lemma insert_perm x l : Permutation (x :: l) (insert_name x l).
Proof.
  induction l as [|y l IH]; cbn [insert_name]; [apply Permutation_refl|].
  destruct (bytes_ltb y x); [|apply Permutation_refl].
  eapply Permutation_trans; [apply perm_swap|]. apply perm_skip. exact IH.
Qed.

Lemma sort_perm l : Permutation l (sort_names l).
Proof.
  induction l as [|x l IH]; cbn [sort_names fold_right]; [apply Permutation_refl|].
  eapply Permutation_trans; [apply perm_skip; exact IH|]. apply insert_perm.
Qed.

Lemma insert_sorted x l : sorted l -> sorted (insert_name x l).
Proof.
  unfold sorted. induction l as [|y l IH]; intros Hs; cbn [insert_name].
  - constructor; constructor.
  - inversion Hs as [|? ? Hs' Hall]; subst.
    destruct (bytes_ltb y x) eqn:E.
    + constructor; [apply IH; exact Hs'|].
      assert (Hyx : ble y x) by (apply bytes_ltb_asym; exact E).
      apply (Permutation_Forall (insert_perm x l)). constructor; assumption.
    + constructor; [exact Hs|]. constructor; [exact E|].
      eapply Forall_impl; [|exact Hall]. intros z Hz. eapply ble_trans; [exact E|exact Hz].
Qed.

Lemma sort_sorted l : sorted (sort_names l).
Proof.
  induction l as [|x l IH]; cbn [sort_names fold_right]; [constructor|].
  apply insert_sorted. exact IH.
Qed.

(* the sorted permutation is unique *)
Lemma sorted_perm_unique l1 : forall l2, sorted l1 -> sorted l2 -> Permutation l1 l2 -> l1 = l2.
Proof.
  unfold sorted. induction l1 as [|a l1 IH]; intros l2 H1 H2 P.
  - apply Permutation_nil in P. congruence.
  - destruct l2 as [|b l2]; [apply Permutation_sym, Permutation_nil in P; discriminate|].
    inversion H1 as [|? ? H1' A1]; subst. inversion H2 as [|? ? H2' A2]; subst.
    assert (Hab : a = b).
    { assert (Ia : In a (b :: l2)) by (eapply Permutation_in; [exact P|left; reflexivity]).
      assert (Ib : In b (a :: l1)) by (eapply Permutation_in; [apply Permutation_sym; exact P|left; reflexivity]).
      destruct Ia as [->|Ia]; [reflexivity|]. destruct Ib as [->|Ib]; [reflexivity|].
      rewrite Forall_forall in A1, A2. apply ble_antisym; [apply A1; exact Ib|apply A2; exact Ia]. }
    subst b. f_equal. apply IH; try assumption. eapply Permutation_cons_inv; exact P.
Qed.

(* sort.Strings is characterised by "sorted permutation of its input", so whichever
   algorithm Go uses the result is sort_names *)
Theorem sort_names_characterised l l' : sorted l' -> Permutation l l' -> l' = sort_names l.
Proof.
  intros Hs P. apply sorted_perm_unique; [exact Hs|apply sort_sorted|].
  eapply Permutation_trans; [apply Permutation_sym; exact P|apply sort_perm].
Qed.

Theorem sort_names_perm_invariant l1 l2 : Permutation l1 l2 -> sort_names l1 = sort_names l2.
Proof.
  intros P. apply sorted_perm_unique; try apply sort_sorted.
  eapply Permutation_trans; [apply Permutation_sym, sort_perm|].
  eapply Permutation_trans; [exact P|apply sort_perm].
Qed.

(* ---- lookup in a map is independent of the iteration order ---- *)
Lemma lookup_in name funcs f : lookup name funcs = Some f -> In (name, f) funcs.
Proof.
  induction funcs as [|[n g] rest IH]; cbn [lookup]; [discriminate|].
  destruct (bytes_eqb name n) eqn:E.
  - intros [= ->]. apply bytes_eqb_eq in E; subst. left; reflexivity.
  - intros H. right. apply IH; exact H.
Qed.

Lemma in_lookup name f funcs : NoDup (map fst funcs) -> In (name, f) funcs -> lookup name funcs = Some f.
Proof.
  induction funcs as [|[n g] rest IH]; cbn [lookup map fst]; intros ND Hin; [destruct Hin|].
  inversion ND as [|? ? Hnot ND']; subst.
  destruct Hin as [[= -> ->]|Hin].
  - assert (E : bytes_eqb name name = true) by (apply bytes_eqb_eq; reflexivity). rewrite E. reflexivity.
  - destruct (bytes_eqb name n) eqn:E.
    + apply bytes_eqb_eq in E; subst. exfalso. apply Hnot.
      change n with (fst (n, f)). apply in_map. exact Hin.
    + apply IH; assumption.
Qed.

Lemma lookup_none name funcs : lookup name funcs = None -> ~ In name (map fst funcs).
Proof.
  induction funcs as [|[n g] rest IH]; cbn [lookup map fst]; intros H; [intros []|].
  destruct (bytes_eqb name n) eqn:E; [discriminate|].
  intros [->|Hin]; [|apply IH; assumption].
  assert (E' : bytes_eqb name name = true) by (apply bytes_eqb_eq; reflexivity). congruence.
Qed.

Theorem lookup_perm_invariant name l1 l2 :
  NoDup (map fst l1) -> Permutation l1 l2 -> lookup name l1 = lookup name l2.
Proof.
  intros ND P.
  assert (ND2 : NoDup (map fst l2)) by (eapply Permutation_NoDup; [apply Permutation_map; exact P|exact ND]).
  destruct (lookup name l1) as [f|] eqn:E1.
  - symmetry. apply in_lookup; [exact ND2|]. eapply Permutation_in; [exact P|]. apply lookup_in; exact E1.
  - destruct (lookup name l2) as [g|] eqn:E2; [|reflexivity].
    exfalso. apply lookup_none in E1. apply E1.
    apply lookup_in in E2. eapply Permutation_in; [apply Permutation_sym, Permutation_map; exact P|].
    change name with (fst (name, g)). apply in_map. exact E2.
Qed.

(* ---- the table built by initNativeFuncs, indexed by the resolver's index ---- *)
Lemma nindex_0 {A} (x : A) l : nindex (x :: l) 0 = NOk x.
Proof. unfold nindex. rewrite zlen_cons. pose proof (zlen_nonneg l).
  destruct (0 <=? 0) eqn:E1; [|apply Z.leb_gt in E1; lia].
  destruct (0 <? 1 + zlen l) eqn:E2; [|apply Z.ltb_ge in E2; lia]. reflexivity.
Qed.

Lemma nindex_succ {A} (x : A) l i : 0 <= i -> nindex (x :: l) (1 + i) = nindex l i.
Proof.
  intros Hi. unfold nindex. rewrite zlen_cons.
  destruct (0 <=? 1 + i) eqn:E1; [|apply Z.leb_gt in E1; lia].
  destruct (0 <=? i) eqn:E0; [|apply Z.leb_gt in E0; lia].
  cbn [andb].
  destruct (i <? zlen l) eqn:E2; [apply Z.ltb_lt in E2|apply Z.ltb_ge in E2].
  - destruct (1 + i <? 1 + zlen l) eqn:E3; [|apply Z.ltb_ge in E3; lia].
    replace (Z.to_nat (1 + i)) with (S (Z.to_nat i)) by lia. reflexivity.
  - destruct (1 + i <? 1 + zlen l) eqn:E3; [apply Z.ltb_lt in E3; lia|reflexivity].
Qed.

Lemma index_of_nonneg x l : 0 <= index_of x l.
Proof. induction l as [|y l IH]; cbn [index_of]; [lia|]. destruct (bytes_eqb x y); lia. Qed.

Lemma index_of_lt x l : In x l -> index_of x l < zlen l.
Proof.
  induction l as [|y l IH]; cbn [index_of]; intros Hin; [destruct Hin|].
  rewrite zlen_cons. pose proof (zlen_nonneg l).
  destruct (bytes_eqb x y) eqn:E; [lia|].
  destruct Hin as [->|Hin].
  - assert (E' : bytes_eqb x x = true) by (apply bytes_eqb_eq; reflexivity). congruence.
  - specialize (IH Hin). lia.
Qed.

Lemma build_table_index funcs names : forall tbl name,
  build_table funcs names = NOk tbl -> In name names ->
  exists s b, lookup name funcs = Some (FFunc s b) /\ nindex tbl (index_of name names) = NOk (s, b).
Proof.
  induction names as [|y names IH]; intros tbl name Hb Hin; [destruct Hin|].
  cbn [build_table] in Hb.
  destruct (lookup y funcs) as [[| |s b]|] eqn:El; cbn [nbind] in Hb; try discriminate.
  destruct (build_table funcs names) as [tl|k] eqn:Et; cbn [nbind] in Hb; [|discriminate].
  injection Hb as <-. cbn [index_of].
  destruct (bytes_eqb name y) eqn:E.
  - apply bytes_eqb_eq in E; subst y. exists s, b. split; [exact El|apply nindex_0].
  - destruct Hin as [->|Hin].
    + assert (E' : bytes_eqb name name = true) by (apply bytes_eqb_eq; reflexivity). congruence.
    + destruct (IH tl name eq_refl Hin) as (s' & b' & L & N). exists s', b'. split; [exact L|].
      rewrite nindex_succ; [exact N|apply index_of_nonneg].
Qed.

Lemma build_table_len funcs names : forall tbl, build_table funcs names = NOk tbl -> zlen tbl = zlen names.
Proof.
  induction names as [|y names IH]; intros tbl Hb; cbn [build_table] in Hb.
  - injection Hb as <-. reflexivity.
  - destruct (lookup y funcs) as [[| |s b]|]; cbn [nbind] in Hb; try discriminate.
    destruct (build_table funcs names) as [tl|k] eqn:Et; cbn [nbind] in Hb; [|discriminate].
    injection Hb as <-. rewrite !zlen_cons. rewrite (IH tl eq_refl). reflexivity.
Qed.

(* indexes_agree: the index the resolver puts into the CallNative instruction selects, in the
   table the interpreter builds from ITS walk of the same map, the function bound to that name. *)
Theorem indexes_agree funcs_r funcs_i name tbl :
  NoDup (map fst funcs_i) -> Permutation funcs_r funcs_i ->
  build_table funcs_i (sort_names (map fst funcs_i)) = NOk tbl ->
  In name (map fst funcs_r) ->
  resolver_index funcs_r name = index_of name (sort_names (map fst funcs_i)) /\
  exists s b, lookup name funcs_r = Some (FFunc s b) /\ lookup name funcs_i = Some (FFunc s b) /\
              nindex tbl (resolver_index funcs_r name) = NOk (s, b).
Proof.
  intros ND P Hb Hin.
  assert (Es : sort_names (map fst funcs_r) = sort_names (map fst funcs_i))
    by (apply sort_names_perm_invariant, Permutation_map; exact P).
  unfold resolver_index. rewrite Es. split; [reflexivity|].
  assert (Hin' : In name (sort_names (map fst funcs_i))).
  { eapply Permutation_in; [apply sort_perm|]. eapply Permutation_in; [apply Permutation_map; exact P|exact Hin]. }
  destruct (build_table_index _ _ _ _ Hb Hin') as (s & b & L & N).
  exists s, b. repeat split; try assumption.
  rewrite <- L. apply lookup_perm_invariant; [|exact P].
  eapply Permutation_NoDup; [apply Permutation_sym, Permutation_map; exact P|exact ND].
Qed.
