(* C16: the pass loop as it is now (limit = twice the number of variables
   recorded so far).  For every program whatsoever: the limit is never reached
   and the model's fuel never runs out, because every update either adds a
   table entry or makes an unknown entry known; and the resolver agrees with
   the constant-limit resolver for the constant [pass_fuel P], so everything
   proved about [resolve_cut] for all constants carries over. *)
From Verif Require Import Lib.Base Model.Resolver Proofs.Resolver Proofs.ResolverSound Proofs.ResolverExact
  Proofs.ResolverNoPanic Proofs.ResolverTopo Proofs.ResolverBound.
Open Scope Z_scope.

Section Loop.
Variable P : program.

(* the table invariant that needs no assumption about the program *)
Definition tb (s : state) : Prop :=
  NoDup (map fst (st_vars s)) /\ incl (map fst (st_vars s)) (table_keys P) /\ st_updates s <= mu (st_vars s).

Lemma tb_put_absent s k v :
  tb s -> get (st_vars s) k = None -> In k (table_keys P) ->
  tb {| st_vars := put (st_vars s) k v; st_updates := st_updates s + 1 |}.
Proof.
  intros [B1 [B2 B3]] G Hk. unfold tb. cbn [st_vars st_updates]. rewrite (put_absent _ k v G).
  rewrite map_app. cbn [map fst]. split; [|split].
  - apply NoDup_snoc; [exact B1 | apply get_None_keys; exact G].
  - intros x Hx. apply in_app_or in Hx. destruct Hx as [Hx|[<-|[]]]; [apply B2; exact Hx | exact Hk].
  - unfold mu in *. rewrite zlen_app, known_count_app. cbn [known_count]. unfold zlen at 2. cbn [length].
    destruct v; cbn [isknown]; lia.
Qed.

Lemma tb_put_known s k v :
  tb s -> get (st_vars s) k = Some TUnknown -> v <> TUnknown ->
  tb {| st_vars := put (st_vars s) k v; st_updates := st_updates s + 1 |}.
Proof.
  intros [B1 [B2 B3]] G Hv. unfold tb. cbn [st_vars st_updates].
  assert (Hne : get (st_vars s) k <> None) by congruence.
  rewrite (put_present_keys _ k v Hne). split; [exact B1|]. split; [exact B2|].
  unfold mu in *. rewrite (put_present_known _ k v TUnknown G).
  assert (Hl : zlen (put (st_vars s) k v) = zlen (st_vars s)).
  { unfold zlen. f_equal. rewrite <- (map_length fst (put (st_vars s) k v)), (put_present_keys _ k v Hne). apply map_length. }
  rewrite Hl. destruct v; cbn [isknown]; try congruence; lia.
Qed.

Lemma gk_in_table_keys v : In v (all_names P) -> In (gk v) (table_keys P).
Proof.
  intros H. unfold table_keys. apply in_or_app. right.
  apply in_map_iff. exists v. split; [reflexivity | exact H].
Qed.

Definition step_ok (s s' : state) : Prop := tb s' /\ st_updates s <= st_updates s'.

Lemma record_var_tb s cur v typ s' :
  tb s -> In v (all_names P) -> record_var P s cur v typ = ROk s' -> step_ok s s'.
Proof.
  unfold record_var, lookup_var, step_ok. intros Hb Hv H. norm.
  destruct (if is_empty cur then None else get (st_vars s) (cur, v)) as [lt|] eqn:E1.
  - destruct (_ && _ && _); [discriminate|].
    destruct (ty_eqb lt TUnknown && negb (ty_eqb typ TUnknown)) eqn:C; injection H as <-; [|split; [exact Hb | lia]].
    apply andb_true_iff in C. destruct C as [C1 C2]. apply ty_eqb_eq in C1. subst lt.
    apply negb_true_iff in C2. apply ty_eqb_neq in C2.
    destruct (is_empty cur); [discriminate|].
    split; [apply tb_put_known; assumption | cbn [st_updates]; lia].
  - destruct (special v) eqn:Es.
    + destruct (_ && _ && _); [discriminate|]. cbn [ty_eqb andb] in H. injection H as <-. split; [exact Hb | lia].
    + destruct (get (st_vars s) (gk v)) as [gt|] eqn:E2.
      * destruct (_ && _ && _); [discriminate|].
        destruct (ty_eqb gt TUnknown && negb (ty_eqb typ TUnknown)) eqn:C; injection H as <-; [|split; [exact Hb | lia]].
        apply andb_true_iff in C. destruct C as [C1 C2]. apply ty_eqb_eq in C1. subst gt.
        apply negb_true_iff in C2. apply ty_eqb_neq in C2.
        split; [apply tb_put_known; assumption | cbn [st_updates]; lia].
      * destruct (is_func P v); [discriminate|]. injection H as <-.
        split; [apply tb_put_absent; [exact Hb | exact E2 | apply gk_in_table_keys; exact Hv] | cbn [st_updates]; lia].
Qed.

Lemma step_ok_refl s : tb s -> step_ok s s.
Proof. intros H. split; [exact H | lia]. Qed.

Lemma step_ok_trans a b c : step_ok a b -> step_ok b c -> step_ok a c.
Proof. intros [_ H1] [H2 H3]. split; [exact H2 | lia]. Qed.

Lemma params_in_names f fi p :
  func_info P f = Some fi -> fi_native fi = false -> In p (fi_params fi) -> In p (all_names P).
Proof.
  unfold func_info. intros H Hn Hp. destruct (find_func P f) as [[i fd]|] eqn:E.
  - injection H as <-. cbn [fi_params] in Hp. apply find_func_from_In in E. destruct E as [Hfd _].
    unfold all_names. apply in_or_app. right. apply in_or_app. left. apply in_flat_map. exists fd. auto.
  - destruct (index_of f _ 0); [injection H as <-; cbn in Hn; discriminate | discriminate].
Qed.

Lemma visit_step_tb cur s st s' :
  tb s -> incl (step_names st) (all_names P) -> visit_step P cur s st = ROk s' -> step_ok s s'.
Proof.
  intros Hb Hin H. destruct st as [v t|f nargs|f i|f i v]; cbn [visit_step step_names] in *.
  - eapply record_var_tb; [exact Hb | apply Hin; left; reflexivity | exact H].
  - assert (s' = s); [|subst; apply step_ok_refl; exact Hb].
    destruct (match lookup_var (st_vars s) cur f with Some (_, _, vf) => negb (is_empty vf) | None => false end); [discriminate|].
    destruct (func_info P f) as [fi|]; [|discriminate].
    destruct (fi_native fi).
    + destruct (find_native (p_natives P) f) as [nt|]; [|discriminate].
      destruct (n_func nt); cbn [negb] in H; [|discriminate].
      destruct (_ <? nargs); [discriminate | congruence].
    + destruct (_ <? nargs); [discriminate | congruence].
  - assert (s' = s); [|subst; apply step_ok_refl; exact Hb].
    destruct (func_info P f) as [fi|]; [|discriminate].
    destruct (fi_native fi); [congruence|].
    destruct (nth_error (fi_params fi) i) as [p|]; [|discriminate].
    destruct (get_or_unknown (st_vars s) (f, p)); congruence.
  - assert (Hv : In v (all_names P)) by (apply Hin; left; reflexivity).
    destruct (func_info P f) as [fi|] eqn:Efi; [|discriminate].
    destruct (fi_native fi) eqn:En; [exact (record_var_tb s cur v _ s' Hb Hv H)|].
    destruct (nth_error (fi_params fi) i) as [p|] eqn:Ep; [|discriminate].
    assert (Hp : In p (all_names P)) by (eapply params_in_names; [exact Efi | exact En | eapply nth_error_In; exact Ep]).
    destruct (_ && _); [exact (record_var_tb s cur v _ s' Hb Hv H)|].
    destruct (_ && _); [exact (record_var_tb s f p _ s' Hb Hp H)|].
    destruct (_ && _ && _); [discriminate|]. exact (record_var_tb s cur v _ s' Hb Hv H).
Qed.

Lemma run_steps_tb cur l s s' :
  tb s -> (forall st, In st l -> incl (step_names st) (all_names P)) ->
  run_steps P cur l s = ROk s' -> step_ok s s'.
Proof.
  revert s. induction l as [|st l IH]; intros s Hb Hin H; cbn [run_steps] in H.
  - injection H as <-. apply step_ok_refl. exact Hb.
  - destruct (visit_step P cur s st) as [s1| | |] eqn:E; try discriminate.
    pose proof (visit_step_tb cur s st s1 Hb (Hin st (or_introl eq_refl)) E) as H1.
    eapply step_ok_trans; [exact H1|]. apply IH; [apply H1 | intros st' Hst'; apply Hin; right; exact Hst' | exact H].
Qed.

Lemma body_names fd st : In fd (p_funcs P) -> In st (flat_events (f_body fd)) -> incl (step_names st) (all_names P).
Proof.
  intros Hfd Hst v Hv. unfold all_names. apply in_or_app. right. apply in_or_app. right. apply in_or_app. left.
  apply in_flat_map. exists fd. split; [exact Hfd|]. apply in_flat_map. exists st. split; assumption.
Qed.

Lemma main_names st : In st (flat_events (p_main P)) -> incl (step_names st) (all_names P).
Proof.
  intros Hst v Hv. unfold all_names. apply in_or_app. right. apply in_or_app. right. apply in_or_app. right.
  apply in_flat_map. exists st. split; assumption.
Qed.

Lemma walk_funcs_tb order s s' : tb s -> walk_funcs P order s = ROk s' -> step_ok s s'.
Proof.
  revert s. induction order as [|fn order IH]; intros s Hb H; cbn [walk_funcs] in H.
  - injection H as <-. apply step_ok_refl. exact Hb.
  - destruct (is_empty fn); [apply IH; assumption|].
    destruct (find_func P fn) as [[i0 fd0]|] eqn:Ef; [|apply IH; assumption].
    destruct (run_steps P fn (flat_events (f_body fd0)) s) as [s1| | |] eqn:E; try discriminate.
    destruct (find_func_In P fn i0 fd0 Ef) as [Hin0 _].
    pose proof (run_steps_tb fn _ s s1 Hb (fun st Hst => body_names fd0 st Hin0 Hst) E) as H1.
    eapply step_ok_trans; [exact H1 | apply IH; [apply H1 | exact H]].
Qed.

Lemma walk_ordered_tb order s s' : tb s -> walk_ordered P order s = ROk s' -> step_ok s s'.
Proof.
  intros Hb H. unfold walk_ordered in H.
  destruct (walk_funcs P order s) as [s1| | |] eqn:E; try discriminate.
  pose proof (walk_funcs_tb order s s1 Hb E) as H1.
  eapply step_ok_trans; [exact H1 | apply (run_steps_tb [] (flat_events (p_main P)) s1 s'); [apply H1 | apply main_names | exact H]].
Qed.

Lemma tb_len s : tb s -> st_updates s <= 2 * num_vars s /\ num_vars s <= Z.of_nat (length (table_keys P)).
Proof.
  intros [B1 [B2 B3]]. unfold num_vars. pose proof (known_count_bounds (st_vars s)) as Hk. unfold mu in B3.
  split; [lia|]. unfold zlen. apply inj_le. rewrite <- (map_length fst (st_vars s)).
  apply NoDup_incl_length; assumption.
Qed.

(* the limit is never reached and the fuel never runs out *)
Lemma pass_loop_dyn_ends order fuel : forall i s u,
  tb s -> i <= u -> u <= st_updates s -> 2 * Z.of_nat (length (table_keys P)) <= Z.of_nat fuel + i ->
  pass_loop_dyn P order fuel i s u <> RErr ETooManyIter /\ pass_loop_dyn P order fuel i s u <> RFuel.
Proof.
  induction fuel as [|fuel IH]; intros i s u Hb Hi Hu Hf; cbn [pass_loop_dyn].
  - destruct (st_updates s =? u) eqn:E; [split; discriminate|]. apply Z.eqb_neq in E.
    pose proof (walk_ordered_not_toomany P order s) as Hnt. pose proof (walk_ordered_safe P order s) as [_ Hnf].
    destruct (walk_ordered P order s) as [s1|e| |] eqn:Ew; try (split; congruence).
    destruct (walk_ordered_tb order s s1 Hb Ew) as [Hb1 Hm]. destruct (tb_len s1 Hb1) as [L1 L2].
    exfalso. cbn [Z.of_nat] in Hf. lia.
  - destruct (st_updates s =? u) eqn:E; [split; discriminate|]. apply Z.eqb_neq in E.
    pose proof (walk_ordered_not_toomany P order s) as Hnt. pose proof (walk_ordered_safe P order s) as [_ Hnf].
    destruct (walk_ordered P order s) as [s1|e| |] eqn:Ew; try (split; congruence).
    destruct (walk_ordered_tb order s s1 Hb Ew) as [Hb1 Hm]. destruct (tb_len s1 Hb1) as [L1 L2].
    destruct (2 * num_vars s1 <=? i) eqn:El; [apply Z.leb_le in El; exfalso; lia|].
    apply IH; [exact Hb1 | lia | exact Hm | lia].
Qed.

(* as long as neither limit is reached the two loops are the same *)
Lemma pass_loop_dyn_const order fuel : forall i s u r,
  pass_loop_dyn P order fuel i s u = r -> r <> RErr ETooManyIter -> r <> RFuel ->
  forall k, (fuel <= k)%nat -> pass_loop P order k s u = r.
Proof.
  induction fuel as [|fuel IH]; intros i s u r H Hr1 Hr2 k Hk; cbn [pass_loop_dyn] in H.
  - destruct k as [|k]; cbn [pass_loop]; destruct (st_updates s =? u); try exact H;
      destruct (walk_ordered P order s) as [s1| | |]; try exact H;
      destruct (2 * num_vars s1 <=? i); congruence.
  - destruct k as [|k]; [lia|]. cbn [pass_loop]. destruct (st_updates s =? u); [exact H|].
    destruct (walk_ordered P order s) as [s1| | |]; try exact H.
    destruct (2 * num_vars s1 <=? i); [congruence|]. eapply IH; [exact H | exact Hr1 | exact Hr2 | lia].
Qed.

Lemma init_tb : tb {| st_vars := init_vars P; st_updates := 0 |}.
Proof.
  split; [apply init_vars_nodup|]. cbn [st_vars st_updates]. split.
  - intros k Hk. assert (G : get (init_vars P) k <> None) by (intros E; apply get_None_keys in E; contradiction).
    unfold init_vars in G. rewrite get_init_vars_from in G. cbn [get] in G.
    destruct (existsb _ (p_funcs P)) eqn:E; [|congruence].
    apply existsb_exists in E. destruct E as [fd [Hfd E]]. apply existsb_exists in E. destruct E as [p [Hp E]].
    apply key_eqb_eq in E. subst k. unfold table_keys. apply in_or_app. left.
    apply in_flat_map. exists fd. split; [exact Hfd|]. apply in_map. exact Hp.
  - pose proof (known_count_bounds (init_vars P)). pose proof (zlen_nonneg (init_vars P)). unfold mu. lia.
Qed.

Lemma builtin_name (v : name) : In v [n_ARGV; n_ENVIRON; n_FIELDS] -> In v (all_names P).
Proof. intros H. unfold all_names. apply in_or_app. left. exact H. Qed.

(* what the pass loop of resolve_order_impl starts from *)
Lemma loop_start order s4 u :
  (exists s1 s2 s3,
     record_var P {| st_vars := init_vars P; st_updates := 0 |} [] n_ARGV TArray = ROk s1 /\
     record_var P s1 [] n_ENVIRON TArray = ROk s2 /\ record_var P s2 [] n_FIELDS TArray = ROk s3 /\
     u = st_updates s3 /\ walk_ordered P order s3 = ROk s4) ->
  tb s4 /\ 0 <= u /\ u <= st_updates s4.
Proof.
  intros [s1 [s2 [s3 [E1 [E2 [E3 [-> E4]]]]]]].
  destruct (record_var_tb _ [] n_ARGV TArray s1 init_tb (builtin_name n_ARGV ltac:(cbn; auto)) E1) as [B1 M1].
  destruct (record_var_tb _ [] n_ENVIRON TArray s2 B1 (builtin_name n_ENVIRON ltac:(cbn; auto)) E2) as [B2 M2].
  destruct (record_var_tb _ [] n_FIELDS TArray s3 B2 (builtin_name n_FIELDS ltac:(cbn; auto)) E3) as [B3 M3].
  destruct (walk_ordered_tb order s3 s4 B3 E4) as [B4 M4]. cbn [st_updates] in M1.
  split; [exact B4|]. split; [lia | exact M4].
Qed.

(* THE LIMIT IS UNREACHABLE, for every program and every processing order *)
Theorem resolve_order_impl_ends order :
  resolve_order_impl order P <> RErr ETooManyIter /\ resolve_order_impl order P <> RFuel /\
  resolve_order_impl order P = resolve_order (pass_fuel P) order P.
Proof.
  unfold resolve_order_impl, resolve_order.
  destruct (first_dup [] (fnames P)); [repeat split; discriminate|].
  set (s0 := {| st_vars := init_vars P; st_updates := 0 |}).
  pose proof (record_var_no_panic P s0 [] n_ARGV TArray) as [_ N1].
  pose proof (record_var_not_toomany P s0 [] n_ARGV TArray) as T1.
  destruct (record_var P s0 [] n_ARGV TArray) as [s1|e1| |] eqn:E1; cbn [rbind2]; try (repeat split; congruence).
  pose proof (record_var_no_panic P s1 [] n_ENVIRON TArray) as [_ N2].
  pose proof (record_var_not_toomany P s1 [] n_ENVIRON TArray) as T2.
  destruct (record_var P s1 [] n_ENVIRON TArray) as [s2|e2| |] eqn:E2; cbn [rbind2]; try (repeat split; congruence).
  pose proof (record_var_no_panic P s2 [] n_FIELDS TArray) as [_ N3].
  pose proof (record_var_not_toomany P s2 [] n_FIELDS TArray) as T3.
  destruct (record_var P s2 [] n_FIELDS TArray) as [s3|e3| |] eqn:E3; cbn [rbind2]; try (repeat split; congruence).
  pose proof (walk_ordered_safe P order s3) as [_ N4].
  pose proof (walk_ordered_not_toomany P order s3) as T4.
  destruct (walk_ordered P order s3) as [s4|e4| |] eqn:E4; cbn [rbind2]; try (repeat split; congruence).
  destruct (loop_start order s4 (st_updates s3)) as [B4 [U0 U4]].
  { exists s1, s2, s3. fold s0. auto. }
  destruct (pass_loop_dyn_ends order (pass_fuel P) 0 s4 (st_updates s3) B4 U0 U4) as [D1 D2].
  { unfold pass_fuel. lia. }
  rewrite (pass_loop_dyn_const order (pass_fuel P) 0 s4 (st_updates s3) _ eq_refl D1 D2 (pass_fuel P) (le_n _)).
  destruct (pass_loop_dyn P order (pass_fuel P) 0 s4 (st_updates s3)) as [s5|e5| |]; cbn [rbind2];
    repeat split; congruence.
Qed.

End Loop.

(* the resolver is the constant-limit resolver for the constant [pass_fuel P] *)
Theorem resolve_is_cut pi P : resolve pi P = resolve_cut (pass_fuel P) pi P.
Proof.
  unfold resolve, resolve_cut. destruct (first_dup [] (fnames P)); [reflexivity|].
  destruct (ordered_funcs pi P) as [order|]; [|reflexivity]. apply resolve_order_impl_ends.
Qed.

Theorem resolve_never_gives_up pi P : resolve pi P <> RErr ETooManyIter.
Proof.
  unfold resolve. destruct (first_dup [] (fnames P)); [discriminate|].
  destruct (ordered_funcs pi P) as [order|]; [apply resolve_order_impl_ends | discriminate].
Qed.

Theorem resolve_no_panic pi P : resolve pi P <> RPanic.
Proof. rewrite resolve_is_cut. apply resolve_cut_no_panic. Qed.

Theorem resolve_no_fuel pi P : perm_oracle pi -> resolve pi P <> RFuel.
Proof. intros Hpi. rewrite resolve_is_cut. apply resolve_cut_no_fuel. exact Hpi. Qed.
