(* C13 proofs, part 6: the single-writer property when Output is an *os.File,
   and write failures of an unbuffered Output. *)
From Verif Require Import Lib.Base Model.Streams Proofs.StreamsBase Proofs.StreamsSpec.

(* ================= single writer, Output = *os.File ================= *)
Section OsFile.
Variable E : env.
Hypothesis Hmode : e_mode E = OsFile.

Definition ov (s s' : state) : Prop := st_overlap s' = st_overlap s.

Lemma ov_touch s : ov s (touch E s).
Proof. unfold ov, touch. rewrite Hmode. cbn [is_osfile negb andb]. match goal with |- context [if ?c then set_unmod _ else _] => destruct c end; auto. Qed.

Lemma ov_flush_stdout s : ov s (fst (flush_stdout E s)).
Proof. unfold flush_stdout. rewrite Hmode. reflexivity. Qed.

Lemma ov_write_stdout s ps : ov s (fst (write_stdout E s ps)).
Proof.
  unfold write_stdout. rewrite Hmode. destruct (write_pieces_direct _ _). cbn [fst]. unfold ov. cbn. apply ov_touch.
Qed.

Lemma ov_child_out s cg data : ov s (fst (child_out E s cg data)).
Proof.
  unfold child_out. destruct data; [reflexivity|]. rewrite Hmode. destruct (sink_write _ _) as [[? ?] ?]. reflexivity.
Qed.

Lemma ov_child_eof s cg : ov s (fst (child_eof E s cg)).
Proof. reflexivity. Qed.

Lemma ov_start_proc s c : ov s (fst (start_proc E s c)).
Proof. unfold start_proc. cbn [fst]. destruct (c_sink _); reflexivity. Qed.

Lemma ov_deliver s n o data : ov s (fst (deliver E s n o data)).
Proof.
  unfold deliver. destruct data as [|b d]; [reflexivity|]. destruct (os_kind o).
  - destruct (os_off o); reflexivity.
  - destruct (c_drain (e_spec E n)); [|cbn [fst]; destruct (is_synced E s n); reflexivity].
    set (s1 := match c_sink (e_spec E n) with Some t => _ | None => s end).
    assert (H1 : ov s s1) by (subst s1; destruct (c_sink _); reflexivity).
    destruct (c_echo _); auto. pose proof (ov_child_out s1 (os_cgfail o) (b :: d)) as H2.
    destruct (child_out _ _ _ _). cbn [fst] in *. unfold ov in *. congruence.
Qed.

Lemma ov_flush_ostream s n o : ov s (fst (flush_ostream E s n o)).
Proof. unfold flush_ostream. pose proof (ov_deliver s n o (os_buf o)) as H. destruct (deliver _ _ _ _ _). auto. Qed.

Lemma ov_write_ostream s n o p : ov s (fst (write_ostream E s n o p)).
Proof.
  unfold write_ostream. destruct (buf_bytes _ _ _) as [f r]. pose proof (ov_deliver s n o f) as H.
  destruct (deliver _ _ _ _ _). auto.
Qed.

Lemma ov_flush_named s n o : ov s (flush_named E s n o).
Proof.
  unfold flush_named. pose proof (ov_flush_ostream s n o) as H. destruct (flush_ostream _ _ _ _) as [s1 o1]. cbn [fst] in H. cbv zeta.
  unfold ov in *. destruct (os_err o1); [unfold print_errorf; rewrite ov_flush_stdout|]; cbn; auto.
Qed.

Lemma ov_flush_streams ns : forall s, ov s (flush_streams E s ns).
Proof.
  induction ns as [|n ns IH]; intros s; cbn [flush_streams]; [reflexivity|].
  destruct (alookup n (st_outs s)); auto. unfold ov in *. rewrite IH. apply ov_flush_named.
Qed.

Lemma ov_flush_all s : ov s (fst (flush_all E s)).
Proof.
  unfold flush_all. set (s1 := flush_streams E s _). assert (H1 : ov s s1) by apply ov_flush_streams.
  pose proof (ov_flush_stdout s1) as H2. destruct (flush_stdout E s1) as [s2 [|]]; cbn [fst] in *; unfold ov in *; try congruence.
  unfold print_errorf. rewrite ov_flush_stdout. congruence.
Qed.

Lemma ov_close_ostream s n o : ov s (fst (fst (close_ostream E s n o))).
Proof.
  unfold close_ostream. pose proof (ov_flush_ostream s n o) as H. destruct (flush_ostream _ _ _ _) as [s1 o1]. cbn [fst] in H.
  destruct (os_kind o1); auto. pose proof (ov_child_eof s1 (os_cgfail o1)) as H2. destruct (child_eof _ _ _) as [s2 ok].
  destruct (wait_result _ _). cbn [fst] in *. unfold ov in *. congruence.
Qed.

Lemma ov_close_streams ns : forall s, ov s (close_streams E s ns).
Proof.
  induction ns as [|n ns IH]; intros s; cbn [close_streams]; [reflexivity|].
  destruct (alookup n (st_outs s)) as [o|]; auto.
  pose proof (ov_close_ostream (set_outs s (aremove n (st_outs s))) n o) as H.
  destruct (close_ostream _ _ _ _) as [[s1 code] err]. cbn [fst] in H. unfold ov in *. rewrite IH. cbn. rewrite H. auto.
Qed.

Lemma ov_close_all s : ov s (close_all E s).
Proof.
  unfold close_all, flush_out_err. unfold ov. rewrite ov_flush_stdout. rewrite ov_close_streams. reflexivity.
Qed.

Lemma ov_if_unmod (b : bool) s : ov s (if b then set_unmod s else s).
Proof. destruct b; reflexivity. Qed.
Lemma ov_if_print_errorf (b : bool) s : ov s (if b then print_errorf E s else s).
Proof. destruct b; [apply ov_flush_stdout|reflexivity]. Qed.

Lemma ov_get_output_stream s d : ov s (fst (get_output_stream E s d)).
Proof.
  unfold get_output_stream. destruct d as [| | |r n]; try reflexivity.
  - apply ov_flush_stdout.
  - destruct (amem n (st_ins s)); [reflexivity|]. destruct (amem n (st_outs s)); [reflexivity|].
    pose proof (ov_flush_stdout s) as H0. fold (flush_out_err E s) in H0. set (s1 := flush_out_err E s) in *.
    destruct r.
    + destruct (e_bad E n); cbn [fst]; auto.
    + destruct (e_bad E n); cbn [fst]; auto.
    + match goal with |- context [if ?c then set_unmod s1 else s1] => set (s2 := if c then set_unmod s1 else s1) end.
      assert (H2 : ov s1 s2) by apply ov_if_unmod.
      pose proof (ov_start_proc (add_log s2 (EvOpen n KCmd false)) n) as H3. destruct (start_proc E _ n) as [s4 cg]. cbn [fst] in H3.
      pose proof (ov_child_out s4 cg (c_stdout (e_spec E n))) as H4. destruct (child_out E s4 cg _) as [s5 ok]. cbn [fst] in *.
      unfold ov in *. cbn [st_overlap set_outs].
      match goal with |- st_overlap (if ?c then set_unmod s5 else s5) = _ => rewrite (ov_if_unmod c s5) end.
      rewrite H4, H3. cbn [st_overlap add_log]. congruence.
Qed.

Lemma ov_scan_stream s n i : ov s (scan_stream s n i).
Proof. unfold scan_stream. destruct (is_rest i); [reflexivity|]. destruct (scan_line _ _). reflexivity. Qed.

Lemma ov_getline_file s n : ov s (fst (getline_file E s n)).
Proof.
  unfold getline_file. set (s0 := if sink_busy E s n then set_unmod s else s).
  assert (H0 : ov s s0) by (subst s0; apply ov_if_unmod). clearbody s0. unfold ov in *. rewrite <- H0.
  destruct (amem n (st_outs s0)); [reflexivity|].
  destruct (alookup n (st_ins s0)) as [i|]; cbn [fst]; [apply ov_scan_stream|].
  destruct (alookup n (st_fs s0)); cbn [fst]; [|reflexivity]. rewrite ov_scan_stream. reflexivity.
Qed.

Lemma printrec_as_print_osfile s d rec : step E s (PrintRec d rec) = step E s (Print d [rec]).
Proof.
  cbn [step]. unfold step_print. destruct (get_output_stream E s d) as [s1 [[|n]|]]; auto.
  unfold write_stdout_rec. rewrite Hmode. reflexivity.
Qed.

Lemma ov_step_print s d ps : ov s (fst (step E s (Print d ps))).
Proof.
  cbn [step]. unfold step_print.
  pose proof (ov_get_output_stream s d) as H1. destruct (get_output_stream E s d) as [s1 [[|n]|]]; cbn [fst] in *; auto.
    + pose proof (ov_write_stdout s1 ps) as H2. destruct (write_stdout E s1 ps) as [s2 [|]]; cbn [fst] in *; unfold ov in *; congruence.
    + destruct (alookup n (st_outs s1)) as [os|]; cbn [fst]; auto.
      set (s1' := add_log s1 _). pose proof (ov_write_ostream s1' n os (concat ps)) as H2.
      destruct (write_ostream _ _ _ _ _) as [s2 os']. cbn [fst] in *. unfold ov in *. cbn [st_overlap set_outs]. rewrite H2. subst s1'. cbn. auto.
Qed.

Lemma ov_step s o : ov s (fst (step E s o)).
Proof.
  destruct o as [d ps|n|[n|]|c|n|c| |code| |n|d rec]; [apply ov_step_print| | | | | | | | | | |rewrite printrec_as_print_osfile; apply ov_step_print]; cbn [step].
  - destruct (alookup n (st_ins s)) as [i|].
    + destruct (if is_cmd i then _ else _) as [code err]. cbn [fst]. unfold ov. cbn [st_overlap add_obs]. rewrite ov_if_print_errorf. reflexivity.
    + destruct (alookup n (st_outs s)) as [os|]; [|reflexivity].
      pose proof (ov_close_ostream (set_outs s (aremove n (st_outs s))) n os) as H.
      destruct (close_ostream _ _ _ _) as [[s1 code] err]. cbn [fst] in *. unfold ov in *. cbn [st_overlap add_obs].
      rewrite ov_if_print_errorf. cbn. rewrite H. reflexivity.
  - destruct (alookup n (st_outs s)) as [os|]; cbn [fst]; unfold ov; cbn [st_overlap add_obs].
    + apply ov_flush_named.
    + apply ov_flush_stdout.
  - pose proof (ov_flush_all s) as H. destruct (flush_all E s) as [s1 ok]. cbn [fst] in *. unfold ov in *. cbn. auto.
  - pose proof (ov_flush_all s) as H. destruct (flush_all E s) as [s1 ok]. cbn [fst] in *.
    pose proof (ov_start_proc s1 c) as H2. destruct (start_proc E s1 c) as [s2 cg]. cbn [fst] in *.
    pose proof (ov_child_out s2 cg (c_stdout (e_spec E c))) as H3. destruct (child_out E s2 cg _) as [s3 ok3]. cbn [fst] in *.
    pose proof (ov_child_eof s3 (negb ok3)) as H4. destruct (child_eof E s3 _) as [s4 ok4]. cbn [fst] in *.
    destruct (wait_result _ _) as [code err]. cbn [fst]. unfold ov in *. cbn [st_overlap add_obs]. rewrite ov_if_print_errorf. congruence.
  - apply ov_getline_file.
  - destruct (amem c (st_outs s)); [reflexivity|].
    destruct (alookup c (st_ins s)) as [i|]; cbn [fst]; [apply ov_scan_stream|].
    pose proof (ov_flush_stdout s) as H0. fold (flush_out_err E s) in H0.
    pose proof (ov_start_proc (flush_out_err E s) c) as H2. destruct (start_proc E _ c) as [s2 cg]. cbn [fst] in *.
    unfold ov in *. rewrite ov_scan_stream. cbn. congruence.
  - cbn [fst]. unfold ov. cbn. apply ov_flush_stdout.
  - reflexivity.
  - reflexivity.
  - destruct (amem n (st_outs s)); [reflexivity|].
    destruct (negb (amem n (st_ins s)) && negb (amem n (st_fs s))); [reflexivity|].
    unfold ov. rewrite ov_getline_file. reflexivity.
Qed.

Lemma ov_exec ops : forall s, ov s (fst (exec E s ops)).
Proof.
  induction ops as [|o ops IH]; intros s; cbn [exec]; [reflexivity|].
  pose proof (ov_step s o) as H. destruct (step E s o) as [s1 [| |]]; cbn [fst] in *; auto.
  unfold ov in *. rewrite IH. auto.
Qed.

Theorem single_writer_osfile s0 ops : st_overlap (fst (run E s0 ops)) = st_overlap s0.
Proof.
  unfold run. pose proof (ov_exec ops s0) as H. destruct (exec E s0 ops) as [s1 r]. cbn [fst] in *.
  unfold ov in *. rewrite ov_close_all. auto.
Qed.
End OsFile.

(* ================= write failures, unbuffered Output ================= *)
Section Direct.
Variable E : env.
Hypothesis Hmode : e_mode E = Unbuf \/ e_mode E = OsFile.
(* no child writes to the shared standard output *)
Hypothesis Hsilent : forall c, c_stdout (e_spec E c) = [] /\ c_echo (e_spec E c) = false.

Definition keep (s s' : state) : Prop :=
  st_sink s' = st_sink s /\ own_stdout (st_log s') = own_stdout (st_log s).

Lemma keep_refl s : keep s s. Proof. split; auto. Qed.
Lemma keep_trans s1 s2 s3 : keep s1 s2 -> keep s2 s3 -> keep s1 s3.
Proof. intros (A & B) (C & D). split; congruence. Qed.
Lemma keep_fields s s' : st_sink s' = st_sink s -> st_log s' = st_log s -> keep s s'.
Proof. intros H1 H2. split; auto. rewrite H2. auto. Qed.
Lemma keep_add_log s e : (match e with EvWrite WStdout _ => False | _ => True end) -> keep s (add_log s e).
Proof.
  intros H. split; auto. cbn [st_log add_log own_stdout].
  destruct e as [| [] | | | |]; try contradiction; apply app_nil_r.
Qed.

Lemma keep_touch s : keep s (touch E s).
Proof.
  unfold touch. destruct (negb (is_osfile (e_mode E)) && any_active (st_outs s)); cbn [st_outs set_overlap];
  match goal with |- context [if ?c then set_unmod _ else _] => destruct c end; apply keep_fields; auto.
Qed.

Lemma flush_stdout_id s : flush_stdout E s = (s, true).
Proof. unfold flush_stdout. destruct Hmode as [-> | ->]; auto. Qed.

Lemma child_out_silent s cg c : fst (child_out E s cg (c_stdout (e_spec E c))) = s.
Proof. destruct (Hsilent c) as (-> & _). reflexivity. Qed.

Lemma child_eof_id s cg : fst (child_eof E s cg) = s.
Proof. reflexivity. Qed.

Lemma keep_start_proc s c : keep s (fst (start_proc E s c)).
Proof.
  unfold start_proc. cbn [fst].
  set (s1 := add_log s (EvStart c (stdout_pending E s) (bw_err (st_out s)))).
  assert (H1 : keep s s1) by (apply keep_add_log; exact I).
  destruct (c_sink _) as [t|]; auto. apply (keep_trans _ s1); auto.
  apply (keep_trans _ (set_fs s1 (fs_append (st_fs s1) t (c_append (e_spec E c))))); [apply keep_fields; auto|].
  apply keep_add_log; exact I.
Qed.

Lemma keep_deliver s n o data : keep s (fst (deliver E s n o data)).
Proof.
  unfold deliver. destruct data as [|b d]; [apply keep_refl|]. destruct (os_kind o).
  - destruct (os_off o); apply keep_fields; auto.
  - destruct (Hsilent n) as (_ & ->). destruct (c_drain (e_spec E n)); cbn [fst].
    + destruct (c_sink _); [apply keep_fields; auto|apply keep_refl].
    + destruct (is_synced E s n); [apply keep_refl|apply keep_fields; auto].
Qed.

Lemma keep_flush_ostream s n o : keep s (fst (flush_ostream E s n o)).
Proof. unfold flush_ostream. pose proof (keep_deliver s n o (os_buf o)) as H. destruct (deliver _ _ _ _ _). auto. Qed.

Lemma keep_write_ostream s n o p : keep s (fst (write_ostream E s n o p)).
Proof.
  unfold write_ostream. destruct (buf_bytes _ _ _) as [f r]. pose proof (keep_deliver s n o f) as H.
  destruct (deliver _ _ _ _ _). auto.
Qed.

Lemma print_errorf_id' s : print_errorf E s = s.
Proof. unfold print_errorf, flush_stdout. destruct Hmode as [-> | ->]; auto. Qed.

Lemma keep_flush_named s n o : keep s (flush_named E s n o).
Proof.
  unfold flush_named. pose proof (keep_flush_ostream s n o) as H. destruct (flush_ostream _ _ _ _) as [s1 o1]. cbn [fst] in H.
  cbv zeta. rewrite print_errorf_id'. apply (keep_trans _ s1); auto. destruct (os_err o1); apply keep_fields; auto.
Qed.

Lemma keep_flush_streams ns : forall s, keep s (flush_streams E s ns).
Proof.
  induction ns as [|n ns IH]; intros s; cbn [flush_streams]; [apply keep_refl|].
  destruct (alookup n (st_outs s)); auto. eapply keep_trans; [apply keep_flush_named|apply IH].
Qed.

Lemma keep_flush_all s : keep s (fst (flush_all E s)).
Proof. unfold flush_all. rewrite flush_stdout_id. cbn [fst]. apply keep_flush_streams. Qed.

Lemma print_errorf_id s : print_errorf E s = s.
Proof. unfold print_errorf. rewrite flush_stdout_id. auto. Qed.
Lemma flush_out_err_id s : flush_out_err E s = s.
Proof. unfold flush_out_err. rewrite flush_stdout_id. auto. Qed.

Lemma keep_close_ostream s n o : keep s (fst (fst (close_ostream E s n o))).
Proof.
  unfold close_ostream. pose proof (keep_flush_ostream s n o) as H. destruct (flush_ostream _ _ _ _) as [s1 o1]. cbn [fst] in H.
  destruct (os_kind o1); auto. pose proof (child_eof_id s1 (os_cgfail o1)) as H2. destruct (child_eof _ _ _) as [s2 ok].
  destruct (wait_result _ _). cbn [fst] in *. subst. auto.
Qed.

Lemma keep_close_streams ns : forall s, keep s (close_streams E s ns).
Proof.
  induction ns as [|n ns IH]; intros s; cbn [close_streams]; [apply keep_refl|].
  destruct (alookup n (st_outs s)) as [o|]; auto.
  pose proof (keep_close_ostream (set_outs s (aremove n (st_outs s))) n o) as H.
  destruct (close_ostream _ _ _ _) as [[s1 code] err]. cbn [fst] in H.
  eapply keep_trans; [|apply IH]. eapply keep_trans; [|apply keep_add_log; exact I].
  eapply keep_trans; eauto. apply keep_fields; auto.
Qed.

Lemma keep_close_all s : keep s (close_all E s).
Proof.
  unfold close_all. rewrite flush_out_err_id. eapply keep_trans; [|apply keep_close_streams]. apply keep_fields; auto.
Qed.

Lemma keep_if_unmod (b : bool) s : keep s (if b then set_unmod s else s).
Proof. destruct b; [apply keep_fields; auto|apply keep_refl]. Qed.

Lemma keep_get_output_stream s d : keep s (fst (get_output_stream E s d)).
Proof.
  unfold get_output_stream. destruct d as [| | |r n]; try apply keep_refl.
  - rewrite flush_out_err_id. apply keep_refl.
  - destruct (amem n (st_ins s)); [apply keep_refl|]. destruct (amem n (st_outs s)); [apply keep_refl|].
    rewrite flush_out_err_id. destruct r.
    + destruct (e_bad E n); cbn [fst]; [apply keep_refl|].
      match goal with |- keep s (set_outs (add_log (set_fs s ?fs) ?e) _) =>
        apply (keep_trans _ (add_log (set_fs s fs) e)); [|apply keep_fields; auto];
        apply (keep_trans _ (set_fs s fs)); [apply keep_fields; auto|apply keep_add_log; exact I] end.
    + destruct (e_bad E n); cbn [fst]; [apply keep_refl|].
      match goal with |- keep s (set_outs (add_log (set_fs s ?fs) ?e) _) =>
        apply (keep_trans _ (add_log (set_fs s fs) e)); [|apply keep_fields; auto];
        apply (keep_trans _ (set_fs s fs)); [apply keep_fields; auto|apply keep_add_log; exact I] end.
    + match goal with |- context [if ?c then set_unmod s else s] => set (s2 := if c then set_unmod s else s) end.
      assert (H2 : keep s s2) by apply keep_if_unmod.
      pose proof (keep_start_proc (add_log s2 (EvOpen n KCmd false)) n) as H3. destruct (start_proc E _ n) as [s4 cg]. cbn [fst] in H3.
      pose proof (child_out_silent s4 cg n) as H4. destruct (child_out E s4 cg _) as [s5 ok]. cbn [fst] in *. subst s5.
      apply (keep_trans _ s2); auto. apply (keep_trans _ (add_log s2 (EvOpen n KCmd false))); [apply keep_add_log; exact I|].
      apply (keep_trans _ s4); auto.
      match goal with |- keep s4 (set_outs (if ?c then set_unmod s4 else s4) _) => apply (keep_trans _ (if c then set_unmod s4 else s4)); [apply keep_if_unmod|] end.
      apply keep_fields; auto.
Qed.

Lemma keep_scan_stream s n i : keep s (scan_stream s n i).
Proof. unfold scan_stream. destruct (is_rest i); [apply keep_fields; auto|]. destruct (scan_line _ _). apply keep_fields; auto. Qed.

(* the invariant: the sink holds exactly what the program's own statements wrote, and that fits *)
Definition usink (k : nat) (s : state) : Prop :=
  sk_limit (st_sink s) = Some k /\ sk_data (st_sink s) = own_stdout (st_log s) /\ (length (sk_data (st_sink s)) <= k)%nat.

Lemma usink_keep k s s' : keep s s' -> usink k s -> usink k s'.
Proof. intros (A & B) (C & D & F). unfold usink. rewrite A, B. auto. Qed.

Lemma write_pieces_direct_ok L ps : forall k k', write_pieces_direct k ps = (k', true) -> sk_limit k = Some L ->
  (length (sk_data k) <= L)%nat ->
  sk_limit k' = Some L /\ sk_data k' = sk_data k ++ concat ps /\ (length (sk_data k') <= L)%nat.
Proof.
  induction ps as [|p ps IH]; intros k k'; cbn [write_pieces_direct concat].
  - intros H; injection H as <-. rewrite app_nil_r. auto.
  - unfold sink_write. intros H Hl Hle. rewrite Hl in H.
    destruct (length p <=? L - length (sk_data k))%nat eqn:Ele; [|discriminate].
    apply Nat.leb_le in Ele.
    destruct (IH _ _ H eq_refl) as (A & B & C); [cbn [sk_data]; rewrite app_length; lia|].
    repeat split; auto. rewrite B. cbn [sk_data]. rewrite app_assoc. auto.
Qed.

Lemma write_stdout_usink k s ps s' : usink k s -> write_stdout E s ps = (s', true) -> usink k s'.
Proof.
  intros Hu. unfold write_stdout. pose proof (usink_keep k _ _ (keep_touch s) Hu) as (A & B & C).
  set (s1 := touch E s) in *.
  destruct Hmode as [Hm | Hm]; rewrite Hm;
    (destruct (write_pieces_direct _ ps) as [k1 ok1] eqn:Ew; intros H; injection H as <- ->;
     cbn [st_sink add_log] in Ew; destruct (write_pieces_direct_ok k ps _ _ Ew A C) as (A1 & B1 & C1);
     unfold usink; cbn [st_sink st_log set_out add_log own_stdout]; rewrite B1, B in *; auto).
Qed.

Lemma keep_getline_file s n : keep s (fst (getline_file E s n)).
Proof.
  unfold getline_file. set (s0 := if sink_busy E s n then set_unmod s else s).
  assert (H0 : keep s s0) by (subst s0; apply keep_if_unmod). clearbody s0. apply (keep_trans _ s0); auto.
  destruct (amem n (st_outs s0)); [apply keep_refl|].
  destruct (alookup n (st_ins s0)) as [i|]; cbn [fst]; [apply keep_scan_stream|].
  destruct (alookup n (st_fs s0)); cbn [fst]; [|apply keep_fields; auto].
  eapply keep_trans; [|apply keep_scan_stream]. apply keep_fields; auto.
Qed.

Lemma printrec_as_print_direct s d rec : step E s (PrintRec d rec) = step E s (Print d [rec]).
Proof.
  cbn [step]. unfold step_print. destruct (get_output_stream E s d) as [s1 [[|n]|]]; auto.
  unfold write_stdout_rec. destruct Hmode as [-> | ->]; reflexivity.
Qed.

Lemma step_print_usink k s d ps s' oc : usink k s -> step E s (Print d ps) = (s', oc) -> oc <> Fail -> usink k s'.
Proof.
  intros Hu. cbn [step]. unfold step_print.
  pose proof (keep_get_output_stream s d) as H1. destruct (get_output_stream E s d) as [s1 [[|n]|]]; cbn [fst] in *.
    + destruct (write_stdout E s1 ps) as [s2 [|]] eqn:Ew; intros H Hoc; injection H as <- <-; [|congruence].
      apply (write_stdout_usink k s1 ps s2); auto. eapply usink_keep; eauto.
    + destruct (alookup n (st_outs s1)) as [os|]; [|intros H Hoc; injection H as <- <-; congruence].
      set (s1' := add_log s1 _). pose proof (keep_write_ostream s1' n os (concat ps)) as H2.
      destruct (write_ostream _ _ _ _ _) as [s2 os']. cbn [fst] in *. intros H _; injection H as <- <-.
      eapply usink_keep; [|exact Hu]. apply (keep_trans _ s1); auto. apply (keep_trans _ s1').
      { subst s1'. apply keep_add_log. destruct (os_kind os); exact I. }
      apply (keep_trans _ s2); auto. apply keep_fields; auto.
    + intros H Hoc; injection H as <- <-; congruence.
Qed.

Lemma step_usink k s o s' oc : usink k s -> step E s o = (s', oc) -> oc <> Fail -> usink k s'.
Proof.
  intros Hu. destruct o as [d ps|n|[n|]|c|n|c| |code| |n|d rec];
    [apply step_print_usink; auto| | | | | | | | | | |rewrite printrec_as_print_direct; apply step_print_usink; auto]; cbn [step].
  - destruct (alookup n (st_ins s)) as [i|].
    + destruct (if is_cmd i then _ else _) as [code err]. intros H _; injection H as <- <-.
      eapply usink_keep; [|exact Hu]. assert (He : forall x, (if err then print_errorf E x else x) = x) by (intros; destruct err; auto using print_errorf_id).
      rewrite He. apply (keep_trans _ (set_ins s (aremove n (st_ins s)))); [apply keep_fields; auto|].
      apply (keep_trans _ (add_log (set_ins s (aremove n (st_ins s))) (EvClose n true code))); [apply keep_add_log; exact I|apply keep_fields; auto].
    + destruct (alookup n (st_outs s)) as [os|]; [|intros H _; injection H as <- <-; eapply usink_keep; [apply keep_fields; auto|exact Hu]].
      pose proof (keep_close_ostream (set_outs s (aremove n (st_outs s))) n os) as H.
      destruct (close_ostream _ _ _ _) as [[s1 code] err]. cbn [fst] in *. intros HH _; injection HH as <- <-.
      eapply usink_keep; [|exact Hu]. assert (He : forall x, (if err then print_errorf E x else x) = x) by (intros; destruct err; auto using print_errorf_id).
      rewrite He. apply (keep_trans _ (set_outs s (aremove n (st_outs s)))); [apply keep_fields; auto|].
      apply (keep_trans _ s1); auto.
      apply (keep_trans _ (add_log s1 (EvClose n false code))); [apply keep_add_log; exact I|apply keep_fields; auto].
  - destruct (alookup n (st_outs s)) as [os|]; intros H _; injection H as <- <-; (eapply usink_keep; [|exact Hu]).
    + apply (keep_trans _ (flush_named E s n os)); [apply keep_flush_named|]. apply keep_fields; auto.
    + rewrite print_errorf_id. apply keep_fields; auto.
  - pose proof (keep_flush_all s) as H. destruct (flush_all E s) as [s1 ok]. cbn [fst] in *. intros HH _; injection HH as <- <-.
    eapply usink_keep; [|exact Hu]. eapply keep_trans; eauto. apply keep_fields; auto.
  - pose proof (keep_flush_all s) as H. destruct (flush_all E s) as [s1 ok]. cbn [fst] in *.
    pose proof (keep_start_proc s1 c) as H2. destruct (start_proc E s1 c) as [s2 cg]. cbn [fst] in *.
    pose proof (child_out_silent s2 cg c) as H3. destruct (child_out E s2 cg _) as [s3 ok3]. cbn [fst] in *. subst s3.
    pose proof (child_eof_id s2 (negb ok3)) as H4. destruct (child_eof E s2 _) as [s4 ok4]. cbn [fst] in *. subst s4.
    destruct (wait_result _ _) as [code err]. intros HH _; injection HH as <- <-.
    eapply usink_keep; [|exact Hu]. assert (He : forall x, (if err then print_errorf E x else x) = x) by (intros; destruct err; auto using print_errorf_id).
    rewrite He. apply (keep_trans _ s1); [exact H|]. apply (keep_trans _ s2); [exact H2|]. apply keep_fields; auto.
  - intros H _. pose proof (keep_getline_file s n) as K. rewrite H in K. cbn [fst] in K. eapply usink_keep; eauto.
  - destruct (amem c (st_outs s)); [intros H Hoc; injection H as <- <-; congruence|].
    destruct (alookup c (st_ins s)) as [i|]; [intros H _; injection H as <- <-; eapply usink_keep; [apply keep_scan_stream|auto]|].
    rewrite flush_out_err_id.
    pose proof (keep_start_proc s c) as H2. destruct (start_proc E s c) as [s2 cg]. cbn [fst] in *.
    intros H _; injection H as <- <-. eapply usink_keep; [|exact Hu].
    apply (keep_trans _ s2); auto. eapply keep_trans; [|apply keep_scan_stream]. apply keep_fields; auto.
  - rewrite flush_out_err_id. intros H _; injection H as <- <-. eapply usink_keep; [apply keep_fields; auto|auto].
  - intros H _; injection H as <- <-. auto.
  - intros H Hoc; injection H as <- <-. congruence.
  - destruct (amem n (st_outs s)); [intros H Hoc; injection H as <- <-; congruence|].
    destruct (negb (amem n (st_ins s)) && negb (amem n (st_fs s))); [intros H _; injection H as <- <-; eapply usink_keep; [apply keep_fields; auto|auto]|].
    intros H _. pose proof (keep_getline_file (add_synced s n) n) as K. rewrite H in K. cbn [fst] in K.
    eapply usink_keep; [|exact Hu]. eapply keep_trans; [|exact K]. apply keep_fields; auto.
Qed.

Lemma exec_usink k ops : forall s s' r, usink k s -> exec E s ops = (s', r) -> r <> RError -> usink k s'.
Proof.
  induction ops as [|o ops IH]; intros s s' r Hu; cbn [exec].
  - intros H _; injection H as <- <-; auto.
  - destruct (step E s o) as [s1 [| |]] eqn:Es.
    + intros H Hr. apply (IH s1 s' r); auto. apply (step_usink k s o s1 Running); auto. discriminate.
    + intros H _; injection H as <- <-. apply (step_usink k s o s1 (Halt code)); auto. discriminate.
    + intros H Hr; injection H as <- <-. congruence.
Qed.

(* write_failure_surfaces for an unbuffered Output: if the program's own
   statements wrote more than the writer accepts, the run ends in an error *)
Theorem write_failure_unbuffered fs k ops s r :
  run E (init_state fs (Some k)) ops = (s, r) ->
  (k < length (own_stdout (st_log s)))%nat -> r = RError.
Proof.
  unfold run. destruct (exec E _ ops) as [s1 r1] eqn:Ee. intros H Hlen; injection H as <- <-.
  destruct r1 as [code|]; auto. exfalso.
  assert (H0 : usink k (init_state fs (Some k))) by (unfold usink; cbn; repeat split; auto; lia).
  pose proof (exec_usink k _ _ _ _ H0 Ee) as H1. specialize (H1 ltac:(discriminate)).
  pose proof (usink_keep k _ _ (keep_close_all s1) H1) as (_ & B & C). rewrite <- B in Hlen. lia.
Qed.
End Direct.
