(* C01: the equations between primitives on which the compiler's shortcuts rely.
   Each is a fact about the interpreter's value operations (two Go code sites that must
   agree, or an arithmetic identity); the compiler-correctness theorems take them as
   hypotheses, the harness tests each of them on the implementation (metamorphic probes),
   and [concat_indep] is the guard of the one known divergence (F-C01-3). *)
From Verif Require Import Lib.Base Model.Ast Model.Instr Model.Compiler Model.Prims.

Section PrimsOk.
  Variables value St err : Type.
  Variable P : prims value St err.

  (* v and w are interchangeable as array subscripts *)
  Definition keq (v w : value) : Prop :=
    (forall s sc i, p_array_get P s sc i v = p_array_get P s sc i w) /\
    (forall s sc i x, p_array_set P s sc i v x = p_array_set P s sc i w x) /\
    (forall s sc i, p_array_in P s sc i v = p_array_in P s sc i w) /\
    (forall s sc i, p_array_del P s sc i v = p_array_del P s sc i w) /\
    (forall s pre post, p_index_multi P s (pre ++ v :: post) = p_index_multi P s (pre ++ w :: post)).

  Record prims_ok : Prop := {
    (* boolean(b).boolean() = b *)
    ok_bool : forall b, p_to_bool P (p_of_bool P b) = b;
    (* the fused jumps compare exactly like the comparison opcodes (vm.go:384-442 vs 509-603) *)
    ok_cmpj : forall c s l r, p_cmpj P c s l r = p_cmp P c s l r;
    (* != is the negation of == (also for NaN) *)
    ok_ne : forall s l r, p_cmp P CNe s l r = negb (p_cmp P CEq s l r);
    (* augAssignOp computes what the binary opcodes compute (vm.go:1297-1320 vs 352-382) *)
    ok_aug : forall op l r, p_aug P op l r = p_arith P op l r;
    (* x + 1 and x - 1 are what Incr* adds *)
    ok_incr_add : forall v, p_arith P AAdd v (p_num P one_bits) = EOk (p_incr P 1 v);
    ok_incr_sub : forall v, p_arith P ASub v (p_num P one_bits) = EOk (p_incr P (-1) v);
    ok_incr_plus : forall a v, p_incr P a (p_plus P v) = p_incr P a v;
    (* $i with a small integer constant *)
    ok_fieldint : forall b n s, fieldint_of b = Some n -> p_get_field_int P s n = p_get_field P s (p_num P b);
    (* @"name" with a string constant *)
    ok_named_str : forall s t, p_get_named_str P s t = p_get_named P s (p_str P t);
    (* an integral numeric constant as a subscript is its decimal string *)
    ok_key : forall b t, int_index_str b = Some t -> keq (p_num P b) (p_str P t);
    (* ConcatMulti joins like nested Concat (in one state) *)
    ok_concat_multi : forall s v w vs,
      p_concat_multi P s (v :: w :: vs) = fold_left (p_concat P s) vs (p_concat P s v w)
  }.

  (* guard of F-C01-3: string conversion inside concatenation does not depend on state
     changes made while later operands of the same chain are evaluated *)
  Definition concat_indep : Prop :=
    forall s s' v w, p_concat P s v w = p_concat P s' v w.

  Lemma keq_refl v : keq v v.
  Proof. repeat split; reflexivity. Qed.

End PrimsOk.

Arguments keq {value St err}.
Arguments prims_ok {value St err}.
Arguments concat_indep {value St err}.
Arguments keq_refl {value St err}.
Arguments ok_bool {value St err P}.
Arguments ok_cmpj {value St err P}.
Arguments ok_ne {value St err P}.
Arguments ok_aug {value St err P}.
Arguments ok_incr_add {value St err P}.
Arguments ok_incr_sub {value St err P}.
Arguments ok_incr_plus {value St err P}.
Arguments ok_fieldint {value St err P}.
Arguments ok_named_str {value St err P}.
Arguments ok_key {value St err P}.
Arguments ok_concat_multi {value St err P}.
