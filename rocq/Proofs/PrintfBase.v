(* C09: basic lemmas shared by the Printf proofs: repetition / padding,
   ASCII strings and rune counting, digit strings. *)
From Verif Require Import Lib.Base Lib.Dyadic Lib.Utf8 Model.Printf Proofs.PrintfSpec.

(* ---- rep / padding ---- *)
Lemma rep_nonpos n c : n <= 0 -> rep n c = [].
Proof. intros H. unfold rep. replace (Z.to_nat n) with 0%nat by lia. reflexivity. Qed.

Lemma rep_succ n c : 0 <= n -> rep (n + 1) c = c :: rep n c.
Proof. intros H. unfold rep. replace (Z.to_nat (n + 1)) with (S (Z.to_nat n)) by lia. reflexivity. Qed.

Lemma repeat_snoc {A} (c : A) k : repeat c k ++ [c] = c :: repeat c k.
Proof. induction k as [|k IH]; cbn [repeat app]; [reflexivity|]. rewrite IH. reflexivity. Qed.

Lemma rep_snoc n c : rep n c ++ [c] = c :: rep n c.
Proof. apply repeat_snoc. Qed.

Lemma zlen_rep n c : zlen (rep n c) = Z.max 0 n.
Proof. unfold zlen, rep. rewrite repeat_length. lia. Qed.

Lemma padding_rep n c : padding n c = rep n c.
Proof.
  unfold padding, rep. destruct n as [|p|p]; cbn [Z.iter Z.to_nat]; try reflexivity.
  rewrite Pos2Nat.inj_iter. induction (Pos.to_nat p) as [|k IH]; cbn [nat_rect repeat]; [reflexivity|].
  rewrite IH. reflexivity.
Qed.

(* ---- ASCII ---- *)
Definition ascii (s : bytes) : bool := forallb (fun b => b <? 128) s.

Lemma ascii_app a b : ascii (a ++ b) = ascii a && ascii b.
Proof. apply forallb_app. Qed.

Lemma ascii_rep n c : c < 128 -> ascii (rep n c) = true.
Proof.
  intros H. unfold ascii, rep. induction (Z.to_nat n) as [|k IH]; cbn [repeat forallb]; [reflexivity|].
  rewrite IH. apply andb_true_iff; split; [apply Z.ltb_lt; exact H | reflexivity].
Qed.

Lemma runes_fuel_ascii (s : bytes) : forall fuel, (length s <= fuel)%nat -> ascii s = true ->
  runes_fuel fuel s = List.map (fun b => [b]) s.
Proof.
  induction s as [|b t IH]; intros fuel Hf Ha.
  - destruct fuel; reflexivity.
  - destruct fuel as [|fuel]; [cbn [length] in Hf; lia|].
    cbn [ascii forallb] in Ha. apply andb_true_iff in Ha as [Hb Ht].
    cbn [runes_fuel decode_rune]. rewrite Hb. cbn [snd map].
    change (ztake 1 (b :: t)) with [b]. change (zdrop 1 (b :: t)) with t.
    f_equal. apply IH; [cbn [length] in Hf; lia | exact Ht].
Qed.

Lemma runes_ascii s : ascii s = true -> runes s = List.map (fun b => [b]) s.
Proof. intros H. unfold runes. apply runes_fuel_ascii; [lia | exact H]. Qed.

Lemma rune_count_ascii s : ascii s = true -> rune_count s = zlen s.
Proof. intros H. unfold rune_count. rewrite (runes_ascii s H). unfold zlen. rewrite map_length. reflexivity. Qed.

Lemma concat_singletons (s : bytes) : concat (List.map (fun b => [b]) s) = s.
Proof. induction s as [|b t IH]; cbn [map concat app]; [reflexivity | rewrite IH; reflexivity]. Qed.

(* ---- digits ---- *)
Lemma digit_char_dchar upper d : digit_char upper d = dchar upper d.
Proof. unfold digit_char, dchar. destruct (d <? 10); [reflexivity|]. destruct upper; lia. Qed.

Lemma go_digits_to_digits fuel : forall base u upper acc, 0 <= u -> 0 < base ->
  go_digits fuel base u upper acc = to_digits_fuel fuel base u upper acc.
Proof.
  induction fuel as [|k IH]; intros base u upper acc Hu Hb; cbn [go_digits to_digits_fuel]; [reflexivity|].
  rewrite !digit_char_dchar. destruct (u <? base) eqn:E.
  - apply Z.ltb_lt in E. rewrite Z.mod_small by lia. reflexivity.
  - apply IH; [apply Z.div_pos; lia | exact Hb].
Qed.

Lemma digits_of_to_digits base u upper : 0 <= u -> 0 < base ->
  digits_of base u upper = to_digits base u upper.
Proof. intros. unfold digits_of, to_digits. apply go_digits_to_digits; assumption. Qed.

Lemma dchar_ascii upper d : 0 <= d < 16 -> dchar upper d < 128.
Proof. intros H. unfold dchar. destruct (d <? 10) eqn:E; [apply Z.ltb_lt in E; lia|]. destruct upper; lia. Qed.

Lemma to_digits_fuel_props fuel : forall base u upper acc, 0 <= u -> 2 <= base <= 16 ->
  ascii acc = true ->
  ascii (to_digits_fuel fuel base u upper acc) = true /\
  zlen acc <= zlen (to_digits_fuel fuel base u upper acc).
Proof.
  induction fuel as [|k IH]; intros base u upper acc Hu Hb Ha; cbn [to_digits_fuel]; [split; [exact Ha | lia]|].
  assert (Hd : dchar upper (u mod base) < 128).
  { apply dchar_ascii. pose proof (Z.mod_pos_bound u base ltac:(lia)). lia. }
  assert (Ha' : ascii (dchar upper (u mod base) :: acc) = true).
  { cbn [ascii forallb]. apply andb_true_iff; split; [apply Z.ltb_lt; exact Hd | exact Ha]. }
  destruct (u <? base).
  - split; [exact Ha' | rewrite zlen_cons; lia].
  - destruct (IH base (u / base) upper _ ltac:(apply Z.div_pos; lia) Hb Ha') as [H1 H2].
    split; [exact H1 | rewrite zlen_cons in H2; lia].
Qed.

Lemma to_digits_ascii base u upper : 0 <= u -> 2 <= base <= 16 -> ascii (to_digits base u upper) = true.
Proof. intros. unfold to_digits. apply to_digits_fuel_props; [assumption | assumption | reflexivity]. Qed.

Lemma to_digits_nonempty base u upper : 1 <= zlen (to_digits base u upper).
Proof.
  unfold to_digits. cbn [to_digits_fuel]. destruct (u <? base); [rewrite zlen_cons; pose proof (zlen_nonneg (@nil Z)); lia|].
  generalize (dchar upper (u mod base)). intros c.
  assert (G : forall fuel b v up acc, zlen acc <= zlen (to_digits_fuel fuel b v up acc)).
  { induction fuel as [|k IH]; intros; cbn [to_digits_fuel]; [lia|].
    destruct (v <? b); [rewrite zlen_cons; lia|]. etransitivity; [|apply IH]. rewrite zlen_cons. lia. }
  etransitivity; [|apply G]. rewrite zlen_cons. pose proof (zlen_nonneg (@nil Z)). lia.
Qed.

(* the digit string denotes u (this is what pins [to_digits] down) *)
Lemma dig_val_dchar upper d : 0 <= d < 16 -> dig_val (dchar upper d) = d.
Proof.
  intros H. unfold dig_val, dchar. destruct (d <? 10) eqn:E.
  - apply Z.ltb_lt in E. replace (48 + d <? 58) with true by (symmetry; apply Z.ltb_lt; lia). lia.
  - apply Z.ltb_ge in E. destruct upper.
    + replace (65 + (d - 10) <? 58) with false by (symmetry; apply Z.ltb_ge; lia).
      replace (65 + (d - 10) <? 91) with true by (symmetry; apply Z.ltb_lt; lia). lia.
    + replace (97 + (d - 10) <? 58) with false by (symmetry; apply Z.ltb_ge; lia).
      replace (97 + (d - 10) <? 91) with false by (symmetry; apply Z.ltb_ge; lia). lia.
Qed.

Lemma digits_value_app base a b :
  digits_value base (a ++ b) = fold_left (fun x c => x * base + dig_val c) b (digits_value base a).
Proof. unfold digits_value. apply fold_left_app. Qed.

Lemma fold_digits_shift base (l : bytes) : forall x,
  fold_left (fun a c => a * base + dig_val c) l x = x * base ^ zlen l + digits_value base l.
Proof.
  induction l as [|c t IH]; intros x.
  - unfold digits_value, zlen. cbn [fold_left length Z.of_nat]. rewrite Z.pow_0_r. lia.
  - cbn [fold_left]. rewrite IH. unfold digits_value at 2. cbn [fold_left]. rewrite (IH (0 * base + dig_val c)).
    rewrite zlen_cons. rewrite Z.pow_add_r by (pose proof (zlen_nonneg t); lia). lia.
Qed.

Lemma to_digits_fuel_value fuel : forall base u upper acc, 0 <= u -> 2 <= base <= 16 ->
  u < 2 ^ Z.of_nat fuel ->
  digits_value base (to_digits_fuel fuel base u upper acc)
  = u * base ^ zlen acc + digits_value base acc.
Proof.
  induction fuel as [|k IH]; intros base u upper acc Hu Hb Hf.
  - cbn in Hf. assert (u = 0) by lia. subst. cbn [to_digits_fuel]. lia.
  - cbn [to_digits_fuel]. pose proof (Z.mod_pos_bound u base ltac:(lia)) as Hm.
    destruct (u <? base) eqn:E.
    + apply Z.ltb_lt in E. rewrite Z.mod_small by lia.
      unfold digits_value at 1. cbn [fold_left]. rewrite fold_digits_shift.
      rewrite dig_val_dchar by lia. lia.
    + apply Z.ltb_ge in E. rewrite IH; [| apply Z.div_pos; lia | exact Hb |].
      * rewrite zlen_cons. unfold digits_value at 1. cbn [fold_left]. rewrite fold_digits_shift.
        rewrite dig_val_dchar by lia. rewrite Z.pow_add_r by (pose proof (zlen_nonneg acc); lia).
        pose proof (Z.div_mod u base ltac:(lia)). nia.
      * rewrite Nat2Z.inj_succ, Z.pow_succ_r in Hf by lia.
        apply Z.div_lt_upper_bound; [lia|]. nia.
Qed.

Theorem to_digits_value base u upper : 0 <= u -> 2 <= base <= 16 ->
  digits_value base (to_digits base u upper) = u.
Proof.
  intros Hu Hb. unfold to_digits. rewrite to_digits_fuel_value; try assumption.
  - rewrite zlen_nil. unfold digits_value. cbn. lia.
  - destruct (Z.eq_dec u 0) as [->|Hn]; [cbn; lia|].
    rewrite Nat2Z.inj_succ, Z2Nat.id by (apply Z.log2_nonneg).
    apply Z.log2_spec. lia.
Qed.

(* a pattern match on the byte '0' as a test *)
Lemma match48 {A} (l : bytes) (x y : A) :
  (match l with 48 :: _ => x | _ => y end) = match l with c :: _ => if c =? 48 then x else y | [] => y end.
Proof.
  destruct l as [|c t]; [reflexivity|].
  destruct c as [|p|p]; try reflexivity.
  destruct p as [p|p|]; try reflexivity.
  destruct p as [p|p|]; try reflexivity.
  destruct p as [p|p|]; try reflexivity.
  destruct p as [p|p|]; try reflexivity.
  destruct p as [p|p|]; try reflexivity.
  destruct p as [p|p|]; try reflexivity.
Qed.
