(* C01: the executable integer-fragment primitive record [xprims] (Model/ExecToy.v) meets
   [prims_ok] and [concat_indep]; hence the compiler-correctness theorems apply to the very
   instance the execution correspondence runs against goawk: for every program, whatever the
   tree semantics computes, the code the model compiler emits computes too. *)
From Coq Require Import ZifyBool.
From Verif Require Import Lib.Base Lib.Dyadic Model.Ast Model.Instr Model.Compiler Model.Prims Model.VM Model.AstSem
  Model.CancelToy Model.ExecToy Proofs.PrimsOk Proofs.VMLemmas Proofs.SimDefs Proofs.CompilerCorrect.

Open Scope Z_scope.

(* ---- decimal rendering read back ---- *)

Lemma digits_val_app a b acc :
  digits_val (a ++ b) acc = match digits_val a acc with Some v => digits_val b v | None => None end.
Proof.
  revert acc; induction a as [|c a IH]; intros acc; cbn [app digits_val]; [reflexivity|].
  destruct ((48 <=? c) && (c <=? 57)); [apply IH|reflexivity].
Qed.

Definition first_not_zero (ds : bytes) : Prop := match ds with c :: _ => c <> 48 | [] => False end.

Lemma pos_digits_spec f : forall n acc, 0 <= n -> n < 10 ^ Z.of_nat (S f) ->
  exists ds, pos_digits (S f) n acc = ds ++ acc /\ digits_val ds 0 = Some n /\ ds <> [] /\ (0 < n -> first_not_zero ds).
Proof.
  induction f as [|f IH]; intros n acc H0 Hlt.
  - change (Z.of_nat 1) with 1 in Hlt. change (10 ^ 1) with 10 in Hlt.
    cbn [pos_digits]. replace (n <? 10) with true by lia.
    exists [48 + n]. split; [reflexivity|]. split.
    { cbn [digits_val]. replace ((48 <=? 48 + n) && (48 + n <=? 57)) with true by lia. f_equal. lia. }
    split; [discriminate|]. intros Hp. unfold first_not_zero. lia.
  - remember (S f) as g eqn:Hg. cbn [pos_digits]. destruct (n <? 10) eqn:Hs.
    + exists [48 + n]. split; [reflexivity|]. split.
      { cbn [digits_val]. replace ((48 <=? 48 + n) && (48 + n <=? 57)) with true by lia. f_equal. lia. }
      split; [discriminate|]. intros Hp. unfold first_not_zero. lia.
    + assert (Hn10 : 10 <= n) by lia.
      assert (Hq0 : 0 < n / 10) by (apply Z.div_str_pos; lia).
      assert (Hqlt : n / 10 < 10 ^ Z.of_nat g).
      { apply Z.div_lt_upper_bound; [lia|]. replace (Z.of_nat (S g)) with (Z.succ (Z.of_nat g)) in Hlt by lia.
        rewrite Z.pow_succ_r in Hlt by lia. exact Hlt. }
      subst g.
      destruct (IH (n / 10) ((48 + n mod 10) :: acc) ltac:(lia) Hqlt) as (ds & Hds & Hv & Hne & Hfz).
      exists (ds ++ [48 + n mod 10]). split; [rewrite Hds, <- app_assoc; reflexivity|]. split.
      { rewrite digits_val_app, Hv. cbn [digits_val].
        pose proof (Z.mod_pos_bound n 10 ltac:(lia)) as Hm.
        replace ((48 <=? 48 + n mod 10) && (48 + n mod 10 <=? 57)) with true by lia.
        f_equal. pose proof (Z.div_mod n 10 ltac:(lia)). lia. }
      split; [destruct ds; discriminate|].
      intros _. specialize (Hfz Hq0). destruct ds as [|c ds]; [contradiction|exact Hfz].
Qed.

Lemma int_of_bytes_digits ds n :
  digits_val ds 0 = Some n -> ds <> [] -> (0 < n -> first_not_zero ds) -> (n = 0 -> ds = [48]) -> int_of_bytes ds = Some n.
Proof.
  intros Hv Hne Hfz Hz. destruct ds as [|c [|d ds]]; [contradiction| exact Hv |].
  unfold int_of_bytes. destruct (c =? 48) eqn:Hc; [|exact Hv].
  exfalso. destruct (Z.eq_dec n 0) as [->|Hn0]; [specialize (Hz eq_refl); discriminate|].
  assert (0 <= n).
  { clear - Hv. assert (G : forall l a v, 0 <= a -> digits_val l a = Some v -> 0 <= v).
    { induction l as [|x l IH]; intros a v Ha Hd; cbn [digits_val] in Hd; [injection Hd as <-; exact Ha|].
      destruct ((48 <=? x) && (x <=? 57)) eqn:E; [|discriminate]. eapply IH; [|exact Hd]. lia. }
    eapply G; [|exact Hv]. lia. }
  specialize (Hfz ltac:(lia)). cbn in Hfz. lia.
Qed.

Lemma pos_digits_zero f acc : pos_digits (S f) 0 acc = 48 :: acc.
Proof. reflexivity. Qed.

Lemma xstr_dec n : - 10 ^ 80 < n < 10 ^ 80 -> xstr (dec_of_Z n) = n.
Proof.
  intros Hb. unfold dec_of_Z. destruct (n <? 0) eqn:Hneg.
  - destruct (pos_digits_spec 79 (- n) [] ltac:(lia) ltac:(change (Z.of_nat 80) with 80; lia)) as (ds & Hds & Hv & Hne & Hfz).
    rewrite Hds, app_nil_r. cbn [xstr].
    rewrite (int_of_bytes_digits ds (- n) Hv Hne Hfz ltac:(lia)). lia.
  - destruct (pos_digits_spec 79 n [] ltac:(lia) ltac:(change (Z.of_nat 80) with 80; lia)) as (ds & Hds & Hv & Hne & Hfz).
    rewrite Hds, app_nil_r.
    assert (Hz : n = 0 -> ds = [48]).
    { intros ->. rewrite pos_digits_zero in Hds. rewrite app_nil_r in Hds. congruence. }
    pose proof (int_of_bytes_digits ds n Hv Hne Hfz Hz) as Hi.
    unfold xstr. destruct ds as [|c ds]; [contradiction|].
    destruct (Z.eq_dec c 45) as [->|Hc].
    + (* a digit string does not start with '-' *)
      exfalso. cbn [digits_val] in Hv. discriminate.
    + replace (match c with 45 => _ | _ => match int_of_bytes (c :: ds) with Some v => v | None => 0 end end)
        with (match int_of_bytes (c :: ds) with Some v => v | None => 0 end); [rewrite Hi; reflexivity|].
      destruct c as [|p|p]; try reflexivity.
      do 6 (destruct p as [p|p|]; try reflexivity). contradiction Hc; reflexivity.
Qed.

(* ---- prims_ok ---- *)

Lemma xkeq v w : v = w -> keq xprims v w.
Proof. intros ->. apply keq_refl. Qed.

Lemma fold_const (vs : list Z) (s : cst) : fold_left (p_concat xprims s) vs 0 = 0.
Proof. induction vs as [|v vs IH]; cbn [fold_left]; [reflexivity|exact IH]. Qed.

Lemma in_i64_bound n : in_i64 n = true -> - 10 ^ 80 < n < 10 ^ 80.
Proof.
  unfold in_i64. intros H. assert (Ht : two63 < 10 ^ 80) by (vm_compute; reflexivity).
  assert (Hn : - two63 <= n < two63) by lia. lia.
Qed.

Lemma xprims_ok : prims_ok xprims.
Proof.
  constructor.
  - intros b. destruct b; reflexivity.
  - reflexivity.
  - intros s l r. cbn. unfold ccmp. destruct (l =? r); reflexivity.
  - reflexivity.
  - intros v. cbn. reflexivity.
  - intros v. cbn. reflexivity.
  - reflexivity.
  - reflexivity.
  - reflexivity.
  - intros b t Hk. apply xkeq. cbn [xprims p_num p_str ctoy].
    unfold int_index_str in Hk. unfold int_of_bits.
    destruct (of_bits b) as [| |m e]; try discriminate.
    destruct (is_integral m e) eqn:Hi; cbn [andb] in Hk; [|discriminate].
    destruct (in_i64 (ftrunc m e)) eqn:Hb; [|discriminate]. injection Hk as <-.
    symmetry. apply xstr_dec. apply in_i64_bound. exact Hb.
  - intros s v w vs. cbn [xprims p_concat_multi p_concat ctoy]. symmetry. apply (fold_const vs s).
Qed.

Lemma xprims_indep : concat_indep xprims.
Proof. intros s s' v w. reflexivity. Qed.

(* ---- the closed corollary for one BEGIN block ---- *)

Definition end_of_x (r : AstSem.xres Z cst Z) : toy_end :=
  match r with
  | RNormal m => if clean m then TDone (ms m) else TBad 4
  | RAbort XExit m => TExit (ms m)
  | RAbort (XError e) m => TErr e (ms m)
  | RAbort _ _ => TBad 3
  | RBreak _ | RContinue _ | RReturn _ _ => TBad 3
  | RWrong => TBad 1
  | RFuel => TBad 2
  end.

Definition good_end (t : toy_end) : Prop := match t with TBad _ => False | _ => True end.

(* whatever the tree semantics computes for a program with one BEGIN block (ran to the end,
   exit, run-time error; with its final state), the code emitted by the model compiler
   computes as well, for every sufficiently large fuel *)
Theorem toy_instance_correct (p : program) (b : stmts) (n : nat) :
  p_begin p = [b] ->
  good_end (toy_ast_run n p) ->
  exists k0, forall k, (k0 <= k)%nat -> toy_vm_run k p = toy_ast_run n p.
Proof.
  intros Hb Hg. unfold toy_ast_run in *. rewrite Hb in *. cbn [ast_blocks] in *.
  assert (Hcode : c_begin (comp_program p) = comp_block b).
  { unfold comp_program. cbn [c_begin]. rewrite Hb. cbn [flat_map]. apply app_nil_r. }
  assert (HF : c_funcs (comp_program p) = F (p_funcs p)) by reflexivity.
  destruct (exec_stmts xprims (p_funcs p) n false b m_begin) as [m'|m'|m'|v m'|x m'| |] eqn:Er; cbn in Hg; try contradiction.
  - destruct (compile_block_correct Z cst Z xprims (p_funcs p) xprims_ok xprims_indep n b m_begin [] (VDone [] m')) as [k0 Hk0].
    { rewrite Er. reflexivity. }
    exists k0. intros k Hk. unfold toy_vm_run. rewrite Hcode, HF, (Hk0 k Hk). reflexivity.
  - destruct (compile_block_correct Z cst Z xprims (p_funcs p) xprims_ok xprims_indep n b m_begin [] (VAbort x m')) as [k0 Hk0].
    { rewrite Er. reflexivity. }
    exists k0. intros k Hk. unfold toy_vm_run. rewrite Hcode, HF, (Hk0 k Hk).
    destruct x; try contradiction; reflexivity.
Qed.
