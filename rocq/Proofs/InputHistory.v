(* C11: histories of Execute calls on one Interpreter.  In the model every run starts from the
   initial input state and all-false range flags, so run k is a fresh run whatever runs < k did. *)
From Verif Require Import Lib.Base Model.Input.

Section HistoryFacts.
  Variable U : Type.
  Variable step : U -> st -> req * U.
  Variable enter : blk -> U -> U.
  Variable a0 : bytes.

  (* every run of a history is executeAll from the INITIAL input state (and some program state) *)
  Lemma exec_history_fresh_input reset fuel rules has_end u0 : forall runs u,
    Forall2 (fun (r : run_in) (x : fin U) =>
               let '(e, args, sin) := r in
               exists uk, x = exec_all U step enter e fuel rules has_end uk (init_st a0 args sin))
            runs (exec_history U step enter a0 reset fuel rules has_end u0 u runs).
  Proof.
    induction runs as [|[[e args] sin] rest IH]; intros u; cbn [exec_history]; constructor.
    - exists u. reflexivity.
    - apply IH.
  Qed.

  (* with ResetVars between the runs each run is exactly the fresh run of the program *)
  Lemma exec_history_reset fuel rules has_end u0 : forall runs,
    exec_history U step enter a0 true fuel rules has_end u0 u0 runs =
    map (fun r : run_in => let '(e, args, sin) := r in
           exec_all U step enter e fuel rules has_end u0 (init_st a0 args sin)) runs.
  Proof.
    induction runs as [|[[e args] sin] rest IH]; cbn [exec_history map]; [reflexivity|]. rewrite IH. reflexivity.
  Qed.

  (* a history is processed run by run: what comes later does not influence what came before,
     and run k depends on the earlier runs only through the program state handed on *)
  Lemma exec_history_app reset fuel rules has_end u0 : forall r1 r2 u,
    exists u', exec_history U step enter a0 reset fuel rules has_end u0 u (r1 ++ r2) =
               exec_history U step enter a0 reset fuel rules has_end u0 u r1 ++
               exec_history U step enter a0 reset fuel rules has_end u0 u' r2.
  Proof.
    induction r1 as [|[[e args] sin] rest IH]; intros r2 u; cbn [app exec_history].
    - exists u. reflexivity.
    - destruct (IH r2 (if reset then u0 else
                         carry U u (exec_all U step enter e fuel rules has_end u (init_st a0 args sin)))) as [u' H].
      exists u'. rewrite H. reflexivity.
  Qed.
End HistoryFacts.

(* the script machine keeps nothing in U between blocks: senter ignores the state it is given *)
Lemma script_exec_all_any_u e p fuel rules has_end u s :
  exec_all (list stmt) (sstep p) (senter p) e fuel rules has_end u s =
  exec_all (list stmt) (sstep p) (senter p) e fuel rules has_end [] s.
Proof. reflexivity. Qed.

(* hence, with or without ResetVars, the history of a script is the list of its fresh runs:
   run k = script_exec on the inputs of run k, independent of every other run *)
Theorem script_history_is_fresh p fuel reset : forall runs u,
  exec_history (list stmt) (sstep p) (senter p) [103;111;97;119;107] reset fuel (map rule_of (sp_rules p))
               (match sp_end p with [] => false | _ => true end) [] u runs
  = script_history p fuel runs.
Proof.
  induction runs as [|[[e args] sin] rest IH]; intros u; cbn [exec_history script_history map]; [reflexivity|].
  f_equal. apply IH.
Qed.

Theorem script_history_nth p fuel runs k e args sin :
  nth_error runs k = Some (e, args, sin) ->
  nth_error (script_history p fuel runs) k = Some (script_exec e p fuel args sin).
Proof. intros H. unfold script_history. erewrite map_nth_error; [|exact H]. reflexivity. Qed.

Theorem script_history_app p fuel r1 r2 :
  script_history p fuel (r1 ++ r2) = script_history p fuel r1 ++ script_history p fuel r2.
Proof. unfold script_history. apply map_app. Qed.
