(* C06, part 1: the splitting and joining functions of Model/Fields.v obey the FS rules.
   Everything here is for ALL byte strings and match lists. *)
From Verif Require Import Lib.Base Lib.Dyadic Lib.Utf8 Lib.Regex Model.Fields.

(* ---------------------------------------------------------------------- *)
(* literal separator: strings.Split                                        *)

Lemma is_prefix_split t s : is_prefix t s = true -> s = t ++ zdrop (zlen t) s.
Proof.
  revert s; induction t as [|x t IH]; intros s H.
  - reflexivity.
  - destruct s as [|y s]; cbn [is_prefix] in H; [discriminate|].
    apply andb_true_iff in H as [H1 H2]. apply Z.eqb_eq in H1. subst y.
    rewrite zlen_cons. unfold zdrop.
    replace (Z.to_nat (1 + zlen t)) with (S (Z.to_nat (zlen t))) by (pose proof (zlen_nonneg t); lia).
    cbn [skipn app]. f_equal. apply IH. exact H2.
Qed.

Lemma is_prefix_app t s r : is_prefix t s = true -> is_prefix t (s ++ r) = true.
Proof.
  revert s; induction t as [|x t IH]; intros s H; [reflexivity|].
  destruct s as [|y s]; cbn [is_prefix] in H; [discriminate|].
  apply andb_true_iff in H as [H1 H2]. cbn [app is_prefix]. rewrite H1, (IH _ H2). reflexivity.
Qed.

Lemma is_prefix_self_app t r : is_prefix t (t ++ r) = true.
Proof. induction t as [|x t IH]; [reflexivity|]. cbn [app is_prefix]. rewrite Z.eqb_refl, IH. reflexivity. Qed.

(* find_sub returns the text before the first occurrence and the text after it *)
Lemma find_sub_some sep s a b : find_sub sep s = Some (a, b) -> s = a ++ sep ++ b.
Proof.
  revert a b; induction s as [|c s IH]; intros a b H.
  - cbn [find_sub] in H. destruct (is_prefix sep []) eqn:E; [|discriminate].
    injection H as <- <-. cbn [app]. exact (is_prefix_split _ _ E).
  - cbn [find_sub] in H. destruct (is_prefix sep (c :: s)) eqn:E.
    + injection H as <- <-. cbn [app]. exact (is_prefix_split _ _ E).
    + destruct (find_sub sep s) as [[a' b']|] eqn:F; [|discriminate].
      injection H as <- <-. cbn [app]. f_equal. apply IH. reflexivity.
Qed.

(* ... and that occurrence is the first one: no occurrence inside the text before it *)
Lemma find_sub_first sep s a b : find_sub sep s = Some (a, b) -> sep <> [] -> find_sub sep a = None.
Proof.
  intros H Hne. revert a b H; induction s as [|c s IH]; intros a b H.
  - cbn [find_sub] in H. destruct (is_prefix sep []) eqn:E; [|discriminate].
    destruct sep; [congruence|discriminate].
  - cbn [find_sub] in H. destruct (is_prefix sep (c :: s)) eqn:E.
    + injection H as <- <-. destruct sep; [congruence|reflexivity].
    + destruct (find_sub sep s) as [[a' b']|] eqn:F; [|discriminate].
      injection H as <- <-. cbn [find_sub].
      destruct (is_prefix sep (c :: a')) eqn:E2.
      * pose proof (find_sub_some _ _ _ _ F) as Hs. subst s.
        change (c :: a' ++ sep ++ b') with ((c :: a') ++ sep ++ b') in E.
        rewrite (is_prefix_app _ _ _ E2) in E. discriminate.
      * rewrite (IH _ _ eq_refl). reflexivity.
Qed.

Lemma find_sub_none_no_occurrence sep s :
  find_sub sep s = None -> forall a b, s <> a ++ sep ++ b.
Proof.
  induction s as [|c s IH]; intros H a b Heq.
  - cbn [find_sub] in H. destruct (is_prefix sep []) eqn:E; [discriminate|].
    destruct a; [|discriminate]. destruct sep; [discriminate|discriminate].
  - cbn [find_sub] in H. destruct (is_prefix sep (c :: s)) eqn:E; [discriminate|].
    destruct (find_sub sep s) as [[a' b']|] eqn:F; [discriminate|].
    destruct a as [|x a].
    + cbn [app] in Heq. rewrite Heq, is_prefix_self_app in E. discriminate.
    + cbn [app] in Heq. injection Heq as -> Hs. exact (IH eq_refl _ _ Hs).
Qed.

Lemma find_sub_shorter sep s a b :
  find_sub sep s = Some (a, b) -> sep <> [] -> (length b < length s)%nat.
Proof.
  intros H Hne. apply find_sub_some in H. subst s. rewrite !app_length.
  destruct sep; [congruence|]. cbn [length]. lia.
Qed.

(* join is a left inverse of split, for every separator and every fuel *)
Lemma join_cons sep a l : l <> [] -> join sep (a :: l) = a ++ sep ++ join sep l.
Proof. destruct l; [congruence|reflexivity]. Qed.

Lemma split_fuel_nonempty fuel sep s : split_fuel fuel sep s <> [].
Proof. destruct fuel; cbn [split_fuel]; [discriminate|]. destruct (find_sub sep s) as [[a b]|]; discriminate. Qed.

Lemma join_split_fuel fuel sep s : join sep (split_fuel fuel sep s) = s.
Proof.
  revert s; induction fuel as [|f IH]; intros s; cbn [split_fuel]; [reflexivity|].
  destruct (find_sub sep s) as [[a b]|] eqn:F; [|reflexivity].
  rewrite join_cons by apply split_fuel_nonempty. rewrite IH.
  symmetry. exact (find_sub_some _ _ _ _ F).
Qed.

Theorem join_split_lit sep s : join sep (split_lit sep s) = s.
Proof. apply join_split_fuel. Qed.

(* the fuel is never exhausted: no piece contains the separator *)
Lemma split_fuel_no_sep fuel sep s :
  sep <> [] -> (length s < fuel)%nat ->
  Forall (fun f => find_sub sep f = None) (split_fuel fuel sep s).
Proof.
  intros Hne. revert s; induction fuel as [|f IH]; intros s Hlen; [lia|].
  cbn [split_fuel]. destruct (find_sub sep s) as [[a b]|] eqn:F.
  - constructor; [exact (find_sub_first _ _ _ _ F Hne)|].
    apply IH. pose proof (find_sub_shorter _ _ _ _ F Hne). lia.
  - constructor; [exact F|constructor].
Qed.

Theorem split_lit_no_sep sep s :
  sep <> [] -> Forall (fun f => forall a b, f <> a ++ sep ++ b) (split_lit sep s).
Proof.
  intros Hne. eapply Forall_impl; [|apply (split_fuel_no_sep (S (length s)) sep s Hne); lia].
  intros f Hf. exact (find_sub_none_no_occurrence _ _ Hf).
Qed.


(* ---------------------------------------------------------------------- *)
(* FS = " ": io.go splitBlanks (runs of space, tab, newline)                *)

Definition nonspace (c : Z) : Prop := is_blank c = false.

(* the three laws that determine the function on every byte string:
   nothing from nothing; a blank-free non-empty run is one field;
   a blank between two parts separates them (and vanishes). *)
Lemma fields_bytes_run f cur inf :
  Forall nonspace f -> (f <> [] \/ inf = true) ->
  fields_bytes f cur inf = [cur ++ f].
Proof.
  revert cur inf; induction f as [|c f IH]; intros cur inf Hf Hne.
  - destruct Hne as [Hne| ->]; [congruence|]. cbn [fields_bytes]. rewrite app_nil_r. reflexivity.
  - inversion Hf as [|? ? Hc Hf']; subst. cbn [fields_bytes]. unfold nonspace in Hc. rewrite Hc.
    rewrite IH; [|exact Hf'|right; reflexivity]. rewrite <- app_assoc. reflexivity.
Qed.

Lemma fields_bytes_sep a sp b cur inf :
  is_blank sp = true ->
  fields_bytes (a ++ sp :: b) cur inf = fields_bytes a cur inf ++ fields_bytes b [] false.
Proof.
  intros Hsp. revert cur inf; induction a as [|c a IH]; intros cur inf.
  - cbn [app fields_bytes]. rewrite Hsp. destruct inf; reflexivity.
  - cbn [app fields_bytes]. destruct (is_blank c).
    + destruct inf; cbn [app]; rewrite IH; reflexivity.
    + apply IH.
Qed.

Theorem fields_bytes_nil : fields_bytes [] [] false = [].
Proof. reflexivity. Qed.

Theorem fields_bytes_one_run f :
  Forall nonspace f -> f <> [] -> fields_bytes f [] false = [f].
Proof. intros Hf Hne. rewrite fields_bytes_run; [reflexivity|exact Hf|left; exact Hne]. Qed.

Theorem fields_bytes_separator a sp b :
  is_blank sp = true ->
  fields_bytes (a ++ sp :: b) [] false = fields_bytes a [] false ++ fields_bytes b [] false.
Proof. apply fields_bytes_sep. Qed.

(* consequences: leading / trailing / repeated spaces are ignored *)
Corollary fields_bytes_leading sp b :
  is_blank sp = true -> fields_bytes (sp :: b) [] false = fields_bytes b [] false.
Proof. intros H. exact (fields_bytes_separator [] sp b H). Qed.

Corollary fields_bytes_trailing a sp :
  is_blank sp = true -> fields_bytes (a ++ [sp]) [] false = fields_bytes a [] false.
Proof. intros H. rewrite (fields_bytes_separator a sp [] H). cbn [fields_bytes]. apply app_nil_r. Qed.

(* every field is a non-empty run of non-blank bytes *)
Lemma fields_bytes_all_ok cs : forall cur inf,
  Forall nonspace cur -> (inf = false -> cur = []) -> (inf = true -> cur <> []) ->
  Forall (fun f => f <> [] /\ Forall nonspace f) (fields_bytes cs cur inf).
Proof.
  induction cs as [|c cs IH]; intros cur inf Hcur Hf Ht.
  - cbn [fields_bytes]. destruct inf; [|constructor].
    constructor; [|constructor]. split; [apply Ht; reflexivity|exact Hcur].
  - cbn [fields_bytes]. destruct (is_blank c) eqn:Ec.
    + destruct inf.
      * constructor; [split; [apply Ht; reflexivity|exact Hcur]|].
        apply IH; [constructor|reflexivity|discriminate].
      * apply IH; [constructor|reflexivity|discriminate].
    + apply IH.
      * apply Forall_app. split; [exact Hcur|constructor; [exact Ec|constructor]].
      * discriminate.
      * intros _. destruct cur; discriminate.
Qed.

Theorem fields_bytes_nonempty_spacefree cs :
  Forall (fun f => f <> [] /\ Forall nonspace f) (fields_bytes cs [] false).
Proof. apply fields_bytes_all_ok; [constructor|reflexivity|discriminate]. Qed.

(* the non-blank bytes are kept, in order, and nothing else *)
Lemma fields_bytes_concat cs : forall cur inf,
  (inf = false -> cur = []) ->
  concat (fields_bytes cs cur inf) = cur ++ filter (fun c => negb (is_blank c)) cs.
Proof.
  induction cs as [|c cs IH]; intros cur inf Hc.
  - cbn [fields_bytes filter]. destruct inf; cbn [concat]; rewrite ?app_nil_r; [reflexivity|].
    rewrite Hc; reflexivity.
  - cbn [fields_bytes filter]. destruct (is_blank c) eqn:Ec; cbn [negb].
    + destruct inf; cbn [concat]; rewrite IH by reflexivity; [reflexivity|].
      rewrite Hc; reflexivity.
    + rewrite IH by discriminate. rewrite <- app_assoc. reflexivity.
Qed.

(* utf8.DecodeRune consumes 1 to 4 bytes (used by Proofs/FieldsRegex.v) *)
Lemma decode_rune_width_pos s : s <> [] -> 1 <= snd (decode_rune s) <= 4.
Proof.
  destruct s as [|b0 t]; [congruence|intros _]. unfold decode_rune.
  repeat match goal with
         | |- context [if ?c then _ else _] => destruct c
         | |- context [match ?l with [] => _ | _ :: _ => _ end] => destruct l
         end; cbn [snd]; lia.
Qed.

(* every field of the default split is non-empty and free of blanks *)
Theorem split_blanks_fields_ok s :
  Forall (fun f => f <> [] /\ Forall nonspace f) (split_blanks s).
Proof. apply fields_bytes_nonempty_spacefree. Qed.

(* and together they are the non-blank bytes of the record, in order *)
Theorem split_blanks_concat s :
  concat (split_blanks s) = filter (fun c => negb (is_blank c)) s.
Proof. unfold split_blanks. rewrite fields_bytes_concat by reflexivity. reflexivity. Qed.

(* the separators are exactly space, tab and newline *)
Theorem is_blank_spec b : is_blank b = true <-> b = 32 \/ b = 9 \/ b = 10.
Proof.
  unfold is_blank. rewrite !orb_true_iff, !Z.eqb_eq. tauto.
Qed.

(* ---------------------------------------------------------------------- *)
(* regex FS: splitOnFieldSepRegex                                           *)

Definition sub (ln : bytes) (a b : Z) : bytes := ztake (b - a) (zdrop a ln).

(* what FindAllStringIndex is relied on for: matches in order, inside the text *)
Fixpoint matches_sorted (lo hi : Z) (ms : list (Z * Z)) : Prop :=
  match ms with
  | [] => True
  | (a, b) :: ms' => lo <= a /\ a <= b /\ b <= hi /\ matches_sorted b hi ms'
  end.

(* fields and non-empty separators alternate and concatenate back to the text *)
Fixpoint rebuild (ln : bytes) (fl : list bytes) (ms : list (Z * Z)) : bytes :=
  match fl, ms with
  | f :: fl', (a, b) :: ms' => f ++ sub ln a b ++ rebuild ln fl' ms'
  | f :: _, [] => f
  | [], _ => []
  end.

Definition nonempty_matches (ms : list (Z * Z)) : list (Z * Z) :=
  filter (fun p => negb (fst p =? snd p)) ms.

Lemma slice_ok {A} (s : list A) lo hi :
  0 <= lo -> lo <= hi -> hi <= zlen s -> slice s lo hi = Ok (ztake (hi - lo) (zdrop lo s)).
Proof.
  intros H1 H2 H3. unfold slice.
  replace (0 <=? lo) with true by (symmetry; apply Z.leb_le; lia).
  replace (lo <=? hi) with true by (symmetry; apply Z.leb_le; lia).
  replace (hi <=? zlen s) with true by (symmetry; apply Z.leb_le; lia).
  reflexivity.
Qed.

Lemma skipn_add {A} (n m : nat) (l : list A) : skipn n (skipn m l) = skipn (n + m) l.
Proof.
  revert l; induction m as [|m IH]; intros l.
  - rewrite Nat.add_0_r. reflexivity.
  - destruct l as [|x l].
    + rewrite !skipn_nil. reflexivity.
    + replace (n + S m)%nat with (S (n + m)) by lia. cbn [skipn]. apply IH.
Qed.

Lemma zdrop_split {A} (l : list A) p a :
  0 <= p -> p <= a -> a <= zlen l -> zdrop p l = ztake (a - p) (zdrop p l) ++ zdrop a l.
Proof.
  intros H1 H2 H3. unfold zdrop, ztake.
  replace (Z.to_nat a) with (Z.to_nat (a - p) + Z.to_nat p)%nat by lia.
  rewrite <- skipn_add. symmetry. apply firstn_skipn.
Qed.

Lemma split_re_go_spec ln ms : forall prev,
  0 <= prev -> matches_sorted prev (zlen ln) ms -> prev <= zlen ln ->
  exists fl, split_re_go ln ms prev = Ok fl /\
             length fl = S (length (nonempty_matches ms)) /\
             rebuild ln fl (nonempty_matches ms) = zdrop prev ln.
Proof.
  induction ms as [|[a b] ms IH]; intros prev Hp Hs Hle.
  - cbn [split_re_go]. rewrite slice_ok by lia. cbn [rbind].
    eexists. split; [reflexivity|]. split; [reflexivity|].
    cbn [rebuild nonempty_matches filter]. apply ztake_all.
    rewrite zlen_zdrop by lia. lia.
  - cbn [matches_sorted] in Hs. destruct Hs as (H1 & H2 & H3 & Hs).
    cbn [split_re_go]. destruct (a =? b) eqn:E.
    + apply Z.eqb_eq in E. subst b.
      unfold nonempty_matches. cbn [filter fst snd]. rewrite Z.eqb_refl. cbn [negb].
      apply IH; [lia| |lia].
      clear -Hs H1. destruct ms as [|[a' b'] ms]; [exact I|].
      cbn [matches_sorted] in *. intuition lia.
    + apply Z.eqb_neq in E.
      rewrite slice_ok by lia. cbn [rbind].
      destruct (IH b ltac:(lia) Hs H3) as (fl & Hfl & Hlen & Hre).
      rewrite Hfl. cbn [rbind]. eexists. split; [reflexivity|].
      unfold nonempty_matches in *. cbn [filter fst snd].
      replace (a =? b) with false by (symmetry; apply Z.eqb_neq; exact E). cbn [negb].
      split; [cbn [length]; rewrite Hlen; reflexivity|].
      cbn [rebuild]. rewrite Hre.
      symmetry. etransitivity; [apply (zdrop_split ln prev a); lia|]. f_equal.
      unfold sub. apply (zdrop_split ln a b); lia.
Qed.

Theorem split_re_rebuild ln ms :
  matches_sorted 0 (zlen ln) ms ->
  exists fl, split_re_go ln ms 0 = Ok fl /\
             length fl = S (length (nonempty_matches ms)) /\
             rebuild ln fl (nonempty_matches ms) = ln.
Proof.
  intros H. destruct (split_re_go_spec ln ms 0 ltac:(lia) H (zlen_nonneg ln)) as (fl & H1 & H2 & H3).
  exists fl. rewrite zdrop_0 in H3. auto.
Qed.

(* ---------------------------------------------------------------------- *)
(* the RS="" rule: no field keeps a newline, and a CR before it is dropped  *)

Lemma split_newlines_no_newline fl :
  Forall (fun f => forall a b, f <> a ++ [10] ++ b) (flat_map (fun f => split_lit [10] f) fl).
Proof.
  induction fl as [|f fl IH]; cbn [flat_map]; [constructor|].
  apply Forall_app. split; [|exact IH]. apply split_lit_no_sep. discriminate.
Qed.

(* strings.TrimSuffix(f, "\r") *)
Lemma trim_cr_snoc l : trim_cr (l ++ [13]) = l.
Proof.
  induction l as [|c l IH]; [reflexivity|].
  change ((c :: l) ++ [13]) with (c :: (l ++ [13])).
  destruct (l ++ [13]) as [|d r] eqn:E; [destruct l; discriminate|].
  assert (trim_cr (c :: d :: r) = c :: trim_cr (d :: r)) as Hstep.
  { cbn [trim_cr]. destruct c as [|p|p]; try reflexivity.
    repeat (destruct p as [p|p|]; try reflexivity). }
  rewrite Hstep, IH. reflexivity.
Qed.

Lemma trim_cr_incl l x : In x (trim_cr l) -> In x l.
Proof.
  induction l as [|c l IH]; [auto|].
  destruct l as [|d r].
  - intros H. assert (trim_cr [c] = [] \/ trim_cr [c] = [c]) as [E|E].
    { cbn [trim_cr]. destruct c as [|p|p]; auto. repeat (destruct p as [p|p|]; auto). }
    + rewrite E in H. destruct H.
    + rewrite E in H. exact H.
  - assert (trim_cr (c :: d :: r) = c :: trim_cr (d :: r)) as Hstep.
    { cbn [trim_cr]. destruct c as [|p|p]; try reflexivity.
      repeat (destruct p as [p|p|]; try reflexivity). }
    rewrite Hstep. intros [H|H]; [left; exact H|right; apply IH; exact H].
Qed.

(* the RS="" rule: no field keeps a newline *)
Theorem split_newlines_fields_have_no_newline fl : Forall (fun f => ~ In 10 f) (split_newlines fl).
Proof.
  unfold split_newlines. induction fl as [|f fl IH]; cbn [flat_map]; [constructor|].
  apply Forall_app. split; [|exact IH].
  apply Forall_map. pose proof (split_lit_no_sep [10] f ltac:(discriminate)) as H.
  eapply Forall_impl; [|exact H]. intros g Hg Hin.
  apply trim_cr_incl in Hin. apply in_split in Hin as (a & b & ->).
  exact (Hg a b eq_refl).
Qed.
