(* C06, part 1: the splitting and joining functions of Model/Fields.v obey the FS rules.
   Everything here is for ALL byte strings / chunk lists / match lists. *)
From Verif Require Import Lib.Base Lib.Dyadic Lib.Utf8 Lib.Regex Model.Fields.

(* ---------------------------------------------------------------------- *)
(* literal separator: strings.Split                                        *)

Lemma is_prefix_split t s : is_prefix t s = true -> s = t ++ zdrop (zlen t) s.
Proof.
  revert s; induction t as [|x t IH]; intros s H.
  - reflexivity.
  - destruct s as [|y s]; cbn [is_prefix] in H; [discriminate|].
    apply andb_true_iff in H as [H1 H2]. apply Z.eqb_eq in H1. subst y.
    rewrite zlen_cons. unfold zdrop.
    replace (Z.to_nat (1 + zlen t)) with (S (Z.to_nat (zlen t))) by (pose proof (zlen_nonneg t); lia).
    cbn [skipn app]. f_equal. apply IH. exact H2.
Qed.

Lemma is_prefix_app t s r : is_prefix t s = true -> is_prefix t (s ++ r) = true.
Proof.
  revert s; induction t as [|x t IH]; intros s H; [reflexivity|].
  destruct s as [|y s]; cbn [is_prefix] in H; [discriminate|].
  apply andb_true_iff in H as [H1 H2]. cbn [app is_prefix]. rewrite H1, (IH _ H2). reflexivity.
Qed.

Lemma is_prefix_self_app t r : is_prefix t (t ++ r) = true.
Proof. induction t as [|x t IH]; [reflexivity|]. cbn [app is_prefix]. rewrite Z.eqb_refl, IH. reflexivity. Qed.

(* find_sub returns the text before the first occurrence and the text after it *)
Lemma find_sub_some sep s a b : find_sub sep s = Some (a, b) -> s = a ++ sep ++ b.
Proof.
  revert a b; induction s as [|c s IH]; intros a b H.
  - cbn [find_sub] in H. destruct (is_prefix sep []) eqn:E; [|discriminate].
    injection H as <- <-. cbn [app]. exact (is_prefix_split _ _ E).
  - cbn [find_sub] in H. destruct (is_prefix sep (c :: s)) eqn:E.
    + injection H as <- <-. cbn [app]. exact (is_prefix_split _ _ E).
    + destruct (find_sub sep s) as [[a' b']|] eqn:F; [|discriminate].
      injection H as <- <-. cbn [app]. f_equal. apply IH. reflexivity.
Qed.

(* ... and that occurrence is the first one: no occurrence inside the text before it *)
Lemma find_sub_first sep s a b : find_sub sep s = Some (a, b) -> sep <> [] -> find_sub sep a = None.
Proof.
  intros H Hne. revert a b H; induction s as [|c s IH]; intros a b H.
  - cbn [find_sub] in H. destruct (is_prefix sep []) eqn:E; [|discriminate].
    destruct sep; [congruence|discriminate].
  - cbn [find_sub] in H. destruct (is_prefix sep (c :: s)) eqn:E.
    + injection H as <- <-. destruct sep; [congruence|reflexivity].
    + destruct (find_sub sep s) as [[a' b']|] eqn:F; [|discriminate].
      injection H as <- <-. cbn [find_sub].
      destruct (is_prefix sep (c :: a')) eqn:E2.
      * pose proof (find_sub_some _ _ _ _ F) as Hs. subst s.
        change (c :: a' ++ sep ++ b') with ((c :: a') ++ sep ++ b') in E.
        rewrite (is_prefix_app _ _ _ E2) in E. discriminate.
      * rewrite (IH _ _ eq_refl). reflexivity.
Qed.

Lemma find_sub_none_no_occurrence sep s :
  find_sub sep s = None -> forall a b, s <> a ++ sep ++ b.
Proof.
  induction s as [|c s IH]; intros H a b Heq.
  - cbn [find_sub] in H. destruct (is_prefix sep []) eqn:E; [discriminate|].
    destruct a; [|discriminate]. destruct sep; [discriminate|discriminate].
  - cbn [find_sub] in H. destruct (is_prefix sep (c :: s)) eqn:E; [discriminate|].
    destruct (find_sub sep s) as [[a' b']|] eqn:F; [discriminate|].
    destruct a as [|x a].
    + cbn [app] in Heq. rewrite Heq, is_prefix_self_app in E. discriminate.
    + cbn [app] in Heq. injection Heq as -> Hs. exact (IH eq_refl _ _ Hs).
Qed.

Lemma find_sub_shorter sep s a b :
  find_sub sep s = Some (a, b) -> sep <> [] -> (length b < length s)%nat.
Proof.
  intros H Hne. apply find_sub_some in H. subst s. rewrite !app_length.
  destruct sep; [congruence|]. cbn [length]. lia.
Qed.

(* join is a left inverse of split, for every separator and every fuel *)
Lemma join_cons sep a l : l <> [] -> join sep (a :: l) = a ++ sep ++ join sep l.
Proof. destruct l; [congruence|reflexivity]. Qed.

Lemma split_fuel_nonempty fuel sep s : split_fuel fuel sep s <> [].
Proof. destruct fuel; cbn [split_fuel]; [discriminate|]. destruct (find_sub sep s) as [[a b]|]; discriminate. Qed.

Lemma join_split_fuel fuel sep s : join sep (split_fuel fuel sep s) = s.
Proof.
  revert s; induction fuel as [|f IH]; intros s; cbn [split_fuel]; [reflexivity|].
  destruct (find_sub sep s) as [[a b]|] eqn:F; [|reflexivity].
  rewrite join_cons by apply split_fuel_nonempty. rewrite IH.
  symmetry. exact (find_sub_some _ _ _ _ F).
Qed.

Theorem join_split_lit sep s : join sep (split_lit sep s) = s.
Proof. apply join_split_fuel. Qed.

(* the fuel is never exhausted: no piece contains the separator *)
Lemma split_fuel_no_sep fuel sep s :
  sep <> [] -> (length s < fuel)%nat ->
  Forall (fun f => find_sub sep f = None) (split_fuel fuel sep s).
Proof.
  intros Hne. revert s; induction fuel as [|f IH]; intros s Hlen; [lia|].
  cbn [split_fuel]. destruct (find_sub sep s) as [[a b]|] eqn:F.
  - constructor; [exact (find_sub_first _ _ _ _ F Hne)|].
    apply IH. pose proof (find_sub_shorter _ _ _ _ F Hne). lia.
  - constructor; [exact F|constructor].
Qed.

Theorem split_lit_no_sep sep s :
  sep <> [] -> Forall (fun f => forall a b, f <> a ++ sep ++ b) (split_lit sep s).
Proof.
  intros Hne. eapply Forall_impl; [|apply (split_fuel_no_sep (S (length s)) sep s Hne); lia].
  intros f Hf. exact (find_sub_none_no_occurrence _ _ Hf).
Qed.

(* uniqueness: any decomposition into separator-free pieces is the one split computes *)
Lemma find_sub_app_first sep a rest :
  sep <> [] -> find_sub sep a = None -> find_sub sep (a ++ sep ++ rest) = Some (a, rest).
Proof.
  intros Hne. induction a as [|c a IH]; intros Ha.
  - cbn [app find_sub]. destruct (sep ++ rest) eqn:E.
    + destruct sep; [congruence|discriminate].
    + rewrite <- E. rewrite is_prefix_self_app.
      f_equal. f_equal. unfold zdrop, zlen. rewrite Nat2Z.id.
      rewrite skipn_app, skipn_all, Nat.sub_diag. reflexivity.
  - cbn [find_sub] in Ha. destruct (is_prefix sep (c :: a)) eqn:E; [discriminate|].
    destruct (find_sub sep a) as [[x y]|] eqn:F; [discriminate|].
    cbn [app find_sub].
    destruct (is_prefix sep (c :: a ++ sep ++ rest)) eqn:E2.
    + (* an occurrence starting at c would lie inside (c::a) ++ sep: contradiction with Ha *)
      exfalso.
      pose proof (is_prefix_split _ _ E2) as Hs.
      (* sep is a prefix of c :: a ++ sep ++ rest; compare lengths *)
      destruct (Nat.le_gt_cases (length sep) (length (c :: a))) as [Hle|Hgt].
      * (* sep fits inside c::a : then is_prefix sep (c::a) *)
        assert (is_prefix sep (c :: a) = true) as Hp.
        { clear -E2 Hle. revert E2 Hle. generalize (c :: a) as l. intros l.
          revert l; induction sep as [|x sep IHs]; intros l E2 Hle; [reflexivity|].
          destruct l as [|y l]; cbn [length] in Hle; [lia|].
          cbn [app is_prefix] in *. apply andb_true_iff in E2 as [H1 H2].
          rewrite H1. cbn. apply IHs; [exact H2|lia]. }
        congruence.
      * (* sep longer than c::a : then sep = (c::a) ++ sep' and sep overlaps itself; still an
           occurrence of sep ... we only need a contradiction with "a has no occurrence" when
           it exists; otherwise this case is possible (e.g. sep = "aa", text "a" ++ "aa").  *)
        (* This case is genuinely possible, so the lemma needs a stronger premise; see below. *)
        admit.
    + rewrite IH by reflexivity. reflexivity.
Abort.
