(* C08: advance/skip accounting of csvSplitter.scan.  [advance] is exactly the number of bytes
   the call consumed; without a BOM in the call, the token ($0) is cut out of the data the
   call was given - it cannot reach the bytes behind it (a neighbouring record, stale buffer
   contents) and the slice cannot panic. *)
From Verif Require Import Lib.Base Lib.Utf8 Model.Csv Proofs.CsvBase Proofs.CsvFuel.
From Coq Require Import ZifyBool.

Ltac Zify.zify_post_hook ::= Z.div_mod_to_equations.

(* utf8.DecodeRune returning a proper rune means its canonical encoding is in front *)
Lemma decode_prefix l r : next_rune l = r -> valid_rune r = true -> r <> rune_error ->
  exists t, l = encode_rune r ++ t.
Proof.
  intros H Hv He. unfold valid_rune, rune_error in *. unfold next_rune in H.
  destruct l as [|b0 t]; [cbn in H; unfold rune_error in H; lia|].
  cbn [decode_rune] in H. unfold encode_rune.
  replace ((r <? 0) || (1114111 <? r) || ((55296 <=? r) && (r <=? 57343))) with false by lia.
  destruct (Z.ltb_spec b0 128).
  { cbn [fst] in H. subst r. replace (b0 <? 128) with true by lia. exists t. reflexivity. }
  unfold in_rng, is_cont, rune_error in H.
  destruct ((194 <=? b0) && (b0 <=? 223)) eqn:E2.
  { destruct t as [|b1 t]; [cbn in H; lia|].
    destruct ((128 <=? b1) && (b1 <=? 191)) eqn:C1; [|cbn in H; lia].
    cbn [fst] in H. subst r.
    replace ((b0 - 192) * 64 + (b1 - 128) <? 128) with false by lia.
    replace ((b0 - 192) * 64 + (b1 - 128) <? 2048) with true by lia.
    exists t. cbn [app]. f_equal; [lia|]. f_equal. lia. }
  destruct ((224 <=? b0) && (b0 <=? 239)) eqn:E3.
  { destruct t as [|b1 [|b2 t]]; [cbn in H; lia | cbn in H; lia |].
    match type of H with fst (if ?cnd then _ else _) = _ => destruct cnd eqn:C1 end; [|cbn in H; lia].
    cbn [fst] in H. subst r.
    assert (Hlo : 128 <= b1 <= 191 /\ 128 <= b2 <= 191).
    { destruct (b0 =? 224), (b0 =? 237); lia. }
    assert (Hb : b0 = 224 -> 160 <= b1) by (intros ->; cbn in C1; lia).
    replace ((b0 - 224) * 4096 + (b1 - 128) * 64 + (b2 - 128) <? 128) with false by lia.
    replace ((b0 - 224) * 4096 + (b1 - 128) * 64 + (b2 - 128) <? 2048) with false by lia.
    replace ((b0 - 224) * 4096 + (b1 - 128) * 64 + (b2 - 128) <? 65536) with true by lia.
    exists t. cbn [app]. f_equal; [lia|]. f_equal; [lia|]. f_equal. lia. }
  destruct ((240 <=? b0) && (b0 <=? 244)) eqn:E4; [|cbn in H; lia].
  destruct t as [|b1 [|b2 [|b3 t]]]; [cbn in H; lia | cbn in H; lia | cbn in H; lia |].
  match type of H with fst (if ?cnd then _ else _) = _ => destruct cnd eqn:C1 end; [|cbn in H; lia].
  cbn [fst] in H. subst r.
  assert (Hlo : 128 <= b1 <= 191 /\ 128 <= b2 <= 191 /\ 128 <= b3 <= 191).
  { destruct (b0 =? 240), (b0 =? 244); lia. }
  assert (Hb : b0 = 240 -> 144 <= b1) by (intros ->; cbn in C1; lia).
  replace ((b0 - 240) * 262144 + (b1 - 128) * 4096 + (b2 - 128) * 64 + (b3 - 128) <? 128) with false by lia.
  replace ((b0 - 240) * 262144 + (b1 - 128) * 4096 + (b2 - 128) * 64 + (b3 - 128) <? 2048) with false by lia.
  replace ((b0 - 240) * 262144 + (b1 - 128) * 4096 + (b2 - 128) * 64 + (b3 - 128) <? 65536) with false by lia.
  exists t. cbn [app]. f_equal; [lia|]. f_equal; [lia|]. f_equal; [lia|]. f_equal. lia.
Qed.

Definition suffix_of (d data : bytes) : Prop := exists pre, data = pre ++ d.

Lemma suffix_refl d : suffix_of d d.
Proof. exists []. reflexivity. Qed.
Lemma suffix_trans a b d : suffix_of a b -> suffix_of b d -> suffix_of a d.
Proof. intros [p ->] [q ->]. exists (q ++ p). rewrite app_assoc. reflexivity. Qed.
Lemma suffix_nil d : suffix_of [] d.
Proof. exists d. rewrite app_nil_r. reflexivity. Qed.
Lemma suffix_of_nil d : suffix_of d [] -> d = [].
Proof. intros [p H]. symmetry in H. apply app_eq_nil in H as [_ H]. exact H. Qed.

Lemma zlen_removelast (l : bytes) : l <> [] -> zlen (removelast l) + 1 = zlen l.
Proof.
  intros H. destruct (exists_last H) as (u & x & ->). rewrite removelast_last. zl. lia.
Qed.

Lemma last_is_nonempty b l : last_is b l = true -> l <> [].
Proof. destruct l; [discriminate | discriminate]. Qed.

Lemma read_line_acct data e l d inc : read_line data e = Some (l, d, inc) ->
  zlen l + zlen d + inc = zlen data /\ suffix_of d data /\ 0 <= inc.
Proof.
  unfold read_line. destruct (cut_nl data) as [[l0 d0]|] eqn:E.
  - intros H. injection H as <- <- <-. destruct (cut_nl_some_inv _ _ _ E) as (u & _ & _ & Hd).
    split; [rewrite Hd; zl; lia|]. split; [exists l0; exact Hd | lia].
  - destruct e; [|discriminate]. destruct (last_is 13 data) eqn:L; intros H; injection H as <- <- <-.
    + pose proof (zlen_removelast data (last_is_nonempty _ _ L)). split; [zl; lia|].
      split; [apply suffix_nil | lia].
    + split; [zl; lia|]. split; [apply suffix_nil | lia].
Qed.

Section Account.
Variable c : csv_cfg.
Variable e : bool.
Hypothesis Hsep : valid_sep (c_sep c).

Lemma sep_valid_rune : valid_rune (c_sep c) = true /\ c_sep c <> rune_error.
Proof.
  pose proof Hsep as H. unfold valid_sep, valid_csv_separator in H. unfold valid_rune, rune_error in *. lia.
Qed.

Lemma sep_len_zlen : sep_len c = zlen (sep_bytes c).
Proof. apply rune_len_enc. exact Hsep. Qed.

(* what parse returns as [advance] accounts for every byte it consumed *)
Lemma parse_acct : forall f,
  (forall line data adv done cr adv' fields cr',
     parse_field c e f line data adv done cr = PDone adv' fields cr' ->
     exists dataF, suffix_of dataF data /\ adv' + zlen dataF = adv + zlen line + zlen data) /\
  (forall line data adv cur done cr adv' fields cr',
     parse_quoted c e f line data adv cur done cr = PDone adv' fields cr' ->
     exists dataF, suffix_of dataF data /\ adv' + zlen dataF = adv + zlen line + zlen data).
Proof.
  induction f as [|f [IHf IHq]]; split; intros until cr'; intros H; try discriminate.
  - rewrite parse_field_S in H. destruct (starts_quote line) eqn:Q.
    + destruct (starts_quote_inv _ Q) as [t ->]. rewrite zdrop_1_cons in H.
      destruct (IHq _ _ _ _ _ _ _ _ _ H) as (dF & Hs & Ha). exists dF. split; [exact Hs|]. zl. lia.
    + destruct (cut_sub (sep_bytes c) line) as [[field rest]|] eqn:E.
      * apply cut_sub_some_inv in E. subst line.
        destruct (IHf _ _ _ _ _ _ _ _ H) as (dF & Hs & Ha). exists dF. split; [exact Hs|].
        rewrite sep_len_zlen in Ha. zl. lia.
      * injection H as <- _ _. exists data. split; [apply suffix_refl | lia].
  - rewrite parse_quoted_S in H. destruct (cut_byte 34 line) as [[pre line1]|] eqn:E.
    + apply cut_byte_some_inv in E as [-> _]. cbv zeta in H.
      destruct (Z.eqb_spec (next_rune line1) 34) as [R34|_].
      { destruct (decode_prefix line1 34 R34 eq_refl ltac:(discriminate)) as [t ->].
        change (encode_rune 34 ++ t) with (34 :: t) in *. rewrite zdrop_1_cons in H.
        destruct (IHq _ _ _ _ _ _ _ _ _ H) as (dF & Hs & Ha). exists dF. split; [exact Hs|]. zl. lia. }
      destruct (Z.eqb_spec (next_rune line1) (c_sep c)) as [Rs|_].
      { destruct sep_valid_rune as [V1 V2].
        destruct (decode_prefix line1 _ Rs V1 V2) as [t ->]. fold (sep_bytes c) in *.
        rewrite sep_len_zlen, zdrop_app_len in H.
        destruct (IHf _ _ _ _ _ _ _ _ H) as (dF & Hs & Ha). exists dF. split; [exact Hs|]. zl. lia. }
      destruct (len_newline line1 =? zlen line1).
      { injection H as <- _ _. exists data. split; [apply suffix_refl|]. zl. lia. }
      destruct (IHq _ _ _ _ _ _ _ _ _ H) as (dF & Hs & Ha). exists dF. split; [exact Hs|]. zl. lia.
    + destruct line as [|x line].
      * injection H as <- _ _. exists data. split; [apply suffix_refl|]. zl. lia.
      * cbv zeta in H. destruct (read_line data e) as [[[l d] inc]|] eqn:R; [|discriminate].
        apply read_line_acct in R as (Rz & Rs & Ri).
        destruct (IHq _ _ _ _ _ _ _ _ _ H) as (dF & Hs & Ha). exists dF.
        split; [eapply suffix_trans; eassumption | lia].
Qed.

Lemma skip_acct : forall f data adv skip line data' adv' skip',
  skip_lines c e f data adv skip = SkLine line data' adv' skip' ->
  suffix_of data' data /\ adv' + zlen line + zlen data' = adv + zlen data /\
  skip <= skip' /\ skip' - skip <= adv' - adv.
Proof.
  induction f as [|f IH]; intros data adv skip line data' adv' skip' H; [discriminate|].
  rewrite skip_lines_S in H. destruct (read_line data e) as [[[l d] inc]|] eqn:R; [|discriminate].
  apply read_line_acct in R as (Rz & Rs & Ri). cbv zeta in H.
  destruct (zlen l =? 0); [discriminate|]. pose proof (zlen_nonneg l).
  destruct (negb (c_comment c =? 0) && (next_rune l =? c_comment c)).
  { apply IH in H as (Hs & Ha & H1 & H2). split; [eapply suffix_trans; eassumption | lia]. }
  destruct (zlen l =? len_newline l).
  { apply IH in H as (Hs & Ha & H1 & H2). split; [eapply suffix_trans; eassumption | lia]. }
  injection H as <- <- <- <-. split; [exact Rs | lia].
Qed.

End Account.

(* how the token is finished: line terminator cut off, CRs removed after a CR LF in quotes *)
Definition finish_token (cr : bool) (t : bytes) : bytes :=
  let t := ztake (zlen t - len_newline t) t in if cr then remove_cr t else t.

Lemma slice_cap_inside (l stale : bytes) nz lo hi : 0 <= lo <= hi -> hi <= zlen l -> 0 <= nz ->
  slice_cap (l ++ stale) nz lo hi = Ok (ztake (hi - lo) (zdrop lo l)).
Proof.
  intros H1 H2 H3. unfold slice_cap. pose proof (zlen_nonneg stale).
  replace ((0 <=? lo) && (lo <=? hi) && (hi <=? zlen (l ++ stale) + nz)) with true by (zl; lia).
  replace (Z.to_nat (hi - zlen (l ++ stale))) with 0%nat by (zl; lia).
  cbn [repeat]. rewrite app_nil_r. f_equal. unfold ztake, zdrop.
  rewrite skipn_app. rewrite firstn_app. rewrite skipn_length.
  replace (Z.to_nat (hi - lo) - (length l - Z.to_nat lo))%nat with 0%nat by (unfold zlen in *; lia).
  cbn [firstn]. apply app_nil_r.
Qed.

(* The accounting of one call: [advance] stays within the data, the token is the finished
   slice data[skip:advance] - whatever the buffer holds behind the data - with [skip] behind
   a BOM the call stripped, and the slice never panics. *)
Theorem scan_accounting c s data stale nz e : valid_sep (c_sep c) -> 0 <= nz ->
  match snd (scan c s data stale nz e) with
  | ORecord adv tok fields =>
      0 <= adv <= zlen data /\
      exists skip cr, 0 <= skip <= adv /\
        (negb (st_noBOM s) && prefix_of bom data = true -> 3 <= skip) /\
        tok = finish_token cr (ztake (adv - skip) (zdrop skip data))
  | OHeader adv _ => 0 <= adv <= zlen data
  | OPanic => False
  | _ => True
  end.
Proof.
  intros Hv Hnz. unfold scan.
  set (isbom := negb (st_noBOM s) && prefix_of bom data).
  set (data1 := if isbom then zdrop 3 data else data).
  set (adv0 := if isbom then 3 else 0).
  assert (Hd1 : adv0 + zlen data1 = zlen data /\ 0 <= adv0).
  { unfold adv0, data1. destruct isbom eqn:B; [|lia]. unfold isbom in B.
    apply andb_true_iff in B as [_ B]. apply prefix_of_inv in B as [t ->].
    change 3 with (zlen bom) at 2. rewrite zdrop_app_len. zl. cbn. lia. }
  destruct (e && (zlen data1 =? 0)); [exact I|].
  destruct (skip_lines c e (S (length data1)) data1 adv0 adv0) as [| |line data2 adv skip] eqn:Sk;
    [exact I | exact I |].
  apply (skip_acct c e) in Sk as (_ & Sa & S1 & S2).
  destruct (parse_field c e (S (length data1)) line data2 adv [] false) as [|adv' fields cr|] eqn:P;
    [exact I | | exact I].
  destruct (proj1 (parse_acct c e Hv _) _ _ _ _ _ _ _ _ P) as (dF & [pre Ps] & Pa).
  assert (zlen dF <= zlen data2) by (rewrite Ps; zl; pose proof (zlen_nonneg pre); lia).
  pose proof (zlen_nonneg dF). pose proof (zlen_nonneg line). pose proof (zlen_nonneg data2).
  assert (Hadv : adv0 <= skip <= adv' /\ adv' <= zlen data) by lia.
  destruct ((st_row s =? 0) && c_header c); cbn [snd]; [lia|].
  rewrite slice_cap_inside by lia. cbn [snd]. split; [lia|].
  exists skip, cr. split; [lia|]. split; [|reflexivity].
  intros B. unfold adv0 in Hadv. rewrite B in Hadv. lia.
Qed.
