(* C15: the record loop of execActions under a cancelled context.

   The loop `for { line, err := p.nextLine() ... }` does not poll the context itself; it is
   polled only through the opcodes its rules execute.  If the first rule executes at least one
   instruction per record (it has a pattern, or a body that compiled to at least one opcode),
   every record advances the shared counter and the loop returns within the instruction budget,
   however long the input is ([exec_actions_returns]).  A rule without pattern whose body
   compiled to no opcode at all (`{ {} }`), or no rule at all (END-only programs), executes
   nothing per record: the loop consumes the whole input after cancellation (refuted in
   Properties/C15.v on an endless input). *)
From Verif Require Import Lib.Base Model.Ast Model.Instr Model.Compiler Model.Prims Model.VM Model.Cancel
  Proofs.CodeAt Proofs.VMLemmas Proofs.Cancel Proofs.CancelPrompt Proofs.CancelProgram Gen.Consts.

(* the first pattern-action block executes at least one instruction for every record *)
Definition first_rule_dispatches (acts : list (list code * option code)) : Prop :=
  match acts with
  | [] => False
  | ([], Some (_ :: _)) :: _ => True
  | ([p0], _) :: _ => 0 < csize p0
  | ([p0; p1], _) :: _ => 0 < csize p0 /\ 0 < csize p1
  | _ => False
  end.

Section CancelRecords.
  Variables value St err : Type.
  Variable P : prims value St err.
  Variable F : list cfunc.
  Variable cancel_req : St -> bool.
  Variable IO : ioprims value St err.

  Notation run_ctx := (run_ctx P F cancel_req).
  Notation eval_pattern := (eval_pattern P F cancel_req).
  Notation match_pattern := (match_pattern P F cancel_req).
  Notation run_rules := (run_rules P F cancel_req IO).
  Notation exec_actions := (exec_actions P F cancel_req IO).
  Notation mstate := (mstate value St).
  Notation cres := (cres value St err).
  Notation rci := (@run_ctx_inv value St err P F cancel_req).
  Notation rcr := (@run_ctx_returns value St err P F cancel_req).
  Notation good := (@good value St err).

  (* budget left *)
  Definition left (t : Z) (cs : cstate) : Z := t + checkContextOps - 1 - clock cs.

  Definition is_ctx (x : cres) : Prop := exists m, x = CCtx m.

  (* one execute call on non-empty code: it stops with the context error, or an instruction was executed *)
  Lemma run_ctx_progress k C stk m cs x cs' :
    Inv cs -> 0 < csize C -> run_ctx k C 0 stk m cs = (x, cs') ->
    x = CRes VFuel \/ is_ctx x \/ clock cs + 1 <= clock cs'.
  Proof.
    intros HI Hc H. destruct k as [|k]; [cbn in H; inversion H; left; reflexivity|].
    rewrite run_ctx_S in H.
    destruct (csize C <=? 0) eqn:E; [apply Z.leb_le in E; lia|].
    destruct (poll cs) as [stop cs1] eqn:Ep. pose proof (poll_inv _ _ _ HI Ep) as Hp.
    destruct stop; [inversion H; subst; right; left; eexists; reflexivity|].
    destruct Hp as (HI2 & _ & Hclk). right. right.
    (* whatever the rest of the run does, the clock does not go back *)
    assert (Hrest : run_ctx (S k) C 0 stk m cs = (x, cs')).
    { rewrite run_ctx_S, E, Ep. exact H. }
    clear Hrest. cbv zeta in H.
    assert (Hmono : forall cs3, ext (tick cs1) cs3 -> clock cs + 1 <= clock cs3).
    { intros cs3 (Hc3 & _). lia. }
    remember (tick cs1) as cs2 eqn:Ecs2. clear Ecs2 Hclk Ep.
    (* re-run the tail as one run_ctx-like computation: use the invariant lemma on each branch *)
    destruct (step P F C 0 stk m) as [ip' stk' m'|r0|vsc vi keys body ipa stk0 m0|fn m1 saved ipa stk0].
    - destruct (latch_inv value St cancel_req cs2 m' HI2) as (HI3 & He3).
      destruct (rci _ _ _ _ _ _ _ _ HI3 H) as (_ & He). apply Hmono. eapply ext_trans; eassumption.
    - destruct (latch_res_inv value St err cancel_req cs2 r0 HI2) as (HI3 & He3). inversion H; subst.
      apply Hmono. exact He3.
    - apply Hmono. clear Hmono stk m. revert stk0 m0 cs2 HI2 H.
      induction keys as [|key ks IHk]; intros stk0 m0 cs2 HI2 H.
      + destruct (rci _ _ _ _ _ _ _ _ HI2 H) as (_ & He). exact He.
      + destruct (var_write P m0 vsc vi key) as [m1|e m1|]; try (inversion H; subst; apply ext_refl).
        destruct (run_ctx k body 0 stk0 m1 cs2) as [xb csb] eqn:Eb.
        destruct (rci _ _ _ _ _ _ _ _ HI2 Eb) as (Hgb & Heb).
        destruct xb as [rb|mb]; [|inversion H; subst; exact Heb].
        cbn [CancelPrompt.good] in Hgb.
        destruct rb as [stk' m2|v stk' m2|stk' m2|x0 m2| |]; try (inversion H; subst; exact Heb).
        * eapply ext_trans; [exact Heb|]. eapply IHk; eassumption.
        * destruct (rci _ _ _ _ _ _ _ _ Hgb H) as (_ & He). eapply ext_trans; eassumption.
    - apply Hmono. cbv zeta in H.
      destruct (run_ctx k (cf_body fn) 0 stk0 m1 cs2) as [xb csb] eqn:Eb.
      destruct (rci _ _ _ _ _ _ _ _ HI2 Eb) as (Hgb & Heb).
      destruct xb as [rb|mb]; [|inversion H; subst; exact Heb].
      cbn [CancelPrompt.good] in Hgb.
      destruct rb as [stk' m2|v stk' m2|stk' m2|x0 m2| |]; try (inversion H; subst; exact Heb).
      + destruct (pop_n (Z.to_nat (cf_nscalars fn)) stk' []) as [[a t0]|]; [|inversion H; subst; exact Heb].
        destruct (rci _ _ _ _ _ _ _ _ Hgb H) as (_ & He). eapply ext_trans; eassumption.
      + destruct (pop_n (Z.to_nat (cf_nscalars fn)) stk' []) as [[a t0]|]; [|inversion H; subst; exact Heb].
        destruct (rci _ _ _ _ _ _ _ _ Hgb H) as (_ & He). eapply ext_trans; eassumption.
  Qed.

  (* ---- no layer runs out of fuel under a cancelled context ---- *)

  Definition pstop (o : pout value St err) : option cres := match o with POk _ _ _ => None | PStop r => Some r end.
  Definition mstop (o : mout value St err) : option cres := match o with MOk _ _ _ _ => None | MStop r => Some r end.
  Definition lstop (o : lout value St err) : option cres := match o with LStop r => Some r | _ => None end.

  Lemma eval_pattern_returns f pat stk m cs t o cs' :
    Inv cs -> done_at cs = Some t -> left t cs < Z.of_nat f ->
    eval_pattern f pat stk m cs = (o, cs') -> pstop o <> Some (CRes VFuel).
  Proof.
    intros HI Hd Hf H. unfold Cancel.eval_pattern in H.
    destruct (run_ctx f pat 0 stk m cs) as [x csb] eqn:E.
    pose proof (rcr _ _ _ _ _ _ _ _ _ HI Hd Hf E) as Hn.
    destruct x as [r|mb]; [destruct r as [stk' m'|v stk' m'|stk' m'|x0 m'| |]; [destruct stk'|..]|];
      inversion H; subst; cbn [pstop]; try discriminate; congruence.
  Qed.

  Lemma eval_pattern_progress f pat stk m cs o cs' :
    Inv cs -> 0 < csize pat -> eval_pattern f pat stk m cs = (o, cs') ->
    pstop o = Some (CRes VFuel) \/ (exists r, pstop o = Some r /\ is_ctx r) \/ clock cs + 1 <= clock cs'.
  Proof.
    intros HI Hc H. unfold Cancel.eval_pattern in H.
    destruct (run_ctx f pat 0 stk m cs) as [x csb] eqn:E.
    destruct (run_ctx_progress _ _ _ _ _ _ _ HI Hc E) as [Hx|[(mm & Hx)|Hx]]; subst.
    - inversion H; subst. left. reflexivity.
    - inversion H; subst. right. left. eexists; split; [reflexivity|eexists; reflexivity].
    - right. right.
      destruct x as [r|mb]; [destruct r as [stk' m'|v stk' m'|stk' m'|x0 m'| |]; [destruct stk'|..]|];
        inversion H; subst; exact Hx.
  Qed.

  Lemma match_pattern_returns f pats ir stk m cs t o cs' :
    Inv cs -> done_at cs = Some t -> left t cs < Z.of_nat f ->
    match_pattern f pats ir stk m cs = (o, cs') -> mstop o <> Some (CRes VFuel).
  Proof.
    intros HI Hd Hf H. unfold Cancel.match_pattern in H.
    destruct pats as [|p0 [|p1 [|p2 ps]]].
    - inversion H; subst. discriminate.
    - destruct (eval_pattern f p0 stk m cs) as [o0 cs0] eqn:E0.
      pose proof (eval_pattern_returns _ _ _ _ _ _ _ _ HI Hd Hf E0) as Hn.
      destruct o0; inversion H; subst; cbn [mstop pstop] in *; [discriminate|exact Hn].
    - destruct ir.
      + destruct (eval_pattern f p1 stk m cs) as [o1 cs1] eqn:E1.
        pose proof (eval_pattern_returns _ _ _ _ _ _ _ _ HI Hd Hf E1) as Hn.
        destruct o1; inversion H; subst; cbn [mstop pstop] in *; [discriminate|exact Hn].
      + destruct (eval_pattern f p0 stk m cs) as [o0 cs0] eqn:E0.
        pose proof (eval_pattern_returns _ _ _ _ _ _ _ _ HI Hd Hf E0) as Hn0.
        destruct (eval_pattern_inv value St err P F cancel_req _ _ _ _ _ _ _ HI E0) as (Hg0 & He0).
        destruct o0 as [b stk' m'|r]; [|inversion H; subst; exact Hn0].
        destruct b; [|inversion H; subst; discriminate].
        cbn [goodp] in Hg0.
        assert (Hd0 : done_at cs0 = Some t) by (apply He0; exact Hd).
        assert (Hf0 : left t cs0 < Z.of_nat f) by (destruct He0 as (Hc & _); unfold left in *; lia).
        destruct (eval_pattern f p1 stk' m' cs0) as [o1 cs1] eqn:E1.
        pose proof (eval_pattern_returns _ _ _ _ _ _ _ _ Hg0 Hd0 Hf0 E1) as Hn.
        destruct o1; inversion H; subst; cbn [mstop pstop] in *; [discriminate|exact Hn].
    - inversion H; subst. discriminate.
  Qed.

  Lemma run_rules_returns f : forall acts inr stk m cs t o inr' cs',
    Inv cs -> done_at cs = Some t -> left t cs < Z.of_nat f ->
    run_rules f acts inr stk m cs = (o, inr', cs') -> lstop o <> Some (CRes VFuel).
  Proof.
    induction acts as [|[pats body] rest IH]; intros inr stk m cs t o inr' cs' HI Hd Hf H.
    - cbn in H. inversion H; subst. discriminate.
    - cbn [Cancel.run_rules] in H.
      destruct inr as [|ir inr0]; [inversion H; subst; discriminate|].
      destruct (match_pattern f pats ir stk m cs) as [om cs1] eqn:Em.
      pose proof (match_pattern_returns _ _ _ _ _ _ _ _ _ HI Hd Hf Em) as Hnm.
      destruct (match_pattern_inv value St err P F cancel_req _ _ _ _ _ _ _ _ HI Em) as (Hg1 & He1).
      destruct om as [matched ir' stk1 m1|r]; [|inversion H; subst; exact Hnm].
      cbn [goodm] in Hg1.
      assert (Hd1 : done_at cs1 = Some t) by (apply He1; exact Hd).
      assert (Hf1 : left t cs1 < Z.of_nat f) by (destruct He1 as (Hc & _); unfold left in *; lia).
      assert (Hgo : forall stk2 m2 cs2 o2 inr2 cs3, Inv cs2 -> ext cs1 cs2 ->
                (let '(o, inr'', cs3) := run_rules f rest inr0 stk2 m2 cs2 in (o, ir' :: inr'', cs3)) = (o2, inr2, cs3) ->
                lstop o2 <> Some (CRes VFuel)).
      { intros stk2 m2 cs2 o2 inr2 cs3 HI2 He2 E.
        destruct (run_rules f rest inr0 stk2 m2 cs2) as [[o3 inr3] cs4] eqn:Er. inversion E; subst.
        eapply (IH _ _ _ cs2 t); try eassumption.
        - apply He2. exact Hd1.
        - destruct He2 as (Hc & _). unfold left in *. lia. }
      destruct matched; [|eapply Hgo; [exact Hg1|apply ext_refl|exact H]].
      assert (Hprint : forall o2 inr2 cs3,
                match io_print_line IO (ms m1) with
                | (s, EOk _) => let '(o, inr'', cs3) := run_rules f rest inr0 stk1 (with_ms m1 s) cs1 in (o, ir' :: inr'', cs3)
                | (s, EErr e) => (LStop (CRes (VAbort (XError e) (with_ms m1 s))), ir' :: inr0, cs1)
                end = (o2, inr2, cs3) -> lstop o2 <> Some (CRes VFuel)).
      { intros o2 inr2 cs3 E. destruct (io_print_line IO (ms m1)) as [s [u|e]].
        - eapply Hgo; [exact Hg1|apply ext_refl|exact E].
        - inversion E; subst. discriminate. }
      destruct body as [[|i b]|]; [eapply Hprint; exact H| |eapply Hprint; exact H].
      destruct (run_ctx f (i :: b) 0 stk1 m1 cs1) as [x cs2] eqn:Eb.
      pose proof (rcr _ _ _ _ _ _ _ _ _ Hg1 Hd1 Hf1 Eb) as Hnb.
      destruct (rci _ _ _ _ _ _ _ _ Hg1 Eb) as (Hg2 & He2).
      destruct x as [r|mb]; [|inversion H; subst; discriminate].
      cbn [CancelPrompt.good] in Hg2.
      destruct r as [stk2 m2|v stk2 m2|stk2 m2|x0 m2| |]; try (inversion H; subst; cbn [lstop]; congruence).
      + eapply Hgo; [exact Hg2|exact He2|exact H].
      + destruct x0; inversion H; subst; cbn [lstop]; congruence.
  Qed.

  (* under the guard a record that does not stop the loop has advanced the clock *)
  Lemma run_rules_progress f acts inr stk m cs o inr' cs' :
    first_rule_dispatches acts -> Inv cs ->
    run_rules f acts inr stk m cs = (o, inr', cs') ->
    (exists r, lstop o = Some r) \/ clock cs + 1 <= clock cs'.
  Proof.
    intros Hg HI H. destruct acts as [|[pats body] rest]; [contradiction|].
    cbn [Cancel.run_rules] in H.
    destruct inr as [|ir inr0]; [inversion H; subst; left; eexists; reflexivity|].
    destruct (match_pattern f pats ir stk m cs) as [om cs1] eqn:Em.
    destruct (match_pattern_inv value St err P F cancel_req _ _ _ _ _ _ _ _ HI Em) as (Hg1 & He1).
    destruct om as [matched ir' stk1 m1|r]; [|inversion H; subst; left; eexists; reflexivity].
    cbn [goodm] in Hg1.
    (* the rest of the record never turns the clock back *)
    assert (Htail : forall c, clock cs + 1 <= clock c -> ext c cs' -> clock cs + 1 <= clock cs').
    { intros c Hc (Hc2 & _). lia. }
    assert (Hrest : ext cs1 cs' \/ exists r, lstop o = Some r).
    { assert (Hgo : forall stk2 m2 cs2 o2 inr2 cs3, Inv cs2 ->
                (let '(o, inr'', cs3) := run_rules f rest inr0 stk2 m2 cs2 in (o, ir' :: inr'', cs3)) = (o2, inr2, cs3) ->
                ext cs2 cs3).
      { intros stk2 m2 cs2 o2 inr2 cs3 HI2 E.
        destruct (run_rules f rest inr0 stk2 m2 cs2) as [[o3 inr3] cs4] eqn:Er. inversion E; subst.
        destruct (run_rules_inv value St err P F cancel_req IO f _ _ _ _ _ _ _ _ HI2 Er) as (_ & He). exact He. }
      destruct matched; [|left; eapply Hgo; eassumption].
      assert (Hprint : forall o2 inr2 cs3,
                match io_print_line IO (ms m1) with
                | (s, EOk _) => let '(o, inr'', cs3) := run_rules f rest inr0 stk1 (with_ms m1 s) cs1 in (o, ir' :: inr'', cs3)
                | (s, EErr e) => (LStop (CRes (VAbort (XError e) (with_ms m1 s))), ir' :: inr0, cs1)
                end = (o2, inr2, cs3) -> ext cs1 cs3).
      { intros o2 inr2 cs3 E. destruct (io_print_line IO (ms m1)) as [s [u|e]].
        - eapply Hgo; eassumption.
        - inversion E; subst. apply ext_refl. }
      destruct body as [[|i b]|]; [left; eapply Hprint; exact H| |left; eapply Hprint; exact H].
      destruct (run_ctx f (i :: b) 0 stk1 m1 cs1) as [x cs2] eqn:Eb.
      destruct (rci _ _ _ _ _ _ _ _ Hg1 Eb) as (Hg2 & He2).
      destruct x as [r|mb]; [|inversion H; subst; left; exact He2].
      cbn [CancelPrompt.good] in Hg2.
      destruct r as [stk2 m2|v stk2 m2|stk2 m2|x0 m2| |]; try (inversion H; subst; left; exact He2).
      - left. eapply ext_trans; [exact He2|]. eapply Hgo; eassumption.
      - destruct x0; inversion H; subst; left; exact He2. }
    destruct Hrest as [Hrest|Hrest]; [|left; exact Hrest].
    (* where the first instruction of the record is executed *)
    unfold first_rule_dispatches in Hg.
    destruct pats as [|p0 [|p1 [|p2 ps]]].
    - (* no pattern: the body has opcodes *)
      destruct body as [[|i b]|]; try contradiction.
      unfold Cancel.match_pattern in Em. inversion Em; subst. clear Em.
      destruct (run_ctx f (i :: b) 0 stk1 m1 cs1) as [x cs2] eqn:Eb.
      assert (Hc : 0 < csize (i :: b)).
      { rewrite csize_cons. pose proof (isize_pos i). pose proof (csize_nonneg b). lia. }
      destruct (run_ctx_progress _ _ _ _ _ _ _ HI Hc Eb) as [Hx|[(mm & Hx)|Hx]]; subst.
      + inversion H; subst. left. eexists; reflexivity.
      + inversion H; subst. left. eexists; reflexivity.
      + destruct (rci _ _ _ _ _ _ _ _ HI Eb) as (Hg2 & He2).
        destruct x as [r|mb]; [|inversion H; subst; left; eexists; reflexivity].
        cbn [CancelPrompt.good] in Hg2.
        destruct r as [stk2 m2|v stk2 m2|stk2 m2|x0 m2| |];
          try (inversion H; subst; left; eexists; reflexivity).
        * right. destruct (run_rules f rest inr0 stk2 m2 cs2) as [[o3 inr3] cs4] eqn:Er. inversion H; subst.
          destruct (run_rules_inv value St err P F cancel_req IO f _ _ _ _ _ _ _ _ Hg2 Er) as (_ & (Hc4 & _)). lia.
        * destruct x0; inversion H; subst; try (left; eexists; reflexivity); right; exact Hx.
    - (* one pattern *)
      unfold Cancel.match_pattern in Em.
      destruct (eval_pattern f p0 stk m cs) as [o0 cs0] eqn:E0.
      destruct (eval_pattern_progress _ _ _ _ _ _ _ HI Hg E0) as [Hx|[(r & Hx & _)|Hx]].
      + destruct o0; [discriminate Hx|]. inversion Em.
      + destruct o0; [discriminate Hx|]. inversion Em.
      + destruct o0; inversion Em; subst. right. destruct Hrest as (Hc & _). lia.
    - (* range pattern *)
      destruct Hg as (Hc0 & Hc1). unfold Cancel.match_pattern in Em.
      destruct ir.
      + destruct (eval_pattern f p1 stk m cs) as [o1 cs01] eqn:E1.
        destruct (eval_pattern_progress _ _ _ _ _ _ _ HI Hc1 E1) as [Hx|[(r & Hx & _)|Hx]].
        * destruct o1; [discriminate Hx|]. inversion Em.
        * destruct o1; [discriminate Hx|]. inversion Em.
        * destruct o1; inversion Em; subst. right. destruct Hrest as (Hc & _). lia.
      + destruct (eval_pattern f p0 stk m cs) as [o0 cs0] eqn:E0.
        destruct (eval_pattern_progress _ _ _ _ _ _ _ HI Hc0 E0) as [Hx|[(r & Hx & _)|Hx]].
        * destruct o0; [discriminate Hx|]. inversion Em.
        * destruct o0; [discriminate Hx|]. inversion Em.
        * destruct o0 as [b stk' m'|r]; [|inversion Em].
          destruct b.
          -- destruct (eval_pattern_inv value St err P F cancel_req _ _ _ _ _ _ _ HI E0) as (Hg0 & _). cbn [goodp] in Hg0.
             destruct (eval_pattern f p1 stk' m' cs0) as [o1 cs01] eqn:E1.
             destruct (eval_pattern_inv value St err P F cancel_req _ _ _ _ _ _ _ Hg0 E1) as (_ & (Hc01 & _)).
             destruct o1; inversion Em; subst. right. destruct Hrest as (Hc & _). lia.
          -- inversion Em; subst. right. destruct Hrest as (Hc & _). lia.
    - contradiction.
  Qed.

  Theorem exec_actions_returns f : forall n acts inr stk m cs t x cs',
    first_rule_dispatches acts ->
    Inv cs -> done_at cs = Some t -> left t cs < Z.of_nat n -> left t cs < Z.of_nat f ->
    exec_actions n f acts inr stk m cs = (x, cs') -> x <> CRes VFuel.
  Proof.
    induction n as [|n IH]; intros acts inr stk m cs t x cs' Hg HI Hd Hn Hf H.
    - pose proof (Inv_Post _ HI t Hd). unfold left in Hn. cbn in Hn. lia.
    - cbn [Cancel.exec_actions] in H.
      destruct (io_next_line IO (ms m)) as [s [[line|]|e]]; try (inversion H; subst; discriminate).
      destruct (run_rules f acts inr stk (with_ms m (io_set_record IO s line)) cs) as [[o inr'] cs1] eqn:Er.
      pose proof (run_rules_returns _ _ _ _ _ _ _ _ _ _ HI Hd Hf Er) as Hnr.
      destruct (run_rules_inv value St err P F cancel_req IO f _ _ _ _ _ _ _ _ HI Er) as (Hg1 & He1).
      destruct (run_rules_progress _ _ _ _ _ _ _ _ _ Hg HI Er) as [(r & Hr)|Hp].
      + destruct o; try discriminate Hr. inversion H; subst. cbn [lstop] in Hnr. congruence.
      + assert (Hd1 : done_at cs1 = Some t) by (apply He1; exact Hd).
        assert (Hn1 : left t cs1 < Z.of_nat n) by (unfold left in *; lia).
        assert (Hf1 : left t cs1 < Z.of_nat f) by (unfold left in *; lia).
        destruct o as [stk' m'|stk' m'|r].
        * eapply IH; eassumption.
        * eapply IH; eassumption.
        * inversion H; subst. cbn [lstop] in Hnr. congruence.
  Qed.

  (* ---- the whole call ---- *)

  Notation execute_all := (execute_all P F cancel_req IO).

  Lemma classify_fuel (r : cres) cs x fin : classify r cs = KFail x fin -> x = RFuel -> r = CRes VFuel.
  Proof.
    intros H Hx. subst x. destruct r as [r|mb]; [|cbn in H; inversion H].
    destruct r as [stk m|v stk m|stk m|x0 m| |]; [| | |destruct x0| |]; cbn [classify] in H;
      try discriminate; try reflexivity; destruct (ctx_now cs); inversion H.
  Qed.

  (* ExecuteContext with a context cancelled at t returns (BEGIN, the record loop, END), provided
     the record loop is polled: the first rule executes an instruction per record, or there is
     no record loop at all (BEGIN-only program) *)
  Theorem execute_all_returns fuel cp m0 t x fin cs' :
    first_rule_dispatches (c_actions cp) \/ (c_actions cp = [] /\ c_end cp = []) ->
    0 <= t -> t + checkContextOps - 1 < Z.of_nat fuel ->
    execute_all fuel cp m0 (cs_execute_context true (Some t)) = (x, fin, cs') -> x <> RFuel.
  Proof.
    intros Hguard Ht Hfuel H Hx.
    assert (HI0 : Inv (cs_execute_context true (Some t))).
    { apply Inv_init. intros t' E. inversion E; subst. exact Ht. }
    assert (Hd0 : done_at (cs_execute_context true (Some t)) = Some t) by reflexivity.
    assert (Hl0 : left t (cs_execute_context true (Some t)) < Z.of_nat fuel) by (unfold left; cbn; lia).
    remember (cs_execute_context true (Some t)) as cs0 eqn:Ecs0. clear Ecs0.
    unfold Cancel.execute_all in H.
    destruct (run_ctx fuel (c_begin cp) 0 [] m0 cs0) as [rb cs1] eqn:Eb.
    pose proof (rcr _ _ _ _ _ _ _ _ _ HI0 Hd0 Hl0 Eb) as Hnb.
    destruct (rci _ _ _ _ _ _ _ _ HI0 Eb) as (Hgb & Heb).
    pose proof (classify_ok value St err rb cs1 Hgb) as Hcb.
    assert (Hd1 : done_at cs1 = Some t) by (apply Heb; exact Hd0).
    assert (Hl1 : left t cs1 < Z.of_nat fuel) by (destruct Heb as (Hc & _); unfold left in *; lia).
    assert (Hend : forall stk m cs, Inv cs -> done_at cs = Some t -> left t cs < Z.of_nat fuel ->
              (let '(re, cs3) := run_ctx fuel (c_end cp) 0 stk m cs in
               match classify re cs3 with
               | KFail r fin => (r, option_map (close IO) fin, cs3)
               | KNil _ m3 | KExit m3 => (RStatus (io_exit_status IO (ms m3)), Some (close IO m3), cs3)
               end) = (x, fin, cs') -> False).
    { intros stk m cs HIc Hdc Hlc E.
      destruct (run_ctx fuel (c_end cp) 0 stk m cs) as [re cs3] eqn:Ee.
      pose proof (rcr _ _ _ _ _ _ _ _ _ HIc Hdc Hlc Ee) as Hne.
      destruct (classify re cs3) eqn:Ec; inversion E; subst; try discriminate.
      apply Hne. eapply classify_fuel; [exact Ec|reflexivity]. }
    assert (Hacts : forall stk m1, Inv cs1 ->
              forall ra cs2, exec_actions fuel fuel (c_actions cp) (repeat false (length (c_actions cp))) stk m1 cs1 = (ra, cs2) ->
              first_rule_dispatches (c_actions cp) ->
              ra <> CRes VFuel /\ good ra cs2 /\ done_at cs2 = Some t /\ left t cs2 < Z.of_nat fuel).
    { intros stk m1 HI1 ra cs2 Ex Hg.
      pose proof (exec_actions_returns fuel fuel _ _ _ _ _ _ _ _ Hg HI1 Hd1 Hl1 Hl1 Ex) as Hna.
      destruct (exec_actions_inv value St err P F cancel_req IO fuel _ _ _ _ _ _ _ _ HI1 Ex) as (Hga & Hea).
      repeat split; try assumption.
      - apply Hea. exact Hd1.
      - destruct Hea as (Hc & _). unfold left in *. lia. }
    destruct (classify rb cs1) as [stk m1|m1|r fin0] eqn:Ecb.
    - destruct Hguard as [Hg|[Ha He]].
      + destruct (c_actions cp) as [|a acts] eqn:Ea; [contradiction|].
        destruct (exec_actions fuel fuel (a :: acts) (repeat false (length (a :: acts))) stk m1 cs1) as [ra cs2] eqn:Ex.
        destruct (Hacts stk m1 Hcb ra cs2 Ex Hg) as (Hna & Hga & Hd2 & Hl2).
        pose proof (classify_ok value St err ra cs2 Hga) as Hca.
        destruct (classify ra cs2) eqn:Eca.
        * eapply Hend; eassumption.
        * eapply Hend; eassumption.
        * inversion H; subst. apply Hna. eapply classify_fuel; [exact Eca|reflexivity].
      + rewrite Ha, He in H. inversion H; subst. discriminate.
    - destruct Hguard as [Hg|[Ha He]].
      + destruct (c_actions cp) as [|a acts] eqn:Ea; [contradiction|].
        eapply Hend; eassumption.
      + rewrite Ha, He in H. inversion H; subst. discriminate.
    - inversion H; subst. apply Hnb. eapply classify_fuel; [exact Ecb|reflexivity].
  Qed.

End CancelRecords.
