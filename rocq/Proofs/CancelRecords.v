(* C15: the record loop of execActions under a cancelled context.

   The loop `for { if p.checkCtx { p.checkContext() } line, err := p.nextLine() ... }` polls the
   shared counter once per record, exactly as the dispatch loop does once per instruction: a
   record is one more step of the counter.  Every iteration therefore advances the clock, and
   under a cancelled context the loop returns within the step budget whatever the rules are
   (none at all, or a body that compiled to no opcode) and however long the input is
   ([exec_actions_returns]); so does ExecuteContext as a whole ([execute_all_returns]). *)
From Verif Require Import Lib.Base Model.Ast Model.Instr Model.Compiler Model.Prims Model.VM Model.Cancel
  Proofs.CodeAt Proofs.VMLemmas Proofs.Cancel Proofs.CancelPrompt Proofs.CancelProgram Gen.Consts.

Section CancelRecords.
  Variables value St err : Type.
  Variable P : prims value St err.
  Variable F : list cfunc.
  Variable cancel_req : St -> bool.
  Variable IO : ioprims value St err.

  Notation run_ctx := (run_ctx P F cancel_req).
  Notation eval_pattern := (eval_pattern P F cancel_req).
  Notation match_pattern := (match_pattern P F cancel_req).
  Notation run_rules := (run_rules P F cancel_req IO).
  Notation exec_actions := (exec_actions P F cancel_req IO).
  Notation mstate := (mstate value St).
  Notation cres := (cres value St err).
  Notation rci := (@run_ctx_inv value St err P F cancel_req).
  Notation rcr := (@run_ctx_returns value St err P F cancel_req).
  Notation good := (@good value St err).

  (* budget left *)
  Definition left (t : Z) (cs : cstate) : Z := t + checkContextOps - 1 - clock cs.

  (* ---- no layer runs out of fuel under a cancelled context ---- *)

  Definition pstop (o : pout value St err) : option cres := match o with POk _ _ _ | PNext _ _ _ => None | PStop r => Some r end.
  Definition mstop (o : mout value St err) : option cres := match o with MOk _ _ _ _ | MNext _ _ _ _ => None | MStop r => Some r end.
  Definition lstop (o : lout value St err) : option cres := match o with LStop r => Some r | _ => None end.

  Lemma eval_pattern_returns f pat stk m cs t o cs' :
    Inv cs -> done_at cs = Some t -> left t cs < Z.of_nat f ->
    eval_pattern f pat stk m cs = (o, cs') -> pstop o <> Some (CRes VFuel).
  Proof.
    intros HI Hd Hf H. unfold Cancel.eval_pattern in H.
    destruct (run_ctx f pat 0 stk m cs) as [x csb] eqn:E.
    pose proof (rcr _ _ _ _ _ _ _ _ _ HI Hd Hf E) as Hn.
    destruct x as [r|mb]; [destruct r as [stk' m'|v stk' m'|stk' m'|x0 m'| |]; [destruct stk'| | |destruct x0| |]|];
      inversion H; subst; cbn [pstop]; try discriminate; congruence.
  Qed.

  Lemma match_pattern_returns f pats ir stk m cs t o cs' :
    Inv cs -> done_at cs = Some t -> left t cs < Z.of_nat f ->
    match_pattern f pats ir stk m cs = (o, cs') -> mstop o <> Some (CRes VFuel).
  Proof.
    intros HI Hd Hf H. unfold Cancel.match_pattern in H.
    destruct pats as [|p0 [|p1 [|p2 ps]]].
    - inversion H; subst. discriminate.
    - destruct (eval_pattern f p0 stk m cs) as [o0 cs0] eqn:E0.
      pose proof (eval_pattern_returns _ _ _ _ _ _ _ _ HI Hd Hf E0) as Hn.
      destruct o0; inversion H; subst; cbn [mstop pstop] in *; [discriminate|discriminate|exact Hn].
    - destruct ir.
      + destruct (eval_pattern f p1 stk m cs) as [o1 cs1] eqn:E1.
        pose proof (eval_pattern_returns _ _ _ _ _ _ _ _ HI Hd Hf E1) as Hn.
        destruct o1; inversion H; subst; cbn [mstop pstop] in *; [discriminate|discriminate|exact Hn].
      + destruct (eval_pattern f p0 stk m cs) as [o0 cs0] eqn:E0.
        pose proof (eval_pattern_returns _ _ _ _ _ _ _ _ HI Hd Hf E0) as Hn0.
        destruct (eval_pattern_inv value St err P F cancel_req _ _ _ _ _ _ _ HI E0) as (Hg0 & He0).
        destruct o0 as [b stk' m'|fl stk' m'|r]; [|inversion H; subst; discriminate|inversion H; subst; exact Hn0].
        destruct b; [|inversion H; subst; discriminate].
        cbn [goodp] in Hg0.
        assert (Hd0 : done_at cs0 = Some t) by (apply He0; exact Hd).
        assert (Hf0 : left t cs0 < Z.of_nat f) by (destruct He0 as (Hc & _); unfold left in *; lia).
        destruct (eval_pattern f p1 stk' m' cs0) as [o1 cs1] eqn:E1.
        pose proof (eval_pattern_returns _ _ _ _ _ _ _ _ Hg0 Hd0 Hf0 E1) as Hn.
        destruct o1; inversion H; subst; cbn [mstop pstop] in *; [discriminate|discriminate|exact Hn].
    - inversion H; subst. discriminate.
  Qed.

  Lemma run_rules_returns f : forall acts inr stk m cs t o inr' cs',
    Inv cs -> done_at cs = Some t -> left t cs < Z.of_nat f ->
    run_rules f acts inr stk m cs = (o, inr', cs') -> lstop o <> Some (CRes VFuel).
  Proof.
    induction acts as [|[pats body] rest IH]; intros inr stk m cs t o inr' cs' HI Hd Hf H.
    - cbn in H. inversion H; subst. discriminate.
    - cbn [Cancel.run_rules] in H.
      destruct inr as [|ir inr0]; [inversion H; subst; discriminate|].
      destruct (match_pattern f pats ir stk m cs) as [om cs1] eqn:Em.
      pose proof (match_pattern_returns _ _ _ _ _ _ _ _ _ HI Hd Hf Em) as Hnm.
      destruct (match_pattern_inv value St err P F cancel_req _ _ _ _ _ _ _ _ HI Em) as (Hg1 & He1).
      destruct om as [matched ir' stk1 m1|fl ir' stk1 m1|r];
        [|destruct fl; inversion H; subst; discriminate|inversion H; subst; exact Hnm].
      cbn [goodm] in Hg1.
      assert (Hd1 : done_at cs1 = Some t) by (apply He1; exact Hd).
      assert (Hf1 : left t cs1 < Z.of_nat f) by (destruct He1 as (Hc & _); unfold left in *; lia).
      assert (Hgo : forall stk2 m2 cs2 o2 inr2 cs3, Inv cs2 -> ext cs1 cs2 ->
                (let '(o, inr'', cs3) := run_rules f rest inr0 stk2 m2 cs2 in (o, ir' :: inr'', cs3)) = (o2, inr2, cs3) ->
                lstop o2 <> Some (CRes VFuel)).
      { intros stk2 m2 cs2 o2 inr2 cs3 HI2 He2 E.
        destruct (run_rules f rest inr0 stk2 m2 cs2) as [[o3 inr3] cs4] eqn:Er. inversion E; subst.
        eapply (IH _ _ _ cs2 t); try eassumption.
        - apply He2. exact Hd1.
        - destruct He2 as (Hc & _). unfold left in *. lia. }
      destruct matched; [|eapply Hgo; [exact Hg1|apply ext_refl|exact H]].
      assert (Hprint : forall o2 inr2 cs3,
                match io_print_line IO (ms m1) with
                | (s, EOk _) => let '(o, inr'', cs3) := run_rules f rest inr0 stk1 (with_ms m1 s) cs1 in (o, ir' :: inr'', cs3)
                | (s, EErr e) => (LStop (CRes (VAbort (XError e) (with_ms m1 s))), ir' :: inr0, cs1)
                end = (o2, inr2, cs3) -> lstop o2 <> Some (CRes VFuel)).
      { intros o2 inr2 cs3 E. destruct (io_print_line IO (ms m1)) as [s [u|e]].
        - eapply Hgo; [exact Hg1|apply ext_refl|exact E].
        - inversion E; subst. discriminate. }
      destruct body as [[|i b]|]; [eapply Hprint; exact H| |eapply Hprint; exact H].
      destruct (run_ctx f (i :: b) 0 stk1 m1 cs1) as [x cs2] eqn:Eb.
      pose proof (rcr _ _ _ _ _ _ _ _ _ Hg1 Hd1 Hf1 Eb) as Hnb.
      destruct (rci _ _ _ _ _ _ _ _ Hg1 Eb) as (Hg2 & He2).
      destruct x as [r|mb]; [|inversion H; subst; discriminate].
      cbn [CancelPrompt.good] in Hg2.
      destruct r as [stk2 m2|v stk2 m2|stk2 m2|x0 m2| |]; try (inversion H; subst; cbn [lstop]; congruence).
      + eapply Hgo; [exact Hg2|exact He2|exact H].
      + destruct x0; inversion H; subst; cbn [lstop]; congruence.
  Qed.

  Theorem exec_actions_returns f : forall n acts inr stk m cs t x cs',
    Inv cs -> done_at cs = Some t -> left t cs < Z.of_nat n -> left t cs < Z.of_nat f ->
    exec_actions n f acts inr stk m cs = (x, cs') -> x <> CRes VFuel.
  Proof.
    induction n as [|n IH]; intros acts inr stk m cs t x cs' HI Hd Hn Hf H.
    - pose proof (Inv_Post _ HI t Hd). unfold left in Hn. cbn in Hn. lia.
    - cbn [Cancel.exec_actions] in H.
      destruct (poll cs) as [stop cs0] eqn:Ep. pose proof (poll_inv _ _ _ HI Ep) as Hp.
      destruct stop; [inversion H; subst; discriminate|].
      destruct Hp as (HI2 & Hext2 & Hclk).
      assert (Hd2 : done_at (tick cs0) = Some t) by (apply Hext2; exact Hd).
      assert (Hn2 : left t (tick cs0) < Z.of_nat n) by (unfold left in *; lia).
      assert (Hf2 : left t (tick cs0) < Z.of_nat f) by (unfold left in *; lia).
      remember (tick cs0) as cs2 eqn:Ecs2. clear Ecs2 Ep Hclk Hext2 cs0.
      destruct (io_next_line IO (ms m)) as [s [[line|]|e]]; try (inversion H; subst; discriminate).
      destruct (run_rules f acts inr stk (with_ms m (io_set_record IO s line)) cs2) as [[o inr'] cs1] eqn:Er.
      pose proof (run_rules_returns _ _ _ _ _ _ _ _ _ _ HI2 Hd2 Hf2 Er) as Hnr.
      destruct (run_rules_inv value St err P F cancel_req IO f _ _ _ _ _ _ _ _ HI2 Er) as (Hg1 & He1).
      assert (Hd1 : done_at cs1 = Some t) by (apply He1; exact Hd2).
      assert (Hn1 : left t cs1 < Z.of_nat n) by (destruct He1 as (Hc & _); unfold left in *; lia).
      assert (Hf1 : left t cs1 < Z.of_nat f) by (destruct He1 as (Hc & _); unfold left in *; lia).
      destruct o as [stk' m'|stk' m'|r].
      + eapply IH; eassumption.
      + eapply IH; eassumption.
      + inversion H; subst. cbn [lstop] in Hnr. congruence.
  Qed.

  (* ---- the whole call ---- *)

  Notation execute_all := (execute_all P F cancel_req IO).

  Lemma classify_fuel (r : cres) cs x fin : classify r cs = KFail x fin -> x = RFuel -> r = CRes VFuel.
  Proof.
    intros H Hx. subst x. destruct r as [r|mb]; [|cbn in H; inversion H].
    destruct r as [stk m|v stk m|stk m|x0 m| |]; [| | |destruct x0| |]; cbn [classify] in H;
      try discriminate; try reflexivity; destruct (ctx_now cs); inversion H.
  Qed.

  (* ExecuteContext with a context cancelled at t returns: BEGIN, the record loop and END all end
     within the step budget (fuel is only the evaluator's recursion bound) *)
  Theorem execute_all_returns fuel cp m0 t x fin cs' :
    0 <= t -> t + checkContextOps - 1 < Z.of_nat fuel ->
    execute_all fuel cp m0 (cs_execute_context true (Some t)) = (x, fin, cs') -> x <> RFuel.
  Proof.
    intros Ht Hfuel H Hx.
    assert (HI0 : Inv (cs_execute_context true (Some t))).
    { apply Inv_init. intros t' E. inversion E; subst. exact Ht. }
    assert (Hd0 : done_at (cs_execute_context true (Some t)) = Some t) by reflexivity.
    assert (Hl0 : left t (cs_execute_context true (Some t)) < Z.of_nat fuel) by (unfold left; cbn; lia).
    remember (cs_execute_context true (Some t)) as cs0 eqn:Ecs0. clear Ecs0.
    unfold Cancel.execute_all in H.
    destruct (run_ctx fuel (c_begin cp) 0 [] m0 cs0) as [rb cs1] eqn:Eb.
    pose proof (rcr _ _ _ _ _ _ _ _ _ HI0 Hd0 Hl0 Eb) as Hnb.
    destruct (rci _ _ _ _ _ _ _ _ HI0 Eb) as (Hgb & Heb).
    pose proof (classify_ok value St err rb cs1 Hgb) as Hcb.
    assert (Hd1 : done_at cs1 = Some t) by (apply Heb; exact Hd0).
    assert (Hl1 : left t cs1 < Z.of_nat fuel) by (destruct Heb as (Hc & _); unfold left in *; lia).
    assert (Hend : forall stk m cs, Inv cs -> done_at cs = Some t -> left t cs < Z.of_nat fuel ->
              (let '(re, cs3) := run_ctx fuel (c_end cp) 0 stk m cs in
               match classify re cs3 with
               | KFail r fin => (r, option_map (close IO) fin, cs3)
               | KNil _ m3 | KExit m3 => (RStatus (io_exit_status IO (ms m3)), Some (close IO m3), cs3)
               end) = (x, fin, cs') -> False).
    { intros stk m cs HIc Hdc Hlc E.
      destruct (run_ctx fuel (c_end cp) 0 stk m cs) as [re cs3] eqn:Ee.
      pose proof (rcr _ _ _ _ _ _ _ _ _ HIc Hdc Hlc Ee) as Hne.
      destruct (classify re cs3) eqn:Ec; inversion E; subst; try discriminate.
      apply Hne. eapply classify_fuel; [exact Ec|reflexivity]. }
    assert (Hacts : forall acts inr stk m1, Inv cs1 ->
              forall ra cs2, exec_actions fuel fuel acts inr stk m1 cs1 = (ra, cs2) ->
              ra <> CRes VFuel /\ good ra cs2 /\ done_at cs2 = Some t /\ left t cs2 < Z.of_nat fuel).
    { intros acts inr stk m1 HI1 ra cs2 Ex.
      pose proof (exec_actions_returns fuel fuel _ _ _ _ _ _ _ _ HI1 Hd1 Hl1 Hl1 Ex) as Hna.
      destruct (exec_actions_inv value St err P F cancel_req IO fuel _ _ _ _ _ _ _ _ HI1 Ex) as (Hga & Hea).
      repeat split; try assumption.
      - apply Hea. exact Hd1.
      - destruct Hea as (Hc & _). unfold left in *. lia. }
    destruct (classify rb cs1) as [stk m1|m1|r fin0] eqn:Ecb.
    - destruct (c_actions cp) as [|a acts] eqn:Ea.
      + destruct (c_end cp) as [|i e] eqn:Ee; [inversion H; subst; discriminate|].
        cbn [length repeat] in H.
        destruct (exec_actions fuel fuel [] [] stk m1 cs1) as [ra cs2] eqn:Ex.
        destruct (Hacts _ _ stk m1 Hcb ra cs2 Ex) as (Hna & Hga & Hd2 & Hl2).
        pose proof (classify_ok value St err ra cs2 Hga) as Hca.
        destruct (classify ra cs2) eqn:Eca.
        * eapply Hend; eassumption.
        * eapply Hend; eassumption.
        * inversion H; subst. apply Hna. eapply classify_fuel; [exact Eca|reflexivity].
      + destruct (exec_actions fuel fuel (a :: acts) (repeat false (length (a :: acts))) stk m1 cs1) as [ra cs2] eqn:Ex.
        destruct (Hacts _ _ stk m1 Hcb ra cs2 Ex) as (Hna & Hga & Hd2 & Hl2).
        pose proof (classify_ok value St err ra cs2 Hga) as Hca.
        destruct (classify ra cs2) eqn:Eca.
        * eapply Hend; eassumption.
        * eapply Hend; eassumption.
        * inversion H; subst. apply Hna. eapply classify_fuel; [exact Eca|reflexivity].
    - destruct (c_actions cp) as [|a acts] eqn:Ea.
      + destruct (c_end cp) as [|i e] eqn:Ee; [inversion H; subst; discriminate|].
        eapply Hend; eassumption.
      + eapply Hend; eassumption.
    - inversion H; subst. apply Hnb. eapply classify_fuel; [exact Ecb|reflexivity].
  Qed.

End CancelRecords.
