(* C01: the toy instance meets [prims_ok]; the state-independent one also [concat_indep]. *)
From Verif Require Import Lib.Base Lib.Dyadic Model.Ast Model.Instr Model.Compiler Model.Prims Model.PrimsToy Proofs.PrimsOk.

Lemma toy_keq cc v w : keq (toy cc) v w.
Proof. repeat split; intros; cbn; try reflexivity. unfold zlen. rewrite !app_length. reflexivity. Qed.

Lemma toy_ok cc : prims_ok (toy cc).
Proof.
  constructor; intros; cbn.
  - destruct b; reflexivity.
  - reflexivity.
  - reflexivity.
  - reflexivity.
  - reflexivity.
  - reflexivity.
  - reflexivity.
  - reflexivity.
  - reflexivity.
  - apply toy_keq.
  - reflexivity.
Qed.

Lemma toy_plain_indep : concat_indep toy_plain.
Proof. intros s s' v w. reflexivity. Qed.
